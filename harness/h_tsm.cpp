// Correspondence harness for the target/source variant (C09): TbfTreeTsm + TbfAlgorithmTsm / TbfOpenmpAlgorithmTsm
// with the recording kernel.  Build: g++ -std=c++17 -I/repo/src -DDIM=<d> -DPERIODIC=<0|1> [-DUSE_OMP -fopenmp mock_gomp.cpp]
#include <iostream>
#include <sstream>
#include <vector>
#include <array>
#include <string>
#include <memory>
#include <map>
#include <optional>
#include <cstdlib>

#include "tbfglobal.hpp"
#include "spacial/tbfmortonspaceindex.hpp"
#include "spacial/tbfspacialconfiguration.hpp"
#include "core/tbfcellscontainer.hpp"
#include "core/tbfparticlescontainer.hpp"
#include "core/tbfparticlesorter.hpp"
#include "core/tbftree.hpp"
#include "core/tbftreetsm.hpp"
#include "algorithms/tbfalgorithmutils.hpp"
#include "algorithms/sequential/tbfalgorithmtsm.hpp"
#ifdef USE_OMP
#include "algorithms/openmp/tbfopenmpalgorithmtsm.hpp"
#include "mock_gomp.h"
#endif
#ifdef USE_STARPU
#include "algorithms/smstarpu/tbfsmstarpualgorithmtsm.hpp"   // <starpu.h> resolves to harness/mock_starpu/starpu.h
#endif
#ifdef USE_SPECX
#include "algorithms/smspecx/tbfsmspecxalgorithmtsm.hpp"     // <Legacy/SpRuntime.hpp> resolves to harness/mock_specx/
#endif

#if PERIODIC
#include "algorithms/periodic/tbfalgorithmperiodictoptreetsm.hpp"
#endif
#include "reckernel.hpp"

#ifndef DIM
#define DIM 3
#endif
#ifndef PERIODIC
#define PERIODIC 0
#endif

using RealType = double;
constexpr long int Dim = DIM;
using Config = TbfSpacialConfiguration<RealType, Dim>;
using SpaceIndex = TbfMortonSpaceIndex<Dim, Config, (PERIODIC != 0)>;
using Kernel = RecKernel<RealType, SpaceIndex>;
using Tree = TbfTreeTsm<RealType, RealType, Dim, slot_t, NSLOT, Cnt, Cnt, SpaceIndex>;
using Geom = RecGeom<RealType, Dim>;

static long kv(const std::vector<std::string>& ts, const std::string& key, long dflt){
    for(const auto& t : ts){ if(t.rfind(key + "=", 0) == 0) return std::stol(t.substr(key.size()+1)); }
    return dflt;
}

// the flag set of an exec line: alias=<name> takes the library's own named constant (TbfAlgorithmUtils::TbfOperations), flags=<n> a number
static int flagsOf(const std::vector<std::string>& ts){
    for(const auto& t : ts){
        if(t.rfind("alias=", 0) == 0){
            const std::string a = t.substr(6);
            if(a == "p2p") return TbfAlgorithmUtils::TbfP2P;
            if(a == "p2m") return TbfAlgorithmUtils::TbfP2M;
            if(a == "m2m") return TbfAlgorithmUtils::TbfM2M;
            if(a == "m2l") return TbfAlgorithmUtils::TbfM2L;
            if(a == "l2l") return TbfAlgorithmUtils::TbfL2L;
            if(a == "l2p") return TbfAlgorithmUtils::TbfL2P;
            if(a == "b2t") return TbfAlgorithmUtils::TbfBottomToTopStages;
            if(a == "transfer") return TbfAlgorithmUtils::TbfTransferStages;
            if(a == "t2b") return TbfAlgorithmUtils::TbfTopToBottomStages;
            if(a == "near") return TbfAlgorithmUtils::TbfNearField;
            if(a == "far") return TbfAlgorithmUtils::TbfFarField;
            if(a == "all") return TbfAlgorithmUtils::TbfNearAndFarFields;
        }
    }
    return int(kv(ts, "flags", 63));
}

// alias=default: execute() is called without a flag argument (the library's default: the whole algorithm)
template <class AlgoClass, class TreeClass> static void execWith(AlgoClass& algo, TreeClass& tree, const std::vector<std::string>& ts){
    for(const auto& t : ts){ if(t == "alias=default"){ algo.execute(tree); return; } }
    algo.execute(tree, flagsOf(ts));
}

struct Case {
    long H = 3;
    std::vector<std::array<RealType, Dim>> src, tgt;
    std::unique_ptr<Config> config;
    std::unique_ptr<Tree> tree;
};

template <class Groups, class PGroups>
static void dumpOne(const char* pre, long H, Groups&& cellGroupsAt, PGroups& pgroups){
    std::cout << pre << "S T " << H << " " << pgroups.size() << "\n";
    for(long l = 0 ; l < H ; ++l){
        auto& groups = cellGroupsAt(l);
        std::cout << pre << "S L " << l << " " << groups.size() << "\n";
        long gi = 0;
        for(auto& g : groups){
            std::cout << pre << "S G " << l << " " << gi << " " << g.getStartingSpacialIndex() << " " << g.getEndingSpacialIndex() << " " << g.getNbCells() << " :";
            for(long c = 0 ; c < g.getNbCells() ; ++c) std::cout << " " << g.getCellSpacialIndex(c);
            std::cout << "\n";
            ++gi;
        }
    }
    long gi = 0;
    for(auto& g : pgroups){
        std::cout << pre << "S P " << gi << " " << g.getStartingSpacialIndex() << " " << g.getEndingSpacialIndex() << " " << g.getNbLeaves() << " " << g.getNbParticles() << " :";
        for(long lf = 0 ; lf < g.getNbLeaves() ; ++lf){
            std::vector<long> ps(g.getParticleIndexes(lf), g.getParticleIndexes(lf) + g.getNbParticlesInLeaf(lf));
            std::sort(ps.begin(), ps.end());
            std::cout << " " << g.getLeafSpacialIndex(lf) << "=";
            for(size_t k = 0 ; k < ps.size() ; ++k) std::cout << (k ? "," : "") << ps[k];
        }
        std::cout << "\n";
        ++gi;
    }
}

static void tagCells(Tree& tree){
    tree.applyToAllCellsSource([](const long int level, auto&& header, auto multipole, auto){
        if(multipole){ (*multipole).get().level = level; (*multipole).get().idx = header.spaceIndex; }
    });
    tree.applyToAllCellsTarget([](const long int level, auto&& header, auto, auto local){
        if(local){ (*local).get().level = level; (*local).get().idx = header.spaceIndex; }
    });
}

static void dumpValues(Tree& tree){
    tree.applyToAllCellsSource([&](const long int level, auto&& header, auto multipole, auto){
        std::cout << "V M " << level << " " << header.spaceIndex << " " << hexOfCnt((*multipole).get().cnt) << "\n";
    });
    tree.applyToAllCellsTarget([&](const long int level, auto&& header, auto, auto local){
        std::cout << "V L " << level << " " << header.spaceIndex << " " << hexOfCnt((*local).get().cnt) << "\n";
    });
    std::map<long, std::string> r;
    tree.applyToAllLeavesTarget([&](auto&& leafHeader, const long int* particleIndexes, auto, auto rhs){
        for(long p = 0 ; p < leafHeader.nbParticles ; ++p){
            slot_t c[NSLOT];
            for(int s = 0 ; s < NSLOT ; ++s) c[s] = rhs[s][p];
            r[particleIndexes[p]] = hexOfCnt(c);
        }
    });
    for(auto& kvp : r) std::cout << "V R " << kvp.first << " " << kvp.second << "\n";
    // sources and their cells receive no results: the source tree has no local / rhs storage at all
    long srcStorage = 0;
    tree.applyToAllCellsSource([&](const long int, auto&&, auto, auto local){ if(local && sizeof((*local).get()) > 1) ++srcStorage; });
    if(srcStorage) std::cout << "X source cells own local expansions\n";
}

static void __attribute__((noinline)) poisonStack(){
    volatile unsigned char buf[32768];
    for(size_t k = 0 ; k < sizeof(buf) ; ++k) buf[k] = 0xAB;
    asm volatile("" ::: "memory");
}

static void flushLog(){
    for(auto& s : RecLog::lines()) std::cout << s << "\n";
    for(auto& s : RecLog::errors()) std::cout << s << "\n";
    RecLog::lines().clear();
    RecLog::errors().clear();
}

static void readParts(const std::vector<std::string>& ts, long H, std::vector<std::array<RealType, Dim>>& out){
    const long n = std::stol(ts[1]);
    out.resize(n);
    const RealType w = RealType(1) / RealType(1L << (H - 1));
    for(long i = 0 ; i < n ; ++i) for(long d = 0 ; d < Dim ; ++d) out[i][d] = (RealType(std::stol(ts[2 + i*Dim + d])) + RealType(0.5)) * w;
}

int main(){
    std::ios::sync_with_stdio(false);
    Case cs;
    std::string line;
    while(std::getline(std::cin, line)){
        std::istringstream iss(line);
        std::vector<std::string> ts;
        { std::string t; while(iss >> t) ts.push_back(t); }
        if(ts.empty()) continue;
        const std::string& op = ts[0];
        if(op == "case"){
            cs = Case();
            std::cout << "==";
            for(size_t k = 1 ; k < ts.size() ; ++k) std::cout << " " << ts[k];
            std::cout << "\n";
        }
        else if(op == "tree"){
            if(kv(ts, "D", 3) != Dim || kv(ts, "periodic", 0) != PERIODIC || kv(ts, "slotbits", 16) != SLOTBITS){ std::cout << "bad-config\n"; continue; }
            cs.H = kv(ts, "H", 3);
            std::array<RealType, Dim> widths, center;
            for(long d = 0 ; d < Dim ; ++d){ widths[d] = 1; center[d] = 0.5; }
            cs.config.reset(new Config(cs.H, widths, center));
            Geom::height() = cs.H;
            for(long d = 0 ; d < Dim ; ++d){
                Geom::corner()[d] = cs.config->getBoxCorner()[d];
                Geom::leafWidth()[d] = cs.config->getLeafWidths()[d];
                Geom::boxWidth()[d] = cs.config->getBoxWidths()[d];
            }
            Geom::original() = nullptr;
        }
        else if(op == "partsS"){ readParts(ts, cs.H, cs.src); }
        else if(op == "partsT"){ readParts(ts, cs.H, cs.tgt); }
        else if(op == "buildtsm"){
            // auto=1: no block size given (TbfBlockSizeFinder::EstimateTsm decides)
            cs.tree.reset(new Tree(*cs.config, cs.src, cs.tgt, kv(ts, "auto", 0) ? -1 : kv(ts, "bs", 1), kv(ts, "mode", 0) != 0));
            if(kv(ts, "auto", 0)) std::cout << "B " << cs.tree->getNbElementsPerGroupSource() << " " << cs.tree->getNbElementsPerGroupTarget() << "\n";
            tagCells(*cs.tree);
        }
        else if(op == "dump" && ts.size() > 1 && ts[1] == "tsmstructure"){
            dumpOne("s", cs.tree->getHeight(), [&](long l) -> auto& { return cs.tree->getCellGroupsAtLevelSource(l); }, cs.tree->getParticleGroupsSource());
            dumpOne("t", cs.tree->getHeight(), [&](long l) -> auto& { return cs.tree->getCellGroupsAtLevelTarget(l); }, cs.tree->getParticleGroupsTarget());
        }
        else if(op == "dump" && ts.size() > 1 && ts[1] == "tsmvalues"){ dumpValues(*cs.tree); }
        else if(op == "exec" && ts.size() > 1 && ts[1] == "tsm"){
            const long ctor = kv(ts, "ctor", 0);       // as in h_core: 1 (configuration, kernel), 2 (configuration), 3 (configuration, kernel, upper)
            std::unique_ptr<TbfAlgorithmTsm<RealType, Kernel, SpaceIndex>> algo;
            if(ctor == 1){ std::unique_ptr<Kernel> k(new Kernel(*cs.config)); algo.reset(new TbfAlgorithmTsm<RealType, Kernel, SpaceIndex>(*cs.config, *k)); }
            else if(ctor == 2) algo.reset(new TbfAlgorithmTsm<RealType, Kernel, SpaceIndex>(*cs.config));
            else if(ctor == 3){ std::unique_ptr<Kernel> k(new Kernel(*cs.config)); algo.reset(new TbfAlgorithmTsm<RealType, Kernel, SpaceIndex>(*cs.config, *k, kv(ts, "upper", 2))); }
            else algo.reset(new TbfAlgorithmTsm<RealType, Kernel, SpaceIndex>(*cs.config, kv(ts, "upper", 2)));
            execWith(*algo, *cs.tree, ts);
            flushLog();
        }
#ifdef USE_SPECX
        else if(op == "exec" && ts.size() > 1 && ts[1] == "specxtsm"){
            mock_specx_configure(int(kv(ts, "sched", 0)), (unsigned long)kv(ts, "seed", 1), int(kv(ts, "workers", 1)));
            {
                std::unique_ptr<TbfSmSpecxAlgorithmTsm<RealType, Kernel, SpaceIndex>> algo(new TbfSmSpecxAlgorithmTsm<RealType, Kernel, SpaceIndex>(*cs.config, kv(ts, "upper", 2)));
                execWith(*algo, *cs.tree, ts);
            }
            flushLog();
        }
#endif
#ifdef USE_STARPU
        else if(op == "exec" && ts.size() > 1 && ts[1] == "starputsm"){
            mock_starpu_configure(int(kv(ts, "sched", 0)), (unsigned long)kv(ts, "seed", 1), int(kv(ts, "workers", 1)));
            {
                std::unique_ptr<TbfSmStarpuAlgorithmTsm<RealType, Kernel, SpaceIndex>> algo(new TbfSmStarpuAlgorithmTsm<RealType, Kernel, SpaceIndex>(*cs.config, kv(ts, "upper", 2)));
                execWith(*algo, *cs.tree, ts);
            }
            flushLog();
        }
#endif
#ifdef USE_OMP
        else if(op == "exec" && ts.size() > 1 && ts[1] == "omptsm"){
            MockConfig mc; mc.schedule = int(kv(ts, "sched", 0)); mc.seed = (unsigned long)kv(ts, "seed", 1); mc.nworkers = int(kv(ts, "workers", 1));
            MockConfig mcc = mc; mcc.nworkers = int(kv(ts, "cworkers", mc.nworkers));
            mock_gomp_configure(mcc);
            std::unique_ptr<TbfOpenmpAlgorithmTsm<RealType, Kernel, SpaceIndex>> algo(new TbfOpenmpAlgorithmTsm<RealType, Kernel, SpaceIndex>(*cs.config, kv(ts, "upper", 2)));
            mock_gomp_configure(mc);
            execWith(*algo, *cs.tree, ts);
            flushLog();
        }
#endif
#if PERIODIC
        else if(op == "exec" && ts.size() > 1 && ts[1] == "periodictsm"){
            const long n = kv(ts, "n", 0);
            using TopAlgo = TbfAlgorithmPeriodicTopTreeTsm<RealType, Kernel, Cnt, Cnt, SpaceIndex>;
            std::unique_ptr<TopAlgo> top(new TopAlgo(*cs.config, n));
            const auto iv = top->getRepetitionsIntervals();
            std::cout << "PI " << top->getNbRepetitionsPerDim() << " " << top->getNbTotalRepetitions();
            for(long d = 0 ; d < Dim ; ++d) std::cout << " " << iv.first[d] << ":" << iv.second[d];
            std::cout << "\n";
            // what the kernel the top tree built for itself was constructed from (unit box: widths and centres are integers / halves)
            top->applyToAllKernels([&](const auto& k){ std::cout << "TK " << k.cfgHeight << " " << long(k.cfgWidth0) << " " << long(2 * (k.cfgCenter0 - Geom::corner()[0])) << "\n"; });
            auto stage = [&](int flags){
                std::unique_ptr<TbfAlgorithmTsm<RealType, Kernel, SpaceIndex>> algo(new TbfAlgorithmTsm<RealType, Kernel, SpaceIndex>(*cs.config, TbfDefaultLastLevelPeriodic));
                algo->execute(*cs.tree, flags);
            };
            stage(TbfAlgorithmUtils::TbfBottomToTopStages);
            RecLog::topTree() = true;
            poisonStack();
            top->execute(*cs.tree);
            RecLog::topTree() = false;
            stage(TbfAlgorithmUtils::TbfTransferStages);
            stage(TbfAlgorithmUtils::TbfTopToBottomStages);
            flushLog();
        }
#endif
        else if(op == "find" && ts.size() > 3 && ts[1] == "tsmcell"){
            const bool S = ts[2] == "S";
            const long l = std::stol(ts[3]);
            for(size_t k = 4 ; k < ts.size() ; ++k){
                const long i = std::stol(ts[k]);
                if(S){
                    auto found = cs.tree->findGroupWithCellSource(l, i);
                    if(found){ auto& groups = cs.tree->getCellGroupsAtLevelSource(l); std::cout << "F CS " << l << " " << i << " " << (&((*found).first.get()) - &groups[0]) << " " << (*found).second << "\n"; }
                    else std::cout << "F CS " << l << " " << i << " none\n";
                }
                else{
                    auto found = cs.tree->findGroupWithCellTarget(l, i);
                    if(found){ auto& groups = cs.tree->getCellGroupsAtLevelTarget(l); std::cout << "F CT " << l << " " << i << " " << (&((*found).first.get()) - &groups[0]) << " " << (*found).second << "\n"; }
                    else std::cout << "F CT " << l << " " << i << " none\n";
                }
            }
        }
        else if(op == "find" && ts.size() > 2 && ts[1] == "tsmleaf"){
            const bool S = ts[2] == "S";
            for(size_t k = 3 ; k < ts.size() ; ++k){
                const long i = std::stol(ts[k]);
                if(S){
                    auto found = cs.tree->findGroupWithLeafSource(i);
                    if(found){ auto& groups = cs.tree->getParticleGroupsSource(); std::cout << "F PS " << i << " " << (&((*found).first.get()) - &groups[0]) << " " << (*found).second << "\n"; }
                    else std::cout << "F PS " << i << " none\n";
                }
                else{
                    auto found = cs.tree->findGroupWithLeafTarget(i);
                    if(found){ auto& groups = cs.tree->getParticleGroupsTarget(); std::cout << "F PT " << i << " " << (&((*found).first.get()) - &groups[0]) << " " << (*found).second << "\n"; }
                    else std::cout << "F PT " << i << " none\n";
                }
            }
        }
        else if(op == "mark"){ std::cout << "M " << (ts.size() > 1 ? ts[1] : "") << "\n"; }
        else if(op == "end"){ std::cout << "end\n"; }
        else{ std::cout << "bad-op " << line << "\n"; }
    }
    return 0;
}
