// C19: the Hilbert ordering as a template configuration: trees of heights 2..6 built with it store every particle once
// under a leaf whose header is consistent (box coordinate <-> index), and a complete run of the sequential executor
// with the counting kernel gives every particle N-1.  Prints "bad=<n>".
#include <iostream>
#include <vector>
#include <array>
#include <set>
#include <random>
#include "tbfglobal.hpp"
#include "utils/tbfutils.hpp"
#include "spacial/tbfmortonspaceindex.hpp"
#include "spacial/tbfspacialconfiguration.hpp"
#include "spacial/tbfhilbertspaceindex.hpp"
#include "core/tbfcellscontainer.hpp"
#include "core/tbfparticlescontainer.hpp"
#include "core/tbfparticlesorter.hpp"
#include "core/tbftree.hpp"
#include "algorithms/sequential/tbfalgorithm.hpp"
#include "kernels/testkernel/tbftestkernel.hpp"

int main(int argc, char** argv){
    constexpr long Dim = 3;
    using RealType = double;
    using Config = TbfSpacialConfiguration<RealType, Dim>;
    using Hilbert = TbfHilbertSpaceIndex<Dim, Config>;
    using Tree = TbfTree<RealType, RealType, Dim, long int, 1, std::array<long int, 1>, std::array<long int, 1>, Hilbert>;
    const unsigned long seed = argc > 1 ? std::stoul(argv[1]) : 1;
    const std::array<RealType, Dim> widths{{1, 1, 1}}, center{{0.5, 0.5, 0.5}};
    long bad = 0, runs = 0;
    std::mt19937_64 rng(seed);
    std::uniform_real_distribution<RealType> uni(0, 1);
    for(long H = 2 ; H <= 6 ; ++H){
        for(int kind = 0 ; kind < 3 ; ++kind){
            std::vector<std::array<RealType, Dim>> parts;
            if(kind == 0 && H <= 5){      // one particle per leaf
                const long n = 1L << (H-1);
                for(long x = 0 ; x < n ; ++x) for(long y = 0 ; y < n ; ++y) for(long z = 0 ; z < n ; ++z)
                    parts.push_back({{(x+0.5)/RealType(n), (y+0.5)/RealType(n), (z+0.5)/RealType(n)}});
            }
            else{
                const long n = (kind == 1 ? 300 : 1500);
                for(long i = 0 ; i < n ; ++i) parts.push_back({{uni(rng), uni(rng), uni(rng)}});
            }
            for(long bs : {7L, 100000L}){
                const Config config(H, widths, center);
                const Hilbert hil(config);
                Tree tree(config, parts, bs, kind == 2);
                std::multiset<long> seen;
                for(auto& g : tree.getParticleGroups()){
                    for(long lf = 0 ; lf < g.getNbLeaves() ; ++lf){
                        const auto coord = g.getLeafBoxCoord(lf);
                        if(hil.getIndexFromBoxPos(coord) != g.getLeafSpacialIndex(lf)) ++bad;
                        const auto back = hil.getBoxPosFromIndex(g.getLeafSpacialIndex(lf));
                        for(long d = 0 ; d < Dim ; ++d) if(back[d] != coord[d]) { ++bad; break; }
                        for(long p = 0 ; p < g.getNbParticlesInLeaf(lf) ; ++p) seen.insert(g.getParticleIndexes(lf)[p]);
                    }
                }
                if(seen.size() != parts.size()) ++bad;
                for(long i = 0 ; i < (long)parts.size() ; ++i) if(seen.count(i) != 1) { ++bad; break; }
                TbfAlgorithm<RealType, TbfTestKernel<RealType, Hilbert>, Hilbert> algo(config);
                algo.execute(tree);
                tree.applyToAllLeaves([&](auto&& leafHeader, const long int*, auto, auto rhs){
                    for(long p = 0 ; p < leafHeader.nbParticles ; ++p) if(rhs[0][p] != (long)parts.size() - 1) ++bad;
                });
                ++runs;
            }
        }
    }
    std::cout << "runs=" << runs << " bad=" << bad << "\n";
    return bad == 0 ? 0 : 1;
}
