// API-compatible mock of the StarPU subset used by tbfmm's smstarpu executors (see ../mock_starpu.cpp):
// tasks are recorded by starpu_insert_task and run at starpu_task_wait_for_all in a configurable legal order.
#ifndef MOCK_STARPU_H
#define MOCK_STARPU_H
#include <cstdint>
#include <cstddef>
#include <cstring>
#define STARPU_MAXIMPLEMENTATIONS 4
#define STARPU_NMAXBUFS 8
enum starpu_data_access_mode { STARPU_NONE = 0, STARPU_R = 1, STARPU_W = 2, STARPU_RW = 3, STARPU_SCRATCH = 4, STARPU_REDUX = 8, STARPU_COMMUTE = 16 };
#define STARPU_VALUE (1<<20)
#define STARPU_PRIORITY (2<<20)
#define STARPU_NAME (3<<20)
#define STARPU_CPU 2
#define STARPU_CUDA 8
#define STARPU_MAIN_RAM 0
enum starpu_worker_archtype { STARPU_CPU_WORKER = 0, STARPU_CUDA_WORKER = 1 };
enum starpu_perfmodel_type { STARPU_PERFMODEL_INVALID = 0, STARPU_PER_ARCH, STARPU_COMMON, STARPU_HISTORY_BASED, STARPU_REGRESSION_BASED, STARPU_NL_REGRESSION_BASED };
struct starpu_perfmodel { starpu_perfmodel_type type; const char* symbol; };
typedef void (*starpu_cpu_func_t)(void**, void*);
struct starpu_codelet {
    uint32_t where;
    starpu_cpu_func_t cpu_funcs[STARPU_MAXIMPLEMENTATIONS];
    int nbuffers;
    starpu_data_access_mode modes[STARPU_NMAXBUFS];
    starpu_perfmodel* model;
    const char* name;
};
struct mock_starpu_handle;
typedef mock_starpu_handle* starpu_data_handle_t;
struct starpu_variable_interface { uintptr_t ptr; size_t elemsize; };
#define STARPU_VARIABLE_GET_PTR(i) (((starpu_variable_interface*)(i))->ptr)
#define STARPU_VARIABLE_GET_ELEMSIZE(i) (((starpu_variable_interface*)(i))->elemsize)
struct starpu_conf;
extern "C" {
int starpu_init(starpu_conf*);
void starpu_shutdown(void);
void starpu_pause(void);
void starpu_resume(void);
void starpu_variable_data_register(starpu_data_handle_t*, int home_node, uintptr_t ptr, size_t size);
void starpu_data_unregister(starpu_data_handle_t);
int starpu_data_acquire(starpu_data_handle_t, starpu_data_access_mode);
void starpu_data_release(starpu_data_handle_t);
int starpu_insert_task(starpu_codelet*, ...);
int starpu_task_insert(starpu_codelet*, ...);
void starpu_codelet_unpack_args(void* cl_arg, ...);
int starpu_task_wait_for_all(void);
int starpu_worker_get_id(void);
unsigned starpu_worker_get_count(void);
unsigned starpu_cpu_worker_get_count(void);
int starpu_worker_get_count_by_type(starpu_worker_archtype);
void starpu_execute_on_each_worker(void (*func)(void*), void* arg, uint32_t where);
}
// ---- configuration of the mock (not part of StarPU) ----
extern "C" {
enum MockStarpuSchedule { MSP_FIFO = 0, MSP_LIFO = 1, MSP_RANDOM = 2, MSP_PRIO_INV = 3, MSP_PRIO = 4 };
void mock_starpu_configure(int schedule, unsigned long seed, int nworkers);
long mock_starpu_total_run(void);
}
#endif
