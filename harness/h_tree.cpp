// Correspondence harness for construction / rebuild / bulk export with arbitrary boxes, float or
// double coordinates, a particle data type different from the coordinate type, extra data values and
// 0..4 result values (C06, C13, C17).  Same line protocol idea as h_core.cpp.
// Build: g++ -std=c++17 -I/repo/src -DDIM=<d> -DREAL=<float|double> -DDATA=<float|double> -DNEXTRA=<k> -DNRHS=<r> -DPERIODIC=<0|1>
#include <iostream>
#include <sstream>
#include <vector>
#include <array>
#include <string>
#include <memory>
#include <map>
#include <cstring>
#include <cstdint>
#include <algorithm>

#include "tbfglobal.hpp"
#include "spacial/tbfmortonspaceindex.hpp"
#include "spacial/tbfspacialconfiguration.hpp"
#include "core/tbfcellscontainer.hpp"
#include "core/tbfparticlescontainer.hpp"
#include "core/tbfparticlesorter.hpp"
#include "core/tbftree.hpp"
#include "core/tbftreetsm.hpp"
#include "algorithms/tbfalgorithmutils.hpp"
#include "algorithms/sequential/tbfalgorithm.hpp"
#include "algorithms/sequential/tbfalgorithmtsm.hpp"
#include "kernels/testkernel/tbftestkernel.hpp"

#ifndef DIM
#define DIM 3
#endif
#ifndef REAL
#define REAL double
#endif
#ifndef DATA
#define DATA double
#endif
#ifndef NEXTRA
#define NEXTRA 0
#endif
#ifndef NRHS
#define NRHS 1
#endif
#ifndef PERIODIC
#define PERIODIC 0
#endif

using RealType = REAL;
using DataType = DATA;
constexpr long int Dim = DIM;
constexpr long int NbData = DIM + NEXTRA;
constexpr long int NbRhs = NRHS;
using Config = TbfSpacialConfiguration<RealType, Dim>;
using SpaceIndex = TbfMortonSpaceIndex<Dim, Config, (PERIODIC != 0)>;
using Multipole = std::array<long int, 1>;
using Local = std::array<long int, 3>;      // deliberately not the size of the multipole: views must not confuse the two buffers
using Tree = TbfTree<RealType, DataType, NbData, long int, NbRhs, Multipole, Local, SpaceIndex>;
#if NRHS > 0
using TreeTsm = TbfTreeTsm<RealType, DataType, NbData, long int, NbRhs, Multipole, Local, SpaceIndex>;
#endif

template <class T> struct Bits;
template <> struct Bits<double> { using U = uint64_t; };
template <> struct Bits<float> { using U = uint32_t; };

template <class T>
static T fromHex(const std::string& s){
    typename Bits<T>::U u = (typename Bits<T>::U)std::stoull(s, nullptr, 16);
    T v; std::memcpy(&v, &u, sizeof(T)); return v;
}
template <class T>
static std::string toHex(T v){
    typename Bits<T>::U u; std::memcpy(&u, &v, sizeof(T));
    char buf[32]; snprintf(buf, sizeof(buf), "%llx", (unsigned long long)u); return buf;
}

static long kv(const std::vector<std::string>& ts, const std::string& key, long dflt){
    for(const auto& t : ts){ if(t.rfind(key + "=", 0) == 0) return std::stol(t.substr(key.size()+1)); }
    return dflt;
}

struct Case {
    long H = 3;
    std::array<RealType, Dim> widths, center;
    std::vector<std::array<RealType, NbData>> particles;
    std::unique_ptr<Config> config;
    std::unique_ptr<Tree> tree;
#if NRHS > 0
    std::unique_ptr<TreeTsm> tsm;
#endif
};

static uint64_t fnv(const unsigned char* p, size_t n, uint64_t h = 1469598103934665603ULL){
    for(size_t i = 0 ; i < n ; ++i){ h ^= p[i]; h *= 1099511628211ULL; }
    return h;
}

template <class T> static std::string toHexAny(T v){ return toHex<T>(v); }

// one line per leaf: index, box coordinate, sorted original indices; one line per particle: data bit patterns
// (printed in the type the values are actually stored with)
template <class ParticleGroups>
static void dumpLeavesOf(ParticleGroups& pgroups, const std::string& prefix){
    std::map<long, std::string> perParticle;
    long gi = 0;
    for(auto& g : pgroups){
        for(long lf = 0 ; lf < g.getNbLeaves() ; ++lf){
            std::vector<long> ps(g.getParticleIndexes(lf), g.getParticleIndexes(lf) + g.getNbParticlesInLeaf(lf));
            const auto data = g.getParticleData(lf);
            for(long p = 0 ; p < g.getNbParticlesInLeaf(lf) ; ++p){
                std::ostringstream os; os << prefix << "P " << ps[p] << " " << g.getLeafSpacialIndex(lf);
                for(long k = 0 ; k < NbData ; ++k) os << " " << toHexAny(data[k][p]);
                perParticle[ps[p]] = os.str();
            }
            std::sort(ps.begin(), ps.end());
            std::cout << prefix << "LF " << gi << " " << g.getLeafSpacialIndex(lf);
            for(long d = 0 ; d < Dim ; ++d) std::cout << " " << g.getLeafBoxCoord(lf)[d];
            std::cout << " :";
            for(long p : ps) std::cout << " " << p;
            std::cout << "\n";
        }
        ++gi;
    }
    for(auto& kvp : perParticle) std::cout << kvp.second << "\n";
}

static void dumpLeaves(Tree& tree){ dumpLeavesOf(tree.getParticleGroups(), ""); }

static void dumpGroups(Tree& tree){
    for(long l = 0 ; l < tree.getHeight() ; ++l){
        long gi = 0;
        for(auto& g : tree.getCellGroupsAtLevel(l)){
            std::cout << "S G " << l << " " << gi << " " << g.getStartingSpacialIndex() << " " << g.getEndingSpacialIndex() << " " << g.getNbCells() << " :";
            for(long c = 0 ; c < g.getNbCells() ; ++c) std::cout << " " << g.getCellSpacialIndex(c);
            std::cout << "\n";
            ++gi;
        }
    }
}

static void dumpZero(Tree& tree){
    long nzCells = 0, nzRhs = 0;
    tree.applyToAllCells([&](const long int, auto&&, auto multipole, auto local){
        if(multipole && (*multipole).get()[0] != 0) ++nzCells;
        if(local && (*local).get()[0] != 0) ++nzCells;
    });
    tree.applyToAllLeaves([&](auto&& leafHeader, const long int*, auto, auto rhs){
        for(long k = 0 ; k < NbRhs ; ++k) for(long p = 0 ; p < leafHeader.nbParticles ; ++p) if(rhs[k][p] != 0) ++nzRhs;
    });
    std::cout << "Z " << nzCells << " " << nzRhs << "\n";
}

static void dumpRhs(Tree& tree){
    std::map<long, std::string> r;
    tree.applyToAllLeaves([&](auto&& leafHeader, const long int* idx, auto, auto rhs){
        for(long p = 0 ; p < leafHeader.nbParticles ; ++p){
            std::ostringstream os; os << "R " << idx[p];
            for(long k = 0 ; k < NbRhs ; ++k) os << " " << rhs[k][p];
            r[idx[p]] = os.str();
        }
    });
    for(auto& kvp : r) std::cout << kvp.second << "\n";
}

static void digest(Tree& tree){
    // symbolic buffers: cell headers and particle data blocks (positions, indices, leaf headers)
    uint64_t h = 1469598103934665603ULL;
    for(long l = 0 ; l < tree.getHeight() ; ++l) for(auto& g : tree.getCellGroupsAtLevel(l)) h = fnv(g.getDataPtr(), g.getDataSize(), h);
    for(auto& g : tree.getParticleGroups()) h = fnv(g.getDataPtr(), g.getDataSize(), h);
    std::cout << "DG " << std::hex << h << std::dec << "\n";
}

// byte copies of every group's buffers, viewed through the raw-memory constructors (array of pairs and explicit pointers):
// every accessor must return what the original returns
static void byteCopyCheck(Tree& tree){
    long groups = 0, values = 0, bad = 0;
    for(long l = 0 ; l < tree.getHeight() ; ++l){
        for(auto& g : tree.getCellGroupsAtLevel(l)){
            auto ps = g.getDataPtrsAndSizes();
            std::vector<std::unique_ptr<unsigned char[]>> bufs;
            std::array<std::pair<unsigned char*, size_t>, 3> cp;
            for(int k = 0 ; k < 3 ; ++k){
                bufs.emplace_back(new unsigned char[ps[k].second + 16]);
                cp[k].first = bufs.back().get() + 8; cp[k].second = ps[k].second;
                std::memcpy(cp[k].first, ps[k].first, ps[k].second);
            }
            typename Tree::CellGroupClass viewA(cp);
            typename Tree::CellGroupClass viewB(cp[0].first, cp[0].second, cp[1].first, cp[1].second, cp[2].first, cp[2].second);
            // deferred initialisation (the form the CUDA callbacks use): built without reading the memory, headers read afterwards
            typename Tree::CellGroupClass viewC(cp, false); viewC.initMemoryBlockHeader();
            typename Tree::CellGroupClass viewD(cp[0].first, cp[0].second, cp[1].first, cp[1].second, cp[2].first, cp[2].second, false); viewD.initMemoryBlockHeader();
            ++groups;
            for(auto* view : {&viewA, &viewB, &viewC, &viewD}){
                // the view stands on exactly the buffers it was given, each with its own size
                { const auto vs = view->getDataPtrsAndSizes(); for(int k = 0 ; k < 3 ; ++k){ ++values; if(vs[k].first != cp[k].first || vs[k].second != cp[k].second) ++bad; } }
                ++values; if(view->getNbCells() != g.getNbCells() || view->getStartingSpacialIndex() != g.getStartingSpacialIndex() || view->getEndingSpacialIndex() != g.getEndingSpacialIndex()) ++bad;
                for(long c = 0 ; c < g.getNbCells() ; ++c){
                    ++values; if(view->getCellSpacialIndex(c) != g.getCellSpacialIndex(c)) ++bad;
                    ++values; if(std::memcmp(&view->getCellMultipole(c), &g.getCellMultipole(c), sizeof(Multipole)) != 0) ++bad;
                    ++values; if(std::memcmp(&view->getCellLocal(c), &g.getCellLocal(c), sizeof(Local)) != 0) ++bad;
                    // relative addresses agree
                    ++values; if((reinterpret_cast<const unsigned char*>(&view->getCellLocal(c)) - cp[2].first) != (reinterpret_cast<const unsigned char*>(&g.getCellLocal(c)) - ps[2].first)) ++bad;
                    ++values; if((reinterpret_cast<const unsigned char*>(&view->getCellMultipole(c)) - cp[1].first) != (reinterpret_cast<const unsigned char*>(&g.getCellMultipole(c)) - ps[1].first)) ++bad;
                }
            }
        }
    }
    for(auto& g : tree.getParticleGroups()){
        auto ps = g.getDataPtrsAndSizes();
        std::vector<std::unique_ptr<unsigned char[]>> bufs;
        std::array<std::pair<unsigned char*, size_t>, 2> cp;
        for(int k = 0 ; k < 2 ; ++k){
            bufs.emplace_back(new unsigned char[ps[k].second + 16]);
            cp[k].first = bufs.back().get() + 8; cp[k].second = ps[k].second;
            std::memcpy(cp[k].first, ps[k].first, ps[k].second);
        }
        typename Tree::LeafGroupClass viewA(cp);
        typename Tree::LeafGroupClass viewB(cp[0].first, cp[0].second, cp[1].first, cp[1].second);
        typename Tree::LeafGroupClass viewC(cp, false); viewC.initMemoryBlockHeader();
        typename Tree::LeafGroupClass viewD(cp[0].first, cp[0].second, cp[1].first, cp[1].second, false); viewD.initMemoryBlockHeader();
        ++groups;
        for(auto* view : {&viewA, &viewB, &viewC, &viewD}){
            { const auto vs = view->getDataPtrsAndSizes(); for(int k = 0 ; k < 2 ; ++k){ ++values; if(vs[k].first != cp[k].first || vs[k].second != cp[k].second) ++bad; } }
            ++values; if(view->getNbLeaves() != g.getNbLeaves() || view->getNbParticles() != g.getNbParticles()) ++bad;
            for(long lf = 0 ; lf < g.getNbLeaves() ; ++lf){
                ++values; if(view->getLeafSpacialIndex(lf) != g.getLeafSpacialIndex(lf) || view->getNbParticlesInLeaf(lf) != g.getNbParticlesInLeaf(lf) || view->getLeafBoxCoord(lf) != g.getLeafBoxCoord(lf)) ++bad;
                const auto d0 = TbfUtils::make_const(g).getParticleData(lf); const auto d1 = TbfUtils::make_const(*view).getParticleData(lf);
                for(long p = 0 ; p < g.getNbParticlesInLeaf(lf) ; ++p){
                    ++values; if(view->getParticleIndexes(lf)[p] != g.getParticleIndexes(lf)[p]) ++bad;
                    for(long k = 0 ; k < NbData ; ++k){ ++values; if(std::memcmp(&d0[k][p], &d1[k][p], sizeof(DataType)) != 0) ++bad; }
                }
#if NRHS > 0
                const auto r0 = TbfUtils::make_const(g).getParticleRhs(lf); const auto r1 = TbfUtils::make_const(*view).getParticleRhs(lf);
                for(long p = 0 ; p < g.getNbParticlesInLeaf(lf) ; ++p) for(long k = 0 ; k < NbRhs ; ++k){ ++values; if(r0[k][p] != r1[k][p]) ++bad; }
#endif
            }
        }
    }
    std::cout << "BC groups=" << groups << " values=" << values << " bad=" << bad << "\n";
}

int main(){
    std::ios::sync_with_stdio(false);
    Case cs;
    std::string line;
    while(std::getline(std::cin, line)){
        std::istringstream iss(line);
        std::vector<std::string> ts;
        { std::string t; while(iss >> t) ts.push_back(t); }
        if(ts.empty()) continue;
        const std::string& op = ts[0];
        if(op == "case"){
            cs = Case();
            std::cout << "==";
            for(size_t k = 1 ; k < ts.size() ; ++k) std::cout << " " << ts[k];
            std::cout << "\n";
        }
        else if(op == "ftree"){      // ftree H=<h> <center hex>*D <width hex>*D
            cs.H = kv(ts, "H", 3);
            std::vector<std::string> vals;
            for(size_t k = 1 ; k < ts.size() ; ++k) if(ts[k].find('=') == std::string::npos) vals.push_back(ts[k]);
            if(kv(ts, "D", Dim) != Dim || kv(ts, "periodic", PERIODIC) != PERIODIC || kv(ts, "nextra", NEXTRA) != NEXTRA || kv(ts, "nrhs", NRHS) != NRHS
               || kv(ts, "real", sizeof(RealType)*8) != long(sizeof(RealType)*8) || kv(ts, "data", sizeof(DataType)*8) != long(sizeof(DataType)*8)){ std::cout << "bad-config\n"; continue; }
            for(long d = 0 ; d < Dim ; ++d){ cs.center[d] = fromHex<RealType>(vals[d]); cs.widths[d] = fromHex<RealType>(vals[Dim + d]); }
            cs.config.reset(new Config(cs.H, cs.widths, cs.center));
            std::cout << "CF";
            for(long d = 0 ; d < Dim ; ++d) std::cout << " " << toHex<RealType>(cs.config->getBoxCorner()[d]) << " " << toHex<RealType>(cs.config->getLeafWidths()[d]);
            std::cout << "\n";
        }
        else if(op == "fparts"){     // fparts <n> then n*NbData hex values (RealType bit patterns)
            const long n = std::stol(ts[1]);
            cs.particles.resize(n);
            for(long i = 0 ; i < n ; ++i) for(long k = 0 ; k < NbData ; ++k) cs.particles[i][k] = fromHex<RealType>(ts[2 + i*NbData + k]);
        }
        else if(op == "build"){
            cs.tree.reset(new Tree(*cs.config, cs.particles, kv(ts, "bs", 1), kv(ts, "mode", 0) != 0));
        }
        else if(op == "dump" && ts[1] == "leaves"){ dumpLeaves(*cs.tree); }
        else if(op == "dump" && ts[1] == "tsmleaves"){
            // the same particles as the source set and as the target set of a target/source tree: what each side stores
#if NRHS > 0
            std::unique_ptr<TreeTsm> tsm(new TreeTsm(*cs.config, cs.particles, cs.particles, kv(ts, "bs", 1), kv(ts, "mode", 0) != 0));
            dumpLeavesOf(tsm->getParticleGroupsSource(), "s");
            dumpLeavesOf(tsm->getParticleGroupsTarget(), "t");
#endif
        }
#if NRHS > 0
        else if(op == "tsm" && ts.size() > 1){
            // a target/source tree over the same particles (both sets), with its own move / rebuild / execute / export history
            const std::string& sub = ts[1];
            if(sub == "build"){
                cs.tsm.reset(new TreeTsm(*cs.config, cs.particles, cs.particles, kv(ts, "bs", 1), kv(ts, "mode", 0) != 0));
            }
            else if(sub == "move"){       // tsm move <s|t> <orig> <D hex coords (DataType bit patterns)>
                const bool src = (ts[2] == "s");
                const long target = std::stol(ts[3]);
                std::array<DataType, Dim> np;
                for(long d = 0 ; d < Dim ; ++d) np[d] = fromHex<DataType>(ts[4 + d]);
                bool done = false;
                auto edit = [&](auto&& leafHeader, const long int* idx, auto data, auto){
                    for(long p = 0 ; p < leafHeader.nbParticles ; ++p) if(idx[p] == target){ for(long d = 0 ; d < Dim ; ++d) data[d][p] = np[d]; done = true; }
                };
                if(src) cs.tsm->applyToAllLeavesSource(edit); else cs.tsm->applyToAllLeavesTarget(edit);
                if(!done) std::cout << "X tsm move: particle " << target << " not found\n";
            }
            else if(sub == "rebuild"){ cs.tsm->rebuild(); }
            else if(sub == "exec"){
                std::unique_ptr<TbfAlgorithmTsm<RealType, TbfTestKernel<RealType, SpaceIndex>, SpaceIndex>> algo(
                    new TbfAlgorithmTsm<RealType, TbfTestKernel<RealType, SpaceIndex>, SpaceIndex>(*cs.config, PERIODIC ? 1 : 2));
                algo->execute(*cs.tsm);
                std::cout << "EX\n";
            }
            else if(sub == "dump"){
                dumpLeavesOf(cs.tsm->getParticleGroupsSource(), "s");
                dumpLeavesOf(cs.tsm->getParticleGroupsTarget(), "t");
                std::map<long, std::string> r;
                cs.tsm->applyToAllLeavesTarget([&](auto&& leafHeader, const long int* idx, auto, auto rhs){
                    for(long p = 0 ; p < leafHeader.nbParticles ; ++p){
                        std::ostringstream os; os << "tR " << idx[p];
                        for(long k = 0 ; k < NbRhs ; ++k) os << " " << rhs[k][p];
                        r[idx[p]] = os.str();
                    }
                });
                for(auto& kvp : r) std::cout << kvp.second << "\n";
            }
            else if(sub == "export"){
                auto ds = cs.tsm->getAllParticlesDataSource();
                for(long i = 0 ; i < (long)cs.particles.size() ; ++i){
                    std::cout << "XDs " << i << " " << sizeof(ds[i][0])*8;
                    for(long k = 0 ; k < NbData ; ++k) std::cout << " " << toHexAny(ds[i][k]);
                    std::cout << "\n";
                }
                auto dt = cs.tsm->getAllParticlesDataTarget();
                for(long i = 0 ; i < (long)cs.particles.size() ; ++i){
                    std::cout << "XDt " << i << " " << sizeof(dt[i][0])*8;
                    for(long k = 0 ; k < NbData ; ++k) std::cout << " " << toHexAny(dt[i][k]);
                    std::cout << "\n";
                }
                const long BIG = (1L << 60) + 1;      // as in "export rhs": values only the result type can represent
                auto shiftAll = [&](const long by){
                    cs.tsm->applyToAllLeavesTarget([&](auto&& leafHeader, const long int*, auto, auto rhsPtrs){
                        for(long k = 0 ; k < NbRhs ; ++k) for(long p = 0 ; p < leafHeader.nbParticles ; ++p) rhsPtrs[k][p] += by;
                    });
                };
                shiftAll(BIG);
                auto rt = cs.tsm->getAllParticlesRhsTarget();
                shiftAll(-BIG);
                for(long i = 0 ; i < (long)cs.particles.size() ; ++i){
                    std::cout << "XRt " << i;
                    for(long k = 0 ; k < NbRhs ; ++k) std::cout << " " << (static_cast<long>(rt[i][k]) - BIG);
                    std::cout << "\n";
                }
            }
            else std::cout << "bad-op " << line << "\n";
        }
#endif
        else if(op == "dump" && ts[1] == "groups"){ dumpGroups(*cs.tree); }
        else if(op == "dump" && ts[1] == "zero"){ dumpZero(*cs.tree); }
        else if(op == "dump" && ts[1] == "rhs"){ dumpRhs(*cs.tree); }
        else if(op == "digest"){ digest(*cs.tree); }
        else if(op == "bytecopy"){ byteCopyCheck(*cs.tree); }
        else if(op == "fexec"){
#if NRHS > 0
            std::unique_ptr<TbfAlgorithm<RealType, TbfTestKernel<RealType, SpaceIndex>, SpaceIndex>> algo(
                new TbfAlgorithm<RealType, TbfTestKernel<RealType, SpaceIndex>, SpaceIndex>(*cs.config, kv(ts, "upper", PERIODIC ? 1 : 2)));
            algo->execute(*cs.tree, int(kv(ts, "flags", 63)));
#endif
            std::cout << "EX\n";
        }
        else if(op == "move"){       // move <orig> <D hex coords>: edit the stored position in place
            const long target = std::stol(ts[1]);
            std::array<DataType, Dim> np;
            for(long d = 0 ; d < Dim ; ++d) np[d] = fromHex<DataType>(ts[2 + d]);   // DataType bit patterns
            bool done = false;
            cs.tree->applyToAllLeaves([&](auto&& leafHeader, const long int* idx, auto data, auto){
                for(long p = 0 ; p < leafHeader.nbParticles ; ++p) if(idx[p] == target){ for(long d = 0 ; d < Dim ; ++d) data[d][p] = np[d]; done = true; }
            });
            if(!done) std::cout << "X move: particle " << target << " not found\n";
        }
        else if(op == "rebuild"){ cs.tree->rebuild(); }
        else if(op == "export" && ts[1] == "data"){
            auto data = cs.tree->getAllParticlesData();
            for(long i = 0 ; i < cs.tree->getNbParticles() ; ++i){
                std::cout << "XD " << i << " " << sizeof(data[i][0])*8;
                for(long k = 0 ; k < NbData ; ++k) std::cout << " " << toHex(data[i][k]);
                std::cout << "\n";
            }
        }
        else if(op == "export" && ts[1] == "rhs"){
            // the results are exported while they hold values only their own type can represent (offset by 2^60 + 1, removed
            // again in the printed line and in the tree afterwards): an export through another type would round them
            const long BIG = (1L << 60) + 1;
            auto shiftAll = [&](const long by){
                cs.tree->applyToAllLeaves([&](auto&& leafHeader, const long int*, auto, auto rhsPtrs){
                    for(long k = 0 ; k < NbRhs ; ++k) for(long p = 0 ; p < leafHeader.nbParticles ; ++p) rhsPtrs[k][p] += by;
                });
            };
            shiftAll(BIG);
            auto rhs = cs.tree->getAllParticlesRhs();
            shiftAll(-BIG);
            for(long i = 0 ; i < cs.tree->getNbParticles() ; ++i){
                std::cout << "XR " << i;
                for(long k = 0 ; k < NbRhs ; ++k) std::cout << " " << (static_cast<long>(rhs[i][k]) - BIG);
                std::cout << "\n";
            }
        }
        else if(op == "mark"){ std::cout << "M " << (ts.size() > 1 ? ts[1] : "") << "\n"; }
        else if(op == "end"){ std::cout << "end\n"; }
        else{ std::cout << "bad-op " << line << "\n"; }
    }
    return 0;
}
