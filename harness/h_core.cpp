// Correspondence harness, core: drives the real library (tree build, lookup, sequential executor)
// from the line protocol of DESIGN.md §4.1 and prints the same canonical text as the Lean driver.
// Build: g++ -std=c++17 -I/repo/src -DDIM=<d> -DPERIODIC=<0|1> [-DUSE_OMP -fopenmp mock_gomp.cpp] [-DUSE_STARPU -Imock_starpu mock_starpu.cpp]
#include <iostream>
#include <cmath>
#include <sstream>
#include <vector>
#include <array>
#include <string>
#include <memory>
#include <map>
#include <optional>
#include <cstdlib>

#include "tbfglobal.hpp"
#include "spacial/tbfmortonspaceindex.hpp"
#include "spacial/tbfspacialconfiguration.hpp"
#include "core/tbfcellscontainer.hpp"
#include "core/tbfparticlescontainer.hpp"
#include "core/tbfparticlesorter.hpp"
#include "core/tbftree.hpp"
#include "algorithms/tbfalgorithmutils.hpp"
#include "algorithms/sequential/tbfalgorithm.hpp"
#ifdef USE_OMP
#include "algorithms/openmp/tbfopenmpalgorithm.hpp"
#include "mock_gomp.h"
#endif
#ifdef USE_STARPU
#include "algorithms/smstarpu/tbfsmstarpualgorithm.hpp"      // <starpu.h> resolves to harness/mock_starpu/starpu.h
#endif
#ifdef USE_SPECX
#include "algorithms/smspecx/tbfsmspecxalgorithm.hpp"        // <Legacy/SpRuntime.hpp> resolves to harness/mock_specx/
#endif

#include "kernels/counterkernels/tbfinteractioncounter.hpp"
#if PERIODIC
#include "algorithms/periodic/tbfalgorithmperiodictoptree.hpp"
#endif
#include "reckernel.hpp"

#ifndef DIM
#define DIM 3
#endif
#ifndef PERIODIC
#define PERIODIC 0
#endif

#ifndef COREREAL
#define COREREAL double
#endif
using RealType = COREREAL;      // coordinate type of the executors' configuration matrix (C19)
constexpr long int Dim = DIM;
using Config = TbfSpacialConfiguration<RealType, Dim>;
using SpaceIndex = TbfMortonSpaceIndex<Dim, Config, (PERIODIC != 0)>;
using Kernel = RecKernel<RealType, SpaceIndex>;
using Tree = TbfTree<RealType, RealType, Dim, slot_t, NSLOT, Cnt, Cnt, SpaceIndex>;
using Geom = RecGeom<RealType, Dim>;

static long kv(const std::vector<std::string>& ts, const std::string& key, long dflt){
    for(const auto& t : ts){
        if(t.rfind(key + "=", 0) == 0) return std::stol(t.substr(key.size()+1));
    }
    return dflt;
}

// the flag set of an exec line: alias=<name> takes the library's own named constant (TbfAlgorithmUtils::TbfOperations), flags=<n> a number
static int flagsOf(const std::vector<std::string>& ts){
    for(const auto& t : ts){
        if(t.rfind("alias=", 0) == 0){
            const std::string a = t.substr(6);
            if(a == "p2p") return TbfAlgorithmUtils::TbfP2P;
            if(a == "p2m") return TbfAlgorithmUtils::TbfP2M;
            if(a == "m2m") return TbfAlgorithmUtils::TbfM2M;
            if(a == "m2l") return TbfAlgorithmUtils::TbfM2L;
            if(a == "l2l") return TbfAlgorithmUtils::TbfL2L;
            if(a == "l2p") return TbfAlgorithmUtils::TbfL2P;
            if(a == "b2t") return TbfAlgorithmUtils::TbfBottomToTopStages;
            if(a == "transfer") return TbfAlgorithmUtils::TbfTransferStages;
            if(a == "t2b") return TbfAlgorithmUtils::TbfTopToBottomStages;
            if(a == "near") return TbfAlgorithmUtils::TbfNearField;
            if(a == "far") return TbfAlgorithmUtils::TbfFarField;
            if(a == "all") return TbfAlgorithmUtils::TbfNearAndFarFields;
        }
    }
    return int(kv(ts, "flags", 63));
}

// alias=default: execute() is called without a flag argument (the library's default: the whole algorithm)
template <class AlgoClass, class TreeClass> static void execWith(AlgoClass& algo, TreeClass& tree, const std::vector<std::string>& ts){
    for(const auto& t : ts){ if(t == "alias=default"){ algo.execute(tree); return; } }
    algo.execute(tree, flagsOf(ts));
}

struct Case {
    long H = 3;
    std::vector<std::array<RealType, Dim>> positions;
    std::unique_ptr<Config> config;
    std::unique_ptr<Tree> tree;
};

static void tagCells(Tree& tree){
    tree.applyToAllCells([](const long int level, auto&& header, auto multipole, auto local){
        if(multipole){ (*multipole).get().level = level; (*multipole).get().idx = header.spaceIndex; }
        if(local){ (*local).get().level = level; (*local).get().idx = header.spaceIndex; }
    });
}

static void dumpStructure(Tree& tree){
    std::cout << "S T " << tree.getHeight() << " " << tree.getNbParticleGroups() << "\n";
    for(long l = 0 ; l < tree.getHeight() ; ++l){
        auto& groups = tree.getCellGroupsAtLevel(l);
        std::cout << "S L " << l << " " << groups.size() << "\n";
        long gi = 0;
        for(auto& g : groups){
            std::cout << "S G " << l << " " << gi << " " << g.getStartingSpacialIndex() << " " << g.getEndingSpacialIndex() << " " << g.getNbCells() << " :";
            for(long c = 0 ; c < g.getNbCells() ; ++c) std::cout << " " << g.getCellSpacialIndex(c);
            std::cout << "\n";
            // the stored box coordinate of every cell must decode its index
            for(long c = 0 ; c < g.getNbCells() ; ++c){
                const auto pos = tree.getSpacialSystem().getBoxPosFromIndex(g.getCellSpacialIndex(c));
                if(pos != g.getCellBoxCoord(c)) std::cout << "X cell boxCoord != decode(index) at level " << l << " index " << g.getCellSpacialIndex(c) << "\n";
            }
            ++gi;
        }
    }
    long gi = 0;
    for(auto& g : tree.getParticleGroups()){
        std::cout << "S P " << gi << " " << g.getStartingSpacialIndex() << " " << g.getEndingSpacialIndex() << " " << g.getNbLeaves() << " " << g.getNbParticles() << " :";
        for(long lf = 0 ; lf < g.getNbLeaves() ; ++lf){
            std::vector<long> ps(g.getParticleIndexes(lf), g.getParticleIndexes(lf) + g.getNbParticlesInLeaf(lf));
            std::sort(ps.begin(), ps.end());
            std::cout << " " << g.getLeafSpacialIndex(lf) << "=";
            for(size_t k = 0 ; k < ps.size() ; ++k) std::cout << (k ? "," : "") << ps[k];
        }
        std::cout << "\n";
        ++gi;
    }
}

static void dumpValues(Tree& tree){
    std::vector<std::string> m, l;
    tree.applyToAllCells([&](const long int level, auto&& header, auto multipole, auto local){
        { std::ostringstream os; os << "V M " << level << " " << header.spaceIndex << " " << hexOfCnt((*multipole).get().cnt); m.push_back(os.str()); }
        { std::ostringstream os; os << "V L " << level << " " << header.spaceIndex << " " << hexOfCnt((*local).get().cnt); l.push_back(os.str()); }
    });
    for(auto& s : m) std::cout << s << "\n";
    for(auto& s : l) std::cout << s << "\n";
    std::map<long, std::string> r;
    tree.applyToAllLeaves([&](auto&& leafHeader, const long int* particleIndexes, auto /*data*/, auto rhs){
        for(long p = 0 ; p < leafHeader.nbParticles ; ++p){
            slot_t c[NSLOT];
            for(int s = 0 ; s < NSLOT ; ++s) c[s] = rhs[s][p];
            r[particleIndexes[p]] = hexOfCnt(c);
        }
    });
    for(auto& kvp : r) std::cout << "V R " << kvp.first << " " << kvp.second << "\n";
}

// a plain group (independent of the library's containers) for the per-group list builders
struct VecGroup {
    std::vector<long> cells;
    long getNbCells() const { return (long)cells.size(); }
    long getNbLeaves() const { return (long)cells.size(); }
    long getCellSpacialIndex(long i) const { return cells[i]; }
    long getLeafSpacialIndex(long i) const { return cells[i]; }
    long getStartingSpacialIndex() const { return cells.front(); }
    long getEndingSpacialIndex() const { return cells.back(); }
    std::optional<long> getElementFromSpacialIndex(long idx) const {
        for(size_t k = 0 ; k < cells.size() ; ++k) if(cells[k] == idx) return std::optional<long>((long)k);
        return std::nullopt;
    }
};

template <class V>
static void printInter(const char* tag, const V& v){
    std::cout << tag << " " << v.size();
    for(const auto& x : v) std::cout << " " << x.indexTarget << ":" << x.indexSrc << ":" << x.globalTargetPos << ":" << x.arrayIndexSrc;
    std::cout << "\n";
}

static void idxCommand(const Config& config, const std::vector<std::string>& ts){
    SpaceIndex sp(config);
    const std::string& sub = ts[1];
    auto L = [&](size_t k){ return std::stol(ts[k]); };
    if(sub == "enc"){           // idx enc <c0..cD-1>
        std::array<long, Dim> c; for(long d = 0 ; d < Dim ; ++d) c[d] = L(2 + d);
        std::cout << "I enc " << sp.getIndexFromBoxPos(c) << "\n";
    }
    else if(sub == "dec"){      // idx dec <i>
        auto c = sp.getBoxPosFromIndex(L(2));
        std::cout << "I dec"; for(long d = 0 ; d < Dim ; ++d) std::cout << " " << c[d]; std::cout << "\n";
    }
    else if(sub == "parent"){ std::cout << "I parent " << sp.getParentIndex(L(2)) << "\n"; }
    else if(sub == "childcode"){ std::cout << "I childcode " << sp.childPositionFromParent(L(2)) << "\n"; }
    else if(sub == "child"){ std::cout << "I child " << sp.getChildIndexFromParent(L(2), L(3)) << "\n"; }
    else if(sub == "upper"){ std::cout << "I upper " << sp.getUpperBound(L(2)) << "\n"; }
    else if(sub == "ilist"){    // idx ilist <level> <i>
        auto v = sp.getInteractionListForIndex(L(3), L(2));
        std::cout << "I ilist " << v.size(); for(auto x : v) std::cout << " " << x; std::cout << "\n";
    }
    else if(sub == "nlist"){    // idx nlist <level> <i> <upperExclusion>
        auto v = sp.getNeighborListForIndex(L(3), L(2), L(4) != 0);
        std::cout << "I nlist " << v.size(); for(auto x : v) std::cout << " " << x; std::cout << "\n";
    }
    else if(sub == "code7"){
        std::array<long, Dim> c; for(long d = 0 ; d < Dim ; ++d) c[d] = L(2 + d);
        std::cout << "I code7 " << SpaceIndex::getInteractionIndexFromRelativePos(c) << "\n";
    }
    else if(sub == "dec7"){
        auto c = SpaceIndex::getRelativePosFromInteractionIndex(L(2));
        std::cout << "I dec7"; for(long d = 0 ; d < Dim ; ++d) std::cout << " " << c[d]; std::cout << "\n";
    }
    else if(sub == "code3"){
        std::array<long, Dim> c; for(long d = 0 ; d < Dim ; ++d) c[d] = L(2 + d);
        std::cout << "I code3 " << SpaceIndex::getNeighborIndexFromRelativePos(c) << "\n";
    }
    else if(sub == "dec3"){
        auto c = SpaceIndex::getRelativePosFromNeighborIndex(L(2));
        std::cout << "I dec3"; for(long d = 0 ; d < Dim ; ++d) std::cout << " " << c[d]; std::cout << "\n";
    }
    else if(sub == "iblock"){   // idx iblock <level> <testSelf> <cells...>
        VecGroup g; for(size_t k = 4 ; k < ts.size() ; ++k) g.cells.push_back(L(k));
        auto pr = sp.getInteractionListForBlock(g, L(2), L(3) != 0);
        printInter("I iblock-in", pr.first); printInter("I iblock-ex", pr.second);
    }
    else if(sub == "nblock"){   // idx nblock <level> <upperExclusion> <testSelf> <cells...>
        VecGroup g; for(size_t k = 5 ; k < ts.size() ; ++k) g.cells.push_back(L(k));
        auto pr = sp.getNeighborListForBlock(g, L(2), L(3) != 0, L(4) != 0);
        printInter("I nblock-in", pr.first); printInter("I nblock-ex", pr.second);
    }
    else if(sub == "sblock"){   // idx sblock <cells...>
        VecGroup g; for(size_t k = 2 ; k < ts.size() ; ++k) g.cells.push_back(L(k));
        printInter("I sblock", sp.getSelfListForBlock(g));
    }
    else if(sub == "consts"){
        std::cout << "I consts " << SpaceIndex::getNbChildrenPerCell() << " " << SpaceIndex::getNbInteractionsPerCell() << " " << SpaceIndex::getNbNeighborsPerLeaf() << "\n";
    }
    else std::cout << "bad-op idx " << sub << "\n";
}

// C14: copy the bytes of every group's buffers elsewhere and view the copies through the raw-memory
// constructors; every accessor must return what the original returns
static void byteCopyCheck(Tree& tree){
    long groups = 0, values = 0, bad = 0;
    auto cmpCnt = [&](const Cnt& a, const Cnt& b){ ++values; if(std::memcmp(&a, &b, sizeof(Cnt)) != 0) ++bad; };
    for(long l = 0 ; l < tree.getHeight() ; ++l){
        for(auto& g : tree.getCellGroupsAtLevel(l)){
            auto ps = g.getDataPtrsAndSizes();
            std::vector<std::unique_ptr<unsigned char[]>> bufs;
            std::array<std::pair<unsigned char*, size_t>, 3> cp;
            for(int k = 0 ; k < 3 ; ++k){
                bufs.emplace_back(new unsigned char[ps[k].second + 16]);
                cp[k].first = bufs.back().get() + 8; cp[k].second = ps[k].second;
                std::memcpy(cp[k].first, ps[k].first, ps[k].second);
            }
            const bool deferred = (groups % 2) == 1;     // odd groups: deferred initialisation (built without reading the memory, headers read afterwards)
            typename Tree::CellGroupClass view(cp, !deferred); if(deferred) view.initMemoryBlockHeader();
            ++groups;
            { const auto vs = view.getDataPtrsAndSizes(); for(int k = 0 ; k < 3 ; ++k){ ++values; if(vs[k].first != cp[k].first || vs[k].second != cp[k].second) ++bad; } }
            ++values; if(view.getNbCells() != g.getNbCells() || view.getStartingSpacialIndex() != g.getStartingSpacialIndex() || view.getEndingSpacialIndex() != g.getEndingSpacialIndex()) ++bad;
            for(long c = 0 ; c < g.getNbCells() ; ++c){
                ++values; if(view.getCellSpacialIndex(c) != g.getCellSpacialIndex(c) || view.getCellBoxCoord(c) != g.getCellBoxCoord(c)) ++bad;
                cmpCnt(view.getCellMultipole(c), g.getCellMultipole(c));
                cmpCnt(view.getCellLocal(c), g.getCellLocal(c));
                ++values; if(view.getElementFromSpacialIndex(g.getCellSpacialIndex(c)) != std::optional<long>(c)) ++bad;
            }
        }
    }
    for(auto& g : tree.getParticleGroups()){
        auto ps = g.getDataPtrsAndSizes();
        std::vector<std::unique_ptr<unsigned char[]>> bufs;
        std::array<std::pair<unsigned char*, size_t>, 2> cp;
        for(int k = 0 ; k < 2 ; ++k){
            bufs.emplace_back(new unsigned char[ps[k].second + 16]);
            cp[k].first = bufs.back().get() + 8; cp[k].second = ps[k].second;
            std::memcpy(cp[k].first, ps[k].first, ps[k].second);
        }
        const bool deferred = (groups % 2) == 1;
        typename Tree::LeafGroupClass view(cp, !deferred); if(deferred) view.initMemoryBlockHeader();
        ++groups;
        { const auto vs = view.getDataPtrsAndSizes(); for(int k = 0 ; k < 2 ; ++k){ ++values; if(vs[k].first != cp[k].first || vs[k].second != cp[k].second) ++bad; } }
        ++values; if(view.getNbLeaves() != g.getNbLeaves() || view.getNbParticles() != g.getNbParticles()) ++bad;
        for(long lf = 0 ; lf < g.getNbLeaves() ; ++lf){
            ++values; if(view.getLeafSpacialIndex(lf) != g.getLeafSpacialIndex(lf) || view.getNbParticlesInLeaf(lf) != g.getNbParticlesInLeaf(lf) || view.getLeafBoxCoord(lf) != g.getLeafBoxCoord(lf)) ++bad;
            const auto d0 = TbfUtils::make_const(g).getParticleData(lf); const auto d1 = TbfUtils::make_const(view).getParticleData(lf);
            const auto r0 = TbfUtils::make_const(g).getParticleRhs(lf); const auto r1 = TbfUtils::make_const(view).getParticleRhs(lf);
            for(long p = 0 ; p < g.getNbParticlesInLeaf(lf) ; ++p){
                ++values; if(view.getParticleIndexes(lf)[p] != g.getParticleIndexes(lf)[p]) ++bad;
                for(long k = 0 ; k < Dim ; ++k){ ++values; if(std::memcmp(&d0[k][p], &d1[k][p], sizeof(RealType)) != 0) ++bad; }
                for(long k = 0 ; k < NSLOT ; ++k){ ++values; if(r0[k][p] != r1[k][p]) ++bad; }
                // relative addresses agree
                ++values; if((reinterpret_cast<const unsigned char*>(&d0[0][p]) - ps[0].first) != (reinterpret_cast<const unsigned char*>(&d1[0][p]) - cp[0].first)) ++bad;
            }
        }
    }
    std::cout << "BC groups=" << groups << " values=" << values << " bad=" << bad << "\n";
}

using CKernel = TbfInteractionCounter<Kernel>;

// merge the per-worker counters "as documented" (Counters::Reduce), in a seeded random order
template <class Algo>
static void printCounters(const Algo& algo, unsigned long seed){
    std::vector<typename CKernel::Counters> all;
    algo.applyToAllKernels([&](const auto& k){ all.push_back(k.getReduceData()); });
    long active = 0;
    for(auto& c : all) if(c.P2M + c.M2M + c.M2L + c.L2L + c.L2P + c.P2P + c.P2PInner) ++active;
    // random merge order: repeatedly merge two random entries
    unsigned long x = seed * 2654435761UL + 12345UL;
    auto rnd = [&](size_t n){ x = x * 6364136223846793005ULL + 1442695040888963407ULL; return (size_t)((x >> 33) % n); };
    while(all.size() > 1){
        const size_t a = rnd(all.size()); size_t b = rnd(all.size() - 1); if(b >= a) ++b;
        auto m = CKernel::Counters::Reduce(all[a], all[b]);
        all.erase(all.begin() + std::max(a, b)); all.erase(all.begin() + std::min(a, b));
        all.push_back(m);
    }
    const auto& c = all[0];
    std::cout << "K " << c.P2M << " " << c.M2M << " " << c.M2L << " " << c.L2L << " " << c.L2P << " " << c.P2P << " " << c.P2PInner << " workers_active=" << active << "\n";
}

// overwrite the stack below the current frame with a fixed pattern so that a read of an
// uninitialised local in the library shows up as a deterministic, absurd value
static void __attribute__((noinline)) poisonStack(){
    volatile unsigned char buf[32768];
    for(size_t k = 0 ; k < sizeof(buf) ; ++k) buf[k] = 0xAB;
    asm volatile("" ::: "memory");
}

static void flushLog(){
    for(auto& s : RecLog::lines()) std::cout << s << "\n";
    for(auto& s : RecLog::errors()) std::cout << s << "\n";
    RecLog::lines().clear();
    RecLog::errors().clear();
}

int main(){
    std::ios::sync_with_stdio(false);
    Case cs;
    std::string line;
    while(std::getline(std::cin, line)){
        std::istringstream iss(line);
        std::vector<std::string> ts;
        { std::string t; while(iss >> t) ts.push_back(t); }
        if(ts.empty()) continue;
        const std::string& op = ts[0];
        if(op == "case"){
            cs = Case();
            std::cout << "==";
            for(size_t k = 1 ; k < ts.size() ; ++k) std::cout << " " << ts[k];
            std::cout << "\n";
        }
        else if(op == "tree"){
            if(kv(ts, "D", 3) != Dim || kv(ts, "periodic", 0) != PERIODIC || kv(ts, "slotbits", 16) != SLOTBITS){ std::cout << "bad-config\n"; continue; }
            cs.H = kv(ts, "H", 3);
            std::array<RealType, Dim> widths, center;
            for(long d = 0 ; d < Dim ; ++d){ widths[d] = 1; center[d] = 0.5; }
            cs.config.reset(new Config(cs.H, widths, center));
            Geom::height() = cs.H;
            for(long d = 0 ; d < Dim ; ++d){
                Geom::corner()[d] = cs.config->getBoxCorner()[d];
                Geom::leafWidth()[d] = cs.config->getLeafWidths()[d];
                Geom::boxWidth()[d] = cs.config->getBoxWidths()[d];
            }
        }
        else if(op == "parts"){
            const long n = std::stol(ts[1]);
            cs.positions.resize(n);
            const RealType w = RealType(1) / RealType(1L << (cs.H - 1));
            for(long i = 0 ; i < n ; ++i){
                for(long d = 0 ; d < Dim ; ++d){
                    cs.positions[i][d] = (RealType(std::stol(ts[2 + i*Dim + d])) + RealType(0.5)) * w;
                }
            }
        }
        else if(op == "offs"){
            // offs <n> <code per particle and dimension>: move each particle inside (or onto a face of) its cell before the next build
            //   0 centre, 1 exactly on the lower face, 2 one ulp above the lower face, 3 one ulp below the upper face,
            //   4 exactly on the upper face of the box (only meaningful in the last cell of a non-periodic box, else as 3)
            const long n = std::stol(ts[1]);
            const RealType w = RealType(1) / RealType(1L << (cs.H - 1));
            const long last = (1L << (cs.H - 1)) - 1;
            for(long i = 0 ; i < n && i < (long)cs.positions.size() ; ++i){
                for(long d = 0 ; d < Dim ; ++d){
                    const long c = long(cs.positions[i][d] / w);      // positions are cell centres at this point: the cell coordinate
                    const long code = std::stol(ts[2 + i*Dim + d]);
                    const RealType lo = RealType(c) * w, hi = RealType(c + 1) * w;
                    RealType x = (RealType(c) + RealType(0.5)) * w;
                    if(code == 1) x = lo;
                    else if(code == 2) x = std::nextafter(lo, hi);
                    else if(code == 3 || (code == 4 && (PERIODIC || c != last))) x = std::nextafter(hi, lo);
                    else if(code == 4) x = hi;
                    cs.positions[i][d] = x;
                }
            }
        }
        else if(op == "idx"){
            idxCommand(*cs.config, ts);
        }
        else if(op == "bytecopy"){
            byteCopyCheck(*cs.tree);
        }
        else if(op == "mark"){
            std::cout << "M " << (ts.size() > 1 ? ts[1] : "") << "\n";
        }
        else if(op == "build"){
            const long envbs = kv(ts, "env", -12345);
            if(envbs != -12345) setenv("TBFMM_BLOCK_SIZE", std::to_string(envbs).c_str(), 1);
            cs.tree.reset(new Tree(*cs.config, cs.positions, kv(ts, "auto", 0) ? -1 : kv(ts, "bs", 1), kv(ts, "mode", 0) != 0));
            if(envbs != -12345) unsetenv("TBFMM_BLOCK_SIZE");
            if(kv(ts, "auto", 0)) std::cout << "B " << cs.tree->getNbElementsPerGroup() << "\n";
            tagCells(*cs.tree);
            Geom::original() = &cs.positions;
        }
        else if(op == "rebuild"){
            // TbfTree::rebuild() with nothing moved: must give the tree back (it has its own copy of the grouping code)
            cs.tree->rebuild();
            tagCells(*cs.tree);
        }
        else if(op == "dump" && ts.size() > 1 && ts[1] == "structure"){
            dumpStructure(*cs.tree);
        }
        else if(op == "dump" && ts.size() > 1 && ts[1] == "values"){
            dumpValues(*cs.tree);
        }
        else if(op == "exec" && ts.size() > 1 && ts[1] == "seq"){
            // ctor=1: built from (configuration, kernel) with the default upper level; ctor=2: from the configuration alone;
            // ctor=3: (configuration, kernel, upper); otherwise (configuration, upper).  With ctor=1/2 the case states upper=2 (the documented default)
            const long ctor = kv(ts, "ctor", 0);
            std::unique_ptr<TbfAlgorithm<RealType, Kernel, SpaceIndex>> algo;
            if(ctor == 1){ std::unique_ptr<Kernel> k(new Kernel(*cs.config)); algo.reset(new TbfAlgorithm<RealType, Kernel, SpaceIndex>(*cs.config, *k)); }
            else if(ctor == 2) algo.reset(new TbfAlgorithm<RealType, Kernel, SpaceIndex>(*cs.config));
            else if(ctor == 3){ std::unique_ptr<Kernel> k(new Kernel(*cs.config)); algo.reset(new TbfAlgorithm<RealType, Kernel, SpaceIndex>(*cs.config, *k, kv(ts, "upper", 2))); }
            else algo.reset(new TbfAlgorithm<RealType, Kernel, SpaceIndex>(*cs.config, kv(ts, "upper", 2)));
            execWith(*algo, *cs.tree, ts);
            flushLog();
        }
#ifdef USE_OMP
        else if(op == "exec" && ts.size() > 1 && ts[1] == "omp"){
            // sched=<0 fifo|1 lifo|2 random|3 priority-inverted|4 priority> seed=<n> workers=<k>
            MockConfig mc; mc.schedule = int(kv(ts, "sched", 0)); mc.seed = (unsigned long)kv(ts, "seed", 1); mc.nworkers = int(kv(ts, "workers", 1));
            // cworkers=<k>: the number of threads allowed while the executor object is constructed (it may differ from the
            // number allowed when execute() runs: an executor reused after omp_set_num_threads)
            MockConfig mcc = mc; mcc.nworkers = int(kv(ts, "cworkers", mc.nworkers));
            mock_gomp_configure(mcc);
            const long ctor = kv(ts, "ctor", 0);
            std::unique_ptr<TbfOpenmpAlgorithm<RealType, Kernel, SpaceIndex>> algo;
            if(ctor == 1){ std::unique_ptr<Kernel> k(new Kernel(*cs.config)); algo.reset(new TbfOpenmpAlgorithm<RealType, Kernel, SpaceIndex>(*cs.config, *k)); }
            else if(ctor == 2) algo.reset(new TbfOpenmpAlgorithm<RealType, Kernel, SpaceIndex>(*cs.config));
            else if(ctor == 3){ std::unique_ptr<Kernel> k(new Kernel(*cs.config)); algo.reset(new TbfOpenmpAlgorithm<RealType, Kernel, SpaceIndex>(*cs.config, *k, kv(ts, "upper", 2))); }
            else algo.reset(new TbfOpenmpAlgorithm<RealType, Kernel, SpaceIndex>(*cs.config, kv(ts, "upper", 2)));
            mock_gomp_configure(mc);
            mock_gomp_clear_history();
            execWith(*algo, *cs.tree, ts);
            long nt = 0; mock_gomp_history(&nt);
            std::cout << "T " << nt << "\n";
            flushLog();
        }
#endif
#ifdef USE_SPECX
        else if(op == "exec" && ts.size() > 1 && ts[1] == "specx"){
            mock_specx_configure(int(kv(ts, "sched", 0)), (unsigned long)kv(ts, "seed", 1), int(kv(ts, "workers", 1)));
            const long before = mock_specx_total_run();
            {
                std::unique_ptr<TbfSmSpecxAlgorithm<RealType, Kernel, SpaceIndex>> algo(
                    new TbfSmSpecxAlgorithm<RealType, Kernel, SpaceIndex>(*cs.config, kv(ts, "upper", 2)));
                execWith(*algo, *cs.tree, ts);
            }
            std::cout << "T " << (mock_specx_total_run() - before) << "\n";
            flushLog();
        }
#endif
#ifdef USE_STARPU
        else if(op == "exec" && ts.size() > 1 && ts[1] == "starpu"){
            // the StarPU executor under the mock runtime: sched=<0 fifo|1 lifo|2 random|3 priority-inverted|4 priority> seed=<n> workers=<k>
            mock_starpu_configure(int(kv(ts, "sched", 0)), (unsigned long)kv(ts, "seed", 1), int(kv(ts, "workers", 1)));
            const long before = mock_starpu_total_run();
            {
                std::unique_ptr<TbfSmStarpuAlgorithm<RealType, Kernel, SpaceIndex>> algo(
                    new TbfSmStarpuAlgorithm<RealType, Kernel, SpaceIndex>(*cs.config, kv(ts, "upper", 2)));
                execWith(*algo, *cs.tree, ts);
            }
            std::cout << "T " << (mock_starpu_total_run() - before) << "\n";
            flushLog();
        }
#endif
        else if(op == "exec" && ts.size() > 1 && ts[1] == "seqc"){
            std::unique_ptr<TbfAlgorithm<RealType, CKernel, SpaceIndex>> algo(new TbfAlgorithm<RealType, CKernel, SpaceIndex>(*cs.config, kv(ts, "upper", 2)));
            execWith(*algo, *cs.tree, ts);
            printCounters(*algo, (unsigned long)kv(ts, "seed", 1));
            flushLog();
        }
#ifdef USE_OMP
        else if(op == "exec" && ts.size() > 1 && ts[1] == "ompc"){
            MockConfig mc; mc.schedule = int(kv(ts, "sched", 0)); mc.seed = (unsigned long)kv(ts, "seed", 1); mc.nworkers = int(kv(ts, "workers", 1));
            mock_gomp_configure(mc);
            std::unique_ptr<TbfOpenmpAlgorithm<RealType, CKernel, SpaceIndex>> algo(new TbfOpenmpAlgorithm<RealType, CKernel, SpaceIndex>(*cs.config, kv(ts, "upper", 2)));
            execWith(*algo, *cs.tree, ts);
            printCounters(*algo, (unsigned long)kv(ts, "seed", 1));
            flushLog();
        }
#endif
#if PERIODIC
        else if(op == "exec" && ts.size() > 1 && ts[1] == "periodic"){
            // the documented sequence: bottom-to-top, top tree, transfer, top-to-bottom (upper working level 1)
            const long n = kv(ts, "n", 0);
            const bool omp = kv(ts, "omp", 0) != 0;
            using TopAlgo = TbfAlgorithmPeriodicTopTree<RealType, Kernel, Cnt, Cnt, SpaceIndex>;
            std::unique_ptr<TopAlgo> top(new TopAlgo(*cs.config, n));
            const auto iv = top->getRepetitionsIntervals();
            std::cout << "PI " << top->getNbRepetitionsPerDim() << " " << top->getNbTotalRepetitions();
            for(long d = 0 ; d < Dim ; ++d) std::cout << " " << iv.first[d] << ":" << iv.second[d];
            std::cout << "\n";
            // what the kernel the top tree built for itself was constructed from (unit box: widths and centres are integers / halves)
            top->applyToAllKernels([&](const auto& k){ std::cout << "TK " << k.cfgHeight << " " << long(k.cfgWidth0) << " " << long(2 * (k.cfgCenter0 - Geom::corner()[0])) << "\n"; });
            auto stage = [&](int flags){
#ifdef USE_OMP
                if(omp){
                    MockConfig mc; mc.schedule = int(kv(ts, "sched", 0)); mc.seed = (unsigned long)kv(ts, "seed", 1); mc.nworkers = int(kv(ts, "workers", 1));
                    mock_gomp_configure(mc);
                    std::unique_ptr<TbfOpenmpAlgorithm<RealType, Kernel, SpaceIndex>> algo(new TbfOpenmpAlgorithm<RealType, Kernel, SpaceIndex>(*cs.config, TbfDefaultLastLevelPeriodic));
                    algo->execute(*cs.tree, flags);
                    return;
                }
#endif
                (void)omp;
                std::unique_ptr<TbfAlgorithm<RealType, Kernel, SpaceIndex>> algo(new TbfAlgorithm<RealType, Kernel, SpaceIndex>(*cs.config, TbfDefaultLastLevelPeriodic));
                algo->execute(*cs.tree, flags);
            };
            stage(TbfAlgorithmUtils::TbfBottomToTopStages);
            RecLog::topTree() = true;
            poisonStack();
            top->execute(*cs.tree);
            RecLog::topTree() = false;
            stage(TbfAlgorithmUtils::TbfTransferStages);
            stage(TbfAlgorithmUtils::TbfTopToBottomStages);
            flushLog();
        }
#endif
        else if(op == "find" && ts.size() > 2 && ts[1] == "cell"){
            const long l = std::stol(ts[2]);
            for(size_t k = 3 ; k < ts.size() ; ++k){
                const long i = std::stol(ts[k]);
                auto found = cs.tree->findGroupWithCell(l, i);
                if(found){
                    auto& groups = cs.tree->getCellGroupsAtLevel(l);
                    const long g = &((*found).first.get()) - &groups[0];
                    std::cout << "F C " << l << " " << i << " " << g << " " << (*found).second << "\n";
                    if((*found).first.get().getCellSpacialIndex((*found).second) != i) std::cout << "X find cell returned a handle to another cell\n";
                }
                else std::cout << "F C " << l << " " << i << " none\n";
            }
        }
        else if(op == "find" && ts.size() > 1 && ts[1] == "leaf"){
            for(size_t k = 2 ; k < ts.size() ; ++k){
                const long i = std::stol(ts[k]);
                auto found = cs.tree->findGroupWithLeaf(i);
                if(found){
                    auto& groups = cs.tree->getParticleGroups();
                    const long g = &((*found).first.get()) - &groups[0];
                    std::cout << "F P " << i << " " << g << " " << (*found).second << "\n";
                    if((*found).first.get().getLeafSpacialIndex((*found).second) != i) std::cout << "X find leaf returned a handle to another leaf\n";
                }
                else std::cout << "F P " << i << " none\n";
            }
        }
        else if(op == "find" && ts.size() > 2 && ts[1] == "parent"){
            // getElementFromParentIndex on every group of level l: first cell of the group whose parent is the probe
            const long l = std::stol(ts[2]);
            auto& groups = cs.tree->getCellGroupsAtLevel(l);
            for(size_t g = 0 ; g < groups.size() ; ++g){
                for(size_t k = 3 ; k < ts.size() ; ++k){
                    const long i = std::stol(ts[k]);
                    auto found = groups[g].getElementFromParentIndex(cs.tree->getSpacialSystem(), i);
                    if(found) std::cout << "F Q " << l << " " << g << " " << i << " " << (*found) << "\n";
                    else std::cout << "F Q " << l << " " << g << " " << i << " none\n";
                }
            }
        }
        else if(op == "find" && ts.size() > 2 && ts[1] == "ingroup"){
            // getElementFromSpacialIndex on every cell group of level l (and, at the leaf level, on every particle group)
            const long l = std::stol(ts[2]);
            auto& groups = cs.tree->getCellGroupsAtLevel(l);
            for(size_t g = 0 ; g < groups.size() ; ++g){
                for(size_t k = 3 ; k < ts.size() ; ++k){
                    const long i = std::stol(ts[k]);
                    auto found = groups[g].getElementFromSpacialIndex(i);
                    if(found) std::cout << "F G " << l << " " << g << " " << i << " " << (*found) << "\n";
                    else std::cout << "F G " << l << " " << g << " " << i << " none\n";
                }
            }
            if(l == cs.tree->getHeight() - 1){
                auto& pgroups = cs.tree->getParticleGroups();
                for(size_t g = 0 ; g < pgroups.size() ; ++g){
                    for(size_t k = 3 ; k < ts.size() ; ++k){
                        const long i = std::stol(ts[k]);
                        auto found = pgroups[g].getElementFromSpacialIndex(i);
                        if(found) std::cout << "F H " << g << " " << i << " " << (*found) << "\n";
                        else std::cout << "F H " << g << " " << i << " none\n";
                    }
                }
            }
        }
        else if(op == "end"){
            std::cout << "end\n";
        }
        else{
            std::cout << "bad-op " << line << "\n";
        }
    }
    return 0;
}
