// Mock of the part of libgomp's ABI that the library's OpenMP executors use (DESIGN.md §4.4).
// The harness TU is compiled with -fopenmp but linked against this file instead of libgomp.
// Every `#pragma omp task` is *recorded* (function, private copy of its argument block, declared
// dependences, priority); nothing runs at submission.  At `taskwait` (or at the end of the parallel
// region) the recorded tasks are executed in an order chosen by the harness among the orders a
// conforming runtime may pick: a task may start only when every earlier-submitted task it depends
// on (same address, at least one of the two an out/inout access; mutexinoutset writers are mutually
// exclusive but unordered) has finished.  Because every task is deferred until the submitting
// function frames have returned, any by-reference use of a dead local is a stack-use-after-return
// that ASan (detect_stack_use_after_return=1) reports.
#include <cstdio>
#include <cstdlib>
#include <cstring>
#include <cstdint>
#include <vector>
#include <map>
#include <set>
#include <string>
#include <algorithm>
#include <random>

#include "mock_gomp.h"

namespace {
struct Task {
    void (*fn)(void*);
    void* data;
    std::vector<void*> outs;     // out / inout
    std::vector<void*> mutexes;  // mutexinoutset
    std::vector<void*> ins;      // in
    int priority;
    long id;
};

std::vector<Task> pending;
std::vector<MockTaskRecord> history;
MockConfig config = {MOCK_FIFO, 1, 1};
int currentThread = 0;
long nextId = 0;
long totalRun = 0;

void runAll(){
    std::vector<Task> tasks;
    tasks.swap(pending);
    const size_t n = tasks.size();
    // dependence graph: b (later) waits for a (earlier) iff they conflict on some address
    std::vector<std::vector<size_t>> succ(n);
    std::vector<size_t> indeg(n, 0);
    {
        struct Acc { size_t task; int mode; };  // 0 in, 1 out/inout, 2 mutexinoutset
        std::map<void*, std::vector<Acc>> byAddr;
        for(size_t i = 0 ; i < n ; ++i){
            std::set<size_t> preds;
            auto visit = [&](void* p, int mode){
                auto& lst = byAddr[p];
                for(const Acc& a : lst){
                    if(a.task == i) continue;
                    const bool conflict = (mode == 1) || (a.mode == 1) || (mode != a.mode);   // in/in and mutex/mutex do not order
                    if(conflict) preds.insert(a.task);
                }
            };
            for(void* p : tasks[i].outs) visit(p, 1);
            for(void* p : tasks[i].mutexes) visit(p, 2);
            for(void* p : tasks[i].ins) visit(p, 0);
            for(void* p : tasks[i].outs) byAddr[p].push_back({i, 1});
            for(void* p : tasks[i].mutexes) byAddr[p].push_back({i, 2});
            for(void* p : tasks[i].ins) byAddr[p].push_back({i, 0});
            for(size_t a : preds){ succ[a].push_back(i); indeg[i] += 1; }
        }
    }
    std::mt19937_64 rng(config.seed * 7919u + 17u);
    std::set<size_t> ready;
    for(size_t i = 0 ; i < n ; ++i) if(indeg[i] == 0) ready.insert(i);
    size_t remaining = n;
    while(remaining){
        if(ready.empty()){ fprintf(stderr, "mock_gomp: no ready task (cyclic?)\n"); abort(); }
        size_t pick = *ready.begin();
        switch(config.schedule){
        case MOCK_FIFO: pick = *ready.begin(); break;
        case MOCK_LIFO: pick = *ready.rbegin(); break;
        case MOCK_RANDOM: { auto it = ready.begin(); std::advance(it, (long)(rng() % ready.size())); pick = *it; break; }
        case MOCK_PRIO_INV: {
            for(size_t r : ready){ if(tasks[r].priority < tasks[pick].priority) pick = r; }
            break; }
        case MOCK_PRIO: {
            for(size_t r : ready){ if(tasks[r].priority > tasks[pick].priority) pick = r; }
            break; }
        }
        ready.erase(pick);
        currentThread = (config.nworkers > 1) ? int(rng() % (unsigned long)config.nworkers) : 0;
        MockTaskRecord rec;
        rec.id = tasks[pick].id; rec.thread = currentThread; rec.priority = tasks[pick].priority;
        rec.nouts = (int)tasks[pick].outs.size(); rec.nmutex = (int)tasks[pick].mutexes.size(); rec.nins = (int)tasks[pick].ins.size();
        for(int k = 0 ; k < 4 ; ++k){
            rec.outs[k] = k < rec.nouts ? tasks[pick].outs[k] : (k >= rec.nouts && k - rec.nouts < rec.nmutex ? tasks[pick].mutexes[k - rec.nouts] : nullptr);
            rec.ins[k] = k < rec.nins ? tasks[pick].ins[k] : nullptr;
        }
        history.push_back(rec);
        tasks[pick].fn(tasks[pick].data);
        free(tasks[pick].data);
        for(size_t s2 : succ[pick]){ if(--indeg[s2] == 0) ready.insert(s2); }
        remaining -= 1;
        totalRun += 1;
    }
    currentThread = 0;
}
}

extern "C" {

void mock_gomp_configure(MockConfig c){ config = c; }
long mock_gomp_total_run(){ return totalRun; }
const MockTaskRecord* mock_gomp_history(long* n){ *n = (long)history.size(); return history.data(); }
void mock_gomp_clear_history(){ history.clear(); }

void GOMP_parallel(void (*fn)(void*), void* data, unsigned /*num_threads*/, unsigned /*flags*/){
    currentThread = 0;
    fn(data);          // the master runs the region body
    runAll();          // implicit barrier: all tasks complete
}

void GOMP_task(void (*fn)(void*), void* data, void (*cpyfn)(void*, void*), long arg_size, long arg_align,
               bool /*if_clause*/, unsigned flags, void** depend, int priority, void* /*detach*/){
    Task t;
    t.fn = fn;
    t.priority = (flags & 16u) ? priority : 0;
    t.id = nextId++;
    const size_t align = arg_align > 0 ? (size_t)arg_align : 16;
    const size_t size = ((size_t)(arg_size > 0 ? arg_size : 1) + align - 1) / align * align;
    t.data = aligned_alloc(align < sizeof(void*) ? sizeof(void*) : align, size < align ? align : size);
    if(cpyfn) cpyfn(t.data, data); else memcpy(t.data, data, (size_t)arg_size);
    if((flags & 8u) && depend){
        size_t ndepend, nout, nmutex = 0, nin, first;
        if(depend[0] != nullptr){
            ndepend = (size_t)(uintptr_t)depend[0]; nout = (size_t)(uintptr_t)depend[1]; first = 2; nin = ndepend - nout;
        }
        else{
            ndepend = (size_t)(uintptr_t)depend[1]; nout = (size_t)(uintptr_t)depend[2]; nmutex = (size_t)(uintptr_t)depend[3];
            nin = (size_t)(uintptr_t)depend[4]; first = 5;
            if(nout + nmutex + nin != ndepend){ fprintf(stderr, "mock_gomp: depobj dependences are not supported\n"); abort(); }
        }
        for(size_t k = 0 ; k < nout ; ++k) t.outs.push_back(depend[first + k]);
        for(size_t k = 0 ; k < nmutex ; ++k) t.mutexes.push_back(depend[first + nout + k]);
        for(size_t k = 0 ; k < nin ; ++k) t.ins.push_back(depend[first + nout + nmutex + k]);
    }
    pending.push_back(t);
}

void GOMP_taskwait(void){ runAll(); }
void GOMP_barrier(void){ runAll(); }
bool GOMP_single_start(void){ return true; }
void GOMP_critical_start(void){}
void GOMP_critical_end(void){}

int omp_get_thread_num(void){ return currentThread; }
int omp_get_max_threads(void){ return config.nworkers; }
int omp_get_num_threads(void){ return config.nworkers; }
int omp_in_parallel(void){ return 1; }
void omp_set_num_threads(int){}
double omp_get_wtime(void){ return 0; }

}
