// Numeric probe harness for the periodic and the target/source variants of the rotation / uniform kernels (C04, C05).
// Build: g++ -std=c++17 -I/repo/src -DKERNEL_ROT|-DKERNEL_UNIF -DKORDER=<p> -DREAL=<float|double> -DPERIODIC=<0|1> [-DUSE_OMP -fopenmp mock_gomp.cpp] -lfftw3 -lfftw3f
//   nbox H=<h> <center hex>*3 <width hex>          box
//   nparts <n> <x y z q hex>*n                      particles (the sources in target/source mode)
//   ntgts <n> <x y z q hex>*n                       targets (target/source mode)
//   nrunx tsm=<0|1> levels=<n> bs=<b> gmode=<0|1> omp=<0|1> [sched= seed= workers=] libkernel=<0|1>
//        PERIODIC: the four-step sequence with the top tree (levels >= -1); prints "RI lo hi" per dimension first
// Output: NR <i> <pot> <fx> <fy> <fz>  (bit patterns) for every (target) particle.
#include <iostream>
#include <sstream>
#include <vector>
#include <array>
#include <string>
#include <memory>
#include <complex>
#include <cstring>
#include <cstdint>

#include "tbfglobal.hpp"
#include "spacial/tbfmortonspaceindex.hpp"
#include "spacial/tbfspacialconfiguration.hpp"
#include "core/tbfcellscontainer.hpp"
#include "core/tbfparticlescontainer.hpp"
#include "core/tbfparticlesorter.hpp"
#include "core/tbftree.hpp"
#include "core/tbftreetsm.hpp"
#include "algorithms/tbfalgorithmutils.hpp"
#include "algorithms/sequential/tbfalgorithm.hpp"
#include "algorithms/sequential/tbfalgorithmtsm.hpp"
#include "algorithms/periodic/tbfalgorithmperiodictoptree.hpp"
#include "algorithms/periodic/tbfalgorithmperiodictoptreetsm.hpp"
#ifdef USE_OMP
#include "algorithms/openmp/tbfopenmpalgorithm.hpp"
#include "algorithms/openmp/tbfopenmpalgorithmtsm.hpp"
#include "mock_gomp.h"
#endif
#ifdef KERNEL_ROT
#include "kernels/rotationkernel/FRotationKernel.hpp"
#else
#include "kernels/unifkernel/FUnifKernel.hpp"
#endif

#ifndef KORDER
#define KORDER 8
#endif
#ifndef REAL
#define REAL double
#endif
#ifndef PERIODIC
#define PERIODIC 0
#endif

using RealType = REAL;
constexpr int Dim = 3;
using Config = TbfSpacialConfiguration<RealType, Dim>;
#if PERIODIC
using SpaceIndex = TbfDefaultSpaceIndexTypePeriodic<RealType>;
#else
using SpaceIndex = TbfDefaultSpaceIndexType<RealType>;
#endif

#ifdef KERNEL_ROT
constexpr long int VectorSize = ((KORDER+2)*(KORDER+1))/2;
using MultipoleClass = std::array<std::complex<RealType>, VectorSize>;
using LocalClass = std::array<std::complex<RealType>, VectorSize>;
using KernelClass = FRotationKernel<RealType, KORDER, SpaceIndex>;
static std::unique_ptr<KernelClass> makeKernel(const Config& c){ return std::unique_ptr<KernelClass>(new KernelClass(c)); }
#else
constexpr long int VectorSize = TensorTraits<KORDER>::nnodes;
constexpr long int TransformedVectorSize = (2*KORDER-1)*(2*KORDER-1)*(2*KORDER-1);
struct MultipoleClass { RealType multipole_exp[VectorSize]; std::complex<RealType> transformed_multipole_exp[TransformedVectorSize]; };
struct LocalClass { RealType local_exp[VectorSize]; std::complex<RealType> transformed_local_exp[TransformedVectorSize]; };
using KernelClass = FUnifKernel<RealType, FInterpMatrixKernelR<RealType>, KORDER, Dim, SpaceIndex>;
static FInterpMatrixKernelR<RealType> interpolator;
static std::unique_ptr<KernelClass> makeKernel(const Config& c){ return std::unique_ptr<KernelClass>(new KernelClass(c, &interpolator)); }
#endif
using Tree = TbfTree<RealType, RealType, 4, RealType, 4, MultipoleClass, LocalClass, SpaceIndex>;
using TreeTsm = TbfTreeTsm<RealType, RealType, 4, RealType, 4, MultipoleClass, LocalClass, SpaceIndex>;

template <class T> struct Bits;
template <> struct Bits<double> { using U = uint64_t; };
template <> struct Bits<float> { using U = uint32_t; };
template <class T> static T fromHex(const std::string& s){ typename Bits<T>::U u = (typename Bits<T>::U)std::stoull(s, nullptr, 16); T v; std::memcpy(&v, &u, sizeof(T)); return v; }
template <class T> static std::string toHex(T v){ typename Bits<T>::U u; std::memcpy(&u, &v, sizeof(T)); char buf[32]; snprintf(buf, sizeof(buf), "%llx", (unsigned long long)u); return buf; }

static long kv(const std::vector<std::string>& ts, const std::string& key, long dflt){
    for(const auto& t : ts){ if(t.rfind(key + "=", 0) == 0) return std::stol(t.substr(key.size()+1)); }
    return dflt;
}

static void printResults(const std::vector<std::array<RealType, 4>>& out){
    for(size_t i = 0 ; i < out.size() ; ++i){
        std::cout << "NR " << i << " " << toHex(out[i][3]) << " " << toHex(out[i][0]) << " " << toHex(out[i][1]) << " " << toHex(out[i][2]) << "\n";
    }
}

int main(){
    std::ios::sync_with_stdio(false);
    long H = 3;
    std::array<RealType, 3> center{{0.5, 0.5, 0.5}}, widths{{1, 1, 1}};
    std::vector<std::array<RealType, 4>> parts, tgts;
    std::string line;
    while(std::getline(std::cin, line)){
        std::istringstream iss(line);
        std::vector<std::string> ts;
        { std::string t; while(iss >> t) ts.push_back(t); }
        if(ts.empty()) continue;
        const std::string& op = ts[0];
        if(op == "case"){ std::cout << "=="; for(size_t k = 1 ; k < ts.size() ; ++k) std::cout << " " << ts[k]; std::cout << "\n"; }
        else if(op == "nbox"){
            H = kv(ts, "H", 3);
            std::vector<std::string> vals; for(size_t k = 1 ; k < ts.size() ; ++k) if(ts[k].find('=') == std::string::npos) vals.push_back(ts[k]);
            for(int d = 0 ; d < 3 ; ++d) center[d] = fromHex<RealType>(vals[d]);
            for(int d = 0 ; d < 3 ; ++d) widths[d] = fromHex<RealType>(vals[3]);
        }
        else if(op == "nparts" || op == "ntgts"){
            auto& dst = (op == "nparts") ? parts : tgts;
            const long n = std::stol(ts[1]);
            dst.resize(n);
            for(long i = 0 ; i < n ; ++i) for(int k = 0 ; k < 4 ; ++k) dst[i][k] = fromHex<RealType>(ts[2 + 4*i + k]);
        }
        else if(op == "nrunx"){
            Config config(H, widths, center);
            const bool tsm = kv(ts, "tsm", 0) != 0;
            const long levels = kv(ts, "levels", -1);
            const long bs = kv(ts, "bs", 10);
            const bool gmode = kv(ts, "gmode", 0) != 0;
            const bool libkernel = kv(ts, "libkernel", 0) != 0;       // let the library build the top tree's kernel itself
            (void)libkernel; (void)levels;
#ifdef USE_OMP
            if(kv(ts, "omp", 0)){
                MockConfig mc; mc.schedule = int(kv(ts, "sched", 2)); mc.seed = (unsigned long)kv(ts, "seed", 1); mc.nworkers = int(kv(ts, "workers", 4));
                mock_gomp_configure(mc);
            }
#endif
            const long upper = PERIODIC ? TbfDefaultLastLevelPeriodic : TbfDefaultLastLevel;
            auto kern = makeKernel(config);
            if(!tsm){
                Tree tree(config, TbfUtils::make_const(parts), bs, gmode);
                auto stages = [&](auto& algo){
#if PERIODIC
                    using Top = TbfAlgorithmPeriodicTopTree<RealType, KernelClass, MultipoleClass, LocalClass, SpaceIndex>;
                    std::unique_ptr<Top> top;
#ifdef KERNEL_ROT
                    if(libkernel) top.reset(new Top(config, levels));
                    else
#endif
                    { auto tk = makeKernel(Top::GenerateAboveTreeConfiguration(config, levels)); top.reset(new Top(config, *tk, levels)); }
                    const auto iv = top->getRepetitionsIntervals();
                    std::cout << "RI"; for(int d = 0 ; d < 3 ; ++d) std::cout << " " << iv.first[d] << " " << iv.second[d]; std::cout << "\n";
                    algo.execute(tree, TbfAlgorithmUtils::TbfBottomToTopStages);
                    top->execute(tree);
                    algo.execute(tree, TbfAlgorithmUtils::TbfTransferStages);
                    algo.execute(tree, TbfAlgorithmUtils::TbfTopToBottomStages);
#else
                    algo.execute(tree);
#endif
                };
#ifdef USE_OMP
                if(kv(ts, "omp", 0)){
                    std::unique_ptr<TbfOpenmpAlgorithm<RealType, KernelClass, SpaceIndex>> algo(new TbfOpenmpAlgorithm<RealType, KernelClass, SpaceIndex>(config, *kern, upper));
                    stages(*algo);
                } else
#endif
                {
                    std::unique_ptr<TbfAlgorithm<RealType, KernelClass, SpaceIndex>> algo(new TbfAlgorithm<RealType, KernelClass, SpaceIndex>(config, *kern, upper));
                    stages(*algo);
                }
                std::vector<std::array<RealType, 4>> out(parts.size());
                tree.applyToAllLeaves([&](auto&& leafHeader, const long int* idx, auto, auto rhs){
                    for(long p = 0 ; p < leafHeader.nbParticles ; ++p) for(int k = 0 ; k < 4 ; ++k) out[idx[p]][k] = rhs[k][p];
                });
                printResults(out);
            }
            else{
                TreeTsm tree(config, TbfUtils::make_const(parts), TbfUtils::make_const(tgts), bs, gmode);
                auto stages = [&](auto& algo){
#if PERIODIC
                    using Top = TbfAlgorithmPeriodicTopTreeTsm<RealType, KernelClass, MultipoleClass, LocalClass, SpaceIndex>;
                    std::unique_ptr<Top> top;
#ifdef KERNEL_ROT
                    if(libkernel) top.reset(new Top(config, levels));
                    else
#endif
                    { auto tk = makeKernel(Top::GenerateAboveTreeConfiguration(config, levels)); top.reset(new Top(config, *tk, levels)); }
                    const auto iv = top->getRepetitionsIntervals();
                    std::cout << "RI"; for(int d = 0 ; d < 3 ; ++d) std::cout << " " << iv.first[d] << " " << iv.second[d]; std::cout << "\n";
                    algo.execute(tree, TbfAlgorithmUtils::TbfBottomToTopStages);
                    top->execute(tree);
                    algo.execute(tree, TbfAlgorithmUtils::TbfTransferStages);
                    algo.execute(tree, TbfAlgorithmUtils::TbfTopToBottomStages);
#else
                    algo.execute(tree);
#endif
                };
#ifdef USE_OMP
                if(kv(ts, "omp", 0)){
                    std::unique_ptr<TbfOpenmpAlgorithmTsm<RealType, KernelClass, SpaceIndex>> algo(new TbfOpenmpAlgorithmTsm<RealType, KernelClass, SpaceIndex>(config, *kern, upper));
                    stages(*algo);
                } else
#endif
                {
                    std::unique_ptr<TbfAlgorithmTsm<RealType, KernelClass, SpaceIndex>> algo(new TbfAlgorithmTsm<RealType, KernelClass, SpaceIndex>(config, *kern, upper));
                    stages(*algo);
                }
                std::vector<std::array<RealType, 4>> out(tgts.size());
                tree.applyToAllLeavesTarget([&](auto&& leafHeader, const long int* idx, auto, auto rhs){
                    for(long p = 0 ; p < leafHeader.nbParticles ; ++p) for(int k = 0 ; k < 4 ; ++k) out[idx[p]][k] = rhs[k][p];
                });
                printResults(out);
            }
        }
        else if(op == "end"){ std::cout << "end\n"; }
        else std::cout << "bad-op " << line << "\n";
    }
    return 0;
}
