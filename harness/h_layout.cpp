// Correspondence harness for the group memory layout (C14): TbfMemoryBlock over 40 block layouts.
// Commands:  layout <id> <K:size:rows>... | <n0> <n1> ...     fresh block; prints sizes, offsets, trailer, accessor addresses
//            reuse <n0> <n1> ...                              resetBlocksFromSizes on the same object (buffer reuse)
//            copy                                             byte copy + raw-memory view; every accessor must agree
//            move                                             move construction / assignment
#include <iostream>
#include <sstream>
#include <vector>
#include <array>
#include <string>
#include <cstring>
#include <cstdlib>
#include <memory>
#include <tuple>
#include <type_traits>
#include <functional>

#include "tbfglobal.hpp"
#include "containers/tbfmemoryblock.hpp"
#include "containers/tbfmemoryscalar.hpp"
#include "containers/tbfmemoryvector.hpp"
#include "containers/tbfmemorymultirvector.hpp"
#include "containers/tbfmemorymultivvector.hpp"

#include "h_layout_types.hpp"

struct BlockDescr { char kind; long size; long rows; };

static std::vector<BlockDescr> parseDescr(const std::string& s){
    std::vector<BlockDescr> v;
    std::istringstream iss(s);
    std::string t;
    while(iss >> t){
        BlockDescr b; b.kind = t[0];
        const size_t p1 = t.find(':'), p2 = t.find(':', p1+1);
        b.size = std::stol(t.substr(p1+1, p2-p1-1)); b.rows = std::stol(t.substr(p2+1));
        v.push_back(b);
    }
    return v;
}

template <class V, class = void> struct HasItem0 : std::false_type {};
template <class V> struct HasItem0<V, std::void_t<decltype(std::declval<V&>().getItem())>> : std::true_type {};
template <class V, class = void> struct HasItem1 : std::false_type {};
template <class V> struct HasItem1<V, std::void_t<decltype(std::declval<V&>().getItem(0L))>> : std::true_type {};
template <class V, class = void> struct HasItem2 : std::false_type {};
template <class V> struct HasItem2<V, std::void_t<decltype(std::declval<V&>().getItem(0L, 0L))>> : std::true_type {};

template <class V>
static unsigned char* itemPtr(V v, long i, long row){
    if constexpr (HasItem0<V>::value){ (void)i; (void)row; return reinterpret_cast<unsigned char*>(const_cast<typename std::remove_const<typename std::remove_reference<decltype(v.getItem())>::type>::type*>(&v.getItem())); }
    else if constexpr (HasItem2<V>::value){ return reinterpret_cast<unsigned char*>(const_cast<typename std::remove_const<typename std::remove_reference<decltype(v.getItem(0L,0L))>::type>::type*>(&v.getItem(i, row))); }
    else { (void)row; return reinterpret_cast<unsigned char*>(const_cast<typename std::remove_const<typename std::remove_reference<decltype(v.getItem(0L))>::type>::type*>(&v.getItem(i))); }
}

static std::vector<std::pair<long,long>> samples(const BlockDescr& b, long n){
    std::vector<std::pair<long,long>> s;
    if(b.kind == 'S'){ s.push_back({0,0}); return s; }
    if(n == 0) return s;
    std::vector<long> is = {0, n/2, n-1};
    std::vector<long> rs = {0};
    if(b.kind == 'R' || b.kind == 'W'){ rs = {0, b.rows/2, b.rows-1}; }
    for(long i : is) for(long r : rs) s.push_back({i, r});
    return s;
}

struct AnyBlock {
    virtual ~AnyBlock(){}
    virtual void reset(const std::vector<long>& ns) = 0;
    virtual void print(const char* tag, const std::vector<long>& ns) = 0;
    virtual void fill(const std::vector<long>& ns) = 0;
    virtual void copyCheck(const std::vector<long>& ns) = 0;
    virtual void moveCheck(const std::vector<long>& ns) = 0;
};

template <class Layout, std::size_t NB>
struct BlockImpl : AnyBlock {
    Layout blk;
    std::vector<BlockDescr> descr;

    template <class L, class F, std::size_t... I>
    static void forBlocks(L& l, F&& f, std::index_sequence<I...>){ (f(std::integral_constant<long, (long)I>{}, l.template getViewerForBlock<I>()), ...); }
    template <class L, class F, std::size_t... I>
    static void forBlocksConst(const L& l, F&& f, std::index_sequence<I...>){ (f(std::integral_constant<long, (long)I>{}, l.template getViewerForBlockConst<I>()), ...); }

    void reset(const std::vector<long>& ns) override {
        std::array<long, NB> a; for(size_t k = 0 ; k < NB ; ++k) a[k] = ns[k];
        blk.resetBlocksFromSizes(a);
    }
    template <class L>
    void printOf(L& l, const char* tag, const std::vector<long>& ns){
        unsigned char* base = l.getPtr();
        const long alloc = l.getAllocatedMemorySizeInByte();
        std::cout << tag << " alloc=" << alloc;
        const long* tr = reinterpret_cast<const long*>(base + alloc - 16*(long)NB);
        std::cout << " toff=";
        for(size_t k = 0 ; k < NB ; ++k) std::cout << (k ? "," : "") << tr[k];
        std::cout << " tcnt=";
        for(size_t k = 0 ; k < NB ; ++k) std::cout << (k ? "," : "") << tr[NB + k];
        std::cout << "\n";
        forBlocks(l, [&](auto idx, auto viewer){
            const long b = decltype(idx)::value;
            for(auto [i, r] : samples(descr[b], ns[b])){
                std::cout << "A " << b << " " << i << " " << r << " " << (itemPtr(viewer, i, r) - base) << "\n";
            }
        }, std::make_index_sequence<NB>{});
    }
    void print(const char* tag, const std::vector<long>& ns) override { printOf(blk, tag, ns); }
    void fill(const std::vector<long>& ns) override {
        forBlocks(blk, [&](auto idx, auto viewer){
            const long b = decltype(idx)::value;
            const long rows = (descr[b].kind == 'R' || descr[b].kind == 'W') ? descr[b].rows : 1;
            const long n = descr[b].kind == 'S' ? 1 : ns[b];
            for(long i = 0 ; i < n ; ++i) for(long r = 0 ; r < rows ; ++r){
                unsigned char* p = itemPtr(viewer, i, r);
                for(long k = 0 ; k < descr[b].size ; ++k) p[k] = (unsigned char)(b*131 + i*31 + r*17 + k*7 + 1);
            }
        }, std::make_index_sequence<NB>{});
    }
    void copyCheck(const std::vector<long>& ns) override {
        const long alloc = blk.getAllocatedMemorySizeInByte();
        std::unique_ptr<unsigned char[]> buf(new unsigned char[alloc + 64]);
        unsigned char* dst = buf.get() + 8;     // another base, differently aligned
        std::memcpy(dst, blk.getPtr(), alloc);
        Layout view(dst, alloc, true);
        long bad = 0, checked = 0;
        forBlocks(view, [&](auto idx, auto viewer){
            const long b = decltype(idx)::value;
            const long rows = (descr[b].kind == 'R' || descr[b].kind == 'W') ? descr[b].rows : 1;
            const long n = descr[b].kind == 'S' ? 1 : ns[b];
            for(long i = 0 ; i < n ; ++i) for(long r = 0 ; r < rows ; ++r){
                unsigned char* p = itemPtr(viewer, i, r);
                if(p < dst || p + descr[b].size > dst + alloc){ ++bad; continue; }
                for(long k = 0 ; k < descr[b].size ; ++k){ ++checked; if(p[k] != (unsigned char)(b*131 + i*31 + r*17 + k*7 + 1)) ++bad; }
            }
        }, std::make_index_sequence<NB>{});
        std::cout << "CP checked=" << checked << " bad=" << bad << "\n";
        printOf(view, "CPV", ns);
        // the copy is a plain view: it must not own (destroying it must not free our buffer) — ASan checks that
    }
    void moveCheck(const std::vector<long>& ns) override {
        unsigned char* before = blk.getPtr();
        Layout other(std::move(blk));
        std::cout << "MV same=" << (other.getPtr() == before) << " srcnull=" << (blk.getPtr() == nullptr) << " srcempty=" << blk.isEmpty() << "\n";
        printOf(other, "MVV", ns);
        blk = std::move(other);
        std::cout << "MA same=" << (blk.getPtr() == before) << " srcnull=" << (other.getPtr() == nullptr) << "\n";
    }
};

template <class Layout> struct NbOf;
template <class... B> struct NbOf<TbfMemoryBlock<B...>> { static constexpr std::size_t value = sizeof...(B); };

template <long N> struct LayoutOf;
#define LO(N) template <> struct LayoutOf<N> { using type = Layout##N; };
LO(0) LO(1) LO(2) LO(3) LO(4) LO(5) LO(6) LO(7) LO(8) LO(9) LO(10) LO(11) LO(12) LO(13) LO(14) LO(15) LO(16) LO(17) LO(18) LO(19)
LO(20) LO(21) LO(22) LO(23) LO(24) LO(25) LO(26) LO(27) LO(28) LO(29) LO(30) LO(31) LO(32) LO(33) LO(34) LO(35) LO(36) LO(37) LO(38) LO(39)

template <long N>
static AnyBlock* createN(long id){
    if constexpr (N >= NB_LAYOUTS){ (void)id; return nullptr; }
    else {
        if(id == N){
            using L = typename LayoutOf<N>::type;
            auto* b = new BlockImpl<L, NbOf<L>::value>();
            b->descr = parseDescr(layoutDescr[N]);
            return b;
        }
        return createN<N+1>(id);
    }
}

int main(){
    std::ios::sync_with_stdio(false);
    std::unique_ptr<AnyBlock> cur;
    std::vector<long> ns;
    std::string line;
    while(std::getline(std::cin, line)){
        std::istringstream iss(line);
        std::vector<std::string> ts;
        { std::string t; while(iss >> t) ts.push_back(t); }
        if(ts.empty()) continue;
        const std::string& op = ts[0];
        if(op == "case"){
            cur.reset();
            std::cout << "==";
            for(size_t k = 1 ; k < ts.size() ; ++k) std::cout << " " << ts[k];
            std::cout << "\n";
        }
        else if(op == "layout"){
            const long id = std::stol(ts[1]);
            size_t bar = 2; std::string d;
            while(bar < ts.size() && ts[bar] != "|"){ d += (d.empty() ? "" : " ") + ts[bar]; ++bar; }
            if(id < 0 || id >= NB_LAYOUTS || d != layoutDescr[id]){ std::cout << "X layout descriptor mismatch\n"; continue; }
            cur.reset(createN<0>(id));
            ns.clear();
            for(size_t k = bar + 1 ; k < ts.size() ; ++k) ns.push_back(std::stol(ts[k]));
            cur->reset(ns);
            cur->fill(ns);
            cur->print("LY", ns);
        }
        else if(op == "reuse"){
            ns.clear();
            for(size_t k = 1 ; k < ts.size() ; ++k) ns.push_back(std::stol(ts[k]));
            cur->reset(ns);
            cur->fill(ns);
            cur->print("LY", ns);
        }
        else if(op == "copy"){ cur->copyCheck(ns); }
        else if(op == "move"){ cur->moveCheck(ns); }
        else if(op == "end"){ cur.reset(); std::cout << "end\n"; }
        else std::cout << "bad-op " << line << "\n";
    }
    return 0;
}
