// Recording kernel and value types shared by the correspondence harnesses (see DESIGN.md §4).
// The kernel is *exactly additive*: every expansion and every particle result is a vector of 64
// 16-bit counters, slot p%64 counting how often particle p contributed.  Every call is logged with
// the raw arguments it received ("C ..." lines, same text as the Lean driver prints) and its
// arguments are checked against what they claim ("X ..." lines = inconsistent arguments).
#ifndef VERIF_RECKERNEL_HPP
#define VERIF_RECKERNEL_HPP

#include <vector>
#include <string>
#include <sstream>
#include <algorithm>
#include <cstdint>
#include <cstring>
#include <array>
#include "utils/tbfperiodicshifter.hpp"

// counter vectors: NSLOT counters of SLOTBITS bits (64 x 16 by default; 16 x 64 for the periodic runs,
// whose image counts exceed 16 bits)
#ifndef SLOTBITS
#define SLOTBITS 16
#endif
#if SLOTBITS == 16
constexpr int NSLOT = 64;
using slot_t = uint16_t;
#else
constexpr int NSLOT = 16;
using slot_t = uint64_t;
#endif

struct Cnt {
    long level;            // identity tag written by the harness after the build (never by the kernel)
    long idx;
    slot_t cnt[NSLOT];
};

inline std::string hexOfCnt(const slot_t* c){
    // big number sum_k c[k] * 2^(SLOTBITS*k) in lower-case hex without leading zeros
    std::string s;
    bool started = false;
    char buf[24];
    for(int k = NSLOT-1 ; k >= 0 ; --k){
        if(!started){
            if(c[k] == 0) continue;
            snprintf(buf, sizeof(buf), "%llx", (unsigned long long)c[k]);
            started = true;
        }
        else snprintf(buf, sizeof(buf), SLOTBITS == 16 ? "%04llx" : "%016llx", (unsigned long long)c[k]);
        s += buf;
    }
    if(!started) s = "0";
    return s;
}

struct RecLog {
    static std::vector<std::string>& lines(){ static std::vector<std::string> l; return l; }
    static std::vector<std::string>& errors(){ static std::vector<std::string> l; return l; }
    static bool& enabled(){ static bool e = true; return e; }
    // calls made by the periodic top tree operate on virtual cells above the root: they are logged as "CT ..."
    // and the identity tags of their arguments are not meaningful
    static bool& topTree(){ static bool t = false; return t; }
    static void add(const std::string& s){ if(enabled()) lines().push_back(topTree() ? ("CT" + s.substr(1)) : s); }
    static void err(const std::string& s){ if(!topTree() || s.find("tag") == std::string::npos) errors().push_back(s); }
};

// geometry the kernel uses to check leaf containment of the particles it is handed
template <class RealType, long int Dim>
struct RecGeom {
    static std::array<RealType,Dim>& corner(){ static std::array<RealType,Dim> c; return c; }
    static std::array<RealType,Dim>& leafWidth(){ static std::array<RealType,Dim> c; return c; }
    static std::array<RealType,Dim>& boxWidth(){ static std::array<RealType,Dim> c; return c; }
    static long& height(){ static long h = 0; return h; }
    // the particle array the tree was built from (to check "original index + unmodified data")
    static const std::vector<std::array<RealType,Dim>>*& original(){ static const std::vector<std::array<RealType,Dim>>* p = nullptr; return p; }
};

template <class RealType_T, class SpaceIndexType_T>
class RecKernel {
public:
    using RealType = RealType_T;
    using SpaceIndexType = SpaceIndexType_T;
    static constexpr long int Dim = SpaceIndexType::Dim;
    using SpacialConfiguration = TbfSpacialConfiguration<RealType, Dim>;
    using Geom = RecGeom<RealType, Dim>;

    const SpaceIndexType spaceSystem;

    // the configuration this kernel was constructed from (the top tree builds its kernel from a larger, virtual box)
    long cfgHeight = 0;
    RealType cfgWidth0 = 0, cfgCenter0 = 0;

    explicit RecKernel(const SpacialConfiguration& inConfiguration) : spaceSystem(inConfiguration),
        cfgHeight(inConfiguration.getTreeHeight()), cfgWidth0(inConfiguration.getBoxWidths()[0]), cfgCenter0(inConfiguration.getBoxCenter()[0]){}
    RecKernel(const RecKernel&) = default;
    RecKernel(RecKernel&&) = default;

    template <class Symb, class Parts>
    static void checkLeaf(const char* op, const Symb& symb, const long int idx[], const Parts& parts, const long int n, const bool shifted = false){
        // particles handed to a leaf operator lie inside that leaf's box (upper faces of the box included)
        if(shifted) return;
        const long limit = (1L << (Geom::height()-1));
        for(long p = 0 ; p < n ; ++p){
            for(long d = 0 ; d < Dim ; ++d){
                const RealType x = parts[d][p];
                if(Geom::original() && (idx[p] < 0 || idx[p] >= (long)Geom::original()->size() || std::memcmp(&x, &(*Geom::original())[idx[p]][d], sizeof(RealType)) != 0)){
                    std::ostringstream os; os << "X " << op << " leaf " << symb.spaceIndex << " particle " << idx[p] << " does not carry the data of the particle inserted at that index (dim " << d << ")";
                    RecLog::err(os.str());
                }
                const RealType lo = Geom::corner()[d] + RealType(symb.boxCoord[d]) * Geom::leafWidth()[d];
                const RealType hi = Geom::corner()[d] + RealType(symb.boxCoord[d]+1) * Geom::leafWidth()[d];
                const bool lastCell = (symb.boxCoord[d] == limit-1);
                if(!(lo <= x && (x < hi || (lastCell && x <= Geom::corner()[d] + Geom::boxWidth()[d])))){
                    std::ostringstream os; os << "X " << op << " leaf " << symb.spaceIndex << " particle " << idx[p] << " outside its box in dim " << d;
                    RecLog::err(os.str());
                }
            }
        }
    }

    template <class CellSymbolicData, class ParticlesClass, class LeafClass>
    void P2M(const CellSymbolicData& symb, const long int idx[], const ParticlesClass& parts, const long int n, LeafClass& out) const {
        std::vector<long> ps(idx, idx+n); std::sort(ps.begin(), ps.end());
        std::ostringstream os; os << "C P2M " << symb.spaceIndex << " " << n;
        for(long p : ps) os << " " << p;
        RecLog::add(os.str());
        if(out.idx != symb.spaceIndex){ RecLog::err("X P2M multipole tag != leaf index " + std::to_string(symb.spaceIndex)); }
        checkLeaf("P2M", symb, idx, parts, n);
        for(long p = 0 ; p < n ; ++p) out.cnt[idx[p] % NSLOT] += 1;
    }

    template <class CellSymbolicData,class CellClassContainer, class CellClass>
    void M2M(const CellSymbolicData& symb, const long int level, const CellClassContainer& lower, CellClass& upper,
             const long int childrenPos[], const long int nb) const {
        std::ostringstream os; os << "C M2M " << level << " " << symb.spaceIndex << " " << nb;
        for(long k = 0 ; k < nb ; ++k){
            const auto& ch = lower[k].get();
            os << " " << ch.idx << ":" << childrenPos[k];
            if(ch.level != level+1) RecLog::err("X M2M child level tag " + std::to_string(ch.level) + " != level+1 of " + std::to_string(level));
            for(int s = 0 ; s < NSLOT ; ++s) upper.cnt[s] += ch.cnt[s];
        }
        if(upper.level != level) RecLog::err("X M2M parent level tag " + std::to_string(upper.level) + " != level " + std::to_string(level));
        if(upper.idx != symb.spaceIndex) RecLog::err("X M2M parent tag != symb");
        if((long)lower.size() != nb) RecLog::err("X M2M container size != nb");
        RecLog::add(os.str());
    }

    template <class CellSymbolicData,class CellClassContainer, class CellClass>
    void M2L(const CellSymbolicData& symb, const long int level, const CellClassContainer& inter, const long int neighPos[], const long int nb,
             CellClass& out) const {
        std::ostringstream os; os << "C M2L " << level << " " << symb.spaceIndex << " " << nb;
        for(long k = 0 ; k < nb ; ++k){
            const auto& nb_ = inter[k].get();
            os << " " << nb_.idx << ":" << neighPos[k];
            if(nb_.level != level) RecLog::err("X M2L source level tag " + std::to_string(nb_.level) + " != level " + std::to_string(level));
            for(int s = 0 ; s < NSLOT ; ++s) out.cnt[s] += nb_.cnt[s];
        }
        if(out.level != level) RecLog::err("X M2L target level tag " + std::to_string(out.level) + " != level " + std::to_string(level));
        if(out.idx != symb.spaceIndex) RecLog::err("X M2L target tag != symb");
        if((long)inter.size() != nb) RecLog::err("X M2L container size != nb");
        RecLog::add(os.str());
    }

    template <class CellSymbolicData,class CellClass, class CellClassContainer>
    void L2L(const CellSymbolicData& symb, const long int level, const CellClass& upper, CellClassContainer& lower,
             const long int childrenPos[], const long int nb) const {
        std::ostringstream os; os << "C L2L " << level << " " << symb.spaceIndex << " " << nb;
        for(long k = 0 ; k < nb ; ++k){
            auto& ch = lower[k].get();
            os << " " << ch.idx << ":" << childrenPos[k];
            if(ch.level != level+1) RecLog::err("X L2L child level tag " + std::to_string(ch.level) + " != level+1 of " + std::to_string(level));
            for(int s = 0 ; s < NSLOT ; ++s) ch.cnt[s] += upper.cnt[s];
        }
        if(upper.level != level) RecLog::err("X L2L parent level tag " + std::to_string(upper.level) + " != level " + std::to_string(level));
        if(upper.idx != symb.spaceIndex) RecLog::err("X L2L parent tag != symb");
        if((long)lower.size() != nb) RecLog::err("X L2L container size != nb");
        RecLog::add(os.str());
    }

    template <class CellSymbolicData,class LeafClass, class ParticlesClassValues, class ParticlesClassRhs>
    void L2P(const CellSymbolicData& symb, const LeafClass& leaf, const long int idx[],
             const ParticlesClassValues& parts, ParticlesClassRhs& rhs, const long int n) const {
        std::vector<long> ps(idx, idx+n); std::sort(ps.begin(), ps.end());
        std::ostringstream os; os << "C L2P " << symb.spaceIndex << " " << n;
        for(long p : ps) os << " " << p;
        RecLog::add(os.str());
        if(leaf.idx != symb.spaceIndex){ RecLog::err("X L2P local tag != leaf index"); }
        checkLeaf("L2P", symb, idx, parts, n);
        for(long p = 0 ; p < n ; ++p) for(int s = 0 ; s < NSLOT ; ++s) rhs[s][p] += leaf.cnt[s];
    }

    template <class LeafSymbolicData,class ParticlesClassValues, class ParticlesClassRhs>
    void P2P(const LeafSymbolicData& srcSymb, const long int srcIdx[], const ParticlesClassValues& srcParts, ParticlesClassRhs& srcRhs, const long int nSrc,
             const LeafSymbolicData& tgtSymb, const long int tgtIdx[], const ParticlesClassValues& tgtParts, ParticlesClassRhs& tgtRhs, const long int nTgt,
             const long arrayIndexSrc) const {
        std::ostringstream os; os << "C P2P " << srcSymb.spaceIndex << " " << tgtSymb.spaceIndex << " " << arrayIndexSrc;
        RecLog::add(os.str());
        checkLeaf("P2P", tgtSymb, tgtIdx, tgtParts, nTgt);
        checkP2PShift("P2P", srcSymb, srcParts, nSrc, tgtSymb, arrayIndexSrc);
        for(long p = 0 ; p < nTgt ; ++p) for(long q = 0 ; q < nSrc ; ++q) tgtRhs[srcIdx[q] % NSLOT][p] += 1;
        for(long q = 0 ; q < nSrc ; ++q) for(long p = 0 ; p < nTgt ; ++p) srcRhs[tgtIdx[p] % NSLOT][q] += 1;
    }

    template <class LeafSymbolicDataSource, class ParticlesClassValuesSource, class LeafSymbolicDataTarget, class ParticlesClassValuesTarget, class ParticlesClassRhs>
    void P2PTsm(const LeafSymbolicDataSource& srcSymb, const long int srcIdx[], const ParticlesClassValuesSource& srcParts, const long int nSrc,
                const LeafSymbolicDataTarget& tgtSymb, const long int tgtIdx[], const ParticlesClassValuesTarget& tgtParts,
                ParticlesClassRhs& tgtRhs, const long int nTgt, const long arrayIndexSrc) const {
        std::ostringstream os; os << "C P2PT " << srcSymb.spaceIndex << " " << tgtSymb.spaceIndex << " " << arrayIndexSrc;
        RecLog::add(os.str());
        checkLeaf("P2PT", tgtSymb, tgtIdx, tgtParts, nTgt);
        checkP2PShift("P2PT", srcSymb, srcParts, nSrc, tgtSymb, arrayIndexSrc);
        for(long p = 0 ; p < nTgt ; ++p) for(long q = 0 ; q < nSrc ; ++q) tgtRhs[srcIdx[q] % NSLOT][p] += 1;
    }

    template <class LeafSymbolicData,class ParticlesClassValues, class ParticlesClassRhs>
    void P2PInner(const LeafSymbolicData& symb, const long int idx[], const ParticlesClassValues& parts,
                  ParticlesClassRhs& rhs, const long int n) const {
        std::ostringstream os; os << "C P2PI " << symb.spaceIndex;
        RecLog::add(os.str());
        checkLeaf("P2PI", symb, idx, parts, n);
        for(long p = 0 ; p < n ; ++p) for(long q = 0 ; q < n ; ++q) if(p != q) rhs[idx[q] % NSLOT][p] += 1;
    }

    // sources handed to a direct interaction sit at exactly the relative offset encoded by the position
    // code: (shifted) source particles lie in the box  target.boxCoord + decode3(code)
    template <class SrcSymb, class SrcParts, class TgtSymb>
    void checkP2PShift(const char* op, const SrcSymb& srcSymb, const SrcParts& srcParts, const long nSrc, const TgtSymb& tgtSymb, long code) const {
        // the displacement the library tells kernels to apply to the sources (periodic orderings only)
        std::array<RealType, Dim> shift;
        for(long d = 0 ; d < Dim ; ++d) shift[d] = 0;
        if constexpr (SpaceIndexType::IsPeriodic){
            using Shifter = typename TbfPeriodicShifter<RealType, SpaceIndexType>::Neighbor;
            if(Shifter::NeedToShift(srcSymb, tgtSymb, spaceSystem, code)){
                shift = Shifter::GetShiftCoef(srcSymb, tgtSymb, spaceSystem, code);
            }
        }
        long rel[Dim];
        for(long d = Dim-1 ; d >= 0 ; --d){ rel[d] = (code % 3) - 1; code /= 3; }
        const long limit = (1L << (Geom::height()-1));
        for(long d = 0 ; d < Dim ; ++d){
            const long expected = tgtSymb.boxCoord[d] + rel[d];
            const long wrapped = SpaceIndexType::IsPeriodic ? ((expected % limit) + limit) % limit : expected;
            if(wrapped != srcSymb.boxCoord[d]){
                std::ostringstream os; os << "X " << op << " source " << srcSymb.spaceIndex << " is not at offset code of target " << tgtSymb.spaceIndex << " in dim " << d;
                RecLog::err(os.str());
            }
            // positions of the source particles as presented (possibly displaced by a whole box width)
            const RealType lo = Geom::corner()[d] + RealType(expected) * Geom::leafWidth()[d];
            const RealType hi = Geom::corner()[d] + RealType(expected+1) * Geom::leafWidth()[d];
            const RealType tol = Geom::leafWidth()[d] * RealType(1e-5);
            for(long q = 0 ; q < nSrc ; ++q){
                const RealType x = srcParts[d][q] + shift[d];
                if(!(lo - tol <= x && x <= hi + tol)){
                    std::ostringstream os; os << "X " << op << " source particle of leaf " << srcSymb.spaceIndex << " presented outside the box at the coded offset of target " << tgtSymb.spaceIndex << " in dim " << d;
                    RecLog::err(os.str());
                }
            }
        }
    }
};

#endif
