// Correspondence harness for the direct particle-particle routines (C20): FP2PR scalar path.
// p2p <mutual|inner|remote> <32|64> ns nt  then 8 hex values per particle (x y z q fx fy fz pot), sources first.
// Prints the resulting accumulators (fx fy fz pot per particle, sources then targets) as bit patterns.
#include <iostream>
#include <sstream>
#include <vector>
#include <array>
#include <string>
#include <cstring>
#include <cstdint>
#include "kernels/P2P/FP2PR.hpp"

template <class T> struct Bits;
template <> struct Bits<double> { using U = uint64_t; };
template <> struct Bits<float> { using U = uint32_t; };
template <class T> static T fromHex(const std::string& s){ typename Bits<T>::U u = (typename Bits<T>::U)std::stoull(s, nullptr, 16); T v; std::memcpy(&v, &u, sizeof(T)); return v; }
template <class T> static std::string toHex(T v){ typename Bits<T>::U u; std::memcpy(&u, &v, sizeof(T)); char buf[32]; snprintf(buf, sizeof(buf), "%llx", (unsigned long long)u); return buf; }

template <class T>
static void run(const std::string& routine, long ns, long nt, const std::vector<std::string>& vals){
    // one heap array per row, exactly the requested length, so that any access past the count is an ASan report
    auto load = [&](long first, long n, std::array<std::vector<T>,4>& data, std::array<std::vector<T>,4>& rhs){
        for(int k = 0 ; k < 4 ; ++k){ data[k].resize(n); rhs[k].resize(n); }
        for(long p = 0 ; p < n ; ++p) for(int k = 0 ; k < 4 ; ++k){
            data[k][p] = fromHex<T>(vals[8*(first+p) + k]);
            rhs[k][p] = fromHex<T>(vals[8*(first+p) + 4 + k]);
        }
    };
    std::array<std::vector<T>,4> sd, sr, td, tr;
    load(0, ns, sd, sr); load(ns, nt, td, tr);
    std::array<const T*,4> sdp, tdp; std::array<T*,4> srp, trp;
    for(int k = 0 ; k < 4 ; ++k){ sdp[k] = sd[k].data(); tdp[k] = td[k].data(); srp[k] = sr[k].data(); trp[k] = tr[k].data(); }
    if(routine == "mutual") FP2PR::FullMutual<T>(sdp, srp, ns, tdp, trp, nt);
    else if(routine == "remote") FP2PR::GenericFullRemote<T>(sdp, ns, tdp, trp, nt);
    else FP2PR::GenericInner<T>(tdp, trp, nt);
    std::cout << "PP";
    for(long p = 0 ; p < ns ; ++p) for(int k = 0 ; k < 4 ; ++k) std::cout << " " << toHex<T>(sr[k][p]);
    for(long p = 0 ; p < nt ; ++p) for(int k = 0 ; k < 4 ; ++k) std::cout << " " << toHex<T>(tr[k][p]);
    std::cout << "\n";
}

int main(){
    std::ios::sync_with_stdio(false);
    std::string line;
    while(std::getline(std::cin, line)){
        std::istringstream iss(line);
        std::vector<std::string> ts;
        { std::string t; while(iss >> t) ts.push_back(t); }
        if(ts.empty()) continue;
        if(ts[0] == "case"){ std::cout << "=="; for(size_t k = 1 ; k < ts.size() ; ++k) std::cout << " " << ts[k]; std::cout << "\n"; }
        else if(ts[0] == "p2p"){
            const long ns = std::stol(ts[3]), nt = std::stol(ts[4]);
            std::vector<std::string> vals(ts.begin() + 5, ts.end());
            if(ts[2] == "64") run<double>(ts[1], ns, nt, vals); else run<float>(ts[1], ns, nt, vals);
        }
        else if(ts[0] == "end"){ std::cout << "end\n"; }
        else std::cout << "bad-op " << line << "\n";
    }
    return 0;
}
