// API-compatible mock of the Specx subset used by tbfmm's smspecx executors (header only).
// Tasks are recorded by SpTaskGraph::task and run at waitAllTasks in a configurable order that is legal for
// Specx's data-access rules: two tasks that access the same address keep their submission order unless both only
// read it or both access it with SpCommutativeWrite (then any order, one at a time).
#ifndef MOCK_SPECX_SPRUNTIME_HPP
#define MOCK_SPECX_SPRUNTIME_HPP
#include <functional>
#include <vector>
#include <map>
#include <set>
#include <random>
#include <tuple>
#include <utility>
#include <type_traits>
#include <cstdio>
#include <cstdlib>

enum class SpSpeculativeModel { SP_NO_SPEC, SP_MODEL_1, SP_MODEL_2 };

struct MockSpecxConfig { int schedule = 0; unsigned long seed = 1; int nworkers = 1; };
struct MockSpecxState {
    static MockSpecxConfig& config(){ static MockSpecxConfig c; return c; }
    static long& currentThread(){ static long t = 1; return t; }
    static long& totalRun(){ static long n = 0; return n; }
};
inline void mock_specx_configure(int schedule, unsigned long seed, int nworkers){
    MockSpecxState::config().schedule = schedule; MockSpecxState::config().seed = seed; MockSpecxState::config().nworkers = nworkers < 1 ? 1 : nworkers;
}
inline long mock_specx_total_run(){ return MockSpecxState::totalRun(); }

struct SpPriority { int value; explicit SpPriority(int v) : value(v) {} };
template <class T> struct SpReadAccess { const T* ptr; };
template <class T> struct SpCommutativeWriteAccess { T* ptr; };
template <class T> struct SpWriteAccess { T* ptr; };
template <class T> SpReadAccess<T> SpRead(const T& x){ return SpReadAccess<T>{&x}; }
template <class T> SpCommutativeWriteAccess<T> SpCommutativeWrite(T& x){ return SpCommutativeWriteAccess<T>{&x}; }
template <class T> SpWriteAccess<T> SpWrite(T& x){ return SpWriteAccess<T>{&x}; }

struct SpUtils {
    static long GetThreadId(){ return MockSpecxState::currentThread(); }      // workers are numbered from 1
    static int DefaultNumThreads(){ return MockSpecxState::config().nworkers; }
};

struct SpWorkerTeam { int n; };
struct SpWorkerTeamBuilder {
    static SpWorkerTeam TeamOfCpuWorkers(){ return SpWorkerTeam{MockSpecxState::config().nworkers}; }
    static SpWorkerTeam TeamOfCpuWorkers(int n){ return SpWorkerTeam{n}; }
};
class SpComputeEngine {
    int n;
public:
    explicit SpComputeEngine(SpWorkerTeam t) : n(t.n) {}
    int getNbCpuWorkers() const { return n; }
    void stopIfNotAlreadyStopped(){}
};

namespace mock_specx_detail {
    enum Mode { READ = 0, WRITE = 1, COMMUTE = 2 };
    struct Task { std::function<void()> run; std::vector<std::pair<const void*, int>> access; int priority = 0; };
    inline bool ordered(int a, int b){ if(a == READ && b == READ) return false; if(a == COMMUTE && b == COMMUTE) return false; return true; }

    template <class T> const T& deref(const SpReadAccess<T>& a){ return *a.ptr; }
    template <class T> T& deref(const SpCommutativeWriteAccess<T>& a){ return *a.ptr; }
    template <class T> T& deref(const SpWriteAccess<T>& a){ return *a.ptr; }
    template <class T> void note(Task& t, const SpReadAccess<T>& a){ t.access.push_back({a.ptr, READ}); }
    template <class T> void note(Task& t, const SpCommutativeWriteAccess<T>& a){ t.access.push_back({a.ptr, COMMUTE}); }
    template <class T> void note(Task& t, const SpWriteAccess<T>& a){ t.access.push_back({a.ptr, WRITE}); }
}

template <SpSpeculativeModel Model>
class SpTaskGraph {
    std::vector<mock_specx_detail::Task> pending;

    template <class Tuple, std::size_t... I>
    void submit(int priority, Tuple&& all, std::index_sequence<I...>){
        constexpr std::size_t N = std::tuple_size<typename std::decay<Tuple>::type>::value;
        mock_specx_detail::Task t; t.priority = priority;
        (mock_specx_detail::note(t, std::get<I>(all)), ...);
        auto accesses = std::make_tuple(std::get<I>(all)...);
        auto fn = std::get<N - 1>(std::forward<Tuple>(all));
        t.run = [accesses, fn]() mutable { std::apply([&](auto&... a){ fn(mock_specx_detail::deref(a)...); }, accesses); };
        pending.push_back(std::move(t));
    }
public:
    void computeOn(SpComputeEngine&){}

    template <class... Args>
    void task(SpPriority p, Args&&... args){
        submit(p.value, std::forward_as_tuple(std::forward<Args>(args)...), std::make_index_sequence<sizeof...(Args) - 1>{});
    }
    template <class First, class... Args, typename = typename std::enable_if<!std::is_same<typename std::decay<First>::type, SpPriority>::value>::type>
    void task(First&& first, Args&&... args){
        submit(0, std::forward_as_tuple(std::forward<First>(first), std::forward<Args>(args)...), std::make_index_sequence<sizeof...(Args)>{});
    }

    void waitAllTasks(){
        using namespace mock_specx_detail;
        std::vector<Task> tasks; tasks.swap(pending);
        const std::size_t n = tasks.size();
        std::vector<std::vector<std::size_t>> succ(n);
        std::vector<int> indeg(n, 0);
        std::map<const void*, std::vector<std::pair<std::size_t, int>>> byAddr;
        for(std::size_t i = 0 ; i < n ; ++i){
            std::set<std::size_t> preds;
            for(auto& a : tasks[i].access) for(auto& prev : byAddr[a.first]) if(ordered(prev.second, a.second)) preds.insert(prev.first);
            for(auto& a : tasks[i].access) byAddr[a.first].push_back({i, a.second});
            for(std::size_t p : preds){ succ[p].push_back(i); indeg[i] += 1; }
        }
        const MockSpecxConfig cfg = MockSpecxState::config();
        std::mt19937_64 rng(cfg.seed * 7919u + 17u);
        std::set<std::size_t> ready;
        for(std::size_t i = 0 ; i < n ; ++i) if(indeg[i] == 0) ready.insert(i);
        std::size_t remaining = n;
        while(remaining){
            if(ready.empty()){ fprintf(stderr, "mock_specx: no ready task\n"); abort(); }
            std::size_t pick = *ready.begin();
            switch(cfg.schedule){
            case 1: pick = *ready.rbegin(); break;
            case 2: { auto it = ready.begin(); std::advance(it, (long)(rng() % ready.size())); pick = *it; break; }
            case 3: for(std::size_t r : ready){ if(tasks[r].priority < tasks[pick].priority) pick = r; } break;
            case 4: for(std::size_t r : ready){ if(tasks[r].priority > tasks[pick].priority) pick = r; } break;
            default: break;
            }
            ready.erase(pick);
            MockSpecxState::currentThread() = 1 + (cfg.nworkers > 1 ? long(rng() % (unsigned long)cfg.nworkers) : 0);
            tasks[pick].run();
            tasks[pick].run = nullptr;           // destroy the closure (captured vectors) as the runtime does after execution
            for(std::size_t s2 : succ[pick]){ if(--indeg[s2] == 0) ready.insert(s2); }
            remaining -= 1;
            MockSpecxState::totalRun() += 1;
        }
        MockSpecxState::currentThread() = 1;
    }
    ~SpTaskGraph(){ if(!pending.empty()) waitAllTasks(); }
};

// legacy façade: present in <Legacy/SpRuntime.hpp>; the executors only name the type
class SpRuntime {};
#endif
