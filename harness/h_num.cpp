// Numeric probe harness for the rotation and uniform kernels (C04, C05): runs the real kernel through
// the real tree and executors on positions/charges given as IEEE bit patterns and prints potentials
// and forces per original particle index as bit patterns.  The reference (direct sum) is evaluated by
// the check, independently.
// Build: g++ -std=c++17 -I/repo/src -DKERNEL_ROT|-DKERNEL_UNIF -DORDER=<p> -DREAL=<float|double> [-DUSE_OMP -fopenmp mock_gomp.cpp] -lfftw3 -lfftw3f
#include <iostream>
#include <sstream>
#include <vector>
#include <array>
#include <string>
#include <memory>
#include <complex>
#include <cstring>
#include <cstdint>

#include "tbfglobal.hpp"
#include "spacial/tbfmortonspaceindex.hpp"
#include "spacial/tbfspacialconfiguration.hpp"
#include "core/tbfcellscontainer.hpp"
#include "core/tbfparticlescontainer.hpp"
#include "core/tbfparticlesorter.hpp"
#include "core/tbftree.hpp"
#include "algorithms/tbfalgorithmutils.hpp"
#include "algorithms/sequential/tbfalgorithm.hpp"
#ifdef USE_OMP
#include "algorithms/openmp/tbfopenmpalgorithm.hpp"
#include "mock_gomp.h"
#endif
#ifdef KERNEL_ROT
#include "kernels/rotationkernel/FRotationKernel.hpp"
#else
#include "kernels/unifkernel/FUnifKernel.hpp"
#endif

#ifndef KORDER
#define KORDER 8
#endif
#ifndef REAL
#define REAL double
#endif

using RealType = REAL;
constexpr int Dim = 3;
using Config = TbfSpacialConfiguration<RealType, Dim>;
using SpaceIndex = TbfDefaultSpaceIndexType<RealType>;

#ifdef KERNEL_ROT
constexpr long int VectorSize = ((KORDER+2)*(KORDER+1))/2;
using MultipoleClass = std::array<std::complex<RealType>, VectorSize>;
using LocalClass = std::array<std::complex<RealType>, VectorSize>;
using KernelClass = FRotationKernel<RealType, KORDER>;
#else
constexpr long int VectorSize = TensorTraits<KORDER>::nnodes;
constexpr long int TransformedVectorSize = (2*KORDER-1)*(2*KORDER-1)*(2*KORDER-1);
struct MultipoleClass { RealType multipole_exp[VectorSize]; std::complex<RealType> transformed_multipole_exp[TransformedVectorSize]; };
struct LocalClass { RealType local_exp[VectorSize]; std::complex<RealType> transformed_local_exp[TransformedVectorSize]; };
using KernelClass = FUnifKernel<RealType, FInterpMatrixKernelR<RealType>, KORDER>;
#endif
using Tree = TbfTree<RealType, RealType, 4, RealType, 4, MultipoleClass, LocalClass>;

template <class T> struct Bits;
template <> struct Bits<double> { using U = uint64_t; };
template <> struct Bits<float> { using U = uint32_t; };
template <class T> static T fromHex(const std::string& s){ typename Bits<T>::U u = (typename Bits<T>::U)std::stoull(s, nullptr, 16); T v; std::memcpy(&v, &u, sizeof(T)); return v; }
template <class T> static std::string toHex(T v){ typename Bits<T>::U u; std::memcpy(&u, &v, sizeof(T)); char buf[32]; snprintf(buf, sizeof(buf), "%llx", (unsigned long long)u); return buf; }

static long kv(const std::vector<std::string>& ts, const std::string& key, long dflt){
    for(const auto& t : ts){ if(t.rfind(key + "=", 0) == 0) return std::stol(t.substr(key.size()+1)); }
    return dflt;
}

int main(){
    std::ios::sync_with_stdio(false);
    long H = 3;
    std::array<RealType, 3> center{{0.5, 0.5, 0.5}}, widths{{1, 1, 1}};
    std::vector<std::array<RealType, 4>> parts;
    std::string line;
    while(std::getline(std::cin, line)){
        std::istringstream iss(line);
        std::vector<std::string> ts;
        { std::string t; while(iss >> t) ts.push_back(t); }
        if(ts.empty()) continue;
        const std::string& op = ts[0];
        if(op == "case"){ std::cout << "=="; for(size_t k = 1 ; k < ts.size() ; ++k) std::cout << " " << ts[k]; std::cout << "\n"; }
        else if(op == "nbox"){
            H = kv(ts, "H", 3);
            std::vector<std::string> vals; for(size_t k = 1 ; k < ts.size() ; ++k) if(ts[k].find('=') == std::string::npos) vals.push_back(ts[k]);
            for(int d = 0 ; d < 3 ; ++d) center[d] = fromHex<RealType>(vals[d]);
            for(int d = 0 ; d < 3 ; ++d) widths[d] = fromHex<RealType>(vals[3]);
        }
        else if(op == "nparts"){
            const long n = std::stol(ts[1]);
            parts.resize(n);
            for(long i = 0 ; i < n ; ++i) for(int k = 0 ; k < 4 ; ++k) parts[i][k] = fromHex<RealType>(ts[2 + 4*i + k]);
        }
        else if(op == "nrun"){
            Config config(H, widths, center);
            Tree tree(config, TbfUtils::make_const(parts), kv(ts, "bs", 10), kv(ts, "mode", 0) != 0);
            const long upper = kv(ts, "upper", 2);
            if(kv(ts, "omp", 0)){
#ifdef USE_OMP
                MockConfig mc; mc.schedule = int(kv(ts, "sched", 2)); mc.seed = (unsigned long)kv(ts, "seed", 1); mc.nworkers = int(kv(ts, "workers", 4));
                mock_gomp_configure(mc);
#ifdef KERNEL_ROT
                std::unique_ptr<TbfOpenmpAlgorithm<RealType, KernelClass, SpaceIndex>> algo(new TbfOpenmpAlgorithm<RealType, KernelClass, SpaceIndex>(config, upper));
#else
                static FInterpMatrixKernelR<RealType> interpolator;
                std::unique_ptr<TbfOpenmpAlgorithm<RealType, KernelClass, SpaceIndex>> algo(new TbfOpenmpAlgorithm<RealType, KernelClass, SpaceIndex>(config, KernelClass(config, &interpolator), upper));
#endif
                algo->execute(tree);
#endif
            }
            else{
#ifdef KERNEL_ROT
                std::unique_ptr<TbfAlgorithm<RealType, KernelClass, SpaceIndex>> algo(new TbfAlgorithm<RealType, KernelClass, SpaceIndex>(config, upper));
#else
                static FInterpMatrixKernelR<RealType> interpolator;
                std::unique_ptr<TbfAlgorithm<RealType, KernelClass, SpaceIndex>> algo(new TbfAlgorithm<RealType, KernelClass, SpaceIndex>(config, KernelClass(config, &interpolator), upper));
#endif
                algo->execute(tree);
            }
            std::vector<std::array<RealType, 4>> out(parts.size());
            tree.applyToAllLeaves([&](auto&& leafHeader, const long int* idx, auto, auto rhs){
                for(long p = 0 ; p < leafHeader.nbParticles ; ++p) for(int k = 0 ; k < 4 ; ++k) out[idx[p]][k] = rhs[k][p];
            });
            for(size_t i = 0 ; i < out.size() ; ++i){
                std::cout << "NR " << i << " " << toHex(out[i][3]) << " " << toHex(out[i][0]) << " " << toHex(out[i][1]) << " " << toHex(out[i][2]) << "\n";
            }
        }
        else if(op == "end"){ std::cout << "end\n"; }
        else std::cout << "bad-op " << line << "\n";
    }
    return 0;
}
