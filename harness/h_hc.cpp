// prints what TbfBlockSizeFinder uses as its default thread count
#include <thread>
#include <cstdio>
int main(){ std::printf("%u\n", std::thread::hardware_concurrency()); return 0; }
