// Hilbert ordering (dimension 3): does the index algebra model the grid hierarchy?  (C11; known finding F-H)
// Prints, per tree height and level: number of indices, failures of the index<->position bijection,
// failures of "the parent of an index is the cell that geometrically contains it", failures of the
// interaction list characterisation.
#include <iostream>
#include <array>
#include <set>
#include <cstdlib>
#include "tbfglobal.hpp"
#include "utils/tbfutils.hpp"
#include "spacial/tbfspacialconfiguration.hpp"
#include "spacial/tbfhilbertspaceindex.hpp"

int main(){
    constexpr int Dim = 3;
    using RealType = double;
    using Config = TbfSpacialConfiguration<RealType, Dim>;
    using Hilbert = TbfHilbertSpaceIndex<Dim, Config>;
    const std::array<RealType, Dim> widths{{1, 1, 1}}, center{{0.5, 0.5, 0.5}};
    for(long H = 2 ; H <= 5 ; ++H){
        const Config config(H, widths, center);
        const Hilbert hil(config);
        for(long level = 1 ; level <= H-1 ; ++level){
            long n = 0, bij = 0, par = 0, first = -1;
            for(long idx = 0 ; idx < hil.getUpperBound(level) ; ++idx){
                ++n;
                const auto pos = hil.getBoxPosFromIndex(idx);
                if(hil.getIndexFromBoxPos(pos) != idx) ++bij;
                const auto ppos = hil.getBoxPosFromIndex(hil.getParentIndex(idx));
                bool ok = true;
                for(int d = 0 ; d < Dim ; ++d) if(ppos[d] != pos[d] / 2) ok = false;
                if(!ok){ ++par; if(first < 0) first = idx; }
            }
            std::cout << "HB " << H << " " << level << " " << n << " " << bij << " " << par << " " << first << "\n";
        }
    }
    return 0;
}
