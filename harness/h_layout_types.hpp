// GENERATED once with a fixed seed (tools/gen_layout_types.py): block layouts exercised by the C14 check
#ifndef H_LAYOUT_TYPES
#define H_LAYOUT_TYPES
template <int N> struct Elem { unsigned char b[N]; };
using Layout0 = TbfMemoryBlock<TbfMemoryScalar<Elem<24>>, TbfMemoryVector<Elem<32>>>;
using Layout1 = TbfMemoryBlock<TbfMemoryVector<Elem<144>>>;
using Layout2 = TbfMemoryBlock<TbfMemoryScalar<Elem<32>>, TbfMemoryVector<Elem<48>>, TbfMemoryVector<Elem<8>>, TbfMemoryMultiRVector<Elem<8>,3>>;
using Layout3 = TbfMemoryBlock<TbfMemoryMultiRVector<Elem<8>,1>>;
using Layout4 = TbfMemoryBlock<TbfMemoryMultiRVector<Elem<2>,64>>;
using Layout5 = TbfMemoryBlock<TbfMemoryVector<Elem<24>>>;
using Layout6 = TbfMemoryBlock<TbfMemoryMultiRVector<Elem<2>,7>, TbfMemoryMultiVVector<Elem<4>,4>, TbfMemoryMultiVVector<Elem<8>,1>>;
using Layout7 = TbfMemoryBlock<TbfMemoryVector<Elem<32>>, TbfMemoryMultiRVector<Elem<16>,3>, TbfMemoryVector<Elem<8>>>;
using Layout8 = TbfMemoryBlock<TbfMemoryVector<Elem<1>>, TbfMemoryScalar<Elem<4>>, TbfMemoryMultiRVector<Elem<1>,1>>;
using Layout9 = TbfMemoryBlock<TbfMemoryVector<Elem<63>>, TbfMemoryMultiVVector<Elem<16>,4>, TbfMemoryScalar<Elem<4>>>;
using Layout10 = TbfMemoryBlock<TbfMemoryVector<Elem<4>>, TbfMemoryMultiVVector<Elem<16>,7>, TbfMemoryVector<Elem<24>>>;
using Layout11 = TbfMemoryBlock<TbfMemoryVector<Elem<100>>, TbfMemoryMultiRVector<Elem<4096>,3>, TbfMemoryScalar<Elem<4>>, TbfMemoryScalar<Elem<24>>>;
using Layout12 = TbfMemoryBlock<TbfMemoryScalar<Elem<1>>, TbfMemoryVector<Elem<64>>, TbfMemoryScalar<Elem<128>>>;
using Layout13 = TbfMemoryBlock<TbfMemoryMultiVVector<Elem<8>,7>>;
using Layout14 = TbfMemoryBlock<TbfMemoryMultiVVector<Elem<8>,3>, TbfMemoryMultiVVector<Elem<8>,4>>;
using Layout15 = TbfMemoryBlock<TbfMemoryScalar<Elem<24>>, TbfMemoryMultiVVector<Elem<8>,2>, TbfMemoryMultiVVector<Elem<64>,5>, TbfMemoryMultiVVector<Elem<1>,5>>;
using Layout16 = TbfMemoryBlock<TbfMemoryMultiVVector<Elem<32>,3>, TbfMemoryMultiVVector<Elem<1>,7>>;
using Layout17 = TbfMemoryBlock<TbfMemoryMultiVVector<Elem<1>,3>, TbfMemoryMultiRVector<Elem<128>,3>, TbfMemoryMultiRVector<Elem<16>,5>, TbfMemoryVector<Elem<2>>>;
using Layout18 = TbfMemoryBlock<TbfMemoryMultiRVector<Elem<2>,4>, TbfMemoryScalar<Elem<2>>, TbfMemoryVector<Elem<31>>, TbfMemoryScalar<Elem<1>>>;
using Layout19 = TbfMemoryBlock<TbfMemoryMultiRVector<Elem<16>,1>, TbfMemoryScalar<Elem<7>>, TbfMemoryVector<Elem<1>>>;
using Layout20 = TbfMemoryBlock<TbfMemoryMultiRVector<Elem<4096>,3>, TbfMemoryVector<Elem<16>>>;
using Layout21 = TbfMemoryBlock<TbfMemoryMultiRVector<Elem<16>,7>, TbfMemoryMultiRVector<Elem<1>,5>>;
using Layout22 = TbfMemoryBlock<TbfMemoryVector<Elem<33>>, TbfMemoryMultiVVector<Elem<8>,2>>;
using Layout23 = TbfMemoryBlock<TbfMemoryMultiRVector<Elem<128>,5>, TbfMemoryScalar<Elem<16>>, TbfMemoryMultiVVector<Elem<8>,3>, TbfMemoryScalar<Elem<24>>>;
using Layout24 = TbfMemoryBlock<TbfMemoryVector<Elem<12>>>;
using Layout25 = TbfMemoryBlock<TbfMemoryVector<Elem<12>>>;
using Layout26 = TbfMemoryBlock<TbfMemoryMultiVVector<Elem<8>,2>, TbfMemoryMultiVVector<Elem<1>,1>, TbfMemoryMultiRVector<Elem<32>,5>>;
using Layout27 = TbfMemoryBlock<TbfMemoryMultiVVector<Elem<2>,4>, TbfMemoryVector<Elem<3>>, TbfMemoryVector<Elem<8>>, TbfMemoryVector<Elem<1>>>;
using Layout28 = TbfMemoryBlock<TbfMemoryMultiRVector<Elem<4096>,7>, TbfMemoryScalar<Elem<64>>>;
using Layout29 = TbfMemoryBlock<TbfMemoryMultiRVector<Elem<128>,3>, TbfMemoryScalar<Elem<33>>, TbfMemoryScalar<Elem<4096>>, TbfMemoryScalar<Elem<3>>>;
using Layout30 = TbfMemoryBlock<TbfMemoryScalar<Elem<2>>, TbfMemoryVector<Elem<3>>, TbfMemoryScalar<Elem<31>>, TbfMemoryScalar<Elem<7>>>;
using Layout31 = TbfMemoryBlock<TbfMemoryVector<Elem<1>>, TbfMemoryMultiVVector<Elem<8>,4>, TbfMemoryScalar<Elem<31>>, TbfMemoryScalar<Elem<24>>>;
using Layout32 = TbfMemoryBlock<TbfMemoryMultiRVector<Elem<4096>,1>, TbfMemoryVector<Elem<1>>>;
using Layout33 = TbfMemoryBlock<TbfMemoryScalar<Elem<4>>, TbfMemoryMultiVVector<Elem<8>,4>, TbfMemoryMultiRVector<Elem<32>,7>>;
using Layout34 = TbfMemoryBlock<TbfMemoryScalar<Elem<24>>, TbfMemoryVector<Elem<31>>, TbfMemoryMultiRVector<Elem<8>,5>>;
using Layout35 = TbfMemoryBlock<TbfMemoryScalar<Elem<3>>, TbfMemoryMultiVVector<Elem<4>,5>, TbfMemoryMultiVVector<Elem<64>,5>, TbfMemoryMultiVVector<Elem<4>,7>>;
using Layout36 = TbfMemoryBlock<TbfMemoryVector<Elem<1>>, TbfMemoryMultiVVector<Elem<64>,7>, TbfMemoryMultiVVector<Elem<2>,4>, TbfMemoryScalar<Elem<16>>>;
using Layout37 = TbfMemoryBlock<TbfMemoryVector<Elem<24>>, TbfMemoryScalar<Elem<16>>>;
using Layout38 = TbfMemoryBlock<TbfMemoryMultiVVector<Elem<64>,7>>;
using Layout39 = TbfMemoryBlock<TbfMemoryScalar<Elem<12>>>;
#define NB_LAYOUTS 40
static const char* layoutDescr[NB_LAYOUTS] = {
  "S:24:0 V:32:0",
  "V:144:0",
  "S:32:0 V:48:0 V:8:0 R:8:3",
  "R:8:1",
  "R:2:64",
  "V:24:0",
  "R:2:7 W:4:4 W:8:1",
  "V:32:0 R:16:3 V:8:0",
  "V:1:0 S:4:0 R:1:1",
  "V:63:0 W:16:4 S:4:0",
  "V:4:0 W:16:7 V:24:0",
  "V:100:0 R:4096:3 S:4:0 S:24:0",
  "S:1:0 V:64:0 S:128:0",
  "W:8:7",
  "W:8:3 W:8:4",
  "S:24:0 W:8:2 W:64:5 W:1:5",
  "W:32:3 W:1:7",
  "W:1:3 R:128:3 R:16:5 V:2:0",
  "R:2:4 S:2:0 V:31:0 S:1:0",
  "R:16:1 S:7:0 V:1:0",
  "R:4096:3 V:16:0",
  "R:16:7 R:1:5",
  "V:33:0 W:8:2",
  "R:128:5 S:16:0 W:8:3 S:24:0",
  "V:12:0",
  "V:12:0",
  "W:8:2 W:1:1 R:32:5",
  "W:2:4 V:3:0 V:8:0 V:1:0",
  "R:4096:7 S:64:0",
  "R:128:3 S:33:0 S:4096:0 S:3:0",
  "S:2:0 V:3:0 S:31:0 S:7:0",
  "V:1:0 W:8:4 S:31:0 S:24:0",
  "R:4096:1 V:1:0",
  "S:4:0 W:8:4 R:32:7",
  "S:24:0 V:31:0 R:8:5",
  "S:3:0 W:4:5 W:64:5 W:4:7",
  "V:1:0 W:64:7 W:2:4 S:16:0",
  "V:24:0 S:16:0",
  "W:64:7",
  "S:12:0",
};
#endif
