// Mock StarPU runtime for the correspondence harness (C03, C15): API-compatible with the subset used by
// src/algorithms/smstarpu/*.  Every task is deferred to starpu_task_wait_for_all (or to an acquire / unregister of
// one of its handles) and the recorded tasks are then run in a configurable order that is *legal* for StarPU's
// sequential data consistency: two tasks that access the same handle keep their submission order unless both only
// read it, or both access it in STARPU_RW|STARPU_COMMUTE mode (then any order, one at a time).
#include <starpu.h>
#include <cstdarg>
#include <cstdio>
#include <cstdlib>
#include <vector>
#include <map>
#include <set>
#include <random>
#include <algorithm>

struct mock_starpu_handle { uintptr_t ptr; size_t size; long id; };

namespace {
struct Task {
    starpu_codelet* cl;
    std::vector<unsigned char> arg;          // int nargs, then (size_t size, bytes)*
    std::vector<std::pair<mock_starpu_handle*, int>> access;
    int priority = 0;
    long id = 0;
};
std::vector<Task> pending;
int cfgSchedule = 0; unsigned long cfgSeed = 1; int cfgWorkers = 1;
int currentWorker = 0;
long nextId = 0, totalRun = 0, nextHandle = 0;

bool ordered(int ma, int mb){
    const bool ra = (ma & STARPU_W) == 0, rb = (mb & STARPU_W) == 0;
    if(ra && rb) return false;                                   // two readers
    if((ma & STARPU_COMMUTE) && (mb & STARPU_COMMUTE) && (ma & STARPU_RW) == STARPU_RW && (mb & STARPU_RW) == STARPU_RW) return false;   // commuting writers
    return true;
}

void runAll(){
    std::vector<Task> tasks; tasks.swap(pending);
    const size_t n = tasks.size();
    std::vector<std::vector<size_t>> succ(n);
    std::vector<int> indeg(n, 0);
    std::map<mock_starpu_handle*, std::vector<std::pair<size_t, int>>> byHandle;
    for(size_t i = 0 ; i < n ; ++i){
        std::set<size_t> preds;
        for(auto& a : tasks[i].access){
            for(auto& prev : byHandle[a.first]) if(ordered(prev.second, a.second)) preds.insert(prev.first);
        }
        for(auto& a : tasks[i].access) byHandle[a.first].push_back({i, a.second});
        for(size_t p : preds){ succ[p].push_back(i); indeg[i] += 1; }
    }
    std::mt19937_64 rng(cfgSeed * 7919u + 17u);
    std::set<size_t> ready;
    for(size_t i = 0 ; i < n ; ++i) if(indeg[i] == 0) ready.insert(i);
    size_t remaining = n;
    while(remaining){
        if(ready.empty()){ fprintf(stderr, "mock_starpu: no ready task\n"); abort(); }
        size_t pick = *ready.begin();
        switch(cfgSchedule){
        case MSP_FIFO: break;
        case MSP_LIFO: pick = *ready.rbegin(); break;
        case MSP_RANDOM: { auto it = ready.begin(); std::advance(it, (long)(rng() % ready.size())); pick = *it; break; }
        case MSP_PRIO_INV: for(size_t r : ready){ if(tasks[r].priority < tasks[pick].priority) pick = r; } break;
        case MSP_PRIO: for(size_t r : ready){ if(tasks[r].priority > tasks[pick].priority) pick = r; } break;
        }
        ready.erase(pick);
        currentWorker = cfgWorkers > 1 ? int(rng() % (unsigned long)cfgWorkers) : 0;
        Task& t = tasks[pick];
        std::vector<starpu_variable_interface> ifaces(t.access.size());
        std::vector<void*> buffers(t.access.size());
        for(size_t k = 0 ; k < t.access.size() ; ++k){
            ifaces[k].ptr = t.access[k].first->ptr; ifaces[k].elemsize = t.access[k].first->size;
            buffers[k] = &ifaces[k];
        }
        if((int)t.access.size() != t.cl->nbuffers){ fprintf(stderr, "mock_starpu: task '%s' submitted with %zu handles, codelet declares %d\n", t.cl->name ? t.cl->name : "?", t.access.size(), t.cl->nbuffers); abort(); }
        for(size_t k = 0 ; k < t.access.size() ; ++k){
            if((int)t.cl->modes[k] != t.access[k].second){ fprintf(stderr, "mock_starpu: task '%s' buffer %zu submitted with mode %d, codelet declares %d\n", t.cl->name ? t.cl->name : "?", k, t.access[k].second, (int)t.cl->modes[k]); abort(); }
        }
        t.cl->cpu_funcs[0](buffers.data(), t.arg.data());
        for(size_t s2 : succ[pick]){ if(--indeg[s2] == 0) ready.insert(s2); }
        remaining -= 1;
        totalRun += 1;
    }
    currentWorker = 0;
}
}

extern "C" {
void mock_starpu_configure(int schedule, unsigned long seed, int nworkers){ cfgSchedule = schedule; cfgSeed = seed; cfgWorkers = nworkers < 1 ? 1 : nworkers; }
long mock_starpu_total_run(void){ return totalRun; }

int starpu_init(starpu_conf*){ return 0; }
void starpu_shutdown(void){ runAll(); }
void starpu_pause(void){}
void starpu_resume(void){}
void starpu_variable_data_register(starpu_data_handle_t* h, int, uintptr_t ptr, size_t size){
    *h = new mock_starpu_handle{ptr, size, nextHandle++};
}
void starpu_data_unregister(starpu_data_handle_t h){ runAll(); delete h; }
int starpu_data_acquire(starpu_data_handle_t, starpu_data_access_mode){ runAll(); return 0; }
void starpu_data_release(starpu_data_handle_t){}

static int insertTask(starpu_codelet* cl, va_list ap){
    Task t; t.cl = cl; t.id = nextId++;
    int nargs = 0;
    t.arg.resize(sizeof(int));
    for(;;){
        const int tag = va_arg(ap, int);
        if(tag == 0) break;
        if(tag == STARPU_VALUE){
            void* p = va_arg(ap, void*);
            const size_t sz = va_arg(ap, size_t);
            const size_t at = t.arg.size();
            t.arg.resize(at + sizeof(size_t) + sz);
            memcpy(t.arg.data() + at, &sz, sizeof(size_t));
            memcpy(t.arg.data() + at + sizeof(size_t), p, sz);
            nargs += 1;
        }
        else if(tag == STARPU_PRIORITY){ t.priority = va_arg(ap, int); }
        else if(tag == STARPU_NAME){ (void)va_arg(ap, const char*); }
        else{
            starpu_data_handle_t h = va_arg(ap, starpu_data_handle_t);
            t.access.push_back({h, tag});
        }
    }
    memcpy(t.arg.data(), &nargs, sizeof(int));
    pending.push_back(std::move(t));
    return 0;
}
int starpu_insert_task(starpu_codelet* cl, ...){ va_list ap; va_start(ap, cl); const int r = insertTask(cl, ap); va_end(ap); return r; }
int starpu_task_insert(starpu_codelet* cl, ...){ va_list ap; va_start(ap, cl); const int r = insertTask(cl, ap); va_end(ap); return r; }

void starpu_codelet_unpack_args(void* cl_arg, ...){
    const unsigned char* p = (const unsigned char*)cl_arg;
    int nargs; memcpy(&nargs, p, sizeof(int)); p += sizeof(int);
    va_list ap; va_start(ap, cl_arg);
    for(int k = 0 ; k < nargs ; ++k){
        size_t sz; memcpy(&sz, p, sizeof(size_t)); p += sizeof(size_t);
        void* dst = va_arg(ap, void*);
        memcpy(dst, p, sz); p += sz;
    }
    va_end(ap);
}
int starpu_task_wait_for_all(void){ runAll(); return 0; }
int starpu_worker_get_id(void){ return currentWorker; }
unsigned starpu_worker_get_count(void){ return (unsigned)cfgWorkers; }
unsigned starpu_cpu_worker_get_count(void){ return (unsigned)cfgWorkers; }
int starpu_worker_get_count_by_type(starpu_worker_archtype t){ return t == STARPU_CPU_WORKER ? cfgWorkers : 0; }
void starpu_execute_on_each_worker(void (*func)(void*), void* arg, uint32_t){
    for(int w = 0 ; w < cfgWorkers ; ++w){ currentWorker = w; func(arg); }
    currentWorker = 0;
}
}
