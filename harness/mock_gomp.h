#ifndef VERIF_MOCK_GOMP_H
#define VERIF_MOCK_GOMP_H
extern "C" {
enum MockSchedule { MOCK_FIFO = 0, MOCK_LIFO = 1, MOCK_RANDOM = 2, MOCK_PRIO_INV = 3, MOCK_PRIO = 4 };
struct MockConfig { int schedule; unsigned long seed; int nworkers; };
struct MockTaskRecord { long id; int thread; int priority; int nouts; int nmutex; int nins; void* outs[4]; void* ins[4]; };
void mock_gomp_configure(MockConfig c);
long mock_gomp_total_run();
const MockTaskRecord* mock_gomp_history(long* n);
void mock_gomp_clear_history();
}
#endif
