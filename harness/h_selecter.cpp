// C19: the algorithm selector header with several task runtimes enabled at once
// (-DTBF_USE_OPENMP -DTBF_USE_STARPU; <starpu.h> is the API-compatible mock under harness/mock_starpu;
// Specx is a C++ template runtime that is not present in the sandbox).  The selector must compile and pick
// the documented executor; the selected executors are then run once on a small tree.
#include <iostream>
#include <array>
#include <vector>
#include <type_traits>
#include "tbfglobal.hpp"
#include "spacial/tbfmortonspaceindex.hpp"
#include "spacial/tbfspacialconfiguration.hpp"
#include "core/tbfcellscontainer.hpp"
#include "core/tbfparticlescontainer.hpp"
#include "core/tbfparticlesorter.hpp"
#include "core/tbftree.hpp"
#include "core/tbftreetsm.hpp"
#include "kernels/testkernel/tbftestkernel.hpp"
#include "algorithms/tbfalgorithmselecter.hpp"

int main(){
    using RealType = double; constexpr long Dim = 3;
    using Kernel = TbfTestKernel<RealType>;
    using Algo = TbfAlgorithmSelecter::type<RealType, Kernel>;
    using AlgoTsm = TbfAlgorithmSelecterTsm::type<RealType, Kernel>;
#if defined(TBF_USE_STARPU)
    static_assert(std::is_same<Algo, TbfSmStarpuAlgorithm<RealType, Kernel, TbfDefaultSpaceIndexType<RealType>>>::value, "selector: StarPU has priority");
    static_assert(std::is_same<AlgoTsm, TbfSmStarpuAlgorithmTsm<RealType, Kernel, TbfDefaultSpaceIndexType<RealType>>>::value, "selector (tsm): StarPU has priority");
    mock_starpu_configure(2, 12345, 4);
#elif defined(TBF_USE_OPENMP)
    static_assert(std::is_same<Algo, TbfOpenmpAlgorithm<RealType, Kernel, TbfDefaultSpaceIndexType<RealType>>>::value, "selector: OpenMP");
#else
    static_assert(std::is_same<Algo, TbfAlgorithm<RealType, Kernel, TbfDefaultSpaceIndexType<RealType>>>::value, "selector: sequential");
#endif
    const TbfSpacialConfiguration<RealType, Dim> configuration(4, std::array<RealType, Dim>{{1, 1, 1}}, std::array<RealType, Dim>{{0.5, 0.5, 0.5}});
    std::vector<std::array<RealType, Dim>> pos;
    for(int i = 0 ; i < 200 ; ++i) pos.push_back({{RealType((i * 37) % 101) / 101, RealType((i * 53) % 103) / 103, RealType((i * 71) % 107) / 107}});
    using Tree = TbfTree<RealType, RealType, Dim, long int, 1, std::array<long int, 1>, std::array<long int, 1>>;
    Tree tree(configuration, TbfUtils::make_const(pos), 5, false);
    { Algo algo(configuration); algo.execute(tree); }
    long bad = 0;
    tree.applyToAllLeaves([&](auto&& leafHeader, const long int*, auto, auto rhs){
        for(long p = 0 ; p < leafHeader.nbParticles ; ++p) if(rhs[0][p] != long(pos.size()) - 1) ++bad;
    });
    using TreeTsm = TbfTreeTsm<RealType, RealType, Dim, long int, 1, std::array<long int, 1>, std::array<long int, 1>>;
    TreeTsm tsm(configuration, TbfUtils::make_const(pos), TbfUtils::make_const(pos), 5, false);
    { AlgoTsm algo(configuration); algo.execute(tsm); }
    tsm.applyToAllLeavesTarget([&](auto&& leafHeader, const long int*, auto, auto rhs){
        for(long p = 0 ; p < leafHeader.nbParticles ; ++p) if(rhs[0][p] != long(pos.size())) ++bad;
    });
    std::cout << "SEL " << Algo::GetName() << " " << AlgoTsm::GetName() << " bad=" << bad << "\n";
    return bad == 0 ? 0 : 1;
}
