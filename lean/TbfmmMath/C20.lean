import Tbfmm.Properties.C20
