import Tbfmm.Properties.C20
import Tbfmm.Properties.C20b
