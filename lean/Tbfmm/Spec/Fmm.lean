import Tbfmm.Model.Kernel
/-!
# Cell-level specification of the FMM pass (no groups, no cursors, no block size)

Everything here is a function of the *shape* only: the dimension, the height, the occupied leaves
with their particles, periodic or not, and the upper working level.
-/
namespace Tbfmm

/-- a leaf index together with the particles stored in it -/
abbrev Shape := List (Nat × List Nat)

/-- adjacent or equal in one dimension -/
def adj1 (x y : Int) : Bool := x ≤ y + 1 && y ≤ x + 1
/-- adjacent or equal in every dimension (vectors of equal length) -/
def adjV : List Int → List Int → Bool
  | [], [] => true
  | x :: xs, y :: ys => adj1 x y && adjV xs ys
  | _, _ => false

/-- remove consecutive duplicates -/
def dedupAdj : List Nat → List Nat
  | [] => []
  | [a] => [a]
  | a :: b :: l => if a = b then dedupAdj (b :: l) else a :: dedupAdj (b :: l)
/-- sorted, duplicate-free list of the elements of `xs` -/
def sortDedup (xs : List Nat) : List Nat := dedupAdj (xs.mergeSort (· ≤ ·))

/-- cells of level `l` = ancestors of the occupied leaves (leaf level `L`) -/
def specCells (D L : Nat) (leaves : List Nat) (l : Nat) : List Nat :=
  sortDedup (leaves.map fun i => i / 2^(D * (L - l)))

/-- image shifts (in units of the box) considered: all of `{-1,0,1}^D` when periodic, only 0 otherwise -/
def imageShifts (D : Nat) (periodic : Bool) : List (List Int) :=
  if periodic then odometer (List.replicate D (-1, 1)) else [List.replicate D 0]

/-- elementary interactions, as printed by the drivers -/
inductive Elem
  | p2m (leaf : Nat) (n : Nat)
  | m2m (level parent child code : Nat)
  | m2l (level tgt src code : Nat)
  | l2l (level parent child code : Nat)
  | l2p (leaf : Nat) (n : Nat)
  | p2p (src tgt code : Nat)
  | p2pTsm (src tgt code : Nat)
  | p2pInner (leaf : Nat)
deriving Repr, BEq, DecidableEq, Inhabited

/-- transfer pairs of level `l`: `s` (possibly an image) is a child of a neighbour of `t`'s parent and
    not adjacent to `t`; the code is the base-7 code of the offset `s' - t` -/
def specM2LLevel (D : Nat) (periodic : Bool) (l : Nat) (tgts srcs : List Nat) : List Elem :=
  if (!periodic && l < 2) || (periodic && l < 1) then [] else
  let half := fun (v : List Int) => v.map (· / 2)     -- `/` on `Int` is floor division for a positive divisor
  let shifts := (imageShifts D periodic).map fun k => k.map (· * 2^l)
  let sps := srcs.map fun s => (s, toI (decode D l s))
  tgts.flatMap fun t =>
    let tp := toI (decode D l t)
    sps.flatMap fun (s, sp) =>
      shifts.filterMap fun k =>
        let sp' := vadd sp k
        if adjV (half tp) (half sp') && !adjV tp sp' then some (Elem.m2l l t s (code7 (vsub sp' tp))) else none

/-- direct pairs at the leaf level: `s` (possibly an image) adjacent to `t`, offset in the upper half -/
def specP2P (D : Nat) (periodic : Bool) (L : Nat) (leaves : List Nat) : List Elem :=
  let shifts := (imageShifts D periodic).map fun k => k.map (· * 2^L)
  let sps := leaves.map fun s => (s, toI (decode D L s))
  leaves.flatMap fun t =>
    let tp := toI (decode D L t)
    sps.flatMap fun (s, sp) =>
      shifts.filterMap fun k =>
        let off := vsub (vadd sp k) tp
        if off.all (fun o => o.natAbs ≤ 1) && !off.all (· == 0) && (3^D)/2 < code3 off
        then some (Elem.p2p s t (code3 off)) else none

def specLinks (D L : Nat) (leaves : List Nat) (H upper : Nat) : List (Nat × Nat × Nat × Nat) :=
  (midLevels H upper).flatMap fun l =>
    (specCells D L leaves (l+1)).map fun c => (l, parent D c, c, childCode D c)

/-- the multiset (as a list) of elementary interactions of a run with the given flags -/
def specElems (D H : Nat) (periodic : Bool) (shape : Shape) (flags upper : Nat) : List Elem :=
  let L := H - 1
  let leaves := sortDedup (shape.map (·.1))
  let nOf := fun i => ((shape.filter (·.1 == i)).map (·.2.length)).sum
  (if hasFlag flags flagP2M && H > upper then leaves.map fun i => Elem.p2m i (nOf i) else []) ++
  (if hasFlag flags flagM2M then (specLinks D L leaves H upper).map fun (l, p, c, k) => Elem.m2m l p c k else []) ++
  (if hasFlag flags flagM2L then (m2lLevels H upper).flatMap fun l =>
      let cs := specCells D L leaves l
      specM2LLevel D periodic l cs cs else []) ++
  (if hasFlag flags flagL2L then (specLinks D L leaves H upper).map fun (l, p, c, k) => Elem.l2l l p c k else []) ++
  (if hasFlag flags flagL2P && H > upper then leaves.map fun i => Elem.l2p i (nOf i) else []) ++
  (if hasFlag flags flagP2P then specP2P D periodic L leaves ++ leaves.map Elem.p2pInner else [])

/-- direct pairs in target/source mode: every source leaf (image) adjacent to or equal to the target leaf -/
def specP2PTsm (D : Nat) (periodic : Bool) (L : Nat) (tgtLeaves srcLeaves : List Nat) : List Elem :=
  let shifts := (imageShifts D periodic).map fun k => k.map (· * 2^L)
  let sps := srcLeaves.map fun s => (s, toI (decode D L s))
  tgtLeaves.flatMap fun t =>
    let tp := toI (decode D L t)
    sps.flatMap fun (s, sp) =>
      shifts.filterMap fun k =>
        let off := vsub (vadd sp k) tp
        if off.all (fun o => o.natAbs ≤ 1) then some (Elem.p2pTsm s t (code3 off)) else none

/-- elementary interactions of a target/source run -/
def specElemsTsm (D H : Nat) (periodic : Bool) (shapeS shapeT : Shape) (flags upper : Nat) : List Elem :=
  let L := H - 1
  let lS := sortDedup (shapeS.map (·.1))
  let lT := sortDedup (shapeT.map (·.1))
  let nOf := fun (sh : Shape) i => ((sh.filter (·.1 == i)).map (·.2.length)).sum
  (if hasFlag flags flagP2M && H > upper then lS.map fun i => Elem.p2m i (nOf shapeS i) else []) ++
  (if hasFlag flags flagM2M then (specLinks D L lS H upper).map fun (l, p, c, k) => Elem.m2m l p c k else []) ++
  (if hasFlag flags flagM2L then (m2lLevels H upper).flatMap fun l =>
      specM2LLevel D periodic l (specCells D L lT l) (specCells D L lS l) else []) ++
  (if hasFlag flags flagL2L then (specLinks D L lT H upper).map fun (l, p, c, k) => Elem.l2l l p c k else []) ++
  (if hasFlag flags flagL2P && H > upper then lT.map fun i => Elem.l2p i (nOf shapeT i) else []) ++
  (if hasFlag flags flagP2P then specP2PTsm D periodic L lT lS else [])

/-- flatten a kernel call into elementary interactions -/
def elemsOfCall : Call → List Elem
  | .p2m leaf parts => [Elem.p2m leaf parts.length]
  | .m2m level p ch => ch.map fun c => Elem.m2m level p c.1 c.2
  | .m2l level t ss => ss.map fun c => Elem.m2l level t c.1 c.2
  | .l2l level p ch => ch.map fun c => Elem.l2l level p c.1 c.2
  | .l2p leaf parts => [Elem.l2p leaf parts.length]
  | .p2p s t c => [Elem.p2p s t c]
  | .p2pTsm s t c => [Elem.p2pTsm s t c]
  | .p2pInner l => [Elem.p2pInner l]

end Tbfmm
