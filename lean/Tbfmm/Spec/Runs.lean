import Tbfmm.Model.Walk
/-!
# Runs of equal parent of a children list (the specification side of the upward/downward pass)
-/
namespace Tbfmm

variable (par : Nat → Nat)

/-- left-to-right run grouping with a current (non-empty) run -/
def runsAux : Run → List Nat → List Run
  | cur, [] => [cur]
  | (p, r), c :: cs => if par c = p then runsAux (p, r ++ [c]) cs else (p, r) :: runsAux (par c, [c]) cs

/-- the maximal runs of equal parent of a children list -/
def runsOf : List Nat → List Run
  | [] => []
  | c :: cs => runsAux par (par c, [c]) cs

def keys (rs : List Run) : List Nat := rs.map (·.1)
def members (rs : List Run) : List Nat := rs.flatMap (·.2)
/-- the (parent, child) links carried by a list of kernel calls -/
def linksOf (rs : List Run) : List (Nat × Nat) := rs.flatMap fun r => r.2.map fun c => (r.1, c)
def link (c : Nat) : Nat × Nat := (par c, c)

end Tbfmm
