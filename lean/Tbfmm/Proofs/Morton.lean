import Tbfmm.Model.Morton
/-!: Morton algebra for any dimension D (candidates for Model/Morton.lean + proofs) -/
namespace Tbfmm

@[simp] theorem bitsOf_length (D c : Nat) : (bitsOf D c).length = D := by
  induction D with
  | zero => rfl
  | succ D ih => simp [bitsOf, ih]

theorem bitsOf_lt2 (D c : Nat) : ∀ b ∈ bitsOf D c, b < 2 := by
  induction D with
  | zero => intro b hb; simp [bitsOf] at hb
  | succ D ih =>
    intro b hb
    simp only [bitsOf, List.mem_cons] at hb
    rcases hb with hb | hb
    · subst hb; exact Nat.mod_lt _ (by omega)
    · exact ih b hb

theorem packBits_lt (bs : List Nat) (h : ∀ b ∈ bs, b < 2) : packBits bs < 2 ^ bs.length := by
  induction bs with
  | nil => simp [packBits]
  | cons b bs ih =>
    have hb : b < 2 := h b (by simp)
    have := ih (fun x hx => h x (by simp [hx]))
    simp only [packBits, List.length_cons, Nat.pow_succ]
    have : b * 2 ^ bs.length ≤ 1 * 2 ^ bs.length := Nat.mul_le_mul_right _ (by omega)
    omega

theorem packBits_bitsOf (D c : Nat) : packBits (bitsOf D c) = c % 2^D := by
  induction D with
  | zero => simp [bitsOf, packBits, Nat.mod_one]
  | succ D ih =>
    simp only [bitsOf, packBits, bitsOf_length, ih]
    rw [Nat.pow_succ, Nat.mod_mul, Nat.add_comm, Nat.mul_comm]

theorem bitsOf_mod (D c : Nat) : bitsOf D (c % 2^D) = bitsOf D c := by
  suffices h : ∀ E, E ≤ D → bitsOf E (c % 2^D) = bitsOf E c from h D (Nat.le_refl _)
  intro E
  induction E with
  | zero => intro _; rfl
  | succ E ih =>
    intro hE
    simp only [bitsOf]
    rw [ih (by omega)]
    congr 1
    -- (c % 2^D / 2^E) % 2 = (c / 2^E) % 2  since E < D
    have : 2^D = 2^E * 2^(D-E) := by rw [← Nat.pow_add]; congr 1; omega
    rw [this, Nat.mod_mul_right_div_self]
    have h2 : 2^(D-E) = 2 * 2^(D-E-1) := by rw [← Nat.pow_succ']; congr 1; omega
    rw [h2, Nat.mod_mul_right_mod]

theorem bitsOf_packBits (bs : List Nat) (h : ∀ b ∈ bs, b < 2) : bitsOf bs.length (packBits bs) = bs := by
  induction bs with
  | nil => rfl
  | cons b bs ih =>
    have hb : b < 2 := h b (by simp)
    have hrest := fun x hx => h x (List.mem_cons_of_mem b hx)
    have hlt := packBits_lt bs hrest
    simp only [List.length_cons, bitsOf, packBits]
    congr 1
    · rw [Nat.add_comm, Nat.add_mul_div_right _ _ (Nat.two_pow_pos _), Nat.div_eq_of_lt hlt]
      simp; omega
    · have : bitsOf bs.length (b * 2 ^ bs.length + packBits bs) = bitsOf bs.length (packBits bs) := by
        rw [← bitsOf_mod bs.length (b * 2 ^ bs.length + packBits bs), Nat.add_comm, Nat.add_mul_mod_self_right, bitsOf_mod]
      rw [this]; exact ih hrest

@[simp] theorem decode_length (D b i : Nat) : (decode D b i).length = D := by
  induction b generalizing i with
  | zero => simp [decode]
  | succ b ih => simp [decode, ih]

theorem zipWith_half (cs bs : List Nat) (hl : cs.length = bs.length) (hb : ∀ b ∈ bs, b < 2) :
    (List.zipWith (fun c bit => 2 * c + bit) cs bs).map (· / 2) = cs := by
  induction cs generalizing bs with
  | nil => simp
  | cons c cs ih =>
    cases bs with
    | nil => simp at hl
    | cons b bs =>
      have hb0 : b < 2 := hb b (by simp)
      simp only [List.zipWith_cons_cons, List.map_cons]
      rw [ih bs (by simpa using hl) (fun x hx => hb x (by simp [hx]))]
      congr 1; omega

theorem zipWith_mod2 (cs bs : List Nat) (hl : cs.length = bs.length) (hb : ∀ b ∈ bs, b < 2) :
    (List.zipWith (fun c bit => 2 * c + bit) cs bs).map (· % 2) = bs := by
  induction cs generalizing bs with
  | nil => cases bs with
    | nil => rfl
    | cons _ _ => simp at hl
  | cons c cs ih =>
    cases bs with
    | nil => simp at hl
    | cons b bs =>
      have hb0 : b < 2 := hb b (by simp)
      simp only [List.zipWith_cons_cons, List.map_cons]
      rw [ih bs (by simpa using hl) (fun x hx => hb x (by simp [hx]))]
      congr 1; omega

/-- parent = coordinate-wise halving -/
theorem decode_parent (D b i : Nat) : (decode D (b+1) i).map (· / 2) = decode D b (i / 2^D) := by
  simp only [decode]
  exact zipWith_half _ _ (by simp) (bitsOf_lt2 D i)

/-- child code = the low bits of the coordinates -/
theorem decode_childCode (D b i : Nat) : (decode D (b+1) i).map (· % 2) = bitsOf D (i % 2^D) := by
  simp only [decode]
  rw [zipWith_mod2 _ _ (by simp) (bitsOf_lt2 D i), bitsOf_mod]

theorem encode_decode (D b i : Nat) (h : i < 2 ^ (D * b)) : encode D b (decode D b i) = i := by
  induction b generalizing i with
  | zero => simp at h; simp [encode, h]
  | succ b ih =>
    have hq : i / 2^D < 2 ^ (D * b) := by
      rw [Nat.div_lt_iff_lt_mul (Nat.two_pow_pos D)]
      calc i < 2 ^ (D * (b+1)) := h
        _ = 2 ^ (D * b) * 2 ^ D := by rw [Nat.mul_succ, Nat.pow_add]
    simp only [encode]
    rw [decode_parent, decode_childCode, ih _ hq, packBits_bitsOf, Nat.mod_mod]
    exact Nat.div_add_mod' i (2^D)

theorem decode_lt (D b i : Nat) : ∀ c ∈ decode D b i, c < 2^b := by
  induction b generalizing i with
  | zero => intro c hc; simp [decode] at hc; omega
  | succ b ih =>
    intro c hc
    simp only [decode] at hc
    obtain ⟨k, hk, hkc⟩ := List.getElem_of_mem hc
    simp only [List.getElem_zipWith] at hkc
    simp only [List.length_zipWith, decode_length, bitsOf_length, Nat.min_self] at hk
    have h1 := ih (i / 2^D) _ (List.getElem_mem (l := decode D b (i / 2^D)) (by simpa using hk))
    have h2 := bitsOf_lt2 D i _ (List.getElem_mem (l := bitsOf D i) (by simpa using hk))
    rw [← hkc, Nat.pow_succ]; omega

theorem decode_encode (D b : Nat) (cs : List Nat) (hl : cs.length = D) (hc : ∀ c ∈ cs, c < 2^b) :
    decode D b (encode D b cs) = cs := by
  induction b generalizing cs with
  | zero =>
    simp only [decode, encode]
    apply List.ext_getElem (by simp [hl])
    intro k h1 h2
    have := hc cs[k] (List.getElem_mem h2)
    simp at this ⊢; omega
  | succ b ih =>
    have hhalf : ∀ c ∈ cs.map (· / 2), c < 2^b := by
      intro c hc'
      simp only [List.mem_map] at hc'
      obtain ⟨c0, h0, rfl⟩ := hc'
      have := hc c0 h0
      rw [Nat.pow_succ] at this; omega
    have hbits : ∀ x ∈ cs.map (· % 2), x < 2 := by
      intro x hx; simp only [List.mem_map] at hx; obtain ⟨c0, _, rfl⟩ := hx; omega
    have hplt : packBits (cs.map (· % 2)) < 2^D := by
      have := packBits_lt _ hbits; simpa [hl] using this
    simp only [decode, encode]
    have hdiv : (encode D b (cs.map (· / 2)) * 2^D + packBits (cs.map (· % 2))) / 2^D = encode D b (cs.map (· / 2)) := by
      rw [Nat.add_comm, Nat.add_mul_div_right _ _ (Nat.two_pow_pos _), Nat.div_eq_of_lt hplt]; simp
    have hmod : bitsOf D (encode D b (cs.map (· / 2)) * 2^D + packBits (cs.map (· % 2))) = cs.map (· % 2) := by
      rw [← bitsOf_mod, Nat.add_comm, Nat.add_mul_mod_self_right, bitsOf_mod]
      have := bitsOf_packBits (cs.map (· % 2)) hbits
      simpa [hl] using this
    rw [hdiv, hmod, ih _ (by simp [hl]) hhalf]
    apply List.ext_getElem (by simp [hl])
    intro k h1 h2
    simp only [List.getElem_zipWith, List.getElem_map]
    omega

end Tbfmm
