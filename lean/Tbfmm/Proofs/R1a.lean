import Tbfmm.Spec.Runs
/-! R1, part a: runs of a children list and the sibling-batching loop -/
namespace Tbfmm

variable (par : Nat → Nat)

theorem runsAux_ne_nil (cur : Run) (cs : List Nat) : runsAux par cur cs ≠ [] := by
  induction cs generalizing cur with
  | nil => simp [runsAux]
  | cons c cs ih =>
    obtain ⟨p, r⟩ := cur
    simp only [runsAux]; split
    · exact ih _
    · simp

theorem runsAux_head_key (cur : Run) (cs : List Nat) :
    ((runsAux par cur cs).head (runsAux_ne_nil par cur cs)).1 = cur.1 := by
  induction cs generalizing cur with
  | nil => simp [runsAux]
  | cons c cs ih =>
    obtain ⟨p, r⟩ := cur
    simp only [runsAux]; split
    · simpa using ih (p, r ++ [c])
    · simp

/-- keys of the runs agree with `ps` on their common prefix -/
def PrefixAgree (ps ks : List Nat) : Prop := ∀ i, (h1 : i < ps.length) → (h2 : i < ks.length) → ps[i] = ks[i]

theorem prefixAgree_tail {p k : Nat} {ps ks : List Nat} (h : PrefixAgree (p :: ps) (k :: ks)) :
    p = k ∧ PrefixAgree ps ks := by
  constructor
  · exact h 0 (by simp) (by simp)
  · intro i h1 h2
    have := h (i+1) (by simp; omega) (by simp; omega)
    simpa using this

/-- G1: the loop returns the first `|ps|` runs -/
theorem sib2_eq_take (p : Nat) (ps acc cs : List Nat)
    (hag : PrefixAgree (p :: ps) (keys (runsAux par (p, acc) cs))) :
    sib2 par (p :: ps) acc cs = (runsAux par (p, acc) cs).take (ps.length + 1) := by
  induction cs generalizing p ps acc with
  | nil => simp [sib2, runsAux]
  | cons c2 cs ih =>
    simp only [sib2, runsAux]
    by_cases hc : par c2 = p
    · simp only [hc, ne_eq, not_true_eq_false, if_false, if_true]
      apply ih
      simpa [runsAux, hc] using hag
    · simp only [hc, ne_eq, not_false_eq_true, if_true, if_false, List.take_succ_cons]
      congr 1
      cases ps with
      | nil => simp
      | cons p2 ps2 =>
        simp only
        have hag' : PrefixAgree (p :: p2 :: ps2) (p :: keys (runsAux par (par c2, [c2]) cs)) := by
          simpa [runsAux, hc, keys] using hag
        have h2 := (prefixAgree_tail hag').2
        -- head key of the remaining runs is `par c2`
        have hne := runsAux_ne_nil par (par c2, [c2]) cs
        have hk := runsAux_head_key par (par c2, [c2]) cs
        have hp2 : p2 = par c2 := by
          obtain ⟨r0, rest, hr⟩ := List.exists_cons_of_ne_nil hne
          have : r0.1 = par c2 := by simpa [hr] using hk
          have h0 := h2 0 (by simp) (by simp [keys, hr])
          simpa [keys, hr, this] using h0
        subst hp2
        exact ih (par c2) ps2 [c2] h2

end Tbfmm
