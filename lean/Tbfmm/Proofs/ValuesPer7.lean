import Tbfmm.Proofs.ValuesPer6
/-!
**C01 / C10, periodic, at the level of values**: after one complete execution of the sequential executor
with periodic lists (upper level ≤ 1) on a built tree, with the exactly additive kernel, every particle
has received every particle's `3^D` images in `[-1,1]^D` exactly once, except its own zero-shift image:
`3^D - [p = q]` contributions of `q`.
-/
namespace Tbfmm

section
variable {D H : Nat} {T : Tree} {ls : List Leaf} (F : BuiltFacts D H T ls)
include F
theorem p2p_refines_per (hH : 1 ≤ H) :
    ((p2pAll D true H T.leafGroups).flatMap elemsOfCall).Perm
      (specP2P D true (H-1) (ls.map (·.idx)) ++ (ls.map (·.idx)).map Elem.p2pInner) := by
  rw [F.last]
  refine (p2pAll_elems D true H (T.level (H-1)) (F.inv (H-1) (by omega))).trans ?_
  refine (flatMap_append_perm _ _ _).trans ?_
  have c0 : specCells D (H-1) (ls.map (·.idx)) (H-1) = ls.map (·.idx) := by
    unfold specCells
    simp only [Nat.sub_self, Nat.mul_zero, Nat.pow_zero, Nat.div_one, List.map_id']
    exact sortDedup_of_sorted _ F.sorted
  apply List.Perm.append
  · have hp : (presentFrom (T.level (H-1)) 0) = fun x => (T.level (H-1)).flatten.contains x.src := by
      funext x; exact presentFrom_zero _ x
    rw [hp]
    have := perGroup_eq_perCell (fun c k => nlistCell D true (H-1) c k true) (fun s => (T.level (H-1)).flatten.contains s) elemP2P
      (fun c k => nlistCell_tpos D true (H-1) c k true) (fun _ _ => rfl) (T.level (H-1))
    simp only [List.map_flatMap] at this ⊢
    rw [this, ← List.map_flatMap, F.cells (H-1) (by omega), c0]
    exact p2p_level_char D true (H-1) _ F.bound (F.sorted.imp (fun h => Nat.ne_of_lt h))
  · apply List.Perm.of_eq
    rw [← c0, ← F.cells (H-1) (by omega)]
    generalize T.level (H-1) = gs
    induction gs with
    | nil => rfl
    | cons g gs ih => simp only [List.flatMap_cons, List.flatten_cons, List.map_append, ih]
end

theorem C01_values_periodic (D H bs : Nat) (mode : Bool) (leafIdx : List Nat) (upper : Nat)
    (hbs : 0 < bs) (hne : leafIdx ≠ []) (hH : 1 ≤ H) (hlt : ∀ i ∈ leafIdx, i < 2^(D*(H-1))) (hu : upper ≤ 1)
    (p q : Nat) (hp : p < leafIdx.length) (hq : q < leafIdx.length) :
    (applyCalls (wq q) (H-1) (Tree.build D H bs mode leafIdx).partsOf (Tree.build D H bs mode leafIdx).partsOf {}
      (executeSeq (Tree.build D H bs mode leafIdx) true 63 upper)).r p = 3^D - (if p = q then 1 else 0) := by
  have F := built_facts D H bs mode leafIdx hbs hne hH hlt
  have hperm := C13_indices_perm D H bs mode leafIdx hbs
  generalize Tree.build D H bs mode leafIdx = T at *
  generalize hls : T.pgroups.flatten = ls at *
  -- particles
  have hidx : (ls.map (·.idx)).Nodup := F.sorted.imp (fun h => Nat.ne_of_lt h)
  have hpartsP : (ls.flatMap (·.parts)).Perm (List.range leafIdx.length) := by
    rw [← hls, ← stored_parts]; exact hperm
  have hpartsN : (ls.flatMap (·.parts)).Nodup := hpartsP.symm.nodup List.nodup_range
  obtain ⟨lfa, hlfa, hca⟩ := particle_unique ls hidx hpartsN p (hpartsP.symm.subset (List.mem_range.2 hp))
  obtain ⟨lfb, hlfb, hcb⟩ := particle_unique ls hidx hpartsN q (hpartsP.symm.subset (List.mem_range.2 hq))
  have hpo : ∀ lf ∈ ls, T.partsOf lf.idx = lf.parts := by
    intro lf hl
    exact partsOf_spec T (by rw [hls]; exact hidx) lf (by rw [hls]; exact hl)
  have hpa : ∀ i ∈ ls.map (·.idx), (T.partsOf i).count p = if i = lfa.idx then 1 else 0 := by
    intro i hi
    obtain ⟨lf, hl, rfl⟩ := List.mem_map.1 hi
    rw [hpo lf hl]; exact hca lf hl
  have hqb : ∀ i ∈ ls.map (·.idx), (T.partsOf i).count q = if i = lfb.idx then 1 else 0 := by
    intro i hi
    obtain ⟨lf, hl, rfl⟩ := List.mem_map.1 hi
    rw [hpo lf hl]; exact hcb lf hl
  have ha : lfa.idx ∈ ls.map (·.idx) := List.mem_map.2 ⟨lfa, hlfa, rfl⟩
  have hb : lfb.idx ∈ ls.map (·.idx) := List.mem_map.2 ⟨lfb, hlfb, rfl⟩
  -- cells
  have hnd : ∀ ℓ, (specCells D (H-1) (ls.map (·.idx)) ℓ).Nodup := fun ℓ => (sortDedup_sorted _).imp (fun h => Nat.ne_of_lt h)
  have hanc : ∀ x ∈ ls.map (·.idx), ∀ ℓ, ℓ ≤ H - 1 → anc D (H-1) ℓ x ∈ specCells D (H-1) (ls.map (·.idx)) ℓ := by
    intro x hx ℓ hℓ
    have := anc_mem_specCells D (H-1) _ x hx (H - 1 - ℓ) (by omega)
    have e : H - 1 - (H - 1 - ℓ) = ℓ := by omega
    rw [e] at this
    exact this
  have c0 : specCells D (H-1) (ls.map (·.idx)) (H-1) = ls.map (·.idx) := by
    unfold specCells
    simp only [Nat.sub_self, Nat.mul_zero, Nat.pow_zero, Nat.div_one, List.map_id']
    exact sortDedup_of_sorted _ F.sorted
  -- unfold the executor
  have f63 : hasFlag 63 flagP2M = true ∧ hasFlag 63 flagM2M = true ∧ hasFlag 63 flagM2L = true ∧
      hasFlag 63 flagL2L = true ∧ hasFlag 63 flagL2P = true ∧ hasFlag 63 flagP2P = true := by decide
  unfold executeSeq
  simp only [f63.1, f63.2.1, f63.2.2.1, f63.2.2.2.1, f63.2.2.2.2.1, f63.2.2.2.2.2, if_true]
  simp only [p2mAll, m2mAll, m2lAll, l2lAll, l2pAll, F.hH, F.hD, hls]
  rw [applyCalls_six]
  -- P2M
  have hflat : ∀ (mk : Nat → List Nat → Call), (T.pgroups.flatMap fun g => g.map fun l => mk l.idx l.parts) = ls.map fun l => mk l.idx l.parts := by
    intro mk
    rw [← hls]
    generalize T.pgroups = pg
    induction pg with
    | nil => rfl
    | cons g pg ih => simp only [List.flatMap_cons, List.flatten_cons, List.map_append, ih]
  rw [hflat Call.p2m, hflat Call.l2p]
  generalize hs0 : ({} : State) = s0
  have s0m : ∀ l i, s0.m l i = 0 := by intro l i; rw [← hs0]; exact empty_m l i
  have s0l : ∀ l i, s0.l l i = 0 := by intro l i; rw [← hs0]; exact empty_l l i
  have s0r : ∀ p, s0.r p = 0 := by intro p; rw [← hs0]; exact empty_r p
  -- state after P2M
  obtain ⟨p1m, p1l, p1r⟩ := phase_p2m (wq q) (H-1) T.partsOf T.partsOf (if H > upper then ls.map fun l => Call.p2m l.idx l.parts else [])
    (by
      intro c hc
      split at hc
      · obtain ⟨l, hl, rfl⟩ := List.mem_map.1 hc
        exact ⟨l.idx, by rw [hpo l hl]⟩
      · simp at hc) s0
  generalize hs1 : applyCalls (wq q) (H-1) T.partsOf T.partsOf s0 (if H > upper then ls.map fun l => Call.p2m l.idx l.parts else []) = s1 at *
  have s1m : ∀ lv i, s1.m lv i = if H > upper ∧ lv = H - 1 ∧ i = lfb.idx then 1 else 0 := by
    intro lv i
    rw [p1m, s0m, Nat.zero_add]
    by_cases hact : H > upper
    · simp only [hact, if_true, true_and]
      have e : (ls.map fun l => Call.p2m l.idx l.parts).flatMap elemsOfCall = (ls.map (·.idx)).map fun j => Elem.p2m j (T.partsOf j).length := by
        rw [List.map_map]
        generalize hg : ls = ls' at hpo ⊢
        clear hg
        induction ls' with
        | nil => rfl
        | cons l ls' ih =>
          simp only [List.map_cons, List.flatMap_cons, elemsOfCall, List.singleton_append, Function.comp]
          rw [ih (fun lf hl => hpo lf (by simp [hl])), hpo l (by simp)]
      rw [e, sumOver_map]
      have : sumOver (ls.map (·.idx)) ((cM (wq q) (H-1) T.partsOf s0 lv i) ∘ fun j => Elem.p2m j (T.partsOf j).length) =
          sumOver (ls.map (·.idx)) (fun j => if j = i then (if lv = H - 1 then (T.partsOf j).count q else 0) else 0) := by
        apply sumOver_congr
        intro j _
        simp only [Function.comp, cM, sumW_wq]
        by_cases h1 : j = i <;> by_cases h2 : lv = H - 1
        · subst h1; subst h2; simp
        · subst h1
          have : ¬ (H - 1, j) = (lv, j) := by intro e; injection e with e1 _; exact h2 e1.symm
          rw [if_neg this]; simp [h2]
        · have : ¬ (H - 1, j) = (lv, i) := by intro e; injection e with _ e2; exact h1 e2
          simp [this, h1]
        · have : ¬ (H - 1, j) = (lv, i) := by intro e; injection e with _ e2; exact h1 e2
          simp [this, h1]
      rw [this, sumOver_indicator _ hidx]
      by_cases hi : i ∈ ls.map (·.idx)
      · rw [if_pos hi, hqb i hi]
        by_cases h1 : lv = H - 1 <;> by_cases h2 : i = lfb.idx <;> simp [h1, h2]
      · rw [if_neg hi]
        have : i ≠ lfb.idx := fun e => hi (e ▸ hb)
        simp [this]
    · simp [hact, sumOver]
  have s1l : ∀ lv i, s1.l lv i = 0 := by intro lv i; rw [p1l, s0l]
  have s1r : ∀ p, s1.r p = 0 := by intro p; rw [p1r, s0r]
  -- abbreviations
  generalize hcells : (fun ℓ => specCells D (H-1) (ls.map (·.idx)) ℓ) = cellsAt at *
  have hcA : ∀ ℓ, specCells D (H-1) (ls.map (·.idx)) ℓ = cellsAt ℓ := fun ℓ => by rw [← hcells]
  -- the elementary interactions of the result phases
  have resForm : ∀ c ∈ (if H > upper then ls.map fun l => Call.l2p l.idx l.parts else []) ++ p2pAll D true H T.leafGroups, isResultCall T.partsOf c := by
    intro c hc
    rw [List.mem_append] at hc
    rcases hc with hc | hc
    · split at hc
      · obtain ⟨l, hl, rfl⟩ := List.mem_map.1 hc
        exact (hpo l hl).symm
      · simp at hc
    · exact p2pAll_form D true H T.partsOf _ c hc
  have resElems : (((if H > upper then ls.map fun l => Call.l2p l.idx l.parts else []) ++ p2pAll D true H T.leafGroups).flatMap elemsOfCall).Perm
      ((if decide (H > upper) then (ls.map (·.idx)).map (fun i => Elem.l2p i (T.partsOf i).length) else []) ++
        (specP2P D true (H-1) (ls.map (·.idx)) ++ (ls.map (·.idx)).map Elem.p2pInner)) := by
    rw [List.flatMap_append]
    apply List.Perm.append
    · apply List.Perm.of_eq
      by_cases hact : H > upper
      · simp only [hact, if_true, decide_true]
        rw [List.map_map]
        generalize hg : ls = ls' at hpo ⊢
        clear hg
        induction ls' with
        | nil => rfl
        | cons l ls' ih =>
          simp only [List.map_cons, List.flatMap_cons, elemsOfCall, List.singleton_append, Function.comp]
          rw [ih (fun lf hl => hpo lf (by simp [hl])), hpo l (by simp)]
      · simp [hact]
    · exact p2p_refines_per F hH
  -- the key formula for the result of p
  have key : (applyCalls (wq q) (H-1) T.partsOf T.partsOf
      (applyCalls (wq q) (H-1) T.partsOf T.partsOf
        (applyCalls (wq q) (H-1) T.partsOf T.partsOf
          (applyCalls (wq q) (H-1) T.partsOf T.partsOf s1
            ((midLevels H upper).reverse.flatMap fun l => m2mLevel D l (T.level l) (T.level (l + 1))))
          ((m2lLevels H upper).flatMap fun l => m2lLevel D true l (T.level l)))
        ((midLevels H upper).flatMap fun l => l2lLevel D l (T.level l) (T.level (l + 1))))
      ((if H > upper then ls.map fun l => Call.l2p l.idx l.parts else []) ++ p2pAll D true H T.leafGroups)).r p =
      (if upper ≤ H - 1 then AvalP D (H-1) upper cellsAt lfb.idx upper (anc D (H-1) upper lfa.idx) +
          sumA D (H-1) lfa.idx (AvalP D (H-1) upper cellsAt lfb.idx) upper (H - 1 - upper) else 0) +
      (sumOver (shiftsAt D (H-1)) (fun k => if perP2PTest D (H-1) lfa.idx lfb.idx k then 1 else 0) +
       sumOver (shiftsAt D (H-1)) (fun k => if perP2PTest D (H-1) lfb.idx lfa.idx k then 1 else 0)) +
      ((if lfa.idx = lfb.idx then 1 else 0) - wq q p) := by
    by_cases hact : H > upper
    · have huL : upper ≤ H - 1 := by omega
      rw [midLevels_eq, m2lLevels_eq]
      -- upward pass
      obtain ⟨m1, m2, m3, m4⟩ := m2m_pass q D (H-1) T.partsOf T.partsOf cellsAt lfb.idx (fun ℓ => by rw [← hcA]; exact hnd ℓ)
        (fun ℓ hℓ => by rw [← hcA]; exact hanc _ hb ℓ hℓ) upper
        (fun ℓ => m2mLevel D ℓ (T.level ℓ) (T.level (ℓ+1))) (fun ℓ => m2mLevel_form D ℓ _ _) (H - 1 - upper) (by omega)
        (fun ℓ h1 h2 => by rw [← hcA]; exact m2m_level_elems F ℓ (by omega)) s1
        (by
          intro ℓ i h1 h2
          have : ℓ = H - 1 := by omega
          subst this
          rw [s1m, anc_leaf]
          simp [hact])
        (by
          intro ℓ i h1
          rw [s1m]
          have : ¬ ℓ = H - 1 := by omega
          simp [this])
      generalize applyCalls (wq q) (H-1) T.partsOf T.partsOf s1 ((List.range' upper (H - 1 - upper)).reverse.flatMap fun l => m2mLevel D l (T.level l) (T.level (l + 1))) = s2 at *
      -- transfer phase
      have e1 : H - upper = H - 1 + 1 - upper := by omega
      rw [e1]
      obtain ⟨t1, t2, t3⟩ := m2l_phase_eval_per q D (H-1) T.partsOf T.partsOf cellsAt lfb.idx (fun ℓ => by rw [← hcA]; exact hnd ℓ) upper huL
        ((List.range' upper (H - 1 + 1 - upper)).flatMap fun l => m2lLevel D true l (T.level l))
        (by
          intro c hc
          obtain ⟨l, _, hc⟩ := List.mem_flatMap.1 hc
          exact m2lLevel_form D true l _ c hc)
        (by
          rw [List.flatMap_assoc]
          apply flatMap_perm_of_forall
          intro l hl
          rw [List.mem_range'_1] at hl
          rw [← hcA]
          exact m2l_level_refines F true l (by omega))
        s2 (fun ℓ j h1 h2 => m1 ℓ j h1 h2) (fun lv i => by rw [m3, s1l])
      generalize applyCalls (wq q) (H-1) T.partsOf T.partsOf s2 ((List.range' upper (H - 1 + 1 - upper)).flatMap fun l => m2lLevel D true l (T.level l)) = s3 at *
      -- downward pass
      obtain ⟨d1, d2, d3⟩ := l2l_pass q D (H-1) T.partsOf T.partsOf cellsAt lfa.idx (fun ℓ => by rw [← hcA]; exact hnd ℓ)
        (fun ℓ hℓ => by rw [← hcA]; exact hanc _ ha ℓ hℓ) (AvalP D (H-1) upper cellsAt lfb.idx)
        (fun ℓ => l2lLevel D ℓ (T.level ℓ) (T.level (ℓ+1))) (fun ℓ => l2lLevel_form D ℓ _ _) (H - 1 - upper) upper (by omega)
        (fun ℓ h1 h2 => by rw [← hcA]; exact l2l_level_elems F ℓ (by omega)) s3
        (AvalP D (H-1) upper cellsAt lfb.idx upper (anc D (H-1) upper lfa.idx)) (t1 _ _) (fun ℓ i _ => t1 ℓ i)
      generalize applyCalls (wq q) (H-1) T.partsOf T.partsOf s3 ((List.range' upper (H - 1 - upper)).flatMap fun l => l2lLevel D l (T.level l) (T.level (l + 1))) = s4 at *
      have e2 : upper + (H - 1 - upper) = H - 1 := by omega
      rw [e2, anc_leaf] at d1
      -- results
      have := results_eval_per q p D (H-1) T.partsOf (ls.map (·.idx)) lfa.idx lfb.idx hidx ha hb hpa hqb (decide (H > upper)) _ resForm resElems s4
        (by rw [d3, t3, m4, s1r])
      rw [this, d1]
      simp [hact, huL]
    · have huL : ¬ upper ≤ H - 1 := by omega
      have z1 : H - 1 - upper = 0 := by omega
      have z2 : H - upper = 0 := by omega
      rw [midLevels_eq, m2lLevels_eq, z1, z2]
      simp only [List.range'_zero, List.reverse_nil, List.flatMap_nil, applyCalls, List.foldl_nil]
      have := results_eval_per q p D (H-1) T.partsOf (ls.map (·.idx)) lfa.idx lfb.idx hidx ha hb hpa hqb (decide (H > upper)) _ resForm resElems s1 (s1r p)
      simp only [applyCalls] at this
      rw [this]
      simp [hact, huL]
  rw [key]
  subst hcells
  have hba : lfa.idx < 2^(D*(H-1)) := F.bound _ ha
  have hbb : lfb.idx < 2^(D*(H-1)) := F.bound _ hb
  rw [far_total_per D (H-1) upper (ls.map (·.idx)) lfa.idx lfb.idx ha hb hu]
  rw [shiftsAt_eq, sumOver_map, sumOver_map]
  rw [sumOver_neg_unit D ((fun k => if perP2PTest D (H-1) lfb.idx lfa.idx k then 1 else 0) ∘ fun K => K.map (· * (2:Int)^(H-1)))]
  rw [← sumOver_add, ← sumOver_add]
  have pointwise : sumOver (unitShifts D) (fun K =>
      (if adjV (toI (decode D (H-1) lfa.idx)) (vadd (toI (decode D (H-1) lfb.idx)) (K.map (· * (2:Int)^(H-1)))) then 0 else 1) +
      (((fun k => if perP2PTest D (H-1) lfa.idx lfb.idx k then 1 else 0) ∘ fun K => K.map (· * (2:Int)^(H-1))) K +
       ((fun k => if perP2PTest D (H-1) lfb.idx lfa.idx k then 1 else 0) ∘ fun K => K.map (· * (2:Int)^(H-1))) (K.map (- ·)))) =
      sumOver (unitShifts D) (fun K => if vadd (toI (decode D (H-1) lfb.idx)) (K.map (· * (2:Int)^(H-1))) = toI (decode D (H-1) lfa.idx) then 0 else 1) := by
    apply sumOver_congr
    intro K hK
    obtain ⟨hKl, _⟩ := (mem_unitShifts D K).1 hK
    have e : (K.map (- ·)).map (· * (2:Int)^(H-1)) = (K.map (· * (2:Int)^(H-1))).map (- ·) := by
      simp only [List.map_map]
      apply List.map_congr_left
      intro x _
      simp only [Function.comp]
      exact Int.neg_mul x _
    have io := image_once D (H-1) lfa.idx lfb.idx (K.map (· * (2:Int)^(H-1))) (by simpa using hKl)
    simp only [Function.comp, e]
    rw [← io]
    omega
  rw [pointwise]
  have cnt := image_count D (H-1) lfa.idx lfb.idx hba hbb
  have hwq : wq q p = if p = q then 1 else 0 := rfl
  rw [hwq]
  have hpow : 0 < 3^D := Nat.pow_pos (by omega)
  by_cases hab : lfa.idx = lfb.idx
  · rw [if_pos hab] at cnt ⊢
    by_cases hpq : p = q <;> simp [hpq] <;> omega
  · have hpq : p ≠ q := by
      intro e
      have h1 := hpa lfa.idx ha
      have h2 := hqb lfa.idx ha
      rw [e] at h1
      rw [h1] at h2
      simp [hab] at h2
    rw [if_neg hab] at cnt ⊢
    simp [hpq]; omega

end Tbfmm
