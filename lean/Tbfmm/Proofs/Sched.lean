/-!: any legal schedule of a task list has the same effect as submission order -/
namespace Tbfmm

variable {T S : Type}

def exec (run : T → S → S) (l : List T) (s : S) : S := l.foldl (fun s t => run t s) s

theorem exec_append (run : T → S → S) (l1 l2 : List T) (s : S) :
    exec run (l1 ++ l2) s = exec run l2 (exec run l1 s) := by
  simp [exec, List.foldl_append]

/-- `Legal dep sub sched`: `sched` is obtained from `sub` by repeatedly picking a task all of whose
    predecessors in (what remains of) the submission order are independent of it -/
inductive Legal (dep : T → T → Prop) : List T → List T → Prop
  | nil : Legal dep [] []
  | pick (a : T) (l1 l2 sched : List T) :
      (∀ b ∈ l1, ¬ dep b a) → Legal dep (l1 ++ l2) sched → Legal dep (l1 ++ a :: l2) (a :: sched)

/-- move `a` in front of a block of tasks it is independent of -/
theorem exec_move_front (run : T → S → S) (dep : T → T → Prop)
    (hcomm : ∀ a b s, ¬ dep b a → run a (run b s) = run b (run a s))
    (a : T) (l1 : List T) (h : ∀ b ∈ l1, ¬ dep b a) (s : S) :
    exec run (l1 ++ [a]) s = exec run (a :: l1) s := by
  induction l1 generalizing s with
  | nil => rfl
  | cons b l1 ih =>
    have hb : ¬ dep b a := h b (by simp)
    have ih' := ih (fun x hx => h x (by simp [hx])) (run b s)
    simp only [exec, List.cons_append, List.foldl_cons] at ih' ⊢
    rw [ih', hcomm a b s hb]

theorem legal_exec_eq (run : T → S → S) (dep : T → T → Prop)
    (hcomm : ∀ a b s, ¬ dep b a → run a (run b s) = run b (run a s))
    {sub sched : List T} (h : Legal dep sub sched) (s : S) :
    exec run sched s = exec run sub s := by
  induction h generalizing s with
  | nil => rfl
  | pick a l1 l2 sched hind _ ih =>
    have h1 : exec run (l1 ++ a :: l2) s = exec run (a :: (l1 ++ l2)) s := by
      have : l1 ++ a :: l2 = (l1 ++ [a]) ++ l2 := by simp
      rw [this, exec_append, exec_move_front run dep hcomm a l1 hind s]
      show exec run l2 (exec run (a :: l1) s) = exec run (a :: (l1 ++ l2)) s
      simp [exec, List.foldl_append]
    rw [h1]
    show exec run sched (run a s) = exec run (l1 ++ l2) (run a s)
    exact ih (run a s)

end Tbfmm
