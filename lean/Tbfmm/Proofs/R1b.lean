import Tbfmm.Proofs.R1a
/-! R1, part b: lemmas about runs and append -/
namespace Tbfmm

variable (par : Nat → Nat)

theorem members_runsAux (cur : Run) (cs : List Nat) : members (runsAux par cur cs) = cur.2 ++ cs := by
  induction cs generalizing cur with
  | nil => simp [runsAux, members]
  | cons c cs ih =>
    obtain ⟨p, r⟩ := cur
    simp only [runsAux]; split
    · rw [ih]; simp
    · simp only [members, List.flatMap_cons] at ih ⊢
      rw [ih]; simp

/-- every run produced is "good": all its members have the run's key as parent -/
def Good (r : Run) : Prop := ∀ c ∈ r.2, par c = r.1

theorem good_runsAux (cur : Run) (cs : List Nat) (h : Good par cur) : ∀ r ∈ runsAux par cur cs, Good par r := by
  induction cs generalizing cur with
  | nil => intro r hr; simp [runsAux] at hr; subst hr; exact h
  | cons c cs ih =>
    obtain ⟨p, r0⟩ := cur
    simp only [runsAux]; split
    · rename_i hc
      apply ih
      intro x hx; simp at hx; rcases hx with hx | hx
      · exact h x hx
      · subst hx; exact hc
    · intro r hr
      simp at hr; rcases hr with hr | hr
      · subst hr; exact h
      · exact ih (par c, [c]) (by intro x hx; simp at hx; subst hx; rfl) r hr

theorem linksOf_good (rs : List Run) (h : ∀ r ∈ rs, Good par r) : linksOf rs = (members rs).map (link par) := by
  induction rs with
  | nil => rfl
  | cons r rs ih =>
    simp only [linksOf, members, List.flatMap_cons, List.map_append] at ih ⊢
    rw [ih (fun x hx => h x (by simp [hx]))]
    congr 1
    apply List.map_congr_left
    intro c hc
    simp [link, h r (by simp) c hc]

/-- RL3: grouping an appended list -/
theorem runsAux_append (cur : Run) (xs ys : List Nat) :
    runsAux par cur (xs ++ ys)
      = (runsAux par cur xs).dropLast ++ runsAux par ((runsAux par cur xs).getLast (runsAux_ne_nil par cur xs)) ys := by
  induction xs generalizing cur with
  | nil => simp [runsAux]
  | cons c xs ih =>
    obtain ⟨p, r⟩ := cur
    simp only [List.cons_append, runsAux]
    split
    · exact ih _
    · have hne := runsAux_ne_nil par (par c, [c]) xs
      rw [ih]
      simp [List.dropLast_cons_of_ne_nil hne, List.getLast_cons hne]

theorem runsAux_getLast_key_nil (cur : Run) : ((runsAux par cur []).getLast (runsAux_ne_nil par cur [])) = cur := by
  simp [runsAux]

/-- the last run's key is the parent of the last child -/
theorem last_key (cur : Run) (cs : List Nat) (hg : Good par cur) (hne : cur.2 ≠ []) :
    ((runsAux par cur cs).getLast (runsAux_ne_nil par cur cs)).1
      = par ((cur.2 ++ cs).getLast (by simp [hne])) := by
  induction cs generalizing cur with
  | nil =>
    simp only [runsAux, List.getLast_singleton, List.append_nil]
    exact (hg _ (List.getLast_mem hne)).symm
  | cons c cs ih =>
    obtain ⟨p, r⟩ := cur
    simp only [runsAux]
    split
    · rename_i hc
      have := ih (p, r ++ [c]) (by
        intro x hx; simp at hx; rcases hx with hx | hx
        · exact hg x hx
        · subst hx; exact hc) (by simp)
      simp only [List.append_assoc, List.singleton_append] at this
      simpa using this
    · have hne' := runsAux_ne_nil par (par c, [c]) cs
      rw [List.getLast_cons hne']
      have := ih (par c, [c]) (by intro x hx; simp at hx; subst hx; rfl) (by simp)
      simp only [List.singleton_append] at this
      rw [this]
      congr 1
      simp [List.getLast_append_of_ne_nil]

/-- split lemma: cutting the run list at position k corresponds to cutting the children at a run boundary -/
theorem runs_split (cur : Run) (cs : List Nat) (k : Nat) (hk0 : 0 < k) (hk : k < (runsAux par cur cs).length) :
    ∃ xs y ys, cs = xs ++ y :: ys ∧ runsAux par cur xs = (runsAux par cur cs).take k ∧
      runsAux par (par y, [y]) ys = (runsAux par cur cs).drop k ∧
      par y ≠ ((runsAux par cur xs).getLast (runsAux_ne_nil par cur xs)).1 := by
  induction cs generalizing cur k with
  | nil => simp [runsAux] at hk; omega
  | cons c cs ih =>
    obtain ⟨p, r⟩ := cur
    by_cases hc : par c = p
    · have hk' : k < (runsAux par (p, r ++ [c]) cs).length := by simpa [runsAux, hc] using hk
      obtain ⟨xs, y, ys, h1, h2, h3, h4⟩ := ih (p, r ++ [c]) k hk0 hk'
      refine ⟨c :: xs, y, ys, by simp [h1], ?_, ?_, ?_⟩
      · simpa [runsAux, hc] using h2
      · simpa [runsAux, hc] using h3
      · simpa [runsAux, hc] using h4
    · have hrun : runsAux par (p, r) (c :: cs) = (p, r) :: runsAux par (par c, [c]) cs := by
        simp [runsAux, hc]
      cases k with
      | zero => omega
      | succ k =>
        cases k with
        | zero =>
          refine ⟨[], c, cs, by simp, ?_, ?_, ?_⟩
          · simp [runsAux, hc]
          · simp [hrun]
          · simpa [runsAux] using hc
        | succ k =>
          have hk' : k + 1 < (runsAux par (par c, [c]) cs).length := by
            rw [hrun] at hk; simpa using hk
          obtain ⟨xs, y, ys, h1, h2, h3, h4⟩ := ih (par c, [c]) (k+1) (by omega) hk'
          refine ⟨c :: xs, y, ys, by simp [h1], ?_, ?_, ?_⟩
          · rw [hrun]; simp only [runsAux, hc, if_false, List.take_succ_cons]; rw [h2]
          · rw [hrun]; simpa using h3
          · have hne := runsAux_ne_nil par (par c, [c]) xs
            simp only [runsAux, hc, if_false]
            rw [List.getLast_cons hne]; exact h4

end Tbfmm
