import Tbfmm.Proofs.Weighted
import Tbfmm.Proofs.PeriodicPairs
/-!
Non-vacuity: the hypotheses of the main theorems are met by concrete, non-trivial inputs, and the
conclusions can be observed by evaluation on them.
-/
namespace Tbfmm.Examples

/-- a 2-D tree of height 3 with four particles in three leaves, block size 2, one-group-per-parent mode -/
def leafIdx : List Nat := [0, 5, 15, 5]

example : 0 < 2 ∧ leafIdx ≠ [] ∧ 1 ≤ 3 ∧ (∀ i ∈ leafIdx, i < 2^(2*(3-1))) ∧ 2 ≤ 2 ∧ 3 < leafIdx.length := by decide

/-- the instance of `exec_refines_spec` for that input -/
example := exec_refines_spec 2 3 2 true leafIdx false 63 2 (by decide) (by decide) (by decide) (by decide)

/-- the instance of `C01_values_weighted` for that input and the driver's packed weights -/
example := C01_values_weighted 2 3 2 true leafIdx 2 (by decide) (by decide) (by decide) (by decide) (by decide) weight 3 (by decide)

/-- `C09_values` for two different particle sets -/
example := C09_values 2 3 2 1 true false [0, 5, 15, 5] [3, 12] 2 (by decide) (by decide) (by decide) (by decide) (by decide)
  (by decide) (by decide) (by decide) 1 2 (by decide) (by decide)

/-- far pair: leaves 0 and 15 of a 4×4 grid are not adjacent -/
example : ¬ Far.adj (decode 2 2 0) (decode 2 2 15) := by decide
/-- near pair: leaves 0 and 3 are adjacent -/
example : Far.adj (decode 2 2 0) (decode 2 2 3) := by decide

-- evaluation of both sides of `C01_values_weighted` on the example (unit weights): every particle counts the three others
#eval (List.range leafIdx.length).map fun p =>
  ((applyCalls (fun _ => 1) 2 (Tree.build 2 3 2 true leafIdx).partsOf (Tree.build 2 3 2 true leafIdx).partsOf {}
    (executeSeq (Tree.build 2 3 2 true leafIdx) false 63 2)).r p,
   sumOver (List.range leafIdx.length) (fun q => if p = q then 0 else 1))

end Tbfmm.Examples
