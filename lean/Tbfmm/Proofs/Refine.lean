import Tbfmm.Proofs.Cells
import Tbfmm.Proofs.P2PChar
/-!
**Refinement of the sequential executor to the cell-level specification** (C01, C02, C08): on a tree
built from any particle set with any block size and either grouping mode, periodic or not, for every
flag set and upper level, the multiset of elementary interactions performed by `execute` is exactly
`specElems` — a function of the occupied leaves alone.
-/
namespace Tbfmm

def shapeOf (ls : List Leaf) : Shape := ls.map fun l => (l.idx, l.parts)

/-- level-wise characterisation of the transfer pass -/
theorem m2l_level_char (D : Nat) (periodic : Bool) (l : Nat) (tgts srcs : List Nat)
    (hs : ∀ s ∈ srcs, s < 2^(D*l)) (hnd : srcs.Nodup) :
    ((tgts.flatMap fun c => (ilistCell D periodic l c 0).filter fun x => srcs.contains x.src).map (elemM2L l)).Perm
      (specM2LLevel D periodic l tgts srcs) := by
  by_cases hg : ((!periodic && decide (l < 2)) || (periodic && decide (l < 1))) = true
  · have e : ∀ c, ilistCell D periodic l c 0 = [] := by
      intro c; unfold ilistCell; rw [if_pos hg]
    unfold specM2LLevel
    rw [if_pos hg]
    simp [e]
  · cases l with
    | zero => exfalso; apply hg; cases periodic <;> simp
    | succ b =>
      unfold specM2LLevel
      rw [if_neg hg]
      simp only []
      rw [List.map_flatMap]
      apply flatMap_perm_of_forall
      intro t _
      refine (ilist_target_perm D periodic b t srcs hg hs hnd).trans (List.Perm.of_eq ?_)
      rw [List.flatMap_map]
      rfl

/-- leaf-level characterisation of the direct pass -/
theorem p2p_level_char (D : Nat) (periodic : Bool) (l : Nat) (leaves : List Nat)
    (hs : ∀ s ∈ leaves, s < 2^(D*l)) (hnd : leaves.Nodup) :
    ((leaves.flatMap fun c => (nlistCell D periodic l c 0 true).filter fun x => leaves.contains x.src).map elemP2P).Perm
      (specP2P D periodic l leaves) := by
  unfold specP2P
  simp only []
  rw [List.map_flatMap]
  apply flatMap_perm_of_forall
  intro t _
  refine (nlist_target_perm D periodic l t leaves hs hnd).trans (List.Perm.of_eq ?_)
  rw [List.flatMap_map]
  rfl

theorem filter_idx_nil (ls : List Leaf) (i : Nat) (h : ∀ l ∈ ls, l.idx ≠ i) : (shapeOf ls).filter (·.1 == i) = [] := by
  rw [List.filter_eq_nil_iff]
  intro a ha
  unfold shapeOf at ha
  rw [List.mem_map] at ha
  obtain ⟨l, hl, rfl⟩ := ha
  simpa using h l hl

/-- with distinct leaf indices, the particle count attached to a leaf index is the leaf's own count -/
theorem nOf_leaf (ls : List Leaf) (hn : (ls.map (·.idx)).Pairwise (· < ·)) (l : Leaf) (hl : l ∈ ls) :
    (((shapeOf ls).filter (·.1 == l.idx)).map (·.2.length)).sum = l.parts.length := by
  induction ls with
  | nil => simp at hl
  | cons a ls ih =>
    simp only [List.map_cons, List.pairwise_cons] at hn
    have hsh : shapeOf (a :: ls) = (a.idx, a.parts) :: shapeOf ls := rfl
    rw [hsh, List.filter_cons]
    simp only [List.mem_cons] at hl
    rcases hl with rfl | hl
    · simp only [beq_self_eq_true, if_true, List.map_cons, List.sum_cons]
      rw [filter_idx_nil ls l.idx]
      · simp
      · intro l' hl'
        have := hn.1 l'.idx (by simp only [List.mem_map]; exact ⟨l', hl', rfl⟩)
        omega
    · have hlt := hn.1 l.idx (by simp only [List.mem_map]; exact ⟨l, hl, rfl⟩)
      have : ((a.idx, a.parts).1 == l.idx) = false := by simp; omega
      rw [this]
      simp only [Bool.false_eq_true, if_false]
      exact ih hn.2 hl

theorem leavesOf_idx_mem (xs : List (Nat × Nat)) (l : Leaf) (hl : l ∈ leavesOf xs) : ∃ p, (l.idx, p) ∈ xs := by
  obtain ⟨q, hq⟩ := List.exists_mem_of_ne_nil _ (leavesOf_parts_ne_nil xs l hl)
  have : (l.idx, q) ∈ pairsOf (leavesOf xs) := by
    simp only [pairsOf, List.mem_flatMap, List.mem_map]
    exact ⟨l, hl, q, hq, rfl⟩
  rw [pairsOf_leavesOf] at this
  exact ⟨q, this⟩

end Tbfmm

namespace Tbfmm

theorem cell_bound (D L l : Nat) (hl : l ≤ L) (leaves : List Nat) (hb : ∀ i ∈ leaves, i < 2^(D*L)) :
    ∀ c ∈ specCells D L leaves l, c < 2^(D*l) := by
  intro c hc
  unfold specCells at hc
  rw [sortDedup_mem, List.mem_map] at hc
  obtain ⟨i, hi, rfl⟩ := hc
  rw [Nat.div_lt_iff_lt_mul (Nat.pow_pos (by omega)), ← Nat.pow_add, ← Nat.mul_add]
  have : l + (L - l) = L := by omega
  rw [this]
  exact hb i hi

theorem flatMap_congr' {α β} (l : List α) (f g : α → List β) (h : ∀ a ∈ l, f a = g a) : l.flatMap f = l.flatMap g := by
  induction l with
  | nil => rfl
  | cons a l ih =>
    simp only [List.flatMap_cons]
    rw [h a (by simp), ih (fun b hb => h b (by simp [hb]))]

/-- **the sequential executor refines the cell-level specification** -/
theorem exec_refines_spec (D H bs : Nat) (mode : Bool) (leafIdx : List Nat) (periodic : Bool) (flags upper : Nat)
    (hbs : 0 < bs) (hne : leafIdx ≠ []) (hH : 1 ≤ H) (hlt : ∀ i ∈ leafIdx, i < 2^(D*(H-1))) :
    ((executeSeq (Tree.build D H bs mode leafIdx) periodic flags upper).flatMap elemsOfCall).Perm
      (specElems D H periodic (shapeOf (Tree.build D H bs mode leafIdx).pgroups.flatten) flags upper) := by
  refine (exec_refines_cells D H bs mode leafIdx periodic flags upper hbs hne hH).trans ?_
  have hpg := build_pgroups_flatten D H bs mode leafIdx hbs hne
  generalize hls : (Tree.build D H bs mode leafIdx).pgroups.flatten = ls at *
  have hsorted : (ls.map (·.idx)).Pairwise (· < ·) := by
    rw [hpg]; exact leavesOf_sorted _ (sortPairs_sorted _)
  have hleaves : sortDedup ((shapeOf ls).map (·.1)) = ls.map (·.idx) := by
    have : (shapeOf ls).map (·.1) = ls.map (·.idx) := by simp [shapeOf, List.map_map]
    rw [this]; exact sortDedup_of_sorted _ hsorted
  have hbound : ∀ i ∈ ls.map (·.idx), i < 2^(D*(H-1)) := by
    intro i hi
    rw [List.mem_map] at hi
    obtain ⟨l, hl, rfl⟩ := hi
    rw [hpg] at hl
    obtain ⟨p, hp⟩ := leavesOf_idx_mem _ l hl
    have := (sortPairs_perm _).subset hp
    obtain ⟨hp1, hp2⟩ := List.mem_zipIdx' this
    rw [hp2]; exact hlt _ (List.getElem_mem hp1)
  have hcells : ∀ l, l < H → ((Tree.build D H bs mode leafIdx).level l).flatten = specCells D (H-1) (ls.map (·.idx)) l := by
    intro l hl
    have := built_level_cells D H bs mode leafIdx hbs hne (H - 1 - l) (by omega)
    have e : H - 1 - (H - 1 - l) = l := by omega
    rw [e] at this
    rw [this, ← hpg, cellsUp_eq_specCells D (H-1) (H-1-l) (by omega) _ hsorted, e]
  have hc0 : specCells D (H-1) (ls.map (·.idx)) (H-1) = ls.map (·.idx) := by
    unfold specCells
    simp only [Nat.sub_self, Nat.mul_zero, Nat.pow_zero, Nat.div_one, List.map_id']
    exact sortDedup_of_sorted _ hsorted
  unfold cellElems specElems
  simp only []
  rw [hleaves]
  refine List.Perm.append (List.Perm.append (List.Perm.append (List.Perm.append (List.Perm.append ?_ ?_) ?_) ?_) ?_) ?_
  · -- P2M
    apply List.Perm.of_eq
    split
    · rw [List.map_map]
      apply List.map_congr_left
      intro l hl
      simp only [Function.comp]
      rw [nOf_leaf ls hsorted l hl]
    · rfl
  · -- M2M
    split
    · unfold specLinks
      rw [List.map_flatMap]
      refine (List.Perm.flatMap_right _ (List.reverse_perm _)).trans (List.Perm.of_eq ?_)
      apply flatMap_congr'
      intro l hl
      have hl' : l + 1 < H := by
        simp only [midLevels, List.mem_filter, List.mem_range] at hl; omega
      rw [hcells (l+1) hl', List.map_map]
      rfl
    · exact List.Perm.refl _
  · -- M2L
    split
    · apply flatMap_perm_of_forall
      intro l hl
      have hl' : l < H := by
        simp only [m2lLevels, List.mem_filter, List.mem_range] at hl; omega
      rw [hcells l hl']
      exact m2l_level_char D periodic l _ _ (cell_bound D (H-1) l (by omega) _ hbound)
        ((sortDedup_sorted _).imp (fun h => Nat.ne_of_lt h))
    · exact List.Perm.refl _
  · -- L2L
    apply List.Perm.of_eq
    split
    · unfold specLinks
      rw [List.map_flatMap]
      apply flatMap_congr'
      intro l hl
      have hl' : l + 1 < H := by
        simp only [midLevels, List.mem_filter, List.mem_range] at hl; omega
      rw [hcells (l+1) hl', List.map_map]
      rfl
    · rfl
  · -- L2P
    apply List.Perm.of_eq
    split
    · rw [List.map_map]
      apply List.map_congr_left
      intro l hl
      simp only [Function.comp]
      rw [nOf_leaf ls hsorted l hl]
    · rfl
  · -- P2P
    split
    · rw [hcells (H-1) (by omega), hc0]
      refine List.Perm.append ?_ (List.Perm.refl _)
      have hnd : (ls.map (·.idx)).Nodup := hsorted.imp (fun h => Nat.ne_of_lt h)
      exact p2p_level_char D periodic (H-1) (ls.map (·.idx)) hbound hnd
    · exact List.Perm.refl _

end Tbfmm
