import Tbfmm.Proofs.Values2
import Tbfmm.Proofs.NearOnce
/-!
Data flow of a full execution for the contribution of one source particle `q` (the weight `wq q` is the
indicator of `q`; every quantity is then a count of how many times `q`'s contribution sits in a value).
Upward pass: after P2M and M2M, the multipole of a cell holds `q` once iff the cell is an ancestor of `q`'s
leaf ("every cell's multipole equals the sum over the particles it contains").
-/
namespace Tbfmm

/-- weight = indicator of the source particle `q` -/
def wq (q : Nat) : Nat → Nat := fun p => if p = q then 1 else 0

theorem sumW_wq (q : Nat) (ps : List Nat) : sumW (wq q) ps = ps.count q := by
  induction ps with
  | nil => rfl
  | cons p ps ih =>
    simp only [sumW, List.map_cons, List.sum_cons, List.count_cons] at ih ⊢
    rw [ih]
    unfold wq
    by_cases h : p = q
    · subst h; simp; omega
    · have : (p == q) = false := by simpa using h
      simp [h, this]

/-- ancestor at level `ℓ` of a leaf index (leaf level `L`) -/
def anc (D L ℓ x : Nat) : Nat := x / 2^(D*(L-ℓ))

theorem parent_anc (D L ℓ x : Nat) (h : ℓ + 1 ≤ L) : parent D (anc D L (ℓ+1) x) = anc D L ℓ x := by
  unfold parent anc
  rw [Nat.div_div_eq_div_mul, ← Nat.pow_add]
  congr 2
  have : L - ℓ = (L - (ℓ+1)) + 1 := by omega
  rw [this, Nat.mul_succ]

theorem anc_leaf (D L x : Nat) : anc D L L x = x := by simp [anc]

/-- sum of an indicator over a duplicate-free list -/
theorem sumOver_indicator {α} [DecidableEq α] (xs : List α) (hn : xs.Nodup) (x0 : α) (v : α → Nat) :
    sumOver xs (fun x => if x = x0 then v x else 0) = if x0 ∈ xs then v x0 else 0 := by
  induction xs with
  | nil => simp [sumOver]
  | cons x xs ih =>
    rw [List.nodup_cons] at hn
    rw [sumOver_cons, ih hn.2]
    by_cases h : x = x0
    · subst h
      simp [hn.1]
    · have : ¬ x0 = x := fun e => h e.symm
      simp [h, this]

theorem range_filter_ge (n u : Nat) : (List.range n).filter (fun x => decide (u ≤ x)) = List.range' u (n - u) := by
  induction n with
  | zero => simp
  | succ n ih =>
    rw [List.range_succ, List.filter_append, ih]
    by_cases h : u ≤ n
    · have : n + 1 - u = (n - u) + 1 := by omega
      rw [this, List.range'_concat]
      simp [h]
    · have e1 : n + 1 - u = 0 := by omega
      have e2 : n - u = 0 := by omega
      simp [h, e1, e2]

theorem midLevels_eq (H upper : Nat) : midLevels H upper = List.range' upper (H - 1 - upper) := by
  unfold midLevels; exact range_filter_ge _ _
theorem m2lLevels_eq (H upper : Nat) : m2lLevels H upper = List.range' upper (H - upper) := by
  unfold m2lLevels; exact range_filter_ge _ _

end Tbfmm

namespace Tbfmm

theorem applyCalls_append (w : Nat → Nat) (L : Nat) (po po' : Nat → List Nat) (s : State) (a b : List Call) :
    applyCalls w L po po' s (a ++ b) = applyCalls w L po po' (applyCalls w L po po' s a) b := by
  simp [applyCalls, List.foldl_append]

theorem sumOver_map {α β} (xs : List α) (g : α → β) (f : β → Nat) : sumOver (xs.map g) f = sumOver xs (f ∘ g) := by
  simp [sumOver, List.map_map]

section
variable (q : Nat) (D L : Nat) (po po' : Nat → List Nat) (cellsAt : Nat → List Nat) (b : Nat)
  (hnd : ∀ ℓ, (cellsAt ℓ).Nodup) (hb : ∀ ℓ, ℓ ≤ L → anc D L ℓ b ∈ cellsAt ℓ)

include hnd hb

/-- one level of the upward pass: the multipoles of level `ℓ` receive those of level `ℓ+1` -/
theorem m2m_level_step (ℓ : Nat) (hℓ : ℓ + 1 ≤ L) (cs : List Call) (hform : ∀ c ∈ cs, ∃ p ch, c = .m2m ℓ p ch)
    (helems : cs.flatMap elemsOfCall = (cellsAt (ℓ+1)).map fun c => Elem.m2m ℓ (parent D c) c (childCode D c))
    (s : State) (hs1 : ∀ i, s.m (ℓ+1) i = if i = anc D L (ℓ+1) b then 1 else 0) (hs0 : ∀ i, s.m ℓ i = 0) :
    (∀ i, (applyCalls (wq q) L po po' s cs).m ℓ i = if i = anc D L ℓ b then 1 else 0) ∧
    (∀ lv i, lv ≠ ℓ → (applyCalls (wq q) L po po' s cs).m lv i = s.m lv i) ∧
    (∀ lv i, (applyCalls (wq q) L po po' s cs).l lv i = s.l lv i) ∧ (∀ p, (applyCalls (wq q) L po po' s cs).r p = s.r p) := by
  obtain ⟨h1, h2, h3⟩ := phase_m2m (wq q) L po po' ℓ cs hform s
  refine ⟨?_, ?_, h2, h3⟩
  · intro i
    rw [h1, helems, sumOver_map, hs0, Nat.zero_add]
    have e : sumOver (cellsAt (ℓ+1)) ((cM (wq q) L po' s ℓ i) ∘ fun c => Elem.m2m ℓ (parent D c) c (childCode D c)) =
        sumOver (cellsAt (ℓ+1)) (fun c => if c = anc D L (ℓ+1) b then (if parent D c = i then 1 else 0) else 0) := by
      apply sumOver_congr
      intro c _
      simp only [Function.comp, cM, hs1]
      by_cases h1 : parent D c = i
      · simp [h1]
      · have : ¬ (ℓ, parent D c) = (ℓ, i) := by intro e; injection e with _ e2; exact h1 e2
        simp [this, h1]
    rw [e, sumOver_indicator _ (hnd (ℓ+1)), if_pos (hb (ℓ+1) hℓ), parent_anc D L ℓ b hℓ]
    by_cases h : i = anc D L ℓ b
    · simp [h]
    · have : ¬ anc D L ℓ b = i := fun e => h e.symm
      simp [h, this]
  · intro lv i hne
    rw [h1, helems, sumOver_map]
    have : sumOver (cellsAt (ℓ+1)) ((cM (wq q) L po' s lv i) ∘ fun c => Elem.m2m ℓ (parent D c) c (childCode D c)) = 0 := by
      apply sumOver_zero
      intro c _
      simp only [Function.comp, cM]
      have : ¬ (ℓ, parent D c) = (lv, i) := by intro e; injection e with e1 _; exact hne e1.symm
      simp [this]
    rw [this, Nat.add_zero]

/-- **upward pass**: after the M2M calls of levels `u+k-1, …, u` (in that order), every level `u ≤ ℓ ≤ L`
    holds the source particle once in the ancestor of its leaf and nowhere else -/
theorem m2m_pass (u : Nat) (css : Nat → List Call) (hform : ∀ ℓ, ∀ c ∈ css ℓ, ∃ p ch, c = .m2m ℓ p ch)
    (k : Nat) (hk : u + k ≤ L)
    (helems : ∀ ℓ, u ≤ ℓ → ℓ < u + k → (css ℓ).flatMap elemsOfCall = (cellsAt (ℓ+1)).map fun c => Elem.m2m ℓ (parent D c) c (childCode D c))
    (s : State) (hs_hi : ∀ ℓ i, u + k ≤ ℓ → ℓ ≤ L → s.m ℓ i = if i = anc D L ℓ b then 1 else 0)
    (hs_lo : ∀ ℓ i, ℓ < u + k → s.m ℓ i = 0) :
    (∀ ℓ i, u ≤ ℓ → ℓ ≤ L → (applyCalls (wq q) L po po' s ((List.range' u k).reverse.flatMap css)).m ℓ i = if i = anc D L ℓ b then 1 else 0) ∧
    (∀ ℓ i, ℓ < u → (applyCalls (wq q) L po po' s ((List.range' u k).reverse.flatMap css)).m ℓ i = 0) ∧
    (∀ lv i, (applyCalls (wq q) L po po' s ((List.range' u k).reverse.flatMap css)).l lv i = s.l lv i) ∧
    (∀ p, (applyCalls (wq q) L po po' s ((List.range' u k).reverse.flatMap css)).r p = s.r p) := by
  induction k generalizing s with
  | zero =>
    simp only [List.range'_zero, List.reverse_nil, List.flatMap_nil, applyCalls, List.foldl_nil]
    exact ⟨fun ℓ i h1 h2 => hs_hi ℓ i (by omega) h2, fun ℓ i h => hs_lo ℓ i (by omega), fun _ _ => trivial, fun _ => trivial⟩
  | succ k ih =>
    rw [List.range'_concat, List.reverse_append, List.reverse_singleton, List.singleton_append, List.flatMap_cons, applyCalls_append]
    simp only [Nat.one_mul]
    obtain ⟨a1, a2, a3, a4⟩ := m2m_level_step q D L po po' cellsAt b hnd hb (u + k) (by omega) (css (u+k)) (hform (u+k))
      (helems (u+k) (by omega) (by omega)) s (fun i => hs_hi (u+k+1) i (by omega) (by omega)) (fun i => hs_lo (u+k) i (by omega))
    obtain ⟨b1, b2, b3, b4⟩ := ih (by omega) (fun ℓ h1 h2 => helems ℓ h1 (by omega)) (applyCalls (wq q) L po po' s (css (u+k)))
      (by
        intro ℓ i h1 h2
        by_cases e : ℓ = u + k
        · subst e; exact a1 i
        · rw [a2 ℓ i e]; exact hs_hi ℓ i (by omega) h2)
      (by
        intro ℓ i h1
        rw [a2 ℓ i (by omega)]; exact hs_lo ℓ i (by omega))
    refine ⟨b1, b2, ?_, ?_⟩
    · intro lv i; rw [b3, a3]
    · intro p; rw [b4, a4]

end

end Tbfmm
