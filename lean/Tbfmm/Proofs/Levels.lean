import Tbfmm.Proofs.Build
import Tbfmm.Proofs.BuildInv
/-!
The tree invariant at every level of a built tree (fixed-size strategy), and the upward/downward
pass applied to built trees (C01, C02, C07, C08)
-/
namespace Tbfmm
variable (par : Nat → Nat)

/-- keys of the runs of a list whose parents are non-decreasing are strictly increasing -/
theorem keysFrom_sorted (q : Nat) (cs : List Nat) (hmono : cs.Pairwise (fun a b => par a ≤ par b)) (hq : ∀ c ∈ cs, q ≤ par c) :
    (keysFrom par (some q) cs).Pairwise (· < ·) ∧ ∀ k ∈ keysFrom par (some q) cs, q < k := by
  induction cs generalizing q with
  | nil => simp [keysFrom]
  | cons c cs ih =>
    have hm := List.pairwise_cons.mp hmono
    simp only [keysFrom]
    by_cases h : some q = some (par c)
    · simp only [h, if_true]
      have hqc : q = par c := by simpa using h
      have := ih q hm.2 (fun c' hc' => hq c' (by simp [hc']))
      rw [hqc] at this ⊢
      simpa using this
    · simp only [h, if_false]
      have hqc : q < par c := by
        have h1 := hq c (by simp)
        have h2 : q ≠ par c := by intro e; exact h (by simp [e])
        omega
      obtain ⟨s1, s2⟩ := ih (par c) hm.2 (fun c' hc' => hm.1 c' hc')
      refine ⟨List.pairwise_cons.mpr ⟨s2, s1⟩, ?_⟩
      intro k hk
      simp only [List.mem_cons] at hk
      rcases hk with rfl | hk
      · exact hqc
      · have := s2 k hk; omega

theorem keys_runsOf_sorted (cs : List Nat) (hmono : cs.Pairwise (fun a b => par a ≤ par b)) :
    (keys (runsOf par cs)).Pairwise (· < ·) := by
  rw [keys_runsOf_eq]
  cases cs with
  | nil => simp [keysFrom]
  | cons c cs =>
    have hm := List.pairwise_cons.mp hmono
    simp only [keysFrom]
    have hne : ¬ (none : Option Nat) = some (par c) := by simp
    simp only [hne, if_false]
    obtain ⟨s1, s2⟩ := keysFrom_sorted par (par c) cs hm.2 (fun c' hc' => hm.1 c' hc')
    exact List.pairwise_cons.mpr ⟨s2, s1⟩

theorem sorted_mono_par (D : Nat) (cs : List Nat) (hs : cs.Pairwise (· < ·)) :
    cs.Pairwise (fun a b => parent D a ≤ parent D b) := by
  apply hs.imp
  intro a b hab
  exact Nat.div_le_div_right (Nat.le_of_lt hab)

theorem getD_append_left' {α} (xs ys : List α) (i : Nat) (d : α) (h : i < xs.length) : (xs ++ ys).getD i d = xs.getD i d := by
  simp [List.getD_eq_getElem?_getD, List.getElem?_append_left h]

theorem getD_append_last {α} (xs : List α) (y d : α) : (xs ++ [y]).getD xs.length d = y := by
  simp [List.getD_eq_getElem?_getD]

theorem getD_of_getLast? {α} (xs : List α) (x d : α) (h : xs.getLast? = some x) : xs.getD (xs.length - 1) d = x := by
  rw [List.getLast?_eq_getElem?] at h
  simp [List.getD_eq_getElem?_getD, h]

/-- the invariant one level of a tree must satisfy w.r.t. the level below for `upward_links` -/
structure LevelInv (D : Nat) (up lo : List Group) : Prop where
  up_ne : ∀ g ∈ up, g ≠ []
  lo_ne : ∀ g ∈ lo, g ≠ []
  parents : up.flatten = keys (runsOf (parent D) lo.flatten)
  sorted : up.flatten.Pairwise (· < ·)

/-- one step of the fixed-size strategy establishes the invariant and keeps the groups small -/
theorem levelUpFixed_inv (D bs : Nat) (hbs : 0 < bs) (lo : List Group) (hlo : ∀ g ∈ lo, g ≠ [])
    (hs : lo.flatten.Pairwise (· < ·)) :
    LevelInv D (levelUpFixed (parent D) bs lo) lo ∧ ∀ g ∈ levelUpFixed (parent D) bs lo, g.length ≤ bs := by
  refine ⟨⟨?_, hlo, levelUpFixed_flatten _ bs lo, ?_⟩, ?_⟩
  · exact upFixed_ne_nil _ bs hbs _ _ _
  · rw [levelUpFixed_flatten]
    exact keys_runsOf_sorted _ _ (sorted_mono_par D _ hs)
  · exact upFixed_size _ bs hbs _ _ _ (by simpa using hbs)

/-- all levels produced by `buildLevels` (fixed-size mode) satisfy the invariant pairwise -/
theorem buildLevels_fixed_inv (D bs : Nat) (hbs : 0 < bs) (n : Nat) (cur : List Group)
    (hne : ∀ g ∈ cur, g ≠ []) (hs : cur.flatten.Pairwise (· < ·)) :
    let lv := buildLevels D bs false n cur
    lv.length = n + 1 ∧ lv.getLast? = some cur ∧
    ∀ l, l + 1 < lv.length → LevelInv D (lv.getD l []) (lv.getD (l+1) []) := by
  induction n generalizing cur with
  | zero => simp [buildLevels]
  | succ n ih =>
    obtain ⟨inv, _⟩ := levelUpFixed_inv D bs hbs cur hne hs
    obtain ⟨h1, h2, h3⟩ := ih (levelUpFixed (parent D) bs cur) inv.up_ne inv.sorted
    simp only [buildLevels, Bool.false_eq_true, if_false]
    refine ⟨by simp [h1], by simp, ?_⟩
    intro l hl
    simp only [List.length_append, List.length_singleton, h1] at hl
    by_cases hlast : l + 1 < n + 1
    · rw [getD_append_left' _ _ l _ (by rw [h1]; omega), getD_append_left' _ _ (l+1) _ (by rw [h1]; omega)]
      exact h3 l (by rw [h1]; omega)
    · have hl' : l = n := by omega
      subst hl'
      have e1 := getD_of_getLast? _ _ ([] : List Group) h2
      rw [h1] at e1
      simp only [Nat.add_sub_cancel] at e1
      have e2 := getD_append_last (buildLevels D bs false l (levelUpFixed (parent D) bs cur)) cur ([] : List Group)
      rw [h1] at e2
      rw [getD_append_left' _ _ l _ (by rw [h1]; omega), e1, e2]
      exact inv

/-- **built trees (fixed-size grouping), upward and downward passes**: at every level the kernel calls
    carry every (parent, child) link exactly once, in child order — whatever the block size -/
theorem C01_links_of_built_tree (D H bs : Nat) (leafIdx : List Nat) (hbs : 0 < bs) (hne : leafIdx ≠ []) (l : Nat) (hl : l + 1 < H) :
    let t := Tree.build D H bs false leafIdx
    linksOf (calls (parent D) (t.level l) (t.level (l+1))) = (t.level (l+1)).flatten.map (link (parent D)) := by
  intro t
  have hleaf := C07_leaf_groups D H bs false leafIdx hbs
  have hbuild : t.levels = buildLevels D bs false (H - 1) t.leafGroups := by
    simp only [t, Tree.build]
    have : ¬ leafIdx.isEmpty = true := by simpa using hne
    simp [this, Tree.leafGroups]
  obtain ⟨h1, h2, h3⟩ := buildLevels_fixed_inv D bs hbs (H - 1) t.leafGroups (fun g hg => (hleaf.2 g hg).1) hleaf.1
  have inv := h3 l (by rw [h1]; omega)
  simp only [Tree.level, hbuild]
  have hlo_ne : (buildLevels D bs false (H - 1) t.leafGroups).getD (l+1) [] ≠ [] := by
    intro hnil
    -- the lowest level is the leaf groups, non-empty since there are particles; every level above has a non-empty flatten
    have hp := inv.parents
    rw [hnil] at hp
    simp [runsOf, keys] at hp
    -- then level l is empty too; walk down is not needed: derive a contradiction from the leaf level instead
    exact absurd hp (by
      intro hflat
      exact absurd hnil (by
        -- use non-emptiness propagated from the leaves
        have : ∀ k, k ≤ H - 1 → (buildLevels D bs false (H - 1) t.leafGroups).getD (H - 1 - k) [] ≠ [] := by
          intro k
          induction k with
          | zero =>
            intro _
            have hlast := getD_of_getLast? _ _ ([] : List Group) h2
            rw [h1] at hlast
            simp only [Nat.add_sub_cancel] at hlast
            simp only [Nat.sub_zero, hlast]
            intro he
            have hst := C06_stored_perm D H bs false leafIdx hbs
            have hlen := hst.length_eq
            simp only [Tree.stored, List.length_zipIdx] at hlen
            have : t.pgroups = [] := by simpa [Tree.leafGroups] using he
            simp only [t] at this
            rw [this] at hlen
            simp at hlen
            exact hne (List.eq_nil_of_length_eq_zero hlen.symm)
          | succ k ihk =>
            intro hk
            have hprev := ihk (by omega)
            have invk := h3 (H - 1 - (k+1)) (by rw [h1]; omega)
            have e : H - 1 - (k + 1) + 1 = H - 1 - k := by omega
            rw [e] at invk
            intro he
            have hp2 := invk.parents
            rw [he] at hp2
            obtain ⟨g, gs, hg⟩ := List.exists_cons_of_ne_nil hprev
            have gne := invk.lo_ne g (by rw [hg]; simp)
            obtain ⟨c, cs, hc⟩ := List.exists_cons_of_ne_nil gne
            rw [hg, hc] at hp2
            simp [runsOf, keys] at hp2
            have := runsAux_ne_nil (parent D) (parent D c, [c]) (cs ++ gs.flatten)
            simp_all
        have := this (H - 1 - (l + 1)) (by omega)
        have e : H - 1 - (H - 1 - (l + 1)) = l + 1 := by omega
        rwa [e] at this))
  exact upward_links (parent D) _ _ inv.up_ne inv.lo_ne hlo_ne inv.parents inv.sorted

end Tbfmm
