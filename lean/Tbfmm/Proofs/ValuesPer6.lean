import Tbfmm.Proofs.ValuesPer5
/-!
Periodic runs: every image of every leaf is served exactly once — the count.
-/
namespace Tbfmm

theorem neg_unitShifts_perm (D : Nat) : ((unitShifts D).map fun K => K.map (- ·)).Perm (unitShifts D) := by
  apply (List.perm_ext_iff_of_nodup _ (nodup_unitShifts D)).2
  · intro K
    rw [List.mem_map, mem_unitShifts]
    constructor
    · rintro ⟨K', hK', rfl⟩
      obtain ⟨h1, h2⟩ := (mem_unitShifts D K').1 hK'
      refine ⟨by simpa using h1, ?_⟩
      intro x hx
      rw [List.mem_map] at hx
      obtain ⟨y, hy, rfl⟩ := hx
      have := h2 y hy; omega
    · rintro ⟨h1, h2⟩
      refine ⟨K.map (- ·), (mem_unitShifts D _).2 ⟨by simpa using h1, ?_⟩, ?_⟩
      · intro x hx
        rw [List.mem_map] at hx
        obtain ⟨y, hy, rfl⟩ := hx
        have := h2 y hy; omega
      · rw [List.map_map]
        conv => rhs; rw [← List.map_id K]
        apply List.map_congr_left
        intro x _
        simp
  · rw [List.Nodup, List.pairwise_map]
    refine (nodup_unitShifts D).imp ?_
    intro K1 K2 hne e
    apply hne
    have := congrArg (fun K => K.map (- ·)) e
    simp only [List.map_map] at this
    have id' : ((fun x : Int => -x) ∘ fun x => -x) = id := by funext x; simp
    rw [id', List.map_id, List.map_id] at this
    exact this

theorem sumOver_neg_unit (D : Nat) (g : List Int → Nat) :
    sumOver (unitShifts D) g = sumOver (unitShifts D) (fun K => g (K.map (- ·))) := by
  rw [← sumOver_perm _ _ g (neg_unitShifts_perm D), sumOver_map]
  rfl

theorem all_natAbs_neg (v : List Int) : (v.map (- ·)).all (fun o => decide (o.natAbs ≤ 1)) = v.all (fun o => decide (o.natAbs ≤ 1)) := by
  rw [List.all_map]
  congr 1
  funext x
  simp

theorem all_zero_neg (v : List Int) : (v.map (- ·)).all (· == 0) = v.all (· == 0) := by
  rw [List.all_map]
  congr 1
  funext x
  by_cases h : x = 0
  · simp [h]
  · have : ¬ -x = 0 := by omega
    have e1 : (x == 0) = false := by simpa using h
    have e2 : (-x == 0) = false := by simpa using this
    show (-x == 0) = (x == 0)
    rw [e1, e2]

theorem sumOver_not_single {α} [DecidableEq α] (xs : List α) (hn : xs.Nodup) (x0 : α) :
    sumOver xs (fun x => if x = x0 then 0 else 1) + (if x0 ∈ xs then 1 else 0) = xs.length := by
  induction xs with
  | nil => simp [sumOver]
  | cons x xs ih =>
    rw [List.nodup_cons] at hn
    rw [sumOver_cons, List.length_cons]
    have ih' := ih hn.2
    by_cases h : x = x0
    · subst h
      have : ¬ x ∈ xs := hn.1
      simp only [if_true, List.mem_cons, true_or, this, if_false] at ih' ⊢
      omega
    · have h' : ¬ x0 = x := fun e => h e.symm
      simp only [h, if_false, List.mem_cons, h', false_or] at ih' ⊢
      omega

theorem scalar_img (x y kk P : Int) (hx : 0 ≤ x ∧ x < P) (hy : 0 ≤ y ∧ y < P) (hk : -1 ≤ kk ∧ kk ≤ 1)
    (e : x + kk * P = y) : kk = 0 ∧ x = y := by
  have hk3 : kk = -1 ∨ kk = 0 ∨ kk = 1 := by omega
  rcases hk3 with h3 | h3 | h3
  · rw [h3] at e; omega
  · rw [h3] at e; exact ⟨h3, by omega⟩
  · rw [h3] at e; omega

section
variable (D L : Nat) (a b : Nat) (ha : a < 2^(D*L)) (hb : b < 2^(D*L))

/-- per image: not adjacent, or adjacent and served by the direct pass in exactly one orientation, or the leaf itself -/
theorem image_once (k : List Int) (hk : k.length = D) :
    (if adjV (toI (decode D L a)) (vadd (toI (decode D L b)) k) then 0 else 1) +
      (if perP2PTest D L a b k then 1 else 0) + (if perP2PTest D L b a (k.map (- ·)) then 1 else 0) =
      if vadd (toI (decode D L b)) k = toI (decode D L a) then 0 else 1 := by
  have hl1 : (vadd (toI (decode D L b)) k).length = (toI (decode D L a)).length := by simp [vadd, toI, hk]
  have hneg : vsub (vadd (toI (decode D L a)) (k.map (- ·))) (toI (decode D L b)) =
      (vsub (vadd (toI (decode D L b)) k) (toI (decode D L a))).map (- ·) := by
    apply List.ext_getElem (by simp [vsub, vadd, toI, hk])
    intro i h1 h2
    simp only [vsub, vadd, List.getElem_zipWith, List.getElem_map]
    omega
  have hallEq : (vsub (vadd (toI (decode D L b)) k) (toI (decode D L a))).all (fun o => decide (o.natAbs ≤ 1)) =
      adjV (toI (decode D L a)) (vadd (toI (decode D L b)) k) := (adjV_eq_all _ _ hl1.symm).symm
  by_cases heq : vadd (toI (decode D L b)) k = toI (decode D L a)
  · rw [if_pos heq]
    have hz : (vsub (vadd (toI (decode D L b)) k) (toI (decode D L a))).all (· == 0) = true := (vsub_all_zero _ _ hl1).2 heq
    have hadj : adjV (toI (decode D L a)) (vadd (toI (decode D L b)) k) = true := by
      rw [← hallEq, all_iff_get]
      rw [all_iff_get] at hz
      intro i hi
      have := hz i hi
      simp only [beq_iff_eq] at this
      simp [this]
    have t1 : perP2PTest D L a b k = false := by
      unfold perP2PTest; rw [hz]; simp
    have t2 : perP2PTest D L b a (k.map (- ·)) = false := by
      unfold perP2PTest; rw [hneg, all_zero_neg, hz]; simp
    simp [hadj, t1, t2]
  · rw [if_neg heq]
    by_cases hadj : adjV (toI (decode D L a)) (vadd (toI (decode D L b)) k) = true
    · have once := C10_periodic_near_once D L a b k hk hadj heq
      by_cases t1 : perP2PTest D L a b k = true
      · have t2 := once.1 t1
        simp [hadj, t1, t2]
      · have t2 : perP2PTest D L b a (k.map (- ·)) = true := by
          cases h : perP2PTest D L b a (k.map (- ·))
          · exact absurd (once.2 h) t1
          · rfl
        simp [hadj, t1, t2]
    · have hadj' : adjV (toI (decode D L a)) (vadd (toI (decode D L b)) k) = false := by
        cases h : adjV (toI (decode D L a)) (vadd (toI (decode D L b)) k)
        · rfl
        · exact absurd h hadj
      have t1 : perP2PTest D L a b k = false := by
        unfold perP2PTest; rw [hallEq, hadj']; simp
      have t2 : perP2PTest D L b a (k.map (- ·)) = false := by
        unfold perP2PTest; rw [hneg, all_natAbs_neg, hallEq, hadj']; simp
      simp [hadj', t1, t2]

include ha hb

/-- the image of `b` shifted by `K` boxes coincides with `a` only for `K = 0` and `a = b` -/
theorem image_eq_iff (K : List Int) (hK : K ∈ unitShifts D) :
    vadd (toI (decode D L b)) (K.map (· * (2:Int)^L)) = toI (decode D L a) ↔ (K = List.replicate D 0 ∧ a = b) := by
  obtain ⟨hKl, hKr⟩ := (mem_unitShifts D K).1 hK
  constructor
  · intro h
    have hi : ∀ i (h1 : i < D), K[i]'(by omega) = 0 ∧ (toI (decode D L b))[i]'(by simp [toI]; omega) = (toI (decode D L a))[i]'(by simp [toI]; omega) := by
      intro i h1
      have e := congrArg (fun l => l[i]?) h
      have hi1 : i < (vadd (toI (decode D L b)) (K.map (· * (2:Int)^L))).length := by simp [vadd, toI, hKl]; omega
      have hi2 : i < (toI (decode D L a)).length := by simp [toI]; omega
      simp only [List.getElem?_eq_getElem hi1, List.getElem?_eq_getElem hi2] at e
      have e' := Option.some.inj e
      simp only [vadd, List.getElem_zipWith, List.getElem_map] at e'
      have b1 := toI_decode_bounds D L b i (by simp [toI]; omega)
      have b2 := toI_decode_bounds D L a i hi2
      have kr := hKr (K[i]'(by omega)) (List.getElem_mem _)
      exact scalar_img _ _ _ _ b1 b2 kr e'
    constructor
    · apply List.ext_getElem (by simp [hKl])
      intro i h1 h2
      simp only [List.getElem_replicate]
      exact (hi i (by omega)).1
    · have : toI (decode D L b) = toI (decode D L a) := by
        apply List.ext_getElem (by simp [toI])
        intro i h1 h2
        exact (hi i (by simpa [toI] using h1)).2
      have hd := toI_inj _ _ this
      rw [← encode_decode D L a ha, ← encode_decode D L b hb, hd]
  · rintro ⟨rfl, rfl⟩
    apply List.ext_getElem (by simp [vadd, toI])
    intro i h1 h2
    simp [vadd]

/-- **the count**: all `3^D` images of `b` are distinct from `a`, except `b` itself when `a = b` -/
theorem image_count :
    sumOver (unitShifts D) (fun K => if vadd (toI (decode D L b)) (K.map (· * (2:Int)^L)) = toI (decode D L a) then 0 else 1) +
      (if a = b then 1 else 0) = 3^D := by
  have hz : List.replicate D (0:Int) ∈ unitShifts D := (mem_unitShifts D _).2 ⟨by simp, fun x hx => by
    have := List.eq_of_mem_replicate hx; omega⟩
  by_cases hab : a = b
  · have e : sumOver (unitShifts D) (fun K => if vadd (toI (decode D L b)) (K.map (· * (2:Int)^L)) = toI (decode D L a) then 0 else 1) =
        sumOver (unitShifts D) (fun K => if K = List.replicate D 0 then 0 else 1) := by
      apply sumOver_congr
      intro K hK
      have := image_eq_iff D L a b ha hb K hK
      by_cases h : K = List.replicate D 0
      · rw [if_pos (this.2 ⟨h, hab⟩), if_pos h]
      · rw [if_neg (fun e => h (this.1 e).1), if_neg h]
    have := sumOver_not_single (unitShifts D) (nodup_unitShifts D) (List.replicate D (0:Int))
    rw [if_pos hz, unitShifts_length] at this
    rw [e, if_pos hab]; exact this
  · have e : sumOver (unitShifts D) (fun K => if vadd (toI (decode D L b)) (K.map (· * (2:Int)^L)) = toI (decode D L a) then 0 else 1) =
        sumOver (unitShifts D) (fun _ => 1) := by
      apply sumOver_congr
      intro K hK
      have := image_eq_iff D L a b ha hb K hK
      rw [if_neg (fun e => hab (this.1 e).2)]
    have len : sumOver (unitShifts D) (fun _ => 1) = (unitShifts D).length := by
      generalize unitShifts D = xs
      induction xs with
      | nil => rfl
      | cons x xs ih => rw [sumOver_cons, ih, List.length_cons]; omega
    rw [e, len, unitShifts_length, if_neg hab]; omega

end

end Tbfmm
