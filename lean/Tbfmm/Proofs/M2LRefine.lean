import Tbfmm.Proofs.R2
/-!
The M2L pass of one level, as executed group by group (`m2lLevel`), performs — as a multiset — exactly
the per-cell interaction-list entries whose source cell exists at that level: nothing lost by the
internal/external split, the sort-and-slice mapping or the run batching, nothing duplicated.
-/
namespace Tbfmm

def elemM2L (level : Nat) (x : Inter) : Elem := Elem.m2l level x.tgt x.src x.code

theorem srcFirst_le_trans (a b c : Inter) : (!srcFirst b a) = true → (!srcFirst c b) = true → (!srcFirst c a) = true := by
  simp only [srcFirst, Bool.not_eq_true', Bool.or_eq_false_iff, Bool.and_eq_false_iff, decide_eq_false_iff_not, beq_eq_false_iff_ne, ne_eq]
  intro ⟨h1, h2⟩ ⟨h3, h4⟩
  constructor
  · omega
  · rcases h2 with h2 | h2 <;> rcases h4 with h4 | h4
    · left; omega
    · by_cases e : c.src = a.src
      · right; omega
      · left; exact e
    · by_cases e : c.src = a.src
      · right; omega
      · left; exact e
    · by_cases e : c.src = a.src
      · right; omega
      · left; exact e

theorem sortInter_sorted (xs : List Inter) : (sortInter xs).Pairwise (fun a b => a.src ≤ b.src) := by
  have := List.pairwise_mergeSort (le := fun (a b : Inter) => !srcFirst b a)
    (fun a b c => srcFirst_le_trans a b c)
    (by intro a b
        simp only [srcFirst, Bool.or_eq_true, Bool.not_eq_true', Bool.or_eq_false_iff, Bool.and_eq_false_iff, decide_eq_false_iff_not,
          beq_eq_false_iff_ne, ne_eq]
        by_cases h1 : a.src < b.src
        · left; exact ⟨by omega, Or.inl (by omega)⟩
        · by_cases h2 : b.src < a.src
          · right; exact ⟨by omega, Or.inl (by omega)⟩
          · have e : a.src = b.src := by omega
            by_cases h3 : a.tgt < b.tgt
            · left; exact ⟨by omega, Or.inr (by omega)⟩
            · right; exact ⟨by omega, Or.inr (by omega)⟩) xs
  apply this.imp
  intro a b h
  simp only [srcFirst, Bool.not_eq_true', Bool.or_eq_false_iff, decide_eq_false_iff_not] at h
  omega

theorem sortInter_perm (xs : List Inter) : (sortInter xs).Perm xs := List.mergeSort_perm _ _

/-- `TbfMapIndexesAndBlocks` + the existence filter of the wrappers keep exactly the entries whose
    source exists in some group (as a multiset) -/
theorem mapIndexesAndBlocks_filter (gs : List Group) (inv : GroupsInv gs) (xs : List Inter) :
    ((mapIndexesAndBlocks gs xs).flatMap fun p => p.2.filter fun x => (gs.getD p.1 []).contains x.src).Perm (xs.filter (presentFrom gs 0)) := by
  unfold mapIndexesAndBlocks
  by_cases h : (xs.isEmpty || gs.isEmpty) = true
  · simp only [h, if_true, List.flatMap_nil]
    rcases Bool.or_eq_true _ _ |>.mp h with h1 | h1
    · have : xs = [] := by simpa using h1
      subst this; simp
    · have : gs = [] := by simpa using h1
      subst this
      have : xs.filter (presentFrom [] 0) = [] := by
        apply List.filter_eq_nil_iff.mpr; intro x _; simp [presentFrom]
      rw [this]
  · simp only [h, Bool.false_eq_true, if_false]
    rw [mapIdx_filter gs inv _ (sortInter xs) 0 (by simp) (sortInter_sorted xs)]
    exact (sortInter_perm xs).filter _

/-- the internal / external split of a group's list loses nothing that exists: for a group `g = gs[i]`,
    `ext.filter present ++ inn` is a permutation of `all.filter present` -/
theorem splitInOut_present (gs : List Group) (inv : GroupsInv gs) (i : Nat) (hi : i < gs.length) (all : List Inter) :
    (((splitInOut (gs.getD i []) true all).2.filter (presentFrom gs 0)) ++ (splitInOut (gs.getD i []) true all).1).Perm (all.filter (presentFrom gs 0)) := by
  have hgne := inv.getD_ne i hi
  have hgs := inv.getD_sorted i hi
  simp only [splitInOut, Bool.not_true, Bool.false_or]
  -- inside the range of the group, present anywhere ⟺ present in the group
  have key : ∀ x : Inter, (firstOf (gs.getD i []) ≤ x.src ∧ x.src ≤ lastOf (gs.getD i [])) →
      (presentFrom gs 0 x = (gs.getD i []).contains x.src) := by
    intro x ⟨h1, h2⟩
    cases hc : (gs.getD i []).contains x.src with
    | true => exact (presentFrom_iff gs 0 x).mpr ⟨i, by omega, hi, by simpa using hc⟩
    | false =>
      cases hp : presentFrom gs 0 x with
      | false => rfl
      | true =>
        exfalso
        obtain ⟨k, _, hk, hx⟩ := (presentFrom_iff gs 0 x).mp hp
        rcases Nat.lt_trichotomy k i with h | h | h
        · have := inv.cross k i h hi _ _ hx (firstOf_mem _ hgne); omega
        · subst h
          have := List.contains_iff_mem.mpr hx
          rw [this] at hc; exact absurd hc (by simp)
        · have := inv.cross i k h hk _ _ (lastOf_mem _ hgne) hx; omega
  induction all with
  | nil => simp
  | cons x all ih =>
    simp only [List.filter_cons]
    by_cases hr : (decide (firstOf (gs.getD i []) ≤ x.src) && decide (x.src ≤ lastOf (gs.getD i []))) = true
    · have hr' : firstOf (gs.getD i []) ≤ x.src ∧ x.src ≤ lastOf (gs.getD i []) := by simpa using hr
      rw [key x hr']
      simp only [hr, Bool.not_true, Bool.false_eq_true, if_false, Bool.true_and]
      by_cases hc : (gs.getD i []).contains x.src = true
      · simp only [hc, if_true]
        exact (List.perm_middle).trans (List.Perm.cons x ih)
      · simp only [hc, Bool.false_eq_true, if_false]
        exact ih
    · simp only [hr, Bool.not_false, if_true, Bool.false_and, Bool.false_eq_true, if_false, List.filter_cons]
      by_cases hp : presentFrom gs 0 x = true
      · simp only [hp, if_true, List.cons_append]
        exact List.Perm.cons x ih
      · simp only [hp, Bool.false_eq_true, if_false]
        exact ih

theorem between_elems (level : Nat) (gs : List Group) (ps : List (Nat × List Inter)) :
    (ps.flatMap fun (p : Nat × List Inter) => m2lBetween level (gs.getD p.1 []) p.2).flatMap elemsOfCall =
      (ps.flatMap fun p => p.2.filter fun x => (gs.getD p.1 []).contains x.src).map (elemM2L level) := by
  induction ps with
  | nil => rfl
  | cons p ps ih =>
    simp only [List.flatMap_cons, List.flatMap_append, List.map_append, ih, m2lBetween_elems]
    rfl

/-- elementary interactions of the M2L work done for one target group -/
theorem m2l_group_elems (D : Nat) (periodic : Bool) (level : Nat) (gs : List Group) (inv : GroupsInv gs) (i : Nat) (hi : i < gs.length) :
    ((((mapIndexesAndBlocks gs (ilistBlock D periodic level (gs.getD i [])).2).flatMap fun (p : Nat × List Inter) => m2lBetween level (gs.getD p.1 []) p.2) ++
        m2lInGroup level (ilistBlock D periodic level (gs.getD i [])).1).flatMap elemsOfCall).Perm
      (((((gs.getD i []).zipIdx).flatMap fun (c, k) => ilistCell D periodic level c k).filter (presentFrom gs 0)).map (elemM2L level)) := by
  rw [List.flatMap_append, m2lInGroup_elems, between_elems]
  have p1 := (mapIndexesAndBlocks_filter gs inv (ilistBlock D periodic level (gs.getD i [])).2).map (elemM2L level)
  have p2 := (splitInOut_present gs inv i hi (((gs.getD i []).zipIdx).flatMap fun (c, k) => ilistCell D periodic level c k)).map (elemM2L level)
  simp only [List.map_append] at p2
  exact (List.Perm.append_right _ p1).trans p2

/-- **M2L pass of one level**: as a multiset, the elementary interactions performed are exactly the
    per-cell list entries whose source cell exists at the level — for any grouping -/
theorem m2lLevel_elems (D : Nat) (periodic : Bool) (level : Nat) (gs : List Group) (inv : GroupsInv gs) :
    ((m2lLevel D periodic level gs).flatMap elemsOfCall).Perm
      ((gs.flatMap fun g => ((g.zipIdx).flatMap fun (c, k) => ilistCell D periodic level c k).filter (presentFrom gs 0)).map (elemM2L level)) := by
  unfold m2lLevel
  -- work on the list of group positions to keep `g = gs[i]`
  have hgs : gs = (List.range gs.length).map fun i => gs.getD i [] := by
    apply List.ext_getElem (by simp)
    intro k h1 h2
    simp [List.getD_eq_getElem?_getD, List.getElem?_eq_getElem h1]
  have gen : ∀ (idx : List Nat), (∀ i ∈ idx, i < gs.length) →
      (((idx.map fun i => gs.getD i []).flatMap fun g =>
          let (inn, ext) := ilistBlock D periodic level g
          ((mapIndexesAndBlocks gs ext).flatMap fun (p : Nat × List Inter) => m2lBetween level (gs.getD p.1 []) p.2) ++ m2lInGroup level inn).flatMap elemsOfCall).Perm
        (((idx.map fun i => gs.getD i []).flatMap fun g => ((g.zipIdx).flatMap fun (c, k) => ilistCell D periodic level c k).filter (presentFrom gs 0)).map (elemM2L level)) := by
    intro idx
    induction idx with
    | nil => intro _; simp
    | cons i idx ih =>
      intro hidx
      simp only [List.map_cons, List.flatMap_cons, List.flatMap_append, List.map_append]
      have h1 := m2l_group_elems D periodic level gs inv i (hidx i (by simp))
      rw [List.flatMap_append] at h1
      exact List.Perm.append h1 (ih (fun j hj => hidx j (by simp [hj])))
  have := gen (List.range gs.length) (fun i hi => by simpa using hi)
  rw [← hgs] at this
  exact this

end Tbfmm
