import Tbfmm.Proofs.Linear
import Tbfmm.Proofs.ValuesTsm
/-!
The value theorems for an arbitrary weight function (in particular the packed weights the driver uses):
after a full execution every particle's result is the sum of the weights of all the other particles.
-/
namespace Tbfmm

theorem lin3_empty (a b : Nat) : Lin3 a b ({} : State) {} {} := by
  refine ⟨?_, ?_, ?_⟩
  · intro l i; simp [empty_m]
  · intro l i; simp [empty_l]
  · intro p; simp [empty_r]

def restrictW (N : Nat) (w : Nat → Nat) : Nat → Nat := fun p => if p < N then w p else 0

/-- decomposition of the result for a weight supported on `0 … n-1` into indicator runs -/
theorem result_decomp (L : Nat) (po po' : Nat → List Nat) (cs : List Call) (w : Nat → Nat) (p n : Nat) :
    (applyCalls (restrictW n w) L po po' {} cs).r p =
      sumOver (List.range n) (fun q => w q * (applyCalls (wq q) L po po' {} cs).r p) := by
  induction n with
  | zero =>
    have h := applyCalls_lin (fun _ => True) L po po' (restrictW 0 w) (wq 0) (wq 0) 0 0
      (by intro q _; simp [restrictW]) (fun _ _ _ => trivial) (fun _ _ _ => trivial) cs
      (by intro c _; cases c <;> simp [callOk]) {} {} {} (lin3_empty 0 0)
    rw [h.r]; simp [sumOver]
  | succ n ih =>
    have h := applyCalls_lin (fun _ => True) L po po' (restrictW (n+1) w) (restrictW n w) (wq n) 1 (w n)
      (by
        intro q _
        simp only [restrictW, wq]
        by_cases h1 : q < n
        · have : q ≠ n := by omega
          simp [h1, this]; omega
        · by_cases h2 : q = n
          · subst h2; simp
          · have : ¬ q < n + 1 := by omega
            simp [h1, h2, this])
      (fun _ _ _ => trivial) (fun _ _ _ => trivial) cs
      (by intro c _; cases c <;> simp [callOk]) {} {} {} (lin3_empty 1 (w n))
    rw [h.r, ih, List.range_succ]
    simp only [sumOver, List.map_append, List.sum_append_nat, List.map_cons, List.map_nil, List.sum_cons, List.sum_nil]
    omega

/-- a weight function may be replaced by its restriction to the particles that occur -/
theorem result_restrict (L : Nat) (po po' : Nat → List Nat) (cs : List Call) (w : Nat → Nat) (N : Nat)
    (hpo : ∀ i, ∀ p ∈ po i, p < N) (hpo' : ∀ i, ∀ p ∈ po' i, p < N) (hcs : ∀ c ∈ cs, callOk (· < N) c) (p : Nat) :
    (applyCalls w L po po' {} cs).r p = (applyCalls (restrictW N w) L po po' {} cs).r p := by
  have h := applyCalls_lin (· < N) L po po' w (restrictW N w) (restrictW N w) 1 0
    (by intro q hq; simp [restrictW, hq]) hpo hpo' cs hcs {} {} {} (lin3_empty 1 0)
  rw [h.r]; simp

theorem ins_fold_sub (xs : List Leaf) (m : Std.HashMap Nat (List Nat)) (k p : Nat) (h : p ∈ (xs.foldl insLeaf m).getD k []) :
    p ∈ m.getD k [] ∨ ∃ lf ∈ xs, p ∈ lf.parts := by
  induction xs generalizing m with
  | nil => left; exact h
  | cons x xs ih =>
    simp only [List.foldl_cons] at h
    rcases ih _ h with h1 | ⟨lf, hl, hp⟩
    · unfold insLeaf at h1
      rw [Std.HashMap.getD_insert] at h1
      split at h1
      · right; exact ⟨x, by simp, h1⟩
      · left; exact h1
    · right; exact ⟨lf, by simp [hl], hp⟩

theorem partsOf_sub (t : Tree) (i p : Nat) (h : p ∈ t.partsOf i) : ∃ lf ∈ t.pgroups.flatten, p ∈ lf.parts := by
  unfold Tree.partsOf at h
  have e : (t.pgroups.foldl (fun m g => g.foldl (fun m l => m.insert l.idx l.parts) m) ({} : Std.HashMap Nat (List Nat))) =
      t.pgroups.flatten.foldl insLeaf {} := by
    rw [List.foldl_flatten]; rfl
  rw [e] at h
  rcases ins_fold_sub _ _ i p h with h1 | h1
  · simp at h1
  · exact h1

/-- the particle ids mentioned by the calls of an execution, and by the particle lookup, are `< N` -/
theorem executeSeq_ids (D H bs : Nat) (mode : Bool) (leafIdx : List Nat) (periodic : Bool) (upper : Nat) (hbs : 0 < bs) :
    (∀ i, ∀ x ∈ (Tree.build D H bs mode leafIdx).partsOf i, x < leafIdx.length) ∧
    (∀ c ∈ executeSeq (Tree.build D H bs mode leafIdx) periodic 63 upper, callOk (· < leafIdx.length) c) := by
  have hperm := C13_indices_perm D H bs mode leafIdx hbs
  have hids : ∀ lf ∈ (Tree.build D H bs mode leafIdx).pgroups.flatten, ∀ x ∈ lf.parts, x < leafIdx.length := by
    intro lf hl x hx
    have : x ∈ (Tree.build D H bs mode leafIdx).stored.map (·.2) := by
      rw [stored_parts]; exact List.mem_flatMap.2 ⟨lf, hl, hx⟩
    exact List.mem_range.1 (hperm.subset this)
  have hpo : ∀ i, ∀ x ∈ (Tree.build D H bs mode leafIdx).partsOf i, x < leafIdx.length := by
    intro i x hx
    obtain ⟨lf, hl, hm⟩ := partsOf_sub _ i x hx
    exact hids lf hl x hm
  have hcs : ∀ c ∈ executeSeq (Tree.build D H bs mode leafIdx) periodic 63 upper, callOk (· < leafIdx.length) c := by
    intro c hc
    cases c with
    | p2m leaf parts =>
      simp only [executeSeq, List.mem_append] at hc
      simp only [callOk]
      have : Call.p2m leaf parts ∈ p2mAll (Tree.build D H bs mode leafIdx) upper := by
        rcases hc with ((((hc | hc) | hc) | hc) | hc) | hc
        · split at hc
          · exact hc
          · simp at hc
        · split at hc
          · simp only [m2mAll, List.mem_flatMap] at hc
            obtain ⟨l, _, hc⟩ := hc
            obtain ⟨_, _, e⟩ := m2mLevel_form _ l _ _ _ hc
            exact Call.noConfusion e
          · simp at hc
        · split at hc
          · simp only [m2lAll, List.mem_flatMap] at hc
            obtain ⟨l, _, hc⟩ := hc
            obtain ⟨_, _, _, e⟩ := m2lLevel_form _ _ l _ _ hc
            exact Call.noConfusion e
          · simp at hc
        · split at hc
          · simp only [l2lAll, List.mem_flatMap] at hc
            obtain ⟨l, _, hc⟩ := hc
            obtain ⟨_, _, e⟩ := l2lLevel_form _ l _ _ _ hc
            exact Call.noConfusion e
          · simp at hc
        · split at hc
          · simp only [l2pAll] at hc
            split at hc
            · simp only [List.mem_flatMap, List.mem_map] at hc
              obtain ⟨g, _, l, _, e⟩ := hc
              exact Call.noConfusion e
            · simp at hc
          · simp at hc
        · split at hc
          · have := p2pAll_form _ periodic _ (fun _ => []) _ _ hc
            exact absurd this (by simp [isResultCall])
          · simp at hc
      simp only [p2mAll] at this
      split at this
      · simp only [List.mem_flatMap, List.mem_map] at this
        obtain ⟨g, hg, l, hl, e⟩ := this
        injection e with e1 e2
        subst e2
        exact hids l (List.mem_flatten.2 ⟨g, hg, hl⟩)
      · simp at this
    | l2p leaf parts =>
      simp only [executeSeq, List.mem_append] at hc
      simp only [callOk]
      have : Call.l2p leaf parts ∈ l2pAll (Tree.build D H bs mode leafIdx) upper := by
        rcases hc with ((((hc | hc) | hc) | hc) | hc) | hc
        · split at hc
          · simp only [p2mAll] at hc
            split at hc
            · simp only [List.mem_flatMap, List.mem_map] at hc
              obtain ⟨g, _, l, _, e⟩ := hc
              exact Call.noConfusion e
            · simp at hc
          · simp at hc
        · split at hc
          · simp only [m2mAll, List.mem_flatMap] at hc
            obtain ⟨l, _, hc⟩ := hc
            obtain ⟨_, _, e⟩ := m2mLevel_form _ l _ _ _ hc
            exact Call.noConfusion e
          · simp at hc
        · split at hc
          · simp only [m2lAll, List.mem_flatMap] at hc
            obtain ⟨l, _, hc⟩ := hc
            obtain ⟨_, _, _, e⟩ := m2lLevel_form _ _ l _ _ hc
            exact Call.noConfusion e
          · simp at hc
        · split at hc
          · simp only [l2lAll, List.mem_flatMap] at hc
            obtain ⟨l, _, hc⟩ := hc
            obtain ⟨_, _, e⟩ := l2lLevel_form _ l _ _ _ hc
            exact Call.noConfusion e
          · simp at hc
        · split at hc
          · exact hc
          · simp at hc
        · split at hc
          · have := p2pAll_form _ periodic _ (fun i => if i = leaf then parts else []) _ _ hc
            simp only [isResultCall] at this
            -- a P2P-phase call is never an L2P call
            exfalso
            unfold p2pAll at hc
            simp only [List.mem_flatMap, List.mem_append, List.mem_map, List.mem_filterMap] at hc
            obtain ⟨g, _, hc⟩ := hc
            rcases hc with (⟨pp, _, x, _, hx⟩ | ⟨x, _, e⟩) | ⟨l, _, e⟩
            · split at hx
              · injection hx with hx; exact Call.noConfusion hx
              · simp at hx
            · exact Call.noConfusion e
            · exact Call.noConfusion e
          · simp at hc
      simp only [l2pAll] at this
      split at this
      · simp only [List.mem_flatMap, List.mem_map] at this
        obtain ⟨g, hg, l, hl, e⟩ := this
        injection e with e1 e2
        subst e2
        exact hids l (List.mem_flatten.2 ⟨g, hg, hl⟩)
      · simp at this
    | m2m _ _ _ => trivial
    | m2l _ _ _ => trivial
    | l2l _ _ _ => trivial
    | p2p _ _ _ => trivial
    | p2pTsm _ _ _ => trivial
    | p2pInner _ => trivial
  exact ⟨hpo, hcs⟩

/-- **C01, any weights**: every particle's result is the sum of the weights of all the other particles -/
theorem C01_values_weighted (D H bs : Nat) (mode : Bool) (leafIdx : List Nat) (upper : Nat)
    (hbs : 0 < bs) (hne : leafIdx ≠ []) (hH : 1 ≤ H) (hlt : ∀ i ∈ leafIdx, i < 2^(D*(H-1))) (hu : upper ≤ 2)
    (w : Nat → Nat) (p : Nat) (hp : p < leafIdx.length) :
    (applyCalls w (H-1) (Tree.build D H bs mode leafIdx).partsOf (Tree.build D H bs mode leafIdx).partsOf {}
      (executeSeq (Tree.build D H bs mode leafIdx) false 63 upper)).r p =
      sumOver (List.range leafIdx.length) (fun q => if p = q then 0 else w q) := by
  obtain ⟨hpo, hcs⟩ := executeSeq_ids D H bs mode leafIdx false upper hbs
  rw [result_restrict (H-1) _ _ _ w leafIdx.length hpo hpo hcs p, result_decomp]
  apply sumOver_congr
  intro q hq
  rw [C01_values D H bs mode leafIdx upper hbs hne hH hlt hu p q hp (List.mem_range.1 hq)]
  split <;> simp

end Tbfmm
