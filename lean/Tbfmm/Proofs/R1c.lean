import Tbfmm.Proofs.R1b
/-! R1, part c: the wrapper (start computation) and the level walk -/
namespace Tbfmm

variable (par : Nat → Nat)

theorem lastD_eq_getLast (l : List Nat) (h : l ≠ []) : lastD l = l.getLast h := by
  induction l with
  | nil => exact absurd rfl h
  | cons a l ih =>
    cases l with
    | nil => simp [lastD]
    | cons b l => simp only [lastD]; rw [ih (by simp)]; simp

theorem lastD_append (xs ys : List Nat) (h : ys ≠ []) : lastD (xs ++ ys) = lastD ys := by
  rw [lastD_eq_getLast _ (by simp [h]), lastD_eq_getLast _ h, List.getLast_append_of_ne_nil (by simp [h]) h]

theorem dropWhile_append_of_all {α} (p : α → Bool) (xs ys : List α) (h : ∀ x ∈ xs, p x = true) :
    (xs ++ ys).dropWhile p = ys.dropWhile p := by
  induction xs with
  | nil => rfl
  | cons x xs ih =>
    simp only [List.cons_append, List.dropWhile_cons, h x (by simp), if_true]
    exact ih (fun y hy => h y (by simp [hy]))

/-- H1: under the state invariant the two lookups land on the unprocessed suffixes -/
theorem wrapPure_eq (Pd K : List Nat) (p : Nat) (ps : List Nat) (c : Nat) (cs : List Nat)
    (hfresh : Pd = [] ∨ K = [])
    (hPd : ∀ x ∈ Pd, x < p) (hKd : ∀ k ∈ K, par k < p) (hc : par c = p) :
    wrapPure par (K ++ c :: cs) (Pd ++ p :: ps) = sib2 par (p :: ps) [c] cs := by
  have hstart : ∀ c0 u0, (K ++ c :: cs).head? = some c0 → (Pd ++ p :: ps).head? = some u0 →
      max (par c0) u0 = p := by
    intro c0 u0 h1 h2
    rcases hfresh with h | h
    · subst h
      simp at h2; subst h2
      cases K with
      | nil => simp at h1; subst h1; simp [hc]
      | cons k K' =>
        simp at h1; subst h1
        have := hKd k (by simp)
        omega
    · subst h
      simp at h1; subst h1
      cases Pd with
      | nil => simp at h2; subst h2; simp [hc]
      | cons x Pd' =>
        simp at h2; subst h2
        have := hPd x (by simp)
        rw [hc]; omega
  -- unfold on the shapes
  have hL : ∃ c0 l, K ++ c :: cs = c0 :: l := by
    cases K with
    | nil => exact ⟨c, cs, rfl⟩
    | cons k K' => exact ⟨k, K' ++ c :: cs, rfl⟩
  have hU : ∃ u0 l, Pd ++ p :: ps = u0 :: l := by
    cases Pd with
    | nil => exact ⟨p, ps, rfl⟩
    | cons x Pd' => exact ⟨x, Pd' ++ p :: ps, rfl⟩
  obtain ⟨c0, lL, hL⟩ := hL
  obtain ⟨u0, lU, hU⟩ := hU
  have hs := hstart c0 u0 (by rw [hL]; rfl) (by rw [hU]; rfl)
  have hdU : (Pd ++ p :: ps).dropWhile (fun u => decide (u < p)) = p :: ps := by
    rw [dropWhile_append_of_all _ _ _ (fun x hx => by simpa using hPd x hx)]
    simp
  have hdL : (K ++ c :: cs).dropWhile (fun c' => decide (par c' < p)) = c :: cs := by
    rw [dropWhile_append_of_all _ _ _ (fun x hx => by simpa using hKd x hx)]
    simp [hc]
  unfold wrapPure
  rw [hL, hU] at *
  simp only [hs]
  rw [hdU, hdL]

end Tbfmm
