import Tbfmm.Spec.Fmm
import Tbfmm.Proofs.Morton
/-!
Index-wise characterisations of the vector helpers used by the list builders (`odometer`, `adjV`,
`all`), so that every vector statement reduces to a scalar statement per dimension.
-/
namespace Tbfmm

/-- index-wise: every component within its range -/
def InRanges (rs : List (Int × Int)) (v : List Int) : Prop :=
  v.length = rs.length ∧ ∀ i (h1 : i < rs.length) (h2 : i < v.length), rs[i].1 ≤ v[i] ∧ v[i] ≤ rs[i].2

theorem inRanges_nil (v : List Int) : InRanges [] v ↔ v = [] := by
  unfold InRanges
  constructor
  · rintro ⟨h, _⟩; exact List.eq_nil_of_length_eq_zero h
  · rintro rfl; exact ⟨rfl, fun i h => absurd h (Nat.not_lt_zero _)⟩

theorem inRanges_cons (r : Int × Int) (rs : List (Int × Int)) (v : List Int) :
    InRanges (r :: rs) v ↔ ∃ x t, v = x :: t ∧ r.1 ≤ x ∧ x ≤ r.2 ∧ InRanges rs t := by
  unfold InRanges
  constructor
  · rintro ⟨hl, h⟩
    match v, hl, h with
    | x :: t, hl, h =>
      refine ⟨x, t, rfl, (h 0 (by simp) (by simp)).1, (h 0 (by simp) (by simp)).2, by simpa using hl, ?_⟩
      intro i h1 h2
      exact h (i+1) (by simp; omega) (by simp; omega)
  · rintro ⟨x, t, rfl, a, b, hl, h⟩
    refine ⟨by simp [hl], ?_⟩
    intro i h1 h2
    match i with
    | 0 => exact ⟨a, b⟩
    | i+1 => exact h i (by simpa using h1) (by simpa using h2)

theorem mem_odometer (rs : List (Int × Int)) (v : List Int) : v ∈ odometer rs ↔ InRanges rs v := by
  induction rs generalizing v with
  | nil => simp [odometer, inRanges_nil]
  | cons r rs ih =>
    obtain ⟨lo, hi⟩ := r
    rw [inRanges_cons]
    simp only [odometer, List.mem_flatMap, List.mem_range, List.mem_map]
    constructor
    · rintro ⟨k, hk, t, ht, rfl⟩
      exact ⟨lo + Int.ofNat k, t, rfl, by simp; omega, by simp; omega, (ih t).1 ht⟩
    · rintro ⟨x, t, rfl, a, b, ht⟩
      refine ⟨(x - lo).toNat, by omega, t, (ih t).2 ht, ?_⟩
      congr 1
      simp; omega

theorem nodup_odometer (rs : List (Int × Int)) : (odometer rs).Nodup := by
  induction rs with
  | nil => simp [odometer]
  | cons r rs ih =>
    obtain ⟨lo, hi⟩ := r
    simp only [odometer]
    rw [List.Nodup, List.pairwise_flatMap]
    constructor
    · intro k _
      rw [List.pairwise_map]
      exact ih.imp (fun h e => h (by injection e))
    · refine (List.nodup_range).imp ?_
      intro a b hab p hp q hq
      rw [List.mem_map] at hp hq
      obtain ⟨_, _, rfl⟩ := hp
      obtain ⟨_, _, rfl⟩ := hq
      intro e
      apply hab
      injection e with e1 _
      simp at e1; omega

theorem adjV_iff (a b : List Int) : adjV a b = true ↔ a.length = b.length ∧ ∀ i (h1 : i < a.length) (h2 : i < b.length), a[i] ≤ b[i] + 1 ∧ b[i] ≤ a[i] + 1 := by
  induction a generalizing b with
  | nil =>
    cases b with
    | nil => simp [adjV]
    | cons y ys => simp [adjV]
  | cons x xs ih =>
    cases b with
    | nil => simp [adjV]
    | cons y ys =>
      simp only [adjV, Bool.and_eq_true, ih, adj1, decide_eq_true_eq, List.length_cons]
      constructor
      · rintro ⟨⟨a1, a2⟩, hl, h⟩
        refine ⟨by omega, ?_⟩
        intro i h1 h2
        match i with
        | 0 => exact ⟨a1, a2⟩
        | i+1 => exact h i (by omega) (by omega)
      · rintro ⟨hl, h⟩
        refine ⟨h 0 (by omega) (by omega), by omega, ?_⟩
        intro i h1 h2
        exact h (i+1) (by omega) (by omega)

theorem all_iff_get (v : List Int) (p : Int → Bool) : v.all p = true ↔ ∀ i (h : i < v.length), p v[i] = true := by
  rw [List.all_eq_true]
  constructor
  · intro h i hi; exact h _ (List.getElem_mem hi)
  · intro h x hx
    obtain ⟨i, hi, rfl⟩ := List.mem_iff_getElem.1 hx
    exact h i hi

theorem toI_length (v : List Nat) : (toI v).length = v.length := by simp [toI]
theorem vadd_length (a b : List Int) : (vadd a b).length = min a.length b.length := by simp [vadd]
theorem vsub_length (a b : List Int) : (vsub a b).length = min a.length b.length := by simp [vsub]

theorem toI_get (v : List Nat) (i : Nat) (h : i < (toI v).length) : (toI v)[i] = Int.ofNat (v[i]'(by simpa [toI] using h)) := by
  simp [toI]
theorem vadd_get (a b : List Int) (i : Nat) (h : i < (vadd a b).length) :
    (vadd a b)[i] = a[i]'(by simp [vadd] at h; omega) + b[i]'(by simp [vadd] at h; omega) := by
  simp [vadd]
theorem vsub_get (a b : List Int) (i : Nat) (h : i < (vsub a b).length) :
    (vsub a b)[i] = a[i]'(by simp [vsub] at h; omega) - b[i]'(by simp [vsub] at h; omega) := by
  simp [vsub]

/-- `toI` of the `toNat`s of a non-negative vector is the vector -/
theorem toI_toNat (v : List Int) (h : ∀ i (hi : i < v.length), 0 ≤ v[i]) : toI (v.map Int.toNat) = v := by
  apply List.ext_getElem
  · simp [toI]
  · intro i h1 h2
    simp only [toI, List.getElem_map]
    have := h i h2
    simp only [Int.ofNat_eq_natCast]
    omega

end Tbfmm
