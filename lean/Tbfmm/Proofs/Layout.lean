import Tbfmm.Model.Layout
/-! Layout arithmetic of the group buffers (C14, and the in-bounds part of C15) -/
namespace Tbfmm

theorem leadDim_ge (s n : Nat) : s * n ≤ leadDim s n := by
  unfold leadDim memAlign; omega

theorem leadDim_mod (s n : Nat) : leadDim s n % 64 = 0 := by
  unfold leadDim memAlign; omega

theorem leadDim_lt (s n : Nat) : leadDim s n < s * n + 64 := by
  unfold leadDim memAlign; omega

/-- every element accessor stays inside its block: for item `i < n` (and `row < rows` for the
    multi-row kinds; a scalar block holds exactly one item) the bytes `[addr, addr + size)` lie in
    `[off, off + bytes)` -/
theorem itemAddr_in_block (b : BlockDef) (off n i row : Nat)
    (hi : match b.kind with
          | .scalar => n = 1
          | .vector => i < n
          | .multiR rows => i < n ∧ row < rows
          | .multiV rows => i < n ∧ row < rows) :
    off ≤ itemAddr b off n i row ∧ itemAddr b off n i row + b.size ≤ off + b.bytes n := by
  obtain ⟨kind, s⟩ := b
  cases kind with
  | scalar =>
    simp only at hi; subst hi
    have := leadDim_ge s 1
    simp only [itemAddr, BlockDef.bytes]; omega
  | vector =>
    simp only at hi
    have h1 := leadDim_ge s n
    have h2 : (i + 1) * s ≤ n * s := Nat.mul_le_mul_right s hi
    simp only [itemAddr, BlockDef.bytes]
    rw [Nat.mul_comm s n] at h1
    rw [Nat.add_mul] at h2
    omega
  | multiR rows =>
    simp only at hi
    obtain ⟨hi1, hr⟩ := hi
    have h1 := leadDim_ge s n
    have h2 : (i + 1) * s ≤ n * s := Nat.mul_le_mul_right s hi1
    have h3 : (row + 1) * leadDim s n ≤ rows * leadDim s n := Nat.mul_le_mul_right _ hr
    simp only [itemAddr, BlockDef.bytes]
    rw [Nat.mul_comm s n] at h1
    rw [Nat.add_mul] at h2 h3
    omega
  | multiV rows =>
    simp only at hi
    obtain ⟨hi1, hr⟩ := hi
    have h1 := leadDim_ge s rows
    have h2 : (row + 1) * s ≤ rows * s := Nat.mul_le_mul_right s hr
    have h3 : (i + 1) * leadDim s rows ≤ n * leadDim s rows := Nat.mul_le_mul_right _ hi1
    simp only [itemAddr, BlockDef.bytes]
    rw [Nat.mul_comm s rows] at h1
    rw [Nat.add_mul] at h2 h3
    omega

/-- two different items of one block do not overlap (vector kind; the multi-row kinds add a row offset
    that is a multiple of the row stride) -/
theorem vector_items_disjoint (s off i j : Nat) (h : i < j) :
    itemAddr ⟨.vector, s⟩ off 0 i 0 + s ≤ itemAddr ⟨.vector, s⟩ off 0 j 0 := by
  simp only [itemAddr]
  have : (i + 1) * s ≤ j * s := Nat.mul_le_mul_right s h
  rw [Nat.add_mul] at this; omega

/-- block offsets are non-decreasing and every block ends where the next one starts: the blocks of
    a buffer are pairwise disjoint and all lie below `blocksEnd` -/
theorem blockOffsets_chain (defs : List BlockDef) (ns : List Nat) (acc : Nat) (hl : defs.length = ns.length) :
    (blockOffsets defs ns acc).length = defs.length ∧
    (∀ k (hk : k < defs.length), ∃ o, (blockOffsets defs ns acc)[k]? = some o ∧ acc ≤ o ∧
        o + (defs[k]).bytes (ns.getD k 0) ≤ blocksEnd defs ns acc ∧
        (∀ o', (blockOffsets defs ns acc)[k+1]? = some o' → o + (defs[k]).bytes (ns.getD k 0) = o')) := by
  induction defs generalizing ns acc with
  | nil => simp [blockOffsets]
  | cons b bs ih =>
    cases ns with
    | nil => simp at hl
    | cons n ns =>
      have hl' : bs.length = ns.length := by simpa using hl
      obtain ⟨ihl, ihk⟩ := ih ns (acc + b.bytes n) hl'
      have hmono : ∀ (ds : List BlockDef) (ms : List Nat) (a : Nat), a ≤ blocksEnd ds ms a := by
        intro ds
        induction ds with
        | nil => intro ms a; simp [blocksEnd]
        | cons d ds ihd =>
          intro ms a
          cases ms with
          | nil => simp [blocksEnd]
          | cons m ms => simp only [blocksEnd]; exact Nat.le_trans (Nat.le_add_right _ _) (ihd ms _)
      refine ⟨by simp [blockOffsets, ihl], ?_⟩
      intro k hk
      cases k with
      | zero =>
        refine ⟨acc, by simp [blockOffsets], Nat.le_refl _, ?_, ?_⟩
        · simp only [List.getElem_cons_zero, List.getD_cons_zero, blocksEnd]
          exact hmono bs ns _
        · intro o' ho'
          simp only [blockOffsets, List.getElem?_cons_succ, Nat.zero_add] at ho'
          cases bs with
          | nil => simp [blockOffsets] at ho'
          | cons b2 bs2 =>
            cases ns with
            | nil => simp at hl'
            | cons n2 ns2 =>
              simp [blockOffsets] at ho'
              simp [ho']
      | succ k =>
        obtain ⟨o, h1, h2, h3, h4⟩ := ihk k (by simpa using hk)
        refine ⟨o, by simpa [blockOffsets] using h1, by omega, ?_, ?_⟩
        · simpa [blocksEnd] using h3
        · intro o' ho'
          have := h4 o' (by simpa [blockOffsets] using ho')
          simpa using this

/-- the trailer (two tables of `NbBlocks` longs at the end of the allocation) never overlaps a block,
    whatever the size of the (possibly reused, larger) allocation -/
theorem trailer_disjoint (defs : List BlockDef) (ns : List Nat) (alloc : Nat) (h : totalBytes defs ns ≤ alloc) :
    blocksEnd defs ns 0 ≤ trailerOffsetsPos alloc defs.length ∧
    trailerOffsetsPos alloc defs.length + 8 * defs.length = trailerCountsPos alloc defs.length ∧
    trailerCountsPos alloc defs.length + 8 * defs.length = alloc := by
  unfold totalBytes at h
  unfold trailerOffsetsPos trailerCountsPos
  omega

/-- a reused buffer is never smaller than what the new sizes need -/
theorem newAllocated_ge (allocated : Nat) (owns : Bool) (defs : List BlockDef) (ns : List Nat) :
    totalBytes defs ns ≤ newAllocated allocated owns defs ns := by
  unfold newAllocated
  split
  · exact Nat.le_refl _
  · rename_i h
    simp only [Bool.or_eq_true, decide_eq_true_eq, Bool.not_eq_true', not_or, Nat.not_lt] at h
    exact h.1

/-- element addresses are aligned to the element size when it divides the 64-byte alignment
    (block offsets are multiples of 64 because every block size is) -/
theorem vector_item_aligned (s off i : Nat) (hoff : off % 64 = 0) (hs : 64 % s = 0) (hs0 : 0 < s) :
    itemAddr ⟨.vector, s⟩ off 0 i 0 % s = 0 := by
  simp only [itemAddr]
  have h1 : off % s = 0 := by
    have : s ∣ 64 := Nat.dvd_of_mod_eq_zero hs
    have h64 : 64 ∣ off := Nat.dvd_of_mod_eq_zero hoff
    exact Nat.mod_eq_zero_of_dvd (Nat.dvd_trans this h64)
  rw [Nat.add_mod, h1, Nat.mul_mod_left]
  simp

theorem bytes_mod (b : BlockDef) (n : Nat) : b.bytes n % 64 = 0 := by
  obtain ⟨kind, s⟩ := b
  cases kind <;> simp only [BlockDef.bytes]
  · exact leadDim_mod s n
  · exact leadDim_mod s n
  · rename_i rows
    have := leadDim_mod s n
    exact Nat.mod_eq_zero_of_dvd (Nat.dvd_trans (Nat.dvd_of_mod_eq_zero this) (Nat.dvd_mul_left _ rows))
  · rename_i rows
    have := leadDim_mod s rows
    exact Nat.mod_eq_zero_of_dvd (Nat.dvd_trans (Nat.dvd_of_mod_eq_zero this) (Nat.dvd_mul_left _ n))

end Tbfmm
