import Tbfmm.Proofs.Refine
import Tbfmm.Proofs.Far
/-!
From the cell-level specification to "every pair of leaves exactly once" (C01, non-periodic): for two
distinct occupied leaves that are not adjacent, there is exactly one level `l ≥ 2` at which the
specification performs a transfer from the ancestor of one to the ancestor of the other (and it performs
it once); for two adjacent leaves there is none, and the direct pass holds the pair.
-/
namespace Tbfmm

open Far in
theorem decode_up (D L : Nat) (a : Nat) (k : Nat) (hk : k ≤ L) :
    decode D (L - k) (a / 2^(D*k)) = up k (decode D L a) := by
  induction k with
  | zero => simp [up]
  | succ k ih =>
    have ih' := ih (by omega)
    obtain ⟨m, hm⟩ : ∃ m, L - k = m + 1 := ⟨L - k - 1, by omega⟩
    have e1 : L - (k+1) = m := by omega
    have e2 : a / 2^(D*(k+1)) = (a / 2^(D*k)) / 2^D := by
      rw [Nat.div_div_eq_div_mul, ← Nat.pow_add, Nat.mul_succ]
    rw [e1, e2, ← decode_parent, ← hm, ih']
    have := up_up 1 k (decode D L a)
    simp only [up, Nat.pow_one] at this ⊢
    exact this

theorem adjV_toI (u v : List Nat) : adjV (toI u) (toI v) = true ↔ Far.adj u v := by
  induction u generalizing v with
  | nil => cases v <;> simp [adjV, toI, Far.adj]
  | cons x xs ih =>
    cases v with
    | nil => simp [adjV, toI, Far.adj]
    | cons y ys =>
      have := ih ys
      simp only [toI] at this
      simp only [toI, List.map_cons, adjV, Bool.and_eq_true, this, Far.adj, adj1, Far.adj1, decide_eq_true_eq, Int.ofNat_eq_natCast]
      constructor
      · rintro ⟨⟨h1, h2⟩, h3⟩; exact ⟨⟨by omega, by omega⟩, h3⟩
      · rintro ⟨⟨h1, h2⟩, h3⟩; exact ⟨⟨by omega, by omega⟩, h3⟩

theorem vadd_zero_shift (D : Nat) (lim : Int) (sp : List Int) (h : sp.length = D) :
    vadd sp ((List.replicate D (0:Int)).map (· * lim)) = sp := by
  apply List.ext_getElem (by simp [vadd, h])
  intro i h1 h2
  simp [vadd]

/-- the inner test of the non-periodic transfer specification -/
def np_inner (D l t s : Nat) : Option Elem :=
  if adjV ((toI (decode D l t)).map (· / 2)) ((toI (decode D l s)).map (· / 2)) && !adjV (toI (decode D l t)) (toI (decode D l s))
  then some (Elem.m2l l t s (code7 (vsub (toI (decode D l s)) (toI (decode D l t))))) else none

theorem specM2L_np_eq (D l : Nat) (tgts srcs : List Nat) :
    specM2LLevel D false l tgts srcs = if l < 2 then [] else tgts.flatMap fun t => srcs.flatMap fun s => (np_inner D l t s).toList := by
  unfold specM2LLevel
  by_cases hl : l < 2
  · simp [hl]
  · rw [if_neg (by simpa using hl), if_neg hl]
    simp only []
    apply flatMap_congr'
    intro t _
    rw [List.flatMap_map]
    apply flatMap_congr'
    intro s _
    simp only [Function.comp, imageShifts, Bool.false_eq_true, if_false, List.map_cons, List.map_nil, List.filterMap_cons, List.filterMap_nil]
    rw [vadd_zero_shift D _ _ (by simp [toI])]
    unfold np_inner
    split <;> simp_all

/-- membership in the non-periodic transfer specification of one level -/
theorem mem_specM2L_np (D l : Nat) (tgts srcs : List Nat) (t s c : Nat) :
    Elem.m2l l t s c ∈ specM2LLevel D false l tgts srcs ↔
      2 ≤ l ∧ t ∈ tgts ∧ s ∈ srcs ∧
      adjV ((toI (decode D l t)).map (· / 2)) ((toI (decode D l s)).map (· / 2)) = true ∧
      adjV (toI (decode D l t)) (toI (decode D l s)) = false ∧
      c = code7 (vsub (toI (decode D l s)) (toI (decode D l t))) := by
  rw [specM2L_np_eq]
  by_cases hl : l < 2
  · rw [if_pos hl]; simp; omega
  · rw [if_neg hl]
    simp only [List.mem_flatMap, Option.mem_toList]
    unfold np_inner
    constructor
    · rintro ⟨t', ht', s', hs', hm⟩
      split at hm
      · rename_i hc
        injection hm with hm
        injection hm with _ h2 h3 h4
        subst h2 h3 h4
        simp only [Bool.and_eq_true, Bool.not_eq_true'] at hc
        exact ⟨by omega, ht', hs', hc.1, hc.2, rfl⟩
      · simp at hm
    · rintro ⟨_, ht, hs, h1, h2, rfl⟩
      exact ⟨t, ht, s, hs, by simp [h1, h2]⟩

end Tbfmm

namespace Tbfmm

theorem np_inner_eq (D l t s : Nat) (e : Elem) (h : e ∈ (np_inner D l t s).toList) :
    e = Elem.m2l l t s (code7 (vsub (toI (decode D l s)) (toI (decode D l t)))) := by
  unfold np_inner at h
  split at h
  · simpa using h
  · simp at h

/-- the non-periodic transfer specification of a level never lists a (target, source) pair twice -/
theorem specM2L_np_nodup (D l : Nat) (tgts srcs : List Nat) (ht : tgts.Nodup) (hs : srcs.Nodup) :
    (specM2LLevel D false l tgts srcs).Nodup := by
  rw [specM2L_np_eq]
  split
  · simp
  · rw [List.Nodup, List.pairwise_flatMap]
    constructor
    · intro t _
      rw [List.pairwise_flatMap]
      constructor
      · intro s _
        cases np_inner D l t s <;> simp
      · refine hs.imp ?_
        intro s1 s2 hne x hx y hy
        rw [np_inner_eq D l t s1 x hx, np_inner_eq D l t s2 y hy]
        intro e; injection e with _ _ e3 _; exact hne e3
    · refine ht.imp ?_
      intro t1 t2 hne x hx y hy
      rw [List.mem_flatMap] at hx hy
      obtain ⟨s1, _, hx⟩ := hx
      obtain ⟨s2, _, hy⟩ := hy
      rw [np_inner_eq D l t1 s1 x hx, np_inner_eq D l t2 s2 y hy]
      intro e; injection e with _ e2 _ _; exact hne e2

theorem anc_mem_specCells (D L : Nat) (leaves : List Nat) (a : Nat) (ha : a ∈ leaves) (k : Nat) (hk : k ≤ L) :
    a / 2^(D*k) ∈ specCells D L leaves (L - k) := by
  unfold specCells
  rw [sortDedup_mem, List.mem_map]
  have : L - (L - k) = k := by omega
  exact ⟨a, ha, by rw [this]⟩

/-- a transfer between the ancestors of two occupied leaves at height `k` above the leaves is in the
    specification exactly when the leaves "interact at height `k`" (parents adjacent, cells not) -/
theorem m2l_between_ancestors_iff2 (D L : Nat) (leavesT leavesS : List Nat) (a b : Nat) (ha : a ∈ leavesT) (hb : b ∈ leavesS)
    (k : Nat) (hk : k + 2 ≤ L) :
    (∃ c, Elem.m2l (L-k) (a / 2^(D*k)) (b / 2^(D*k)) c ∈
        specM2LLevel D false (L-k) (specCells D L leavesT (L-k)) (specCells D L leavesS (L-k))) ↔
      Far.inter k (decode D L a) (decode D L b) := by
  obtain ⟨m, hm⟩ : ∃ m, L - k = m + 1 := ⟨L - k - 1, by omega⟩
  have half_anc : ∀ x, (toI (decode D (L-k) (x / 2^(D*k)))).map (· / 2) = toI (Far.up (k+1) (decode D L x)) := by
    intro x
    rw [hm, toI_decode_half]
    have e2 : x / 2^(D*k) / 2^D = x / 2^(D*(k+1)) := by
      rw [Nat.div_div_eq_div_mul, ← Nat.pow_add, Nat.mul_succ]
    have e1 : m = L - (k+1) := by omega
    rw [e2, e1, decode_up D L x (k+1) (by omega)]
  have full_anc : ∀ x, toI (decode D (L-k) (x / 2^(D*k))) = toI (Far.up k (decode D L x)) := by
    intro x; rw [decode_up D L x k (by omega)]
  unfold Far.inter
  constructor
  · rintro ⟨c, hc⟩
    rw [mem_specM2L_np] at hc
    obtain ⟨_, _, _, h1, h2, _⟩ := hc
    rw [half_anc, half_anc, adjV_toI] at h1
    rw [full_anc, full_anc] at h2
    refine ⟨h1, ?_⟩
    intro h
    rw [← adjV_toI] at h
    rw [h] at h2
    exact Bool.noConfusion h2
  · rintro ⟨h1, h2⟩
    refine ⟨_, (mem_specM2L_np D (L-k) _ _ _ _ _).2 ⟨by omega, anc_mem_specCells D L leavesT a ha k (by omega),
      anc_mem_specCells D L leavesS b hb k (by omega), ?_, ?_, rfl⟩⟩
    · rw [half_anc, half_anc, adjV_toI]; exact h1
    · rw [full_anc, full_anc]
      cases h : adjV (toI (Far.up k (decode D L a))) (toI (Far.up k (decode D L b)))
      · rfl
      · exact absurd ((adjV_toI _ _).1 h) h2

theorem m2l_between_ancestors_iff (D L : Nat) (leaves : List Nat) (a b : Nat) (ha : a ∈ leaves) (hb : b ∈ leaves)
    (k : Nat) (hk : k + 2 ≤ L) :
    (∃ c, Elem.m2l (L-k) (a / 2^(D*k)) (b / 2^(D*k)) c ∈
        specM2LLevel D false (L-k) (specCells D L leaves (L-k)) (specCells D L leaves (L-k))) ↔
      Far.inter k (decode D L a) (decode D L b) :=
  m2l_between_ancestors_iff2 D L leaves leaves a b ha hb k hk

/-- **C01, far pairs**: two occupied leaves that are not adjacent are linked by a transfer between their
    ancestors at exactly one level (`L-k ≥ 2`) -/
theorem C01_far_pair_once (D L : Nat) (leaves : List Nat) (a b : Nat) (ha : a ∈ leaves) (hb : b ∈ leaves)
    (hna : ¬ Far.adj (decode D L a) (decode D L b)) :
    ∃ k, (k + 2 ≤ L ∧ ∃ c, Elem.m2l (L-k) (a / 2^(D*k)) (b / 2^(D*k)) c ∈
        specM2LLevel D false (L-k) (specCells D L leaves (L-k)) (specCells D L leaves (L-k))) ∧
      ∀ k', k' + 2 ≤ L → (∃ c, Elem.m2l (L-k') (a / 2^(D*k')) (b / 2^(D*k')) c ∈
        specM2LLevel D false (L-k') (specCells D L leaves (L-k')) (specCells D L leaves (L-k'))) → k' = k := by
  obtain ⟨k, ⟨hk, hi⟩, huniq⟩ := Far.far_unique L (decode D L a) (decode D L b) (by simp)
    (decode_lt D L a) (decode_lt D L b) hna
  refine ⟨k, ⟨hk, (m2l_between_ancestors_iff D L leaves a b ha hb k hk).2 hi⟩, ?_⟩
  intro k' hk' h
  exact huniq k' ((m2l_between_ancestors_iff D L leaves a b ha hb k' hk').1 h)

/-- **C01, near pairs**: adjacent (or equal) leaves are never linked by a transfer, at any level -/
theorem C01_near_pair_none (D L : Nat) (leaves : List Nat) (a b : Nat) (ha : a ∈ leaves) (hb : b ∈ leaves)
    (hadj : Far.adj (decode D L a) (decode D L b)) (k : Nat) (hk : k + 2 ≤ L) :
    ¬ ∃ c, Elem.m2l (L-k) (a / 2^(D*k)) (b / 2^(D*k)) c ∈
        specM2LLevel D false (L-k) (specCells D L leaves (L-k)) (specCells D L leaves (L-k)) := by
  intro h
  exact Far.near_none _ _ hadj k ((m2l_between_ancestors_iff D L leaves a b ha hb k hk).1 h)

end Tbfmm
