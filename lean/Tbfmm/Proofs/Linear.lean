import Tbfmm.Proofs.Values2
/-!
The exactly additive kernel is linear in the particle weights: running the same calls with the weight
`a·w₁ + b·w₂` (on the particles that occur) gives `a·` the values for `w₁` plus `b·` the values for `w₂`.
This connects the indicator weights of the value theorems with the packed weights the driver uses.
-/
namespace Tbfmm

section
variable (ok : Nat → Prop) (w w1 w2 : Nat → Nat) (a b : Nat) (hw : ∀ p, ok p → w p = a * w1 p + b * w2 p)
include hw

theorem sumW_lin (ps : List Nat) (hps : ∀ p ∈ ps, ok p) : sumW w ps = a * sumW w1 ps + b * sumW w2 ps := by
  induction ps with
  | nil => simp [sumW]
  | cons p ps ih =>
    have ih' := ih (fun x hx => hps x (by simp [hx]))
    simp only [sumW, List.map_cons, List.sum_cons] at ih' ⊢
    rw [ih', hw p (hps p (by simp)), Nat.mul_add, Nat.mul_add]
    omega

end

theorem sumW_ge (w : Nat → Nat) (ps : List Nat) (p : Nat) (h : p ∈ ps) : w p ≤ sumW w ps := by
  induction ps with
  | nil => simp at h
  | cons x xs ih =>
    simp only [sumW, List.map_cons, List.sum_cons]
    simp only [List.mem_cons] at h
    rcases h with rfl | h
    · omega
    · have := ih h
      simp only [sumW] at this
      omega

theorem sum_map_lin {α} (xs : List α) (f f1 f2 : α → Nat) (a b : Nat) (h : ∀ x ∈ xs, f x = a * f1 x + b * f2 x) :
    (xs.map f).sum = a * (xs.map f1).sum + b * (xs.map f2).sum := by
  induction xs with
  | nil => simp
  | cons x xs ih =>
    simp only [List.map_cons, List.sum_cons]
    rw [ih (fun y hy => h y (by simp [hy])), h x (by simp), Nat.mul_add, Nat.mul_add]
    omega

/-- accessor-wise linear combination of states -/
structure Lin3 (a b : Nat) (s s1 s2 : State) : Prop where
  m : ∀ l i, s.m l i = a * s1.m l i + b * s2.m l i
  l : ∀ l i, s.l l i = a * s1.l l i + b * s2.l l i
  r : ∀ p, s.r p = a * s1.r p + b * s2.r p

/-- the particle ids a call mentions are all in the set `ok` -/
def callOk (ok : Nat → Prop) : Call → Prop
  | .p2m _ parts => ∀ p ∈ parts, ok p
  | .l2p _ parts => ∀ p ∈ parts, ok p
  | _ => True

section
variable (ok : Nat → Prop) (L : Nat) (po po' : Nat → List Nat) (w w1 w2 : Nat → Nat) (a b : Nat)
  (hw : ∀ p, ok p → w p = a * w1 p + b * w2 p) (hpo : ∀ i, ∀ p ∈ po i, ok p) (hpo' : ∀ i, ∀ p ∈ po' i, ok p)
include hw hpo hpo'

theorem applyCall_lin (c : Call) (hc : callOk ok c) (s s1 s2 : State) (h : Lin3 a b s s1 s2) :
    Lin3 a b (applyCall w L po po' s c) (applyCall w1 L po po' s1 c) (applyCall w2 L po po' s2 c) := by
  cases c with
  | p2m leaf parts =>
    simp only [callOk] at hc
    refine ⟨?_, ?_, ?_⟩
    · intro l i
      simp only [applyCall, addM_m, h.m, sumW_lin ok w w1 w2 a b hw parts hc]
      split <;> simp [Nat.mul_add] <;> omega
    · intro l i; simp only [applyCall, addM_l, h.l]
    · intro p; simp only [applyCall, addM_r, h.r]
  | m2m level p ch =>
    refine ⟨?_, ?_, ?_⟩
    · intro l i
      simp only [applyCall, addM_m, h.m]
      rw [sum_map_lin ch _ (fun c => s1.m (level+1) c.1) (fun c => s2.m (level+1) c.1) a b (fun x _ => rfl)]
      split <;> simp [Nat.mul_add] <;> omega
    · intro l i; simp only [applyCall, addM_l, h.l]
    · intro q; simp only [applyCall, addM_r, h.r]
  | m2l level t srcs =>
    refine ⟨?_, ?_, ?_⟩
    · intro l i; simp only [applyCall, addL_m, h.m]
    · intro l i
      simp only [applyCall, addL_l, h.l]
      rw [sum_map_lin srcs (fun c => s.m level c.1) (fun c => s1.m level c.1) (fun c => s2.m level c.1) a b (fun x _ => h.m _ _)]
      split <;> simp [Nat.mul_add] <;> omega
    · intro q; simp only [applyCall, addL_r, h.r]
  | l2l level p ch =>
    obtain ⟨f1, f2, f3⟩ := foldl_addL_children ch level p s
    obtain ⟨g1, g2, g3⟩ := foldl_addL_children ch level p s1
    obtain ⟨k1, k2, k3⟩ := foldl_addL_children ch level p s2
    refine ⟨?_, ?_, ?_⟩
    · intro l i; simp only [applyCall]; rw [f2, g2, k2, h.m]
    · intro l i
      simp only [applyCall]
      rw [f1, g1, k1, h.l, h.l]
      split
      · simp only [Nat.mul_add]
        rw [Nat.mul_left_comm _ a, Nat.mul_left_comm _ b]
        omega
      · simp
    · intro q; simp only [applyCall]; rw [f3, g3, k3, h.r]
  | l2p leaf parts =>
    obtain ⟨f1, f2, f3⟩ := foldl_addR_dep parts (fun s => s.l L leaf) (fun _ _ _ => rfl) s
    obtain ⟨g1, g2, g3⟩ := foldl_addR_dep parts (fun s => s.l L leaf) (fun _ _ _ => rfl) s1
    obtain ⟨k1, k2, k3⟩ := foldl_addR_dep parts (fun s => s.l L leaf) (fun _ _ _ => rfl) s2
    refine ⟨?_, ?_, ?_⟩
    · intro l i; simp only [applyCall]; rw [f2, g2, k2, h.m]
    · intro l i; simp only [applyCall]; rw [f3, g3, k3, h.l]
    · intro q
      simp only [applyCall]
      rw [f1, g1, k1, h.r, h.l]
      simp only [Nat.mul_add]
      rw [Nat.mul_left_comm _ a, Nat.mul_left_comm _ b]
      omega
  | p2p src tgt code =>
    obtain ⟨a1, a2, a3⟩ := foldl_addR_const (po tgt) (sumW w (po src)) s
    obtain ⟨b1, b2, b3⟩ := foldl_addR_const (po src) (sumW w (po tgt)) ((po tgt).foldl (fun s p => s.addR p (sumW w (po src))) s)
    obtain ⟨c1, c2, c3⟩ := foldl_addR_const (po tgt) (sumW w1 (po src)) s1
    obtain ⟨d1, d2, d3⟩ := foldl_addR_const (po src) (sumW w1 (po tgt)) ((po tgt).foldl (fun s p => s.addR p (sumW w1 (po src))) s1)
    obtain ⟨e1, e2, e3⟩ := foldl_addR_const (po tgt) (sumW w2 (po src)) s2
    obtain ⟨g1, g2, g3⟩ := foldl_addR_const (po src) (sumW w2 (po tgt)) ((po tgt).foldl (fun s p => s.addR p (sumW w2 (po src))) s2)
    refine ⟨?_, ?_, ?_⟩
    · intro l i; simp only [applyCall]; rw [b2, a2, d2, c2, g2, e2, h.m]
    · intro l i; simp only [applyCall]; rw [b3, a3, d3, c3, g3, e3, h.l]
    · intro q
      simp only [applyCall]
      rw [b1, a1, d1, c1, g1, e1, h.r, sumW_lin ok w w1 w2 a b hw _ (hpo src), sumW_lin ok w w1 w2 a b hw _ (hpo tgt)]
      simp only [Nat.mul_add]
      rw [Nat.mul_left_comm _ a, Nat.mul_left_comm _ b, Nat.mul_left_comm _ a, Nat.mul_left_comm _ b]
      omega
  | p2pTsm src tgt code =>
    obtain ⟨a1, a2, a3⟩ := foldl_addR_const (po tgt) (sumW w (po' src)) s
    obtain ⟨c1, c2, c3⟩ := foldl_addR_const (po tgt) (sumW w1 (po' src)) s1
    obtain ⟨e1, e2, e3⟩ := foldl_addR_const (po tgt) (sumW w2 (po' src)) s2
    refine ⟨?_, ?_, ?_⟩
    · intro l i; simp only [applyCall]; rw [a2, c2, e2, h.m]
    · intro l i; simp only [applyCall]; rw [a3, c3, e3, h.l]
    · intro q
      simp only [applyCall]
      rw [a1, c1, e1, h.r, sumW_lin ok w w1 w2 a b hw _ (hpo' src)]
      simp only [Nat.mul_add]
      rw [Nat.mul_left_comm _ a, Nat.mul_left_comm _ b]
      omega
  | p2pInner leaf =>
    obtain ⟨a1, a2, a3⟩ := foldl_addR_fun (po leaf) (fun p => sumW w (po leaf) - w p) s
    obtain ⟨c1, c2, c3⟩ := foldl_addR_fun (po leaf) (fun p => sumW w1 (po leaf) - w1 p) s1
    obtain ⟨e1, e2, e3⟩ := foldl_addR_fun (po leaf) (fun p => sumW w2 (po leaf) - w2 p) s2
    refine ⟨?_, ?_, ?_⟩
    · intro l i; simp only [applyCall]; rw [a2, c2, e2, h.m]
    · intro l i; simp only [applyCall]; rw [a3, c3, e3, h.l]
    · intro q
      simp only [applyCall]
      rw [a1, c1, e1, h.r]
      by_cases hq : q ∈ po leaf
      · have g1 := sumW_ge w1 (po leaf) q hq
        have g2 := sumW_ge w2 (po leaf) q hq
        rw [sumW_lin ok w w1 w2 a b hw _ (hpo leaf), hw q (hpo leaf q hq)]
        have e : a * sumW w1 (po leaf) + b * sumW w2 (po leaf) - (a * w1 q + b * w2 q) =
            a * (sumW w1 (po leaf) - w1 q) + b * (sumW w2 (po leaf) - w2 q) := by
          rw [Nat.mul_sub, Nat.mul_sub]
          have := Nat.mul_le_mul_left a g1
          have := Nat.mul_le_mul_left b g2
          omega
        rw [e]
        simp only [Nat.mul_add]
        rw [Nat.mul_left_comm _ a, Nat.mul_left_comm _ b]
        omega
      · simp [List.count_eq_zero_of_not_mem hq]

theorem applyCalls_lin (cs : List Call) (hcs : ∀ c ∈ cs, callOk ok c) (s s1 s2 : State) (h : Lin3 a b s s1 s2) :
    Lin3 a b (applyCalls w L po po' s cs) (applyCalls w1 L po po' s1 cs) (applyCalls w2 L po po' s2 cs) := by
  induction cs generalizing s s1 s2 with
  | nil => exact h
  | cons c cs ih =>
    simp only [applyCalls, List.foldl_cons]
    exact ih (fun c' hc' => hcs c' (by simp [hc'])) _ _ _
      (applyCall_lin ok L po po' w w1 w2 a b hw hpo hpo' c (hcs c (by simp)) s s1 s2 h)

end

end Tbfmm
