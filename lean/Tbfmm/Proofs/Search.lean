import Tbfmm.Model.Search
/-!: TbfUtils::lower_bound_indexes with fuel, and its specification -/
namespace Tbfmm

theorem lowerBoundIdx_spec (lt : Nat → Bool) (fuel first count : Nat) (hf : count ≤ fuel)
    (mono : ∀ a b, first ≤ a → a ≤ b → b < first + count → lt b = true → lt a = true) :
    first ≤ lowerBoundIdx lt fuel first count ∧ lowerBoundIdx lt fuel first count ≤ first + count ∧
      (∀ a, first ≤ a → a < lowerBoundIdx lt fuel first count → lt a = true) ∧
      (∀ a, lowerBoundIdx lt fuel first count ≤ a → a < first + count → lt a = false) := by
  induction fuel generalizing first count with
  | zero =>
    have : count = 0 := by omega
    subst this
    simp only [lowerBoundIdx]
    exact ⟨Nat.le_refl _, by omega, fun a h1 h2 => by omega, fun a h1 h2 => by omega⟩
  | succ f ih =>
    unfold lowerBoundIdx
    by_cases hc : count = 0
    · subst hc
      simp only [if_true]
      exact ⟨Nat.le_refl _, by omega, fun a h1 h2 => by omega, fun a h1 h2 => by omega⟩
    · simp only [hc, if_false]
      by_cases hlt : lt (first + count / 2) = true
      · simp only [hlt, if_true]
        obtain ⟨r1, r2, r3, r4⟩ := ih (first + count/2 + 1) (count - (count/2 + 1)) (by omega)
          (fun a b h1 h2 h3 h4 => mono a b (by omega) h2 (by omega) h4)
        refine ⟨by omega, by omega, ?_, ?_⟩
        · intro a h1 h2
          by_cases ha : a ≤ first + count/2
          · exact mono a (first + count/2) h1 ha (by omega) hlt
          · exact r3 a (by omega) h2
        · intro a h1 h2; exact r4 a h1 (by omega)
      · have hfalse : lt (first + count / 2) = false := by
          cases h : lt (first + count/2) <;> simp_all
        simp only [hfalse, Bool.false_eq_true, ↓reduceIte]
        obtain ⟨r1, r2, r3, r4⟩ := ih first (count/2) (by omega)
          (fun a b h1 h2 h3 h4 => mono a b h1 h2 (by omega) h4)
        refine ⟨r1, by omega, r3, ?_⟩
        intro a h1 h2
        by_cases ha : a < first + count/2
        · exact r4 a h1 ha
        · cases h : lt a with
          | false => rfl
          | true =>
            have := mono (first + count/2) a (by omega) (by omega) h2 h
            rw [hfalse] at this; exact absurd this (by simp)

theorem findCell_spec (cells : List Nat) (hs : cells.Pairwise (· < ·)) (idx : Nat) :
    (∀ k, findCell cells idx = some k → k < cells.length ∧ cells.getD k 0 = idx) ∧
    (findCell cells idx = none → idx ∉ cells) := by
  have hidx : ∀ i j, i < j → (hj : j < cells.length) → cells.getD i 0 < cells.getD j 0 := by
    intro i j hij hj
    have := List.pairwise_iff_getElem.mp hs i j (by omega) hj hij
    simpa [List.getD_eq_getElem?_getD, List.getElem?_eq_getElem, hj, Nat.lt_trans hij hj] using this
  have mono : ∀ a b, 0 ≤ a → a ≤ b → b < 0 + cells.length →
      (fun i => decide (cells.getD i 0 < idx)) b = true → (fun i => decide (cells.getD i 0 < idx)) a = true := by
    intro a b _ hab hb h
    simp only [decide_eq_true_eq] at *
    rcases Nat.lt_or_ge a b with h1 | h1
    · have := hidx a b h1 (by omega); omega
    · have : a = b := by omega
      subst this; exact h
  obtain ⟨_, r2, r3, r4⟩ := lowerBoundIdx_spec _ cells.length 0 cells.length (Nat.le_refl _) mono
  constructor
  · intro k hk
    unfold findCell at hk
    simp only at hk
    generalize hk0 : lowerBoundIdx (fun i => decide (cells.getD i 0 < idx)) cells.length 0 cells.length = k0 at *
    split at hk
    · exact absurd hk (by simp)
    · split at hk
      · exact absurd hk (by simp)
      · rename_i h1 h2
        have hkk : k0 = k := Option.some.inj hk
        subst hkk
        exact ⟨by omega, Decidable.not_not.mp h2⟩
  · intro hnone hmem
    obtain ⟨j, hj, hjv⟩ := List.getElem_of_mem hmem
    have hjD : cells.getD j 0 = idx := by simp [List.getD_eq_getElem?_getD, List.getElem?_eq_getElem, hj, hjv]
    unfold findCell at hnone
    simp only at hnone
    generalize hk : lowerBoundIdx (fun i => decide (cells.getD i 0 < idx)) cells.length 0 cells.length = k at *
    -- j cannot be below k (lt true there), so k ≤ j < length
    have hkj : k ≤ j := by
      rcases Nat.lt_or_ge j k with h | h
      · have := r3 j (by omega) h
        simp only [decide_eq_true_eq, hjD] at this; omega
      · exact h
    split at hnone
    · omega
    · split at hnone
      · rename_i h1 h2
        -- cells[k] ≠ idx, but lt k = false means cells[k] ≥ idx, and cells[k] ≤ cells[j] = idx
        have hk_false := r4 k (Nat.le_refl _) (by omega)
        simp only [decide_eq_false_iff_not] at hk_false
        rcases Nat.lt_or_ge k j with h | h
        · have := hidx k j h hj; omega
        · have : k = j := by omega
          subst this; exact h2 hjD
      · simp at hnone

end Tbfmm
