import Tbfmm.Proofs.M2LRefine
/-!
The P2P pass (`p2pAll`) performs — as a multiset — exactly the per-leaf (upper-half) neighbour-list
entries whose source leaf exists, plus one in-leaf call per leaf; for any grouping.
-/
namespace Tbfmm

def elemP2P (x : Inter) : Elem := Elem.p2p x.src x.tgt x.code

theorem p2p_between_elems (gs : List Group) (ps : List (Nat × List Inter)) :
    (ps.flatMap fun (p : Nat × List Inter) =>
        p.2.filterMap fun x => if (gs.getD p.1 []).contains x.src then some (Call.p2p x.src x.tgt x.code) else none).flatMap elemsOfCall =
      (ps.flatMap fun p => p.2.filter fun x => (gs.getD p.1 []).contains x.src).map elemP2P := by
  have one : ∀ (G : Group) (sl : List Inter),
      (sl.filterMap fun x => if G.contains x.src then some (Call.p2p x.src x.tgt x.code) else none).flatMap elemsOfCall =
        (sl.filter fun x => G.contains x.src).map elemP2P := by
    intro G sl
    induction sl with
    | nil => rfl
    | cons x sl ih =>
      by_cases h : G.contains x.src = true
      · simp only [List.filterMap_cons, h, if_true, List.flatMap_cons, elemsOfCall, List.filter_cons, List.map_cons, ih]
        rfl
      · simp only [List.filterMap_cons, h, Bool.false_eq_true, if_false, List.filter_cons, ih]
  induction ps with
  | nil => rfl
  | cons p ps ih => simp only [List.flatMap_cons, List.flatMap_append, List.map_append, ih, one]

theorem p2p_group_elems (D : Nat) (periodic : Bool) (H : Nat) (gs : List Group) (inv : GroupsInv gs) (i : Nat) (hi : i < gs.length) :
    (((((mapIndexesAndBlocks gs (nlistBlock D periodic (H-1) (gs.getD i []) true).2).flatMap fun (p : Nat × List Inter) =>
          p.2.filterMap fun x => if (gs.getD p.1 []).contains x.src then some (Call.p2p x.src x.tgt x.code) else none) ++
        (nlistBlock D periodic (H-1) (gs.getD i []) true).1.map fun x => Call.p2p x.src x.tgt x.code) ++ (gs.getD i []).map Call.p2pInner).flatMap elemsOfCall).Perm
      ((((((gs.getD i []).zipIdx).flatMap fun (c, k) => nlistCell D periodic (H-1) c k true).filter (presentFrom gs 0)).map elemP2P) ++ (gs.getD i []).map Elem.p2pInner) := by
  rw [List.flatMap_append, List.flatMap_append, p2p_between_elems]
  have einn : ((nlistBlock D periodic (H-1) (gs.getD i []) true).1.map fun x => Call.p2p x.src x.tgt x.code).flatMap elemsOfCall =
      (nlistBlock D periodic (H-1) (gs.getD i []) true).1.map elemP2P := by
    generalize (nlistBlock D periodic (H-1) (gs.getD i []) true).1 = l
    induction l with
    | nil => rfl
    | cons x l ih => simp only [List.map_cons, List.flatMap_cons, elemsOfCall, ih]; rfl
  have einner : ((gs.getD i []).map Call.p2pInner).flatMap elemsOfCall = (gs.getD i []).map Elem.p2pInner := by
    generalize gs.getD i [] = l
    induction l with
    | nil => rfl
    | cons x l ih => simp only [List.map_cons, List.flatMap_cons, elemsOfCall, ih]; rfl
  rw [einn, einner]
  have p1 := (mapIndexesAndBlocks_filter gs inv (nlistBlock D periodic (H-1) (gs.getD i []) true).2).map elemP2P
  have p2 := (splitInOut_present gs inv i hi (((gs.getD i []).zipIdx).flatMap fun (c, k) => nlistCell D periodic (H-1) c k true)).map elemP2P
  simp only [List.map_append] at p2
  exact List.Perm.append_right _ ((List.Perm.append_right _ p1).trans p2)

/-- **P2P pass**: for any grouping, the direct interactions performed are exactly the upper-half
    neighbour-list entries whose source leaf exists (each unordered adjacent pair from one side) and one
    in-leaf interaction per leaf -/
theorem p2pAll_elems (D : Nat) (periodic : Bool) (H : Nat) (gs : List Group) (inv : GroupsInv gs) :
    ((p2pAll D periodic H gs).flatMap elemsOfCall).Perm
      (gs.flatMap fun g => ((((g.zipIdx).flatMap fun (c, k) => nlistCell D periodic (H-1) c k true).filter (presentFrom gs 0)).map elemP2P) ++ g.map Elem.p2pInner) := by
  unfold p2pAll
  have hgs : gs = (List.range gs.length).map fun i => gs.getD i [] := by
    apply List.ext_getElem (by simp)
    intro k h1 h2
    simp [List.getD_eq_getElem?_getD, List.getElem?_eq_getElem h1]
  have gen : ∀ (idx : List Nat), (∀ i ∈ idx, i < gs.length) →
      (((idx.map fun i => gs.getD i []).flatMap fun g =>
          let (inn, ext) := nlistBlock D periodic (H-1) g true
          let between := (mapIndexesAndBlocks gs ext).flatMap fun (p : Nat × List Inter) =>
            p.2.filterMap fun x => if (gs.getD p.1 []).contains x.src then some (Call.p2p x.src x.tgt x.code) else none
          let inside := inn.map fun x => Call.p2p x.src x.tgt x.code
          between ++ inside ++ g.map Call.p2pInner).flatMap elemsOfCall).Perm
        ((idx.map fun i => gs.getD i []).flatMap fun g =>
          ((((g.zipIdx).flatMap fun (c, k) => nlistCell D periodic (H-1) c k true).filter (presentFrom gs 0)).map elemP2P) ++ g.map Elem.p2pInner) := by
    intro idx
    induction idx with
    | nil => intro _; simp
    | cons i idx ih =>
      intro hidx
      simp only [List.map_cons, List.flatMap_cons, List.flatMap_append]
      have h1 := p2p_group_elems D periodic H gs inv i (hidx i (by simp))
      simp only [List.flatMap_append] at h1
      exact List.Perm.append h1 (ih (fun j hj => hidx j (by simp [hj])))
  have := gen (List.range gs.length) (fun i hi => by simpa using hi)
  rw [← hgs] at this
  exact this

end Tbfmm
