import Tbfmm.Proofs.Vec
import Tbfmm.Proofs.Bij
import Tbfmm.Proofs.M2LRefine
/-!
Characterisation of the interaction list builder (`getInteractionListForIndex`): for a target cell `t`
of level `b+1`, the entries of `ilistCell` whose source is present are, as a multiset, exactly the
specification's transfer pairs of `t` — sources (or periodic images of sources) that are children of a
neighbour of `t`'s parent and not adjacent to `t`, with the base-7 code of the offset.
-/
namespace Tbfmm

theorem toI_decode_bounds (D b i : Nat) (j : Nat) (h : j < (toI (decode D b i)).length) :
    0 ≤ (toI (decode D b i))[j] ∧ (toI (decode D b i))[j] < (2:Int)^b := by
  have hj : j < (decode D b i).length := by simpa [toI] using h
  have := decode_lt D b i _ (List.getElem_mem hj)
  simp only [toI, List.getElem_map]
  refine ⟨Int.natCast_nonneg _, ?_⟩
  have h2 : ((2^b : Nat) : Int) = (2:Int)^b := by simp
  rw [← h2]
  exact Int.ofNat_lt.2 this

theorem toI_decode_half (D b i : Nat) : (toI (decode D (b+1) i)).map (· / 2) = toI (decode D b (i / 2^D)) := by
  rw [← decode_parent]
  simp only [toI, List.map_map]
  apply List.map_congr_left
  intro a _
  simp

section
variable (D : Nat) (periodic : Bool) (b : Nat)

def otherV (ppos off : List Int) : List Int := vadd ppos off
def shift1 (lim limP o : Int) : Int := if periodic then (if o < 0 then -lim else if limP ≤ o then lim else 0) else 0
def wrap1 (limP o : Int) : Int := if periodic then (if o < 0 then o + limP else if limP ≤ o then o - limP else o) else o
def shiftV (other : List Int) : List Int := other.map (shift1 periodic (2^(b+1)) (2^b))
def wrapV (other : List Int) : List Int := other.map (wrap1 periodic (2^b))

/-- source cell reached from parent offset `off` and child code `ch` -/
def srcOf (ppos off : List Int) (ch : Nat) : Nat :=
  child D (encode D b ((wrapV periodic b (otherV ppos off)).map Int.toNat)) ch

/-- the inner body of `ilistCell` -/
def ilistInner (t : Nat) (ppos cpos off : List Int) (ch : Nat) : Option Inter :=
  let cidx := srcOf D periodic b ppos off ch
  let rel := vsub (vadd (toI (decode D (b+1) cidx)) (shiftV periodic b (otherV ppos off))) cpos
  if rel.all (fun r => r.natAbs ≤ 1) then none else some { tgt := t, src := cidx, tpos := 0, code := code7 rel }

theorem ilistCell_eq (t : Nat) (hlev : ¬ ((!periodic && decide (b+1 < 2)) || (periodic && decide (b+1 < 1))) = true) :
    ilistCell D periodic (b+1) t 0 =
      (odometer ((toI (decode D b (parent D t))).map (rangeOf periodic (2^b)))).flatMap fun off =>
        (List.range (2^D)).filterMap (ilistInner D periodic b t (toI (decode D b (parent D t))) (toI (decode D (b+1) t)) off) := by
  unfold ilistCell
  rw [if_neg hlev]
  rfl

end

theorem map_filter_filterMap {α β γ} (L : List α) (g : α → Option β) (p : β → Bool) (e : β → γ) :
    ((L.filterMap g).filter p).map e = L.filterMap fun a => (g a).bind fun x => if p x then some (e x) else none := by
  induction L with
  | nil => rfl
  | cons a l ih =>
    cases h : g a with
    | none => simp [h, ih]
    | some v =>
      by_cases hp : p v = true
      · simp [h, hp, ih]
      · simp [h, hp, ih]

end Tbfmm

namespace Tbfmm

theorem pow_int_succ (b : Nat) : (2:Int)^(b+1) = 2 * 2^b := by rw [Int.pow_succ]; omega
theorem pow_int_pos (b : Nat) : (1:Int) ≤ 2^b := by
  have : (0:Int) < 2^b := Int.pow_pos (by omega)
  omega

section
variable (D : Nat) (periodic : Bool) (b : Nat)

/-- membership in the parent-offset enumeration, index-wise -/
theorem off_get (ppos off : List Int) (h : InRanges (ppos.map (rangeOf periodic (2^b))) off) (i : Nat) (h1 : i < ppos.length) (h2 : i < off.length) :
    (rangeOf periodic (2^b) ppos[i]).1 ≤ off[i] ∧ off[i] ≤ (rangeOf periodic (2^b) ppos[i]).2 := by
  have := h.2 i (by simpa using h1) h2
  simpa using this

theorem wrap1_bounds (L p o : Int) (hL : 1 ≤ L) (hp : 0 ≤ p ∧ p < L)
    (hr : (rangeOf periodic L p).1 ≤ o ∧ o ≤ (rangeOf periodic L p).2) :
    0 ≤ wrap1 periodic L (p + o) ∧ wrap1 periodic L (p + o) < L := by
  unfold wrap1
  unfold rangeOf at hr
  cases periodic
  · simp only [Bool.false_eq_true, if_false] at hr ⊢
    split at hr <;> split at hr <;> omega
  · simp only [if_true] at hr ⊢
    split
    · omega
    · split <;> omega

/-- the wrapped parent position is a valid position of level `b` -/
theorem wrapV_bounds (ppos off : List Int) (hp : ∀ i (h : i < ppos.length), 0 ≤ ppos[i] ∧ ppos[i] < (2:Int)^b)
    (h : InRanges (ppos.map (rangeOf periodic (2^b))) off) (i : Nat) (hi : i < (wrapV periodic b (otherV ppos off)).length) :
    0 ≤ (wrapV periodic b (otherV ppos off))[i] ∧ (wrapV periodic b (otherV ppos off))[i] < (2:Int)^b := by
  have hl : off.length = ppos.length := by simpa using h.1
  have hi' : i < ppos.length := by simp [wrapV, otherV, vadd] at hi; omega
  have hr := off_get periodic b ppos off h i hi' (by omega)
  simp only [wrapV, otherV, vadd, List.getElem_map, List.getElem_zipWith]
  exact wrap1_bounds periodic _ _ _ (pow_int_pos b) (hp i hi') hr

theorem srcOf_div (ppos off : List Int) (ch : Nat) (hch : ch < 2^D) :
    srcOf D periodic b ppos off ch / 2^D = encode D b ((wrapV periodic b (otherV ppos off)).map Int.toNat) := by
  unfold srcOf child
  rw [Nat.mul_comm, Nat.mul_add_div (Nat.pow_pos (by omega)), Nat.div_eq_of_lt hch]; omega

theorem srcOf_mod (ppos off : List Int) (ch : Nat) (hch : ch < 2^D) :
    srcOf D periodic b ppos off ch % 2^D = ch := by
  unfold srcOf child
  rw [Nat.mul_comm, Nat.mul_add_mod, Nat.mod_eq_of_lt hch]

/-- A1: halving the source position gives the wrapped parent position -/
theorem src_half (ppos off : List Int) (ch : Nat) (hch : ch < 2^D) (hD : ppos.length = D)
    (hp : ∀ i (h : i < ppos.length), 0 ≤ ppos[i] ∧ ppos[i] < (2:Int)^b)
    (h : InRanges (ppos.map (rangeOf periodic (2^b))) off) :
    (toI (decode D (b+1) (srcOf D periodic b ppos off ch))).map (· / 2) = wrapV periodic b (otherV ppos off) := by
  have hl : off.length = ppos.length := by simpa using h.1
  rw [toI_decode_half, srcOf_div D periodic b ppos off ch hch, decode_encode]
  · apply toI_toNat
    intro i hi
    exact (wrapV_bounds periodic b ppos off hp h i hi).1
  · simp [wrapV, otherV, vadd, hl, hD]
  · intro c hc
    rw [List.mem_map] at hc
    obtain ⟨x, hx, rfl⟩ := hc
    obtain ⟨i, hi, rfl⟩ := List.mem_iff_getElem.1 hx
    have := wrapV_bounds periodic b ppos off hp h i hi
    have h2 : ((2^b : Nat) : Int) = (2:Int)^b := by simp
    have h3 : ((wrapV periodic b (otherV ppos off))[i].toNat : Int) < ((2^b : Nat) : Int) := by rw [h2]; omega
    exact Int.ofNat_lt.1 h3

end

end Tbfmm

namespace Tbfmm

/-- the shift vectors considered by the specification, index-wise -/
def IsShift (D : Nat) (periodic : Bool) (lim : Int) (k : List Int) : Prop :=
  k.length = D ∧ ∀ i (h : i < k.length), if periodic then (k[i] = -lim ∨ k[i] = 0 ∨ k[i] = lim) else k[i] = 0

theorem mem_shifts (D : Nat) (periodic : Bool) (lim : Int) (hlim : 1 ≤ lim) (k : List Int) :
    k ∈ (imageShifts D periodic).map (fun k => k.map (· * lim)) ↔ IsShift D periodic lim k := by
  unfold imageShifts IsShift
  cases periodic
  · simp only [Bool.false_eq_true, if_false, List.map_cons, List.map_nil, List.mem_singleton, List.map_replicate]
    constructor
    · rintro rfl
      simp
    · rintro ⟨hl, h⟩
      apply List.ext_getElem (by simp [hl])
      intro i h1 h2
      simp [h i h1]
  · simp only [if_true, List.mem_map, mem_odometer]
    constructor
    · rintro ⟨m, ⟨hl, hm⟩, rfl⟩
      refine ⟨by simpa using hl, ?_⟩
      intro i hi
      have hi' : i < m.length := by simpa using hi
      have := hm i (by simp at hl ⊢; omega) hi'
      simp only [List.getElem_replicate] at this
      simp only [List.getElem_map]
      have h3 : m[i] = -1 ∨ m[i] = 0 ∨ m[i] = 1 := by omega
      rcases h3 with h3 | h3 | h3 <;> rw [h3] <;> simp
    · rintro ⟨hl, h⟩
      refine ⟨k.map (fun x => if x < 0 then -1 else if x = 0 then 0 else 1), ⟨by simp [hl], ?_⟩, ?_⟩
      · intro i h1 h2
        simp only [List.getElem_replicate, List.getElem_map]
        split
        · omega
        · split <;> omega
      · apply List.ext_getElem (by simp)
        intro i h1 h2
        simp only [List.getElem_map]
        have := h i h2
        rcases this with h3 | h3 | h3 <;> rw [h3]
        · rw [if_pos (by omega)]; omega
        · simp
        · rw [if_neg (by omega), if_neg (by omega)]; omega

/-- adjacency of two vectors is "every component of the difference is at most 1 in absolute value" -/
theorem adjV_eq_all (a b : List Int) (hl : a.length = b.length) :
    adjV a b = (vsub b a).all (fun r => decide (r.natAbs ≤ 1)) := by
  rw [Bool.eq_iff_iff, adjV_iff, all_iff_get]
  constructor
  · rintro ⟨_, h⟩ i hi
    have hi' : i < a.length ∧ i < b.length := by simp [vsub] at hi; omega
    have := h i hi'.1 hi'.2
    simp only [vsub, List.getElem_zipWith, decide_eq_true_eq]
    omega
  · intro h
    refine ⟨hl, ?_⟩
    intro i h1 h2
    have := h i (by simp [vsub]; omega)
    simp only [vsub, List.getElem_zipWith, decide_eq_true_eq] at this
    omega

section
variable (D : Nat) (periodic : Bool) (b : Nat)

theorem shift1_half (L o sp : Int) (hsp : sp / 2 = wrap1 periodic L o) :
    (sp + shift1 periodic (2 * L) L o) / 2 = o := by
  unfold shift1
  unfold wrap1 at hsp
  cases periodic
  · simp only [Bool.false_eq_true, if_false] at hsp ⊢
    omega
  · simp only [if_true] at hsp ⊢
    split at hsp
    · rw [if_pos (by assumption)]; omega
    · rw [if_neg (by assumption)]
      split at hsp
      · rw [if_pos (by assumption)]; omega
      · rw [if_neg (by assumption)]; omega

/-- H: halving the shifted source position gives the (unwrapped) neighbour-of-parent position -/
theorem half_shifted (sp other : List Int) (hl : sp.length = other.length)
    (hh : sp.map (· / 2) = wrapV periodic b other) :
    (vadd sp (shiftV periodic b other)).map (· / 2) = other := by
  apply List.ext_getElem (by simp [vadd, shiftV, hl])
  intro i h1 h2
  simp only [vadd, shiftV, List.getElem_map, List.getElem_zipWith]
  have hi : i < sp.length := by omega
  have key : sp[i] / 2 = wrap1 periodic (2^b) other[i] := by
    have := congrArg (fun l => l[i]?) hh
    simp only [wrapV, List.getElem?_map, List.getElem?_eq_getElem hi, List.getElem?_eq_getElem h2, Option.map_some] at this
    exact Option.some.inj this
  have e := shift1_half periodic ((2:Int)^b) other[i] sp[i] key
  rw [← pow_int_succ] at e
  exact e

theorem shiftV_isShift (other : List Int) (hl : other.length = D) : IsShift D periodic (2^(b+1)) (shiftV periodic b other) := by
  refine ⟨by simp [shiftV, hl], ?_⟩
  intro i hi
  simp only [shiftV, List.getElem_map, shift1]
  cases periodic
  · simp
  · simp only [if_true]
    split
    · left; rfl
    · split
      · right; right; rfl
      · right; left; rfl

end

end Tbfmm

namespace Tbfmm

section
variable (D : Nat) (periodic : Bool) (b : Nat)

theorem back_scalar (L sp k tpi : Int) (hL : 1 ≤ L) (hsp : 0 ≤ sp ∧ sp < 2 * L) (htp : 0 ≤ tpi ∧ tpi < 2 * L)
    (hk : if periodic then (k = -(2 * L) ∨ k = 0 ∨ k = 2 * L) else k = 0)
    (hadj : tpi / 2 ≤ (sp + k) / 2 + 1 ∧ (sp + k) / 2 ≤ tpi / 2 + 1) :
    ((rangeOf periodic L (tpi / 2)).1 ≤ (sp + k) / 2 - tpi / 2 ∧ (sp + k) / 2 - tpi / 2 ≤ (rangeOf periodic L (tpi / 2)).2) ∧
    shift1 periodic (2 * L) L ((sp + k) / 2) = k ∧ wrap1 periodic L ((sp + k) / 2) = sp / 2 := by
  unfold rangeOf shift1 wrap1
  cases periodic
  · simp only [Bool.false_eq_true, if_false] at hk ⊢
    subst hk
    refine ⟨⟨?_, ?_⟩, rfl, by simp⟩
    · split <;> omega
    · split <;> omega
  · simp only [if_true] at hk ⊢
    refine ⟨⟨by omega, by omega⟩, ?_, ?_⟩
    · rcases hk with hk | hk | hk <;> subst hk
      · rw [if_pos (by omega)]
      · rw [if_neg (by omega), if_neg (by omega)]
      · rw [if_neg (by omega), if_pos (by omega)]
    · rcases hk with hk | hk | hk <;> subst hk
      · rw [if_pos (by omega)]; omega
      · rw [if_neg (by omega), if_neg (by omega)]; simp
      · rw [if_neg (by omega), if_pos (by omega)]; omega

/-- the specification's inner body: source `s` shifted by `k` seen from target `t` -/
def specInner (t : Nat) (tp : List Int) (s : Nat) (k : List Int) : Option Elem :=
  let sp' := vadd (toI (decode D (b+1) s)) k
  if adjV (tp.map (· / 2)) (sp'.map (· / 2)) && !adjV tp sp' then some (Elem.m2l (b+1) t s (code7 (vsub sp' tp))) else none

def PhiM (ppos : List Int) (x : List Int × Nat) : Nat × List Int :=
  (srcOf D periodic b ppos x.1 x.2, shiftV periodic b (otherV ppos x.1))
def PsiM (ppos : List Int) (y : Nat × List Int) : List Int × Nat :=
  (vsub ((vadd (toI (decode D (b+1) y.1)) y.2).map (· / 2)) ppos, y.1 % 2^D)

def implInner (t : Nat) (ppos tp : List Int) (srcs : List Nat) (x : List Int × Nat) : Option Elem :=
  (ilistInner D periodic b t ppos tp x.1 x.2).bind fun i => if srcs.contains i.src then some (elemM2L (b+1) i) else none

theorem vsub_vadd_cancel (a c : List Int) (h : a.length = c.length) : vsub (vadd a c) a = c := by
  apply List.ext_getElem (by simp [vadd, vsub, h])
  intro i h1 h2
  simp only [vadd, vsub, List.getElem_zipWith]
  omega

theorem vadd_vsub_cancel (a c : List Int) (h : a.length = c.length) : vadd a (vsub c a) = c := by
  apply List.ext_getElem (by simp [vadd, vsub, h])
  intro i h1 h2
  simp only [vadd, vsub, List.getElem_zipWith]
  omega

variable (t : Nat) (tp ppos : List Int) (srcs : List Nat)
  (hD : tp.length = D) (hpp : tp.map (· / 2) = ppos)
  (htp : ∀ i (h : i < tp.length), 0 ≤ tp[i] ∧ tp[i] < (2:Int)^(b+1))

include hD hpp htp

theorem ppos_bounds (i : Nat) (h : i < ppos.length) : 0 ≤ ppos[i] ∧ ppos[i] < (2:Int)^b := by
  subst hpp
  simp only [List.getElem_map]
  have := htp i (by simpa using h)
  rw [pow_int_succ] at this
  omega

/-- forward: an enumerated (offset, child) pair produces exactly what the specification produces for
    the corresponding (source, shift) pair, provided the source is present -/
theorem impl_eq_spec (x : List Int × Nat) (hx1 : InRanges (ppos.map (rangeOf periodic (2^b))) x.1) (hx2 : x.2 < 2^D) :
    implInner D periodic b t ppos tp srcs x =
      if srcs.contains (PhiM D periodic b ppos x).1 then specInner D b t tp (PhiM D periodic b ppos x).1 (PhiM D periodic b ppos x).2 else none := by
  obtain ⟨off, ch⟩ := x
  simp only at hx1 hx2
  have hpl : ppos.length = D := by subst hpp; simpa using hD
  have hol : off.length = D := by have := hx1.1; simp at this; omega
  have hsl : (toI (decode D (b+1) (srcOf D periodic b ppos off ch))).length = D := by simp [toI]
  have hh := src_half D periodic b ppos off ch hx2 hpl (ppos_bounds D b tp ppos hD hpp htp) hx1
  have hH := half_shifted periodic b (toI (decode D (b+1) (srcOf D periodic b ppos off ch))) (otherV ppos off)
    (by simp [otherV, vadd, toI, hpl, hol]) hh
  unfold implInner ilistInner specInner PhiM
  simp only
  -- the "neighbour of the parent" test of the specification always holds here
  have hadj : adjV (tp.map (· / 2)) ((vadd (toI (decode D (b+1) (srcOf D periodic b ppos off ch))) (shiftV periodic b (otherV ppos off))).map (· / 2)) = true := by
    rw [hH, hpp, adjV_iff]
    refine ⟨by simp [otherV, vadd, hpl, hol], ?_⟩
    intro i h1 h2
    have hr := off_get periodic b ppos off hx1 i h1 (by omega)
    simp only [otherV, vadd, List.getElem_zipWith]
    unfold rangeOf at hr
    cases periodic
    · simp only [Bool.false_eq_true, if_false] at hr
      split at hr <;> split at hr <;> omega
    · simp only [if_true] at hr
      omega
  rw [hadj, Bool.true_and]
  rw [adjV_eq_all tp _ (by simp [vadd, shiftV, otherV, toI, hD, hpl, hol])]
  cases hall : (vsub (vadd (toI (decode D (b+1) (srcOf D periodic b ppos off ch))) (shiftV periodic b (otherV ppos off))) tp).all (fun r => decide (r.natAbs ≤ 1))
  · simp [elemM2L]
  · simp

/-- forward: the shift of an enumerated pair is one of the specification's shifts, and `PsiM` inverts `PhiM` -/
theorem phi_props (x : List Int × Nat) (hx1 : InRanges (ppos.map (rangeOf periodic (2^b))) x.1) (hx2 : x.2 < 2^D) :
    IsShift D periodic (2^(b+1)) (PhiM D periodic b ppos x).2 ∧ PsiM D b ppos (PhiM D periodic b ppos x) = x := by
  obtain ⟨off, ch⟩ := x
  simp only at hx1 hx2
  have hpl : ppos.length = D := by subst hpp; simpa using hD
  have hol : off.length = D := by have := hx1.1; simp at this; omega
  have hh := src_half D periodic b ppos off ch hx2 hpl (ppos_bounds D b tp ppos hD hpp htp) hx1
  have hH := half_shifted periodic b (toI (decode D (b+1) (srcOf D periodic b ppos off ch))) (otherV ppos off)
    (by simp [otherV, vadd, toI, hpl, hol]) hh
  unfold PhiM PsiM
  simp only
  refine ⟨shiftV_isShift D periodic b _ (by simp [otherV, vadd, hpl, hol]), ?_⟩
  rw [hH, srcOf_mod D periodic b ppos off ch hx2]
  unfold otherV
  rw [vsub_vadd_cancel ppos off (by omega)]

/-- backward: a (source, shift) pair accepted by the specification is enumerated, and `PhiM` inverts `PsiM` -/
theorem psi_props (y : Nat × List Int) (hy1 : y.1 < 2^(D*(b+1))) (hy2 : IsShift D periodic (2^(b+1)) y.2)
    (hs : (specInner D b t tp y.1 y.2).isSome) :
    InRanges (ppos.map (rangeOf periodic (2^b))) (PsiM D b ppos y).1 ∧ (PsiM D b ppos y).2 < 2^D ∧
      PhiM D periodic b ppos (PsiM D b ppos y) = y := by
  obtain ⟨s, k⟩ := y
  simp only at hy1 hy2 hs
  have hpl : ppos.length = D := by subst hpp; simpa using hD
  have hkl : k.length = D := hy2.1
  have hspl : (toI (decode D (b+1) s)).length = D := by simp [toI]
  -- the spec's test gives the adjacency of the halves
  have hadj : adjV (tp.map (· / 2)) ((vadd (toI (decode D (b+1) s)) k).map (· / 2)) = true := by
    unfold specInner at hs
    simp only at hs
    by_cases h : adjV (tp.map (· / 2)) ((vadd (toI (decode D (b+1) s)) k).map (· / 2)) = true
    · exact h
    · simp [h] at hs
  rw [adjV_iff] at hadj
  -- per-index scalar facts
  have sc : ∀ i (h1 : i < tp.length) (h2 : i < (toI (decode D (b+1) s)).length) (h3 : i < k.length),
      ((rangeOf periodic (2^b) (tp[i] / 2)).1 ≤ ((toI (decode D (b+1) s))[i] + k[i]) / 2 - tp[i] / 2 ∧
        ((toI (decode D (b+1) s))[i] + k[i]) / 2 - tp[i] / 2 ≤ (rangeOf periodic (2^b) (tp[i] / 2)).2) ∧
      shift1 periodic (2 * 2^b) (2^b) (((toI (decode D (b+1) s))[i] + k[i]) / 2) = k[i] ∧
      wrap1 periodic (2^b) (((toI (decode D (b+1) s))[i] + k[i]) / 2) = (toI (decode D (b+1) s))[i] / 2 := by
    intro i h1 h2 h3
    have hsp := toI_decode_bounds D (b+1) s i h2
    have ht := htp i h1
    have hk := hy2.2 i h3
    have ha := hadj.2 i (by simp; omega) (by simp [vadd]; omega)
    simp only [List.getElem_map, vadd, List.getElem_zipWith] at ha
    rw [pow_int_succ] at hsp ht hk
    exact back_scalar periodic _ _ _ _ (pow_int_pos b) hsp ht hk ha
  have hoff : otherV ppos (PsiM D b ppos (s, k)).1 = (vadd (toI (decode D (b+1) s)) k).map (· / 2) := by
    unfold otherV PsiM
    simp only
    rw [vadd_vsub_cancel]
    simp [vadd, hpl, hspl, hkl]
  refine ⟨?_, ?_, ?_⟩
  · unfold PsiM
    simp only
    refine ⟨by simp [vsub, vadd, hpl, hspl, hkl], ?_⟩
    intro i h1 h2
    have hi : i < D := by simp at h1; omega
    have := (sc i (by omega) (by omega) (by omega)).1
    subst hpp
    simpa [vsub, vadd] using this
  · exact Nat.mod_lt _ (Nat.pow_pos (by omega))
  · unfold PhiM
    rw [hoff]
    have e1 : shiftV periodic b ((vadd (toI (decode D (b+1) s)) k).map (· / 2)) = k := by
      apply List.ext_getElem (by simp [shiftV, vadd, hspl, hkl])
      intro i h1 h2
      have := (sc i (by omega) (by omega) (by omega)).2.1
      rw [← pow_int_succ] at this
      simpa [shiftV, vadd] using this
    have e2 : wrapV periodic b ((vadd (toI (decode D (b+1) s)) k).map (· / 2)) = (toI (decode D (b+1) s)).map (· / 2) := by
      apply List.ext_getElem (by simp [wrapV, vadd, hspl, hkl])
      intro i h1 h2
      have hi : i < D := by simp at h2; omega
      have := (sc i (by omega) (by omega) (by omega)).2.2
      simpa [wrapV, vadd] using this
    have e3 : srcOf D periodic b ppos (PsiM D b ppos (s, k)).1 (PsiM D b ppos (s, k)).2 = s := by
      unfold srcOf
      rw [hoff, e2, toI_decode_half]
      have : (toI (decode D b (s / 2^D))).map Int.toNat = decode D b (s / 2^D) := by
        simp only [toI, List.map_map]
        conv => rhs; rw [← List.map_id (decode D b (s / 2^D))]
        apply List.map_congr_left
        intro a _
        simp
      rw [this, encode_decode]
      · unfold PsiM child
        simp only
        exact Nat.div_add_mod' s (2^D)
      · rw [Nat.div_lt_iff_lt_mul (Nat.pow_pos (by omega)), ← Nat.pow_add]
        have : D * b + D = D * (b+1) := by rw [Nat.mul_succ]
        rw [this]; exact hy1
    rw [e1, e3]

end

end Tbfmm

namespace Tbfmm

/-- **characterisation of `getInteractionListForIndex`** (one target cell): the present entries of the
    interaction list of `t` are, as a multiset, the specification's transfer pairs of `t` -/
theorem ilist_target_perm (D : Nat) (periodic : Bool) (b : Nat) (t : Nat) (srcs : List Nat)
    (hlev : ¬ ((!periodic && decide (b+1 < 2)) || (periodic && decide (b+1 < 1))) = true)
    (hs : ∀ s ∈ srcs, s < 2^(D*(b+1))) (hnd : srcs.Nodup) :
    (((ilistCell D periodic (b+1) t 0).filter fun x => srcs.contains x.src).map (elemM2L (b+1))).Perm
      (srcs.flatMap fun s => ((imageShifts D periodic).map fun k => k.map (· * (2:Int)^(b+1))).filterMap fun k =>
        specInner D b t (toI (decode D (b+1) t)) s k) := by
  have hD : (toI (decode D (b+1) t)).length = D := by simp [toI]
  have hpp : (toI (decode D (b+1) t)).map (· / 2) = toI (decode D b (parent D t)) := by
    rw [toI_decode_half]; rfl
  have htp : ∀ i (h : i < (toI (decode D (b+1) t)).length), 0 ≤ (toI (decode D (b+1) t))[i] ∧ (toI (decode D (b+1) t))[i] < (2:Int)^(b+1) :=
    fun i h => toI_decode_bounds D (b+1) t i h
  rw [ilistCell_eq D periodic b t hlev, flatMap_filterMap_prod, map_filter_filterMap, flatMap_filterMap_prod]
  have hlim : (1:Int) ≤ 2^(b+1) := pow_int_pos (b+1)
  apply filterMap_perm_of_inv _ _ (implInner D periodic b t (toI (decode D b (parent D t))) (toI (decode D (b+1) t)) srcs) _
    (PhiM D periodic b (toI (decode D b (parent D t)))) (PsiM D b (toI (decode D b (parent D t))))
  · exact nodup_prodList _ _ (nodup_odometer _) List.nodup_range
  · refine nodup_prodList _ _ hnd ?_
    rw [List.Nodup, List.pairwise_map]
    have hni : (imageShifts D periodic).Nodup := by
      unfold imageShifts
      cases periodic
      · simp
      · simpa using nodup_odometer _
    refine hni.imp_of_mem ?_
    intro a c ha hc hne e
    apply hne
    have hla : a.length = c.length := by simpa using congrArg List.length e
    apply List.ext_getElem hla
    intro i h1 h2
    have := congrArg (fun l => l[i]?) e
    simp only [List.getElem?_map, List.getElem?_eq_getElem h1, List.getElem?_eq_getElem h2, Option.map_some] at this
    have h3 := Option.some.inj this
    have hpos : (0:Int) < 2^(b+1) := by omega
    exact Int.eq_of_mul_eq_mul_right (by omega) h3
  · intro x hx hsome
    rw [mem_prodList, mem_odometer, List.mem_range] at hx
    have e := impl_eq_spec D periodic b t _ _ srcs hD hpp htp x hx.1 hx.2
    have p := phi_props D periodic b _ _ hD hpp htp x hx.1 hx.2
    rw [e] at hsome
    by_cases hc : srcs.contains (PhiM D periodic b (toI (decode D b (parent D t))) x).1 = true
    · rw [if_pos hc] at e
      refine ⟨?_, e.symm, p.2⟩
      rw [mem_prodList]
      exact ⟨by simpa using hc, (mem_shifts D periodic _ hlim _).2 p.1⟩
    · rw [if_neg hc] at hsome
      simp at hsome
  · intro y hy hsome
    rw [mem_prodList] at hy
    have q := psi_props D periodic b t _ _ hD hpp htp y (hs _ hy.1) ((mem_shifts D periodic _ hlim _).1 hy.2) hsome
    refine ⟨?_, ?_, q.2.2⟩
    · rw [mem_prodList, mem_odometer, List.mem_range]
      exact ⟨q.1, q.2.1⟩
    · have e := impl_eq_spec D periodic b t _ _ srcs hD hpp htp _ q.1 q.2.1
      rw [e, q.2.2, if_pos (by simpa using hy.1)]

end Tbfmm
