import Tbfmm.Proofs.Refine
/-!
Target/source executor (C09): the group walks of `TbfAlgorithmTsm` perform — as a multiset — exactly the
per-target-cell list entries whose source exists in the *source* tree.
-/
namespace Tbfmm

def elemP2PTsm (x : Inter) : Elem := Elem.p2pTsm x.src x.tgt x.code

/-- without the existence test, the internal/external split loses nothing -/
theorem splitInOut_all (g : Group) (all : List Inter) :
    ((splitInOut g false all).2 ++ (splitInOut g false all).1).Perm all := by
  simp only [splitInOut, Bool.not_false, Bool.true_or, Bool.and_true]
  exact List.perm_append_comm.trans (List.filter_append_perm _ _)

theorem m2lTsm_group_elems (D : Nat) (periodic : Bool) (level : Nat) (sg : List Group) (inv : GroupsInv sg) (g : Group) :
    (((mapIndexesAndBlocks sg ((ilistBlock D periodic level g false).2 ++ (ilistBlock D periodic level g false).1)).flatMap
        fun (p : Nat × List Inter) => m2lBetween level (sg.getD p.1 []) p.2).flatMap elemsOfCall).Perm
      ((((g.zipIdx).flatMap fun (c, k) => ilistCell D periodic level c k).filter (presentFrom sg 0)).map (elemM2L level)) := by
  rw [between_elems]
  have p1 := (mapIndexesAndBlocks_filter sg inv ((ilistBlock D periodic level g false).2 ++ (ilistBlock D periodic level g false).1)).map (elemM2L level)
  refine p1.trans ?_
  apply List.Perm.map
  apply List.Perm.filter
  exact splitInOut_all g _

/-- **M2L pass of one level, target/source mode** -/
theorem m2lLevelTsm_elems (D : Nat) (periodic : Bool) (level : Nat) (tg sg : List Group) (inv : GroupsInv sg) :
    ((m2lLevelTsm D periodic level tg sg).flatMap elemsOfCall).Perm
      ((tg.flatMap fun g => ((g.zipIdx).flatMap fun (c, k) => ilistCell D periodic level c k).filter (presentFrom sg 0)).map (elemM2L level)) := by
  unfold m2lLevelTsm
  induction tg with
  | nil => simp
  | cons g tg ih =>
    simp only [List.flatMap_cons, List.flatMap_append, List.map_append]
    exact List.Perm.append (m2lTsm_group_elems D periodic level sg inv g) ih

theorem p2pTsm_between_elems (gs : List Group) (ps : List (Nat × List Inter)) :
    (ps.flatMap fun (p : Nat × List Inter) =>
        p.2.filterMap fun x => if (gs.getD p.1 []).contains x.src then some (Call.p2pTsm x.src x.tgt x.code) else none).flatMap elemsOfCall =
      (ps.flatMap fun p => p.2.filter fun x => (gs.getD p.1 []).contains x.src).map elemP2PTsm := by
  have one : ∀ (G : Group) (sl : List Inter),
      (sl.filterMap fun x => if G.contains x.src then some (Call.p2pTsm x.src x.tgt x.code) else none).flatMap elemsOfCall =
        (sl.filter fun x => G.contains x.src).map elemP2PTsm := by
    intro G sl
    induction sl with
    | nil => rfl
    | cons x sl ih =>
      by_cases h : G.contains x.src = true
      · simp only [List.filterMap_cons, h, if_true, List.flatMap_cons, elemsOfCall, List.filter_cons, List.map_cons, ih]
        rfl
      · simp only [List.filterMap_cons, h, Bool.false_eq_true, if_false, List.filter_cons, ih]
  induction ps with
  | nil => rfl
  | cons p ps ih => simp only [List.flatMap_cons, List.flatMap_append, List.map_append, ih, one]

/-- **P2P pass, target/source mode**: full neighbour list plus the self entry of every target leaf,
    kept when the source leaf exists -/
theorem p2pAllTsm_elems (D : Nat) (periodic : Bool) (H : Nat) (tg sg : List Group) (inv : GroupsInv sg) :
    ((p2pAllTsm D periodic H tg sg).flatMap elemsOfCall).Perm
      ((tg.flatMap fun g => ((((g.zipIdx).flatMap fun (c, k) => nlistCell D periodic (H-1) c k false) ++ selfListBlock D g).filter (presentFrom sg 0))).map elemP2PTsm) := by
  unfold p2pAllTsm
  induction tg with
  | nil => simp
  | cons g tg ih =>
    simp only [List.flatMap_cons, List.flatMap_append, List.map_append]
    refine List.Perm.append ?_ ih
    rw [p2pTsm_between_elems]
    have p1 := (mapIndexesAndBlocks_filter sg inv ((nlistBlock D periodic (H-1) g false false).2 ++ (nlistBlock D periodic (H-1) g false false).1 ++ selfListBlock D g)).map elemP2PTsm
    refine p1.trans ?_
    apply List.Perm.map
    apply List.Perm.filter
    exact List.Perm.append_right _ (splitInOut_all g _)

end Tbfmm

namespace Tbfmm

theorem filter_eq_singleton {α} (l : List α) (p : α → Bool) (a : α) (hn : l.Nodup) (ha : a ∈ l)
    (hp : ∀ x ∈ l, p x = true ↔ x = a) : l.filter p = [a] := by
  induction l with
  | nil => simp at ha
  | cons x l ih =>
    rw [List.nodup_cons] at hn
    simp only [List.mem_cons] at ha
    rw [List.filter_cons]
    by_cases hx : x = a
    · subst hx
      rw [if_pos ((hp x (by simp)).2 rfl)]
      congr 1
      rw [List.filter_eq_nil_iff]
      intro y hy hpy
      have := (hp y (by simp [hy])).1 hpy
      subst this
      exact hn.1 hy
    · have : ¬ p x = true := fun h => hx ((hp x (by simp)).1 h)
      rw [if_neg this]
      rcases ha with rfl | ha
      · exact absurd rfl hx
      · exact ih hn.2 ha (fun y hy => hp y (by simp [hy]))

section
variable (D : Nat) (periodic : Bool) (l : Nat)

/-- the neighbour entry reached through `off` -/
def mkN (t : Nat) (cpos off : List Int) : Inter :=
  { tgt := t, src := srcN D periodic l cpos off, tpos := 0, code := code3 off }

def nlistInnerF (t : Nat) (cpos off : List Int) : Option Inter :=
  if off.all (· == 0) then none else
  if !false || (3^D)/2 < code3 off then some { tgt := t, src := srcN D periodic l cpos off, tpos := 0, code := code3 off } else none

theorem nlistCell_eqF (t : Nat) :
    nlistCell D periodic l t 0 false =
      (odometer ((toI (decode D l t)).map (rangeOf periodic (2^l)))).filterMap (nlistInnerF D periodic l t (toI (decode D l t))) := by
  unfold nlistCell
  rfl

theorem nlistInnerF_eq (t : Nat) (cpos off : List Int) :
    nlistInnerF D periodic l t cpos off = if off.all (· == 0) then none else some (mkN D periodic l t cpos off) := by
  unfold nlistInnerF mkN
  simp

theorem zeros_inRanges (tp : List Int) (hD : tp.length = D) : InRanges (tp.map (rangeOf periodic (2^l))) (List.replicate D 0) := by
  refine ⟨by simp [hD], ?_⟩
  intro i h1 h2
  simp only [List.getElem_map, List.getElem_replicate, rangeOf]
  cases periodic
  · simp only [Bool.false_eq_true, if_false]
    constructor
    · split <;> omega
    · split <;> omega
  · simp

theorem allzero_iff (off : List Int) (hl : off.length = D) : off.all (· == 0) = true ↔ off = List.replicate D 0 := by
  rw [all_iff_get]
  constructor
  · intro h
    apply List.ext_getElem (by simp [hl])
    intro i h1 h2
    simpa using h i h1
  · rintro rfl i hi
    simp

theorem srcN_zeros (t : Nat) (ht : t < 2^(D*l)) :
    srcN D periodic l (toI (decode D l t)) (List.replicate D 0) = t := by
  unfold srcN
  have : (wrapN periodic l (vadd (toI (decode D l t)) (List.replicate D 0))).map Int.toNat = decode D l t := by
    apply List.ext_getElem (by simp [wrapN, vadd, toI])
    intro i h1 h2
    have hb := toI_decode_bounds D l t i (by simpa [toI] using h2)
    simp only [toI, List.getElem_map] at hb
    simp only [wrapN, vadd, toI, List.getElem_map, List.getElem_zipWith, List.getElem_replicate, wrapN1]
    cases periodic
    · simp
    · simp only [if_true]
      have := wrapP_back ((2:Int)^l) ((decode D l t)[i] : Int) 0 (pow_int_pos l) hb (Or.inr (Or.inl rfl))
      simp only [Int.add_zero, Int.ofNat_eq_natCast] at this ⊢
      rw [this]; simp
  rw [this, encode_decode D l t ht]

/-- the full neighbour list plus the self entry enumerates every offset of the odometer once -/
theorem nlistFull_perm (t : Nat) (ht : t < 2^(D*l)) :
    (nlistCell D periodic l t 0 false ++ [({ tgt := t, src := t, tpos := 0, code := code3 (List.replicate D 0) } : Inter)]).Perm
      ((odometer ((toI (decode D l t)).map (rangeOf periodic (2^l)))).map (mkN D periodic l t (toI (decode D l t)))) := by
  rw [nlistCell_eqF]
  have hD : (toI (decode D l t)).length = D := by simp [toI]
  generalize hO : odometer ((toI (decode D l t)).map (rangeOf periodic (2^l))) = O
  have hOn : O.Nodup := by rw [← hO]; exact nodup_odometer _
  have hz : List.replicate D (0:Int) ∈ O := by
    rw [← hO, mem_odometer]; exact zeros_inRanges D periodic l _ hD
  have hlen : ∀ off ∈ O, off.length = D := by
    intro off ho
    rw [← hO, mem_odometer] at ho
    have := ho.1; simp at this; omega
  have e1 : O.filterMap (nlistInnerF D periodic l t (toI (decode D l t))) =
      (O.filter fun off => !off.all (· == 0)).map (mkN D periodic l t (toI (decode D l t))) := by
    clear hz hOn hO
    induction O with
    | nil => rfl
    | cons off O ih =>
      have ih' := ih (fun o ho => hlen o (by simp [ho]))
      rw [List.filterMap_cons, nlistInnerF_eq, List.filter_cons]
      cases h : off.all (· == 0)
      · simp [ih']
      · simp [ih']
  have e2 : [({ tgt := t, src := t, tpos := 0, code := code3 (List.replicate D 0) } : Inter)] =
      (O.filter fun off => off.all (· == 0)).map (mkN D periodic l t (toI (decode D l t))) := by
    rw [filter_eq_singleton O _ (List.replicate D 0) hOn hz (fun x hx => allzero_iff D x (hlen x hx))]
    simp only [List.map_cons, List.map_nil, mkN]
    rw [srcN_zeros D periodic l t ht]
  rw [e1, e2, ← List.map_append]
  apply List.Perm.map
  have := List.filter_append_perm (fun off : List Int => off.all (· == 0)) O
  refine (List.perm_append_comm).trans ?_
  refine List.Perm.trans (List.Perm.of_eq ?_) this
  congr 1

/-- the specification's inner body for one-sided direct pairs -/
def specTInner (t : Nat) (tp : List Int) (s : Nat) (k : List Int) : Option Elem :=
  let off := vsub (vadd (toI (decode D l s)) k) tp
  if off.all (fun o => o.natAbs ≤ 1) then some (Elem.p2pTsm s t (code3 off)) else none

def implTInner (t : Nat) (tp : List Int) (srcs : List Nat) (off : List Int) : Option Elem :=
  if srcs.contains (srcN D periodic l tp off) then some (Elem.p2pTsm (srcN D periodic l tp off) t (code3 off)) else none

end

/-- **characterisation of the target/source neighbour enumeration** (one target leaf): full neighbour list
    plus self entry, kept when the source leaf exists = the specification's one-sided direct pairs -/
theorem nlistTsm_target_perm (D : Nat) (periodic : Bool) (l : Nat) (t : Nat) (srcs : List Nat) (ht : t < 2^(D*l))
    (hs : ∀ s ∈ srcs, s < 2^(D*l)) (hnd : srcs.Nodup) :
    (((nlistCell D periodic l t 0 false ++ [({ tgt := t, src := t, tpos := 0, code := code3 (List.replicate D 0) } : Inter)]).filter
        fun x => srcs.contains x.src).map elemP2PTsm).Perm
      (srcs.flatMap fun s => ((imageShifts D periodic).map fun k => k.map (· * (2:Int)^l)).filterMap fun k =>
        specTInner D l t (toI (decode D l t)) s k) := by
  have hD : (toI (decode D l t)).length = D := by simp [toI]
  have htp : ∀ i (h : i < (toI (decode D l t)).length), 0 ≤ (toI (decode D l t))[i] ∧ (toI (decode D l t))[i] < (2:Int)^l :=
    fun i h => toI_decode_bounds D l t i h
  refine (((nlistFull_perm D periodic l t ht).filter _).map _).trans ?_
  have e : (((odometer ((toI (decode D l t)).map (rangeOf periodic (2^l)))).map (mkN D periodic l t (toI (decode D l t)))).filter
      fun x => srcs.contains x.src).map elemP2PTsm =
      (odometer ((toI (decode D l t)).map (rangeOf periodic (2^l)))).filterMap (implTInner D periodic l t (toI (decode D l t)) srcs) := by
    generalize odometer ((toI (decode D l t)).map (rangeOf periodic (2^l))) = O
    induction O with
    | nil => rfl
    | cons off O ih =>
      simp only [List.map_cons, List.filter_cons, List.filterMap_cons, implTInner, mkN] at ih ⊢
      by_cases h : srcs.contains (srcN D periodic l (toI (decode D l t)) off) = true
      · simp only [h, if_true, List.map_cons, ih, elemP2PTsm]
      · simp only [h, Bool.false_eq_true, if_false, ih]
  rw [e, flatMap_filterMap_prod]
  have hlim : (1:Int) ≤ 2^l := pow_int_pos l
  apply filterMap_perm_of_inv _ _ _ _ (PhiP D periodic l (toI (decode D l t))) (PsiP D l (toI (decode D l t)))
  · exact nodup_odometer _
  · refine nodup_prodList _ _ hnd ?_
    rw [List.Nodup, List.pairwise_map]
    have hni : (imageShifts D periodic).Nodup := by
      unfold imageShifts
      cases periodic
      · simp
      · simpa using nodup_odometer _
    refine hni.imp_of_mem ?_
    intro a c ha hc hne e
    apply hne
    have hla : a.length = c.length := by simpa using congrArg List.length e
    apply List.ext_getElem hla
    intro i h1 h2
    have := congrArg (fun l => l[i]?) e
    simp only [List.getElem?_map, List.getElem?_eq_getElem h1, List.getElem?_eq_getElem h2, Option.map_some] at this
    have h3 := Option.some.inj this
    exact Int.eq_of_mul_eq_mul_right (by omega) h3
  · intro x hx hsome
    rw [mem_odometer] at hx
    have hpp := psiPhiP D periodic l _ hD htp x hx
    unfold implTInner at hsome ⊢
    by_cases hc : srcs.contains (srcN D periodic l (toI (decode D l t)) x) = true
    · refine ⟨?_, ?_, hpp⟩
      · rw [mem_prodList]
        exact ⟨by simpa [PhiP] using hc, (mem_shifts D periodic _ hlim _).2 (phiP_isShift D periodic l _ hD htp x hx)⟩
      · rw [if_pos hc]
        unfold specTInner
        simp only
        have hpp' := hpp
        unfold PsiP at hpp'
        rw [hpp']
        have hall : x.all (fun o => decide (o.natAbs ≤ 1)) = true := by
          rw [all_iff_get]
          intro i hi
          have hxl : x.length = D := by have := hx.1; simp at this; omega
          have := (offN_props D periodic l _ hD htp x hx i (by omega) hi).2.2
          simp only [decide_eq_true_eq]
          omega
        rw [if_pos hall]
        rfl
    · rw [if_neg hc] at hsome
      simp at hsome
  · intro y hy hsome
    rw [mem_prodList] at hy
    have hall : (vsub (vadd (toI (decode D l y.1)) y.2) (toI (decode D l t))).all (fun o => decide (o.natAbs ≤ 1)) = true := by
      unfold specTInner at hsome
      simp only at hsome
      by_cases h : (vsub (vadd (toI (decode D l y.1)) y.2) (toI (decode D l t))).all (fun o => decide (o.natAbs ≤ 1)) = true
      · exact h
      · simp [h] at hsome
    have q := psiP_props' D periodic l _ hD htp y (hs _ hy.1) ((mem_shifts D periodic _ hlim _).1 hy.2) hall
    refine ⟨?_, ?_, q.2⟩
    · rw [mem_odometer]; exact q.1
    · unfold implTInner specTInner
      simp only
      have h1 : srcN D periodic l (toI (decode D l t)) (PsiP D l (toI (decode D l t)) y) = y.1 := by
        have := congrArg Prod.fst q.2
        simpa [PhiP] using this
      rw [h1, if_pos (by simpa using hy.1), if_pos hall]
      rfl

end Tbfmm

namespace Tbfmm

theorem shapeOf_fst (ls : List Leaf) : (shapeOf ls).map (·.1) = ls.map (·.idx) := by
  simp [shapeOf, List.map_map]

/-- everything the refinement needs to know about a built tree -/
structure BuiltFacts (D H : Nat) (T : Tree) (ls : List Leaf) : Prop where
  hH : T.H = H
  hD : T.D = D
  pg : T.pgroups.flatten = ls
  sorted : (ls.map (·.idx)).Pairwise (· < ·)
  leaves : sortDedup ((shapeOf ls).map (·.1)) = ls.map (·.idx)
  bound : ∀ i ∈ ls.map (·.idx), i < 2^(D*(H-1))
  cells : ∀ l, l < H → (T.level l).flatten = specCells D (H-1) (ls.map (·.idx)) l
  inv : ∀ l, l < H → GroupsInv (T.level l)
  last : T.leafGroups = T.level (H-1)
  links : ∀ l, l + 1 < H → linksOf (calls (parent D) (T.level l) (T.level (l+1))) = (T.level (l+1)).flatten.map (link (parent D))

theorem built_facts (D H bs : Nat) (mode : Bool) (leafIdx : List Nat) (hbs : 0 < bs) (hne : leafIdx ≠ []) (hH : 1 ≤ H)
    (hlt : ∀ i ∈ leafIdx, i < 2^(D*(H-1))) :
    BuiltFacts D H (Tree.build D H bs mode leafIdx) (Tree.build D H bs mode leafIdx).pgroups.flatten := by
  obtain ⟨_, hH', hD'⟩ := build_levels_eq D H bs mode leafIdx hne
  have hpg := build_pgroups_flatten D H bs mode leafIdx hbs hne
  have hsorted : (((Tree.build D H bs mode leafIdx).pgroups.flatten).map (·.idx)).Pairwise (· < ·) := by
    rw [hpg]; exact leavesOf_sorted _ (sortPairs_sorted _)
  refine ⟨hH', hD', rfl, hsorted, ?_, ?_, ?_, ?_, ?_, ?_⟩
  · rw [shapeOf_fst]; exact sortDedup_of_sorted _ hsorted
  · intro i hi
    rw [List.mem_map] at hi
    obtain ⟨l, hl, rfl⟩ := hi
    rw [hpg] at hl
    obtain ⟨p, hp⟩ := leavesOf_idx_mem _ l hl
    have := (sortPairs_perm _).subset hp
    obtain ⟨hp1, hp2⟩ := List.mem_zipIdx' this
    rw [hp2]; exact hlt _ (List.getElem_mem hp1)
  · intro l hl
    have := built_level_cells D H bs mode leafIdx hbs hne (H - 1 - l) (by omega)
    have e : H - 1 - (H - 1 - l) = l := by omega
    rw [e] at this
    rw [this, ← hpg, cellsUp_eq_specCells D (H-1) (H-1-l) (by omega) _ hsorted, e]
  · intro l hl
    exact built_groupsInv D H bs mode leafIdx hbs hne l hl
  · exact (built_level_last D H bs mode leafIdx hbs hne).symm
  · intro l hl
    exact C01_links_of_built_tree' D H bs mode leafIdx hbs hne l hl

theorem leafElems_flat (pg : List PGroup) (mk : Nat → List Nat → Call) (me : Nat → Nat → Elem)
    (hmk : ∀ i ps, elemsOfCall (mk i ps) = [me i ps.length]) :
    (pg.flatMap fun g => g.map fun l => mk l.idx l.parts).flatMap elemsOfCall = pg.flatten.map fun l => me l.idx l.parts.length := by
  induction pg with
  | nil => rfl
  | cons g pg ih =>
    simp only [List.flatMap_cons, List.flatMap_append, List.flatten_cons, List.map_append, ih]
    congr 1
    induction g with
    | nil => rfl
    | cons l g ihg => simp only [List.map_cons, List.flatMap_cons, hmk, ihg]; rfl

theorem zipIdx_flatMap_fst {α β} (g : List α) (s : Nat) (F : α → List β) : ((g.zipIdx s).flatMap fun z => F z.1) = g.flatMap F := by
  induction g generalizing s with
  | nil => rfl
  | cons c g ih => simp only [List.zipIdx_cons, List.flatMap_cons, ih]

/-- the per-group target/source neighbour enumeration does not see the grouping of the targets -/
theorem perGroupTsm_eq_perCell (D : Nat) (periodic : Bool) (l : Nat) (P : Nat → Bool) (gs : List Group) :
    ((gs.flatMap fun g => (((g.zipIdx).flatMap fun (c, k) => nlistCell D periodic l c k false) ++ selfListBlock D g).filter fun (x : Inter) => P x.src).map elemP2PTsm).Perm
      ((gs.flatten.flatMap fun c => (nlistCell D periodic l c 0 false ++ [({ tgt := c, src := c, tpos := 0, code := code3 (List.replicate D 0) } : Inter)]).filter fun (x : Inter) => P x.src).map elemP2PTsm) := by
  have one : ∀ (g : Group),
      (((((g.zipIdx).flatMap fun (c, k) => nlistCell D periodic l c k false) ++ selfListBlock D g).filter fun (x : Inter) => P x.src).map elemP2PTsm).Perm
        ((g.flatMap fun c => (nlistCell D periodic l c 0 false ++ [({ tgt := c, src := c, tpos := 0, code := code3 (List.replicate D 0) } : Inter)]).filter fun (x : Inter) => P x.src).map elemP2PTsm) := by
    intro g
    unfold selfListBlock
    rw [List.filter_append, List.map_append, List.filter_flatMap, List.map_flatMap, List.map_eq_flatMap (l := g.zipIdx),
      List.filter_flatMap, List.map_flatMap, List.map_flatMap]
    refine (flatMap_append_perm _ _ _).symm.trans (List.Perm.of_eq ?_)
    rw [← zipIdx_flatMap_fst g 0 (fun c => ((nlistCell D periodic l c 0 false ++ [({ tgt := c, src := c, tpos := 0, code := code3 (List.replicate D 0) } : Inter)]).filter fun (x : Inter) => P x.src).map elemP2PTsm)]
    apply flatMap_congr'
    rintro ⟨c, k⟩ _
    simp only [List.filter_append, List.map_append]
    congr 1
    · rw [nlistCell_tpos D periodic l c k false]
      simp only [List.filter_map, List.map_map]
      apply List.map_congr_left
      intro x _
      rfl
    · simp only [List.filter_cons, List.filter_nil]
      split <;> rfl
  induction gs with
  | nil => simp
  | cons g gs ih =>
    simp only [List.flatMap_cons, List.flatten_cons, List.flatMap_append, List.map_append]
    exact List.Perm.append (one g) ih

end Tbfmm

namespace Tbfmm

theorem p2pTsm_level_char (D : Nat) (periodic : Bool) (l : Nat) (tgts srcs : List Nat)
    (ht : ∀ t ∈ tgts, t < 2^(D*l)) (hs : ∀ s ∈ srcs, s < 2^(D*l)) (hnd : srcs.Nodup) :
    ((tgts.flatMap fun c => (nlistCell D periodic l c 0 false ++ [({ tgt := c, src := c, tpos := 0, code := code3 (List.replicate D 0) } : Inter)]).filter
        fun (x : Inter) => srcs.contains x.src).map elemP2PTsm).Perm
      (specP2PTsm D periodic l tgts srcs) := by
  unfold specP2PTsm
  simp only []
  rw [List.map_flatMap]
  apply flatMap_perm_of_forall
  intro t htm
  refine (nlistTsm_target_perm D periodic l t srcs (ht t htm) hs hnd).trans (List.Perm.of_eq ?_)
  rw [List.flatMap_map]
  rfl

/-- **the target/source executor refines the cell-level specification** (C09): for source and target
    trees built from any two particle sets with any block sizes and grouping modes, periodic or not, for
    every flag set and upper level, in sequential or OpenMP submission order, the multiset of elementary
    interactions performed is exactly `specElemsTsm` -/
theorem execTsm_refines_spec (D H bsS bsT : Nat) (modeS modeT : Bool) (srcIdx tgtIdx : List Nat) (periodic : Bool)
    (flags upper : Nat) (omp : Bool)
    (hbsS : 0 < bsS) (hbsT : 0 < bsT) (hneS : srcIdx ≠ []) (hneT : tgtIdx ≠ []) (hH : 1 ≤ H)
    (hltS : ∀ i ∈ srcIdx, i < 2^(D*(H-1))) (hltT : ∀ i ∈ tgtIdx, i < 2^(D*(H-1))) :
    ((executeTsm (Tree.build D H bsS modeS srcIdx) (Tree.build D H bsT modeT tgtIdx) periodic flags upper omp).flatMap elemsOfCall).Perm
      (specElemsTsm D H periodic (shapeOf (Tree.build D H bsS modeS srcIdx).pgroups.flatten)
        (shapeOf (Tree.build D H bsT modeT tgtIdx).pgroups.flatten) flags upper) := by
  have FS := built_facts D H bsS modeS srcIdx hbsS hneS hH hltS
  have FT := built_facts D H bsT modeT tgtIdx hbsT hneT hH hltT
  generalize Tree.build D H bsS modeS srcIdx = tS at *
  generalize Tree.build D H bsT modeT tgtIdx = tT at *
  generalize hlS : tS.pgroups.flatten = lsS at *
  generalize hlT : tT.pgroups.flatten = lsT at *
  unfold executeTsm specElemsTsm
  simp only [List.flatMap_append]
  rw [FS.leaves, FT.leaves]
  rw [List.append_assoc (_ ++ _ ++ _ ++ _)]
  refine List.Perm.append (List.Perm.append (List.Perm.append (List.Perm.append ?_ ?_) ?_) ?_) ?_
  · -- P2M (sources)
    apply List.Perm.of_eq
    by_cases hf : hasFlag flags flagP2M = true
    · simp only [hf, if_true, Bool.true_and, p2mAll, FS.hH, decide_eq_true_eq]
      by_cases hu : H > upper
      · simp only [hu, if_true]
        rw [leafElems_flat _ Call.p2m Elem.p2m (fun _ _ => rfl), hlS, List.map_map]
        apply List.map_congr_left
        intro l hl
        simp only [Function.comp]
        rw [nOf_leaf lsS FS.sorted l hl]
      · simp [hu]
    · simp [hf]
  · -- M2M (sources)
    by_cases hf : hasFlag flags flagM2M = true
    · simp only [hf, if_true, m2mAll, FS.hH, FS.hD]
      unfold specLinks
      simp only [List.flatMap_assoc]
      rw [List.map_flatMap]
      refine (List.Perm.flatMap_right _ (List.reverse_perm _)).trans (List.Perm.of_eq ?_)
      apply flatMap_congr'
      intro l hl
      have hl' : l + 1 < H := by
        simp only [midLevels, List.mem_filter, List.mem_range] at hl; omega
      rw [m2mLevel_elems, FS.links l hl', FS.cells (l+1) hl', List.map_map, List.map_map]
      rfl
    · simp [hf]
  · -- M2L (targets from sources)
    by_cases hf : hasFlag flags flagM2L = true
    · simp only [hf, if_true, FT.hH, FT.hD]
      simp only [List.flatMap_assoc]
      apply flatMap_perm_of_forall
      intro l hl
      have hl' : l < H := by
        simp only [m2lLevels, List.mem_filter, List.mem_range] at hl; omega
      refine (m2lLevelTsm_elems D periodic l (tT.level l) (tS.level l) (FS.inv l hl')).trans ?_
      have hp : (presentFrom (tS.level l) 0) = fun x => (tS.level l).flatten.contains x.src := by
        funext x; exact presentFrom_zero _ x
      rw [hp]
      rw [perGroup_eq_perCell (fun c k => ilistCell D periodic l c k) (fun s => (tS.level l).flatten.contains s) (elemM2L l)
        (fun c k => ilistCell_tpos D periodic l c k) (fun _ _ => rfl) (tT.level l)]
      rw [FS.cells l hl', FT.cells l hl']
      exact m2l_level_char D periodic l _ _ (cell_bound D (H-1) l (by omega) _ FS.bound)
        ((sortDedup_sorted _).imp (fun h => Nat.ne_of_lt h))
    · simp [hf]
  · -- L2L (targets)
    apply List.Perm.of_eq
    by_cases hf : hasFlag flags flagL2L = true
    · simp only [hf, if_true, l2lAll, FT.hH, FT.hD]
      unfold specLinks
      simp only [List.flatMap_assoc]
      rw [List.map_flatMap]
      apply flatMap_congr'
      intro l hl
      have hl' : l + 1 < H := by
        simp only [midLevels, List.mem_filter, List.mem_range] at hl; omega
      rw [l2lLevel_elems, FT.links l hl', FT.cells (l+1) hl', List.map_map, List.map_map]
      rfl
    · simp [hf]
  · -- L2P and P2P, in either submission order
    have hl2p : ((if hasFlag flags flagL2P = true then l2pAll tT upper else []).flatMap elemsOfCall) =
        (if (hasFlag flags flagL2P && decide (H > upper)) = true then lsT.map (fun l => l.idx) |>.map (fun i =>
          Elem.l2p i (((shapeOf lsT).filter (·.1 == i)).map (·.2.length)).sum) else []) := by
      by_cases hf : hasFlag flags flagL2P = true
      · simp only [hf, if_true, Bool.true_and, l2pAll, FT.hH, decide_eq_true_eq]
        by_cases hu : H > upper
        · simp only [hu, if_true]
          rw [leafElems_flat _ Call.l2p Elem.l2p (fun _ _ => rfl), hlT, List.map_map]
          apply List.map_congr_left
          intro l hl
          simp only [Function.comp]
          rw [nOf_leaf lsT FT.sorted l hl]
        · simp [hu]
      · simp [hf]
    have hp2p : ((if hasFlag flags flagP2P = true then p2pAllTsm tT.D periodic tT.H tT.leafGroups tS.leafGroups else []).flatMap elemsOfCall).Perm
        (if hasFlag flags flagP2P = true then specP2PTsm D periodic (H-1) (lsT.map (·.idx)) (lsS.map (·.idx)) else []) := by
      by_cases hf : hasFlag flags flagP2P = true
      · simp only [hf, if_true, FT.hH, FT.hD]
        rw [FS.last, FT.last]
        refine (p2pAllTsm_elems D periodic H (tT.level (H-1)) (tS.level (H-1)) (FS.inv (H-1) (by omega))).trans ?_
        have hp : (presentFrom (tS.level (H-1)) 0) = fun x => (tS.level (H-1)).flatten.contains x.src := by
          funext x; exact presentFrom_zero _ x
        rw [hp]
        refine (perGroupTsm_eq_perCell D periodic (H-1) (fun s => (tS.level (H-1)).flatten.contains s) (tT.level (H-1))).trans ?_
        have c0 : ∀ (ls : List Leaf), (ls.map (·.idx)).Pairwise (· < ·) → specCells D (H-1) (ls.map (·.idx)) (H-1) = ls.map (·.idx) := by
          intro ls hs
          unfold specCells
          simp only [Nat.sub_self, Nat.mul_zero, Nat.pow_zero, Nat.div_one, List.map_id']
          exact sortDedup_of_sorted _ hs
        rw [FS.cells (H-1) (by omega), FT.cells (H-1) (by omega), c0 lsS FS.sorted, c0 lsT FT.sorted]
        exact p2pTsm_level_char D periodic (H-1) _ _ FT.bound FS.bound (FS.sorted.imp (fun h => Nat.ne_of_lt h))
      · simp [hf]
    cases omp
    · simp only [Bool.false_eq_true, if_false, List.flatMap_append]
      rw [hl2p]
      exact List.Perm.append (List.Perm.refl _) hp2p
    · simp only [if_true, List.flatMap_append]
      rw [hl2p]
      exact List.perm_append_comm.trans (List.Perm.append (List.Perm.refl _) hp2p)

end Tbfmm
