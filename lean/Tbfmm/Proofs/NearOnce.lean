import Tbfmm.Proofs.PairOnce
import Tbfmm.Proofs.Codes
/-!
C01, near pairs: two distinct adjacent occupied leaves appear in the direct pass in exactly one
orientation (the mutual P2P serves both directions), and non-adjacent leaves never appear in it.
-/
namespace Tbfmm

theorem codeB3_neg_sum (v : List Int) (acc acc' : Int) :
    v.foldl (fun (a : Int) (x : Int) => a * ((3:Nat):Int) + (x + 1)) acc + (v.map (- ·)).foldl (fun (a : Int) (x : Int) => a * ((3:Nat):Int) + (x + 1)) acc'
      = (acc + acc') * 3 ^ v.length + (3 ^ v.length - 1) := by
  induction v generalizing acc acc' with
  | nil => simp
  | cons x v ih =>
    simp only [List.map_cons, List.foldl_cons, List.length_cons]
    rw [ih]
    have e : acc * ((3:Nat):Int) + (x + 1) + (acc' * ((3:Nat):Int) + (-x + 1)) = (acc + acc') * 3 + 2 := by
      omega
    rw [e, Int.pow_succ, Int.add_mul, Int.mul_assoc, Int.mul_comm 3 ((3:Int) ^ v.length)]
    generalize (3:Int) ^ v.length = P
    omega

theorem codeB3_neg (v : List Int) : codeB 3 1 v + codeB 3 1 (v.map (- ·)) = 3 ^ v.length - 1 := by
  unfold codeB
  have := codeB3_neg_sum v 0 0
  simpa using this

theorem codeB3_zeros (D : Nat) : 2 * codeB 3 1 (List.replicate D 0) = 3 ^ D - 1 := by
  have := codeB3_neg (List.replicate D 0)
  simp only [List.map_replicate, Int.neg_zero, List.length_replicate] at this
  omega

theorem code3_inj (v w : List Int) (hl : v.length = w.length) (hv : ∀ x ∈ v, -1 ≤ x ∧ x ≤ 1) (hw : ∀ x ∈ w, -1 ≤ x ∧ x ≤ 1)
    (h : code3 v = code3 w) : v = w := by
  rw [← decode3_code3 v hv, ← decode3_code3 w hw, hl, h]

/-- for a non-zero offset in `[-1,1]^D`, exactly one of the offset and its opposite has its base-3 code
    in the upper half -/
theorem upper_half_flip (D : Nat) (off : List Int) (hl : off.length = D) (hv : ∀ x ∈ off, -1 ≤ x ∧ x ≤ 1)
    (hnz : off ≠ List.replicate D 0) :
    ((3^D)/2 < code3 off) ↔ ¬ ((3^D)/2 < code3 (off.map (- ·))) := by
  have hv' : ∀ x ∈ off.map (- ·), -1 ≤ x ∧ x ≤ 1 := by
    intro x hx
    rw [List.mem_map] at hx
    obtain ⟨y, hy, rfl⟩ := hx
    have := hv y hy; omega
  have r1 := codeB_range 3 1 (by omega) off (fun x hx => by have := hv x hx; omega)
  have r2 := codeB_range 3 1 (by omega) (off.map (- ·)) (fun x hx => by have := hv' x hx; omega)
  have rz := codeB_range 3 1 (by omega) (List.replicate D (0:Int)) (fun x hx => by
    have := List.eq_of_mem_replicate hx; omega)
  have hs := codeB3_neg off
  have hz := codeB3_zeros D
  rw [hl] at hs
  have hne : codeB 3 1 off ≠ codeB 3 1 (List.replicate D 0) := by
    intro e
    apply hnz
    apply code3_inj off _ (by simp [hl]) hv (fun x hx => by have := List.eq_of_mem_replicate hx; omega)
    rw [code3_eq, code3_eq, e]
  rw [code3_eq, code3_eq]
  have h3 : ((3^D : Nat) : Int) = (3:Int)^D := by simp
  generalize codeB 3 1 off = c at *
  generalize codeB 3 1 (off.map (- ·)) = c' at *
  generalize codeB 3 1 (List.replicate D 0) = cz at *
  generalize (3:Int)^D = P at *
  generalize 3^D = Pn at *
  omega

end Tbfmm

namespace Tbfmm

/-- inner test of the non-periodic direct-pass specification -/
def np_p2p_inner (D L t s : Nat) : Option Elem :=
  let off := vsub (toI (decode D L s)) (toI (decode D L t))
  if off.all (fun o => o.natAbs ≤ 1) && !off.all (· == 0) && (3^D)/2 < code3 off then some (Elem.p2p s t (code3 off)) else none

theorem specP2P_np_eq (D L : Nat) (leaves : List Nat) :
    specP2P D false L leaves = leaves.flatMap fun t => leaves.flatMap fun s => (np_p2p_inner D L t s).toList := by
  unfold specP2P
  simp only []
  apply flatMap_congr'
  intro t _
  rw [List.flatMap_map]
  apply flatMap_congr'
  intro s _
  simp only [Function.comp, imageShifts, Bool.false_eq_true, if_false, List.map_cons, List.map_nil, List.filterMap_cons, List.filterMap_nil]
  rw [vadd_zero_shift D _ _ (by simp [toI])]
  unfold np_p2p_inner
  simp only []
  split <;> rename_i heq <;> rw [heq] <;> rfl

theorem mem_specP2P_np (D L : Nat) (leaves : List Nat) (t s c : Nat) :
    Elem.p2p s t c ∈ specP2P D false L leaves ↔
      t ∈ leaves ∧ s ∈ leaves ∧
      (vsub (toI (decode D L s)) (toI (decode D L t))).all (fun o => decide (o.natAbs ≤ 1)) = true ∧
      (vsub (toI (decode D L s)) (toI (decode D L t))).all (· == 0) = false ∧
      (3^D)/2 < code3 (vsub (toI (decode D L s)) (toI (decode D L t))) ∧
      c = code3 (vsub (toI (decode D L s)) (toI (decode D L t))) := by
  rw [specP2P_np_eq]
  simp only [List.mem_flatMap, Option.mem_toList]
  unfold np_p2p_inner
  simp only []
  constructor
  · rintro ⟨t', ht', s', hs', hm⟩
    split at hm
    · rename_i hc
      injection hm with hm
      injection hm with h1 h2 h3
      subst h1 h2 h3
      simp only [Bool.and_eq_true, Bool.not_eq_true', decide_eq_true_eq] at hc
      exact ⟨ht', hs', hc.1.1, hc.1.2, hc.2, rfl⟩
    · simp at hm
  · rintro ⟨ht, hs, h1, h2, h3, rfl⟩
    exact ⟨t, ht, s, hs, by simp [h1, h2, h3]⟩

theorem vsub_neg (x y : List Int) : (vsub x y).map (- ·) = vsub y x := by
  apply List.ext_getElem (by simp [vsub]; omega)
  intro i h1 h2
  simp only [vsub, List.getElem_map, List.getElem_zipWith]
  omega

theorem toI_inj (u v : List Nat) (h : toI u = toI v) : u = v := by
  have := congrArg (List.map Int.toNat) h
  have e : (Int.toNat ∘ Int.ofNat) = id := by funext x; simp
  simpa [toI, List.map_map, e] using this

theorem vsub_all_zero (x y : List Int) (hl : x.length = y.length) : (vsub x y).all (· == 0) = true ↔ x = y := by
  rw [all_iff_get]
  constructor
  · intro h
    apply List.ext_getElem hl
    intro i h1 h2
    have := h i (by simp [vsub]; omega)
    simp only [vsub, List.getElem_zipWith, beq_iff_eq] at this
    omega
  · rintro rfl i hi
    simp [vsub]

/-- **C01, near pairs**: two distinct adjacent occupied leaves are in the direct-pass specification in
    exactly one of the two orientations (the mutual operator serves both directions) -/
theorem C01_near_pair_once (D L : Nat) (leaves : List Nat) (a b : Nat) (ha : a ∈ leaves) (hb : b ∈ leaves)
    (hba : a < 2^(D*L)) (hbb : b < 2^(D*L)) (hne : a ≠ b) (hadj : Far.adj (decode D L a) (decode D L b)) :
    (∃ c, Elem.p2p b a c ∈ specP2P D false L leaves) ↔ ¬ (∃ c, Elem.p2p a b c ∈ specP2P D false L leaves) := by
  have hl : (toI (decode D L a)).length = (toI (decode D L b)).length := by simp [toI]
  have hoffl : (vsub (toI (decode D L b)) (toI (decode D L a))).length = D := by simp [vsub, toI]
  -- the offset is in [-1,1]^D
  have hall : (vsub (toI (decode D L b)) (toI (decode D L a))).all (fun o => decide (o.natAbs ≤ 1)) = true := by
    rw [← adjV_eq_all _ _ hl, adjV_toI]; exact hadj
  have hall' : (vsub (toI (decode D L a)) (toI (decode D L b))).all (fun o => decide (o.natAbs ≤ 1)) = true := by
    rw [← vsub_neg, List.all_map]
    rw [all_iff_get] at hall ⊢
    intro i hi
    have := hall i hi
    simp only [Function.comp, decide_eq_true_eq] at this ⊢
    omega
  have hrange : ∀ x ∈ vsub (toI (decode D L b)) (toI (decode D L a)), -1 ≤ x ∧ x ≤ 1 := by
    intro x hx
    have := (List.all_eq_true.1 hall) x hx
    simp only [decide_eq_true_eq] at this
    omega
  -- and it is not zero
  have hdec : decode D L a ≠ decode D L b := by
    intro e
    apply hne
    rw [← encode_decode D L a hba, ← encode_decode D L b hbb, e]
  have hnz : (vsub (toI (decode D L b)) (toI (decode D L a))).all (· == 0) = false := by
    cases h : (vsub (toI (decode D L b)) (toI (decode D L a))).all (· == 0)
    · rfl
    · exact absurd (toI_inj _ _ ((vsub_all_zero _ _ hl.symm).1 h)).symm hdec
  have hnz' : (vsub (toI (decode D L a)) (toI (decode D L b))).all (· == 0) = false := by
    cases h : (vsub (toI (decode D L a)) (toI (decode D L b))).all (· == 0)
    · rfl
    · exact absurd (toI_inj _ _ ((vsub_all_zero _ _ hl).1 h)) hdec
  have hnzl : vsub (toI (decode D L b)) (toI (decode D L a)) ≠ List.replicate D 0 := by
    intro e
    rw [e] at hnz
    simp at hnz
  have flip := upper_half_flip D _ hoffl hrange hnzl
  rw [vsub_neg] at flip
  constructor
  · rintro ⟨c, hc⟩ ⟨c', hc'⟩
    rw [mem_specP2P_np] at hc hc'
    exact (flip.1 hc.2.2.2.2.1) hc'.2.2.2.2.1
  · intro h
    have : (3^D)/2 < code3 (vsub (toI (decode D L b)) (toI (decode D L a))) := by
      apply flip.2
      intro h'
      exact h ⟨_, (mem_specP2P_np D L leaves b a _).2 ⟨hb, ha, hall', hnz', h', rfl⟩⟩
    exact ⟨_, (mem_specP2P_np D L leaves a b _).2 ⟨ha, hb, hall, hnz, this, rfl⟩⟩

/-- **C01, far pairs are not in the direct pass** -/
theorem C01_far_pair_no_p2p (D L : Nat) (leaves : List Nat) (a b : Nat)
    (hna : ¬ Far.adj (decode D L a) (decode D L b)) (c : Nat) : Elem.p2p b a c ∉ specP2P D false L leaves := by
  intro h
  rw [mem_specP2P_np] at h
  apply hna
  rw [← adjV_toI, adjV_eq_all _ _ (by simp [toI])]
  exact h.2.2.1

/-- no leaf is paired with itself in the direct pass (the inner operator handles it) -/
theorem C01_no_self_p2p (D L : Nat) (leaves : List Nat) (a c : Nat) : Elem.p2p a a c ∉ specP2P D false L leaves := by
  intro h
  rw [mem_specP2P_np] at h
  have := (vsub_all_zero (toI (decode D L a)) (toI (decode D L a)) rfl).2 rfl
  rw [this] at h
  exact Bool.noConfusion h.2.2.2.1

end Tbfmm
