import Tbfmm.Proofs.Vec
/-!
Leaf-pair partition lemma over integer coordinates (floor division): the version needed for periodic
images, whose coordinates lie outside `[0, 2^L)`.
-/
namespace Tbfmm.FarInt

/-- ancestor `k` levels up (floor division) -/
def upI (k : Nat) (v : List Int) : List Int := v.map (· / (2:Int)^k)

theorem upI_zero (v : List Int) : upI 0 v = v := by simp [upI]

theorem upI_length (k : Nat) (v : List Int) : (upI k v).length = v.length := by simp [upI]

theorem upI_succ (k : Nat) (v : List Int) : upI (k+1) v = (upI k v).map (· / 2) := by
  simp only [upI, List.map_map]
  apply List.map_congr_left
  intro x _
  simp only [Function.comp]
  rw [Int.pow_succ, Int.ediv_ediv_of_nonneg (Int.le_of_lt (Int.pow_pos (by omega)))]

theorem adjV_half (a b : List Int) (h : adjV a b = true) : adjV (a.map (· / 2)) (b.map (· / 2)) = true := by
  rw [adjV_iff] at h ⊢
  refine ⟨by simpa using h.1, ?_⟩
  intro i h1 h2
  have := h.2 i (by simpa using h1) (by simpa using h2)
  simp only [List.getElem_map]
  omega

theorem adj_up_succ (a b : List Int) (k : Nat) (h : adjV (upI k a) (upI k b) = true) : adjV (upI (k+1) a) (upI (k+1) b) = true := by
  rw [upI_succ, upI_succ]; exact adjV_half _ _ h

/-- the "interaction" predicate at height `k`: parents adjacent, cells not -/
def interI (k : Nat) (a b : List Int) : Prop := adjV (upI (k+1) a) (upI (k+1) b) = true ∧ adjV (upI k a) (upI k b) = false

theorem mono (a b : List Int) (j d : Nat) (h : adjV (upI j a) (upI j b) = true) : adjV (upI (j + d) a) (upI (j + d) b) = true := by
  induction d with
  | zero => simpa using h
  | succ d ih => exact adj_up_succ a b (j + d) ih

/-- **partition lemma (integer coordinates)**: two positions whose ancestors at height `L` are adjacent and
    that are not adjacent themselves interact at exactly one height `k < L` -/
theorem far_unique_int (L : Nat) (a b : List Int)
    (htop : adjV (upI L a) (upI L b) = true) (hna : adjV a b = false) :
    ∃ k, (k + 1 ≤ L ∧ interI k a b) ∧ ∀ k', interI k' a b → k' = k := by
  have ex : ∀ g j, j + g = L → adjV (upI j a) (upI j b) = false →
      ∃ k, j ≤ k ∧ k + 1 ≤ L ∧ interI k a b := by
    intro g
    induction g with
    | zero =>
      intro j hj hn
      have : j = L := by omega
      subst this
      rw [htop] at hn
      exact Bool.noConfusion hn
    | succ g ih =>
      intro j hj hn
      cases h1 : adjV (upI (j+1) a) (upI (j+1) b)
      · obtain ⟨k, h1', h2', h3'⟩ := ih (j+1) (by omega) h1
        exact ⟨k, by omega, h2', h3'⟩
      · exact ⟨j, Nat.le_refl _, by omega, h1, hn⟩
  obtain ⟨k, _, hk2, hk3⟩ := ex L 0 (by omega) (by rw [upI_zero, upI_zero]; exact hna)
  refine ⟨k, ⟨hk2, hk3⟩, ?_⟩
  intro k' ⟨h1, h2⟩
  rcases Nat.lt_trichotomy k' k with h | h | h
  · exfalso
    have := mono a b (k'+1) (k - (k'+1)) h1
    rw [show k' + 1 + (k - (k' + 1)) = k by omega] at this
    have hk32 := hk3.2
    rw [this] at hk32
    exact Bool.noConfusion hk32
  · exact h
  · exfalso
    have := mono a b (k+1) (k' - (k+1)) hk3.1
    rw [show k + 1 + (k' - (k + 1)) = k' by omega] at this
    rw [this] at h2
    exact Bool.noConfusion h2

theorem near_none_int (a b : List Int) (h : adjV a b = true) (k : Nat) : ¬ interI k a b := by
  intro ⟨_, h2⟩
  have := mono a b 0 k (by rw [upI_zero, upI_zero]; exact h)
  rw [Nat.zero_add] at this
  rw [this] at h2
  exact Bool.noConfusion h2

end Tbfmm.FarInt
