import Tbfmm.Proofs.R1f
/-! R1, part g: main theorem -/
namespace Tbfmm
variable (par : Nat → Nat)

def Goal (us' ls' : List Group) (Pd K : List Nat) (p : Nat) (ps : List Nat) (c : Nat) (cs : List Nat) : Prop :=
  linksOf (calls par ((Pd ++ p :: ps) :: us') ((K ++ c :: cs) :: ls'))
      = (c :: cs ++ ls'.flatten).map (link par)

def Hyps (us' ls' : List Group) (Pd K : List Nat) (p : Nat) (ps : List Nat) (c : Nat) (cs : List Nat) : Prop :=
    (Pd = [] ∨ K = []) ∧ (∀ x ∈ Pd, x < p) ∧ (∀ k ∈ K, par k < p) ∧
    keys (runsOf par (c :: cs ++ ls'.flatten)) = p :: ps ++ us'.flatten ∧
    (p :: ps ++ us'.flatten).Pairwise (· < ·) ∧
    (∀ g ∈ us', g ≠ []) ∧ (∀ g ∈ ls', g ≠ [])

theorem main (n : Nat) : ∀ (us' ls' : List Group) (Pd K : List Nat) (p : Nat) (ps : List Nat) (c : Nat) (cs : List Nat),
    us'.length + ls'.length < n → Hyps par us' ls' Pd K p ps c cs → Goal par us' ls' Pd K p ps c cs := by
  induction n with
  | zero => intros; omega
  | succ n ih =>
    intro us' ls' Pd K p ps c cs hn ⟨hfresh, hPd, hKd, hJ, hsorted, husNe, hlsNe⟩
    obtain ⟨hc, hQ, hW⟩ := setup par (ls'.flatten) (us'.flatten) Pd K p ps c cs hfresh hPd hKd hJ
    have hlastU : lastD (Pd ++ p :: ps) = lastD (p :: ps) := lastD_append _ _ (by simp)
    have hlastL : lastD (K ++ c :: cs) = lastD (c :: cs) := lastD_append _ _ (by simp)
    have hlk : par (lastD (c :: cs)) = (lastRun par c cs).1 := (lastRun_key par c cs).symm
    have hkl := keys_last par c cs
    have hlinks := links_runs par c cs
    have hgood := good_runsAux par (par c, [c]) cs (by intro x hx; simp at hx; subst hx; rfl)
    generalize hrs : runsAux par (par c, [c]) cs = rsK at hQ hW hkl hlinks hgood
    generalize hl : (lastRun par c cs).1 = l at hlk hkl
    have hQsorted : (keys rsK ++ tailKeys par c cs ls'.flatten).Pairwise (· < ·) := by rw [hQ]; exact hsorted
    have hPsorted : (p :: ps).Pairwise (· < ·) := sorted_left hsorted
    unfold Goal
    have caseA : ∀ a', p :: ps = keys rsK ++ a' → tailKeys par c cs ls'.flatten = a' ++ us'.flatten →
        linksOf (calls par ((Pd ++ p :: ps) :: us') ((K ++ c :: cs) :: ls'))
          = (c :: cs ++ ls'.flatten).map (link par) := by
      intro a' hA1 hA2
      ---------------- case A : every run of this lower group has its parent in U
      have hl_mem : l ∈ p :: ps := by rw [hA1, hkl]; simp
      have hcond1 : par (lastD (K ++ c :: cs)) ≤ lastD (Pd ++ p :: ps) := by
        rw [hlastL, hlk, hlastU]; exact le_lastD_of_sorted _ hPsorted l hl_mem
      have hlen : rsK.length ≤ ps.length + 1 := by
        have := congrArg List.length hA1
        simp [keys_length] at this; omega
      have hW' : wrapPure par (K ++ c :: cs) (Pd ++ p :: ps) = rsK := by
        rw [hW]; exact List.take_of_length_le hlen
      cases ls' with
      | nil =>
        have hw := walk_single par (Pd ++ p :: ps) us' (K ++ c :: cs)
        simp only [hcond1, if_true] at hw
        rw [calls_cons par _ _ _ _ _ hw, hW']
        simp [hlinks]
      | cons L2 ls'' =>
        have hL2 : L2 ≠ [] := hlsNe L2 (by simp)
        obtain ⟨z, Z2, rfl⟩ := List.exists_cons_of_ne_nil hL2
        have hZ : ((z :: Z2) :: ls'').flatten = z :: (Z2 ++ ls''.flatten) := by simp
        rw [hZ] at hA2 hQsorted
        have hK4 := keys_runsOf_cont par c cs z (Z2 ++ ls''.flatten)
        rw [hl] at hK4
        have hw := walk_cons2 par (Pd ++ p :: ps) us' (K ++ c :: cs) (z :: Z2) ls''
        simp only [hcond1, if_true, List.headD_cons] at hw
        have hmeasure : us'.length + ls''.length < n := by simp at hn; omega
        have hTsorted : (l :: (a' ++ us'.flatten)).Pairwise (· < ·) := by
          have h1 : p :: ps ++ us'.flatten = keys rsK.dropLast ++ (l :: (a' ++ us'.flatten)) := by
            rw [hA1, hkl]; simp
          rw [h1] at hsorted; exact sorted_right hsorted
        have hdl_lt : ∀ x ∈ keys rsK.dropLast, x < l := by
          intro x hx
          have h1 : (keys rsK.dropLast ++ [l]).Pairwise (· < ·) := by rw [← hkl]; exact sorted_left hQsorted
          exact sorted_cross h1 hx (by simp)
        have hp_le_l : p ≤ l := head_le_of_sorted hPsorted l hl_mem
        by_cases hz : par z = l
        · -- the first child of the next lower group continues the last run: stay on U
          simp only [hz, if_true] at hK4
          have hcond2 : ¬ lastD (Pd ++ p :: ps) < par z := by
            rw [hlastU, hz]; have := le_lastD_of_sorted _ hPsorted l hl_mem; omega
          simp only [hcond2, if_false] at hw
          rw [calls_cons par _ _ _ _ _ hw, hW', linksOf_append, hlinks, calls_def]
          have hU : Pd ++ p :: ps = (Pd ++ keys rsK.dropLast) ++ l :: a' := by rw [hA1, hkl]; simp
          have hih := ih us' ls'' (Pd ++ keys rsK.dropLast) [] l a' z Z2 hmeasure
            ⟨Or.inr rfl, ?_, by simp, ?_, hTsorted, husNe, fun g hg => hlsNe g (by simp [hg])⟩
          · unfold Goal at hih
            rw [← hU] at hih
            simp only [List.nil_append] at hih
            rw [hih]; simp
          · intro x hx
            simp only [List.mem_append] at hx
            rcases hx with hx | hx
            · have := hPd x hx; omega
            · exact hdl_lt x hx
          · have : z :: Z2 ++ ls''.flatten = z :: (Z2 ++ ls''.flatten) := by simp
            rw [this, hK4, hA2]; simp
        · -- a new run starts with the next lower group
          simp only [hz, if_false] at hK4
          have hzk : keys (runsOf par (z :: (Z2 ++ ls''.flatten))) = par z :: (keys (runsOf par (z :: (Z2 ++ ls''.flatten)))).tail :=
            keys_runsAux_head par (par z, [z]) (Z2 ++ ls''.flatten)
          cases a' with
          | nil =>
            -- U is exhausted exactly here: move to the next upper group
            simp only [List.nil_append] at hA2
            simp only [List.append_nil] at hA1
            have hlastP : lastD (p :: ps) = l := by
              rw [hA1, hkl]; exact lastD_append _ _ (by simp) |>.trans (by simp [lastD])
            have hzU : par z ∈ us'.flatten := by rw [← hA2, ← hK4, hzk]; simp
            have hcond2 : lastD (Pd ++ p :: ps) < par z := by
              rw [hlastU, hlastP]
              have : l ∈ keys rsK := by rw [hkl]; simp
              rw [hA2] at hQsorted
              exact sorted_cross hQsorted this hzU
            simp only [hcond2, if_true] at hw
            rw [calls_cons par _ _ _ _ _ hw, hW', linksOf_append, hlinks, calls_def]
            cases us' with
            | nil => simp at hzU
            | cons U2 us'' =>
              have hU2 : U2 ≠ [] := husNe U2 (by simp)
              obtain ⟨p2, ps2, rfl⟩ := List.exists_cons_of_ne_nil hU2
              have hm2 : us''.length + ls''.length < n := by simp at hmeasure; omega
              have hih := ih us'' ls'' [] [] p2 ps2 z Z2 hm2
                ⟨Or.inl rfl, by simp, by simp, ?_, ?_, fun g hg => husNe g (by simp [hg]), fun g hg => hlsNe g (by simp [hg])⟩
              · unfold Goal at hih
                simp only [List.nil_append] at hih
                rw [hih]; simp
              · have : z :: Z2 ++ ls''.flatten = z :: (Z2 ++ ls''.flatten) := by simp
                rw [this, hK4, hA2]; simp
              · have : p2 :: ps2 ++ us''.flatten = ((p2 :: ps2) :: us'').flatten := by simp
                rw [this]; exact sorted_right hsorted
          | cons q a'' =>
            -- the next run's parent is still in U: stay on U
            have hq : par z = q := by
              have := hK4; rw [hA2, hzk] at this; simp at this; exact this.1
            have hq_mem : q ∈ p :: ps := by rw [hA1]; simp
            have hcond2 : ¬ lastD (Pd ++ p :: ps) < par z := by
              rw [hlastU, hq]; have := le_lastD_of_sorted _ hPsorted q hq_mem; omega
            simp only [hcond2, if_false] at hw
            rw [calls_cons par _ _ _ _ _ hw, hW', linksOf_append, hlinks, calls_def]
            have hU : Pd ++ p :: ps = (Pd ++ keys rsK) ++ q :: a'' := by rw [hA1]; simp
            have hkq : ∀ x ∈ keys rsK, x < q := by
              intro x hx
              rw [hA1] at hPsorted
              exact sorted_cross hPsorted hx (by simp)
            have hih := ih us' ls'' (Pd ++ keys rsK) [] q a'' z Z2 hmeasure
              ⟨Or.inr rfl, ?_, by simp, ?_, ?_, husNe, fun g hg => hlsNe g (by simp [hg])⟩
            · unfold Goal at hih
              rw [← hU] at hih
              simp only [List.nil_append] at hih
              rw [hih]; simp
            · intro x hx
              simp only [List.mem_append] at hx
              rcases hx with hx | hx
              · have h1 := hPd x hx
                have h2 : p ∈ keys rsK := by
                  have := keys_runsAux_head par (par c, [c]) cs
                  rw [hrs, hc] at this; rw [this]; simp
                have := hkq p h2; omega
              · exact hkq x hx
            · have : z :: Z2 ++ ls''.flatten = z :: (Z2 ++ ls''.flatten) := by simp
              rw [this, hK4, hA2]
            · have h1 : p :: ps ++ us'.flatten = keys rsK ++ (q :: a'' ++ us'.flatten) := by rw [hA1]; simp
              rw [h1] at hsorted; exact sorted_right hsorted
    rcases List.append_eq_append_iff.mp hQ with ⟨a', hA1, hA2⟩ | ⟨c', hB1, hB2⟩
    · exact caseA a' hA1 hA2
    · cases c' with
      | nil => exact caseA [] (by simpa using hB1.symm) (by simpa using hB2.symm)
      | cons y0 c'' =>
        ---------------- case B : this lower group reaches beyond U
        have hklen : ps.length + 1 < rsK.length := by
          have := congrArg List.length hB1
          simp [keys_length] at this; omega
        obtain ⟨xs, y, ys, hcs, hx1, hx2, hx3⟩ :=
          runs_split par (par c, [c]) cs (ps.length + 1) (by omega) (by rw [hrs]; exact hklen)
        rw [hrs] at hx1 hx2
        have hKsorted : (keys rsK).Pairwise (· < ·) := sorted_left hQsorted
        have hl_in : l ∈ y0 :: c'' := by
          have h1 : lastD (keys rsK) = l := by rw [hkl]; exact (lastD_append _ _ (by simp)).trans (by simp [lastD])
          have h2 : lastD (keys rsK) = lastD (y0 :: c'') := by rw [hB1]; exact lastD_append _ _ (by simp)
          rw [← h1, h2]; exact lastD_mem _ (by simp)
        have hcond1 : ¬ par (lastD (K ++ c :: cs)) ≤ lastD (Pd ++ p :: ps) := by
          rw [hlastL, hlk, hlastU]
          have h1 : lastD (p :: ps) ∈ p :: ps := lastD_mem _ (by simp)
          rw [hB1] at hKsorted
          have := sorted_cross hKsorted h1 hl_in
          omega
        have hW' : wrapPure par (K ++ c :: cs) (Pd ++ p :: ps) = runsAux par (par c, [c]) xs := by rw [hW, hx1]
        have hlinks' := links_runs par c xs
        -- the walk moves to the next upper group, same lower group
        have hw : walk par ((Pd ++ p :: ps) :: us') ((K ++ c :: cs) :: ls')
            = (Pd ++ p :: ps, K ++ c :: cs) :: walk par us' ((K ++ c :: cs) :: ls') := by
          cases ls' with
          | nil => rw [walk_single]; simp only [hcond1, if_false]
          | cons L2 ls'' => rw [walk_cons2]; simp only [hcond1, if_false]
        rw [calls_cons par _ _ _ _ _ hw, hW', linksOf_append, hlinks', calls_def]
        cases us' with
        | nil => simp at hB2
        | cons U2 us'' =>
          have hU2 : U2 ≠ [] := husNe U2 (by simp)
          obtain ⟨p2, ps2, rfl⟩ := List.exists_cons_of_ne_nil hU2
          have hm2 : us''.length + ls'.length < n := by simp at hn; omega
          have hLw : K ++ c :: cs = (K ++ c :: xs) ++ y :: ys := by rw [hcs]; simp
          have hkeysx : keys (runsAux par (par c, [c]) xs) = p :: ps := by
            rw [hx1, keys_take, hB1]; simp
          have hp2 : p2 = y0 := by
            have := hB2; simp at this; exact this.1
          have hih := ih us'' ls' [] (K ++ c :: xs) p2 ps2 y ys hm2
            ⟨Or.inl rfl, by simp, ?_, ?_, ?_, fun g hg => husNe g (by simp [hg]), hlsNe⟩
          · unfold Goal at hih
            simp only [List.nil_append] at hih
            rw [← hLw] at hih
            rw [hih, hcs]; simp
          · -- everything already emitted has a parent below the new upper group
            intro k hk
            have hy0 : ∀ x ∈ p :: ps, x < p2 := by
              intro x hx
              rw [hB1] at hKsorted
              rw [hp2]; exact sorted_cross hKsorted hx (by simp)
            simp only [List.mem_append] at hk
            rcases hk with hk | hk
            · have := hKd k hk; have := hy0 p (by simp); omega
            · have hgx := good_runsAux par (par c, [c]) xs (by intro x hx; simp at hx; subst hx; rfl)
              have hm : k ∈ members (runsAux par (par c, [c]) xs) := by rw [members_runsAux]; simpa using hk
              have := par_mem_keys par _ hgx k hm
              rw [hkeysx] at this
              exact hy0 _ this
          · -- the remaining children's parents are exactly the remaining upper cells
            have hsplit := runsOf_split_append par c xs y ys ls'.flatten hx3
            rw [← hcs] at hsplit
            have h1 : keys (runsOf par (c :: cs ++ ls'.flatten))
                = keys (runsAux par (par c, [c]) xs) ++ keys (runsOf par (y :: ys ++ ls'.flatten)) := by
              rw [hsplit]; simp [keys]
            rw [hJ, hkeysx] at h1
            have := List.append_cancel_left h1
            rw [← this]; simp
          · have : p2 :: ps2 ++ us''.flatten = ((p2 :: ps2) :: us'').flatten := by simp
            rw [this]; exact sorted_right hsorted

end Tbfmm

namespace Tbfmm
/-- top-level corollary: from fresh groups, the calls link every child to its parent exactly once, in order -/
theorem upward_links (par : Nat → Nat) (up lo : List Group)
    (hup : ∀ g ∈ up, g ≠ []) (hlo : ∀ g ∈ lo, g ≠ []) (hne : lo ≠ [])
    (hparents : up.flatten = keys (runsOf par lo.flatten))
    (hsorted : up.flatten.Pairwise (· < ·)) :
    linksOf (calls par up lo) = lo.flatten.map (link par) := by
  cases lo with
  | nil => exact absurd rfl hne
  | cons L1 ls' =>
    obtain ⟨c, cs, rfl⟩ := List.exists_cons_of_ne_nil (hlo L1 (by simp))
    cases up with
    | nil =>
      exfalso
      have h1 := keys_runsAux_head par (par c, [c]) (cs ++ ls'.flatten)
      have : ((c :: cs) :: ls').flatten = c :: (cs ++ ls'.flatten) := by simp
      rw [this] at hparents
      simp [runsOf] at hparents
      rw [h1] at hparents; simp at hparents
    | cons U1 us' =>
      obtain ⟨p, ps, rfl⟩ := List.exists_cons_of_ne_nil (hup U1 (by simp))
      have := main par (us'.length + ls'.length + 1) us' ls' [] [] p ps c cs (by omega)
        ⟨Or.inl rfl, by simp, by simp, by simpa using hparents.symm, by simpa using hsorted,
          fun g hg => hup g (by simp [hg]), fun g hg => hlo g (by simp [hg])⟩
      unfold Goal at this
      simpa using this
end Tbfmm

