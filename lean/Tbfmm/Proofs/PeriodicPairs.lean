import Tbfmm.Proofs.FarInt
import Tbfmm.Proofs.NearOnce
/-!
Periodic case (C01 periodic, C10 "the regular pass accounts for exactly the images in `[-1,1]^D`"): for two
occupied leaves `a`, `b` and an image shift `K ∈ {-1,0,1}^D` (in units of the box), the specification
accepts the transfer from the image of `b`'s ancestor to `a`'s ancestor at exactly one level `l ≥ 1` when
`a` and the image of `b` are not adjacent, and at none when they are.
-/
namespace Tbfmm

open FarInt

/-- the specification's transfer test for target `t`, source `s` shifted by `k` at level `l` -/
def perTest (D l t s : Nat) (k : List Int) : Bool :=
  adjV ((toI (decode D l t)).map (· / 2)) ((vadd (toI (decode D l s)) k).map (· / 2)) &&
    !adjV (toI (decode D l t)) (vadd (toI (decode D l s)) k)

theorem specM2L_per_eq (D l : Nat) (tgts srcs : List Nat) :
    specM2LLevel D true l tgts srcs = if l < 1 then [] else
      tgts.flatMap fun t => srcs.flatMap fun s => ((imageShifts D true).map fun k => k.map (· * (2:Int)^l)).filterMap fun k =>
        if perTest D l t s k then some (Elem.m2l l t s (code7 (vsub (vadd (toI (decode D l s)) k) (toI (decode D l t))))) else none := by
  unfold specM2LLevel
  by_cases hl : l < 1
  · simp [hl]
  · rw [if_neg (by simpa using hl), if_neg hl]
    simp only []
    apply flatMap_congr'
    intro t _
    rw [List.flatMap_map]
    rfl

/-- membership in the periodic transfer specification of one level -/
theorem mem_specM2L_per (D l : Nat) (tgts srcs : List Nat) (t s c : Nat) :
    Elem.m2l l t s c ∈ specM2LLevel D true l tgts srcs ↔
      1 ≤ l ∧ t ∈ tgts ∧ s ∈ srcs ∧ ∃ k, IsShift D true (2^l) k ∧ perTest D l t s k = true ∧
        c = code7 (vsub (vadd (toI (decode D l s)) k) (toI (decode D l t))) := by
  rw [specM2L_per_eq]
  by_cases hl : l < 1
  · rw [if_pos hl]; simp; omega
  · rw [if_neg hl]
    simp only [List.mem_flatMap, List.mem_filterMap]
    constructor
    · rintro ⟨t', ht', s', hs', k, hk, hm⟩
      split at hm
      · rename_i hc
        injection hm with hm
        injection hm with _ h2 h3 h4
        subst h2 h3 h4
        exact ⟨by omega, ht', hs', k, (mem_shifts D true _ (pow_int_pos l) k).1 hk, hc, rfl⟩
      · simp at hm
    · rintro ⟨_, ht, hs, k, hk, hc, rfl⟩
      exact ⟨t, ht, s, hs, k, (mem_shifts D true _ (pow_int_pos l) k).2 hk, by simp [hc]⟩

theorem scalar_leaf (x j : Nat) : (x:Int) / (2:Int)^j = ((x / 2^j : Nat) : Int) := by
  have : ((2^j : Nat) : Int) = (2:Int)^j := by simp
  rw [← this]
  exact (Int.natCast_ediv _ _).symm

theorem scalar_image (x : Nat) (kk : Int) (L j : Nat) (hj : j ≤ L) :
    ((x:Int) + kk * (2:Int)^L) / (2:Int)^j = ((x / 2^j : Nat) : Int) + kk * (2:Int)^(L-j) := by
  have e : (2:Int)^L = 2^(L-j) * 2^j := by rw [← Int.pow_add]; congr 1; omega
  have hpos : (0:Int) < 2^j := Int.pow_pos (by omega)
  rw [e, ← Int.mul_assoc, Int.add_mul_ediv_right _ _ (by omega), scalar_leaf]

/-- position of the image of a leaf at height `j`: ancestor position plus the scaled shift -/
theorem upI_image (D L : Nat) (b : Nat) (K : List Int) (hK : K.length = D) (j : Nat) (hj : j ≤ L) :
    upI j (vadd (toI (decode D L b)) (K.map (· * (2:Int)^L))) =
      vadd (toI (decode D (L-j) (b / 2^(D*j)))) (K.map (· * (2:Int)^(L-j))) := by
  rw [decode_up D L b j hj]
  apply List.ext_getElem (by simp [upI, vadd, toI, Far.up, hK])
  intro i h1 h2
  simp only [upI, vadd, toI, Far.up, List.getElem_map, List.getElem_zipWith, Int.ofNat_eq_natCast]
  exact scalar_image _ _ L j hj

theorem upI_leaf (D L : Nat) (a : Nat) (j : Nat) (hj : j ≤ L) :
    upI j (toI (decode D L a)) = toI (decode D (L-j) (a / 2^(D*j))) := by
  rw [decode_up D L a j hj]
  apply List.ext_getElem (by simp [upI, toI, Far.up])
  intro i h1 h2
  simp only [upI, toI, Far.up, List.getElem_map, Int.ofNat_eq_natCast]
  exact scalar_leaf _ _

/-- the periodic specification's test between the ancestors of `a` and of the `K`-image of `b` at height
    `j` is the interaction predicate on their (integer) positions -/
theorem perTest_iff_inter (D L : Nat) (a b : Nat) (K : List Int) (hK : K.length = D) (j : Nat) (hj : j + 1 ≤ L) :
    perTest D (L-j) (a / 2^(D*j)) (b / 2^(D*j)) (K.map (· * (2:Int)^(L-j))) = true ↔
      interI j (toI (decode D L a)) (vadd (toI (decode D L b)) (K.map (· * (2:Int)^L))) := by
  unfold perTest interI
  rw [upI_succ, upI_succ, upI_leaf D L a j (by omega), upI_image D L b K hK j (by omega)]
  simp only [Bool.and_eq_true, Bool.not_eq_true']

/-- **periodic, far images**: `a` and the `K`-image of `b` not adjacent ⇒ the specification accepts the
    transfer between their ancestors at exactly one level `L-j ≥ 1` -/
theorem C10_periodic_far_once (D L : Nat) (a b : Nat) (K : List Int) (hK : K.length = D) (hKr : ∀ x ∈ K, -1 ≤ x ∧ x ≤ 1)
    (hna : adjV (toI (decode D L a)) (vadd (toI (decode D L b)) (K.map (· * (2:Int)^L))) = false) :
    ∃ j, (j + 1 ≤ L ∧ perTest D (L-j) (a / 2^(D*j)) (b / 2^(D*j)) (K.map (· * (2:Int)^(L-j))) = true) ∧
      ∀ j', j' + 1 ≤ L → perTest D (L-j') (a / 2^(D*j')) (b / 2^(D*j')) (K.map (· * (2:Int)^(L-j'))) = true → j' = j := by
  -- at the root level everything (the box and its 3^D - 1 neighbours) is adjacent
  have htop : adjV (upI L (toI (decode D L a))) (upI L (vadd (toI (decode D L b)) (K.map (· * (2:Int)^L)))) = true := by
    rw [upI_leaf D L a L (Nat.le_refl _), upI_image D L b K hK L (Nat.le_refl _), adjV_iff]
    refine ⟨by simp [vadd, toI, hK], ?_⟩
    intro i h1 h2
    have hi : i < K.length := by simp [vadd, toI, hK] at h2; omega
    have := hKr K[i] (List.getElem_mem hi)
    simp only [Nat.sub_self, decode, toI, vadd, List.map_replicate, List.getElem_replicate, List.getElem_zipWith,
      List.getElem_map, Int.pow_zero, Int.mul_one, Int.ofNat_eq_natCast, Int.natCast_zero]
    omega
  obtain ⟨j, ⟨hj, hi⟩, huniq⟩ := far_unique_int L _ _ htop hna
  refine ⟨j, ⟨hj, (perTest_iff_inter D L a b K hK j hj).2 hi⟩, ?_⟩
  intro j' hj' h
  exact huniq j' ((perTest_iff_inter D L a b K hK j' hj').1 h)

/-- **periodic, near images**: `a` and the `K`-image of `b` adjacent (or equal) ⇒ no transfer at any level -/
theorem C10_periodic_near_none (D L : Nat) (a b : Nat) (K : List Int) (hK : K.length = D)
    (hadj : adjV (toI (decode D L a)) (vadd (toI (decode D L b)) (K.map (· * (2:Int)^L))) = true) (j : Nat) (hj : j + 1 ≤ L) :
    perTest D (L-j) (a / 2^(D*j)) (b / 2^(D*j)) (K.map (· * (2:Int)^(L-j))) = false := by
  cases h : perTest D (L-j) (a / 2^(D*j)) (b / 2^(D*j)) (K.map (· * (2:Int)^(L-j)))
  · rfl
  · exact absurd ((perTest_iff_inter D L a b K hK j hj).1 h) (near_none_int _ _ hadj j)

end Tbfmm

namespace Tbfmm

/-- the specification's direct-pair test for target `t`, source `s` shifted by `k` at the leaf level -/
def perP2PTest (D L t s : Nat) (k : List Int) : Bool :=
  (vsub (vadd (toI (decode D L s)) k) (toI (decode D L t))).all (fun o => decide (o.natAbs ≤ 1)) &&
  !(vsub (vadd (toI (decode D L s)) k) (toI (decode D L t))).all (· == 0) &&
  decide ((3^D)/2 < code3 (vsub (vadd (toI (decode D L s)) k) (toI (decode D L t))))

theorem mem_specP2P_gen (D : Nat) (periodic : Bool) (L : Nat) (leaves : List Nat) (t s c : Nat) :
    Elem.p2p s t c ∈ specP2P D periodic L leaves ↔
      t ∈ leaves ∧ s ∈ leaves ∧ ∃ k, IsShift D periodic (2^L) k ∧ perP2PTest D L t s k = true ∧
        c = code3 (vsub (vadd (toI (decode D L s)) k) (toI (decode D L t))) := by
  unfold specP2P
  simp only [List.mem_flatMap, List.mem_map, List.mem_filterMap]
  constructor
  · rintro ⟨t', ht', ⟨s', sp'⟩, ⟨s'', hs'', e⟩, k, hk, hm⟩
    injection e with e1 e2
    subst e1 e2
    simp only at hm
    split at hm
    · rename_i hc
      injection hm with hm
      injection hm with h1 h2 h3
      subst h1 h2 h3
      obtain ⟨m, hm1, rfl⟩ := hk
      refine ⟨ht', hs'', _, (mem_shifts D periodic _ (pow_int_pos L) _).1 (List.mem_map.2 ⟨m, hm1, rfl⟩), ?_, rfl⟩
      unfold perP2PTest
      simpa using hc
    · simp at hm
  · rintro ⟨ht, hs, k, hk, hc, rfl⟩
    obtain ⟨m, hm1, rfl⟩ := List.mem_map.1 ((mem_shifts D periodic _ (pow_int_pos L) k).2 hk)
    refine ⟨t, ht, (s, toI (decode D L s)), ⟨s, hs, rfl⟩, m.map (· * (2:Int)^L), ⟨m, hm1, rfl⟩, ?_⟩
    unfold perP2PTest at hc
    simp only at hc ⊢
    rw [if_pos (by simpa using hc)]

/-- **periodic, near images**: when `a` and the `k`-image of `b` are adjacent and distinct positions, the
    direct-pair specification accepts exactly one of the two orientations `(a ← b + k)`, `(b ← a - k)` -/
theorem C10_periodic_near_once (D L : Nat) (a b : Nat) (k : List Int) (hk : k.length = D)
    (hadj : adjV (toI (decode D L a)) (vadd (toI (decode D L b)) k) = true)
    (hne : vadd (toI (decode D L b)) k ≠ toI (decode D L a)) :
    perP2PTest D L a b k = true ↔ perP2PTest D L b a (k.map (- ·)) = false := by
  have hl1 : (vadd (toI (decode D L b)) k).length = (toI (decode D L a)).length := by simp [vadd, toI, hk]
  have hoffl : (vsub (vadd (toI (decode D L b)) k) (toI (decode D L a))).length = D := by simp [vsub, vadd, toI, hk]
  have hneg : vsub (vadd (toI (decode D L a)) (k.map (- ·))) (toI (decode D L b)) =
      (vsub (vadd (toI (decode D L b)) k) (toI (decode D L a))).map (- ·) := by
    apply List.ext_getElem (by simp [vsub, vadd, toI, hk])
    intro i h1 h2
    simp only [vsub, vadd, List.getElem_zipWith, List.getElem_map]
    omega
  have hall : (vsub (vadd (toI (decode D L b)) k) (toI (decode D L a))).all (fun o => decide (o.natAbs ≤ 1)) = true := by
    rw [← adjV_eq_all _ _ hl1.symm]; exact hadj
  have hrange : ∀ x ∈ vsub (vadd (toI (decode D L b)) k) (toI (decode D L a)), -1 ≤ x ∧ x ≤ 1 := by
    intro x hx
    have := (List.all_eq_true.1 hall) x hx
    simp only [decide_eq_true_eq] at this
    omega
  have hall' : ((vsub (vadd (toI (decode D L b)) k) (toI (decode D L a))).map (- ·)).all (fun o => decide (o.natAbs ≤ 1)) = true := by
    rw [List.all_map, all_iff_get]
    rw [all_iff_get] at hall
    intro i hi
    have := hall i hi
    simp only [Function.comp, decide_eq_true_eq] at this ⊢
    omega
  have hnz : (vsub (vadd (toI (decode D L b)) k) (toI (decode D L a))).all (· == 0) = false := by
    cases h : (vsub (vadd (toI (decode D L b)) k) (toI (decode D L a))).all (· == 0)
    · rfl
    · exact absurd ((vsub_all_zero _ _ hl1).1 h) hne
  have hnz' : ((vsub (vadd (toI (decode D L b)) k) (toI (decode D L a))).map (- ·)).all (· == 0) = false := by
    rw [List.all_map]
    cases h : (vsub (vadd (toI (decode D L b)) k) (toI (decode D L a))).all ((· == 0) ∘ (- ·))
    · rfl
    · exfalso
      have : (vsub (vadd (toI (decode D L b)) k) (toI (decode D L a))).all (· == 0) = true := by
        rw [all_iff_get] at h ⊢
        intro i hi
        have := h i hi
        simp only [Function.comp, beq_iff_eq] at this ⊢
        omega
      rw [this] at hnz
      exact Bool.noConfusion hnz
  have hnzl : vsub (vadd (toI (decode D L b)) k) (toI (decode D L a)) ≠ List.replicate D 0 := by
    intro e
    rw [e] at hnz
    simp at hnz
  have flip := upper_half_flip D _ hoffl hrange hnzl
  unfold perP2PTest
  rw [hneg, hall, hall', hnz, hnz']
  simp only [Bool.not_false, Bool.and_true, Bool.true_and, decide_eq_true_eq, decide_eq_false_iff_not]
  exact flip

end Tbfmm
