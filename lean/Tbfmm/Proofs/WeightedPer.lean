import Tbfmm.Proofs.ValuesPer7
/-! The periodic value theorem for arbitrary weights. -/
namespace Tbfmm

/-- **periodic, any weights**: every particle's result is `3^D` times the total weight minus its own weight -/
theorem C01_values_periodic_weighted (D H bs : Nat) (mode : Bool) (leafIdx : List Nat) (upper : Nat)
    (hbs : 0 < bs) (hne : leafIdx ≠ []) (hH : 1 ≤ H) (hlt : ∀ i ∈ leafIdx, i < 2^(D*(H-1))) (hu : upper ≤ 1)
    (w : Nat → Nat) (p : Nat) (hp : p < leafIdx.length) :
    (applyCalls w (H-1) (Tree.build D H bs mode leafIdx).partsOf (Tree.build D H bs mode leafIdx).partsOf {}
      (executeSeq (Tree.build D H bs mode leafIdx) true 63 upper)).r p =
      sumOver (List.range leafIdx.length) (fun q => w q * (3^D - if p = q then 1 else 0)) := by
  obtain ⟨hpo, hcs⟩ := executeSeq_ids D H bs mode leafIdx true upper hbs
  rw [result_restrict (H-1) _ _ _ w leafIdx.length hpo hpo hcs p, result_decomp]
  apply sumOver_congr
  intro q hq
  rw [C01_values_periodic D H bs mode leafIdx upper hbs hne hH hlt hu p q hp (List.mem_range.1 hq)]

end Tbfmm
