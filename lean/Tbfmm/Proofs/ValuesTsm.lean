import Tbfmm.Proofs.Values9
import Tbfmm.Proofs.TsmPairs
/-!
**C09 at the level of values**: after one complete execution of the target/source executor on two built
trees, with the exactly additive kernel, every target particle has received the contribution of every
source particle exactly once.
-/
namespace Tbfmm

theorem specP2PTsm_elem_form (D L : Nat) (tgts srcs : List Nat) (e : Elem) (he : e ∈ specP2PTsm D false L tgts srcs) :
    ∃ t s, e = Elem.p2pTsm s t (p2pCode D L t s) ∧ t ∈ tgts ∧ s ∈ srcs := by
  rw [specP2PTsm_np_eq] at he
  simp only [List.mem_flatMap, Option.mem_toList] at he
  obtain ⟨t, ht, s, hs, h⟩ := he
  unfold np_tsm_inner at h
  simp only [] at h
  split at h
  · injection h with h
    exact ⟨t, s, h.symm, ht, hs⟩
  · simp at h

section
variable (q p : Nat) (D L : Nat) (poT poS : Nat → List Nat) (leavesT leavesS : List Nat) (a b : Nat)
  (hnT : leavesT.Nodup) (hnS : leavesS.Nodup) (ha : a ∈ leavesT)
  (hp : ∀ i ∈ leavesT, (poT i).count p = if i = a then 1 else 0)
  (hq : ∀ i ∈ leavesS, (poS i).count q = if i = b then 1 else 0)

include hnT hnS ha hp hq

/-- result phases of the target/source executor for a target particle `p` (leaf `a`) and a source particle `q` (leaf `b`) -/
theorem results_eval_tsm (act : Bool) (cs : List Call) (hform : ∀ c ∈ cs, isResultCall poT c)
    (helems : (cs.flatMap elemsOfCall).Perm ((if act then leavesT.map (fun i => Elem.l2p i (poT i).length) else []) ++
        specP2PTsm D false L leavesT leavesS))
    (s : State) (hr : s.r p = 0) :
    (applyCalls (wq q) L poT poS s cs).r p =
      (if act then s.l L a else 0) +
      (if Elem.p2pTsm b a (p2pCode D L a b) ∈ specP2PTsm D false L leavesT leavesS then 1 else 0) := by
  obtain ⟨h1, _, _⟩ := phase_results (wq q) L poT poS cs hform s
  rw [h1, hr, Nat.zero_add, sumOver_perm _ _ _ helems, sumOver_append]
  have e1 : sumOver (if act then leavesT.map (fun i => Elem.l2p i (poT i).length) else []) (cR (wq q) L poT poS s p) = if act then s.l L a else 0 := by
    cases act
    · simp [sumOver]
    · simp only [if_true]
      rw [sumOver_map]
      have : sumOver leavesT ((cR (wq q) L poT poS s p) ∘ fun i => Elem.l2p i (poT i).length) =
          sumOver leavesT (fun i => if i = a then s.l L i else 0) := by
        apply sumOver_congr
        intro i hi
        simp only [Function.comp, cR, hp i hi]
        split <;> simp
      rw [this, sumOver_indicator _ hnT, if_pos ha]
  have e2 : sumOver (specP2PTsm D false L leavesT leavesS) (cR (wq q) L poT poS s p) =
      (if Elem.p2pTsm b a (p2pCode D L a b) ∈ specP2PTsm D false L leavesT leavesS then 1 else 0) := by
    have : sumOver (specP2PTsm D false L leavesT leavesS) (cR (wq q) L poT poS s p) =
        sumOver (specP2PTsm D false L leavesT leavesS) (fun e => if e = Elem.p2pTsm b a (p2pCode D L a b) then 1 else 0) := by
      apply sumOver_congr
      intro e he
      obtain ⟨t, src, rfl, ht, hs⟩ := specP2PTsm_elem_form D L _ _ e he
      simp only [cR, sumW_wq, hp t ht, hq src hs]
      by_cases h1 : t = a <;> by_cases h2 : src = b <;> simp [h1, h2, Elem.p2pTsm.injEq] <;> (try subst_vars) <;> simp_all
    rw [this, sumOver_indicator _ (specP2PTsm_np_nodup D L _ _ hnT hnS)]
    by_cases h : Elem.p2pTsm b a (p2pCode D L a b) ∈ specP2PTsm D false L leavesT leavesS <;> simp [h]
  rw [e1, e2]

end

theorem m2lLevelTsm_form (D : Nat) (periodic : Bool) (ℓ : Nat) (tg sg : List Group) :
    ∀ c ∈ m2lLevelTsm D periodic ℓ tg sg, ∃ lv t srcs, c = Call.m2l lv t srcs := by
  intro c hc
  unfold m2lLevelTsm at hc
  rw [List.mem_flatMap] at hc
  obtain ⟨g, _, hc⟩ := hc
  simp only [List.mem_flatMap] at hc
  obtain ⟨p, _, hc⟩ := hc
  obtain ⟨t, ss, rfl, _⟩ := m2lBetween_nonempty ℓ _ _ c hc
  exact ⟨ℓ, t, ss, rfl⟩

theorem p2pAllTsm_form (D : Nat) (periodic : Bool) (H : Nat) (po : Nat → List Nat) (tg sg : List Group) :
    ∀ c ∈ p2pAllTsm D periodic H tg sg, isResultCall po c := by
  intro c hc
  unfold p2pAllTsm at hc
  rw [List.mem_flatMap] at hc
  obtain ⟨g, _, hc⟩ := hc
  simp only [List.mem_flatMap, List.mem_filterMap] at hc
  obtain ⟨p, _, x, _, hx⟩ := hc
  split at hx
  · injection hx with hx; subst hx; trivial
  · simp at hx

section
variable {D H : Nat} {tS tT : Tree} {lsS lsT : List Leaf} (FS : BuiltFacts D H tS lsS) (FT : BuiltFacts D H tT lsT)
include FS FT

theorem m2lTsm_level_refines (periodic : Bool) (ℓ : Nat) (hℓ : ℓ < H) :
    ((m2lLevelTsm D periodic ℓ (tT.level ℓ) (tS.level ℓ)).flatMap elemsOfCall).Perm
      (specM2LLevel D periodic ℓ (specCells D (H-1) (lsT.map (·.idx)) ℓ) (specCells D (H-1) (lsS.map (·.idx)) ℓ)) := by
  refine (m2lLevelTsm_elems D periodic ℓ (tT.level ℓ) (tS.level ℓ) (FS.inv ℓ hℓ)).trans ?_
  have hp : (presentFrom (tS.level ℓ) 0) = fun x => (tS.level ℓ).flatten.contains x.src := by
    funext x; exact presentFrom_zero _ x
  rw [hp]
  rw [perGroup_eq_perCell (fun c k => ilistCell D periodic ℓ c k) (fun s => (tS.level ℓ).flatten.contains s) (elemM2L ℓ)
    (fun c k => ilistCell_tpos D periodic ℓ c k) (fun _ _ => rfl) (tT.level ℓ)]
  rw [FS.cells ℓ hℓ, FT.cells ℓ hℓ]
  exact m2l_level_char D periodic ℓ _ _ (cell_bound D (H-1) ℓ (by omega) _ FS.bound)
    ((sortDedup_sorted _).imp (fun h => Nat.ne_of_lt h))

theorem p2pTsm_refines (hH : 1 ≤ H) :
    ((p2pAllTsm D false H tT.leafGroups tS.leafGroups).flatMap elemsOfCall).Perm
      (specP2PTsm D false (H-1) (lsT.map (·.idx)) (lsS.map (·.idx))) := by
  rw [FS.last, FT.last]
  refine (p2pAllTsm_elems D false H (tT.level (H-1)) (tS.level (H-1)) (FS.inv (H-1) (by omega))).trans ?_
  have hp : (presentFrom (tS.level (H-1)) 0) = fun x => (tS.level (H-1)).flatten.contains x.src := by
    funext x; exact presentFrom_zero _ x
  rw [hp]
  refine (perGroupTsm_eq_perCell D false (H-1) (fun s => (tS.level (H-1)).flatten.contains s) (tT.level (H-1))).trans ?_
  have c0 : ∀ (ls : List Leaf), (ls.map (·.idx)).Pairwise (· < ·) → specCells D (H-1) (ls.map (·.idx)) (H-1) = ls.map (·.idx) := by
    intro ls hs
    unfold specCells
    simp only [Nat.sub_self, Nat.mul_zero, Nat.pow_zero, Nat.div_one, List.map_id']
    exact sortDedup_of_sorted _ hs
  rw [FS.cells (H-1) (by omega), FT.cells (H-1) (by omega), c0 lsS FS.sorted, c0 lsT FT.sorted]
  exact p2pTsm_level_char D false (H-1) _ _ FT.bound FS.bound (FS.sorted.imp (fun h => Nat.ne_of_lt h))

end

end Tbfmm

namespace Tbfmm

theorem applyCalls_five (w : Nat → Nat) (L : Nat) (po po' : Nat → List Nat) (s : State) (A B C D E : List Call) :
    applyCalls w L po po' s (A ++ B ++ C ++ D ++ E) =
      applyCalls w L po po' (applyCalls w L po po' (applyCalls w L po po' (applyCalls w L po po' (applyCalls w L po po' s A) B) C) D) E := by
  simp only [applyCalls, List.foldl_append]

/-- particle facts of a built tree: lookup, uniqueness -/
theorem built_particles (D H bs : Nat) (mode : Bool) (leafIdx : List Nat) (hbs : 0 < bs) (T : Tree) (ls : List Leaf)
    (hT : T = Tree.build D H bs mode leafIdx) (hls : T.pgroups.flatten = ls) (F : BuiltFacts D H T ls) (p : Nat) (hp : p < leafIdx.length) :
    (∀ lf ∈ ls, T.partsOf lf.idx = lf.parts) ∧
    ∃ lfa ∈ ls, ∀ i ∈ ls.map (·.idx), (T.partsOf i).count p = if i = lfa.idx then 1 else 0 := by
  have hperm := C13_indices_perm D H bs mode leafIdx hbs
  rw [← hT] at hperm
  have hidx : (ls.map (·.idx)).Nodup := F.sorted.imp (fun h => Nat.ne_of_lt h)
  have hpartsP : (ls.flatMap (·.parts)).Perm (List.range leafIdx.length) := by
    rw [← hls, ← stored_parts]; exact hperm
  have hpartsN : (ls.flatMap (·.parts)).Nodup := hpartsP.symm.nodup List.nodup_range
  obtain ⟨lfa, hlfa, hca⟩ := particle_unique ls hidx hpartsN p (hpartsP.symm.subset (List.mem_range.2 hp))
  have hpo : ∀ lf ∈ ls, T.partsOf lf.idx = lf.parts := by
    intro lf hl
    exact partsOf_spec T (by rw [hls]; exact hidx) lf (by rw [hls]; exact hl)
  refine ⟨hpo, lfa, hlfa, ?_⟩
  intro i hi
  obtain ⟨lf, hl, rfl⟩ := List.mem_map.1 hi
  rw [hpo lf hl]; exact hca lf hl

theorem C09_values (D H bsS bsT : Nat) (modeS modeT : Bool) (srcIdx tgtIdx : List Nat) (upper : Nat)
    (hbsS : 0 < bsS) (hbsT : 0 < bsT) (hneS : srcIdx ≠ []) (hneT : tgtIdx ≠ []) (hH : 1 ≤ H)
    (hltS : ∀ i ∈ srcIdx, i < 2^(D*(H-1))) (hltT : ∀ i ∈ tgtIdx, i < 2^(D*(H-1))) (hu : upper ≤ 2)
    (p q : Nat) (hp : p < tgtIdx.length) (hq : q < srcIdx.length) :
    (applyCalls (wq q) (H-1) (Tree.build D H bsT modeT tgtIdx).partsOf (Tree.build D H bsS modeS srcIdx).partsOf {}
      (executeTsm (Tree.build D H bsS modeS srcIdx) (Tree.build D H bsT modeT tgtIdx) false 63 upper)).r p = 1 := by
  have FS := built_facts D H bsS modeS srcIdx hbsS hneS hH hltS
  have FT := built_facts D H bsT modeT tgtIdx hbsT hneT hH hltT
  obtain ⟨hpoS, lfb, hlfb, hqb⟩ := built_particles D H bsS modeS srcIdx hbsS _ _ rfl rfl FS q hq
  obtain ⟨hpoT, lfa, hlfa, hpa⟩ := built_particles D H bsT modeT tgtIdx hbsT _ _ rfl rfl FT p hp
  generalize Tree.build D H bsS modeS srcIdx = tS at *
  generalize Tree.build D H bsT modeT tgtIdx = tT at *
  generalize hlsS : tS.pgroups.flatten = lsS at *
  generalize hlsT : tT.pgroups.flatten = lsT at *
  have hidxS : (lsS.map (·.idx)).Nodup := FS.sorted.imp (fun h => Nat.ne_of_lt h)
  have hidxT : (lsT.map (·.idx)).Nodup := FT.sorted.imp (fun h => Nat.ne_of_lt h)
  have ha : lfa.idx ∈ lsT.map (·.idx) := List.mem_map.2 ⟨lfa, hlfa, rfl⟩
  have hb : lfb.idx ∈ lsS.map (·.idx) := List.mem_map.2 ⟨lfb, hlfb, rfl⟩
  have hndS : ∀ ℓ, (specCells D (H-1) (lsS.map (·.idx)) ℓ).Nodup := fun ℓ => (sortDedup_sorted _).imp (fun h => Nat.ne_of_lt h)
  have hndT : ∀ ℓ, (specCells D (H-1) (lsT.map (·.idx)) ℓ).Nodup := fun ℓ => (sortDedup_sorted _).imp (fun h => Nat.ne_of_lt h)
  have hanc : ∀ (ls : List Nat) (x : Nat), x ∈ ls → ∀ ℓ, ℓ ≤ H - 1 → anc D (H-1) ℓ x ∈ specCells D (H-1) ls ℓ := by
    intro ls x hx ℓ hℓ
    have := anc_mem_specCells D (H-1) _ x hx (H - 1 - ℓ) (by omega)
    have e : H - 1 - (H - 1 - ℓ) = ℓ := by omega
    rw [e] at this
    exact this
  have f63 : hasFlag 63 flagP2M = true ∧ hasFlag 63 flagM2M = true ∧ hasFlag 63 flagM2L = true ∧
      hasFlag 63 flagL2L = true ∧ hasFlag 63 flagL2P = true ∧ hasFlag 63 flagP2P = true := by decide
  unfold executeTsm
  simp only [f63.1, f63.2.1, f63.2.2.1, f63.2.2.2.1, f63.2.2.2.2.1, f63.2.2.2.2.2, if_true, Bool.false_eq_true, if_false]
  simp only [p2mAll, m2mAll, l2lAll, l2pAll, FS.hH, FS.hD, FT.hH, FT.hD]
  rw [applyCalls_five]
  have hflat : ∀ (t : Tree) (ls : List Leaf), t.pgroups.flatten = ls → ∀ (mk : Nat → List Nat → Call),
      (t.pgroups.flatMap fun g => g.map fun l => mk l.idx l.parts) = ls.map fun l => mk l.idx l.parts := by
    intro t ls h mk
    rw [← h]
    generalize t.pgroups = pg
    induction pg with
    | nil => rfl
    | cons g pg ih => simp only [List.flatMap_cons, List.flatten_cons, List.map_append, ih]
  rw [hflat tS lsS hlsS Call.p2m, hflat tT lsT hlsT Call.l2p]
  generalize hs0 : ({} : State) = s0
  have s0m : ∀ l i, s0.m l i = 0 := by intro l i; rw [← hs0]; exact empty_m l i
  have s0l : ∀ l i, s0.l l i = 0 := by intro l i; rw [← hs0]; exact empty_l l i
  have s0r : ∀ p, s0.r p = 0 := by intro p; rw [← hs0]; exact empty_r p
  -- P2M on the source tree
  obtain ⟨p1m, p1l, p1r⟩ := phase_p2m (wq q) (H-1) tT.partsOf tS.partsOf (if H > upper then lsS.map fun l => Call.p2m l.idx l.parts else [])
    (by
      intro c hc
      split at hc
      · obtain ⟨l, hl, rfl⟩ := List.mem_map.1 hc
        exact ⟨l.idx, by rw [hpoS l hl]⟩
      · simp at hc) s0
  generalize hs1 : applyCalls (wq q) (H-1) tT.partsOf tS.partsOf s0 (if H > upper then lsS.map fun l => Call.p2m l.idx l.parts else []) = s1 at *
  have s1m : ∀ lv i, s1.m lv i = if H > upper ∧ lv = H - 1 ∧ i = lfb.idx then 1 else 0 := by
    intro lv i
    rw [p1m, s0m, Nat.zero_add]
    by_cases hact : H > upper
    · simp only [hact, if_true, true_and]
      have e : (lsS.map fun l => Call.p2m l.idx l.parts).flatMap elemsOfCall = (lsS.map (·.idx)).map fun j => Elem.p2m j (tS.partsOf j).length := by
        rw [List.map_map]
        generalize hg : lsS = ls' at hpoS ⊢
        clear hg
        induction ls' with
        | nil => rfl
        | cons l ls' ih =>
          simp only [List.map_cons, List.flatMap_cons, elemsOfCall, List.singleton_append, Function.comp]
          rw [ih (fun lf hl => hpoS lf (by simp [hl])), hpoS l (by simp)]
      rw [e, sumOver_map]
      have : sumOver (lsS.map (·.idx)) ((cM (wq q) (H-1) tS.partsOf s0 lv i) ∘ fun j => Elem.p2m j (tS.partsOf j).length) =
          sumOver (lsS.map (·.idx)) (fun j => if j = i then (if lv = H - 1 then (tS.partsOf j).count q else 0) else 0) := by
        apply sumOver_congr
        intro j _
        simp only [Function.comp, cM, sumW_wq]
        by_cases h1 : j = i <;> by_cases h2 : lv = H - 1
        · subst h1; subst h2; simp
        · subst h1
          have : ¬ (H - 1, j) = (lv, j) := by intro e; injection e with e1 _; exact h2 e1.symm
          rw [if_neg this]; simp [h2]
        · have : ¬ (H - 1, j) = (lv, i) := by intro e; injection e with _ e2; exact h1 e2
          simp [this, h1]
        · have : ¬ (H - 1, j) = (lv, i) := by intro e; injection e with _ e2; exact h1 e2
          simp [this, h1]
      rw [this, sumOver_indicator _ hidxS]
      by_cases hi : i ∈ lsS.map (·.idx)
      · rw [if_pos hi, hqb i hi]
        by_cases h1 : lv = H - 1 <;> by_cases h2 : i = lfb.idx <;> simp [h1, h2]
      · rw [if_neg hi]
        have : i ≠ lfb.idx := fun e => hi (e ▸ hb)
        simp [this]
    · simp [hact, sumOver]
  have s1l : ∀ lv i, s1.l lv i = 0 := by intro lv i; rw [p1l, s0l]
  have s1r : ∀ p, s1.r p = 0 := by intro p; rw [p1r, s0r]
  generalize hcS : (fun ℓ => specCells D (H-1) (lsS.map (·.idx)) ℓ) = cellsS at *
  generalize hcT : (fun ℓ => specCells D (H-1) (lsT.map (·.idx)) ℓ) = cellsT at *
  have hcSA : ∀ ℓ, specCells D (H-1) (lsS.map (·.idx)) ℓ = cellsS ℓ := fun ℓ => by rw [← hcS]
  have hcTA : ∀ ℓ, specCells D (H-1) (lsT.map (·.idx)) ℓ = cellsT ℓ := fun ℓ => by rw [← hcT]
  have resForm : ∀ c ∈ (if H > upper then lsT.map fun l => Call.l2p l.idx l.parts else []) ++ p2pAllTsm D false H tT.leafGroups tS.leafGroups, isResultCall tT.partsOf c := by
    intro c hc
    rw [List.mem_append] at hc
    rcases hc with hc | hc
    · split at hc
      · obtain ⟨l, hl, rfl⟩ := List.mem_map.1 hc
        exact (hpoT l hl).symm
      · simp at hc
    · exact p2pAllTsm_form D false H tT.partsOf _ _ c hc
  have resElems : (((if H > upper then lsT.map fun l => Call.l2p l.idx l.parts else []) ++ p2pAllTsm D false H tT.leafGroups tS.leafGroups).flatMap elemsOfCall).Perm
      ((if decide (H > upper) then (lsT.map (·.idx)).map (fun i => Elem.l2p i (tT.partsOf i).length) else []) ++
        specP2PTsm D false (H-1) (lsT.map (·.idx)) (lsS.map (·.idx))) := by
    rw [List.flatMap_append]
    apply List.Perm.append
    · apply List.Perm.of_eq
      by_cases hact : H > upper
      · simp only [hact, if_true, decide_true]
        rw [List.map_map]
        generalize hg : lsT = ls' at hpoT ⊢
        clear hg
        induction ls' with
        | nil => rfl
        | cons l ls' ih =>
          simp only [List.map_cons, List.flatMap_cons, elemsOfCall, List.singleton_append, Function.comp]
          rw [ih (fun lf hl => hpoT lf (by simp [hl])), hpoT l (by simp)]
      · simp [hact]
    · exact p2pTsm_refines FS FT hH
  have key : (applyCalls (wq q) (H-1) tT.partsOf tS.partsOf
      (applyCalls (wq q) (H-1) tT.partsOf tS.partsOf
        (applyCalls (wq q) (H-1) tT.partsOf tS.partsOf
          (applyCalls (wq q) (H-1) tT.partsOf tS.partsOf s1
            ((midLevels H upper).reverse.flatMap fun l => m2mLevel D l (tS.level l) (tS.level (l + 1))))
          ((m2lLevels H upper).flatMap fun l => m2lLevelTsm D false l (tT.level l) (tS.level l)))
        ((midLevels H upper).flatMap fun l => l2lLevel D l (tT.level l) (tT.level (l + 1))))
      ((if H > upper then lsT.map fun l => Call.l2p l.idx l.parts else []) ++ p2pAllTsm D false H tT.leafGroups tS.leafGroups)).r p =
      (if upper ≤ H - 1 then Aval D (H-1) upper cellsT cellsS lfb.idx upper (anc D (H-1) upper lfa.idx) +
          sumA D (H-1) lfa.idx (Aval D (H-1) upper cellsT cellsS lfb.idx) upper (H - 1 - upper) else 0) +
      (if Elem.p2pTsm lfb.idx lfa.idx (p2pCode D (H-1) lfa.idx lfb.idx) ∈ specP2PTsm D false (H-1) (lsT.map (·.idx)) (lsS.map (·.idx)) then 1 else 0) := by
    by_cases hact : H > upper
    · have huL : upper ≤ H - 1 := by omega
      rw [midLevels_eq, m2lLevels_eq]
      obtain ⟨m1, m2, m3, m4⟩ := m2m_pass q D (H-1) tT.partsOf tS.partsOf cellsS lfb.idx (fun ℓ => by rw [← hcSA]; exact hndS ℓ)
        (fun ℓ hℓ => by rw [← hcSA]; exact hanc _ _ hb ℓ hℓ) upper
        (fun ℓ => m2mLevel D ℓ (tS.level ℓ) (tS.level (ℓ+1))) (fun ℓ => m2mLevel_form D ℓ _ _) (H - 1 - upper) (by omega)
        (fun ℓ h1 h2 => by rw [← hcSA]; exact m2m_level_elems FS ℓ (by omega)) s1
        (by
          intro ℓ i h1 h2
          have : ℓ = H - 1 := by omega
          subst this
          rw [s1m, anc_leaf]
          simp [hact])
        (by
          intro ℓ i h1
          rw [s1m]
          have : ¬ ℓ = H - 1 := by omega
          simp [this])
      generalize applyCalls (wq q) (H-1) tT.partsOf tS.partsOf s1 ((List.range' upper (H - 1 - upper)).reverse.flatMap fun l => m2mLevel D l (tS.level l) (tS.level (l + 1))) = s2 at *
      have e1 : H - upper = H - 1 + 1 - upper := by omega
      rw [e1]
      obtain ⟨t1, t2, t3⟩ := m2l_phase_eval q D (H-1) tT.partsOf tS.partsOf cellsT cellsS lfb.idx (fun ℓ => by rw [← hcTA]; exact hndT ℓ)
        (fun ℓ => by rw [← hcSA]; exact hndS ℓ) upper huL
        ((List.range' upper (H - 1 + 1 - upper)).flatMap fun l => m2lLevelTsm D false l (tT.level l) (tS.level l))
        (by
          intro c hc
          obtain ⟨l, _, hc⟩ := List.mem_flatMap.1 hc
          exact m2lLevelTsm_form D false l _ _ c hc)
        (by
          rw [List.flatMap_assoc]
          apply flatMap_perm_of_forall
          intro l hl
          rw [List.mem_range'_1] at hl
          rw [← hcTA, ← hcSA]
          exact m2lTsm_level_refines FS FT false l (by omega))
        s2 (fun ℓ j h1 h2 => m1 ℓ j h1 h2) (fun lv i => by rw [m3, s1l])
      generalize applyCalls (wq q) (H-1) tT.partsOf tS.partsOf s2 ((List.range' upper (H - 1 + 1 - upper)).flatMap fun l => m2lLevelTsm D false l (tT.level l) (tS.level l)) = s3 at *
      obtain ⟨d1, d2, d3⟩ := l2l_pass q D (H-1) tT.partsOf tS.partsOf cellsT lfa.idx (fun ℓ => by rw [← hcTA]; exact hndT ℓ)
        (fun ℓ hℓ => by rw [← hcTA]; exact hanc _ _ ha ℓ hℓ) (Aval D (H-1) upper cellsT cellsS lfb.idx)
        (fun ℓ => l2lLevel D ℓ (tT.level ℓ) (tT.level (ℓ+1))) (fun ℓ => l2lLevel_form D ℓ _ _) (H - 1 - upper) upper (by omega)
        (fun ℓ h1 h2 => by rw [← hcTA]; exact l2l_level_elems FT ℓ (by omega)) s3
        (Aval D (H-1) upper cellsT cellsS lfb.idx upper (anc D (H-1) upper lfa.idx)) (t1 _ _) (fun ℓ i _ => t1 ℓ i)
      generalize applyCalls (wq q) (H-1) tT.partsOf tS.partsOf s3 ((List.range' upper (H - 1 - upper)).flatMap fun l => l2lLevel D l (tT.level l) (tT.level (l + 1))) = s4 at *
      have e2 : upper + (H - 1 - upper) = H - 1 := by omega
      rw [e2, anc_leaf] at d1
      have := results_eval_tsm q p D (H-1) tT.partsOf tS.partsOf (lsT.map (·.idx)) (lsS.map (·.idx)) lfa.idx lfb.idx hidxT hidxS ha hpa hqb
        (decide (H > upper)) _ resForm resElems s4 (by rw [d3, t3, m4, s1r])
      rw [this, d1]
      simp [hact, huL]
    · have huL : ¬ upper ≤ H - 1 := by omega
      have z1 : H - 1 - upper = 0 := by omega
      have z2 : H - upper = 0 := by omega
      rw [midLevels_eq, m2lLevels_eq, z1, z2]
      simp only [List.range'_zero, List.reverse_nil, List.flatMap_nil, applyCalls, List.foldl_nil]
      have := results_eval_tsm q p D (H-1) tT.partsOf tS.partsOf (lsT.map (·.idx)) (lsS.map (·.idx)) lfa.idx lfb.idx hidxT hidxS ha hpa hqb
        (decide (H > upper)) _ resForm resElems s1 (s1r p)
      simp only [applyCalls] at this
      rw [this]
      simp [hact, huL]
  rw [key]
  subst hcS
  subst hcT
  rw [far_total D (H-1) upper (lsT.map (·.idx)) (lsS.map (·.idx)) lfa.idx lfb.idx ha hb hu]
  by_cases hadj : Far.adj (decode D (H-1) lfa.idx) (decode D (H-1) lfb.idx)
  · rw [if_pos hadj]
    have hm : Elem.p2pTsm lfb.idx lfa.idx (p2pCode D (H-1) lfa.idx lfb.idx) ∈ specP2PTsm D false (H-1) (lsT.map (·.idx)) (lsS.map (·.idx)) :=
      (mem_specP2PTsm_np D (H-1) _ _ _ _ _).2 ⟨ha, hb, hadj, rfl⟩
    rw [if_pos hm]
  · rw [if_neg hadj]
    have hm : ¬ Elem.p2pTsm lfb.idx lfa.idx (p2pCode D (H-1) lfa.idx lfb.idx) ∈ specP2PTsm D false (H-1) (lsT.map (·.idx)) (lsS.map (·.idx)) := by
      intro h
      exact hadj ((mem_specP2PTsm_np D (H-1) _ _ _ _ _).1 h).2.2.1
    rw [if_neg hm]

end Tbfmm
