import Tbfmm.Proofs.ValuesPer2
/-!
Periodic runs: result phases.
-/
namespace Tbfmm

section
variable (q p : Nat) (D L : Nat) (po : Nat → List Nat) (leaves : List Nat) (a b : Nat)
  (hn : leaves.Nodup) (ha : a ∈ leaves) (hb : b ∈ leaves)
  (hp : ∀ i ∈ leaves, (po i).count p = if i = a then 1 else 0)
  (hq : ∀ i ∈ leaves, (po i).count q = if i = b then 1 else 0)

include hn ha hb hp hq

/-- **result phases, periodic** -/
theorem results_eval_per (act : Bool) (cs : List Call) (hform : ∀ c ∈ cs, isResultCall po c)
    (helems : (cs.flatMap elemsOfCall).Perm ((if act then leaves.map (fun i => Elem.l2p i (po i).length) else []) ++
        (specP2P D true L leaves ++ leaves.map Elem.p2pInner)))
    (s : State) (hr : s.r p = 0) :
    (applyCalls (wq q) L po po s cs).r p =
      (if act then s.l L a else 0) +
      (sumOver (shiftsAt D L) (fun k => if perP2PTest D L a b k then 1 else 0) +
       sumOver (shiftsAt D L) (fun k => if perP2PTest D L b a k then 1 else 0)) +
      ((if a = b then 1 else 0) - wq q p) := by
  obtain ⟨h1, _, _⟩ := phase_results (wq q) L po po cs hform s
  rw [h1, hr, Nat.zero_add, sumOver_perm _ _ _ helems, sumOver_append, sumOver_append]
  have e1 : sumOver (if act then leaves.map (fun i => Elem.l2p i (po i).length) else []) (cR (wq q) L po po s p) = if act then s.l L a else 0 := by
    cases act
    · simp [sumOver]
    · simp only [if_true]
      rw [sumOver_map]
      have : sumOver leaves ((cR (wq q) L po po s p) ∘ fun i => Elem.l2p i (po i).length) =
          sumOver leaves (fun i => if i = a then s.l L i else 0) := by
        apply sumOver_congr
        intro i hi
        simp only [Function.comp, cR, hp i hi]
        split <;> simp
      rw [this, sumOver_indicator _ hn, if_pos ha]
  have e3 : sumOver (leaves.map Elem.p2pInner) (cR (wq q) L po po s p) = (if a = b then 1 else 0) - wq q p := by
    rw [sumOver_map]
    have : sumOver leaves ((cR (wq q) L po po s p) ∘ Elem.p2pInner) =
        sumOver leaves (fun i => if i = a then (sumW (wq q) (po i) - wq q p) else 0) := by
      apply sumOver_congr
      intro i hi
      simp only [Function.comp, cR, hp i hi]
      split <;> simp
    rw [this, sumOver_indicator _ hn, if_pos ha, sumW_wq, hq a ha]
  rw [e1, p2p_per_sum q p D L po leaves a b hn ha hb hp hq s, e3]
  omega

end

end Tbfmm
