import Tbfmm.Proofs.Search
/-! `getElementFromParentIndex`: first cell of a group whose parent is the given index (C16) -/
namespace Tbfmm

/-- **C16, lookup by parent index**: on a group whose cells' parents are non-decreasing (sorted cells, monotone
    parent map) the lookup returns the *first* position whose cell has that parent, and nothing iff no cell
    of the group has it -/
theorem findByParent_spec (par : Nat → Nat) (cells : List Nat) (hs : (cells.map par).Pairwise (· ≤ ·)) (pidx : Nat) :
    (∀ k, findByParent par cells pidx = some k →
      k < cells.length ∧ par (cells.getD k 0) = pidx ∧ ∀ j, j < k → par (cells.getD j 0) < pidx) ∧
    (findByParent par cells pidx = none → ∀ c ∈ cells, par c ≠ pidx) := by
  have hidx : ∀ i j, i < j → (hj : j < cells.length) → par (cells.getD i 0) ≤ par (cells.getD j 0) := by
    intro i j hij hj
    have hi : i < cells.length := by omega
    have := List.pairwise_iff_getElem.mp hs i j (by simpa using hi) (by simpa using hj) hij
    simpa [List.getD_eq_getElem?_getD, List.getElem?_eq_getElem, hj, hi] using this
  have mono : ∀ a b, 0 ≤ a → a ≤ b → b < 0 + cells.length →
      (fun i => decide (par (cells.getD i 0) < pidx)) b = true → (fun i => decide (par (cells.getD i 0) < pidx)) a = true := by
    intro a b _ hab hb h
    simp only [decide_eq_true_eq] at *
    rcases Nat.lt_or_ge a b with h1 | h1
    · have := hidx a b h1 (by omega); omega
    · have : a = b := by omega
      subst this; exact h
  obtain ⟨_, r2, r3, r4⟩ := lowerBoundIdx_spec _ cells.length 0 cells.length (Nat.le_refl _) mono
  constructor
  · intro k hk
    unfold findByParent at hk
    simp only at hk
    generalize hk0 : lowerBoundIdx (fun i => decide (par (cells.getD i 0) < pidx)) cells.length 0 cells.length = k0 at *
    split at hk
    · exact absurd hk (by simp)
    · split at hk
      · exact absurd hk (by simp)
      · rename_i h1 h2
        have hkk : k0 = k := Option.some.inj hk
        subst hkk
        refine ⟨by omega, Decidable.not_not.mp h2, ?_⟩
        intro j hj
        have := r3 j (by omega) hj
        simpa using this
  · intro hnone c hmem hc
    obtain ⟨j, hj, hjv⟩ := List.getElem_of_mem hmem
    have hjD : par (cells.getD j 0) = pidx := by simp [List.getD_eq_getElem?_getD, hj, hjv, hc]
    unfold findByParent at hnone
    simp only at hnone
    generalize hk : lowerBoundIdx (fun i => decide (par (cells.getD i 0) < pidx)) cells.length 0 cells.length = k at *
    have hkj : k ≤ j := by
      rcases Nat.lt_or_ge j k with h | h
      · have := r3 j (by omega) h
        simp only [decide_eq_true_eq, hjD] at this; omega
      · exact h
    have hklen : k ≠ cells.length := by omega
    rw [if_neg hklen] at hnone
    split at hnone
    · rename_i hne
      -- par cells[k] ≥ pidx (lt false at k) and ≤ par cells[j] = pidx
      have h4 := r4 k (Nat.le_refl _) (by omega)
      simp only [decide_eq_false_iff_not, Nat.not_lt] at h4
      rcases Nat.lt_or_ge k j with h | h
      · have := hidx k j h hj; omega
      · have : k = j := by omega
        subst this; exact hne hjD
    · simp at hnone

/-- the Morton parent map is monotone, so the parents of a sorted group are non-decreasing -/
theorem parents_sorted (D : Nat) (cells : List Nat) (hs : cells.Pairwise (· < ·)) :
    (cells.map (· >>> D)).Pairwise (· ≤ ·) := by
  rw [List.pairwise_map]
  apply hs.imp
  intro a b hab
  simp only [Nat.shiftRight_eq_div_pow]
  exact Nat.div_le_div_right (Nat.le_of_lt hab)

example : findByParent (· >>> 2) [4, 5, 9, 13] 2 = some 2 ∧ findByParent (· >>> 2) [4, 5, 9, 13] 0 = none := by decide

end Tbfmm
