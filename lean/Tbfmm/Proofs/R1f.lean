import Tbfmm.Proofs.R1e
/-! R1, part f: the main induction -/
namespace Tbfmm

variable (par : Nat → Nat)

/-- common facts at a visit -/
theorem setup (Z UF : List Nat) (Pd K : List Nat) (p : Nat) (ps : List Nat) (c : Nat) (cs : List Nat)
    (hfresh : Pd = [] ∨ K = []) (hPd : ∀ x ∈ Pd, x < p) (hKd : ∀ k ∈ K, par k < p)
    (hJ : keys (runsOf par (c :: cs ++ Z)) = p :: ps ++ UF) :
    par c = p ∧
    keys (runsAux par (par c, [c]) cs) ++ tailKeys par c cs Z = p :: ps ++ UF ∧
    wrapPure par (K ++ c :: cs) (Pd ++ p :: ps) = (runsAux par (par c, [c]) cs).take (ps.length + 1) := by
  have hQ := keys_runsOf_append par c cs Z
  rw [hJ] at hQ
  have hc : par c = p := by
    have := keys_runsAux_head par (par c, [c]) cs
    rw [this] at hQ
    simp at hQ
    exact hQ.1.symm
  refine ⟨hc, hQ.symm, ?_⟩
  rw [wrapPure_eq par Pd K p ps c cs hfresh hPd hKd hc]
  have hpc : (p, [c]) = ((par c, [c]) : Run) := by rw [hc]
  have hag : PrefixAgree (p :: ps) (keys (runsAux par (p, [c]) cs)) := by
    rw [hpc]
    rcases List.append_eq_append_iff.mp hQ with ⟨a', h1, _⟩ | ⟨c', h1, _⟩
    · rw [h1]; exact prefixAgree_append_right _ _
    · rw [h1]; exact prefixAgree_append_left _ _
  rw [sib2_eq_take par p ps [c] cs hag, hpc]

theorem links_runs (c : Nat) (cs : List Nat) :
    linksOf (runsAux par (par c, [c]) cs) = (c :: cs).map (link par) := by
  rw [linksOf_good par _ (good_runsAux par _ cs (by intro x hx; simp at hx; subst hx; rfl)),
    members_runsAux]
  rfl

end Tbfmm

namespace Tbfmm
variable (par : Nat → Nat)

theorem sorted_cross {A B : List Nat} (h : (A ++ B).Pairwise (· < ·)) {a b : Nat} (ha : a ∈ A) (hb : b ∈ B) : a < b :=
  (List.pairwise_append.mp h).2.2 a ha b hb

theorem sorted_left {A B : List Nat} (h : (A ++ B).Pairwise (· < ·)) : A.Pairwise (· < ·) :=
  (List.pairwise_append.mp h).1

theorem sorted_right {A B : List Nat} (h : (A ++ B).Pairwise (· < ·)) : B.Pairwise (· < ·) :=
  (List.pairwise_append.mp h).2.1

theorem head_le_of_sorted {p : Nat} {ps : List Nat} (h : (p :: ps).Pairwise (· < ·)) : ∀ x ∈ p :: ps, p ≤ x := by
  intro x hx
  simp only [List.mem_cons] at hx
  rcases hx with hx | hx
  · omega
  · exact Nat.le_of_lt ((List.pairwise_cons.mp h).1 x hx)

theorem par_mem_keys (rs : List Run) (hg : ∀ r ∈ rs, Good par r) : ∀ x ∈ members rs, par x ∈ keys rs := by
  intro x hx
  simp only [members, List.mem_flatMap] at hx
  obtain ⟨r, hr, hxr⟩ := hx
  simp only [keys, List.mem_map]
  exact ⟨r, hr, (hg r hr x hxr).symm⟩

theorem keys_take (rs : List Run) (k : Nat) : keys (rs.take k) = (keys rs).take k := by
  simp [keys, List.map_take]

theorem keys_length (rs : List Run) : (keys rs).length = rs.length := by simp [keys]

/-- splitting the grouping at a run boundary -/
theorem runsOf_split_append (c : Nat) (xs : List Nat) (y : Nat) (ys Z : List Nat)
    (hy : par y ≠ ((runsAux par (par c, [c]) xs).getLast (runsAux_ne_nil par _ xs)).1) :
    runsOf par (c :: (xs ++ y :: ys) ++ Z) = runsAux par (par c, [c]) xs ++ runsOf par (y :: ys ++ Z) := by
  show runsAux par (par c, [c]) ((xs ++ y :: ys) ++ Z) = _
  have : (xs ++ y :: ys) ++ Z = xs ++ (y :: (ys ++ Z)) := by simp
  rw [this, runsAux_append]
  generalize hl : (runsAux par (par c, [c]) xs).getLast (runsAux_ne_nil par _ xs) = lr at hy
  obtain ⟨lp, lrr⟩ := lr
  have h1 : runsAux par (lp, lrr) (y :: (ys ++ Z)) = (lp, lrr) :: runsAux par (par y, [y]) (ys ++ Z) := by
    simp only [runsAux]; simp at hy; simp [hy]
  rw [h1]
  have h2 := List.dropLast_concat_getLast (runsAux_ne_nil par (par c, [c]) xs)
  rw [hl] at h2
  conv => rhs; rw [← h2]
  simp [runsOf]

end Tbfmm
