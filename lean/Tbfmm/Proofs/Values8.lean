import Tbfmm.Proofs.Values7
/-!
Counting the transfers between the ancestors of two leaves: the total over the levels is 0 for adjacent
(or equal) leaves and 1 otherwise.
-/
namespace Tbfmm

theorem Far.adj_refl : ∀ (v : List Nat), Far.adj v v
  | [] => trivial
  | x :: xs => ⟨⟨by omega, by omega⟩, Far.adj_refl xs⟩

theorem Far.adj_symm : ∀ {u v : List Nat}, Far.adj u v → Far.adj v u
  | [], [], _ => trivial
  | x :: xs, y :: ys, h => ⟨⟨h.1.2, h.1.1⟩, Far.adj_symm h.2⟩
  | [], _ :: _, h => by simp [Far.adj] at h
  | _ :: _, [], h => by simp [Far.adj] at h

instance (k : Nat) (u v : List Nat) : Decidable (Far.inter k u v) := by unfold Far.inter; infer_instance

theorem sumA_zero (D L a : Nat) (A : Nat → Nat → Nat) (v k : Nat)
    (h : ∀ ℓ, v < ℓ → ℓ ≤ v + k → A ℓ (anc D L ℓ a) = 0) : sumA D L a A v k = 0 := by
  induction k generalizing v with
  | zero => rfl
  | succ k ih =>
    simp only [sumA]
    rw [h (v+1) (by omega) (by omega), ih (v+1) (fun ℓ h1 h2 => h ℓ (by omega) (by omega))]

theorem sumA_indicator (D L a : Nat) (A : Nat → Nat → Nat) (ℓ0 : Nat) (v k : Nat)
    (h : ∀ ℓ, v < ℓ → ℓ ≤ v + k → A ℓ (anc D L ℓ a) = if ℓ = ℓ0 then 1 else 0) :
    sumA D L a A v k = if v < ℓ0 ∧ ℓ0 ≤ v + k then 1 else 0 := by
  induction k generalizing v with
  | zero =>
    simp only [sumA]
    rw [if_neg (by omega)]
  | succ k ih =>
    simp only [sumA]
    rw [h (v+1) (by omega) (by omega), ih (v+1) (fun ℓ h1 h2 => h ℓ (by omega) (by omega))]
    by_cases h1 : v + 1 = ℓ0
    · rw [if_pos h1, if_neg (by omega), if_pos (by omega)]
    · rw [if_neg h1]
      by_cases h2 : v + 1 < ℓ0 ∧ ℓ0 ≤ v + 1 + k
      · rw [if_pos h2, if_pos (by omega)]
      · rw [if_neg h2, if_neg (by omega)]

section
variable (D L u : Nat) (leavesT leavesS : List Nat) (a b : Nat) (ha : a ∈ leavesT) (hb : b ∈ leavesS)

include ha hb

/-- the value left by the transfer phase in the local of `a`'s ancestor at level `ℓ` -/
theorem Aval_anc (ℓ : Nat) :
    Aval D L u (fun ℓ => specCells D L leavesT ℓ) (fun ℓ => specCells D L leavesS ℓ) b ℓ (anc D L ℓ a) = 1 ↔
      (u ≤ ℓ ∧ ℓ ≤ L ∧ 2 ≤ ℓ ∧ Far.inter (L - ℓ) (decode D L a) (decode D L b)) := by
  unfold Aval
  by_cases h : u ≤ ℓ ∧ ℓ ≤ L
  · rw [if_pos h]
    have hk : L - (L - ℓ) = ℓ := by omega
    constructor
    · intro h1
      have hmem : Elem.m2l ℓ (anc D L ℓ a) (anc D L ℓ b) (m2lCode D ℓ (anc D L ℓ a) (anc D L ℓ b)) ∈
          specM2LLevel D false ℓ (specCells D L leavesT ℓ) (specCells D L leavesS ℓ) := by
        by_cases hm : Elem.m2l ℓ (anc D L ℓ a) (anc D L ℓ b) (m2lCode D ℓ (anc D L ℓ a) (anc D L ℓ b)) ∈
            specM2LLevel D false ℓ (specCells D L leavesT ℓ) (specCells D L leavesS ℓ)
        · exact hm
        · simp [hm] at h1
      have h2 := ((mem_specM2L_np D ℓ _ _ _ _ _).1 hmem).1
      refine ⟨h.1, h.2, h2, ?_⟩
      have := (m2l_between_ancestors_iff2 D L leavesT leavesS a b ha hb (L - ℓ) (by omega)).1
      rw [hk] at this
      exact this ⟨_, hmem⟩
    · rintro ⟨_, _, h2, hi⟩
      have := (m2l_between_ancestors_iff2 D L leavesT leavesS a b ha hb (L - ℓ) (by omega)).2 hi
      rw [hk] at this
      obtain ⟨c, hc⟩ := this
      have hc' := hc
      rw [mem_specM2L_np] at hc'
      obtain ⟨_, _, _, _, _, rfl⟩ := hc'
      have : Elem.m2l ℓ (anc D L ℓ a) (anc D L ℓ b) (m2lCode D ℓ (anc D L ℓ a) (anc D L ℓ b)) ∈
          specM2LLevel D false ℓ (specCells D L leavesT ℓ) (specCells D L leavesS ℓ) := hc
      simp [this]
  · rw [if_neg h]
    constructor
    · intro h1; exact absurd h1 (by omega)
    · rintro ⟨h1, h2, _, _⟩; exact absurd ⟨h1, h2⟩ h

theorem Aval_le_one (ℓ i : Nat) : Aval D L u (fun ℓ => specCells D L leavesT ℓ) (fun ℓ => specCells D L leavesS ℓ) b ℓ i ≤ 1 := by
  unfold Aval
  split
  · split <;> omega
  · omega

/-- **total of the transfers between the ancestors of `a` and `b`** over the levels `u … L`, `u ≤ 2` -/
theorem far_total (hu : u ≤ 2) :
    (if u ≤ L then Aval D L u (fun ℓ => specCells D L leavesT ℓ) (fun ℓ => specCells D L leavesS ℓ) b u (anc D L u a) +
        sumA D L a (Aval D L u (fun ℓ => specCells D L leavesT ℓ) (fun ℓ => specCells D L leavesS ℓ) b) u (L - u) else 0) =
      if Far.adj (decode D L a) (decode D L b) then 0 else 1 := by
  have val01 : ∀ ℓ, Aval D L u (fun ℓ => specCells D L leavesT ℓ) (fun ℓ => specCells D L leavesS ℓ) b ℓ (anc D L ℓ a) =
      if (u ≤ ℓ ∧ ℓ ≤ L ∧ 2 ≤ ℓ ∧ Far.inter (L - ℓ) (decode D L a) (decode D L b)) then 1 else 0 := by
    intro ℓ
    have h1 := Aval_anc D L u leavesT leavesS a b ha hb ℓ
    have h2 := Aval_le_one D L u leavesT leavesS a b ha hb ℓ (anc D L ℓ a)
    by_cases hc : (u ≤ ℓ ∧ ℓ ≤ L ∧ 2 ≤ ℓ ∧ Far.inter (L - ℓ) (decode D L a) (decode D L b))
    · rw [if_pos hc]; exact h1.2 hc
    · rw [if_neg hc]
      have : ¬ Aval D L u (fun ℓ => specCells D L leavesT ℓ) (fun ℓ => specCells D L leavesS ℓ) b ℓ (anc D L ℓ a) = 1 := fun e => hc (h1.1 e)
      omega
  by_cases hadj : Far.adj (decode D L a) (decode D L b)
  · rw [if_pos hadj]
    have z : ∀ ℓ, Aval D L u (fun ℓ => specCells D L leavesT ℓ) (fun ℓ => specCells D L leavesS ℓ) b ℓ (anc D L ℓ a) = 0 := by
      intro ℓ
      rw [val01, if_neg]
      rintro ⟨_, _, _, hi⟩
      exact Far.near_none _ _ hadj _ hi
    split
    · rw [z u, sumA_zero D L a _ u (L - u) (fun ℓ _ _ => z ℓ)]
    · rfl
  · rw [if_neg hadj]
    obtain ⟨k0, ⟨hk0, hi0⟩, huniq⟩ := Far.far_unique L (decode D L a) (decode D L b) (by simp)
      (decode_lt D L a) (decode_lt D L b) hadj
    have huL : u ≤ L := by omega
    rw [if_pos huL]
    have ind : ∀ ℓ, u ≤ ℓ → ℓ ≤ L → Aval D L u (fun ℓ => specCells D L leavesT ℓ) (fun ℓ => specCells D L leavesS ℓ) b ℓ (anc D L ℓ a) = if ℓ = L - k0 then 1 else 0 := by
      intro ℓ h1 h2
      rw [val01]
      by_cases he : ℓ = L - k0
      · rw [if_pos he, if_pos]
        subst he
        have : L - (L - k0) = k0 := by omega
        rw [this]
        exact ⟨h1, h2, by omega, hi0⟩
      · rw [if_neg he, if_neg]
        rintro ⟨_, _, _, hi⟩
        have := huniq _ hi
        omega
    rw [ind u (Nat.le_refl _) huL, sumA_indicator D L a _ (L - k0) u (L - u) (fun ℓ h1 h2 => ind ℓ (by omega) (by omega))]
    by_cases h : u = L - k0
    · rw [if_pos h, if_neg (by omega)]
    · rw [if_neg h, if_pos (by omega)]

end

end Tbfmm
