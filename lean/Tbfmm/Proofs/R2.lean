import Tbfmm.Proofs.FindGroup
import Tbfmm.Proofs.R3
/-!
R2 — `TbfMapIndexesAndBlocks`: the (source-sorted) external interactions are sliced per source group;
after the existence filter exactly the interactions whose source exists in some group remain, each
once, in order.
-/
namespace Tbfmm

/-- the source of `x` exists in one of the groups `ig, ig+1, …` -/
def presentFrom (gs : List Group) (ig : Nat) (x : Inter) : Bool := (gs.drop ig).any fun g => g.contains x.src

structure GroupsInv (gs : List Group) : Prop where
  ne : ∀ g ∈ gs, g ≠ []
  sorted : gs.flatten.Pairwise (· < ·)

theorem GroupsInv.cross {gs : List Group} (inv : GroupsInv gs) (i j : Nat) (hij : i < j) (hj : j < gs.length)
    (a b : Nat) (ha : a ∈ gs.getD i []) (hb : b ∈ gs.getD j []) : a < b := by
  obtain ⟨_, hcross⟩ := List.pairwise_flatten.mp inv.sorted
  have hi : i < gs.length := by omega
  have := List.pairwise_iff_getElem.mp hcross i j hi hj hij
  simp only [List.getD_eq_getElem?_getD, List.getElem?_eq_getElem hi, List.getElem?_eq_getElem hj, Option.getD_some] at ha hb
  exact this a ha b hb

theorem GroupsInv.getD_ne {gs : List Group} (inv : GroupsInv gs) (i : Nat) (hi : i < gs.length) : gs.getD i [] ≠ [] := by
  simp only [List.getD_eq_getElem?_getD, List.getElem?_eq_getElem hi, Option.getD_some]
  exact inv.ne _ (List.getElem_mem hi)

theorem GroupsInv.getD_sorted {gs : List Group} (inv : GroupsInv gs) (i : Nat) (hi : i < gs.length) : (gs.getD i []).Pairwise (· < ·) := by
  obtain ⟨hin, _⟩ := List.pairwise_flatten.mp inv.sorted
  simp only [List.getD_eq_getElem?_getD, List.getElem?_eq_getElem hi, Option.getD_some]
  exact hin _ (List.getElem_mem hi)

theorem presentFrom_iff (gs : List Group) (ig : Nat) (x : Inter) :
    presentFrom gs ig x = true ↔ ∃ j, ig ≤ j ∧ j < gs.length ∧ x.src ∈ gs.getD j [] := by
  simp only [presentFrom, List.any_eq_true, List.contains_iff_mem]
  constructor
  · rintro ⟨g, hg, hx⟩
    obtain ⟨k, hk, rfl⟩ := List.getElem_of_mem hg
    simp only [List.length_drop] at hk
    refine ⟨ig + k, by omega, by omega, ?_⟩
    simp only [List.getElem_drop] at hx
    simpa [List.getD_eq_getElem?_getD, List.getElem?_eq_getElem (show ig + k < gs.length by omega)] using hx
  · rintro ⟨j, h1, h2, hx⟩
    refine ⟨gs.getD j [], ?_, hx⟩
    have : gs.getD j [] = (gs.drop ig)[j - ig]'(by simp; omega) := by
      simp [List.getD_eq_getElem?_getD, List.getElem?_eq_getElem h2, List.getElem_drop, show ig + (j - ig) = j by omega]
    rw [this]
    exact List.getElem_mem _

theorem filter_dropWhile_of_imp {α} (p q : α → Bool) (l : List α) (h : ∀ y ∈ l, p y = true → q y = false) :
    l.filter q = (l.dropWhile p).filter q := by
  induction l with
  | nil => rfl
  | cons a l ih =>
    simp only [List.dropWhile_cons]
    by_cases hp : p a = true
    · simp only [hp, if_true, List.filter_cons, h a (by simp) hp]
      exact ih (fun y hy => h y (by simp [hy]))
    · simp [hp]

theorem sortedSrc_tail_ge (x : Inter) (xs : List Inter) (h : (x :: xs).Pairwise (fun a b => a.src ≤ b.src)) : ∀ y ∈ x :: xs, x.src ≤ y.src := by
  intro y hy
  rcases List.mem_cons.mp hy with rfl | hy
  · exact Nat.le_refl _
  · exact (List.pairwise_cons.mp h).1 y hy

theorem dropWhile_sorted {α} (p : α → Bool) (R : α → α → Prop) (l : List α) (h : l.Pairwise R) : (l.dropWhile p).Pairwise R :=
  h.sublist (List.dropWhile_sublist p)

/-- **R2** -/
theorem mapIdx_filter (gs : List Group) (inv : GroupsInv gs) :
    ∀ (fuel : Nat) (xs : List Inter) (ig : Nat), xs.length + (gs.length - ig) < fuel →
      xs.Pairwise (fun a b => a.src ≤ b.src) →
      (mapIdx gs fuel xs ig).flatMap (fun p => p.2.filter fun x => (gs.getD p.1 []).contains x.src) = xs.filter (presentFrom gs ig) := by
  intro fuel
  induction fuel with
  | zero => intro xs ig h; omega
  | succ f ih =>
    intro xs ig hfuel hsorted
    unfold mapIdx
    by_cases hxe : xs.isEmpty = true
    · have : xs = [] := by simpa using hxe
      subst this; simp
    · simp only [hxe, Bool.false_eq_true, if_false]
      by_cases hig : ig ≥ gs.length
      · simp only [hig, if_true, List.flatMap_nil]
        have : gs.drop ig = [] := List.drop_eq_nil_of_le hig
        symm
        apply List.filter_eq_nil_iff.mpr
        intro x _
        simp [presentFrom, this]
      · simp only [hig, if_false]
        have higlt : ig < gs.length := by omega
        have hgne := inv.getD_ne ig higlt
        have hgs := inv.getD_sorted ig higlt
        -- (A) entries below the first index of the group are present nowhere from `ig` on
        have hA : ∀ y ∈ xs, (decide (y.src < firstOf (gs.getD ig [])) = true) → presentFrom gs ig y = false := by
          intro y _ hy
          simp only [decide_eq_true_eq] at hy
          cases hp : presentFrom gs ig y with
          | false => rfl
          | true =>
            obtain ⟨j, h1, h2, hx⟩ := (presentFrom_iff gs ig y).mp hp
            exfalso
            have hfirst : firstOf (gs.getD ig []) ≤ y.src := by
              rcases Nat.lt_or_ge ig j with h | h
              · have := inv.cross ig j h h2 _ _ (firstOf_mem _ hgne) hx; omega
              · have : j = ig := by omega
                subst this
                exact (sorted_first_last _ hgs _ hx).1
            omega
        rw [filter_dropWhile_of_imp (fun x => decide (x.src < firstOf (gs.getD ig []))) (presentFrom gs ig) xs hA]
        have hs1 := dropWhile_sorted (fun x : Inter => decide (x.src < firstOf (gs.getD ig []))) _ xs hsorted
        have hlen1 : (xs.dropWhile fun x => decide (x.src < firstOf (gs.getD ig []))).length ≤ xs.length :=
          (List.dropWhile_sublist _).length_le
        generalize hxs1 : (xs.dropWhile fun x => decide (x.src < firstOf (gs.getD ig []))) = xs1 at *
        cases xs1 with
        | nil => simp
        | cons x xs1t =>
          simp only
          have hxge : firstOf (gs.getD ig []) ≤ x.src := by
            have hd := List.head?_dropWhile_not (fun x : Inter => decide (x.src < firstOf (gs.getD ig []))) xs
            rw [hxs1] at hd
            have hd' : decide (x.src < firstOf (gs.getD ig [])) = false := hd
            simp only [decide_eq_false_iff_not] at hd'
            omega
          have hall := sortedSrc_tail_ge x xs1t hs1
          by_cases hlast : lastOf (gs.getD ig []) < x.src
          · simp only [hlast, if_true]
            -- every group i with ig ≤ i and last_i < x.src contains no source of the remaining entries
            have noneBelow : ∀ i, ig ≤ i → i < gs.length → lastOf (gs.getD i []) < x.src → ∀ y ∈ x :: xs1t, y.src ∉ gs.getD i [] := by
              intro i _ hi hl y hy hmem
              have := (sorted_first_last _ (inv.getD_sorted i hi) _ hmem).2
              have := hall y hy
              omega
            cases hfind : (List.range gs.length).find? (fun j => decide (ig ≤ j) && !decide (lastOf (gs.getD j []) < x.src)) with
            | none =>
              simp only [List.flatMap_nil]
              symm
              apply List.filter_eq_nil_iff.mpr
              intro y hy hp
              obtain ⟨j, h1, h2, hx⟩ := (presentFrom_iff gs ig y).mp hp
              have hn := List.find?_range_eq_none.mp hfind j h2
              simp only [Bool.not_and, Bool.not_not, Bool.or_eq_true, Bool.not_eq_true', decide_eq_false_iff_not, decide_eq_true_eq] at hn
              rcases hn with hn | hn
              · omega
              · exact noneBelow j h1 h2 hn y hy hx
            | some j =>
              obtain ⟨hpj, hjr, hmin⟩ := List.find?_range_eq_some.mp hfind
              simp only [Bool.and_eq_true, decide_eq_true_eq, Bool.not_eq_true', decide_eq_false_iff_not] at hpj
              have hjlt : j < gs.length := by simpa using hjr
              have hjgt : ig < j := by
                rcases Nat.lt_or_ge ig j with h | h
                · exact h
                · exfalso
                  have : j = ig := by omega
                  subst this
                  exact hpj.2 hlast
              simp only
              rw [ih (x :: xs1t) j (by simp only [List.length_cons] at hlen1 ⊢; omega) hs1]
              -- present from ig ⟺ present from j on the remaining entries
              apply List.filter_congr
              intro y hy
              cases hp : presentFrom gs j y with
              | true =>
                obtain ⟨k, h1, h2, hx⟩ := (presentFrom_iff gs j y).mp hp
                exact ((presentFrom_iff gs ig y).mpr ⟨k, by omega, h2, hx⟩).symm
              | false =>
                cases hp2 : presentFrom gs ig y with
                | false => rfl
                | true =>
                  exfalso
                  obtain ⟨k, h1, h2, hx⟩ := (presentFrom_iff gs ig y).mp hp2
                  rcases Nat.lt_or_ge k j with hk | hk
                  · have hm := hmin k hk
                    simp only [Bool.not_and, Bool.not_not, Bool.or_eq_true, Bool.not_eq_true', decide_eq_false_iff_not, decide_eq_true_eq] at hm
                    rcases hm with hm | hm
                    · omega
                    · exact noneBelow k h1 h2 hm y hy hx
                  · have := (presentFrom_iff gs j y).mpr ⟨k, hk, h2, hx⟩
                    rw [hp] at this; exact absurd this (by simp)
          · simp only [hlast, if_false]
            simp only [List.flatMap_cons]
            have hsplit := List.takeWhile_append_dropWhile (p := fun y : Inter => decide (y.src ≤ lastOf (gs.getD ig []))) (l := x :: xs1t)
            have hslice_ne : ((x :: xs1t).takeWhile fun y => decide (y.src ≤ lastOf (gs.getD ig []))) ≠ [] := by
              have hle : decide (x.src ≤ lastOf (gs.getD ig [])) = true := by
                simp only [decide_eq_true_eq]; omega
              simp only [List.takeWhile_cons, hle, if_true]
              exact List.cons_ne_nil _ _
            have hrest_len : ((x :: xs1t).dropWhile fun y => decide (y.src ≤ lastOf (gs.getD ig []))).length < (x :: xs1t).length := by
              have := congrArg List.length hsplit
              simp only [List.length_append] at this
              have : 0 < ((x :: xs1t).takeWhile fun y => decide (y.src ≤ lastOf (gs.getD ig []))).length := List.length_pos_iff.mpr hslice_ne
              omega
            rw [ih _ ig (by simp only [List.length_cons] at hlen1 hrest_len ⊢; omega) (dropWhile_sorted _ _ _ hs1)]
            conv => rhs; rw [← hsplit, List.filter_append]
            congr 1
            apply List.filter_congr
            intro y hy
            have hyle : y.src ≤ lastOf (gs.getD ig []) := by simpa using mem_takeWhile_pred _ _ _ hy
            have hymem : y ∈ x :: xs1t := (List.takeWhile_sublist _).subset hy
            have hyge : firstOf (gs.getD ig []) ≤ y.src := by have := hall y hymem; omega
            cases hc : (gs.getD ig []).contains y.src with
            | true =>
              exact ((presentFrom_iff gs ig y).mpr ⟨ig, Nat.le_refl _, higlt, by simpa using hc⟩).symm
            | false =>
              cases hp : presentFrom gs ig y with
              | false => rfl
              | true =>
                exfalso
                obtain ⟨k, h1, h2, hx⟩ := (presentFrom_iff gs ig y).mp hp
                rcases Nat.lt_or_ge ig k with hk | hk
                · have := inv.cross ig k hk h2 _ _ (lastOf_mem _ hgne) hx
                  omega
                · have : k = ig := by omega
                  subst this
                  have hcm := List.contains_iff_mem.mpr hx
                  rw [hcm] at hc
                  exact absurd hc (by simp)

end Tbfmm
