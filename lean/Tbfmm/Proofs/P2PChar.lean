import Tbfmm.Proofs.M2LChar
import Tbfmm.Proofs.P2PRefine
/-!
Characterisation of the neighbour list builder (`getNeighborListForIndex`): for a target leaf `t`, the
present entries of `nlistCell … upperExclusion := true` are, as a multiset, the specification's direct
pairs of `t` — sources (or periodic images) adjacent to `t` whose offset lies in the upper half.
-/
namespace Tbfmm

theorem wrapP (lim x : Int) (hl : 1 ≤ lim) (hx : -1 ≤ x ∧ x ≤ lim) :
    (x + lim) % lim = if x < 0 then x + lim else if lim ≤ x then x - lim else x := by
  split
  · exact Int.emod_eq_of_lt (by omega) (by omega)
  · split
    · have : x = lim := by omega
      subst this
      rw [Int.add_emod_right, Int.emod_self]; omega
    · rw [Int.add_emod_right]; exact Int.emod_eq_of_lt (by omega) (by omega)

theorem wrapP_back (lim sp k : Int) (hl : 1 ≤ lim) (hsp : 0 ≤ sp ∧ sp < lim) (hk : k = -lim ∨ k = 0 ∨ k = lim) :
    (sp + k + lim) % lim = sp := by
  rcases hk with hk | hk | hk <;> subst hk
  · have : sp + -lim + lim = sp := by omega
    rw [this]; exact Int.emod_eq_of_lt hsp.1 hsp.2
  · rw [Int.add_zero, Int.add_emod_right]; exact Int.emod_eq_of_lt hsp.1 hsp.2
  · rw [Int.add_emod_right, Int.add_emod_right]; exact Int.emod_eq_of_lt hsp.1 hsp.2

section
variable (D : Nat) (periodic : Bool) (l : Nat)

def wrapN1 (lim o : Int) : Int := if periodic then (o + lim) % lim else o
def wrapN (other : List Int) : List Int := other.map (wrapN1 periodic (2^l))
def srcN (cpos off : List Int) : Nat := encode D l ((wrapN periodic l (vadd cpos off)).map Int.toNat)

/-- the inner body of `nlistCell` (upper exclusion on) -/
def nlistInner (t : Nat) (cpos off : List Int) : Option Inter :=
  if off.all (· == 0) then none else
  if !true || (3^D)/2 < code3 off then some { tgt := t, src := srcN D periodic l cpos off, tpos := 0, code := code3 off } else none

theorem nlistCell_eq (t : Nat) :
    nlistCell D periodic l t 0 true =
      (odometer ((toI (decode D l t)).map (rangeOf periodic (2^l)))).filterMap (nlistInner D periodic l t (toI (decode D l t))) := by
  unfold nlistCell
  rfl

/-- the specification's inner body for direct pairs -/
def specPInner (t : Nat) (tp : List Int) (s : Nat) (k : List Int) : Option Elem :=
  let off := vsub (vadd (toI (decode D l s)) k) tp
  if off.all (fun o => o.natAbs ≤ 1) && !off.all (· == 0) && (3^D)/2 < code3 off then some (Elem.p2p s t (code3 off)) else none

def PhiP (tp : List Int) (off : List Int) : Nat × List Int :=
  (srcN D periodic l tp off, vsub (vadd tp off) (wrapN periodic l (vadd tp off)))
def PsiP (tp : List Int) (y : Nat × List Int) : List Int := vsub (vadd (toI (decode D l y.1)) y.2) tp

def implPInner (t : Nat) (tp : List Int) (srcs : List Nat) (off : List Int) : Option Elem :=
  (nlistInner D periodic l t tp off).bind fun i => if srcs.contains i.src then some (elemP2P i) else none

theorem wrapN1_props (lim c o : Int) (hl : 1 ≤ lim) (hc : 0 ≤ c ∧ c < lim)
    (hr : (rangeOf periodic lim c).1 ≤ o ∧ o ≤ (rangeOf periodic lim c).2) :
    (0 ≤ wrapN1 periodic lim (c + o) ∧ wrapN1 periodic lim (c + o) < lim) ∧
    (if periodic then (c + o - wrapN1 periodic lim (c + o) = -lim ∨ c + o - wrapN1 periodic lim (c + o) = 0 ∨ c + o - wrapN1 periodic lim (c + o) = lim)
      else c + o - wrapN1 periodic lim (c + o) = 0) ∧ (-1 ≤ o ∧ o ≤ 1) := by
  unfold wrapN1
  unfold rangeOf at hr
  cases periodic
  · simp only [Bool.false_eq_true, if_false] at hr ⊢
    split at hr <;> split at hr <;> omega
  · simp only [if_true] at hr ⊢
    rw [wrapP lim (c + o) hl (by omega)]
    split
    · omega
    · split <;> omega

variable (t : Nat) (tp : List Int) (srcs : List Nat)
  (hD : tp.length = D)
  (htp : ∀ i (h : i < tp.length), 0 ≤ tp[i] ∧ tp[i] < (2:Int)^l)

include hD htp

theorem offN_props (off : List Int) (hx : InRanges (tp.map (rangeOf periodic (2^l))) off) (i : Nat) (h1 : i < tp.length) (h2 : i < off.length) :
    (0 ≤ wrapN1 periodic (2^l) (tp[i] + off[i]) ∧ wrapN1 periodic (2^l) (tp[i] + off[i]) < (2:Int)^l) ∧
    (if periodic then (tp[i] + off[i] - wrapN1 periodic (2^l) (tp[i] + off[i]) = -(2:Int)^l ∨ tp[i] + off[i] - wrapN1 periodic (2^l) (tp[i] + off[i]) = 0 ∨ tp[i] + off[i] - wrapN1 periodic (2^l) (tp[i] + off[i]) = (2:Int)^l)
      else tp[i] + off[i] - wrapN1 periodic (2^l) (tp[i] + off[i]) = 0) ∧ (-1 ≤ off[i] ∧ off[i] ≤ 1) := by
  have hr := off_get periodic l tp off hx i h1 h2
  exact wrapN1_props periodic _ _ _ (pow_int_pos l) (htp i h1) hr

/-- the position of the source reached through `off` is the wrapped neighbour position -/
theorem srcN_pos (off : List Int) (hx : InRanges (tp.map (rangeOf periodic (2^l))) off) :
    toI (decode D l (srcN D periodic l tp off)) = wrapN periodic l (vadd tp off) := by
  have hol : off.length = D := by have := hx.1; simp at this; omega
  unfold srcN
  rw [decode_encode]
  · apply toI_toNat
    intro i hi
    have hi' : i < D := by simp [wrapN, vadd] at hi; omega
    have := (offN_props D periodic l tp hD htp off hx i (by omega) (by omega)).1.1
    simpa [wrapN, vadd] using this
  · simp [wrapN, vadd, hD, hol]
  · intro c hc
    rw [List.mem_map] at hc
    obtain ⟨x, hx', rfl⟩ := hc
    obtain ⟨i, hi, rfl⟩ := List.mem_iff_getElem.1 hx'
    have hi' : i < D := by simp [wrapN, vadd] at hi; omega
    have := (offN_props D periodic l tp hD htp off hx i (by omega) (by omega)).1
    have h2 : ((2^l : Nat) : Int) = (2:Int)^l := by simp
    have h3 : ((wrapN periodic l (vadd tp off))[i].toNat : Int) < ((2^l : Nat) : Int) := by
      rw [h2]
      simp only [wrapN, vadd, List.getElem_map, List.getElem_zipWith]
      omega
    exact Int.ofNat_lt.1 h3

theorem psiPhiP (off : List Int) (hx : InRanges (tp.map (rangeOf periodic (2^l))) off) :
    PsiP D l tp (PhiP D periodic l tp off) = off := by
  have hol : off.length = D := by have := hx.1; simp at this; omega
  unfold PsiP PhiP
  simp only
  rw [srcN_pos D periodic l tp hD htp off hx]
  apply List.ext_getElem (by simp [vsub, vadd, wrapN, hD, hol])
  intro i h1 h2
  simp only [vsub, vadd, wrapN, List.getElem_zipWith, List.getElem_map]
  omega

theorem implP_eq_spec (off : List Int) (hx : InRanges (tp.map (rangeOf periodic (2^l))) off) :
    implPInner D periodic l t tp srcs off =
      if srcs.contains (PhiP D periodic l tp off).1 then specPInner D l t tp (PhiP D periodic l tp off).1 (PhiP D periodic l tp off).2 else none := by
  have hol : off.length = D := by have := hx.1; simp at this; omega
  have e := psiPhiP D periodic l tp hD htp off hx
  unfold PsiP at e
  unfold implPInner nlistInner specPInner
  simp only
  rw [e]
  have hall : off.all (fun o => decide (o.natAbs ≤ 1)) = true := by
    rw [all_iff_get]
    intro i hi
    have := (offN_props D periodic l tp hD htp off hx i (by omega) hi).2.2
    simp only [decide_eq_true_eq]
    omega
  rw [hall, Bool.true_and]
  unfold PhiP
  simp only
  cases h0 : off.all (· == 0)
  · by_cases hc : (3^D)/2 < code3 off
    · simp [hc, elemP2P]
    · simp [hc]
  · simp

theorem phiP_isShift (off : List Int) (hx : InRanges (tp.map (rangeOf periodic (2^l))) off) :
    IsShift D periodic (2^l) (PhiP D periodic l tp off).2 := by
  have hol : off.length = D := by have := hx.1; simp at this; omega
  unfold PhiP
  refine ⟨by simp [vsub, vadd, wrapN, hD, hol], ?_⟩
  intro i hi
  have hi' : i < D := by simp [vsub, vadd, wrapN] at hi; omega
  have := (offN_props D periodic l tp hD htp off hx i (by omega) (by omega)).2.1
  simpa [vsub, vadd, wrapN] using this

theorem psiP_props' (y : Nat × List Int) (hy1 : y.1 < 2^(D*l)) (hy2 : IsShift D periodic (2^l) y.2)
    (hall : (vsub (vadd (toI (decode D l y.1)) y.2) tp).all (fun o => decide (o.natAbs ≤ 1)) = true) :
    InRanges (tp.map (rangeOf periodic (2^l))) (PsiP D l tp y) ∧ PhiP D periodic l tp (PsiP D l tp y) = y := by
  obtain ⟨s, k⟩ := y
  simp only at hy1 hy2 hall
  have hkl : k.length = D := hy2.1
  have hspl : (toI (decode D l s)).length = D := by simp [toI]
  rw [all_iff_get] at hall
  have hL := pow_int_pos l
  -- scalar facts per index
  have sc : ∀ i (h1 : i < tp.length) (h2 : i < (toI (decode D l s)).length) (h3 : i < k.length),
      ((rangeOf periodic (2^l) tp[i]).1 ≤ (toI (decode D l s))[i] + k[i] - tp[i] ∧
        (toI (decode D l s))[i] + k[i] - tp[i] ≤ (rangeOf periodic (2^l) tp[i]).2) ∧
      wrapN1 periodic (2^l) ((toI (decode D l s))[i] + k[i]) = (toI (decode D l s))[i] := by
    intro i h1 h2 h3
    have hsp := toI_decode_bounds D l s i h2
    have ht := htp i h1
    have hk := hy2.2 i h3
    have ha := hall i (by simp [vsub, vadd]; omega)
    simp only [vsub, vadd, List.getElem_zipWith, decide_eq_true_eq] at ha
    unfold rangeOf wrapN1
    cases periodic
    · simp only [Bool.false_eq_true, if_false] at hk ⊢
      refine ⟨⟨?_, ?_⟩, by omega⟩
      · split <;> omega
      · split <;> omega
    · simp only [if_true] at hk ⊢
      exact ⟨⟨by omega, by omega⟩, wrapP_back _ _ _ hL hsp hk⟩
  have hoff : vadd tp (PsiP D l tp (s, k)) = vadd (toI (decode D l s)) k := by
    unfold PsiP
    simp only
    rw [vadd_vsub_cancel]
    simp [vadd, hD, hspl, hkl]
  have hin : InRanges (tp.map (rangeOf periodic (2^l))) (PsiP D l tp (s, k)) := by
    unfold PsiP
    simp only
    refine ⟨by simp [vsub, vadd, hD, hspl, hkl], ?_⟩
    intro i h1 h2
    have hi : i < D := by simp at h1; omega
    have := (sc i (by omega) (by omega) (by omega)).1
    simpa [vsub, vadd] using this
  refine ⟨hin, ?_⟩
  have ew : wrapN periodic l (vadd (toI (decode D l s)) k) = toI (decode D l s) := by
    apply List.ext_getElem (by simp [wrapN, vadd, hspl, hkl])
    intro i h1 h2
    have hi : i < D := by simp [toI] at h2; exact h2
    have := (sc i (by omega) (by omega) (by omega)).2
    simpa [wrapN, vadd] using this
  unfold PhiP srcN
  rw [hoff, ew]
  have : (toI (decode D l s)).map Int.toNat = decode D l s := by
    simp only [toI, List.map_map]
    conv => rhs; rw [← List.map_id (decode D l s)]
    apply List.map_congr_left
    intro a _
    simp
  rw [this, encode_decode D l s hy1]
  congr 1
  apply List.ext_getElem (by simp [vsub, vadd, hspl, hkl])
  intro i h1 h2
  simp only [vsub, vadd, List.getElem_zipWith]
  omega

theorem psiP_props (y : Nat × List Int) (hy1 : y.1 < 2^(D*l)) (hy2 : IsShift D periodic (2^l) y.2)
    (hs : (specPInner D l t tp y.1 y.2).isSome) :
    InRanges (tp.map (rangeOf periodic (2^l))) (PsiP D l tp y) ∧ PhiP D periodic l tp (PsiP D l tp y) = y := by
  apply psiP_props' D periodic l tp hD htp y hy1 hy2
  unfold specPInner at hs
  simp only at hs
  by_cases h : (vsub (vadd (toI (decode D l y.1)) y.2) tp).all (fun o => decide (o.natAbs ≤ 1)) = true
  · exact h
  · simp [h] at hs

end

/-- **characterisation of `getNeighborListForIndex`** (one target leaf) -/
theorem nlist_target_perm (D : Nat) (periodic : Bool) (l : Nat) (t : Nat) (srcs : List Nat)
    (hs : ∀ s ∈ srcs, s < 2^(D*l)) (hnd : srcs.Nodup) :
    (((nlistCell D periodic l t 0 true).filter fun x => srcs.contains x.src).map elemP2P).Perm
      (srcs.flatMap fun s => ((imageShifts D periodic).map fun k => k.map (· * (2:Int)^l)).filterMap fun k =>
        specPInner D l t (toI (decode D l t)) s k) := by
  have hD : (toI (decode D l t)).length = D := by simp [toI]
  have htp : ∀ i (h : i < (toI (decode D l t)).length), 0 ≤ (toI (decode D l t))[i] ∧ (toI (decode D l t))[i] < (2:Int)^l :=
    fun i h => toI_decode_bounds D l t i h
  rw [nlistCell_eq, map_filter_filterMap, flatMap_filterMap_prod]
  have hlim : (1:Int) ≤ 2^l := pow_int_pos l
  apply filterMap_perm_of_inv _ _ (implPInner D periodic l t (toI (decode D l t)) srcs) _
    (PhiP D periodic l (toI (decode D l t))) (PsiP D l (toI (decode D l t)))
  · exact nodup_odometer _
  · refine nodup_prodList _ _ hnd ?_
    rw [List.Nodup, List.pairwise_map]
    have hni : (imageShifts D periodic).Nodup := by
      unfold imageShifts
      cases periodic
      · simp
      · simpa using nodup_odometer _
    refine hni.imp_of_mem ?_
    intro a c ha hc hne e
    apply hne
    have hla : a.length = c.length := by simpa using congrArg List.length e
    apply List.ext_getElem hla
    intro i h1 h2
    have := congrArg (fun l => l[i]?) e
    simp only [List.getElem?_map, List.getElem?_eq_getElem h1, List.getElem?_eq_getElem h2, Option.map_some] at this
    have h3 := Option.some.inj this
    exact Int.eq_of_mul_eq_mul_right (by omega) h3
  · intro x hx hsome
    rw [mem_odometer] at hx
    have e := implP_eq_spec D periodic l t _ srcs hD htp x hx
    rw [e] at hsome
    by_cases hc : srcs.contains (PhiP D periodic l (toI (decode D l t)) x).1 = true
    · rw [if_pos hc] at e
      refine ⟨?_, e.symm, psiPhiP D periodic l _ hD htp x hx⟩
      rw [mem_prodList]
      exact ⟨by simpa using hc, (mem_shifts D periodic _ hlim _).2 (phiP_isShift D periodic l _ hD htp x hx)⟩
    · rw [if_neg hc] at hsome
      simp at hsome
  · intro y hy hsome
    rw [mem_prodList] at hy
    have q := psiP_props D periodic l t _ hD htp y (hs _ hy.1) ((mem_shifts D periodic _ hlim _).1 hy.2) hsome
    refine ⟨?_, ?_, q.2⟩
    · rw [mem_odometer]; exact q.1
    · have e := implP_eq_spec D periodic l t _ srcs hD htp _ q.1
      rw [e, q.2, if_pos (by simpa using hy.1)]

end Tbfmm
