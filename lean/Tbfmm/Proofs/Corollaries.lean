import Tbfmm.Proofs.Weighted
/-!
Corollaries of the value theorem: results do not depend on the grouping (C08) nor on the OpenMP
submission order (C03), for any weights.
-/
namespace Tbfmm

/-- **C08 at the level of values**: with the exactly additive kernel and any weights, the particle results
    of a full execution are the same for any two block sizes and grouping modes -/
theorem C08_values (D H : Nat) (leafIdx : List Nat) (upper : Nat) (bs1 bs2 : Nat) (mode1 mode2 : Bool)
    (h1 : 0 < bs1) (h2 : 0 < bs2) (hne : leafIdx ≠ []) (hH : 1 ≤ H) (hlt : ∀ i ∈ leafIdx, i < 2^(D*(H-1))) (hu : upper ≤ 2)
    (w : Nat → Nat) (p : Nat) (hp : p < leafIdx.length) :
    (applyCalls w (H-1) (Tree.build D H bs1 mode1 leafIdx).partsOf (Tree.build D H bs1 mode1 leafIdx).partsOf {}
      (executeSeq (Tree.build D H bs1 mode1 leafIdx) false 63 upper)).r p =
    (applyCalls w (H-1) (Tree.build D H bs2 mode2 leafIdx).partsOf (Tree.build D H bs2 mode2 leafIdx).partsOf {}
      (executeSeq (Tree.build D H bs2 mode2 leafIdx) false 63 upper)).r p := by
  rw [C01_values_weighted D H bs1 mode1 leafIdx upper h1 hne hH hlt hu w p hp,
    C01_values_weighted D H bs2 mode2 leafIdx upper h2 hne hH hlt hu w p hp]

/-- the result phases may be run in either order (L2P before P2P: sequential; P2P before L2P: OpenMP submission) -/
theorem results_order (w : Nat → Nat) (L : Nat) (po po' : Nat → List Nat) (A B : List Call)
    (hA : ∀ c ∈ A, isResultCall po c) (hB : ∀ c ∈ B, isResultCall po c) (s : State) (p : Nat) :
    (applyCalls w L po po' s (A ++ B)).r p = (applyCalls w L po po' s (B ++ A)).r p := by
  obtain ⟨h1, _, _⟩ := phase_results w L po po' (A ++ B) (by
    intro c hc; rcases List.mem_append.1 hc with h | h
    · exact hA c h
    · exact hB c h) s
  obtain ⟨h2, _, _⟩ := phase_results w L po po' (B ++ A) (by
    intro c hc; rcases List.mem_append.1 hc with h | h
    · exact hB c h
    · exact hA c h) s
  rw [h1, h2, List.flatMap_append, List.flatMap_append, sumOver_append, sumOver_append]
  omega

end Tbfmm

namespace Tbfmm

/-- **C03 at the level of values (submission order)**: the OpenMP executor's submission order gives every
    particle the sum of the weights of all the others, like the sequential executor -/
theorem C03_omp_values (D H bs : Nat) (mode : Bool) (leafIdx : List Nat) (upper : Nat)
    (hbs : 0 < bs) (hne : leafIdx ≠ []) (hH : 1 ≤ H) (hlt : ∀ i ∈ leafIdx, i < 2^(D*(H-1))) (hu : upper ≤ 2)
    (w : Nat → Nat) (p : Nat) (hp : p < leafIdx.length) :
    (applyCalls w (H-1) (Tree.build D H bs mode leafIdx).partsOf (Tree.build D H bs mode leafIdx).partsOf {}
      (executeOmp (Tree.build D H bs mode leafIdx) false 63 upper)).r p =
      sumOver (List.range leafIdx.length) (fun q => if p = q then 0 else w q) := by
  rw [← C01_values_weighted D H bs mode leafIdx upper hbs hne hH hlt hu w p hp]
  have F := built_facts D H bs mode leafIdx hbs hne hH hlt
  obtain ⟨hpo, _⟩ := built_particles D H bs mode leafIdx hbs _ _ rfl rfl F p hp
  generalize Tree.build D H bs mode leafIdx = T at *
  have f63 : hasFlag 63 flagL2P = true ∧ hasFlag 63 flagP2P = true := by decide
  unfold executeOmp executeSeq
  simp only [f63.1, f63.2, if_true]
  have hl2p : ∀ c ∈ l2pAll T upper, isResultCall T.partsOf c := by
    intro c hc
    simp only [l2pAll] at hc
    split at hc
    · simp only [List.mem_flatMap, List.mem_map] at hc
      obtain ⟨g, hg, l, hl, rfl⟩ := hc
      exact (hpo l (List.mem_flatten.2 ⟨g, hg, hl⟩)).symm
    · simp at hc
  have hp2p : ∀ c ∈ p2pAll T.D false T.H T.leafGroups, isResultCall T.partsOf c := p2pAll_form _ false _ T.partsOf _
  have key := fun s => results_order w (H-1) T.partsOf T.partsOf _ _ hp2p hl2p s p
  simp only [applyCalls, List.foldl_append] at key ⊢
  exact key _

end Tbfmm
