import Tbfmm.Proofs.R1g
/-!: level-up strategies produce `keys (runsOf par lower)` cut into non-empty groups (C07 ↔ R1 hypothesis) -/
namespace Tbfmm
variable (par : Nat → Nat)

/-- keys of the runs of `cs` when the run in progress has key `q` (children with parent `q` are absorbed) -/
def keysFrom (prev : Option Nat) : List Nat → List Nat
  | [] => []
  | c :: cs => if prev = some (par c) then keysFrom prev cs else par c :: keysFrom (some (par c)) cs

theorem keys_runsAux_eq (p : Nat) (r : List Nat) (cs : List Nat) :
    keys (runsAux par (p, r) cs) = p :: keysFrom par (some p) cs := by
  induction cs generalizing p r with
  | nil => simp [runsAux, keys, keysFrom]
  | cons c cs ih =>
    simp only [runsAux, keysFrom]
    by_cases h : par c = p
    · simp [h, ih]
    · have h' : ¬ (some p = some (par c)) := by simpa using fun e => h e.symm
      simp only [h, h', if_false]
      simp [keys, ih (par c) [c]] at *
      exact ih (par c) [c]

theorem keys_runsOf_eq (cs : List Nat) : keys (runsOf par cs) = keysFrom par none cs := by
  cases cs with
  | nil => simp [runsOf, keys, keysFrom]
  | cons c cs => simp [runsOf, keysFrom, keys_runsAux_eq]

theorem upFixed_flatten (bs : Nat) (cs : List Nat) (prev : Option Nat) (cur : List Nat) :
    (upFixedAux par bs cs prev cur).flatten = cur ++ keysFrom par prev cs := by
  induction cs generalizing prev cur with
  | nil => simp only [upFixedAux, keysFrom]; split <;> simp_all
  | cons c cs ih =>
    simp only [upFixedAux, keysFrom]
    by_cases h : prev = some (par c)
    · simp [h, ih]
    · simp only [h, if_false]
      split
      · simp [ih]
      · simp [ih]

theorem levelUpFixed_flatten (bs : Nat) (lower : List Group) :
    (levelUpFixed par bs lower).flatten = keys (runsOf par lower.flatten) := by
  simp [levelUpFixed, upFixed_flatten, keys_runsOf_eq]

theorem upFixed_ne_nil (bs : Nat) (hbs : 0 < bs) (cs : List Nat) (prev : Option Nat) (cur : List Nat) :
    ∀ g ∈ upFixedAux par bs cs prev cur, g ≠ [] := by
  induction cs generalizing prev cur with
  | nil => intro g hg; simp only [upFixedAux] at hg; split at hg <;> simp_all
  | cons c cs ih =>
    intro g hg
    simp only [upFixedAux] at hg
    split at hg
    · exact ih _ _ g hg
    · split at hg
      · simp only [List.mem_cons] at hg
        rcases hg with hg | hg
        · subst hg; simp
        · exact ih _ _ g hg
      · exact ih _ _ g hg

theorem upFixed_size (bs : Nat) (hbs : 0 < bs) (cs : List Nat) (prev : Option Nat) (cur : List Nat)
    (hcur : cur.length < bs) : ∀ g ∈ upFixedAux par bs cs prev cur, g.length ≤ bs := by
  induction cs generalizing prev cur with
  | nil => intro g hg; simp only [upFixedAux] at hg; split at hg <;> simp_all; omega
  | cons c cs ih =>
    intro g hg
    simp only [upFixedAux] at hg
    split at hg
    · exact ih _ _ hcur g hg
    · split at hg
      · rename_i hlen
        simp only [List.mem_cons] at hg
        rcases hg with hg | hg
        · subst hg; omega
        · exact ih _ _ (by simpa using hbs) g hg
      · rename_i hlen
        exact ih _ _ (by simp at hlen ⊢; omega) g hg

end Tbfmm
