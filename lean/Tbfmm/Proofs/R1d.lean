import Tbfmm.Proofs.R1c
/-! R1, part d: keys of appended children lists -/
namespace Tbfmm

variable (par : Nat → Nat)

theorem keys_runsAux_indep (p : Nat) (r r' : List Nat) (cs : List Nat) :
    keys (runsAux par (p, r) cs) = keys (runsAux par (p, r') cs) := by
  induction cs generalizing r r' with
  | nil => simp [runsAux, keys]
  | cons c cs ih =>
    simp only [runsAux]; split
    · exact ih _ _
    · simp [keys]

theorem keys_runsAux_head (cur : Run) (cs : List Nat) :
    keys (runsAux par cur cs) = cur.1 :: (keys (runsAux par cur cs)).tail := by
  have hne := runsAux_ne_nil par cur cs
  have hk := runsAux_head_key par cur cs
  obtain ⟨r0, rest, hr⟩ := List.exists_cons_of_ne_nil hne
  have : r0.1 = cur.1 := by simpa [hr] using hk
  simp [keys, hr, this]

/-- the last run of the grouping of `c :: cs` -/
def lastRun (c : Nat) (cs : List Nat) : Run :=
  (runsAux par (par c, [c]) cs).getLast (runsAux_ne_nil par _ cs)

/-- tail of keys produced by continuing after `c :: cs` with `Z` -/
def tailKeys (c : Nat) (cs Z : List Nat) : List Nat :=
  (keys (runsAux par (lastRun par c cs) Z)).tail

theorem keys_dropLast_append_last (rs : List Run) (h : rs ≠ []) :
    keys rs = keys rs.dropLast ++ [(rs.getLast h).1] := by
  conv => lhs; rw [← List.dropLast_concat_getLast h]
  simp [keys]

/-- K3 -/
theorem keys_runsOf_append (c : Nat) (cs Z : List Nat) :
    keys (runsOf par (c :: cs ++ Z)) = keys (runsAux par (par c, [c]) cs) ++ tailKeys par c cs Z := by
  have hne := runsAux_ne_nil par (par c, [c]) cs
  show keys (runsAux par (par c, [c]) (cs ++ Z)) = _
  rw [runsAux_append, keys_dropLast_append_last _ hne]
  simp only [keys, List.map_append, List.append_assoc, List.singleton_append] at *
  congr 1
  have := keys_runsAux_head par (lastRun par c cs) Z
  simp only [keys, lastRun] at this
  rw [this]; rfl

/-- K4 -/
theorem keys_runsOf_cont (c : Nat) (cs : List Nat) (z : Nat) (Z' : List Nat) :
    keys (runsOf par (z :: Z')) =
      if par z = (lastRun par c cs).1 then (lastRun par c cs).1 :: tailKeys par c cs (z :: Z')
      else tailKeys par c cs (z :: Z') := by
  generalize h : lastRun par c cs = lr0
  obtain ⟨lp, lr⟩ := lr0
  simp only [tailKeys, h]
  by_cases hz : par z = lp
  · simp only [hz, if_true]
    show keys (runsAux par (par z, [z]) Z') = _
    have h1 : runsAux par (lp, lr) (z :: Z') = runsAux par (lp, lr ++ [z]) Z' := by simp [runsAux, hz]
    rw [h1, hz, keys_runsAux_indep par lp [z] (lr ++ [z]) Z']
    exact keys_runsAux_head par (lp, lr ++ [z]) Z'
  · simp only [hz, if_false]
    have h1 : runsAux par (lp, lr) (z :: Z') = (lp, lr) :: runsAux par (par z, [z]) Z' := by simp [runsAux, hz]
    rw [h1]; simp [keys, runsOf]

theorem lastRun_key (c : Nat) (cs : List Nat) :
    (lastRun par c cs).1 = par (lastD (c :: cs)) := by
  have := last_key par (par c, [c]) cs (by intro x hx; simp at hx; subst hx; rfl) (by simp)
  rw [lastD_eq_getLast _ (by simp)]
  simpa [lastRun] using this

theorem keys_last (c : Nat) (cs : List Nat) :
    keys (runsAux par (par c, [c]) cs)
      = keys (runsAux par (par c, [c]) cs).dropLast ++ [(lastRun par c cs).1] :=
  keys_dropLast_append_last _ (runsAux_ne_nil par _ cs)

end Tbfmm
