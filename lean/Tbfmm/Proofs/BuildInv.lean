import Tbfmm.Model.Exec
/-! Construction: sorter, run-length pass, group split (C06, C07) -/
namespace Tbfmm

/-- (leaf index, particle) pairs of a list of leaves, in storage order -/
def pairsOf (ls : List Leaf) : List (Nat × Nat) := ls.flatMap fun l => l.parts.map fun p => (l.idx, p)

/-- the run-length pass loses and duplicates nothing and keeps the order -/
theorem pairsOf_leavesOf (xs : List (Nat × Nat)) : pairsOf (leavesOf xs) = xs := by
  induction xs with
  | nil => rfl
  | cons x xs ih =>
    obtain ⟨i, p⟩ := x
    simp only [leavesOf]
    cases h : leavesOf xs with
    | nil =>
      rw [h] at ih
      simp [pairsOf] at ih ⊢
      exact ih
    | cons l ls =>
      rw [h] at ih
      simp only
      split
      · rename_i heq
        simp only [pairsOf, List.flatMap_cons, List.map_cons] at ih ⊢
        rw [← ih, heq]; simp
      · simp only [pairsOf, List.flatMap_cons, List.map_cons, List.map_nil] at ih ⊢
        rw [← ih]; simp

theorem leavesOf_parts_ne_nil (xs : List (Nat × Nat)) : ∀ l ∈ leavesOf xs, l.parts ≠ [] := by
  induction xs with
  | nil => simp [leavesOf]
  | cons x xs ih =>
    obtain ⟨i, p⟩ := x
    simp only [leavesOf]
    cases h : leavesOf xs with
    | nil => simp
    | cons l ls =>
      rw [h] at ih
      simp only
      split
      · intro l' hl'
        simp only [List.mem_cons] at hl'
        rcases hl' with rfl | hl'
        · simp
        · exact ih l' (by simp [hl'])
      · intro l' hl'
        simp only [List.mem_cons] at hl'
        rcases hl' with rfl | rfl | hl'
        · simp
        · exact ih _ (by simp)
        · exact ih l' (by simp [hl'])

/-- head leaf of the run-length pass carries the first key -/
theorem leavesOf_head (i p : Nat) (xs : List (Nat × Nat)) :
    ∃ l ls, leavesOf ((i, p) :: xs) = l :: ls ∧ l.idx = i := by
  simp only [leavesOf]
  cases leavesOf xs with
  | nil => exact ⟨_, _, rfl, rfl⟩
  | cons l ls =>
    simp only
    split
    · exact ⟨_, _, rfl, rfl⟩
    · exact ⟨_, _, rfl, rfl⟩

/-- leaf indices are strictly increasing when the pairs are sorted by key -/
theorem leavesOf_sorted (xs : List (Nat × Nat)) (hs : xs.Pairwise (fun a b => a.1 ≤ b.1)) :
    ((leavesOf xs).map (·.idx)).Pairwise (· < ·) := by
  induction xs with
  | nil => simp [leavesOf]
  | cons x xs ih =>
    obtain ⟨i, p⟩ := x
    have hs' := (List.pairwise_cons.mp hs)
    have ih' := ih hs'.2
    -- every leaf index of the tail is ≥ i
    have hge : ∀ l ∈ leavesOf xs, i ≤ l.idx := by
      intro l hl
      obtain ⟨q, hq⟩ := List.exists_mem_of_ne_nil _ (leavesOf_parts_ne_nil xs l hl)
      have : (l.idx, q) ∈ pairsOf (leavesOf xs) := by
        simp only [pairsOf, List.mem_flatMap, List.mem_map]
        exact ⟨l, hl, q, hq, rfl⟩
      rw [pairsOf_leavesOf] at this
      exact hs'.1 _ this
    simp only [leavesOf]
    cases h : leavesOf xs with
    | nil => simp
    | cons l ls =>
      rw [h] at ih' hge
      simp only
      split
      · rename_i heq
        simp only [List.map_cons] at ih' ⊢
        rw [← heq]; exact ih'
      · rename_i hne
        simp only [List.map_cons, List.pairwise_cons] at ih' ⊢
        refine ⟨?_, ih'⟩
        intro a ha
        simp only [List.mem_cons, List.mem_map] at ha
        have hl := hge l (by simp)
        rcases ha with rfl | ⟨l', hl', rfl⟩
        · omega
        · have := ih'.1 l'.idx (by simp only [List.mem_map]; exact ⟨l', hl', rfl⟩)
          omega

/-- `std::sort` by leaf index: a permutation, sorted by key -/
theorem sortPairs_perm (xs : List (Nat × Nat)) : (sortPairs xs).Perm xs := List.mergeSort_perm _ _

theorem sortPairs_sorted (xs : List (Nat × Nat)) : (sortPairs xs).Pairwise (fun a b => a.1 ≤ b.1) := by
  have := List.pairwise_mergeSort (le := fun (a b : Nat × Nat) => decide (a.1 ≤ b.1))
    (by intro a b c; simp only [decide_eq_true_eq]; omega)
    (by intro a b; simp only [Bool.or_eq_true, decide_eq_true_eq]; omega) xs
  simpa [sortPairs] using this

/-- cutting a list every `bs` elements loses nothing; groups are non-empty and no longer than `bs` -/
theorem splitEvery_spec {α} (bs : Nat) (hbs : 0 < bs) (fuel : Nat) (xs : List α) (hf : xs.length ≤ fuel) :
    (splitEvery bs fuel xs).flatten = xs ∧ (∀ g ∈ splitEvery bs fuel xs, g ≠ [] ∧ g.length ≤ bs) := by
  induction fuel generalizing xs with
  | zero =>
    have : xs = [] := List.eq_nil_of_length_eq_zero (by omega)
    subst this; simp [splitEvery]
  | succ f ih =>
    unfold splitEvery
    have hb : ¬ bs = 0 := by omega
    simp only [hb, if_false]
    cases xs with
    | nil => simp
    | cons x xs =>
      simp only [List.isEmpty_cons, Bool.false_eq_true, if_false]
      have hlen : ((x :: xs).drop bs).length ≤ f := by
        simp only [List.length_drop, List.length_cons] at hf ⊢; omega
      obtain ⟨ih1, ih2⟩ := ih _ hlen
      refine ⟨by simp [ih1], ?_⟩
      intro g hg
      simp only [List.mem_cons] at hg
      rcases hg with rfl | hg
      · refine ⟨?_, by simp; omega⟩
        cases bs with
        | zero => omega
        | succ b => simp
      · exact ih2 g hg

/-- **C06 (permutation)**: a built tree stores every input particle exactly once, under the leaf index
    computed for it — as multisets, `stored = [(leafIdx[i], i)]` -/
theorem C06_stored_perm (D H bs : Nat) (mode : Bool) (leafIdx : List Nat) (hbs : 0 < bs) :
    (Tree.build D H bs mode leafIdx).stored.Perm leafIdx.zipIdx := by
  unfold Tree.build
  split
  · rename_i h
    have : leafIdx = [] := by simpa using h
    subst this; simp [Tree.stored]
  · simp only [Tree.stored]
    have hsplit := (splitEvery_spec bs hbs (leavesOf (sortPairs leafIdx.zipIdx)).length (leavesOf (sortPairs leafIdx.zipIdx)) (Nat.le_refl _)).1
    have : (List.flatMap (fun g => List.flatMap (fun l => List.map (fun p => (l.idx, p)) l.parts) g)
        (splitEvery bs (leavesOf (sortPairs leafIdx.zipIdx)).length (leavesOf (sortPairs leafIdx.zipIdx)))) =
        pairsOf (leavesOf (sortPairs leafIdx.zipIdx)) := by
      have gen : ∀ (gs : List (List Leaf)), gs.flatMap (fun g => g.flatMap fun l => l.parts.map fun p => (l.idx, p)) = pairsOf gs.flatten := by
        intro gs
        induction gs with
        | nil => rfl
        | cons g gs ihg => simp only [List.flatMap_cons, List.flatten_cons, pairsOf, List.flatMap_append] at ihg ⊢; rw [ihg]
      rw [gen, hsplit]
    rw [this, pairsOf_leavesOf]
    exact sortPairs_perm _

/-- **C07 (leaf level)**: the leaf indices of a built tree, across its particle groups, are strictly
    increasing; groups are non-empty and hold at most `bs` leaves -/
theorem C07_leaf_groups (D H bs : Nat) (mode : Bool) (leafIdx : List Nat) (hbs : 0 < bs) :
    ((Tree.build D H bs mode leafIdx).leafGroups.flatten).Pairwise (· < ·) ∧
    (∀ g ∈ (Tree.build D H bs mode leafIdx).leafGroups, g ≠ [] ∧ g.length ≤ bs) := by
  unfold Tree.build
  split
  · simp [Tree.leafGroups]
  · simp only [Tree.leafGroups]
    obtain ⟨h1, h2⟩ := splitEvery_spec bs hbs (leavesOf (sortPairs leafIdx.zipIdx)).length (leavesOf (sortPairs leafIdx.zipIdx)) (Nat.le_refl _)
    constructor
    · have : (List.map (fun g => List.map (fun x => x.idx) g)
          (splitEvery bs (leavesOf (sortPairs leafIdx.zipIdx)).length (leavesOf (sortPairs leafIdx.zipIdx)))).flatten =
          (leavesOf (sortPairs leafIdx.zipIdx)).map (·.idx) := by
        rw [← List.map_flatten, h1]
      rw [this]
      exact leavesOf_sorted _ (sortPairs_sorted _)
    · intro g hg
      simp only [List.mem_map] at hg
      obtain ⟨g0, hg0, rfl⟩ := hg
      have := h2 g0 hg0
      exact ⟨by simpa using this.1, by simpa using this.2⟩

end Tbfmm

namespace Tbfmm

/-- the stored original indices are a permutation of `0 … N-1`: gathering by original index (rebuild,
    bulk export) writes every slot exactly once and scattering back is its inverse -/
theorem C13_indices_perm (D H bs : Nat) (mode : Bool) (leafIdx : List Nat) (hbs : 0 < bs) :
    ((Tree.build D H bs mode leafIdx).stored.map (·.2)).Perm (List.range leafIdx.length) := by
  have h := (C06_stored_perm D H bs mode leafIdx hbs).map (·.2)
  have e : leafIdx.zipIdx.map (·.2) = List.range leafIdx.length := by
    have gen : ∀ (l : List Nat) (k : Nat), (l.zipIdx k).map (·.2) = List.range' k l.length := by
      intro l
      induction l with
      | nil => intro k; rfl
      | cons a l ih => intro k; simp [List.zipIdx_cons, ih, List.range'_succ]
    rw [gen, List.range_eq_range']
  rw [e] at h
  exact h

/-- every particle is stored under the leaf index computed for it -/
theorem C06_leaf_of_particle (D H bs : Nat) (mode : Bool) (leafIdx : List Nat) (hbs : 0 < bs) :
    ∀ x ∈ (Tree.build D H bs mode leafIdx).stored, leafIdx[x.2]? = some x.1 := by
  intro x hx
  have := (C06_stored_perm D H bs mode leafIdx hbs).mem_iff.mp hx
  obtain ⟨i, p⟩ := x
  have h2 := List.mem_zipIdx this
  simp at h2
  simp only
  rw [List.getElem?_eq_getElem h2.1]
  simp [h2.2]

end Tbfmm
