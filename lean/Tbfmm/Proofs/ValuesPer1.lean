import Tbfmm.Proofs.Weighted
import Tbfmm.Proofs.PeriodicPairs
/-!
Periodic runs: sums over the specification's periodic lists, written as sums over (target, source, shift).
-/
namespace Tbfmm

theorem sumOver_filterMap {α β} (xs : List α) (f : α → Option β) (g : β → Nat) :
    sumOver (xs.filterMap f) g = sumOver xs (fun x => match f x with | some y => g y | none => 0) := by
  induction xs with
  | nil => rfl
  | cons x xs ih =>
    rw [List.filterMap_cons, sumOver_cons]
    cases h : f x with
    | none => simp [ih]
    | some y => simp [sumOver_cons, ih]

theorem sumOver_const_zero {α} (xs : List α) : sumOver xs (fun _ => 0) = 0 := sumOver_zero xs _ (fun _ _ => rfl)

/-- a sum over a duplicate-free list of a function that vanishes off one point -/
theorem sumOver_single {α} [DecidableEq α] (xs : List α) (hn : xs.Nodup) (x0 : α) (f : α → Nat) (h : ∀ x ∈ xs, x ≠ x0 → f x = 0) :
    sumOver xs f = if x0 ∈ xs then f x0 else 0 := by
  have : sumOver xs f = sumOver xs (fun x => if x = x0 then f x else 0) := by
    apply sumOver_congr
    intro x hx
    by_cases e : x = x0
    · simp [e]
    · simp [e, h x hx e]
  rw [this, sumOver_indicator xs hn x0 f]

/-- shifts of level `ℓ` -/
def shiftsAt (D ℓ : Nat) : List (List Int) := (imageShifts D true).map fun k => k.map (· * (2:Int)^ℓ)

/-- the transfer phase's contribution of one periodic level list -/
theorem spec_level_sum_per (D L : Nat) (tg sr : List Nat) (b : Nat) (htg : tg.Nodup) (hsr : sr.Nodup)
    (s : State) (ℓ' ℓ i : Nat) (hm : ∀ j, s.m ℓ' j = if j = anc D L ℓ' b then 1 else 0) :
    sumOver (specM2LLevel D true ℓ' tg sr) (cL s ℓ i) =
      if ℓ' = ℓ ∧ 1 ≤ ℓ ∧ i ∈ tg ∧ anc D L ℓ b ∈ sr then
        sumOver (shiftsAt D ℓ) (fun k => if perTest D ℓ i (anc D L ℓ b) k then 1 else 0) else 0 := by
  rw [specM2L_per_eq]
  by_cases h1 : ℓ' < 1
  · rw [if_pos h1, sumOver_nil]
    rw [if_neg]
    rintro ⟨e, h2, _⟩; omega
  · rw [if_neg h1, sumOver_flatMap]
    by_cases he : ℓ' = ℓ
    · subst he
      -- only the target i contributes
      rw [sumOver_single tg htg i]
      · by_cases hi : i ∈ tg
        · rw [if_pos hi, sumOver_flatMap, sumOver_single sr hsr (anc D L ℓ' b)]
          · by_cases hs : anc D L ℓ' b ∈ sr
            · rw [if_pos hs, if_pos ⟨rfl, by omega, hi, hs⟩, sumOver_filterMap]
              unfold shiftsAt
              apply sumOver_congr
              intro k _
              by_cases ht : perTest D ℓ' i (anc D L ℓ' b) k = true
              · simp [ht, cL, hm]
              · simp [ht]
            · rw [if_neg hs, if_neg]
              rintro ⟨_, _, _, h⟩; exact hs h
          · intro src _ hne
            rw [sumOver_filterMap]
            apply sumOver_zero
            intro k _
            by_cases ht : perTest D ℓ' i src k = true
            · simp [ht, cL, hm, hne]
            · simp [ht]
        · rw [if_neg hi, if_neg]
          rintro ⟨_, _, h, _⟩; exact hi h
      · intro t _ hne
        rw [sumOver_flatMap]
        apply sumOver_zero
        intro src _
        rw [sumOver_filterMap]
        apply sumOver_zero
        intro k _
        by_cases ht : perTest D ℓ' t src k = true
        · have : ¬ (ℓ', t) = (ℓ', i) := by intro e; injection e with _ e2; exact hne e2
          simp [ht, cL, this]
        · simp [ht]
    · rw [if_neg (by rintro ⟨e, _⟩; exact he e)]
      apply sumOver_zero
      intro t _
      rw [sumOver_flatMap]
      apply sumOver_zero
      intro src _
      rw [sumOver_filterMap]
      apply sumOver_zero
      intro k _
      by_cases ht : perTest D ℓ' t src k = true
      · have : ¬ (ℓ', t) = (ℓ, i) := by intro e; injection e with e1 _; exact he e1
        simp [ht, cL, this]
      · simp [ht]

end Tbfmm
