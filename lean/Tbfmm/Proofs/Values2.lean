import Tbfmm.Proofs.Values1
import Tbfmm.Spec.Fmm
/-!
Effect of a *phase* (a list of calls of one operator) of the exactly additive kernel, as sums over the
elementary interactions of the phase.  Within a phase every call reads values no call of the phase
writes, so the effect is a sum — in particular it depends on the calls only through the multiset of
their elementary interactions.
-/
namespace Tbfmm

variable (w : Nat → Nat) (L : Nat) (po po' : Nat → List Nat)

theorem foldl_addR_fun (ps : List Nat) (f : Nat → Nat) (s : State) :
    (∀ p', (ps.foldl (fun s p => s.addR p (f p)) s).r p' = s.r p' + ps.count p' * f p') ∧
    (∀ l i, (ps.foldl (fun s p => s.addR p (f p)) s).m l i = s.m l i) ∧
    (∀ l i, (ps.foldl (fun s p => s.addR p (f p)) s).l l i = s.l l i) := by
  induction ps generalizing s with
  | nil => simp
  | cons p ps ih =>
    obtain ⟨h1, h2, h3⟩ := ih (s.addR p (f p))
    simp only [List.foldl_cons]
    refine ⟨?_, ?_, ?_⟩
    · intro p'
      rw [h1, addR_r, List.count_cons]
      by_cases h : p = p'
      · subst h; simp [Nat.add_mul]; omega
      · have : (p == p') = false := by simpa using h
        simp [h, this]
    · intro l i; rw [h2, addR_m]
    · intro l i; rw [h3, addR_l]

/-- contribution of an elementary interaction to the multipole `(lv, i)`, reading the state `s0` -/
def cM (s0 : State) (lv i : Nat) : Elem → Nat
  | .p2m leaf _ => if (L, leaf) = (lv, i) then sumW w (po' leaf) else 0
  | .m2m level p c _ => if (level, p) = (lv, i) then s0.m (level+1) c else 0
  | _ => 0
/-- contribution to the local `(lv, i)` -/
def cL (s0 : State) (lv i : Nat) : Elem → Nat
  | .m2l level t src _ => if (level, t) = (lv, i) then s0.m level src else 0
  | .l2l level p c _ => if (level+1, c) = (lv, i) then s0.l level p else 0
  | _ => 0
/-- contribution to the result of particle `p'` -/
def cR (s0 : State) (p' : Nat) : Elem → Nat
  | .l2p leaf _ => (po leaf).count p' * s0.l L leaf
  | .p2p src tgt _ => (po tgt).count p' * sumW w (po src) + (po src).count p' * sumW w (po tgt)
  | .p2pInner leaf => (po leaf).count p' * (sumW w (po leaf) - w p')
  | .p2pTsm src tgt _ => (po tgt).count p' * sumW w (po' src)
  | _ => 0

def sumOver {α} (xs : List α) (f : α → Nat) : Nat := (xs.map f).sum

theorem sumOver_cons {α} (x : α) (xs : List α) (f : α → Nat) : sumOver (x :: xs) f = f x + sumOver xs f := rfl
theorem sumOver_nil {α} (f : α → Nat) : sumOver ([] : List α) f = 0 := rfl
theorem sumOver_append {α} (xs ys : List α) (f : α → Nat) : sumOver (xs ++ ys) f = sumOver xs f + sumOver ys f := by
  simp [sumOver, List.sum_append_nat]
theorem sumOver_perm {α} (xs ys : List α) (f : α → Nat) (h : xs.Perm ys) : sumOver xs f = sumOver ys f :=
  (h.map f).sum_nat
theorem sumOver_congr {α} (xs : List α) (f g : α → Nat) (h : ∀ x ∈ xs, f x = g x) : sumOver xs f = sumOver xs g := by
  unfold sumOver
  rw [List.map_congr_left h]
theorem sumOver_flatMap {α β} (xs : List α) (g : α → List β) (f : β → Nat) :
    sumOver (xs.flatMap g) f = sumOver xs (fun x => sumOver (g x) f) := by
  induction xs with
  | nil => rfl
  | cons x xs ih => rw [List.flatMap_cons, sumOver_append, ih]; rfl
theorem sumOver_zero {α} (xs : List α) (f : α → Nat) (h : ∀ x ∈ xs, f x = 0) : sumOver xs f = 0 := by
  induction xs with
  | nil => rfl
  | cons x xs ih => rw [sumOver_cons, h x (by simp), ih (fun y hy => h y (by simp [hy]))]

/-- **P2M phase** -/
theorem phase_p2m (cs : List Call) (hcs : ∀ c ∈ cs, ∃ leaf, c = .p2m leaf (po' leaf)) (s : State) :
    (∀ lv i, (applyCalls w L po po' s cs).m lv i = s.m lv i + sumOver (cs.flatMap elemsOfCall) (cM w L po' s lv i)) ∧
    (∀ lv i, (applyCalls w L po po' s cs).l lv i = s.l lv i) ∧ (∀ p, (applyCalls w L po po' s cs).r p = s.r p) := by
  induction cs generalizing s with
  | nil => simp [applyCalls, sumOver]
  | cons c cs ih =>
    obtain ⟨leaf, rfl⟩ := hcs c (by simp)
    obtain ⟨h1, h2, h3⟩ := ih (fun c hc => hcs c (by simp [hc])) (applyCall w L po po' s (.p2m leaf (po' leaf)))
    simp only [applyCalls, List.foldl_cons] at h1 h2 h3 ⊢
    refine ⟨?_, ?_, ?_⟩
    · intro lv i
      rw [h1, List.flatMap_cons, sumOver_append]
      simp only [applyCall, addM_m, elemsOfCall, sumOver_cons, sumOver_nil, cM]
      have : sumOver (cs.flatMap elemsOfCall) (cM w L po' (s.addM L leaf (sumW w (po' leaf))) lv i) =
          sumOver (cs.flatMap elemsOfCall) (cM w L po' s lv i) := by
        apply sumOver_congr
        intro e he
        rw [List.mem_flatMap] at he
        obtain ⟨c', hc', he⟩ := he
        obtain ⟨leaf', rfl⟩ := hcs c' (by simp [hc'])
        simp only [elemsOfCall, List.mem_singleton] at he
        subst he
        rfl
      rw [this]; omega
    · intro lv i; rw [h2]; rfl
    · intro p; rw [h3]; rfl

end Tbfmm

namespace Tbfmm

variable (w : Nat → Nat) (L : Nat) (po po' : Nat → List Nat)

theorem sum_children_m2m (s : State) (level p lv i : Nat) (children : List (Nat × Nat)) :
    sumOver (children.map fun c => Elem.m2m level p c.1 c.2) (cM w L po' s lv i) =
      if (level, p) = (lv, i) then (children.map fun c => s.m (level+1) c.1).sum else 0 := by
  induction children with
  | nil => simp [sumOver]
  | cons c cs ih =>
    rw [List.map_cons, sumOver_cons, ih]
    simp only [cM, List.map_cons, List.sum_cons]
    split <;> simp

/-- **M2M phase of one level**: every call reads level `ℓ+1` and writes level `ℓ` -/
theorem phase_m2m (ℓ : Nat) (cs : List Call) (hcs : ∀ c ∈ cs, ∃ p ch, c = .m2m ℓ p ch) (s : State) :
    (∀ lv i, (applyCalls w L po po' s cs).m lv i = s.m lv i + sumOver (cs.flatMap elemsOfCall) (cM w L po' s lv i)) ∧
    (∀ lv i, (applyCalls w L po po' s cs).l lv i = s.l lv i) ∧ (∀ p, (applyCalls w L po po' s cs).r p = s.r p) := by
  induction cs generalizing s with
  | nil => simp [applyCalls, sumOver]
  | cons c cs ih =>
    obtain ⟨p, ch, rfl⟩ := hcs c (by simp)
    obtain ⟨h1, h2, h3⟩ := ih (fun c hc => hcs c (by simp [hc])) (applyCall w L po po' s (.m2m ℓ p ch))
    simp only [applyCalls, List.foldl_cons] at h1 h2 h3 ⊢
    refine ⟨?_, ?_, ?_⟩
    · intro lv i
      rw [h1, List.flatMap_cons, sumOver_append]
      have e1 : sumOver (elemsOfCall (.m2m ℓ p ch)) (cM w L po' s lv i) =
          if (ℓ, p) = (lv, i) then (ch.map fun c => s.m (ℓ+1) c.1).sum else 0 := sum_children_m2m w L po' s ℓ p lv i ch
      rw [e1]
      simp only [applyCall, addM_m]
      have : sumOver (cs.flatMap elemsOfCall) (cM w L po' (s.addM ℓ p ((ch.map fun c => s.m (ℓ+1) c.1).sum)) lv i) =
          sumOver (cs.flatMap elemsOfCall) (cM w L po' s lv i) := by
        apply sumOver_congr
        intro e he
        rw [List.mem_flatMap] at he
        obtain ⟨c', hc', he⟩ := he
        obtain ⟨p', ch', rfl⟩ := hcs c' (by simp [hc'])
        simp only [elemsOfCall, List.mem_map] at he
        obtain ⟨x, _, rfl⟩ := he
        simp only [cM, addM_m]
        have : ¬ (ℓ, p) = (ℓ + 1, x.1) := by intro e; injection e with e1 _; omega
        simp [this]
      rw [this]; omega
    · intro lv i; rw [h2]; rfl
    · intro q; rw [h3]; rfl

theorem sum_srcs_m2l (s : State) (level t lv i : Nat) (srcs : List (Nat × Nat)) :
    sumOver (srcs.map fun c => Elem.m2l level t c.1 c.2) (cL s lv i) =
      if (level, t) = (lv, i) then (srcs.map fun c => s.m level c.1).sum else 0 := by
  induction srcs with
  | nil => simp [sumOver]
  | cons c cs ih =>
    rw [List.map_cons, sumOver_cons, ih]
    simp only [cL, List.map_cons, List.sum_cons]
    split <;> simp

/-- **M2L phase** (all levels): every call reads multipoles and writes locals -/
theorem phase_m2l (cs : List Call) (hcs : ∀ c ∈ cs, ∃ lv t srcs, c = .m2l lv t srcs) (s : State) :
    (∀ lv i, (applyCalls w L po po' s cs).l lv i = s.l lv i + sumOver (cs.flatMap elemsOfCall) (cL s lv i)) ∧
    (∀ lv i, (applyCalls w L po po' s cs).m lv i = s.m lv i) ∧ (∀ p, (applyCalls w L po po' s cs).r p = s.r p) := by
  induction cs generalizing s with
  | nil => simp [applyCalls, sumOver]
  | cons c cs ih =>
    obtain ⟨level, t, srcs, rfl⟩ := hcs c (by simp)
    obtain ⟨h1, h2, h3⟩ := ih (fun c hc => hcs c (by simp [hc])) (applyCall w L po po' s (.m2l level t srcs))
    simp only [applyCalls, List.foldl_cons] at h1 h2 h3 ⊢
    refine ⟨?_, ?_, ?_⟩
    · intro lv i
      rw [h1, List.flatMap_cons, sumOver_append]
      have e1 : sumOver (elemsOfCall (.m2l level t srcs)) (cL s lv i) =
          if (level, t) = (lv, i) then (srcs.map fun c => s.m level c.1).sum else 0 := sum_srcs_m2l s level t lv i srcs
      rw [e1]
      simp only [applyCall, addL_l]
      have : sumOver (cs.flatMap elemsOfCall) (cL (s.addL level t ((srcs.map fun c => s.m level c.1).sum)) lv i) =
          sumOver (cs.flatMap elemsOfCall) (cL s lv i) := by
        apply sumOver_congr
        intro e he
        rw [List.mem_flatMap] at he
        obtain ⟨c', hc', he⟩ := he
        obtain ⟨lv', t', srcs', rfl⟩ := hcs c' (by simp [hc'])
        simp only [elemsOfCall, List.mem_map] at he
        obtain ⟨x, _, rfl⟩ := he
        simp only [cL, addL_m]
      rw [this]; omega
    · intro lv i; rw [h2]; rfl
    · intro q; rw [h3]; rfl

theorem sum_children_l2l (s : State) (level p lv i : Nat) (children : List (Nat × Nat)) :
    sumOver (children.map fun c => Elem.l2l level p c.1 c.2) (cL s lv i) =
      if lv = level + 1 then (children.map (·.1)).count i * s.l level p else 0 := by
  induction children with
  | nil => simp [sumOver]
  | cons c cs ih =>
    rw [List.map_cons, sumOver_cons, ih]
    simp only [cL, List.map_cons, List.count_cons]
    by_cases hl : lv = level + 1
    · subst hl
      by_cases hc : c.1 = i
      · subst hc; simp [Nat.add_mul]; omega
      · have h1 : ¬ (level + 1, c.1) = (level + 1, i) := by intro e; injection e with _ e2; exact hc e2
        have h2 : (c.1 == i) = false := by simpa using hc
        simp [h1, h2]
    · have h1 : ¬ (level + 1, c.1) = (lv, i) := by intro e; injection e with e1 _; omega
      simp [hl, h1]

/-- **L2L phase of one level**: every call reads level `ℓ` and writes level `ℓ+1` -/
theorem phase_l2l (ℓ : Nat) (cs : List Call) (hcs : ∀ c ∈ cs, ∃ p ch, c = .l2l ℓ p ch) (s : State) :
    (∀ lv i, (applyCalls w L po po' s cs).l lv i = s.l lv i + sumOver (cs.flatMap elemsOfCall) (cL s lv i)) ∧
    (∀ lv i, (applyCalls w L po po' s cs).m lv i = s.m lv i) ∧ (∀ p, (applyCalls w L po po' s cs).r p = s.r p) := by
  induction cs generalizing s with
  | nil => simp [applyCalls, sumOver]
  | cons c cs ih =>
    obtain ⟨p, ch, rfl⟩ := hcs c (by simp)
    obtain ⟨h1, h2, h3⟩ := ih (fun c hc => hcs c (by simp [hc])) (applyCall w L po po' s (.l2l ℓ p ch))
    obtain ⟨f1, f2, f3⟩ := foldl_addL_children ch ℓ p s
    simp only [applyCalls, List.foldl_cons] at h1 h2 h3 ⊢
    refine ⟨?_, ?_, ?_⟩
    · intro lv i
      rw [h1, List.flatMap_cons, sumOver_append]
      have e1 : sumOver (elemsOfCall (.l2l ℓ p ch)) (cL s lv i) =
          if lv = ℓ + 1 then (ch.map (·.1)).count i * s.l ℓ p else 0 := sum_children_l2l s ℓ p lv i ch
      rw [e1]
      simp only [applyCall]
      rw [f1]
      have : sumOver (cs.flatMap elemsOfCall) (cL (ch.foldl (fun s c => s.addL (ℓ+1) c.1 (s.l ℓ p)) s) lv i) =
          sumOver (cs.flatMap elemsOfCall) (cL s lv i) := by
        apply sumOver_congr
        intro e he
        rw [List.mem_flatMap] at he
        obtain ⟨c', hc', he⟩ := he
        obtain ⟨p', ch', rfl⟩ := hcs c' (by simp [hc'])
        simp only [elemsOfCall, List.mem_map] at he
        obtain ⟨x, _, rfl⟩ := he
        simp only [cL]
        rw [f1]
        have : ¬ ℓ = ℓ + 1 := by omega
        simp [this]
      rw [this]; omega
    · intro lv i; rw [h2]; simp only [applyCall]; rw [f2]
    · intro q; rw [h3]; simp only [applyCall]; rw [f3]

end Tbfmm

namespace Tbfmm

variable (w : Nat → Nat) (L : Nat) (po po' : Nat → List Nat)

/-- the calls of the result phases: L2P, mutual P2P, in-leaf P2P -/
def isResultCall : Call → Prop
  | .l2p leaf parts => parts = po leaf
  | .p2p _ _ _ => True
  | .p2pInner _ => True
  | .p2pTsm _ _ _ => True
  | _ => False

theorem apply_result_call (c : Call) (hc : isResultCall po c) (s : State) :
    (∀ p', (applyCall w L po po' s c).r p' = s.r p' + sumOver (elemsOfCall c) (cR w L po po' s p')) ∧
    (∀ lv i, (applyCall w L po po' s c).m lv i = s.m lv i) ∧ (∀ lv i, (applyCall w L po po' s c).l lv i = s.l lv i) := by
  cases c with
  | l2p leaf parts =>
    simp only [isResultCall] at hc
    subst hc
    obtain ⟨h1, h2, h3⟩ := foldl_addR_dep (po leaf) (fun s => s.l L leaf) (fun _ _ _ => rfl) s
    refine ⟨?_, h2, h3⟩
    intro p'
    simp only [applyCall, elemsOfCall, sumOver_cons, sumOver_nil, cR, Nat.add_zero]
    exact h1 p'
  | p2p src tgt code =>
    obtain ⟨a1, a2, a3⟩ := foldl_addR_const (po tgt) (sumW w (po src)) s
    obtain ⟨b1, b2, b3⟩ := foldl_addR_const (po src) (sumW w (po tgt)) ((po tgt).foldl (fun s p => s.addR p (sumW w (po src))) s)
    refine ⟨?_, ?_, ?_⟩
    · intro p'
      simp only [applyCall, elemsOfCall, sumOver_cons, sumOver_nil, cR, Nat.add_zero]
      rw [b1, a1]; omega
    · intro lv i; simp only [applyCall]; rw [b2, a2]
    · intro lv i; simp only [applyCall]; rw [b3, a3]
  | p2pInner leaf =>
    obtain ⟨a1, a2, a3⟩ := foldl_addR_fun (po leaf) (fun p => sumW w (po leaf) - w p) s
    refine ⟨?_, ?_, ?_⟩
    · intro p'
      simp only [applyCall, elemsOfCall, sumOver_cons, sumOver_nil, cR, Nat.add_zero]
      exact a1 p'
    · intro lv i; simp only [applyCall]; exact a2 lv i
    · intro lv i; simp only [applyCall]; exact a3 lv i
  | p2m _ _ => exact absurd hc (by simp [isResultCall])
  | m2m _ _ _ => exact absurd hc (by simp [isResultCall])
  | m2l _ _ _ => exact absurd hc (by simp [isResultCall])
  | l2l _ _ _ => exact absurd hc (by simp [isResultCall])
  | p2pTsm src tgt code =>
    obtain ⟨a1, a2, a3⟩ := foldl_addR_const (po tgt) (sumW w (po' src)) s
    refine ⟨?_, ?_, ?_⟩
    · intro p'
      simp only [applyCall, elemsOfCall, sumOver_cons, sumOver_nil, cR, Nat.add_zero]
      exact a1 p'
    · intro lv i; simp only [applyCall]; exact a2 lv i
    · intro lv i; simp only [applyCall]; exact a3 lv i

theorem cR_congr (s s' : State) (hl : ∀ lv i, s'.l lv i = s.l lv i) (p' : Nat) (e : Elem) : cR w L po po' s' p' e = cR w L po po' s p' e := by
  cases e <;> simp [cR, hl]

/-- **result phases** (L2P, P2P, in-leaf P2P, in any order): every call reads locals and particle data
    and adds to particle results -/
theorem phase_results (cs : List Call) (hcs : ∀ c ∈ cs, isResultCall po c) (s : State) :
    (∀ p', (applyCalls w L po po' s cs).r p' = s.r p' + sumOver (cs.flatMap elemsOfCall) (cR w L po po' s p')) ∧
    (∀ lv i, (applyCalls w L po po' s cs).m lv i = s.m lv i) ∧ (∀ lv i, (applyCalls w L po po' s cs).l lv i = s.l lv i) := by
  induction cs generalizing s with
  | nil => simp [applyCalls, sumOver]
  | cons c cs ih =>
    obtain ⟨c1, c2, c3⟩ := apply_result_call w L po po' c (hcs c (by simp)) s
    obtain ⟨h1, h2, h3⟩ := ih (fun c hc => hcs c (by simp [hc])) (applyCall w L po po' s c)
    simp only [applyCalls, List.foldl_cons] at h1 h2 h3 ⊢
    refine ⟨?_, ?_, ?_⟩
    · intro p'
      rw [h1, c1, List.flatMap_cons, sumOver_append]
      have : sumOver (cs.flatMap elemsOfCall) (cR w L po po' (applyCall w L po po' s c) p') =
          sumOver (cs.flatMap elemsOfCall) (cR w L po po' s p') :=
        sumOver_congr _ _ _ (fun e _ => cR_congr w L po po' s _ c3 p' e)
      rw [this]; omega
    · intro lv i; rw [h2, c2]
    · intro lv i; rw [h3, c3]

end Tbfmm
