import Tbfmm.Proofs.Weighted
import Tbfmm.Proofs.Corollaries
/-!
C09 for arbitrary weights: in target/source mode every target particle ends with the total weight of the
source particles, whatever the weights (in particular the packed weights the driver and the harness use).
-/
namespace Tbfmm

/-- calls that occur in target/source runs: no mutual and no in-leaf direct interaction -/
def tsmCall : Call → Prop
  | .p2p _ _ _ => False
  | .p2pInner _ => False
  | _ => True

/-- the particle ids whose *weights* a target/source call reads explicitly -/
def readsOk (ok : Nat → Prop) : Call → Prop
  | .p2m _ parts => ∀ p ∈ parts, ok p
  | _ => True

theorem sumW_congr (w w' : Nat → Nat) (ps : List Nat) (h : ∀ p ∈ ps, w p = w' p) : sumW w ps = sumW w' ps := by
  unfold sumW
  congr 1
  exact List.map_congr_left h

section
variable (ok : Nat → Prop) (w w' : Nat → Nat) (hw : ∀ p, ok p → w p = w' p) (L : Nat) (po po' : Nat → List Nat)
  (hpo' : ∀ i, ∀ p ∈ po' i, ok p)
include hw hpo'

theorem applyCall_congr_w (c : Call) (h1 : tsmCall c) (h2 : readsOk ok c) (s : State) :
    applyCall w L po po' s c = applyCall w' L po po' s c := by
  cases c with
  | p2m leaf parts =>
    simp only [applyCall]
    rw [sumW_congr w w' parts (fun p hp => hw p (h2 p hp))]
  | m2m _ _ _ => rfl
  | m2l _ _ _ => rfl
  | l2l _ _ _ => rfl
  | l2p _ _ => rfl
  | p2p _ _ _ => exact absurd h1 (by simp [tsmCall])
  | p2pTsm src tgt code =>
    simp only [applyCall]
    rw [sumW_congr w w' (po' src) (fun p hp => hw p (hpo' src p hp))]
  | p2pInner _ => exact absurd h1 (by simp [tsmCall])

theorem applyCalls_congr_w (cs : List Call) (h : ∀ c ∈ cs, tsmCall c ∧ readsOk ok c) (s : State) :
    applyCalls w L po po' s cs = applyCalls w' L po po' s cs := by
  induction cs generalizing s with
  | nil => rfl
  | cons c cs ih =>
    simp only [applyCalls, List.foldl_cons]
    rw [applyCall_congr_w ok w w' hw L po po' hpo' c (h c (by simp)).1 (h c (by simp)).2 s]
    exact ih (fun c' hc' => h c' (by simp [hc'])) _

end

/-- the calls of a target/source run read weights of source particles only -/
theorem executeTsm_ids (D H bsS bsT : Nat) (modeS modeT : Bool) (srcIdx tgtIdx : List Nat) (periodic : Bool) (upper : Nat) (hbsS : 0 < bsS) :
    (∀ i, ∀ x ∈ (Tree.build D H bsS modeS srcIdx).partsOf i, x < srcIdx.length) ∧
    (∀ c ∈ executeTsm (Tree.build D H bsS modeS srcIdx) (Tree.build D H bsT modeT tgtIdx) periodic 63 upper,
      tsmCall c ∧ readsOk (· < srcIdx.length) c) := by
  obtain ⟨hpo, hcs⟩ := executeSeq_ids D H bsS modeS srcIdx periodic upper hbsS
  refine ⟨hpo, ?_⟩
  intro c hc
  simp only [executeTsm, List.mem_append] at hc
  rcases hc with (((hc | hc) | hc) | hc) | hc
  · -- P2M of the source tree
    split at hc
    · have hmem : c ∈ executeSeq (Tree.build D H bsS modeS srcIdx) periodic 63 upper := by
        simp only [executeSeq, List.mem_append]
        refine Or.inl (Or.inl (Or.inl (Or.inl (Or.inl ?_))))
        rw [if_pos (by decide)]; exact hc
      have hk := hcs c hmem
      simp only [p2mAll] at hc
      split at hc
      · simp only [List.mem_flatMap, List.mem_map] at hc
        obtain ⟨g, _, l, _, rfl⟩ := hc
        exact ⟨trivial, hk⟩
      · simp at hc
    · simp at hc
  · split at hc
    · simp only [m2mAll, List.mem_flatMap] at hc
      obtain ⟨l, _, hc⟩ := hc
      obtain ⟨_, _, rfl⟩ := m2mLevel_form _ l _ _ _ hc
      exact ⟨trivial, trivial⟩
    · simp at hc
  · split at hc
    · simp only [List.mem_flatMap] at hc
      obtain ⟨l, _, hc⟩ := hc
      obtain ⟨_, _, _, rfl⟩ := m2lLevelTsm_form _ _ l _ _ _ hc
      exact ⟨trivial, trivial⟩
    · simp at hc
  · split at hc
    · simp only [l2lAll, List.mem_flatMap] at hc
      obtain ⟨l, _, hc⟩ := hc
      obtain ⟨_, _, rfl⟩ := l2lLevel_form _ l _ _ _ hc
      exact ⟨trivial, trivial⟩
    · simp at hc
  · simp only [Bool.false_eq_true, if_false, List.mem_append] at hc
    rcases hc with hc | hc
    · split at hc
      · simp only [l2pAll] at hc
        split at hc
        · simp only [List.mem_flatMap, List.mem_map] at hc
          obtain ⟨g, _, l, _, rfl⟩ := hc
          exact ⟨trivial, trivial⟩
        · simp at hc
      · simp at hc
    · split at hc
      · unfold p2pAllTsm at hc
        simp only [List.mem_flatMap, List.mem_filterMap] at hc
        obtain ⟨g, _, pp, _, x, _, hx⟩ := hc
        split at hx
        · injection hx with hx; subst hx; exact ⟨trivial, trivial⟩
        · simp at hx
      · simp at hc

/-- **C09, any weights**: every target particle's result is the total weight of the source particles -/
theorem C09_values_weighted (D H bsS bsT : Nat) (modeS modeT : Bool) (srcIdx tgtIdx : List Nat) (upper : Nat)
    (hbsS : 0 < bsS) (hbsT : 0 < bsT) (hneS : srcIdx ≠ []) (hneT : tgtIdx ≠ []) (hH : 1 ≤ H)
    (hltS : ∀ i ∈ srcIdx, i < 2^(D*(H-1))) (hltT : ∀ i ∈ tgtIdx, i < 2^(D*(H-1))) (hu : upper ≤ 2)
    (w : Nat → Nat) (p : Nat) (hp : p < tgtIdx.length) :
    (applyCalls w (H-1) (Tree.build D H bsT modeT tgtIdx).partsOf (Tree.build D H bsS modeS srcIdx).partsOf {}
      (executeTsm (Tree.build D H bsS modeS srcIdx) (Tree.build D H bsT modeT tgtIdx) false 63 upper)).r p =
      sumOver (List.range srcIdx.length) w := by
  obtain ⟨hpo', hcs⟩ := executeTsm_ids D H bsS bsT modeS modeT srcIdx tgtIdx false upper hbsS
  rw [applyCalls_congr_w (· < srcIdx.length) w (restrictW srcIdx.length w) (by intro q hq; simp [restrictW, hq]) (H-1) _ _ hpo' _ hcs,
    result_decomp]
  apply sumOver_congr
  intro q hq
  rw [C09_values D H bsS bsT modeS modeT srcIdx tgtIdx upper hbsS hbsT hneS hneT hH hltS hltT hu p q hp (List.mem_range.1 hq)]
  simp

/-- **C09 / C03 at the level of values (submission order)**: the OpenMP target/source executor's submission order
    (direct interactions before L2P) gives every target the same value as the sequential order -/
theorem C09_omp_values (D H bsS bsT : Nat) (modeS modeT : Bool) (srcIdx tgtIdx : List Nat) (upper : Nat)
    (hbsS : 0 < bsS) (hbsT : 0 < bsT) (hneS : srcIdx ≠ []) (hneT : tgtIdx ≠ []) (hH : 1 ≤ H)
    (hltS : ∀ i ∈ srcIdx, i < 2^(D*(H-1))) (hltT : ∀ i ∈ tgtIdx, i < 2^(D*(H-1))) (hu : upper ≤ 2)
    (w : Nat → Nat) (p : Nat) (hp : p < tgtIdx.length) :
    (applyCalls w (H-1) (Tree.build D H bsT modeT tgtIdx).partsOf (Tree.build D H bsS modeS srcIdx).partsOf {}
      (executeTsm (Tree.build D H bsS modeS srcIdx) (Tree.build D H bsT modeT tgtIdx) false 63 upper true)).r p =
      sumOver (List.range srcIdx.length) w := by
  rw [← C09_values_weighted D H bsS bsT modeS modeT srcIdx tgtIdx upper hbsS hbsT hneS hneT hH hltS hltT hu w p hp]
  have FT := built_facts D H bsT modeT tgtIdx hbsT hneT hH hltT
  obtain ⟨hpo, _⟩ := built_particles D H bsT modeT tgtIdx hbsT _ _ rfl rfl FT p hp
  generalize Tree.build D H bsT modeT tgtIdx = tT at *
  generalize Tree.build D H bsS modeS srcIdx = tS at *
  have f63 : hasFlag 63 flagL2P = true ∧ hasFlag 63 flagP2P = true := by decide
  unfold executeTsm
  simp only [f63.1, f63.2, if_true, Bool.false_eq_true, if_false]
  have hl2p : ∀ c ∈ l2pAll tT upper, isResultCall tT.partsOf c := by
    intro c hc
    simp only [l2pAll] at hc
    split at hc
    · simp only [List.mem_flatMap, List.mem_map] at hc
      obtain ⟨g, hg, l, hl, rfl⟩ := hc
      exact (hpo l (List.mem_flatten.2 ⟨g, hg, hl⟩)).symm
    · simp at hc
  have hp2p : ∀ c ∈ p2pAllTsm tT.D false tT.H tT.leafGroups tS.leafGroups, isResultCall tT.partsOf c := p2pAllTsm_form _ false _ tT.partsOf _ _
  have key := fun s => results_order w (H-1) tT.partsOf tS.partsOf _ _ hp2p hl2p s p
  simp only [applyCalls, List.foldl_append] at key ⊢
  exact key _

end Tbfmm
