import Tbfmm.Proofs.TsmRefine
import Tbfmm.Proofs.Grouping
/-! C08 for the target/source executors: the elementary interactions do not depend on how either tree is grouped -/
namespace Tbfmm

theorem C08_grouping_independent_tsm (D H : Nat) (srcIdx tgtIdx : List Nat) (periodic : Bool) (flags upper : Nat) (omp : Bool)
    (bsS1 bsT1 bsS2 bsT2 : Nat) (mS1 mT1 mS2 mT2 : Bool)
    (h1 : 0 < bsS1) (h2 : 0 < bsT1) (h3 : 0 < bsS2) (h4 : 0 < bsT2)
    (hneS : srcIdx ≠ []) (hneT : tgtIdx ≠ []) (hH : 1 ≤ H)
    (hltS : ∀ i ∈ srcIdx, i < 2^(D*(H-1))) (hltT : ∀ i ∈ tgtIdx, i < 2^(D*(H-1))) :
    ((executeTsm (Tree.build D H bsS1 mS1 srcIdx) (Tree.build D H bsT1 mT1 tgtIdx) periodic flags upper omp).flatMap elemsOfCall).Perm
      ((executeTsm (Tree.build D H bsS2 mS2 srcIdx) (Tree.build D H bsT2 mT2 tgtIdx) periodic flags upper omp).flatMap elemsOfCall) := by
  have r1 := execTsm_refines_spec D H bsS1 bsT1 mS1 mT1 srcIdx tgtIdx periodic flags upper omp h1 h2 hneS hneT hH hltS hltT
  have r2 := execTsm_refines_spec D H bsS2 bsT2 mS2 mT2 srcIdx tgtIdx periodic flags upper omp h3 h4 hneS hneT hH hltS hltT
  refine r1.trans (List.Perm.trans (List.Perm.of_eq ?_) r2.symm)
  rw [build_pgroups_flatten D H bsS1 mS1 srcIdx h1 hneS, build_pgroups_flatten D H bsS2 mS2 srcIdx h3 hneS,
    build_pgroups_flatten D H bsT1 mT1 tgtIdx h2 hneT, build_pgroups_flatten D H bsT2 mT2 tgtIdx h4 hneT]

end Tbfmm
