import Tbfmm.Model.Kernel
/-!
Effect of one kernel call of the exactly additive kernel (`applyCall`, the definition the driver runs and
whose values are compared with the library's on every run) on the three families of values, stated on
the accessor functions `State.m`, `State.l`, `State.r`.
-/
namespace Tbfmm

@[simp] theorem addM_m (s : State) (l i v l' i' : Nat) : (s.addM l i v).m l' i' = s.m l' i' + if (l, i) = (l', i') then v else 0 := by
  unfold State.addM State.m
  simp only [Std.HashMap.getD_insert]
  split <;> simp_all
@[simp] theorem addM_l (s : State) (l i v l' i' : Nat) : (s.addM l i v).l l' i' = s.l l' i' := rfl
@[simp] theorem addM_r (s : State) (l i v p : Nat) : (s.addM l i v).r p = s.r p := rfl
@[simp] theorem addL_l (s : State) (l i v l' i' : Nat) : (s.addL l i v).l l' i' = s.l l' i' + if (l, i) = (l', i') then v else 0 := by
  unfold State.addL State.l
  simp only [Std.HashMap.getD_insert]
  split <;> simp_all
@[simp] theorem addL_m (s : State) (l i v l' i' : Nat) : (s.addL l i v).m l' i' = s.m l' i' := rfl
@[simp] theorem addL_r (s : State) (l i v p : Nat) : (s.addL l i v).r p = s.r p := rfl
@[simp] theorem addR_r (s : State) (p v p' : Nat) : (s.addR p v).r p' = s.r p' + if p = p' then v else 0 := by
  unfold State.addR State.r
  simp only [Std.HashMap.getD_insert]
  split <;> simp_all
@[simp] theorem addR_m (s : State) (p v l i : Nat) : (s.addR p v).m l i = s.m l i := rfl
@[simp] theorem addR_l (s : State) (p v l i : Nat) : (s.addR p v).l l i = s.l l i := rfl

/-- adding the same value to the results of a list of particles -/
theorem foldl_addR_const (ps : List Nat) (v : Nat) (s : State) :
    (∀ p', (ps.foldl (fun s p => s.addR p v) s).r p' = s.r p' + ps.count p' * v) ∧
    (∀ l i, (ps.foldl (fun s p => s.addR p v) s).m l i = s.m l i) ∧
    (∀ l i, (ps.foldl (fun s p => s.addR p v) s).l l i = s.l l i) := by
  induction ps generalizing s with
  | nil => simp
  | cons p ps ih =>
    obtain ⟨h1, h2, h3⟩ := ih (s.addR p v)
    simp only [List.foldl_cons]
    refine ⟨?_, ?_, ?_⟩
    · intro p'
      rw [h1, addR_r, List.count_cons]
      by_cases h : p = p'
      · subst h; simp [Nat.add_mul]; omega
      · have : (p == p') = false := by simpa using h
        simp [h, this]
    · intro l i; rw [h2, addR_m]
    · intro l i; rw [h3, addR_l]

/-- a result update whose amount depends on the state only through values that `addR` does not touch -/
theorem foldl_addR_dep (ps : List Nat) (g : State → Nat) (hg : ∀ s p v, g (s.addR p v) = g s) (s : State) :
    (∀ p', (ps.foldl (fun s p => s.addR p (g s)) s).r p' = s.r p' + ps.count p' * g s) ∧
    (∀ l i, (ps.foldl (fun s p => s.addR p (g s)) s).m l i = s.m l i) ∧
    (∀ l i, (ps.foldl (fun s p => s.addR p (g s)) s).l l i = s.l l i) := by
  induction ps generalizing s with
  | nil => simp
  | cons p ps ih =>
    obtain ⟨h1, h2, h3⟩ := ih (s.addR p (g s))
    simp only [List.foldl_cons]
    refine ⟨?_, ?_, ?_⟩
    · intro p'
      rw [h1, addR_r, hg, List.count_cons]
      by_cases h : p = p'
      · subst h; simp [Nat.add_mul]; omega
      · have : (p == p') = false := by simpa using h
        simp [h, this]
    · intro l i; rw [h2, addR_m]
    · intro l i; rw [h3, addR_l]

/-- the children loop of L2L -/
theorem foldl_addL_children (children : List (Nat × Nat)) (level p : Nat) (s : State) :
    (∀ l i, (children.foldl (fun s c => s.addL (level+1) c.1 (s.l level p)) s).l l i =
        s.l l i + if l = level + 1 then (children.map (·.1)).count i * s.l level p else 0) ∧
    (∀ l i, (children.foldl (fun s c => s.addL (level+1) c.1 (s.l level p)) s).m l i = s.m l i) ∧
    (∀ q, (children.foldl (fun s c => s.addL (level+1) c.1 (s.l level p)) s).r q = s.r q) := by
  induction children generalizing s with
  | nil => simp
  | cons c cs ih =>
    obtain ⟨h1, h2, h3⟩ := ih (s.addL (level+1) c.1 (s.l level p))
    simp only [List.foldl_cons]
    refine ⟨?_, ?_, ?_⟩
    · intro l i
      rw [h1]
      simp only [addL_l, List.map_cons, List.count_cons]
      have hne : ¬ (level + 1, c.1) = (level, p) := by intro e; injection e with e1 _; omega
      simp only [hne, if_false, Nat.add_zero]
      by_cases hl : l = level + 1
      · subst hl
        by_cases hc : c.1 = i
        · subst hc; simp [Nat.add_mul]; omega
        · have h1' : ¬ (level + 1, c.1) = (level + 1, i) := by intro e; injection e with _ e2; exact hc e2
          have h2' : (c.1 == i) = false := by simpa using hc
          simp [h1', h2']
      · have h1' : ¬ (level + 1, c.1) = (l, i) := by intro e; injection e with e1 _; omega
        simp [hl, h1']
    · intro l i; rw [h2, addL_m]
    · intro q; rw [h3, addL_r]

end Tbfmm
