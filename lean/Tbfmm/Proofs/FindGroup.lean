import Tbfmm.Proofs.Search
import Tbfmm.Proofs.R1e
/-! `findGroupWithCell` / `findGroupWithLeaf`: group selection by `lower_bound` on the ending index (C16) -/
namespace Tbfmm

theorem lastOf_mem (g : Group) (h : g ≠ []) : lastOf g ∈ g := by
  unfold lastOf
  induction g with
  | nil => exact absurd rfl h
  | cons a l ih =>
    cases l with
    | nil => simp [lastD]
    | cons b l => simp only [lastD]; exact List.mem_cons_of_mem _ (ih (by simp))

theorem firstOf_mem (g : Group) (h : g ≠ []) : firstOf g ∈ g := by
  cases g with
  | nil => exact absurd rfl h
  | cons a l => simp [firstOf]

theorem sorted_first_last (g : Group) (hs : g.Pairwise (· < ·)) : ∀ x ∈ g, firstOf g ≤ x ∧ x ≤ lastOf g := by
  intro x hx
  constructor
  · cases g with
    | nil => simp at hx
    | cons a l =>
      simp only [firstOf, List.headD_cons]
      rcases List.mem_cons.mp hx with rfl | h
      · exact Nat.le_refl _
      · exact Nat.le_of_lt ((List.pairwise_cons.mp hs).1 x h)
  · exact le_lastD_of_sorted g hs x hx

/-- **C16**: on a level whose groups are non-empty and whose concatenation is strictly increasing, the
    lookup returns a handle iff the index exists, and the handle designates that index -/
theorem C16_findGroup (groups : List Group) (hne : ∀ g ∈ groups, g ≠ []) (hs : groups.flatten.Pairwise (· < ·)) (idx : Nat) :
    (∀ g k, findGroup groups idx = some (g, k) → g < groups.length ∧ k < (groups.getD g []).length ∧ (groups.getD g []).getD k 0 = idx) ∧
    (findGroup groups idx = none → idx ∉ groups.flatten) := by
  obtain ⟨hin, hcross⟩ := List.pairwise_flatten.mp hs
  have hcrossIdx : ∀ i j, i < j → (hj : j < groups.length) → ∀ a ∈ groups.getD i [], ∀ b ∈ groups.getD j [], a < b := by
    intro i j hij hj a ha b hb
    have hi : i < groups.length := by omega
    have := List.pairwise_iff_getElem.mp hcross i j hi hj hij
    simp only [List.getD_eq_getElem?_getD, List.getElem?_eq_getElem hi, List.getElem?_eq_getElem hj, Option.getD_some] at ha hb
    exact this a ha b hb
  have hgne : ∀ i, (hi : i < groups.length) → groups.getD i [] ≠ [] := by
    intro i hi
    simp only [List.getD_eq_getElem?_getD, List.getElem?_eq_getElem hi, Option.getD_some]
    exact hne _ (List.getElem_mem hi)
  have hgs : ∀ i, (hi : i < groups.length) → (groups.getD i []).Pairwise (· < ·) := by
    intro i hi
    simp only [List.getD_eq_getElem?_getD, List.getElem?_eq_getElem hi, Option.getD_some]
    exact hin _ (List.getElem_mem hi)
  -- the predicate of the lower bound is monotone
  have mono : ∀ a b, 0 ≤ a → a ≤ b → b < 0 + groups.length →
      (fun i => decide (lastOf (groups.getD i []) < idx)) b = true → (fun i => decide (lastOf (groups.getD i []) < idx)) a = true := by
    intro a b _ hab hb h
    simp only [decide_eq_true_eq] at *
    rcases Nat.lt_or_ge a b with h1 | h1
    · have := hcrossIdx a b h1 (by omega) _ (lastOf_mem _ (hgne a (by omega))) _ (lastOf_mem _ (hgne b (by omega)))
      omega
    · have : a = b := by omega
      subst this; exact h
  obtain ⟨_, r2, r3, r4⟩ := lowerBoundIdx_spec _ groups.length 0 groups.length (Nat.le_refl _) mono
  generalize hg0 : lowerBoundIdx (fun i => decide (lastOf (groups.getD i []) < idx)) groups.length 0 groups.length = g0 at *
  constructor
  · intro g k hgk
    unfold findGroup at hgk
    simp only [hg0] at hgk
    split at hgk
    · exact absurd hgk (by simp)
    · rename_i hlt
      split at hgk
      · split at hgk
        · rename_i k' hk'
          injection hgk with hgk
          injection hgk with e1 e2
          subst e1; subst e2
          have := (findCell_spec _ (hgs g0 (by omega)) idx).1 k' hk'
          exact ⟨by omega, this.1, this.2⟩
        · exact absurd hgk (by simp)
      · exact absurd hgk (by simp)
  · intro hnone hmem
    obtain ⟨grp, hgrp, hidx⟩ := List.mem_flatten.mp hmem
    obtain ⟨j, hj, rfl⟩ := List.getElem_of_mem hgrp
    have hjD : groups.getD j [] = groups[j] := by simp [List.getD_eq_getElem?_getD, List.getElem?_eq_getElem hj]
    have hbounds := sorted_first_last _ (hgs j hj) idx (by rw [hjD]; exact hidx)
    -- g0 = j
    have h1 : g0 ≤ j := by
      rcases Nat.lt_or_ge j g0 with h | h
      · have := r3 j (by omega) h
        simp only [decide_eq_true_eq] at this
        omega
      · exact h
    have h2 : ¬ g0 < j := by
      intro h
      have hf := r4 g0 (Nat.le_refl _) (by omega)
      simp only [decide_eq_false_iff_not] at hf
      have := hcrossIdx g0 j h hj _ (lastOf_mem _ (hgne g0 (by omega))) idx (by rw [hjD]; exact hidx)
      omega
    have hgj : g0 = j := by omega
    subst hgj
    have hlt : ¬ g0 = groups.length := by omega
    cases hfc : findCell (groups.getD g0 []) idx with
    | none =>
      have := (findCell_spec _ (hgs g0 hj) idx).2 hfc
      exact this (by rw [hjD]; exact hidx)
    | some k =>
      unfold findGroup at hnone
      simp only [hg0, hlt, if_false, hbounds.1, hbounds.2, and_self, if_true, hfc] at hnone
      exact absurd hnone (by simp)

end Tbfmm
