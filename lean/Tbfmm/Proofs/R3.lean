import Tbfmm.Spec.Fmm
/-! R3 — same-target run batching: nothing lost, nothing duplicated, no empty batch -/
namespace Tbfmm

theorem mem_takeWhile_pred {α} (p : α → Bool) (l : List α) (y : α) (h : y ∈ l.takeWhile p) : p y = true := by
  induction l with
  | nil => simp at h
  | cons a l ih =>
    simp only [List.takeWhile_cons] at h
    split at h
    · rename_i hp
      rcases List.mem_cons.mp h with rfl | h'
      · exact hp
      · exact ih h'
    · simp at h

theorem batchRunsF_flatten (fuel : Nat) (xs : List Inter) (hf : xs.length ≤ fuel) :
    (batchRunsF fuel xs).flatten = xs ∧ (∀ r ∈ batchRunsF fuel xs, r ≠ []) ∧
    (∀ r ∈ batchRunsF fuel xs, ∀ y ∈ r, y.tgt = (r.headD default).tgt) := by
  induction fuel generalizing xs with
  | zero =>
    have : xs = [] := List.eq_nil_of_length_eq_zero (by omega)
    subst this; simp [batchRunsF]
  | succ f ih =>
    cases xs with
    | nil => simp [batchRunsF]
    | cons x xs =>
      simp only [batchRunsF]
      have hlen : (xs.dropWhile fun y => y.tgt == x.tgt).length ≤ f := by
        have := (List.dropWhile_sublist (l := xs) (fun y : Inter => y.tgt == x.tgt)).length_le
        simp only [List.length_cons] at hf; omega
      obtain ⟨h1, h2, h3⟩ := ih _ hlen
      refine ⟨?_, ?_, ?_⟩
      · simp only [List.flatten_cons, h1, List.cons_append, List.takeWhile_append_dropWhile]
      · intro r hr
        simp only [List.mem_cons] at hr
        rcases hr with rfl | hr
        · simp
        · exact h2 r hr
      · intro r hr y hy
        simp only [List.mem_cons] at hr
        rcases hr with rfl | hr
        · simp only [List.headD_cons]
          simp only [List.mem_cons] at hy
          rcases hy with rfl | hy
          · rfl
          · have := mem_takeWhile_pred _ _ _ hy
            simpa using this
        · exact h3 r hr y hy

theorem batchRuns_flatten (xs : List Inter) : (batchRuns xs).flatten = xs :=
  (batchRunsF_flatten xs.length xs (Nat.le_refl _)).1

/-- elementary interactions of `M2LInGroup`: exactly the internal list, in order -/
theorem m2lInGroup_elems (level : Nat) (inn : List Inter) :
    (m2lInGroup level inn).flatMap elemsOfCall = inn.map fun x => Elem.m2l level x.tgt x.src x.code := by
  obtain ⟨h1, -, h3⟩ := batchRunsF_flatten inn.length inn (Nat.le_refl _)
  unfold m2lInGroup batchRuns
  generalize batchRunsF inn.length inn = runs at *
  subst h1
  induction runs with
  | nil => rfl
  | cons r rs ih =>
    simp only [List.map_cons, List.flatMap_cons, List.flatten_cons, List.map_append, elemsOfCall, List.map_map]
    rw [ih (fun r' hr' => h3 r' (by simp [hr']))]
    congr 1
    apply List.map_congr_left
    intro y hy
    simp only [Function.comp]
    rw [h3 r (by simp) y hy]

/-- elementary interactions of `M2LBetweenGroups`: the slice entries whose source exists in the
    source group, in order; no call is made with an empty source list -/
theorem m2lBetween_elems (level : Nat) (src : Group) (slice : List Inter) :
    (m2lBetween level src slice).flatMap elemsOfCall =
      (slice.filter fun x => src.contains x.src).map fun x => Elem.m2l level x.tgt x.src x.code := by
  obtain ⟨h1, -, h3⟩ := batchRunsF_flatten slice.length slice (Nat.le_refl _)
  unfold m2lBetween batchRuns
  generalize batchRunsF slice.length slice = runs at *
  subst h1
  induction runs with
  | nil => rfl
  | cons r rs ih =>
    have ih' := ih (fun r' hr' => h3 r' (by simp [hr']))
    simp only [List.filterMap_cons, List.flatten_cons, List.filter_append, List.map_append]
    by_cases he : (r.filter fun x => src.contains x.src).isEmpty = true
    · have hnil : (r.filter fun x => src.contains x.src) = [] := by simpa using he
      simp only [he, if_true]
      rw [ih', hnil]
      simp
    · simp only [he, Bool.false_eq_true, if_false, List.flatMap_cons, elemsOfCall, List.map_map]
      rw [ih']
      congr 1
      apply List.map_congr_left
      intro y hy
      simp only [Function.comp]
      rw [h3 r (by simp) y (List.mem_filter.mp hy).1]

theorem m2lBetween_nonempty (level : Nat) (src : Group) (slice : List Inter) :
    ∀ c ∈ m2lBetween level src slice, ∃ t ss, c = Call.m2l level t ss ∧ ss ≠ [] := by
  intro c hc
  simp only [m2lBetween, List.mem_filterMap] at hc
  obtain ⟨run, _, hrun⟩ := hc
  by_cases hne : (run.filter fun x => src.contains x.src).isEmpty = true
  · rw [if_pos hne] at hrun
    exact absurd hrun (by simp)
  · rw [if_neg hne] at hrun
    injection hrun with hrun
    refine ⟨_, _, hrun.symm, ?_⟩
    intro h
    apply hne
    have h2 : (run.filter fun x => src.contains x.src) = [] := List.map_eq_nil_iff.mp h
    rw [h2]; rfl

theorem m2lInGroup_nonempty (level : Nat) (inn : List Inter) :
    ∀ c ∈ m2lInGroup level inn, ∃ t ss, c = Call.m2l level t ss ∧ ss ≠ [] := by
  intro c hc
  obtain ⟨_, h2, _⟩ := batchRunsF_flatten inn.length inn (Nat.le_refl _)
  simp only [m2lInGroup, batchRuns, List.mem_map] at hc
  obtain ⟨run, hr, rfl⟩ := hc
  exact ⟨_, _, rfl, by simpa using h2 run hr⟩

end Tbfmm
