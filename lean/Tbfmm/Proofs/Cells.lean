import Tbfmm.Proofs.Grouping
/-!
The cells of every level of a built tree are exactly the specification's cells: the ancestors of the
occupied leaves, sorted and without duplicates.
-/
namespace Tbfmm

theorem strict_sorted_ext (l1 l2 : List Nat) (h1 : l1.Pairwise (· < ·)) (h2 : l2.Pairwise (· < ·))
    (hm : ∀ a, a ∈ l1 ↔ a ∈ l2) : l1 = l2 := by
  apply List.Perm.eq_of_pairwise (le := fun a b => a < b) _ h1 h2
  · apply (List.perm_ext_iff_of_nodup _ _).2 hm
    · exact h1.imp (fun h => Nat.ne_of_lt h)
    · exact h2.imp (fun h => Nat.ne_of_lt h)
  · intro a b _ _ hab hba
    omega

theorem dedupAdj_mem (xs : List Nat) (a : Nat) : a ∈ dedupAdj xs ↔ a ∈ xs := by
  induction xs using dedupAdj.induct with
  | case1 => simp [dedupAdj]
  | case2 x => simp [dedupAdj]
  | case3 x l ih =>
    rw [dedupAdj, if_pos rfl, ih]
    simp
  | case4 x y l hne ih =>
    rw [dedupAdj, if_neg hne]
    simp only [List.mem_cons] at ih ⊢
    rw [ih]

theorem dedupAdj_sorted (xs : List Nat) (h : xs.Pairwise (· ≤ ·)) : (dedupAdj xs).Pairwise (· < ·) := by
  induction xs using dedupAdj.induct with
  | case1 => simp [dedupAdj]
  | case2 x => simp [dedupAdj]
  | case3 x l ih =>
    rw [dedupAdj, if_pos rfl]
    exact ih (List.pairwise_cons.mp h).2
  | case4 x y l hne ih =>
    rw [dedupAdj, if_neg hne]
    have hh := List.pairwise_cons.mp h
    refine List.pairwise_cons.mpr ⟨?_, ih hh.2⟩
    intro a ha
    rw [dedupAdj_mem] at ha
    have h1 := hh.1 y (by simp)
    have h2 : y ≤ a := by
      simp only [List.mem_cons] at ha
      rcases ha with rfl | ha
      · exact Nat.le_refl _
      · exact (List.pairwise_cons.mp hh.2).1 a ha
    omega

theorem sortDedup_mem (xs : List Nat) (a : Nat) : a ∈ sortDedup xs ↔ a ∈ xs := by
  unfold sortDedup
  rw [dedupAdj_mem, List.mem_mergeSort]

theorem sortDedup_sorted (xs : List Nat) : (sortDedup xs).Pairwise (· < ·) := by
  unfold sortDedup
  apply dedupAdj_sorted
  have := List.pairwise_mergeSort (le := fun (a b : Nat) => decide (a ≤ b))
    (by intro a b c; simp only [decide_eq_true_eq]; omega)
    (by intro a b; simp only [Bool.or_eq_true, decide_eq_true_eq]; omega) xs
  exact this.imp (by intro a b h; simpa using h)

theorem sortDedup_of_sorted (xs : List Nat) (h : xs.Pairwise (· < ·)) : sortDedup xs = xs :=
  strict_sorted_ext _ _ (sortDedup_sorted xs) h (sortDedup_mem xs)

/-- members of the keys of the runs: the parents of the children -/
theorem mem_keysFrom (par : Nat → Nat) (prev : Option Nat) (cs : List Nat) :
    (∀ x ∈ keysFrom par prev cs, ∃ c ∈ cs, par c = x) ∧ (∀ c ∈ cs, par c ∈ keysFrom par prev cs ∨ prev = some (par c)) := by
  induction cs generalizing prev with
  | nil => simp [keysFrom]
  | cons c cs ih =>
    simp only [keysFrom]
    by_cases h : prev = some (par c)
    · simp only [h, if_true]
      obtain ⟨i1, i2⟩ := ih (some (par c))
      constructor
      · intro x hx
        obtain ⟨c', hc', e⟩ := i1 x hx
        exact ⟨c', by simp [hc'], e⟩
      · intro c' hc'
        simp only [List.mem_cons] at hc'
        rcases hc' with rfl | hc'
        · right; rfl
        · exact i2 c' hc'
    · simp only [h, if_false]
      obtain ⟨i1, i2⟩ := ih (some (par c))
      constructor
      · intro x hx
        simp only [List.mem_cons] at hx
        rcases hx with rfl | hx
        · exact ⟨c, by simp, rfl⟩
        · obtain ⟨c', hc', e⟩ := i1 x hx
          exact ⟨c', by simp [hc'], e⟩
      · intro c' hc'
        simp only [List.mem_cons] at hc'
        left
        rcases hc' with rfl | hc'
        · simp
        · rcases i2 c' hc' with h1 | h1
          · simp [h1]
          · have : par c = par c' := by simpa using h1
            simp [this]

theorem mem_keys_runsOf (par : Nat → Nat) (cs : List Nat) (x : Nat) : x ∈ keys (runsOf par cs) ↔ ∃ c ∈ cs, par c = x := by
  rw [keys_runsOf_eq]
  obtain ⟨i1, i2⟩ := mem_keysFrom par none cs
  constructor
  · exact i1 x
  · rintro ⟨c, hc, rfl⟩
    rcases i2 c hc with h | h
    · exact h
    · simp at h

theorem cellsUp_sorted (D : Nat) (k : Nat) (cs : List Nat) (h : cs.Pairwise (· < ·)) : (cellsUp D k cs).Pairwise (· < ·) := by
  induction k generalizing cs with
  | zero => simpa [cellsUp] using h
  | succ k ih =>
    simp only [cellsUp]
    exact ih _ (keys_runsOf_sorted _ cs (sorted_mono_par D cs h))

theorem mem_cellsUp (D : Nat) (k : Nat) (cs : List Nat) (x : Nat) : x ∈ cellsUp D k cs ↔ ∃ c ∈ cs, c / 2^(D*k) = x := by
  induction k generalizing cs with
  | zero => simp [cellsUp]
  | succ k ih =>
    simp only [cellsUp]
    rw [ih]
    constructor
    · rintro ⟨c', hc', rfl⟩
      rw [mem_keys_runsOf] at hc'
      obtain ⟨c, hc, rfl⟩ := hc'
      refine ⟨c, hc, ?_⟩
      unfold parent
      rw [Nat.div_div_eq_div_mul, ← Nat.pow_add, Nat.mul_succ, Nat.add_comm]
    · rintro ⟨c, hc, rfl⟩
      refine ⟨parent D c, (mem_keys_runsOf _ cs _).2 ⟨c, hc, rfl⟩, ?_⟩
      unfold parent
      rw [Nat.div_div_eq_div_mul, ← Nat.pow_add, Nat.mul_succ, Nat.add_comm]

/-- the cells `k` levels above a strictly sorted leaf list are the specification's cells -/
theorem cellsUp_eq_specCells (D L k : Nat) (hk : k ≤ L) (cs : List Nat) (h : cs.Pairwise (· < ·)) :
    cellsUp D k cs = specCells D L cs (L - k) := by
  unfold specCells
  have e : L - (L - k) = k := by omega
  rw [e]
  apply strict_sorted_ext _ _ (cellsUp_sorted D k cs h) (sortDedup_sorted _)
  intro a
  rw [mem_cellsUp, sortDedup_mem, List.mem_map]

end Tbfmm
