import Tbfmm.Proofs.TsmRefine
import Tbfmm.Proofs.NearOnce
/-!
C09 at the level of the specification (non-periodic): every (target leaf, source leaf) pair is served
exactly once — by one one-sided direct interaction when the leaves coincide or are adjacent, otherwise by
a transfer between their ancestors at exactly one level; and C03/C09: the OpenMP submission order performs
the same elementary interactions as the sequential order.
-/
namespace Tbfmm

/-- inner test of the non-periodic one-sided direct specification -/
def np_tsm_inner (D L t s : Nat) : Option Elem :=
  let off := vsub (toI (decode D L s)) (toI (decode D L t))
  if off.all (fun o => o.natAbs ≤ 1) then some (Elem.p2pTsm s t (code3 off)) else none

theorem specP2PTsm_np_eq (D L : Nat) (tgts srcs : List Nat) :
    specP2PTsm D false L tgts srcs = tgts.flatMap fun t => srcs.flatMap fun s => (np_tsm_inner D L t s).toList := by
  unfold specP2PTsm
  simp only []
  apply flatMap_congr'
  intro t _
  rw [List.flatMap_map]
  apply flatMap_congr'
  intro s _
  simp only [Function.comp, imageShifts, Bool.false_eq_true, if_false, List.map_cons, List.map_nil, List.filterMap_cons, List.filterMap_nil]
  rw [vadd_zero_shift D _ _ (by simp [toI])]
  unfold np_tsm_inner
  simp only []
  split <;> rename_i heq <;> rw [heq] <;> rfl

theorem mem_specP2PTsm_np (D L : Nat) (tgts srcs : List Nat) (t s c : Nat) :
    Elem.p2pTsm s t c ∈ specP2PTsm D false L tgts srcs ↔
      t ∈ tgts ∧ s ∈ srcs ∧ Far.adj (decode D L t) (decode D L s) ∧
      c = code3 (vsub (toI (decode D L s)) (toI (decode D L t))) := by
  rw [specP2PTsm_np_eq]
  simp only [List.mem_flatMap, Option.mem_toList]
  unfold np_tsm_inner
  simp only []
  rw [← adjV_toI, adjV_eq_all _ _ (by simp [toI])]
  constructor
  · rintro ⟨t', ht', s', hs', hm⟩
    split at hm
    · rename_i hc
      injection hm with hm
      injection hm with h1 h2 h3
      subst h1 h2 h3
      exact ⟨ht', hs', hc, rfl⟩
    · simp at hm
  · rintro ⟨ht, hs, h1, rfl⟩
    exact ⟨t, ht, s, hs, by simp [h1]⟩

/-- the one-sided direct specification lists a (target, source) pair at most once -/
theorem specP2PTsm_np_nodup (D L : Nat) (tgts srcs : List Nat) (ht : tgts.Nodup) (hs : srcs.Nodup) :
    (specP2PTsm D false L tgts srcs).Nodup := by
  rw [specP2PTsm_np_eq]
  have inner : ∀ t s (e : Elem), e ∈ (np_tsm_inner D L t s).toList →
      e = Elem.p2pTsm s t (code3 (vsub (toI (decode D L s)) (toI (decode D L t)))) := by
    intro t s e h
    unfold np_tsm_inner at h
    simp only [] at h
    split at h
    · simpa using h
    · simp at h
  rw [List.Nodup, List.pairwise_flatMap]
  constructor
  · intro t _
    rw [List.pairwise_flatMap]
    constructor
    · intro s _
      cases np_tsm_inner D L t s <;> simp
    · refine hs.imp ?_
      intro s1 s2 hne x hx y hy
      rw [inner t s1 x hx, inner t s2 y hy]
      intro e; injection e with e1 _ _; exact hne e1
  · refine ht.imp ?_
    intro t1 t2 hne x hx y hy
    rw [List.mem_flatMap] at hx hy
    obtain ⟨s1, _, hx⟩ := hx
    obtain ⟨s2, _, hy⟩ := hy
    rw [inner t1 s1 x hx, inner t2 s2 y hy]
    intro e; injection e with _ e2 _; exact hne e2

/-- **C09, near pairs**: a target leaf and a source leaf that coincide or are adjacent are served by one
    one-sided direct interaction (present exactly once), and by no transfer at any level -/
theorem C09_near_pair (D L : Nat) (leavesT leavesS : List Nat) (hT : leavesT.Nodup) (hS : leavesS.Nodup)
    (a b : Nat) (ha : a ∈ leavesT) (hb : b ∈ leavesS) (hadj : Far.adj (decode D L a) (decode D L b)) :
    (∃ c, Elem.p2pTsm b a c ∈ specP2PTsm D false L leavesT leavesS) ∧ (specP2PTsm D false L leavesT leavesS).Nodup ∧
    ∀ k, k + 2 ≤ L → ¬ ∃ c, Elem.m2l (L-k) (a / 2^(D*k)) (b / 2^(D*k)) c ∈
        specM2LLevel D false (L-k) (specCells D L leavesT (L-k)) (specCells D L leavesS (L-k)) := by
  refine ⟨⟨_, (mem_specP2PTsm_np D L leavesT leavesS a b _).2 ⟨ha, hb, hadj, rfl⟩⟩, specP2PTsm_np_nodup D L _ _ hT hS, ?_⟩
  intro k hk h
  exact Far.near_none _ _ hadj k ((m2l_between_ancestors_iff2 D L leavesT leavesS a b ha hb k hk).1 h)

/-- **C09, far pairs**: a target leaf and a source leaf that are not adjacent are served by a transfer
    between their ancestors at exactly one level, and by no direct interaction -/
theorem C09_far_pair (D L : Nat) (leavesT leavesS : List Nat) (a b : Nat) (ha : a ∈ leavesT) (hb : b ∈ leavesS)
    (hna : ¬ Far.adj (decode D L a) (decode D L b)) :
    (∃ k, (k + 2 ≤ L ∧ ∃ c, Elem.m2l (L-k) (a / 2^(D*k)) (b / 2^(D*k)) c ∈
        specM2LLevel D false (L-k) (specCells D L leavesT (L-k)) (specCells D L leavesS (L-k))) ∧
      ∀ k', k' + 2 ≤ L → (∃ c, Elem.m2l (L-k') (a / 2^(D*k')) (b / 2^(D*k')) c ∈
        specM2LLevel D false (L-k') (specCells D L leavesT (L-k')) (specCells D L leavesS (L-k'))) → k' = k) ∧
    ∀ c, Elem.p2pTsm b a c ∉ specP2PTsm D false L leavesT leavesS := by
  constructor
  · obtain ⟨k, ⟨hk, hi⟩, huniq⟩ := Far.far_unique L (decode D L a) (decode D L b) (by simp)
      (decode_lt D L a) (decode_lt D L b) hna
    refine ⟨k, ⟨hk, (m2l_between_ancestors_iff2 D L leavesT leavesS a b ha hb k hk).2 hi⟩, ?_⟩
    intro k' hk' h
    exact huniq k' ((m2l_between_ancestors_iff2 D L leavesT leavesS a b ha hb k' hk').1 h)
  · intro c h
    rw [mem_specP2PTsm_np] at h
    exact hna h.2.2.1

/-- **OpenMP submission order performs the same elementary interactions as the sequential order**
    (single tree) -/
theorem executeOmp_perm_seq (t : Tree) (periodic : Bool) (flags upper : Nat) :
    ((executeOmp t periodic flags upper).flatMap elemsOfCall).Perm ((executeSeq t periodic flags upper).flatMap elemsOfCall) := by
  unfold executeOmp executeSeq
  simp only [List.flatMap_append, List.append_assoc]
  refine List.Perm.append_left _ (List.Perm.append_left _ (List.Perm.append_left _ (List.Perm.append_left _ ?_)))
  exact List.perm_append_comm

/-- the OpenMP executor's submissions refine the cell-level specification as well -/
theorem execOmp_refines_spec (D H bs : Nat) (mode : Bool) (leafIdx : List Nat) (periodic : Bool) (flags upper : Nat)
    (hbs : 0 < bs) (hne : leafIdx ≠ []) (hH : 1 ≤ H) (hlt : ∀ i ∈ leafIdx, i < 2^(D*(H-1))) :
    ((executeOmp (Tree.build D H bs mode leafIdx) periodic flags upper).flatMap elemsOfCall).Perm
      (specElems D H periodic (shapeOf (Tree.build D H bs mode leafIdx).pgroups.flatten) flags upper) :=
  (executeOmp_perm_seq _ periodic flags upper).trans (exec_refines_spec D H bs mode leafIdx periodic flags upper hbs hne hH hlt)

/-- hypotheses of the refinement theorems are satisfiable (a 2-D, height-3 tree with three particles) -/
example : ([0, 5, 15] : List Nat) ≠ [] ∧ (∀ i ∈ ([0, 5, 15] : List Nat), i < 2^(2*(3-1))) := by decide

end Tbfmm
