import Tbfmm.Proofs.Values4
/-!
Transfer phase and result phases for one (source particle `q` in leaf `b`, target leaf `a`) pair,
evaluated on the specification's lists.
-/
namespace Tbfmm

theorem spec_elem_form (D ℓ : Nat) (tg sr : List Nat) (e : Elem) (he : e ∈ specM2LLevel D false ℓ tg sr) :
    ∃ t s, e = Elem.m2l ℓ t s (code7 (vsub (toI (decode D ℓ s)) (toI (decode D ℓ t)))) := by
  rw [specM2L_np_eq] at he
  split at he
  · simp at he
  · simp only [List.mem_flatMap] at he
    obtain ⟨t, _, s, _, h⟩ := he
    exact ⟨t, s, np_inner_eq D ℓ t s e h⟩

/-- membership in a list of elementary interactions is decidable (through the derived `DecidableEq`) -/
instance elemMemDec (e : Elem) (l : List Elem) : Decidable (e ∈ l) :=
  decidable_of_iff (∃ x ∈ l, e = x) (by simp)

/-- the code the specification attaches to a (target, source) pair of level `ℓ` -/
def m2lCode (D ℓ t s : Nat) : Nat := code7 (vsub (toI (decode D ℓ s)) (toI (decode D ℓ t)))

/-- what the transfer phase puts into the local `(ℓ, i)` when the multipoles hold `q` once in the ancestors of `b` -/
def Aval (D L u : Nat) (cellsT cellsS : Nat → List Nat) (b : Nat) (ℓ i : Nat) : Nat :=
  if u ≤ ℓ ∧ ℓ ≤ L then
    (if Elem.m2l ℓ i (anc D L ℓ b) (m2lCode D ℓ i (anc D L ℓ b)) ∈ specM2LLevel D false ℓ (cellsT ℓ) (cellsS ℓ) then 1 else 0)
  else 0

section
variable (q : Nat) (D L : Nat) (po po' : Nat → List Nat) (cellsT cellsS : Nat → List Nat) (b : Nat)
  (hndT : ∀ ℓ, (cellsT ℓ).Nodup) (hndS : ∀ ℓ, (cellsS ℓ).Nodup)

include hndT hndS

/-- the contribution of one level's specification list to the local `(ℓ, i)` -/
theorem spec_level_sum (s : State) (ℓ' ℓ i : Nat) (hm : ∀ j, s.m ℓ' j = if j = anc D L ℓ' b then 1 else 0) :
    sumOver (specM2LLevel D false ℓ' (cellsT ℓ') (cellsS ℓ')) (cL s ℓ i) =
      if ℓ' = ℓ then (if Elem.m2l ℓ i (anc D L ℓ b) (m2lCode D ℓ i (anc D L ℓ b)) ∈ specM2LLevel D false ℓ (cellsT ℓ) (cellsS ℓ) then 1 else 0) else 0 := by
  by_cases h : ℓ' = ℓ
  · subst h
    rw [if_pos rfl]
    have e : sumOver (specM2LLevel D false ℓ' (cellsT ℓ') (cellsS ℓ')) (cL s ℓ' i) =
        sumOver (specM2LLevel D false ℓ' (cellsT ℓ') (cellsS ℓ'))
          (fun e => if e = Elem.m2l ℓ' i (anc D L ℓ' b) (m2lCode D ℓ' i (anc D L ℓ' b)) then 1 else 0) := by
      apply sumOver_congr
      intro e he
      obtain ⟨t, src, rfl⟩ := spec_elem_form D ℓ' _ _ e he
      simp only [cL, hm]
      by_cases h1 : t = i
      · subst h1
        by_cases h2 : src = anc D L ℓ' b
        · subst h2; simp [m2lCode]
        · have : ¬ Elem.m2l ℓ' t src (code7 (vsub (toI (decode D ℓ' src)) (toI (decode D ℓ' t)))) =
              Elem.m2l ℓ' t (anc D L ℓ' b) (m2lCode D ℓ' t (anc D L ℓ' b)) := by
            intro e; injection e with _ _ e3 _; exact h2 e3
          simp [h2, this]
      · have h3 : ¬ (ℓ', t) = (ℓ', i) := by intro e; injection e with _ e2; exact h1 e2
        have : ¬ Elem.m2l ℓ' t src (code7 (vsub (toI (decode D ℓ' src)) (toI (decode D ℓ' t)))) =
            Elem.m2l ℓ' i (anc D L ℓ' b) (m2lCode D ℓ' i (anc D L ℓ' b)) := by
          intro e; injection e with _ e2 _ _; exact h1 e2
        simp [h3, this]
    rw [e, sumOver_indicator _ (specM2L_np_nodup D ℓ' _ _ (hndT ℓ') (hndS ℓ'))]
    by_cases hmem : Elem.m2l ℓ' i (anc D L ℓ' b) (m2lCode D ℓ' i (anc D L ℓ' b)) ∈ specM2LLevel D false ℓ' (cellsT ℓ') (cellsS ℓ')
    · simp [hmem]
    · simp [hmem]
  · rw [if_neg h]
    apply sumOver_zero
    intro e he
    obtain ⟨t, src, rfl⟩ := spec_elem_form D ℓ' _ _ e he
    simp only [cL]
    have : ¬ (ℓ', t) = (ℓ, i) := by intro e; injection e with e1 _; exact h e1
    simp [this]

/-- **transfer phase**: with the multipoles as left by the upward pass and empty locals, the locals become `Aval` -/
theorem m2l_phase_eval (u : Nat) (hu : u ≤ L) (cs : List Call) (hform : ∀ c ∈ cs, ∃ lv t srcs, c = .m2l lv t srcs)
    (helems : (cs.flatMap elemsOfCall).Perm ((List.range' u (L + 1 - u)).flatMap fun ℓ => specM2LLevel D false ℓ (cellsT ℓ) (cellsS ℓ)))
    (s : State) (hm : ∀ ℓ j, u ≤ ℓ → ℓ ≤ L → s.m ℓ j = if j = anc D L ℓ b then 1 else 0) (hl : ∀ lv i, s.l lv i = 0) :
    (∀ ℓ i, (applyCalls (wq q) L po po' s cs).l ℓ i = Aval D L u cellsT cellsS b ℓ i) ∧
    (∀ lv i, (applyCalls (wq q) L po po' s cs).m lv i = s.m lv i) ∧ (∀ p, (applyCalls (wq q) L po po' s cs).r p = s.r p) := by
  obtain ⟨h1, h2, h3⟩ := phase_m2l (wq q) L po po' cs hform s
  refine ⟨?_, h2, h3⟩
  intro ℓ i
  rw [h1, hl, Nat.zero_add, sumOver_perm _ _ _ helems, sumOver_flatMap]
  have e : sumOver (List.range' u (L + 1 - u)) (fun ℓ' => sumOver (specM2LLevel D false ℓ' (cellsT ℓ') (cellsS ℓ')) (cL s ℓ i)) =
      sumOver (List.range' u (L + 1 - u)) (fun ℓ' => if ℓ' = ℓ then
        (if Elem.m2l ℓ i (anc D L ℓ b) (m2lCode D ℓ i (anc D L ℓ b)) ∈ specM2LLevel D false ℓ (cellsT ℓ) (cellsS ℓ) then 1 else 0) else 0) := by
    apply sumOver_congr
    intro ℓ' hℓ'
    rw [List.mem_range'_1] at hℓ'
    exact spec_level_sum D L cellsT cellsS b hndT hndS s ℓ' ℓ i (fun j => hm ℓ' j hℓ'.1 (by omega))
  rw [e, sumOver_indicator _ (List.nodup_range' (step := 1))]
  unfold Aval
  simp only [List.mem_range'_1]
  by_cases h : u ≤ ℓ ∧ ℓ ≤ L
  · rw [if_pos h, if_pos ⟨h.1, by omega⟩]
  · rw [if_neg h, if_neg (by omega)]

end

end Tbfmm

namespace Tbfmm

def p2pCode (D L t s : Nat) : Nat := code3 (vsub (toI (decode D L s)) (toI (decode D L t)))

theorem specP2P_elem_form (D L : Nat) (leaves : List Nat) (e : Elem) (he : e ∈ specP2P D false L leaves) :
    ∃ t s, e = Elem.p2p s t (p2pCode D L t s) ∧ t ∈ leaves ∧ s ∈ leaves := by
  rw [specP2P_np_eq] at he
  simp only [List.mem_flatMap, Option.mem_toList] at he
  obtain ⟨t, ht, s, hs, h⟩ := he
  unfold np_p2p_inner at h
  simp only [] at h
  split at h
  · injection h with h
    exact ⟨t, s, h.symm, ht, hs⟩
  · simp at h

theorem specP2P_np_nodup (D L : Nat) (leaves : List Nat) (hn : leaves.Nodup) : (specP2P D false L leaves).Nodup := by
  rw [specP2P_np_eq]
  have inner : ∀ t s (e : Elem), e ∈ (np_p2p_inner D L t s).toList → e = Elem.p2p s t (p2pCode D L t s) := by
    intro t s e h
    unfold np_p2p_inner at h
    simp only [] at h
    split at h
    · simpa [p2pCode] using h
    · simp at h
  rw [List.Nodup, List.pairwise_flatMap]
  constructor
  · intro t _
    rw [List.pairwise_flatMap]
    constructor
    · intro s _
      cases np_p2p_inner D L t s <;> simp
    · refine hn.imp ?_
      intro s1 s2 hne x hx y hy
      rw [inner t s1 x hx, inner t s2 y hy]
      intro e; injection e with e1 _ _; exact hne e1
  · refine hn.imp ?_
    intro t1 t2 hne x hx y hy
    rw [List.mem_flatMap] at hx hy
    obtain ⟨s1, _, hx⟩ := hx
    obtain ⟨s2, _, hy⟩ := hy
    rw [inner t1 s1 x hx, inner t2 s2 y hy]
    intro e; injection e with _ e2 _; exact hne e2

theorem sumOver_add {α} (xs : List α) (f g : α → Nat) : sumOver xs (fun x => f x + g x) = sumOver xs f + sumOver xs g := by
  induction xs with
  | nil => rfl
  | cons x xs ih => simp only [sumOver_cons, ih]; omega

section
variable (q p : Nat) (D L : Nat) (po : Nat → List Nat) (leaves : List Nat) (a b : Nat)
  (hn : leaves.Nodup) (ha : a ∈ leaves)
  (hp : ∀ i ∈ leaves, (po i).count p = if i = a then 1 else 0)
  (hq : ∀ i ∈ leaves, (po i).count q = if i = b then 1 else 0)

include hn ha hp hq

/-- **result phases**: what the particle `p` of leaf `a` receives from the source particle `q` of leaf `b` -/
theorem results_eval (act : Bool) (cs : List Call) (hform : ∀ c ∈ cs, isResultCall po c)
    (helems : (cs.flatMap elemsOfCall).Perm ((if act then leaves.map (fun i => Elem.l2p i (po i).length) else []) ++
        (specP2P D false L leaves ++ leaves.map Elem.p2pInner)))
    (s : State) (hr : s.r p = 0) :
    (applyCalls (wq q) L po po s cs).r p =
      (if act then s.l L a else 0) +
      (if Elem.p2p b a (p2pCode D L a b) ∈ specP2P D false L leaves then 1 else 0) +
      (if Elem.p2p a b (p2pCode D L b a) ∈ specP2P D false L leaves then 1 else 0) +
      ((if a = b then 1 else 0) - wq q p) := by
  obtain ⟨h1, _, _⟩ := phase_results (wq q) L po po cs hform s
  rw [h1, hr, Nat.zero_add, sumOver_perm _ _ _ helems, sumOver_append, sumOver_append]
  -- L2P
  have e1 : sumOver (if act then leaves.map (fun i => Elem.l2p i (po i).length) else []) (cR (wq q) L po po s p) = if act then s.l L a else 0 := by
    cases act
    · simp [sumOver]
    · simp only [if_true]
      rw [sumOver_map]
      have : sumOver leaves ((cR (wq q) L po po s p) ∘ fun i => Elem.l2p i (po i).length) =
          sumOver leaves (fun i => if i = a then s.l L i else 0) := by
        apply sumOver_congr
        intro i hi
        simp only [Function.comp, cR, hp i hi]
        split <;> simp
      rw [this, sumOver_indicator _ hn, if_pos ha]
  -- mutual P2P
  have e2 : sumOver (specP2P D false L leaves) (cR (wq q) L po po s p) =
      (if Elem.p2p b a (p2pCode D L a b) ∈ specP2P D false L leaves then 1 else 0) +
      (if Elem.p2p a b (p2pCode D L b a) ∈ specP2P D false L leaves then 1 else 0) := by
    have : sumOver (specP2P D false L leaves) (cR (wq q) L po po s p) =
        sumOver (specP2P D false L leaves) (fun e => (if e = Elem.p2p b a (p2pCode D L a b) then 1 else 0) + (if e = Elem.p2p a b (p2pCode D L b a) then 1 else 0)) := by
      apply sumOver_congr
      intro e he
      obtain ⟨t, src, rfl, ht, hs⟩ := specP2P_elem_form D L leaves e he
      simp only [cR, sumW_wq, hp t ht, hp src hs, hq t ht, hq src hs]
      by_cases h1 : t = a <;> by_cases h2 : src = b <;> by_cases h3 : src = a <;> by_cases h4 : t = b <;>
        simp [h1, h2, h3, h4, Elem.p2p.injEq] <;> (try subst_vars) <;> simp_all
    rw [this, sumOver_add, sumOver_indicator _ (specP2P_np_nodup D L leaves hn), sumOver_indicator _ (specP2P_np_nodup D L leaves hn)]
    congr 1
    · by_cases h : Elem.p2p b a (p2pCode D L a b) ∈ specP2P D false L leaves <;> simp [h]
    · by_cases h : Elem.p2p a b (p2pCode D L b a) ∈ specP2P D false L leaves <;> simp [h]
  -- in-leaf P2P
  have e3 : sumOver (leaves.map Elem.p2pInner) (cR (wq q) L po po s p) = (if a = b then 1 else 0) - wq q p := by
    rw [sumOver_map]
    have : sumOver leaves ((cR (wq q) L po po s p) ∘ Elem.p2pInner) =
        sumOver leaves (fun i => if i = a then (sumW (wq q) (po i) - wq q p) else 0) := by
      apply sumOver_congr
      intro i hi
      simp only [Function.comp, cR, hp i hi]
      split <;> simp
    rw [this, sumOver_indicator _ hn, if_pos ha, sumW_wq, hq a ha]
  rw [e1, e2, e3]; omega

end

end Tbfmm
