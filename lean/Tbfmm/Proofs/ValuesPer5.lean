import Tbfmm.Proofs.ValuesPer4
/-!
Periodic runs: the transfers received along the ancestors, image by image.
-/
namespace Tbfmm

open FarInt

section
variable (D L u : Nat) (leaves : List Nat) (a b : Nat) (ha : a ∈ leaves) (hb : b ∈ leaves)

/-- image `K` of leaf `b` is served at level `ℓ` -/
def TK (K : List Int) (ℓ : Nat) : Nat :=
  if 1 ≤ ℓ ∧ perTest D ℓ (anc D L ℓ a) (anc D L ℓ b) (K.map (· * (2:Int)^ℓ)) = true then 1 else 0

theorem TK_level (K : List Int) (ℓ : Nat) (hℓ : ℓ ≤ L) :
    TK D L a b K ℓ = if 1 ≤ ℓ ∧ perTest D (L - (L - ℓ)) (a / 2^(D*(L-ℓ))) (b / 2^(D*(L-ℓ))) (K.map (· * (2:Int)^(L - (L - ℓ)))) = true then 1 else 0 := by
  have e : L - (L - ℓ) = ℓ := by omega
  rw [e]; rfl

/-- per image: total over the levels `u … L` (`u ≤ 1`) -/
theorem TK_total (hu : u ≤ 1) (K : List Int) (hK : K ∈ unitShifts D) :
    (if u ≤ L then TK D L a b K u + sumLv (TK D L a b K) u (L - u) else 0) =
      if adjV (toI (decode D L a)) (vadd (toI (decode D L b)) (K.map (· * (2:Int)^L))) then 0 else 1 := by
  obtain ⟨hKl, hKr⟩ := (mem_unitShifts D K).1 hK
  by_cases hadj : adjV (toI (decode D L a)) (vadd (toI (decode D L b)) (K.map (· * (2:Int)^L))) = true
  · rw [if_pos hadj]
    have z : ∀ ℓ, ℓ ≤ L → TK D L a b K ℓ = 0 := by
      intro ℓ hℓ
      rw [TK_level D L a b K ℓ hℓ, if_neg]
      rintro ⟨h1, h2⟩
      have := C10_periodic_near_none D L a b K hKl hadj (L - ℓ) (by omega)
      rw [this] at h2
      exact Bool.noConfusion h2
    split
    · rw [z u (by omega), sumLv_zero _ u (L - u) (fun ℓ _ h2 => z ℓ (by omega))]
    · rfl
  · have hadj' : adjV (toI (decode D L a)) (vadd (toI (decode D L b)) (K.map (· * (2:Int)^L))) = false := by
      cases h : adjV (toI (decode D L a)) (vadd (toI (decode D L b)) (K.map (· * (2:Int)^L)))
      · rfl
      · exact absurd h hadj
    rw [if_neg hadj]
    obtain ⟨j0, ⟨hj0, ht0⟩, huniq⟩ := C10_periodic_far_once D L a b K hKl hKr hadj'
    have huL : u ≤ L := by omega
    rw [if_pos huL]
    have ind : ∀ ℓ, ℓ ≤ L → TK D L a b K ℓ = if ℓ = L - j0 then 1 else 0 := by
      intro ℓ hℓ
      rw [TK_level D L a b K ℓ hℓ]
      by_cases he : ℓ = L - j0
      · rw [if_pos he, if_pos]
        subst he
        have : L - (L - j0) = j0 := by omega
        rw [this]
        exact ⟨by omega, ht0⟩
      · rw [if_neg he, if_neg]
        rintro ⟨h1, h2⟩
        have := huniq (L - ℓ) (by omega) h2
        omega
    rw [ind u huL, sumLv_indicator _ (L - j0) u (L - u) (fun ℓ h1 h2 => ind ℓ (by omega))]
    by_cases h : u = L - j0
    · rw [if_pos h, if_neg (by omega)]
    · rw [if_neg h, if_pos (by omega)]

include ha hb

/-- the periodic transfer value at the ancestors of `a`, image by image -/
theorem AvalP_anc (ℓ : Nat) (h1 : u ≤ ℓ) (h2 : ℓ ≤ L) :
    AvalP D L u (fun ℓ => specCells D L leaves ℓ) b ℓ (anc D L ℓ a) = sumOver (unitShifts D) (fun K => TK D L a b K ℓ) := by
  unfold AvalP
  rw [if_pos ⟨h1, h2⟩]
  have ma : anc D L ℓ a ∈ specCells D L leaves ℓ := by
    have := anc_mem_specCells D L leaves a ha (L - ℓ) (by omega)
    have e : L - (L - ℓ) = ℓ := by omega
    rw [e] at this; exact this
  have mb : anc D L ℓ b ∈ specCells D L leaves ℓ := by
    have := anc_mem_specCells D L leaves b hb (L - ℓ) (by omega)
    have e : L - (L - ℓ) = ℓ := by omega
    rw [e] at this; exact this
  by_cases h0 : 1 ≤ ℓ
  · rw [if_pos ⟨h0, ma, mb⟩, shiftsAt_eq, sumOver_map]
    apply sumOver_congr
    intro K _
    simp only [Function.comp, TK, h0, true_and]
  · rw [if_neg (by rintro ⟨h, _⟩; exact h0 h)]
    symm
    apply sumOver_zero
    intro K _
    simp [TK, h0]

/-- **total of the transfers received along the ancestors of `a`**, periodic: one per non-adjacent image -/
theorem far_total_per (hu : u ≤ 1) :
    (if u ≤ L then AvalP D L u (fun ℓ => specCells D L leaves ℓ) b u (anc D L u a) +
        sumA D L a (AvalP D L u (fun ℓ => specCells D L leaves ℓ) b) u (L - u) else 0) =
      sumOver (unitShifts D) (fun K => if adjV (toI (decode D L a)) (vadd (toI (decode D L b)) (K.map (· * (2:Int)^L))) then 0 else 1) := by
  have hK : sumOver (unitShifts D) (fun K => if adjV (toI (decode D L a)) (vadd (toI (decode D L b)) (K.map (· * (2:Int)^L))) then 0 else 1) =
      sumOver (unitShifts D) (fun K => if u ≤ L then TK D L a b K u + sumLv (TK D L a b K) u (L - u) else 0) := by
    apply sumOver_congr
    intro K hK
    exact (TK_total D L u a b hu K hK).symm
  rw [hK]
  by_cases huL : u ≤ L
  · simp only [huL, if_true]
    rw [AvalP_anc D L u leaves a b ha hb u (Nat.le_refl _) huL, sumA_eq_sumLv,
      sumLv_congr _ (fun ℓ => sumOver (unitShifts D) (fun K => TK D L a b K ℓ)) u (L - u)
        (fun ℓ h1 h2 => AvalP_anc D L u leaves a b ha hb ℓ (by omega) (by omega)),
      sumLv_sumOver, ← sumOver_add]
  · simp only [huL, if_false]
    exact (sumOver_const_zero _).symm

end

end Tbfmm
