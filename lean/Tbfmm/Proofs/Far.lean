/-!: leaf-pair partition lemma (spec level) for any dimension -/
namespace Tbfmm.Far

/-- coordinates: lists of naturals of equal length (one entry per dimension) -/
abbrev Vec := List Nat

def adj1 (x y : Nat) : Prop := x ≤ y + 1 ∧ y ≤ x + 1
instance (x y : Nat) : Decidable (adj1 x y) := by unfold adj1; infer_instance

/-- adjacent or equal in every dimension -/
def adj : Vec → Vec → Prop
  | [], [] => True
  | x :: xs, y :: ys => adj1 x y ∧ adj xs ys
  | _, _ => False

instance : (a b : Vec) → Decidable (adj a b)
  | [], [] => isTrue trivial
  | x :: xs, y :: ys => by
      have := instDecidableAdj xs ys
      unfold adj; infer_instance
  | [], _ :: _ => isFalse (by simp [adj])
  | _ :: _, [] => isFalse (by simp [adj])

/-- ancestor `k` levels up -/
def up (k : Nat) (v : Vec) : Vec := v.map (· / 2^k)

theorem adj1_half {x y : Nat} (h : adj1 x y) : adj1 (x / 2) (y / 2) := by
  unfold adj1 at *; omega

theorem adj_up1 : ∀ {a b : Vec}, adj a b → adj (up 1 a) (up 1 b)
  | [], [], _ => by simp [up, adj]
  | x :: xs, y :: ys, h => by
      simp only [up, List.map_cons, adj, Nat.pow_one] at *
      exact ⟨adj1_half h.1, adj_up1 h.2⟩
  | [], _ :: _, h => by simp [adj] at h
  | _ :: _, [], h => by simp [adj] at h

theorem up_up (j k : Nat) (v : Vec) : up j (up k v) = up (k + j) v := by
  simp only [up, List.map_map]
  apply List.map_congr_left
  intro x _
  simp [Nat.div_div_eq_div_mul, Nat.pow_add]

theorem adj_up_succ {a b : Vec} (k : Nat) (h : adj (up k a) (up k b)) : adj (up (k+1) a) (up (k+1) b) := by
  have := adj_up1 h
  rwa [up_up, up_up] at this

/-- in a grid with 2 cells per dimension everything is adjacent -/
theorem adj_of_lt2 : ∀ {a b : Vec}, a.length = b.length → (∀ x ∈ a, x < 2) → (∀ y ∈ b, y < 2) → adj a b
  | [], [], _, _, _ => trivial
  | x :: xs, y :: ys, hl, ha, hb => by
      refine ⟨?_, adj_of_lt2 (by simpa using hl) (fun z hz => ha z (by simp [hz])) (fun z hz => hb z (by simp [hz]))⟩
      have := ha x (by simp); have := hb y (by simp)
      unfold adj1; omega
  | [], _ :: _, hl, _, _ => by simp at hl
  | _ :: _, [], hl, _, _ => by simp at hl

/-- the "interaction" predicate at `k` levels above the leaves: parents adjacent, cells not -/
def inter (k : Nat) (a b : Vec) : Prop := adj (up (k+1) a) (up (k+1) b) ∧ ¬ adj (up k a) (up k b)

/-- **partition lemma**: two leaves at depth `L` (coordinates `< 2^L`) that are not adjacent interact
    at exactly one height `k` with `k + 2 ≤ L` (i.e. at a level `L - k ≥ 2`); adjacent ones at none. -/
theorem far_unique (L : Nat) (a b : Vec) (hl : a.length = b.length)
    (ha : ∀ x ∈ a, x < 2^L) (hb : ∀ y ∈ b, y < 2^L) (hna : ¬ adj a b) :
    ∃ k, (k + 2 ≤ L ∧ inter k a b) ∧ ∀ k', inter k' a b → k' = k := by
  -- P j := adj at height j ; monotone in j ; false at 0 ; true at L-1 (level 1)
  have hup0 : ∀ v : Vec, up 0 v = v := by intro v; simp [up]
  have mono : ∀ j d, adj (up j a) (up j b) → adj (up (j + d) a) (up (j + d) b) := by
    intro j d h
    induction d with
    | zero => simpa using h
    | succ d ih => exact adj_up_succ (j + d) ih
  have hL1 : 1 ≤ L := by
    rcases Nat.eq_zero_or_pos L with h | h
    · exfalso; subst h
      apply hna
      apply adj_of_lt2 hl (fun x hx => by have := ha x hx; omega) (fun y hy => by have := hb y hy; omega)
    · exact h
  have htop : adj (up (L-1) a) (up (L-1) b) := by
    apply adj_of_lt2 (by simp [up, hl])
    · intro x hx
      simp only [up, List.mem_map] at hx
      obtain ⟨x0, hx0, rfl⟩ := hx
      have := ha x0 hx0
      rw [Nat.div_lt_iff_lt_mul (Nat.two_pow_pos _)]
      calc x0 < 2^L := this
        _ = 2 * 2^(L-1) := by rw [← Nat.pow_succ']; congr 1; omega
    · intro x hx
      simp only [up, List.mem_map] at hx
      obtain ⟨x0, hx0, rfl⟩ := hx
      have := hb x0 hx0
      rw [Nat.div_lt_iff_lt_mul (Nat.two_pow_pos _)]
      calc x0 < 2^L := this
        _ = 2 * 2^(L-1) := by rw [← Nat.pow_succ']; congr 1; omega
  -- first height at which they become adjacent
  have ex : ∀ g j, j + g = L - 1 → ¬ adj (up j a) (up j b) →
      ∃ k, j ≤ k ∧ k + 1 ≤ L - 1 ∧ inter k a b := by
    intro g
    induction g with
    | zero => intro j hj hn; exfalso; have : j = L - 1 := by omega
              subst this; exact hn htop
    | succ g ih =>
      intro j hj hn
      by_cases h1 : adj (up (j+1) a) (up (j+1) b)
      · exact ⟨j, Nat.le_refl _, by omega, h1, hn⟩
      · obtain ⟨k, h1', h2', h3'⟩ := ih (j+1) (by omega) h1
        exact ⟨k, by omega, h2', h3'⟩
  obtain ⟨k, _, hk2, hk3⟩ := ex (L-1) 0 (by omega) (by rw [hup0, hup0]; exact hna)
  refine ⟨k, ⟨by omega, hk3⟩, ?_⟩
  intro k' ⟨h1, h2⟩
  rcases Nat.lt_trichotomy k' k with h | h | h
  · exfalso
    have := mono (k'+1) (k - (k'+1)) h1
    rw [show k' + 1 + (k - (k' + 1)) = k by omega] at this
    exact hk3.2 this
  · exact h
  · exfalso
    have := mono (k+1) (k' - (k+1)) hk3.1
    rw [show k + 1 + (k' - (k + 1)) = k' by omega] at this
    exact h2 this

theorem near_none (a b : Vec) (h : adj a b) : ∀ k, ¬ inter k a b := by
  intro k ⟨_, h2⟩
  apply h2
  have mono : ∀ d, adj (up d a) (up d b) := by
    intro d
    induction d with
    | zero => simpa [up] using h
    | succ d ih => exact adj_up_succ d ih
  exact mono k

end Tbfmm.Far
