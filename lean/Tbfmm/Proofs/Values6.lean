import Tbfmm.Proofs.Values5
import Tbfmm.Proofs.TsmRefine
/-!
Per-phase facts about the calls of the sequential executor on a built tree: their form, and their
elementary interactions in terms of the specification's cells.
-/
namespace Tbfmm

theorem m2lLevel_form (D : Nat) (periodic : Bool) (ℓ : Nat) (gs : List Group) :
    ∀ c ∈ m2lLevel D periodic ℓ gs, ∃ lv t srcs, c = Call.m2l lv t srcs := by
  intro c hc
  unfold m2lLevel at hc
  rw [List.mem_flatMap] at hc
  obtain ⟨g, _, hc⟩ := hc
  simp only [List.mem_append, List.mem_flatMap] at hc
  rcases hc with ⟨p, _, hc⟩ | hc
  · obtain ⟨t, ss, rfl, _⟩ := m2lBetween_nonempty ℓ _ _ c hc
    exact ⟨ℓ, t, ss, rfl⟩
  · obtain ⟨t, ss, rfl, _⟩ := m2lInGroup_nonempty ℓ _ c hc
    exact ⟨ℓ, t, ss, rfl⟩

theorem p2pAll_form (D : Nat) (periodic : Bool) (H : Nat) (po : Nat → List Nat) (gs : List Group) :
    ∀ c ∈ p2pAll D periodic H gs, isResultCall po c := by
  intro c hc
  unfold p2pAll at hc
  rw [List.mem_flatMap] at hc
  obtain ⟨g, _, hc⟩ := hc
  simp only [List.mem_append, List.mem_flatMap, List.mem_map, List.mem_filterMap] at hc
  rcases hc with (⟨p, _, x, _, hx⟩ | ⟨x, _, rfl⟩) | ⟨l, _, rfl⟩
  · split at hx
    · injection hx with hx; subst hx; trivial
    · simp at hx
  · trivial
  · trivial

section
variable {D H : Nat} {T : Tree} {ls : List Leaf} (F : BuiltFacts D H T ls)
include F

theorem m2l_level_refines (periodic : Bool) (ℓ : Nat) (hℓ : ℓ < H) :
    ((m2lLevel D periodic ℓ (T.level ℓ)).flatMap elemsOfCall).Perm
      (specM2LLevel D periodic ℓ (specCells D (H-1) (ls.map (·.idx)) ℓ) (specCells D (H-1) (ls.map (·.idx)) ℓ)) := by
  refine (m2lLevel_elems D periodic ℓ (T.level ℓ) (F.inv ℓ hℓ)).trans ?_
  have hp : (presentFrom (T.level ℓ) 0) = fun x => (T.level ℓ).flatten.contains x.src := by
    funext x; exact presentFrom_zero _ x
  rw [hp]
  rw [perGroup_eq_perCell (fun c k => ilistCell D periodic ℓ c k) (fun s => (T.level ℓ).flatten.contains s) (elemM2L ℓ)
    (fun c k => ilistCell_tpos D periodic ℓ c k) (fun _ _ => rfl) (T.level ℓ)]
  rw [F.cells ℓ hℓ]
  exact m2l_level_char D periodic ℓ _ _ (cell_bound D (H-1) ℓ (by omega) _ F.bound)
    ((sortDedup_sorted _).imp (fun h => Nat.ne_of_lt h))

theorem m2m_level_elems (ℓ : Nat) (hℓ : ℓ + 1 < H) :
    (m2mLevel D ℓ (T.level ℓ) (T.level (ℓ+1))).flatMap elemsOfCall =
      (specCells D (H-1) (ls.map (·.idx)) (ℓ+1)).map fun c => Elem.m2m ℓ (parent D c) c (childCode D c) := by
  rw [m2mLevel_elems, F.links ℓ hℓ, F.cells (ℓ+1) hℓ, List.map_map]
  rfl

theorem l2l_level_elems (ℓ : Nat) (hℓ : ℓ + 1 < H) :
    (l2lLevel D ℓ (T.level ℓ) (T.level (ℓ+1))).flatMap elemsOfCall =
      (specCells D (H-1) (ls.map (·.idx)) (ℓ+1)).map fun c => Elem.l2l ℓ (parent D c) c (childCode D c) := by
  rw [l2lLevel_elems, F.links ℓ hℓ, F.cells (ℓ+1) hℓ, List.map_map]
  rfl

theorem p2p_refines (hH : 1 ≤ H) :
    ((p2pAll D false H T.leafGroups).flatMap elemsOfCall).Perm
      (specP2P D false (H-1) (ls.map (·.idx)) ++ (ls.map (·.idx)).map Elem.p2pInner) := by
  rw [F.last]
  refine (p2pAll_elems D false H (T.level (H-1)) (F.inv (H-1) (by omega))).trans ?_
  refine (flatMap_append_perm _ _ _).trans ?_
  have c0 : specCells D (H-1) (ls.map (·.idx)) (H-1) = ls.map (·.idx) := by
    unfold specCells
    simp only [Nat.sub_self, Nat.mul_zero, Nat.pow_zero, Nat.div_one, List.map_id']
    exact sortDedup_of_sorted _ F.sorted
  apply List.Perm.append
  · have hp : (presentFrom (T.level (H-1)) 0) = fun x => (T.level (H-1)).flatten.contains x.src := by
      funext x; exact presentFrom_zero _ x
    rw [hp]
    have := perGroup_eq_perCell (fun c k => nlistCell D false (H-1) c k true) (fun s => (T.level (H-1)).flatten.contains s) elemP2P
      (fun c k => nlistCell_tpos D false (H-1) c k true) (fun _ _ => rfl) (T.level (H-1))
    simp only [List.map_flatMap] at this ⊢
    rw [this, ← List.map_flatMap, F.cells (H-1) (by omega), c0]
    exact p2p_level_char D false (H-1) _ F.bound (F.sorted.imp (fun h => Nat.ne_of_lt h))
  · apply List.Perm.of_eq
    rw [← c0, ← F.cells (H-1) (by omega)]
    generalize T.level (H-1) = gs
    induction gs with
    | nil => rfl
    | cons g gs ih => simp only [List.flatMap_cons, List.flatten_cons, List.map_append, ih]

end

end Tbfmm
