import Tbfmm.Model.Morton
/-! Position codes: base-7 (transfer) and base-3 (direct) encode/decode are inverse (C02, C11) -/
namespace Tbfmm

/-- generic base-`B` code with offset `o` (`B = 7, o = 3` and `B = 3, o = 1`) -/
def codeB (B : Nat) (o : Int) (v : List Int) : Int := v.foldl (fun acc x => acc * B + (x + o)) 0

theorem codeB_append (B : Nat) (o : Int) (v : List Int) (x : Int) (a : Int) :
    (v ++ [x]).foldl (fun acc y => acc * B + (y + o)) a = (v.foldl (fun acc y => acc * B + (y + o)) a) * B + (x + o) := by
  simp [List.foldl_append]

theorem code7_eq (v : List Int) : code7 v = (codeB 7 3 v).toNat := rfl
theorem code3_eq (v : List Int) : code3 v = (codeB 3 1 v).toNat := rfl

theorem codeB_range (B : Nat) (o : Int) (hB : 0 < B) (v : List Int) (hv : ∀ x ∈ v, 0 ≤ x + o ∧ x + o < B) :
    0 ≤ codeB B o v ∧ codeB B o v < (B : Int) ^ v.length := by
  induction v using List.reverseRecOn' with
  | nil => simp [codeB]
  | snoc v x ih =>
    have hx := hv x (by simp)
    obtain ⟨h0, h1⟩ := ih (fun y hy => hv y (by simp [hy]))
    unfold codeB at *
    rw [codeB_append]
    simp only [List.length_append, List.length_singleton, Int.pow_succ]
    constructor
    · have : 0 ≤ List.foldl (fun acc y => acc * ↑B + (y + o)) 0 v * (B : Int) := Int.mul_nonneg h0 (by omega)
      omega
    · have hB' : (0 : Int) < B := by omega
      have : List.foldl (fun acc y => acc * ↑B + (y + o)) 0 v * (B : Int) + (B : Int) ≤ (B : Int) ^ v.length * B := by
        have := Int.mul_le_mul_of_nonneg_right (show List.foldl (fun acc y => acc * ↑B + (y + o)) 0 v + 1 ≤ (B : Int) ^ v.length by omega) (Int.le_of_lt hB')
        rw [Int.add_mul] at this
        omega
      omega
where
  List.reverseRecOn' {α} {motive : List α → Prop} (l : List α) (nil : motive []) (snoc : ∀ l a, motive l → motive (l ++ [a])) : motive l := by
    have : ∀ n (l : List α), l.length = n → motive l := by
      intro n
      induction n with
      | zero => intro l h; have : l = [] := List.eq_nil_of_length_eq_zero h
                subst this; exact nil
      | succ n ih =>
        intro l h
        have hne : l ≠ [] := by intro e; subst e; simp at h
        have := List.dropLast_concat_getLast hne
        rw [← this]
        exact snoc _ _ (ih _ (by simp [List.length_dropLast, h]))
    exact this _ l rfl

/-- decode of a base-`B` code, least significant digit last -/
def decodeB (B : Nat) (o : Int) : (D : Nat) → Nat → List Int
  | 0, _ => []
  | D+1, c => decodeB B o D (c / B) ++ [((c % B : Nat) : Int) - o]

theorem decode7_eq (D c : Nat) : decode7 D c = decodeB 7 3 D c := by
  induction D generalizing c with
  | zero => rfl
  | succ D ih => simp [decode7, decodeB, ih]

theorem decode3_eq (D c : Nat) : decode3 D c = decodeB 3 1 D c := by
  induction D generalizing c with
  | zero => rfl
  | succ D ih => simp [decode3, decodeB, ih]

/-- **decode ∘ encode = id** on offset vectors whose entries are in range -/
theorem decodeB_codeB (B : Nat) (o : Int) (hB : 0 < B) (v : List Int) (hv : ∀ x ∈ v, 0 ≤ x + o ∧ x + o < B) :
    decodeB B o v.length (codeB B o v).toNat = v := by
  have gen : ∀ n (v : List Int), v.length = n → (∀ x ∈ v, 0 ≤ x + o ∧ x + o < B) → decodeB B o n (codeB B o v).toNat = v := by
    intro n
    induction n with
    | zero => intro v h _; have : v = [] := List.eq_nil_of_length_eq_zero h
              subst this; rfl
    | succ n ih =>
      intro v h hv
      have hne : v ≠ [] := by intro e; subst e; simp at h
      have hsplit := List.dropLast_concat_getLast hne
      generalize hd : v.dropLast = d at *
      generalize hl : v.getLast hne = x at *
      subst hsplit
      have hx := hv x (by simp)
      have hdv : ∀ y ∈ d, 0 ≤ y + o ∧ y + o < B := fun y hy => hv y (by simp [hy])
      have hdlen : d.length = n := by simp at h; omega
      obtain ⟨r0, _⟩ := codeB_range B o hB d hdv
      have hc : codeB B o (d ++ [x]) = codeB B o d * B + (x + o) := by unfold codeB; rw [codeB_append]
      simp only [decodeB, hc]
      have hnn : 0 ≤ codeB B o d * (B : Int) + (x + o) := by
        have : 0 ≤ codeB B o d * (B : Int) := Int.mul_nonneg r0 (by omega)
        omega
      have hB' : (B : Int) ≠ 0 := by omega
      have hdiv : (codeB B o d * (B : Int) + (x + o)).toNat / B = (codeB B o d).toNat := by
        apply Int.ofNat.inj
        simp only [Int.ofNat_eq_natCast, Int.natCast_ediv, Int.toNat_of_nonneg hnn, Int.toNat_of_nonneg r0]
        rw [Int.add_comm, Int.add_mul_ediv_right _ _ hB', Int.ediv_eq_zero_of_lt hx.1 hx.2]; simp
      have hmod : (((codeB B o d * (B : Int) + (x + o)).toNat % B : Nat) : Int) = x + o := by
        simp only [Int.natCast_emod, Int.toNat_of_nonneg hnn]
        rw [Int.add_comm, Int.add_mul_emod_self_right, Int.emod_eq_of_lt hx.1 hx.2]
      rw [hdiv, hmod, ih d hdlen hdv]
      simp
  exact gen v.length v rfl hv

/-- C02/C11: the base-7 position code of a transfer decodes to the relative offset it was built from -/
theorem decode7_code7 (v : List Int) (hv : ∀ x ∈ v, -3 ≤ x ∧ x ≤ 3) : decode7 v.length (code7 v) = v := by
  rw [decode7_eq, code7_eq]
  exact decodeB_codeB 7 3 (by omega) v (fun x hx => by have := hv x hx; omega)

/-- C02/C11: the base-3 position code of a direct interaction decodes to the relative offset -/
theorem decode3_code3 (v : List Int) (hv : ∀ x ∈ v, -1 ≤ x ∧ x ≤ 1) : decode3 v.length (code3 v) = v := by
  rw [decode3_eq, code3_eq]
  exact decodeB_codeB 3 1 (by omega) v (fun x hx => by have := hv x hx; omega)

/-- the codes stay below `7^D` / `3^D` (the library's `assert(arrayPos < lipow(7, Dim))`) -/
theorem code7_lt (v : List Int) (hv : ∀ x ∈ v, -3 ≤ x ∧ x ≤ 3) : (code7 v : Int) < 7 ^ v.length := by
  rw [code7_eq]
  obtain ⟨h0, h1⟩ := codeB_range 7 3 (by omega) v (fun x hx => by have := hv x hx; omega)
  rw [Int.toNat_of_nonneg h0]; exact_mod_cast h1

example : decode7 3 (code7 [2, -3, 0]) = [2, -3, 0] := by decide

end Tbfmm
