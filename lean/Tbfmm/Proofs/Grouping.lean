import Tbfmm.Proofs.LevelsPerGroup
import Tbfmm.Proofs.P2PRefine
/-!
Grouping independence (C08, and the refinement half of C01): the multiset of elementary interactions
performed by the sequential executor on a built tree is a function of the cells of each level only —
and those are a function of the occupied leaves only, not of the block size or the grouping mode.
-/
namespace Tbfmm

/-- cells of the levels above a sorted leaf list: `k` times "parents with consecutive duplicates removed" -/
def cellsUp (D : Nat) : Nat → List Nat → List Nat
  | 0, cs => cs
  | k+1, cs => cellsUp D k (keys (runsOf (parent D) cs))

/-- grouping-free description of what the executor does at the level of cells -/
def cellElems (D : Nat) (periodic : Bool) (H : Nat) (leaves : List Leaf) (cellsAt : Nat → List Nat) (flags upper : Nat) : List Elem :=
  (if hasFlag flags flagP2M && decide (H > upper) then leaves.map fun l => Elem.p2m l.idx l.parts.length else []) ++
  (if hasFlag flags flagM2M then (midLevels H upper).reverse.flatMap fun l => (cellsAt (l+1)).map fun c => Elem.m2m l (parent D c) c (childCode D c) else []) ++
  (if hasFlag flags flagM2L then (m2lLevels H upper).flatMap fun l =>
      ((cellsAt l).flatMap fun c => (ilistCell D periodic l c 0).filter fun x => (cellsAt l).contains x.src).map (elemM2L l) else []) ++
  (if hasFlag flags flagL2L then (midLevels H upper).flatMap fun l => (cellsAt (l+1)).map fun c => Elem.l2l l (parent D c) c (childCode D c) else []) ++
  (if hasFlag flags flagL2P && decide (H > upper) then leaves.map fun l => Elem.l2p l.idx l.parts.length else []) ++
  (if hasFlag flags flagP2P then
      (((cellsAt (H-1)).flatMap fun c => (nlistCell D periodic (H-1) c 0 true).filter fun x => (cellsAt (H-1)).contains x.src).map elemP2P) ++
        (cellsAt (H-1)).map Elem.p2pInner else [])

end Tbfmm

namespace Tbfmm

theorem map_ite_none_some {α β} (g : α → β) (c : Prop) [Decidable c] (r : α) :
    Option.map g (if c then none else some r) = if c then none else some (g r) := by split <;> rfl

theorem map_ite_none_ite {α β} (g : α → β) (c d : Prop) [Decidable c] [Decidable d] (r : α) :
    Option.map g (if c then none else if d then some r else none) = if c then none else if d then some (g r) else none := by
  split
  · rfl
  · split <;> rfl

theorem ilistCell_tpos (D : Nat) (periodic : Bool) (level c k : Nat) :
    ilistCell D periodic level c k = (ilistCell D periodic level c 0).map fun x => { x with tpos := k } := by
  unfold ilistCell
  split
  · rfl
  · simp only [List.map_flatMap, List.map_filterMap]
    congr 1
    funext off
    congr 1
    funext ch
    rw [map_ite_none_some]

theorem nlistCell_tpos (D : Nat) (periodic : Bool) (level c k : Nat) (ue : Bool) :
    nlistCell D periodic level c k ue = (nlistCell D periodic level c 0 ue).map fun x => { x with tpos := k } := by
  unfold nlistCell
  simp only [List.map_filterMap]
  congr 1
  funext off
  rw [map_ite_none_ite]

theorem presentFrom_zero (gs : List Group) (x : Inter) : presentFrom gs 0 x = gs.flatten.contains x.src := by
  cases h : gs.flatten.contains x.src with
  | true =>
    have hm : x.src ∈ gs.flatten := by simpa using h
    obtain ⟨g, hg, hx⟩ := List.mem_flatten.mp hm
    obtain ⟨j, hj, rfl⟩ := List.getElem_of_mem hg
    exact (presentFrom_iff gs 0 x).mpr ⟨j, by omega, hj, by simpa [List.getD_eq_getElem?_getD, List.getElem?_eq_getElem hj] using hx⟩
  | false =>
    cases hp : presentFrom gs 0 x with
    | false => rfl
    | true =>
      exfalso
      obtain ⟨j, _, hj, hx⟩ := (presentFrom_iff gs 0 x).mp hp
      have : x.src ∈ gs.flatten := List.mem_flatten.mpr ⟨gs.getD j [], by
        simp only [List.getD_eq_getElem?_getD, List.getElem?_eq_getElem hj, Option.getD_some]; exact List.getElem_mem hj, hx⟩
      have := List.contains_iff_mem.mpr this
      rw [this] at h; exact absurd h (by simp)

/-- a per-cell list builder `f c k` whose position argument only fills the `tpos` field, filtered by a
    predicate on the source and mapped through a function that ignores `tpos`, does not see the grouping -/
theorem perGroup_eq_perCell {β} (f : Nat → Nat → List Inter) (P : Nat → Bool) (e : Inter → β)
    (hf : ∀ c k, f c k = (f c 0).map fun x => { x with tpos := k }) (he : ∀ x k, e { x with tpos := k } = e x)
    (gs : List Group) :
    (gs.flatMap fun g => ((g.zipIdx).flatMap fun (c, k) => f c k).filter fun x => P x.src).map e =
      (gs.flatten.flatMap fun c => (f c 0).filter fun x => P x.src).map e := by
  have one : ∀ (g : Group) (s : Nat), (((g.zipIdx s).flatMap fun (c, k) => f c k).filter fun x => P x.src).map e =
      (g.flatMap fun c => (f c 0).filter fun x => P x.src).map e := by
    intro g
    induction g with
    | nil => intro s; rfl
    | cons c g ih =>
      intro s
      simp only [List.zipIdx_cons, List.flatMap_cons, List.filter_append, List.map_append, ih (s + 1)]
      congr 1
      rw [hf c s]
      simp only [List.filter_map, List.map_map]
      apply List.map_congr_left
      intro x _
      exact he x s
  induction gs with
  | nil => rfl
  | cons g gs ih =>
    simp only [List.flatMap_cons, List.flatten_cons, List.flatMap_append, List.map_append]
    rw [one g 0, ih]

theorem m2mLevel_elems (D level : Nat) (up lo : List Group) :
    (m2mLevel D level up lo).flatMap elemsOfCall = (linksOf (calls (parent D) up lo)).map fun pc => Elem.m2m level pc.1 pc.2 (childCode D pc.2) := by
  unfold m2mLevel linksOf
  generalize calls (parent D) up lo = rs
  induction rs with
  | nil => rfl
  | cons r rs ih =>
    simp only [List.map_cons, List.flatMap_cons, List.map_append, ih, elemsOfCall, List.map_map]
    rfl

theorem l2lLevel_elems (D level : Nat) (up lo : List Group) :
    (l2lLevel D level up lo).flatMap elemsOfCall = (linksOf (calls (parent D) up lo)).map fun pc => Elem.l2l level pc.1 pc.2 (childCode D pc.2) := by
  unfold l2lLevel linksOf
  generalize calls (parent D) up lo = rs
  induction rs with
  | nil => rfl
  | cons r rs ih =>
    simp only [List.map_cons, List.flatMap_cons, List.map_append, ih, elemsOfCall, List.map_map]
    rfl

theorem flatMap_perm_of_forall {α β} (l : List α) (f g : α → List β) (h : ∀ a ∈ l, (f a).Perm (g a)) : (l.flatMap f).Perm (l.flatMap g) := by
  induction l with
  | nil => simp
  | cons a l ih =>
    simp only [List.flatMap_cons]
    exact List.Perm.append (h a (by simp)) (ih (fun b hb => h b (by simp [hb])))

end Tbfmm

namespace Tbfmm

theorem build_levels_eq (D H bs : Nat) (mode : Bool) (leafIdx : List Nat) (hne : leafIdx ≠ []) :
    (Tree.build D H bs mode leafIdx).levels = buildLevels D bs mode (H - 1) (Tree.build D H bs mode leafIdx).leafGroups ∧
    (Tree.build D H bs mode leafIdx).H = H ∧ (Tree.build D H bs mode leafIdx).D = D := by
  simp only [Tree.build]
  have : ¬ leafIdx.isEmpty = true := by simpa using hne
  simp [this, Tree.leafGroups]

theorem build_leafGroups_ne (D H bs : Nat) (mode : Bool) (leafIdx : List Nat) (hbs : 0 < bs) (hne : leafIdx ≠ []) :
    (Tree.build D H bs mode leafIdx).leafGroups ≠ [] := by
  intro he
  have hst := C06_stored_perm D H bs mode leafIdx hbs
  have hlen := hst.length_eq
  simp only [Tree.stored, List.length_zipIdx] at hlen
  have : (Tree.build D H bs mode leafIdx).pgroups = [] := by simpa [Tree.leafGroups] using he
  rw [this] at hlen
  simp at hlen
  exact hne (List.eq_nil_of_length_eq_zero hlen.symm)

theorem built_level_last (D H bs : Nat) (mode : Bool) (leafIdx : List Nat) (hbs : 0 < bs) (hne : leafIdx ≠ []) :
    (Tree.build D H bs mode leafIdx).level (H - 1) = (Tree.build D H bs mode leafIdx).leafGroups := by
  have hleaf := C07_leaf_groups D H bs mode leafIdx hbs
  obtain ⟨h1, h2, _⟩ := buildLevels_inv D bs mode hbs (H - 1) _ (fun g hg => (hleaf.2 g hg).1) hleaf.1
  have e := getD_of_getLast? _ _ ([] : List Group) h2
  rw [h1] at e
  simp only [Nat.add_sub_cancel] at e
  simp only [Tree.level, (build_levels_eq D H bs mode leafIdx hne).1]
  exact e

theorem built_groupsInv (D H bs : Nat) (mode : Bool) (leafIdx : List Nat) (hbs : 0 < bs) (hne : leafIdx ≠ []) (l : Nat) (hl : l < H) :
    GroupsInv ((Tree.build D H bs mode leafIdx).level l) := by
  have hleaf := C07_leaf_groups D H bs mode leafIdx hbs
  by_cases hlast : l + 1 < H
  · obtain ⟨h1, _, h3⟩ := buildLevels_inv D bs mode hbs (H - 1) _ (fun g hg => (hleaf.2 g hg).1) hleaf.1
    have inv := h3 l (by rw [h1]; omega)
    simp only [Tree.level, (build_levels_eq D H bs mode leafIdx hne).1]
    exact ⟨inv.up_ne, inv.sorted⟩
  · have : l = H - 1 := by omega
    subst this
    rw [built_level_last D H bs mode leafIdx hbs hne]
    exact ⟨fun g hg => (hleaf.2 g hg).1, hleaf.1⟩

theorem flatMap_append_perm {α β} (l : List α) (f g : α → List β) :
    (l.flatMap fun a => f a ++ g a).Perm (l.flatMap f ++ l.flatMap g) := by
  induction l with
  | nil => simp
  | cons a l ih =>
    simp only [List.flatMap_cons]
    have : (f a ++ g a ++ List.flatMap (fun a => f a ++ g a) l).Perm (f a ++ g a ++ (List.flatMap f l ++ List.flatMap g l)) :=
      List.Perm.append_left _ ih
    refine this.trans ?_
    simp only [List.append_assoc]
    apply List.Perm.append_left
    rw [← List.append_assoc, ← List.append_assoc]
    exact List.Perm.append_right _ List.perm_append_comm

/-- **refinement of the sequential executor to the level of cells**, for trees built with any block
    size and either grouping mode: the multiset of elementary interactions of `execute(flags)` is the
    grouping-free expression `cellElems` of the leaves and of the cells of each level -/
theorem exec_refines_cells (D H bs : Nat) (mode : Bool) (leafIdx : List Nat) (periodic : Bool) (flags upper : Nat)
    (hbs : 0 < bs) (hne : leafIdx ≠ []) (hH : 1 ≤ H) :
    ((executeSeq (Tree.build D H bs mode leafIdx) periodic flags upper).flatMap elemsOfCall).Perm
      (cellElems D periodic H (Tree.build D H bs mode leafIdx).pgroups.flatten (fun l => ((Tree.build D H bs mode leafIdx).level l).flatten) flags upper) := by
  obtain ⟨_, hH', hD'⟩ := build_levels_eq D H bs mode leafIdx hne
  generalize ht : Tree.build D H bs mode leafIdx = t at *
  unfold executeSeq cellElems
  simp only [List.flatMap_append]
  have leafElems : ∀ (mk : Nat → List Nat → Call) (me : Nat → Nat → Elem) (hmk : ∀ i ps, elemsOfCall (mk i ps) = [me i ps.length]),
      (t.pgroups.flatMap fun g => g.map fun l => mk l.idx l.parts).flatMap elemsOfCall = t.pgroups.flatten.map fun l => me l.idx l.parts.length := by
    intro mk me hmk
    generalize t.pgroups = pg
    induction pg with
    | nil => rfl
    | cons g pg ih =>
      simp only [List.flatMap_cons, List.flatMap_append, List.flatten_cons, List.map_append, ih]
      congr 1
      induction g with
      | nil => rfl
      | cons l g ihg => simp only [List.map_cons, List.flatMap_cons, hmk, ihg]; rfl
  refine List.Perm.append (List.Perm.append (List.Perm.append (List.Perm.append (List.Perm.append ?_ ?_) ?_) ?_) ?_) ?_
  · -- P2M
    by_cases hf : hasFlag flags flagP2M = true
    · simp only [hf, if_true, Bool.true_and, p2mAll, hH', decide_eq_true_eq]
      by_cases hu : H > upper
      · simp only [hu, if_true]
        rw [leafElems Call.p2m Elem.p2m (fun _ _ => rfl)]
      · simp [hu]
    · simp [hf]
  · -- M2M
    by_cases hf : hasFlag flags flagM2M = true
    · simp only [hf, if_true, m2mAll, hH', hD']
      simp only [List.flatMap_assoc]
      apply flatMap_perm_of_forall
      intro l hl
      apply List.Perm.of_eq
      have hl2 : l + 2 ≤ H := by
        simp only [List.mem_reverse, midLevels, List.mem_filter, List.mem_range, decide_eq_true_eq] at hl; omega
      rw [m2mLevel_elems, ← ht, C01_links_of_built_tree' D H bs mode leafIdx hbs hne l (by omega), List.map_map]
      rfl
    · simp [hf]
  · -- M2L
    by_cases hf : hasFlag flags flagM2L = true
    · simp only [hf, if_true, m2lAll, hH', hD']
      simp only [List.flatMap_assoc]
      apply flatMap_perm_of_forall
      intro l hl
      have hlH : l < H := by
        simp only [m2lLevels, List.mem_filter, List.mem_range] at hl; exact hl.1
      have inv : GroupsInv (t.level l) := by rw [← ht]; exact built_groupsInv D H bs mode leafIdx hbs hne l hlH
      refine (m2lLevel_elems D periodic l (t.level l) inv).trans (List.Perm.of_eq ?_)
      have hp : (presentFrom (t.level l) 0) = fun x => (t.level l).flatten.contains x.src := by
        funext x; exact presentFrom_zero _ x
      rw [hp]
      exact perGroup_eq_perCell (fun c k => ilistCell D periodic l c k) (fun s => (t.level l).flatten.contains s) (elemM2L l)
        (fun c k => ilistCell_tpos D periodic l c k) (fun _ _ => rfl) (t.level l)
    · simp [hf]
  · -- L2L
    by_cases hf : hasFlag flags flagL2L = true
    · simp only [hf, if_true, l2lAll, hH', hD']
      simp only [List.flatMap_assoc]
      apply flatMap_perm_of_forall
      intro l hl
      apply List.Perm.of_eq
      have hl2 : l + 2 ≤ H := by
        simp only [midLevels, List.mem_filter, List.mem_range, decide_eq_true_eq] at hl; omega
      rw [l2lLevel_elems, ← ht, C01_links_of_built_tree' D H bs mode leafIdx hbs hne l (by omega), List.map_map]
      rfl
    · simp [hf]
  · -- L2P
    by_cases hf : hasFlag flags flagL2P = true
    · simp only [hf, if_true, Bool.true_and, l2pAll, hH', decide_eq_true_eq]
      by_cases hu : H > upper
      · simp only [hu, if_true]
        rw [leafElems Call.l2p Elem.l2p (fun _ _ => rfl)]
      · simp [hu]
    · simp [hf]
  · -- P2P
    by_cases hf : hasFlag flags flagP2P = true
    · simp only [hf, if_true, hH', hD']
      have hlast : t.leafGroups = t.level (H - 1) := by rw [← ht]; exact (built_level_last D H bs mode leafIdx hbs hne).symm
      have inv : GroupsInv (t.level (H - 1)) := by rw [← ht]; exact built_groupsInv D H bs mode leafIdx hbs hne (H - 1) (by omega)
      rw [hlast]
      refine (p2pAll_elems D periodic H (t.level (H - 1)) inv).trans ?_
      refine (flatMap_append_perm _ _ _).trans ?_
      apply List.Perm.append
      · apply List.Perm.of_eq
        have hp : (presentFrom (t.level (H - 1)) 0) = fun x => (t.level (H - 1)).flatten.contains x.src := by
          funext x; exact presentFrom_zero _ x
        rw [hp]
        have := perGroup_eq_perCell (fun c k => nlistCell D periodic (H - 1) c k true) (fun s => (t.level (H - 1)).flatten.contains s) elemP2P
          (fun c k => nlistCell_tpos D periodic (H - 1) c k true) (fun _ _ => rfl) (t.level (H - 1))
        simp only [List.map_flatMap] at this ⊢
        exact this
      · apply List.Perm.of_eq
        generalize t.level (H - 1) = gs
        induction gs with
        | nil => rfl
        | cons g gs ih => simp only [List.flatMap_cons, List.flatten_cons, List.map_append, ih]
    · simp [hf]

end Tbfmm

namespace Tbfmm

theorem build_pgroups_flatten (D H bs : Nat) (mode : Bool) (leafIdx : List Nat) (hbs : 0 < bs) (hne : leafIdx ≠ []) :
    (Tree.build D H bs mode leafIdx).pgroups.flatten = leavesOf (sortPairs leafIdx.zipIdx) := by
  simp only [Tree.build]
  have : ¬ leafIdx.isEmpty = true := by simpa using hne
  simp only [this, Bool.false_eq_true, if_false]
  exact (splitEvery_spec bs hbs _ _ (Nat.le_refl _)).1

theorem build_leafGroups_flatten (D H bs : Nat) (mode : Bool) (leafIdx : List Nat) (hbs : 0 < bs) (hne : leafIdx ≠ []) :
    (Tree.build D H bs mode leafIdx).leafGroups.flatten = (leavesOf (sortPairs leafIdx.zipIdx)).map (·.idx) := by
  rw [← build_pgroups_flatten D H bs mode leafIdx hbs hne]
  simp only [Tree.leafGroups]
  generalize (Tree.build D H bs mode leafIdx).pgroups = pg
  induction pg with
  | nil => rfl
  | cons g pg ih => simp only [List.map_cons, List.flatten_cons, List.map_append, ih]

/-- the cells of every level of a built tree are determined by the occupied leaves alone -/
theorem built_level_cells (D H bs : Nat) (mode : Bool) (leafIdx : List Nat) (hbs : 0 < bs) (hne : leafIdx ≠ []) (k : Nat) (hk : k < H) :
    ((Tree.build D H bs mode leafIdx).level (H - 1 - k)).flatten = cellsUp D k ((leavesOf (sortPairs leafIdx.zipIdx)).map (·.idx)) := by
  have hleaf := C07_leaf_groups D H bs mode leafIdx hbs
  obtain ⟨h1, _, h3⟩ := buildLevels_inv D bs mode hbs (H - 1) _ (fun g hg => (hleaf.2 g hg).1) hleaf.1
  have gen : ∀ k, k < H → ∀ cs, ((Tree.build D H bs mode leafIdx).level (H - 1)).flatten = cs →
      ((Tree.build D H bs mode leafIdx).level (H - 1 - k)).flatten = cellsUp D k cs := by
    intro k
    induction k with
    | zero => intro _ cs h; simpa [cellsUp] using h
    | succ k ih =>
      intro hk cs h
      have inv := h3 (H - 1 - (k + 1)) (by rw [h1]; omega)
      have e : H - 1 - (k + 1) + 1 = H - 1 - k := by omega
      rw [e] at inv
      have hp := inv.parents
      have ih' := ih (by omega) cs h
      simp only [Tree.level, (build_levels_eq D H bs mode leafIdx hne).1] at ih' ⊢
      rw [hp, ih']
      -- cellsUp (k+1) cs = keys (runsOf (cellsUp k cs)) : shift the recursion
      have shift : ∀ (j : Nat) (xs : List Nat), keys (runsOf (parent D) (cellsUp D j xs)) = cellsUp D (j + 1) xs := by
        intro j
        induction j with
        | zero => intro xs; rfl
        | succ j ihj => intro xs; simp only [cellsUp]; exact ihj _
      exact shift k cs
  apply gen k hk
  rw [built_level_last D H bs mode leafIdx hbs hne]
  exact build_leafGroups_flatten D H bs mode leafIdx hbs hne

theorem cellElems_congr (D : Nat) (periodic : Bool) (H : Nat) (leaves : List Leaf) (c1 c2 : Nat → List Nat) (flags upper : Nat)
    (h : ∀ l, l < H → c1 l = c2 l) (hH : 1 ≤ H) : cellElems D periodic H leaves c1 flags upper = cellElems D periodic H leaves c2 flags upper := by
  unfold cellElems
  have hm : ∀ l ∈ midLevels H upper, c1 (l + 1) = c2 (l + 1) := by
    intro l hl
    simp only [midLevels, List.mem_filter, List.mem_range, decide_eq_true_eq] at hl
    exact h _ (by omega)
  have hl : ∀ l ∈ m2lLevels H upper, c1 l = c2 l := by
    intro l hl
    simp only [m2lLevels, List.mem_filter, List.mem_range, decide_eq_true_eq] at hl
    exact h _ hl.1
  have hlast := h (H - 1) (by omega)
  have e1 : ((midLevels H upper).reverse.flatMap fun l => (c1 (l+1)).map fun c => Elem.m2m l (parent D c) c (childCode D c)) =
      ((midLevels H upper).reverse.flatMap fun l => (c2 (l+1)).map fun c => Elem.m2m l (parent D c) c (childCode D c)) := by
    apply List.flatMap_congr_left'
    intro l hl'; rw [hm l (by simpa using hl')]
  have e2 : ((midLevels H upper).flatMap fun l => (c1 (l+1)).map fun c => Elem.l2l l (parent D c) c (childCode D c)) =
      ((midLevels H upper).flatMap fun l => (c2 (l+1)).map fun c => Elem.l2l l (parent D c) c (childCode D c)) := by
    apply List.flatMap_congr_left'
    intro l hl'; rw [hm l hl']
  have e3 : ((m2lLevels H upper).flatMap fun l => ((c1 l).flatMap fun c => (ilistCell D periodic l c 0).filter fun x => (c1 l).contains x.src).map (elemM2L l)) =
      ((m2lLevels H upper).flatMap fun l => ((c2 l).flatMap fun c => (ilistCell D periodic l c 0).filter fun x => (c2 l).contains x.src).map (elemM2L l)) := by
    apply List.flatMap_congr_left'
    intro l hl'; rw [hl l hl']
  rw [e1, e2, e3, hlast]
where
  List.flatMap_congr_left' {α β} {l : List α} {f g : α → List β} (h : ∀ a ∈ l, f a = g a) : l.flatMap f = l.flatMap g := by
    induction l with
    | nil => rfl
    | cons a l ih =>
      rw [List.flatMap_cons, List.flatMap_cons, h a (by simp), ih (fun b hb => h b (by simp [hb]))]

/-- **C08**: two trees built from the same particles with any two block sizes and grouping modes make the
    sequential executor perform the same multiset of elementary interactions (operator, level, target,
    source, position code), for every flag set and upper working level -/
theorem C08_grouping_independent (D H : Nat) (leafIdx : List Nat) (periodic : Bool) (flags upper : Nat)
    (bs1 bs2 : Nat) (mode1 mode2 : Bool) (h1 : 0 < bs1) (h2 : 0 < bs2) (hne : leafIdx ≠ []) (hH : 1 ≤ H) :
    ((executeSeq (Tree.build D H bs1 mode1 leafIdx) periodic flags upper).flatMap elemsOfCall).Perm
      ((executeSeq (Tree.build D H bs2 mode2 leafIdx) periodic flags upper).flatMap elemsOfCall) := by
  have r1 := exec_refines_cells D H bs1 mode1 leafIdx periodic flags upper h1 hne hH
  have r2 := exec_refines_cells D H bs2 mode2 leafIdx periodic flags upper h2 hne hH
  refine r1.trans (List.Perm.trans (List.Perm.of_eq ?_) r2.symm)
  rw [build_pgroups_flatten D H bs1 mode1 leafIdx h1 hne, build_pgroups_flatten D H bs2 mode2 leafIdx h2 hne]
  apply cellElems_congr _ _ _ _ _ _ _ _ _ hH
  intro l hl
  have e : l = H - 1 - (H - 1 - l) := by omega
  rw [e, built_level_cells D H bs1 mode1 leafIdx h1 hne (H - 1 - l) (by omega), built_level_cells D H bs2 mode2 leafIdx h2 hne (H - 1 - l) (by omega)]

end Tbfmm
