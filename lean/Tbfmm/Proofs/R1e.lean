import Tbfmm.Proofs.R1d
/-! R1, part e: sortedness helpers, walk equations -/
namespace Tbfmm

variable (par : Nat → Nat)

theorem le_lastD_of_sorted (l : List Nat) (hs : l.Pairwise (· < ·)) : ∀ x ∈ l, x ≤ lastD l := by
  induction l with
  | nil => intro x hx; simp at hx
  | cons a l ih =>
    intro x hx
    cases l with
    | nil => simp at hx; subst hx; simp [lastD]
    | cons b l =>
      simp only [lastD]
      have hs' := (List.pairwise_cons.mp hs)
      have ihx := ih hs'.2
      simp only [List.mem_cons] at hx
      rcases hx with hx | hx
      · subst hx
        have h1 : x < b := hs'.1 b (by simp)
        have h2 := ihx b (by simp)
        omega
      · exact ihx x (by simpa using hx)

theorem lastD_mem (l : List Nat) (h : l ≠ []) : lastD l ∈ l := by
  rw [lastD_eq_getLast l h]; exact List.getLast_mem h

theorem prefixAgree_append_right (A X : List Nat) : PrefixAgree A (A ++ X) := by
  intro i h1 h2; simp [List.getElem_append_left h1]

theorem prefixAgree_append_left (A X : List Nat) : PrefixAgree (A ++ X) A := by
  intro i h1 h2; simp [List.getElem_append_left h2]

theorem walk_single (U : Group) (us : List Group) (Lw : Group) :
    walk par (U :: us) [Lw] = (U, Lw) :: (if par (lastD Lw) ≤ lastD U then [] else walk par us [Lw]) := by
  rw [walk]

theorem walk_cons2 (U : Group) (us : List Group) (Lw L2 : Group) (ls : List Group) :
    walk par (U :: us) (Lw :: L2 :: ls) = (U, Lw) ::
      (if par (lastD Lw) ≤ lastD U then
        (if lastD U < par (L2.headD 0) then walk par us (L2 :: ls) else walk par (U :: us) (L2 :: ls))
       else walk par us (Lw :: L2 :: ls)) := by
  rw [walk]

theorem walk_nil_left (ls : List Group) : walk par [] ls = [] := by
  rw [walk]

theorem calls_cons (U : Group) (us : List Group) (Lw : Group) (ls : List Group) (rest : List (Group × Group))
    (h : walk par (U :: us) (Lw :: ls) = (U, Lw) :: rest) :
    calls par (U :: us) (Lw :: ls) = wrapPure par Lw U ++ rest.flatMap (fun (x : Group × Group) => wrapPure par x.2 x.1) := by
  simp [calls, h]

theorem calls_def (up lo : List Group) :
    (walk par up lo).flatMap (fun (x : Group × Group) => wrapPure par x.2 x.1) = calls par up lo := rfl

theorem linksOf_append (a b : List Run) : linksOf (a ++ b) = linksOf a ++ linksOf b := by
  simp [linksOf]

end Tbfmm
