import Tbfmm.Proofs.TaskCommute
import Tbfmm.Proofs.WeightedTsm
/-!
# C03 at the level of values, for every legal schedule

Every kernel call of the model (`applyCall`, the function the driver runs) is an additive task in the sense of
`TaskCommute`: a list of updates `slot += f(slots read)`.  Whatever the partition of the slots into buffers
(`handleOf` — one buffer per group and kind in the library), if every task declares `commute` on the buffers of the
slots it writes and `in` on the buffers of the slots it reads, every schedule that respects the declared
dependences leaves the values the submission order leaves (`C03_legal_schedule_eq`), and these are the sequential
executor's values (`C03_omp_values`, `C09_omp_values`).
-/
namespace Tbfmm

open Tbfmm.Tasks

/-- a value of the tree: a cell's multipole, a cell's local, a particle's result -/
inductive Slot
  | m (l i : Nat)
  | l (l i : Nat)
  | r (p : Nat)
deriving DecidableEq, Repr

/-- the values of a state, slot by slot -/
def absSt (s : State) : St Slot
  | .m l i => s.m l i
  | .l l i => s.l l i
  | .r p => s.r p

theorem abs_addM (s : State) (l i v : Nat) : absSt (s.addM l i v) = fun k => absSt s k + if k = Slot.m l i then v else 0 := by
  funext k
  cases k with
  | m l' i' =>
    simp only [absSt, addM_m]
    by_cases h : (l, i) = (l', i')
    · injection h with h1 h2; subst h1; subst h2; simp
    · have : ¬ Slot.m l' i' = Slot.m l i := by intro e; injection e with e1 e2; exact h (by rw [e1, e2])
      simp [h, this]
  | l l' i' => simp [absSt]
  | r p => simp [absSt]

theorem abs_addL (s : State) (l i v : Nat) : absSt (s.addL l i v) = fun k => absSt s k + if k = Slot.l l i then v else 0 := by
  funext k
  cases k with
  | m l' i' => simp [absSt]
  | l l' i' =>
    simp only [absSt, addL_l]
    by_cases h : (l, i) = (l', i')
    · injection h with h1 h2; subst h1; subst h2; simp
    · have : ¬ Slot.l l' i' = Slot.l l i := by intro e; injection e with e1 e2; exact h (by rw [e1, e2])
      simp [h, this]
  | r p => simp [absSt]

theorem abs_addR (s : State) (p v : Nat) : absSt (s.addR p v) = fun k => absSt s k + if k = Slot.r p then v else 0 := by
  funext k
  cases k with
  | m l' i' => simp [absSt]
  | l l' i' => simp [absSt]
  | r p' =>
    simp only [absSt, addR_r]
    by_cases h : p = p'
    · subst h; simp
    · have : ¬ Slot.r p' = Slot.r p := by intro e; injection e with e1; exact h e1.symm
      simp [h, this]

/-- an update whose amount does not depend on the state -/
def constUpd (k : Slot) (v : Nat) : Upd Slot := ⟨k, [], fun _ => v, fun _ _ _ => rfl⟩

/-- an update that adds the current value of one slot -/
def copyUpd (k src : Slot) : Upd Slot := ⟨k, [src], fun st => st src, fun s s' h => h src (by simp)⟩

/-- an update that adds the sum of the current values of a list of slots -/
def sumUpd (k : Slot) (srcs : List Slot) : Upd Slot :=
  ⟨k, srcs, fun st => (srcs.map st).sum, fun s s' h => by
    congr 1
    exact List.map_congr_left h⟩

section
variable (w : Nat → Nat) (L : Nat) (po po' : Nat → List Nat)

/-- the elementary updates of one kernel call -/
def updsOf : Call → List (Upd Slot)
  | .p2m leaf parts => [constUpd (.m L leaf) (sumW w parts)]
  | .m2m level p ch => [sumUpd (.m level p) (ch.map fun c => .m (level+1) c.1)]
  | .m2l level t srcs => [sumUpd (.l level t) (srcs.map fun c => .m level c.1)]
  | .l2l level p ch => ch.map fun c => copyUpd (.l (level+1) c.1) (.l level p)
  | .l2p leaf parts => parts.map fun q => copyUpd (.r q) (.l L leaf)
  | .p2p src tgt _ => ((po tgt).map fun q => constUpd (.r q) (sumW w (po src))) ++ ((po src).map fun q => constUpd (.r q) (sumW w (po tgt)))
  | .p2pTsm src tgt _ => (po tgt).map fun q => constUpd (.r q) (sumW w (po' src))
  | .p2pInner leaf => (po leaf).map fun q => constUpd (.r q) (sumW w (po leaf) - w q)

variable {Handle : Type} (handleOf : Slot → Handle)

/-- the task of a kernel call: it declares `commute` on the buffer of every slot it writes and `in` on the buffer of
    every slot it reads -/
def taskOf (c : Call) : Task Slot Handle :=
  let us := updsOf w L po po' c
  ⟨(us.flatMap (·.reads)).map handleOf, us.map (fun u => handleOf u.w), us⟩

theorem taskOf_covered (c : Call) : (taskOf w L po po' handleOf c).covered handleOf := by
  intro u hu
  simp only [taskOf] at hu ⊢
  refine ⟨List.mem_map.2 ⟨u, hu, rfl⟩, ?_⟩
  intro r hr
  exact List.mem_map.2 ⟨r, List.mem_flatMap.2 ⟨u, hu, hr⟩, rfl⟩

theorem foldl_const_addR (ps : List Nat) (v : Nat) (s : State) :
    absSt (ps.foldl (fun s p => s.addR p v) s) = (ps.map fun q => constUpd (.r q) v).foldl (fun st u => u.apply st) (absSt s) := by
  induction ps generalizing s with
  | nil => rfl
  | cons p ps ih =>
    simp only [List.foldl_cons, List.map_cons]
    rw [ih, abs_addR]
    rfl

theorem foldl_fun_addR (ps : List Nat) (f : Nat → Nat) (s : State) :
    absSt (ps.foldl (fun s p => s.addR p (f p)) s) = (ps.map fun q => constUpd (.r q) (f q)).foldl (fun st u => u.apply st) (absSt s) := by
  induction ps generalizing s with
  | nil => rfl
  | cons p ps ih =>
    simp only [List.foldl_cons, List.map_cons]
    rw [ih, abs_addR]
    rfl

/-- **one call = its task**, on the values -/
theorem run_taskOf (c : Call) (s : State) :
    absSt (applyCall w L po po' s c) = (taskOf w L po po' handleOf c).run (absSt s) := by
  cases c with
  | p2m leaf parts =>
    simp only [applyCall, taskOf, updsOf, Task.run, List.foldl_cons, List.foldl_nil, abs_addM]
    rfl
  | m2m level p ch =>
    simp only [applyCall, taskOf, updsOf, Task.run, List.foldl_cons, List.foldl_nil, abs_addM]
    funext k
    simp only [Upd.apply, sumUpd, List.map_map]
    rfl
  | m2l level t srcs =>
    simp only [applyCall, taskOf, updsOf, Task.run, List.foldl_cons, List.foldl_nil, abs_addL]
    funext k
    simp only [Upd.apply, sumUpd, List.map_map]
    rfl
  | l2l level p ch =>
    simp only [applyCall, taskOf, updsOf, Task.run]
    induction ch generalizing s with
    | nil => rfl
    | cons c ch ih =>
      simp only [List.foldl_cons, List.map_cons]
      rw [ih, abs_addL]
      rfl
  | l2p leaf parts =>
    simp only [applyCall, taskOf, updsOf, Task.run]
    induction parts generalizing s with
    | nil => rfl
    | cons q parts ih =>
      simp only [List.foldl_cons, List.map_cons]
      rw [ih, abs_addR]
      rfl
  | p2p src tgt code =>
    simp only [applyCall, taskOf, updsOf, Task.run, List.foldl_append]
    rw [foldl_const_addR, foldl_const_addR]
  | p2pTsm src tgt code =>
    simp only [applyCall, taskOf, updsOf, Task.run]
    rw [foldl_const_addR]
  | p2pInner leaf =>
    simp only [applyCall, taskOf, updsOf, Task.run]
    rw [foldl_fun_addR]

theorem runs_taskOf (cs : List Call) (s : State) :
    absSt (applyCalls w L po po' s cs) = exec (fun t st => Task.run t st) (cs.map (taskOf w L po po' handleOf)) (absSt s) := by
  induction cs generalizing s with
  | nil => rfl
  | cons c cs ih =>
    simp only [applyCalls, List.foldl_cons, List.map_cons, exec] at ih ⊢
    rw [ih, run_taskOf w L po po' handleOf c s]

/-- **C03, model level, any buffers**: for any partition `handleOf` of the values into buffers, every schedule of the
    calls' tasks that respects the declared dependences (writers of one buffer unordered, a reader of a buffer
    ordered with its writers) leaves exactly the values the call list leaves when applied in order -/
theorem C03_schedule_values (cs : List Call) (sched : List (Task Slot Handle))
    (hl : Legal depMutex (cs.map (taskOf w L po po' handleOf)) sched) (s : State) :
    exec (fun t st => Task.run t st) sched (absSt s) = absSt (applyCalls w L po po' s cs) := by
  rw [runs_taskOf w L po po' handleOf cs s]
  apply C03_legal_schedule_eq handleOf _ _ _ hl
  intro t ht
  obtain ⟨c, _, rfl⟩ := List.mem_map.1 ht
  exact taskOf_covered w L po po' handleOf c

end

/-- the submission order itself is a legal schedule (so the hypotheses below are satisfiable for every run) -/
theorem legal_refl {T : Type} (dep : T → T → Prop) (l : List T) : Legal dep l l := by
  induction l with
  | nil => exact Legal.nil
  | cons a l ih => exact Legal.pick a [] l l (by simp) ih

/-- a schedule that is not the submission order: the P2M tasks of two leaves may run in either order -/
example (w : Nat → Nat) (po : Nat → List Nat) :
    Legal depMutex ([Call.p2m 0 [0], Call.p2m 1 [1]].map (taskOf w 2 po po (fun k : Slot => k)))
      ([Call.p2m 1 [1], Call.p2m 0 [0]].map (taskOf w 2 po po (fun k : Slot => k))) := by
  refine Legal.pick _ [_] [] _ ?_ (legal_refl _ _)
  intro b hb
  simp only [List.mem_singleton] at hb
  subst hb
  rintro ⟨h, hh | hh⟩ <;> simp [taskOf, updsOf, constUpd] at hh

/-- **C03**: on a built tree, whatever the grouping of the values into buffers, under every schedule of the OpenMP
    executor's tasks that respects their declared dependences each particle ends with the sum of the weights of
    all the other particles — the sequential executor's result -/
theorem C03_values_any_schedule {Handle : Type} (handleOf : Slot → Handle) (D H bs : Nat) (mode : Bool) (leafIdx : List Nat) (upper : Nat)
    (hbs : 0 < bs) (hne : leafIdx ≠ []) (hH : 1 ≤ H) (hlt : ∀ i ∈ leafIdx, i < 2^(D*(H-1))) (hu : upper ≤ 2)
    (w : Nat → Nat) (sched : List (Task Slot Handle))
    (hl : Legal depMutex ((executeOmp (Tree.build D H bs mode leafIdx) false 63 upper).map
      (taskOf w (H-1) (Tree.build D H bs mode leafIdx).partsOf (Tree.build D H bs mode leafIdx).partsOf handleOf)) sched)
    (p : Nat) (hp : p < leafIdx.length) :
    exec (fun t st => Task.run t st) sched (absSt {}) (.r p) =
      sumOver (List.range leafIdx.length) (fun q => if p = q then 0 else w q) := by
  rw [C03_schedule_values w (H-1) _ _ handleOf _ sched hl {}]
  exact C03_omp_values D H bs mode leafIdx upper hbs hne hH hlt hu w p hp

/-- the same for the target/source OpenMP executor: every target ends with the total source weight -/
theorem C09_values_any_schedule {Handle : Type} (handleOf : Slot → Handle) (D H bsS bsT : Nat) (modeS modeT : Bool) (srcIdx tgtIdx : List Nat) (upper : Nat)
    (hbsS : 0 < bsS) (hbsT : 0 < bsT) (hneS : srcIdx ≠ []) (hneT : tgtIdx ≠ []) (hH : 1 ≤ H)
    (hltS : ∀ i ∈ srcIdx, i < 2^(D*(H-1))) (hltT : ∀ i ∈ tgtIdx, i < 2^(D*(H-1))) (hu : upper ≤ 2)
    (w : Nat → Nat) (sched : List (Task Slot Handle))
    (hl : Legal depMutex ((executeTsm (Tree.build D H bsS modeS srcIdx) (Tree.build D H bsT modeT tgtIdx) false 63 upper true).map
      (taskOf w (H-1) (Tree.build D H bsT modeT tgtIdx).partsOf (Tree.build D H bsS modeS srcIdx).partsOf handleOf)) sched)
    (p : Nat) (hp : p < tgtIdx.length) :
    exec (fun t st => Task.run t st) sched (absSt {}) (.r p) = sumOver (List.range srcIdx.length) w := by
  rw [C03_schedule_values w (H-1) _ _ handleOf _ sched hl {}]
  exact C09_omp_values D H bsS bsT modeS modeT srcIdx tgtIdx upper hbsS hbsT hneS hneT hH hltS hltT hu w p hp

end Tbfmm
