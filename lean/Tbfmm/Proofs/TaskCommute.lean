import Tbfmm.Proofs.Sched
/-!
C03 — tasks whose *declared* accesses do not conflict commute as state transformers, provided the
declared accesses cover the actual ones; hence every legal schedule equals submission order.

State = values of slots (one per cell expansion / particle result); a buffer *handle* is the unit a
`depend` clause names (first byte of a group's multipole / local / rhs buffer); `handleOf` maps every
slot to the buffer it lives in (groups partition the cells, so this is a function).
An elementary update is additive: `s[w] += val s`, where `val` depends only on the slots `reads`.
-/
namespace Tbfmm.Tasks

variable {Slot Handle : Type} [DecidableEq Slot]

abbrev St (Slot : Type) := Slot → Nat

structure Upd (Slot : Type) where
  w : Slot
  reads : List Slot
  val : St Slot → Nat
  val_dep : ∀ s s' : St Slot, (∀ r ∈ reads, s r = s' r) → val s = val s'

def Upd.apply (u : Upd Slot) (s : St Slot) : St Slot := fun k => s k + (if k = u.w then u.val s else 0)

/-- two additive updates commute when neither writes a slot the other reads (writing the same slot is fine) -/
theorem upd_commute (u1 u2 : Upd Slot) (h12 : u1.w ∉ u2.reads) (h21 : u2.w ∉ u1.reads) (s : St Slot) :
    u2.apply (u1.apply s) = u1.apply (u2.apply s) := by
  have e2 : u2.val (u1.apply s) = u2.val s := u2.val_dep _ _ (by
    intro r hr
    simp only [Upd.apply]
    have : r ≠ u1.w := fun e => h12 (e ▸ hr)
    simp [this])
  have e1 : u1.val (u2.apply s) = u1.val s := u1.val_dep _ _ (by
    intro r hr
    simp only [Upd.apply]
    have : r ≠ u2.w := fun e => h21 (e ▸ hr)
    simp [this])
  funext k
  simp only [Upd.apply, e1, e2]
  exact Nat.add_right_comm _ _ _

structure Task (Slot Handle : Type) where
  reads : List Handle          -- depend(in: …)
  commutes : List Handle       -- depend(commute: …)
  upds : List (Upd Slot)       -- what the wrapper call(s) of the task do, in order

def Task.run (t : Task Slot Handle) (s : St Slot) : St Slot := t.upds.foldl (fun s u => u.apply s) s

/-- the declared accesses cover the actual ones -/
def Task.covered (handleOf : Slot → Handle) (t : Task Slot Handle) : Prop :=
  ∀ u ∈ t.upds, handleOf u.w ∈ t.commutes ∧ ∀ r ∈ u.reads, handleOf r ∈ t.reads

/-- ordering imposed by the declared dependences when `commute` is `mutexinoutset` (writers of the same
    buffer are mutually exclusive but unordered) -/
def depMutex (a b : Task Slot Handle) : Prop :=
  ∃ h, (h ∈ a.commutes ∧ h ∈ b.reads) ∨ (h ∈ a.reads ∧ h ∈ b.commutes)

/-- ordering when `commute` is mapped to `inout` (OpenMP < 5.0): writers of the same buffer are ordered too -/
def depInout (a b : Task Slot Handle) : Prop :=
  depMutex a b ∨ ∃ h, h ∈ a.commutes ∧ h ∈ b.commutes

theorem foldl_upd_commute (u : Upd Slot) (us : List (Upd Slot))
    (h : ∀ v ∈ us, u.w ∉ v.reads ∧ v.w ∉ u.reads) (s : St Slot) :
    us.foldl (fun s v => v.apply s) (u.apply s) = u.apply (us.foldl (fun s v => v.apply s) s) := by
  induction us generalizing s with
  | nil => rfl
  | cons v us ih =>
    simp only [List.foldl_cons]
    have hv := h v (by simp)
    rw [upd_commute u v hv.1 hv.2 s]
    exact ih (fun w hw => h w (by simp [hw])) _

theorem tasks_commute_of_slots (a b : Task Slot Handle)
    (h : ∀ u ∈ a.upds, ∀ v ∈ b.upds, u.w ∉ v.reads ∧ v.w ∉ u.reads) (s : St Slot) :
    a.run (b.run s) = b.run (a.run s) := by
  unfold Task.run
  generalize a.upds = us at *
  induction us generalizing s with
  | nil => rfl
  | cons u us ih =>
    simp only [List.foldl_cons]
    have hu : ∀ v ∈ b.upds, u.w ∉ v.reads ∧ v.w ∉ u.reads := fun v hv => h u (by simp) v hv
    rw [← foldl_upd_commute u b.upds hu s]
    exact ih _ (fun (u' : Upd Slot) (hu' : u' ∈ us) (v : Upd Slot) (hv : v ∈ b.upds) => h u' (by simp [hu']) v hv)

/-- **declared-independent ⇒ commute**: if the declared accesses of two tasks cover their actual ones and
    no buffer is written by one and read by the other, the two tasks commute -/
theorem tasks_commute (handleOf : Slot → Handle) (a b : Task Slot Handle)
    (ca : a.covered handleOf) (cb : b.covered handleOf) (hind : ¬ depMutex b a) (s : St Slot) :
    a.run (b.run s) = b.run (a.run s) := by
  apply tasks_commute_of_slots
  intro u hu v hv
  constructor
  · intro hr
    apply hind
    exact ⟨handleOf u.w, Or.inr ⟨(cb v hv).2 _ hr, (ca u hu).1⟩⟩
  · intro hr
    apply hind
    exact ⟨handleOf v.w, Or.inl ⟨(cb v hv).1, (ca u hu).2 _ hr⟩⟩

/-- **C03 (model level)**: with declared accesses covering the actual ones, every schedule that respects
    the declared dependences (mutexinoutset semantics, the weakest ordering a conforming runtime may
    apply) leaves the same state as submission order -/
theorem C03_legal_schedule_eq (handleOf : Slot → Handle) (sub sched : List (Task Slot Handle))
    (hc : ∀ t ∈ sub, t.covered handleOf) (hl : Tbfmm.Legal depMutex sub sched) (s : St Slot) :
    Tbfmm.exec (fun t s => Task.run t s) sched s = Tbfmm.exec (fun t s => Task.run t s) sub s := by
  -- strengthen: carry coverage along the derivation
  have gen : ∀ {sub sched : List (Task Slot Handle)}, Tbfmm.Legal depMutex sub sched → (∀ t ∈ sub, t.covered handleOf) →
      ∀ s, Tbfmm.exec (fun t s => Task.run t s) sched s = Tbfmm.exec (fun t s => Task.run t s) sub s := by
    intro sub sched hl
    induction hl with
    | nil => intro _ _; rfl
    | pick a l1 l2 sched hind _ ih =>
      intro hc s
      have ha := hc a (by simp)
      have hc' : ∀ t ∈ l1 ++ l2, t.covered handleOf := by
        intro t ht
        rcases List.mem_append.mp ht with h | h
        · exact hc t (by simp [h])
        · exact hc t (by simp [h])
      -- move `a` in front of `l1`
      have move : ∀ (l : List (Task Slot Handle)) (s : St Slot), (∀ b ∈ l, b.covered handleOf ∧ ¬ depMutex b a) →
          Tbfmm.exec (fun t s => Task.run t s) (l ++ [a]) s = Tbfmm.exec (fun t s => Task.run t s) (a :: l) s := by
        intro l
        induction l with
        | nil => intro _ _; rfl
        | cons b l ihl =>
          intro s hb
          have hb0 := hb b (by simp)
          have := ihl (b.run s) (fun x hx => hb x (by simp [hx]))
          simp only [Tbfmm.exec, List.cons_append, List.foldl_cons] at this ⊢
          rw [this, tasks_commute handleOf a b ha hb0.1 hb0.2 s]
      have h1 : Tbfmm.exec (fun t s => Task.run t s) (l1 ++ a :: l2) s = Tbfmm.exec (fun t s => Task.run t s) (a :: (l1 ++ l2)) s := by
        have e : l1 ++ a :: l2 = (l1 ++ [a]) ++ l2 := by simp
        rw [e, Tbfmm.exec_append, move l1 s (fun b hb => ⟨hc b (by simp [hb]), hind b hb⟩)]
        simp [Tbfmm.exec, List.foldl_append]
      rw [h1]
      show Tbfmm.exec (fun t s => Task.run t s) sched (a.run s) = Tbfmm.exec (fun t s => Task.run t s) (l1 ++ l2) (a.run s)
      exact ih hc' (a.run s)
  exact gen hl hc s

/-- the `inout` mapping used with gcc 12 orders at least as much as `mutexinoutset`: every schedule legal
    for it is covered by the theorem above (stated for the dependence relation itself) -/
theorem depMutex_sub_depInout (a b : Task Slot Handle) : depMutex a b → depInout a b := Or.inl

end Tbfmm.Tasks
