import Tbfmm.Proofs.BuildInv
/-!
C17 / C13 — bulk export and the gather step of `rebuild`: the particles are walked in storage order and each
one's values are written at its original index.  Because the stored original indices are a permutation of
`0 … N-1` (`C13_indices_perm`), the result is the per-particle values listed by original index.
-/
namespace Tbfmm

theorem foldl_set_size {α : Type} (xs : List (Nat × α)) (a : Array α) :
    (xs.foldl (fun (a : Array α) (x : Nat × α) => a.setIfInBounds x.1 x.2) a).size = a.size := by
  induction xs generalizing a with
  | nil => rfl
  | cons x xs ih => simp only [List.foldl_cons]; rw [ih]; simp

theorem foldl_set_get {α : Type} (vals : Nat → α) (xs : List (Nat × α)) (a : Array α) (i : Nat) (hi : i < a.size)
    (hv : ∀ x ∈ xs, x.2 = vals x.1) :
    (xs.foldl (fun (a : Array α) (x : Nat × α) => a.setIfInBounds x.1 x.2) a)[i]? =
      if i ∈ xs.map (·.1) then some (vals i) else a[i]? := by
  induction xs generalizing a with
  | nil => simp
  | cons x xs ih =>
    simp only [List.foldl_cons]
    rw [ih (a.setIfInBounds x.1 x.2) (by simpa using hi) (fun y hy => hv y (by simp [hy]))]
    by_cases h1 : i ∈ xs.map (·.1)
    · have h1' : i ∈ (x :: xs).map (·.1) := by simp only [List.map_cons, List.mem_cons]; exact Or.inr h1
      rw [if_pos h1, if_pos h1']
    · rw [if_neg h1]
      by_cases h2 : x.1 = i
      · have h1' : i ∈ (x :: xs).map (·.1) := by simp [h2.symm]
        rw [if_pos h1']
        have := hv x (by simp)
        subst h2
        simp [hi, this]
      · have h1' : ¬ i ∈ (x :: xs).map (·.1) := by
          simp only [List.map_cons, List.mem_cons, not_or]
          exact ⟨fun e => h2 e.symm, h1⟩
        rw [if_neg h1']
        simp [h2]

/-- scattering pairs whose indices cover `0 … n-1` and whose values are `vals index` gives `vals` tabulated -/
theorem scatterByIndex_eq {α : Type} (n : Nat) (dflt : α) (vals : Nat → α) (xs : List (Nat × α))
    (hv : ∀ x ∈ xs, x.2 = vals x.1) (hcov : ∀ i, i < n → i ∈ xs.map (·.1)) :
    scatterByIndex n dflt xs = (List.range n).map vals := by
  apply List.ext_getElem?
  intro i
  unfold scatterByIndex
  by_cases hi : i < n
  · rw [Array.getElem?_toList, foldl_set_get vals xs _ i (by simpa using hi) hv, if_pos (hcov i hi)]
    simp [hi]
  · have h1 : (xs.foldl (fun (a : Array α) (x : Nat × α) => a.setIfInBounds x.1 x.2) (Array.replicate n dflt)).toList.length = n := by
      rw [Array.length_toList, foldl_set_size]; simp
    rw [List.getElem?_eq_none (by omega), List.getElem?_eq_none (by simp; omega)]

/-- **C17**: the bulk export of a built tree lists, at position `i`, the values of the particle inserted at
    position `i` — whatever the ordering, block size and grouping mode -/
theorem C17_export {α : Type} (D H bs : Nat) (mode : Bool) (leafIdx : List Nat) (hbs : 0 < bs) (dflt : α) (vals : Nat → α) :
    (Tree.build D H bs mode leafIdx).exportBy dflt vals leafIdx.length = (List.range leafIdx.length).map vals := by
  unfold Tree.exportBy
  apply scatterByIndex_eq
  · intro x hx
    obtain ⟨y, _, rfl⟩ := List.mem_map.mp hx
    rfl
  · intro i hi
    have hp := C13_indices_perm D H bs mode leafIdx hbs
    have : i ∈ (Tree.build D H bs mode leafIdx).stored.map (·.2) := hp.mem_iff.mpr (by simpa using hi)
    simpa [List.map_map, Function.comp] using this

/-- a concrete instance: three particles in two leaves, stored in Morton order, exported in insertion order -/
example : (Tree.build 1 3 2 false [3, 0, 3]).exportBy 0 (fun p => 10 + p) 3 = [10, 11, 12] :=
  C17_export 1 3 2 false [3, 0, 3] (by decide) 0 (fun p => 10 + p)

/-- C08 / C09: the automatic block size is a legal block size (at least one element per group), whatever the
    particles and the number of threads -/
theorem autoBlockSize_pos (leafIdx : List Nat) (threads : Nat) : 0 < autoBlockSize leafIdx threads :=
  Nat.lt_of_lt_of_le Nat.one_pos (Nat.le_max_left _ _)

end Tbfmm
