/-!
General list lemmas used to relate two enumerations of the same family of interactions:
`filterMap`s over two duplicate-free index lists related by a pair of mutually inverse maps are
permutations of each other.
-/
namespace Tbfmm

theorem filterMap_filter_isSome {α γ} (X : List α) (f : α → Option γ) :
    (X.filter fun x => (f x).isSome).filterMap f = X.filterMap f := by
  induction X with
  | nil => rfl
  | cons x xs ih =>
    cases h : f x with
    | none => simp [h, ih]
    | some v => simp [h, ih]

theorem filterMap_congr' {α γ} (X : List α) (f g : α → Option γ) (h : ∀ x ∈ X, f x = g x) :
    X.filterMap f = X.filterMap g := by
  induction X with
  | nil => rfl
  | cons x xs ih =>
    have hx := h x (by simp)
    have ih' := ih (fun y hy => h y (by simp [hy]))
    simp only [List.filterMap_cons, hx, ih']

/-- two `filterMap`s over duplicate-free index lists related by mutually inverse maps `Φ`, `Ψ`
    (on the indices that produce something) are permutations of each other -/
theorem filterMap_perm_of_inv {α β γ} (X : List α) (Y : List β) (f : α → Option γ) (g : β → Option γ)
    (Φ : α → β) (Ψ : β → α) (hX : X.Nodup) (hY : Y.Nodup)
    (h1 : ∀ x ∈ X, (f x).isSome → Φ x ∈ Y ∧ g (Φ x) = f x ∧ Ψ (Φ x) = x)
    (h2 : ∀ y ∈ Y, (g y).isSome → Ψ y ∈ X ∧ f (Ψ y) = g y ∧ Φ (Ψ y) = y) :
    (X.filterMap f).Perm (Y.filterMap g) := by
  rw [← filterMap_filter_isSome X f, ← filterMap_filter_isSome Y g]
  have e1 : (X.filter fun x => (f x).isSome).filterMap f = ((X.filter fun x => (f x).isSome).map Φ).filterMap g := by
    rw [List.filterMap_map]
    apply filterMap_congr'
    intro x hx
    rw [List.mem_filter] at hx
    exact ((h1 x hx.1 hx.2).2.1).symm
  rw [e1]
  apply List.Perm.filterMap
  apply (List.perm_ext_iff_of_nodup _ (hY.sublist List.filter_sublist)).2
  · intro y
    simp only [List.mem_map, List.mem_filter]
    constructor
    · rintro ⟨x, ⟨hx, hs⟩, rfl⟩
      obtain ⟨a, b, _⟩ := h1 x hx hs
      exact ⟨a, by rw [b]; exact hs⟩
    · rintro ⟨hy, hs⟩
      obtain ⟨a, b, c⟩ := h2 y hy hs
      exact ⟨Ψ y, ⟨a, by rw [b]; exact hs⟩, c⟩
  · rw [List.Nodup, List.pairwise_map]
    have hXf : (X.filter fun x => (f x).isSome).Nodup := hX.sublist List.filter_sublist
    refine List.Pairwise.imp_of_mem ?_ hXf
    intro a b ha hb hne heq
    rw [List.mem_filter] at ha hb
    apply hne
    rw [← (h1 a ha.1 ha.2).2.2, ← (h1 b hb.1 hb.2).2.2, heq]

/-- nested `flatMap`/`filterMap` as one `filterMap` over the product list -/
def prodList {α β} (X : List α) (Y : List β) : List (α × β) := X.flatMap fun x => Y.map fun y => (x, y)

theorem flatMap_filterMap_prod {α β γ} (X : List α) (Y : List β) (f : α → β → Option γ) :
    (X.flatMap fun x => Y.filterMap (f x)) = (prodList X Y).filterMap fun p => f p.1 p.2 := by
  unfold prodList
  induction X with
  | nil => rfl
  | cons x xs ih =>
    simp only [List.flatMap_cons, List.filterMap_append, ih, List.filterMap_map]
    rfl

theorem mem_prodList {α β} (X : List α) (Y : List β) (p : α × β) : p ∈ prodList X Y ↔ p.1 ∈ X ∧ p.2 ∈ Y := by
  unfold prodList
  simp only [List.mem_flatMap, List.mem_map]
  constructor
  · rintro ⟨x, hx, y, hy, rfl⟩; exact ⟨hx, hy⟩
  · rintro ⟨hx, hy⟩; exact ⟨p.1, hx, p.2, hy, rfl⟩

theorem nodup_prodList {α β} (X : List α) (Y : List β) (hX : X.Nodup) (hY : Y.Nodup) : (prodList X Y).Nodup := by
  unfold prodList
  rw [List.Nodup, List.pairwise_flatMap]
  constructor
  · intro a _
    rw [List.pairwise_map]
    exact hY.imp (fun h e => h (by injection e))
  · refine hX.imp ?_
    intro a b hab p hp q hq
    rw [List.mem_map] at hp hq
    obtain ⟨_, _, rfl⟩ := hp
    obtain ⟨_, _, rfl⟩ := hq
    intro e
    apply hab
    injection e

end Tbfmm
