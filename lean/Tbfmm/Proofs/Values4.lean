import Tbfmm.Proofs.Values3
/-!
Downward pass for one target leaf `a`: after L2L, the local of `a` holds what the transfers put into the
locals of `a`'s ancestors ("every cell's local equals the sum, over the cell and its ancestors, of the
multipoles of the cells in their interaction lists").
-/
namespace Tbfmm

section
variable (q : Nat) (D L : Nat) (po po' : Nat → List Nat) (cellsAt : Nat → List Nat) (a : Nat)
  (hnd : ∀ ℓ, (cellsAt ℓ).Nodup) (ha : ∀ ℓ, ℓ ≤ L → anc D L ℓ a ∈ cellsAt ℓ)

include hnd

/-- one level of the downward pass -/
theorem l2l_level_step (ℓ : Nat) (cs : List Call) (hform : ∀ c ∈ cs, ∃ p ch, c = .l2l ℓ p ch)
    (helems : cs.flatMap elemsOfCall = (cellsAt (ℓ+1)).map fun c => Elem.l2l ℓ (parent D c) c (childCode D c)) (s : State) :
    (∀ i, (applyCalls (wq q) L po po' s cs).l (ℓ+1) i = s.l (ℓ+1) i + if i ∈ cellsAt (ℓ+1) then s.l ℓ (parent D i) else 0) ∧
    (∀ lv i, lv ≠ ℓ + 1 → (applyCalls (wq q) L po po' s cs).l lv i = s.l lv i) ∧
    (∀ lv i, (applyCalls (wq q) L po po' s cs).m lv i = s.m lv i) ∧ (∀ p, (applyCalls (wq q) L po po' s cs).r p = s.r p) := by
  obtain ⟨h1, h2, h3⟩ := phase_l2l (wq q) L po po' ℓ cs hform s
  refine ⟨?_, ?_, h2, h3⟩
  · intro i
    rw [h1, helems, sumOver_map]
    have e : sumOver (cellsAt (ℓ+1)) ((cL s (ℓ+1) i) ∘ fun c => Elem.l2l ℓ (parent D c) c (childCode D c)) =
        sumOver (cellsAt (ℓ+1)) (fun c => if c = i then s.l ℓ (parent D c) else 0) := by
      apply sumOver_congr
      intro c _
      simp only [Function.comp, cL]
      by_cases h1 : c = i
      · simp [h1]
      · have : ¬ (ℓ + 1, c) = (ℓ + 1, i) := by intro e; injection e with _ e2; exact h1 e2
        simp [this, h1]
    rw [e, sumOver_indicator _ (hnd (ℓ+1))]
  · intro lv i hne
    rw [h1, helems, sumOver_map]
    have : sumOver (cellsAt (ℓ+1)) ((cL s lv i) ∘ fun c => Elem.l2l ℓ (parent D c) c (childCode D c)) = 0 := by
      apply sumOver_zero
      intro c _
      simp only [Function.comp, cL]
      have : ¬ (ℓ + 1, c) = (lv, i) := by intro e; injection e with e1 _; exact hne e1.symm
      simp [this]
    rw [this, Nat.add_zero]

/-- what the transfers put into the locals of the ancestors of `a` at levels `v+1 … v+k` -/
def sumA (A : Nat → Nat → Nat) : Nat → Nat → Nat
  | _, 0 => 0
  | v, k+1 => A (v+1) (anc D L (v+1) a) + sumA A (v+1) k

include ha

/-- **downward pass** along the ancestors of `a`: levels `v, …, v+k-1` in that order -/
theorem l2l_pass (A : Nat → Nat → Nat) (css : Nat → List Call) (hform : ∀ ℓ, ∀ c ∈ css ℓ, ∃ p ch, c = .l2l ℓ p ch)
    (k v : Nat) (hk : v + k ≤ L)
    (helems : ∀ ℓ, v ≤ ℓ → ℓ < v + k → (css ℓ).flatMap elemsOfCall = (cellsAt (ℓ+1)).map fun c => Elem.l2l ℓ (parent D c) c (childCode D c))
    (s : State) (g : Nat) (hg : s.l v (anc D L v a) = g) (hA : ∀ ℓ i, v < ℓ → s.l ℓ i = A ℓ i) :
    (applyCalls (wq q) L po po' s ((List.range' v k).flatMap css)).l (v + k) (anc D L (v+k) a) = g + sumA D L a A v k ∧
    (∀ lv i, (applyCalls (wq q) L po po' s ((List.range' v k).flatMap css)).m lv i = s.m lv i) ∧
    (∀ p, (applyCalls (wq q) L po po' s ((List.range' v k).flatMap css)).r p = s.r p) := by
  induction k generalizing v s g with
  | zero =>
    simp only [List.range'_zero, List.flatMap_nil, applyCalls, List.foldl_nil, Nat.add_zero, sumA]
    exact ⟨hg, fun _ _ => trivial, fun _ => trivial⟩
  | succ k ih =>
    rw [List.range'_succ, List.flatMap_cons, applyCalls_append]
    obtain ⟨a1, a2, a3, a4⟩ := l2l_level_step q D L po po' cellsAt hnd v (css v) (hform v) (helems v (Nat.le_refl _) (by omega)) s
    have hstep : (applyCalls (wq q) L po po' s (css v)).l (v+1) (anc D L (v+1) a) = A (v+1) (anc D L (v+1) a) + g := by
      rw [a1, if_pos (ha (v+1) (by omega)), parent_anc D L v a (by omega), hg, hA (v+1) _ (by omega)]
    obtain ⟨b1, b2, b3⟩ := ih (v+1) (by omega) (fun ℓ h1 h2 => helems ℓ (by omega) (by omega)) (applyCalls (wq q) L po po' s (css v))
      (A (v+1) (anc D L (v+1) a) + g) hstep
      (by intro ℓ i h; rw [a2 ℓ i (by omega)]; exact hA ℓ i (by omega))
    refine ⟨?_, ?_, ?_⟩
    · have e : v + (k + 1) = v + 1 + k := by omega
      rw [e, b1]
      simp only [sumA]; omega
    · intro lv i; rw [b2, a3]
    · intro p; rw [b3, a4]

end

end Tbfmm
