import Tbfmm.Proofs.Values6
/-!
The particle lookup of a built tree (`Tree.partsOf`, a hash map) returns every leaf's particle list, and
every particle index sits in exactly one leaf, once.
-/
namespace Tbfmm

def insLeaf (m : Std.HashMap Nat (List Nat)) (l : Leaf) : Std.HashMap Nat (List Nat) := m.insert l.idx l.parts

theorem ins_fold_other (xs : List Leaf) (m : Std.HashMap Nat (List Nat)) (k : Nat) (h : ∀ x ∈ xs, x.idx ≠ k) :
    (xs.foldl insLeaf m).getD k [] = m.getD k [] := by
  induction xs generalizing m with
  | nil => rfl
  | cons x xs ih =>
    simp only [List.foldl_cons]
    rw [ih _ (fun y hy => h y (by simp [hy]))]
    unfold insLeaf
    rw [Std.HashMap.getD_insert]
    have := h x (by simp)
    simp [this]

theorem ins_fold_mem (xs : List Leaf) (hn : (xs.map (·.idx)).Nodup) (m : Std.HashMap Nat (List Nat)) (lf : Leaf) (hl : lf ∈ xs) :
    (xs.foldl insLeaf m).getD lf.idx [] = lf.parts := by
  induction xs generalizing m with
  | nil => simp at hl
  | cons x xs ih =>
    simp only [List.map_cons, List.nodup_cons] at hn
    simp only [List.foldl_cons]
    simp only [List.mem_cons] at hl
    by_cases hx : lf.idx = x.idx
    · rw [hx, ins_fold_other xs _ x.idx]
      · unfold insLeaf
        rw [Std.HashMap.getD_insert]
        rcases hl with rfl | hl
        · simp
        · exfalso
          exact hn.1 (by rw [← hx]; exact List.mem_map.2 ⟨lf, hl, rfl⟩)
      · intro y hy e
        exact hn.1 (by rw [← e]; exact List.mem_map.2 ⟨y, hy, rfl⟩)
    · rcases hl with rfl | hl
      · exact absurd rfl hx
      · exact ih hn.2 _ hl

theorem partsOf_spec (t : Tree) (hn : ((t.pgroups.flatten).map (·.idx)).Nodup) (lf : Leaf) (hl : lf ∈ t.pgroups.flatten) :
    t.partsOf lf.idx = lf.parts := by
  unfold Tree.partsOf
  have : (t.pgroups.foldl (fun m g => g.foldl (fun m l => m.insert l.idx l.parts) m) ({} : Std.HashMap Nat (List Nat))) =
      t.pgroups.flatten.foldl insLeaf {} := by
    rw [List.foldl_flatten]; rfl
  rw [this]
  exact ins_fold_mem _ hn _ lf hl

/-- every particle of the concatenated leaves sits in exactly one leaf, once -/
theorem particle_unique (ls : List Leaf) (hidx : (ls.map (·.idx)).Nodup) (hparts : (ls.flatMap (·.parts)).Nodup)
    (p : Nat) (hp : p ∈ ls.flatMap (·.parts)) :
    ∃ lf ∈ ls, ∀ lf' ∈ ls, lf'.parts.count p = if lf'.idx = lf.idx then 1 else 0 := by
  induction ls with
  | nil => simp at hp
  | cons x xs ih =>
    simp only [List.map_cons, List.nodup_cons] at hidx
    simp only [List.flatMap_cons, List.nodup_append] at hparts
    simp only [List.flatMap_cons, List.mem_append] at hp
    obtain ⟨hx, hrest, hdisj⟩ := hparts
    by_cases hpx : p ∈ x.parts
    · refine ⟨x, by simp, ?_⟩
      intro lf' hlf'
      simp only [List.mem_cons] at hlf'
      rcases hlf' with rfl | hlf'
      · simp [hx.count, hpx]
      · have hne : lf'.idx ≠ x.idx := by
          intro e; exact hidx.1 (by rw [← e]; exact List.mem_map.2 ⟨lf', hlf', rfl⟩)
        have hnot : p ∉ lf'.parts := by
          intro hm
          exact hdisj p hpx p (List.mem_flatMap.2 ⟨lf', hlf', hm⟩) rfl
        simp [hne, List.count_eq_zero_of_not_mem hnot]
    · have hp' : p ∈ xs.flatMap (·.parts) := by
        rcases hp with h | h
        · exact absurd h hpx
        · exact h
      obtain ⟨lf, hlf, hall⟩ := ih hidx.2 hrest hp'
      refine ⟨lf, by simp [hlf], ?_⟩
      intro lf' hlf'
      simp only [List.mem_cons] at hlf'
      rcases hlf' with rfl | hlf'
      · have hne : lf'.idx ≠ lf.idx := by
          intro e; exact hidx.1 (by rw [e]; exact List.mem_map.2 ⟨lf, hlf, rfl⟩)
        simp [hne, List.count_eq_zero_of_not_mem hpx]
      · exact hall lf' hlf'

theorem stored_parts (t : Tree) : t.stored.map (·.2) = t.pgroups.flatten.flatMap (·.parts) := by
  unfold Tree.stored
  generalize t.pgroups = pg
  induction pg with
  | nil => rfl
  | cons g pg ih =>
    simp only [List.flatMap_cons, List.map_append, ih, List.flatten_cons, List.flatMap_append]
    congr 1
    induction g with
    | nil => rfl
    | cons l g ihg =>
      simp only [List.flatMap_cons, List.map_append, ihg, List.map_map]
      congr 1
      conv => rhs; rw [← List.map_id l.parts]
      rfl

end Tbfmm
