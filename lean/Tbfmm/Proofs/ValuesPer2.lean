import Tbfmm.Proofs.ValuesPer1
/-!
Periodic runs: transfer phase and result phases for a (source particle `q` in leaf `b`, target leaf `a`) pair.
-/
namespace Tbfmm

/-- what the periodic transfer phase puts into the local `(ℓ, i)`: one per accepted image shift -/
def AvalP (D L u : Nat) (cellsAt : Nat → List Nat) (b : Nat) (ℓ i : Nat) : Nat :=
  if u ≤ ℓ ∧ ℓ ≤ L then
    (if 1 ≤ ℓ ∧ i ∈ cellsAt ℓ ∧ anc D L ℓ b ∈ cellsAt ℓ then
      sumOver (shiftsAt D ℓ) (fun k => if perTest D ℓ i (anc D L ℓ b) k then 1 else 0) else 0)
  else 0

theorem m2l_phase_eval_per (q : Nat) (D L : Nat) (po po' : Nat → List Nat) (cellsAt : Nat → List Nat) (b : Nat)
    (hnd : ∀ ℓ, (cellsAt ℓ).Nodup) (u : Nat) (hu : u ≤ L) (cs : List Call) (hform : ∀ c ∈ cs, ∃ lv t srcs, c = .m2l lv t srcs)
    (helems : (cs.flatMap elemsOfCall).Perm ((List.range' u (L + 1 - u)).flatMap fun ℓ => specM2LLevel D true ℓ (cellsAt ℓ) (cellsAt ℓ)))
    (s : State) (hm : ∀ ℓ j, u ≤ ℓ → ℓ ≤ L → s.m ℓ j = if j = anc D L ℓ b then 1 else 0) (hl : ∀ lv i, s.l lv i = 0) :
    (∀ ℓ i, (applyCalls (wq q) L po po' s cs).l ℓ i = AvalP D L u cellsAt b ℓ i) ∧
    (∀ lv i, (applyCalls (wq q) L po po' s cs).m lv i = s.m lv i) ∧ (∀ p, (applyCalls (wq q) L po po' s cs).r p = s.r p) := by
  obtain ⟨h1, h2, h3⟩ := phase_m2l (wq q) L po po' cs hform s
  refine ⟨?_, h2, h3⟩
  intro ℓ i
  rw [h1, hl, Nat.zero_add, sumOver_perm _ _ _ helems, sumOver_flatMap]
  have e : sumOver (List.range' u (L + 1 - u)) (fun ℓ' => sumOver (specM2LLevel D true ℓ' (cellsAt ℓ') (cellsAt ℓ')) (cL s ℓ i)) =
      sumOver (List.range' u (L + 1 - u)) (fun ℓ' => if ℓ' = ℓ then
        (if 1 ≤ ℓ ∧ i ∈ cellsAt ℓ ∧ anc D L ℓ b ∈ cellsAt ℓ then
          sumOver (shiftsAt D ℓ) (fun k => if perTest D ℓ i (anc D L ℓ b) k then 1 else 0) else 0) else 0) := by
    apply sumOver_congr
    intro ℓ' hℓ'
    rw [List.mem_range'_1] at hℓ'
    rw [spec_level_sum_per D L _ _ b (hnd ℓ') (hnd ℓ') s ℓ' ℓ i (fun j => hm ℓ' j hℓ'.1 (by omega))]
    by_cases he : ℓ' = ℓ
    · subst he
      by_cases hc : 1 ≤ ℓ' ∧ i ∈ cellsAt ℓ' ∧ anc D L ℓ' b ∈ cellsAt ℓ'
      · rw [if_pos ⟨rfl, hc⟩, if_pos rfl, if_pos hc]
      · rw [if_neg (by rintro ⟨_, h⟩; exact hc h), if_pos rfl, if_neg hc]
    · rw [if_neg (by rintro ⟨h, _⟩; exact he h), if_neg he]
  rw [e, sumOver_indicator _ (List.nodup_range' (step := 1))]
  unfold AvalP
  simp only [List.mem_range'_1]
  by_cases h : u ≤ ℓ ∧ ℓ ≤ L
  · rw [if_pos h, if_pos ⟨h.1, by omega⟩]
  · rw [if_neg h, if_neg (by omega)]

/-- the periodic direct-pair specification as a triple enumeration -/
theorem specP2P_per_eq (D L : Nat) (leaves : List Nat) :
    specP2P D true L leaves = leaves.flatMap fun t => leaves.flatMap fun s => (shiftsAt D L).filterMap fun k =>
      if perP2PTest D L t s k then some (Elem.p2p s t (code3 (vsub (vadd (toI (decode D L s)) k) (toI (decode D L t))))) else none := by
  unfold specP2P
  simp only []
  apply flatMap_congr'
  intro t _
  rw [List.flatMap_map]
  rfl

theorem sumOver_if_const {α} (xs : List α) (c : α → Bool) (v : Nat) :
    sumOver xs (fun x => if c x then v else 0) = v * sumOver xs (fun x => if c x then 1 else 0) := by
  induction xs with
  | nil => simp [sumOver]
  | cons x xs ih =>
    simp only [sumOver_cons, ih]
    cases c x <;> simp [Nat.mul_add]

theorem sumOver_mul_right {α} (xs : List α) (f : α → Nat) (v : Nat) : sumOver xs (fun x => f x * v) = sumOver xs f * v := by
  induction xs with
  | nil => simp [sumOver]
  | cons x xs ih => simp only [sumOver_cons, ih, Nat.add_mul]

/-- a double sum over a duplicate-free list against the indicator of the ordered pairs `(a,b)` and `(b,a)` -/
theorem pair_sum (leaves : List Nat) (hn : leaves.Nodup) (a b : Nat) (ha : a ∈ leaves) (hb : b ∈ leaves) (T : Nat → Nat → Nat) :
    sumOver leaves (fun t => sumOver leaves (fun s =>
      T t s * ((if t = a then 1 else 0) * (if s = b then 1 else 0) + (if s = a then 1 else 0) * (if t = b then 1 else 0)))) =
      T a b + T b a := by
  have e : ∀ t, sumOver leaves (fun s => T t s * ((if t = a then 1 else 0) * (if s = b then 1 else 0) + (if s = a then 1 else 0) * (if t = b then 1 else 0))) =
      (if t = a then T t b else 0) + (if t = b then T t a else 0) := by
    intro t
    have : ∀ s, T t s * ((if t = a then 1 else 0) * (if s = b then 1 else 0) + (if s = a then 1 else 0) * (if t = b then 1 else 0)) =
        (if s = b then (if t = a then T t s else 0) else 0) + (if s = a then (if t = b then T t s else 0) else 0) := by
      intro s
      rw [Nat.mul_add]
      congr 1
      · by_cases h1 : t = a <;> by_cases h2 : s = b <;> simp [h1, h2]
      · by_cases h3 : s = a <;> by_cases h4 : t = b <;> simp [h3, h4]
    rw [sumOver_congr _ _ _ (fun s _ => this s), sumOver_add, sumOver_indicator _ hn, sumOver_indicator _ hn, if_pos hb, if_pos ha]
  rw [sumOver_congr _ _ _ (fun t _ => e t), sumOver_add, sumOver_indicator _ hn, sumOver_indicator _ hn, if_pos ha, if_pos hb]

section
variable (q p : Nat) (D L : Nat) (po : Nat → List Nat) (leaves : List Nat) (a b : Nat)
  (hn : leaves.Nodup) (ha : a ∈ leaves) (hb : b ∈ leaves)
  (hp : ∀ i ∈ leaves, (po i).count p = if i = a then 1 else 0)
  (hq : ∀ i ∈ leaves, (po i).count q = if i = b then 1 else 0)

include hn ha hb hp hq

theorem p2p_per_sum (s : State) :
    sumOver (specP2P D true L leaves) (cR (wq q) L po po s p) =
      sumOver (shiftsAt D L) (fun k => if perP2PTest D L a b k then 1 else 0) +
      sumOver (shiftsAt D L) (fun k => if perP2PTest D L b a k then 1 else 0) := by
  rw [specP2P_per_eq, sumOver_flatMap]
  have inner : ∀ t ∈ leaves, ∀ s' ∈ leaves, sumOver ((shiftsAt D L).filterMap fun k =>
        if perP2PTest D L t s' k then some (Elem.p2p s' t (code3 (vsub (vadd (toI (decode D L s')) k) (toI (decode D L t))))) else none) (cR (wq q) L po po s p) =
      sumOver (shiftsAt D L) (fun k => if perP2PTest D L t s' k then 1 else 0) *
        ((if t = a then 1 else 0) * (if s' = b then 1 else 0) + (if s' = a then 1 else 0) * (if t = b then 1 else 0)) := by
    intro t ht s' hs'
    rw [sumOver_filterMap]
    calc sumOver (shiftsAt D L) _ = sumOver (shiftsAt D L) (fun k => if perP2PTest D L t s' k then
            ((if t = a then 1 else 0) * (if s' = b then 1 else 0) + (if s' = a then 1 else 0) * (if t = b then 1 else 0)) else 0) := by
          apply sumOver_congr
          intro k _
          cases hk : perP2PTest D L t s' k
          · simp
          · simp only [if_true, cR, sumW_wq, hp t ht, hp s' hs', hq t ht, hq s' hs']
      _ = _ := by rw [sumOver_if_const, Nat.mul_comm]
  have outer : sumOver leaves (fun t => sumOver (leaves.flatMap fun s' => (shiftsAt D L).filterMap fun k =>
        if perP2PTest D L t s' k then some (Elem.p2p s' t (code3 (vsub (vadd (toI (decode D L s')) k) (toI (decode D L t))))) else none) (cR (wq q) L po po s p)) =
      sumOver leaves (fun t => sumOver leaves (fun s' =>
        sumOver (shiftsAt D L) (fun k => if perP2PTest D L t s' k then 1 else 0) *
          ((if t = a then 1 else 0) * (if s' = b then 1 else 0) + (if s' = a then 1 else 0) * (if t = b then 1 else 0)))) := by
    apply sumOver_congr
    intro t ht
    rw [sumOver_flatMap]
    apply sumOver_congr
    intro s' hs'
    exact inner t ht s' hs'
  rw [outer]
  exact pair_sum leaves hn a b ha hb (fun t s' => sumOver (shiftsAt D L) (fun k => if perP2PTest D L t s' k then 1 else 0))

end

end Tbfmm
