import Tbfmm.Proofs.Levels
/-!
The one-group-per-parent level-up strategy produces `keys (runsOf par lower)` cut into non-empty
groups (C07), so the tree invariant and the upward/downward links hold for both grouping modes.
-/
namespace Tbfmm
variable (par : Nat → Nat)

/-- key of the run in progress after the children `xs` -/
def lastKey (prev : Option Nat) (xs : List Nat) : Option Nat :=
  match xs.getLast? with
  | none => prev
  | some c => some (par c)

theorem lastKey_nil (prev : Option Nat) : lastKey par prev [] = prev := rfl

theorem lastKey_cons (prev : Option Nat) (c : Nat) (xs : List Nat) :
    lastKey par prev (c :: xs) = lastKey par (some (par c)) xs := by
  unfold lastKey
  cases xs with
  | nil => simp
  | cons x xs =>
    rw [List.getLast?_cons_cons]
    have : (x :: xs).getLast? = some ((x :: xs).getLast (by simp)) := List.getLast?_eq_some_getLast (by simp)
    rw [this]

theorem keysFrom_append (prev : Option Nat) (xs ys : List Nat) :
    keysFrom par prev (xs ++ ys) = keysFrom par prev xs ++ keysFrom par (lastKey par prev xs) ys := by
  induction xs generalizing prev with
  | nil => simp [keysFrom, lastKey_nil]
  | cons c xs ih =>
    simp only [List.cons_append, keysFrom, lastKey_cons]
    by_cases h : prev = some (par c)
    · simp only [h, if_true]
      exact ih (some (par c))
    · simp only [h, if_false, List.cons_append]
      rw [ih (some (par c))]

theorem parentsDedup_eq (cs cur : List Nat) :
    parentsDedup par cs cur = cur ++ keysFrom par (cur.getLast?) cs := by
  induction cs generalizing cur with
  | nil => simp [parentsDedup, keysFrom]
  | cons c cs ih =>
    simp only [parentsDedup, keysFrom]
    by_cases h : cur.getLast? = some (par c)
    · simp only [h, if_true]
      rw [ih cur, h]
    · simp only [h, if_false]
      rw [ih (cur ++ [par c])]
      simp

/-- children whose parent equals the key in progress are absorbed -/
theorem keysFrom_dropWhile (q : Nat) (g : List Nat) (hge : ∀ c ∈ g, q ≤ par c) :
    keysFrom par (some q) g = keysFrom par (some q) (g.dropWhile fun c => decide (par c ≤ q)) := by
  induction g with
  | nil => rfl
  | cons c g ih =>
    have hc := hge c (by simp)
    by_cases h : par c ≤ q
    · have e : par c = q := by omega
      simp only [List.dropWhile_cons, h, decide_true, if_true]
      rw [← ih (fun c' hc' => hge c' (by simp [hc']))]
      simp [keysFrom, e]
    · simp [List.dropWhile_cons, h]

/-- when the first remaining child has a different parent, the key in progress no longer matters -/
theorem keysFrom_some_eq_none (q : Nat) (g : List Nat) (h : ∀ c, g.head? = some c → par c ≠ q) :
    keysFrom par (some q) g = keysFrom par none g := by
  cases g with
  | nil => rfl
  | cons c g =>
    have := h c rfl
    have h1 : ¬ (some q = some (par c)) := by intro e; injection e with e; exact this e.symm
    simp [keysFrom, h1]

theorem keysFrom_getLast (prev : Option Nat) (xs : List Nat) (hne : keysFrom par prev xs ≠ []) :
    (keysFrom par prev xs).getLast? = lastKey par prev xs := by
  induction xs generalizing prev with
  | nil => simp [keysFrom] at hne
  | cons c xs ih =>
    simp only [keysFrom, lastKey_cons] at hne ⊢
    by_cases h : prev = some (par c)
    · simp only [h, if_true] at hne ⊢
      exact ih (some (par c)) hne
    · simp only [h, if_false] at hne ⊢
      by_cases hk : keysFrom par (some (par c)) xs = []
      · rw [hk]
        -- no further key: every remaining child has parent `par c`
        have : lastKey par (some (par c)) xs = some (par c) := by
          clear ih hne h
          induction xs with
          | nil => rfl
          | cons x xs ihx =>
            simp only [keysFrom] at hk
            by_cases hx : some (par c) = some (par x)
            · simp only [hx, if_true] at hk
              rw [lastKey_cons]
              have e : par x = par c := by injection hx with hx; exact hx.symm
              rw [e]
              exact ihx (by rw [← e]; simpa [e] using hk)
            · simp [hx] at hk
        simp [this]
      · rw [List.getLast?_cons_of_ne_nil hk] at *
        exact ih (some (par c)) hk
  where
    List.getLast?_cons_of_ne_nil {α} {a : α} {l : List α} (h : l ≠ []) : (a :: l).getLast? = l.getLast? := by
      cases l with
      | nil => exact absurd rfl h
      | cons b l => simp [List.getLast?_cons_cons]

/-- state of the fold of `levelUpPerGroup` after the lower groups `P` -/
structure PGInv (P : List Group) (acc : List Group) : Prop where
  flat : acc.flatten = keysFrom par none P.flatten
  ne : ∀ g ∈ acc, g ≠ []
  last : ∀ lastG, acc.getLast? = some lastG → some (lastOf lastG) = lastKey par none P.flatten

theorem lastOf_getLast (g : Group) (h : g ≠ []) : some (lastOf g) = g.getLast? := by
  unfold lastOf
  rw [lastD_eq_getLast g h, List.getLast?_eq_some_getLast h]

theorem levelUpPerGroup_step (P : List Group) (acc : List Group) (g : Group)
    (inv : PGInv par P acc) (hP : P.flatten = [] → acc = []) (hg : g ≠ [])
    (hmono : (P.flatten ++ g).Pairwise (fun a b => par a ≤ par b)) :
    let rest := match acc.getLast? with
      | none => g
      | some lastG => g.dropWhile (fun c => par c ≤ lastOf lastG)
    let ps := parentsDedup par rest []
    PGInv par (P ++ [g]) (if ps = [] then acc else acc ++ [ps]) := by
  intro rest ps
  have hps : ps = keysFrom par none rest := by simp [ps, parentsDedup_eq]
  have hflat : (P ++ [g]).flatten = P.flatten ++ g := by simp
  -- the keys contributed by `g`
  have hkeys : keysFrom par (lastKey par none P.flatten) g = ps := by
    rw [hps]
    cases hacc : acc.getLast? with
    | none =>
      have hnil : acc = [] := by
        cases acc with
        | nil => rfl
        | cons a as => simp [List.getLast?_cons] at hacc
      have hPn : keysFrom par none P.flatten = [] := by rw [← inv.flat, hnil]; rfl
      have : P.flatten = [] := by
        cases hpf : P.flatten with
        | nil => rfl
        | cons c cs => rw [hpf] at hPn; simp [keysFrom] at hPn
      simp only [rest, hacc, this, lastKey_nil]
    | some lastG =>
      have hq := inv.last lastG hacc
      rw [← hq]
      simp only [rest, hacc]
      have hge : ∀ c ∈ g, lastOf lastG ≤ par c := by
        intro c hc
        -- lastOf lastG = par (last child of P), and parents are non-decreasing
        have hPne : P.flatten ≠ [] := by
          intro h; have := hP h; rw [this] at hacc; simp at hacc
        have hl : lastKey par none P.flatten = some (par (P.flatten.getLast hPne)) := by
          unfold lastKey; rw [List.getLast?_eq_some_getLast hPne]
        rw [hl] at hq
        injection hq with hq
        rw [hq]
        have := (List.pairwise_append.mp hmono).2.2 (P.flatten.getLast hPne) (List.getLast_mem hPne) c hc
        exact this
      rw [keysFrom_dropWhile par (lastOf lastG) g hge]
      apply keysFrom_some_eq_none
      intro c hc
      -- the head of the dropWhile result fails the predicate
      have : ¬ (par c ≤ lastOf lastG) := by
        have hd := List.head?_dropWhile_not (fun c => decide (par c ≤ lastOf lastG)) g
        rw [hc] at hd
        simpa using hd
      omega
  have hfl : keysFrom par none (P ++ [g]).flatten = keysFrom par none P.flatten ++ ps := by
    rw [hflat, keysFrom_append, hkeys]
  by_cases hpe : ps = []
  · simp only [hpe, if_true]
    refine ⟨by rw [hfl, hpe, inv.flat]; simp, inv.ne, ?_⟩
    intro lastG hl
    have h1 := inv.last lastG hl
    rw [h1, hflat]
    -- no new key: the run in progress continues
    have hk0 : keysFrom par (lastKey par none P.flatten) g = [] := by rw [hkeys, hpe]
    clear hkeys hfl hps
    -- lastKey of P ++ g equals lastKey of P when g contributes no key
    have : ∀ (prev : Option Nat) (xs : List Nat), keysFrom par prev xs = [] → (∀ q, prev = some q → True) → xs ≠ [] → lastKey par prev xs = prev := by
      intro prev xs
      induction xs generalizing prev with
      | nil => intro _ _ h; exact absurd rfl h
      | cons c xs ih =>
        intro hk _ _
        simp only [keysFrom] at hk
        by_cases h : prev = some (par c)
        · simp only [h, if_true] at hk
          rw [lastKey_cons]
          by_cases hx : xs = []
          · subst hx; simp [lastKey_nil, h]
          · rw [h] ; exact ih (some (par c)) hk (fun _ _ => trivial) hx
        · simp [h] at hk
    have key := this (lastKey par none P.flatten) g hk0 (fun _ _ => trivial) hg
    -- lastKey none (P.flatten ++ g) = lastKey (lastKey none P.flatten) g
    have happ : ∀ (prev : Option Nat) (xs ys : List Nat), ys ≠ [] → lastKey par prev (xs ++ ys) = lastKey par (lastKey par prev xs) ys := by
      intro prev xs ys hy
      unfold lastKey
      rw [List.getLast?_append, List.getLast?_eq_some_getLast hy]
      rfl
    rw [happ none P.flatten g hg, key]
  · simp only [hpe, if_false]
    refine ⟨by rw [hfl, ← inv.flat]; simp, ?_, ?_⟩
    · intro g' hg'
      simp only [List.mem_append, List.mem_singleton] at hg'
      rcases hg' with h | rfl
      · exact inv.ne g' h
      · exact hpe
    · intro lastG hl
      have : lastG = ps := by simpa using hl.symm
      subst this
      rw [lastOf_getLast _ hpe, hflat]
      have happ : ∀ (prev : Option Nat) (xs ys : List Nat), ys ≠ [] → lastKey par prev (xs ++ ys) = lastKey par (lastKey par prev xs) ys := by
        intro prev xs ys hy
        unfold lastKey
        rw [List.getLast?_append, List.getLast?_eq_some_getLast hy]
        rfl
      rw [happ none P.flatten g hg, ← hkeys]
      exact keysFrom_getLast par _ g (by rw [hkeys]; exact hpe)

end Tbfmm

namespace Tbfmm
variable (par : Nat → Nat)

theorem levelUpPerGroup_fold (P rest acc : List Group) (inv : PGInv par P acc) (hP : P.flatten = [] → acc = [])
    (hne : ∀ g ∈ rest, g ≠ []) (hmono : (P ++ rest).flatten.Pairwise (fun a b => par a ≤ par b)) :
    PGInv par (P ++ rest) (rest.foldl (fun (acc : List Group) (g : Group) =>
      let rest := match acc.getLast? with
        | none => g
        | some lastG => g.dropWhile (fun c => par c ≤ lastOf lastG)
      let ps := parentsDedup par rest []
      if ps = [] then acc else acc ++ [ps]) acc) := by
  induction rest generalizing P acc with
  | nil => simpa using inv
  | cons g rest ih =>
    simp only [List.foldl_cons]
    have hg := hne g (by simp)
    have hm1 : (P.flatten ++ g).Pairwise (fun a b => par a ≤ par b) := by
      have : (P ++ g :: rest).flatten = (P.flatten ++ g) ++ rest.flatten := by simp
      rw [this] at hmono
      exact (List.pairwise_append.mp hmono).1
    have step := levelUpPerGroup_step par P acc g inv hP hg hm1
    have := ih (P ++ [g]) _ step (by intro h; simp at h; exact absurd h.2 hg) (fun g' hg' => hne g' (by simp [hg']))
      (by simpa using hmono)
    simpa using this

theorem levelUpPerGroup_spec (lower : List Group) (hne : ∀ g ∈ lower, g ≠ [])
    (hmono : lower.flatten.Pairwise (fun a b => par a ≤ par b)) :
    (levelUpPerGroup par lower).flatten = keys (runsOf par lower.flatten) ∧ ∀ g ∈ levelUpPerGroup par lower, g ≠ [] := by
  have base : PGInv par [] [] := ⟨by simp [keysFrom], by simp, by simp⟩
  have := levelUpPerGroup_fold par [] lower [] base (fun _ => rfl) hne (by simpa using hmono)
  simp only [List.nil_append] at this
  refine ⟨?_, this.ne⟩
  rw [keys_runsOf_eq]
  exact this.flat

/-- one step of either level-up strategy establishes the invariant needed by `upward_links` -/
theorem levelUp_inv (D bs : Nat) (mode : Bool) (hbs : 0 < bs) (lo : List Group) (hlo : ∀ g ∈ lo, g ≠ [])
    (hs : lo.flatten.Pairwise (· < ·)) :
    LevelInv D (if mode then levelUpPerGroup (parent D) lo else levelUpFixed (parent D) bs lo) lo := by
  cases mode with
  | false => simpa using (levelUpFixed_inv D bs hbs lo hlo hs).1
  | true =>
    obtain ⟨h1, h2⟩ := levelUpPerGroup_spec (parent D) lo hlo (sorted_mono_par D _ hs)
    simp only [if_true]
    exact ⟨h2, hlo, h1, by rw [h1]; exact keys_runsOf_sorted _ _ (sorted_mono_par D _ hs)⟩

/-- all levels produced by `buildLevels`, for both grouping modes, satisfy the invariant pairwise -/
theorem buildLevels_inv (D bs : Nat) (mode : Bool) (hbs : 0 < bs) (n : Nat) (cur : List Group)
    (hne : ∀ g ∈ cur, g ≠ []) (hs : cur.flatten.Pairwise (· < ·)) :
    (buildLevels D bs mode n cur).length = n + 1 ∧ (buildLevels D bs mode n cur).getLast? = some cur ∧
    ∀ l, l + 1 < (buildLevels D bs mode n cur).length →
      LevelInv D ((buildLevels D bs mode n cur).getD l []) ((buildLevels D bs mode n cur).getD (l+1) []) := by
  induction n generalizing cur with
  | zero => simp [buildLevels]
  | succ n ih =>
    have inv := levelUp_inv D bs mode hbs cur hne hs
    obtain ⟨h1, h2, h3⟩ := ih _ inv.up_ne inv.sorted
    simp only [buildLevels]
    refine ⟨by simp [h1], by simp, ?_⟩
    intro l hl
    simp only [List.length_append, List.length_singleton, h1] at hl
    by_cases hlast : l + 1 < n + 1
    · rw [getD_append_left' _ _ l _ (by rw [h1]; omega), getD_append_left' _ _ (l+1) _ (by rw [h1]; omega)]
      exact h3 l (by rw [h1]; omega)
    · have hl' : l = n := by omega
      subst hl'
      have e1 := getD_of_getLast? _ _ ([] : List Group) h2
      rw [h1] at e1
      simp only [Nat.add_sub_cancel] at e1
      have e2 := getD_append_last (buildLevels D bs mode l (if mode then levelUpPerGroup (parent D) cur else levelUpFixed (parent D) bs cur)) cur ([] : List Group)
      rw [h1] at e2
      rw [getD_append_left' _ _ l _ (by rw [h1]; omega), e1, e2]
      exact inv

/-- a level of a built tree is empty only if the tree has no particle -/
theorem buildLevels_level_ne (D bs : Nat) (mode : Bool) (hbs : 0 < bs) (n : Nat) (cur : List Group)
    (hne : ∀ g ∈ cur, g ≠ []) (hs : cur.flatten.Pairwise (· < ·)) (hcur : cur ≠ []) :
    ∀ k, k ≤ n → (buildLevels D bs mode n cur).getD (n - k) [] ≠ [] := by
  obtain ⟨h1, h2, h3⟩ := buildLevels_inv D bs mode hbs n cur hne hs
  intro k
  induction k with
  | zero =>
    intro _
    have hlast := getD_of_getLast? _ _ ([] : List Group) h2
    rw [h1] at hlast
    simp only [Nat.add_sub_cancel] at hlast
    rw [Nat.sub_zero, hlast]
    exact hcur
  | succ k ihk =>
    intro hk
    have hprev := ihk (by omega)
    have invk := h3 (n - (k+1)) (by rw [h1]; omega)
    have e : n - (k + 1) + 1 = n - k := by omega
    rw [e] at invk
    intro he
    have hp2 := invk.parents
    rw [he] at hp2
    obtain ⟨g, gs, hg⟩ := List.exists_cons_of_ne_nil hprev
    have gne := invk.lo_ne g (by rw [hg]; simp)
    obtain ⟨c, cs, hc⟩ := List.exists_cons_of_ne_nil gne
    rw [hg, hc] at hp2
    simp [runsOf, keys] at hp2
    have := runsAux_ne_nil (parent D) (parent D c, [c]) (cs ++ gs.flatten)
    simp_all

/-- **built trees, both grouping modes, every block size**: at every level the kernel calls of the
    upward (and downward) pass carry every (parent, child) link exactly once, in child order -/
theorem C01_links_of_built_tree' (D H bs : Nat) (mode : Bool) (leafIdx : List Nat) (hbs : 0 < bs) (hne : leafIdx ≠ []) (l : Nat) (hl : l + 1 < H) :
    linksOf (calls (parent D) ((Tree.build D H bs mode leafIdx).level l) ((Tree.build D H bs mode leafIdx).level (l+1))) =
      ((Tree.build D H bs mode leafIdx).level (l+1)).flatten.map (link (parent D)) := by
  have hleaf := C07_leaf_groups D H bs mode leafIdx hbs
  have hbuild : (Tree.build D H bs mode leafIdx).levels = buildLevels D bs mode (H - 1) (Tree.build D H bs mode leafIdx).leafGroups := by
    simp only [Tree.build]
    have : ¬ leafIdx.isEmpty = true := by simpa using hne
    simp [this, Tree.leafGroups]
  have hcur : (Tree.build D H bs mode leafIdx).leafGroups ≠ [] := by
    intro he
    have hst := C06_stored_perm D H bs mode leafIdx hbs
    have hlen := hst.length_eq
    simp only [Tree.stored, List.length_zipIdx] at hlen
    have : (Tree.build D H bs mode leafIdx).pgroups = [] := by simpa [Tree.leafGroups] using he
    rw [this] at hlen
    simp at hlen
    exact hne (List.eq_nil_of_length_eq_zero hlen.symm)
  obtain ⟨h1, h2, h3⟩ := buildLevels_inv D bs mode hbs (H - 1) _ (fun g hg => (hleaf.2 g hg).1) hleaf.1
  have inv := h3 l (by rw [h1]; omega)
  have hlo := buildLevels_level_ne D bs mode hbs (H - 1) _ (fun g hg => (hleaf.2 g hg).1) hleaf.1 hcur (H - 1 - (l + 1)) (by omega)
  have e : H - 1 - (H - 1 - (l + 1)) = l + 1 := by omega
  rw [e] at hlo
  simp only [Tree.level, hbuild]
  exact upward_links (parent D) _ _ inv.up_ne inv.lo_ne hlo inv.parents inv.sorted

end Tbfmm
