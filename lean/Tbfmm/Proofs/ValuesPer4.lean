import Tbfmm.Proofs.ValuesPer3
/-!
Periodic runs: counting the images.  For every image shift `K ∈ {-1,0,1}^D` of the source leaf `b`, the
target leaf `a` receives the image exactly once (by a transfer at one level, or by the direct pass in one
orientation), except the zero shift of the leaf itself.
-/
namespace Tbfmm

open FarInt

/-- sum of a level function over levels `v+1 … v+k` -/
def sumLv (f : Nat → Nat) : Nat → Nat → Nat
  | _, 0 => 0
  | v, k+1 => f (v+1) + sumLv f (v+1) k

theorem sumA_eq_sumLv (D L a : Nat) (A : Nat → Nat → Nat) (v k : Nat) :
    sumA D L a A v k = sumLv (fun ℓ => A ℓ (anc D L ℓ a)) v k := by
  induction k generalizing v with
  | zero => rfl
  | succ k ih => simp only [sumA, sumLv, ih]

theorem sumLv_congr (f g : Nat → Nat) (v k : Nat) (h : ∀ ℓ, v < ℓ → ℓ ≤ v + k → f ℓ = g ℓ) : sumLv f v k = sumLv g v k := by
  induction k generalizing v with
  | zero => rfl
  | succ k ih =>
    simp only [sumLv]
    rw [h (v+1) (by omega) (by omega), ih (v+1) (fun ℓ h1 h2 => h ℓ (by omega) (by omega))]

theorem sumLv_sumOver {α} (xs : List α) (g : Nat → α → Nat) (v k : Nat) :
    sumLv (fun ℓ => sumOver xs (g ℓ)) v k = sumOver xs (fun x => sumLv (fun ℓ => g ℓ x) v k) := by
  induction k generalizing v with
  | zero => simp [sumLv, sumOver_const_zero]
  | succ k ih =>
    simp only [sumLv]
    rw [ih, ← sumOver_add]

theorem sumLv_zero (f : Nat → Nat) (v k : Nat) (h : ∀ ℓ, v < ℓ → ℓ ≤ v + k → f ℓ = 0) : sumLv f v k = 0 := by
  induction k generalizing v with
  | zero => rfl
  | succ k ih =>
    simp only [sumLv]
    rw [h (v+1) (by omega) (by omega), ih (v+1) (fun ℓ h1 h2 => h ℓ (by omega) (by omega))]

theorem sumLv_indicator (f : Nat → Nat) (ℓ0 : Nat) (v k : Nat)
    (h : ∀ ℓ, v < ℓ → ℓ ≤ v + k → f ℓ = if ℓ = ℓ0 then 1 else 0) :
    sumLv f v k = if v < ℓ0 ∧ ℓ0 ≤ v + k then 1 else 0 := by
  induction k generalizing v with
  | zero =>
    simp only [sumLv]
    rw [if_neg (by omega)]
  | succ k ih =>
    simp only [sumLv]
    rw [h (v+1) (by omega) (by omega), ih (v+1) (fun ℓ h1 h2 => h ℓ (by omega) (by omega))]
    by_cases h1 : v + 1 = ℓ0
    · rw [if_pos h1, if_neg (by omega), if_pos (by omega)]
    · rw [if_neg h1]
      by_cases h2 : v + 1 < ℓ0 ∧ ℓ0 ≤ v + 1 + k
      · rw [if_pos h2, if_pos (by omega)]
      · rw [if_neg h2, if_neg (by omega)]

/-- unit image shifts -/
def unitShifts (D : Nat) : List (List Int) := imageShifts D true

theorem mem_unitShifts (D : Nat) (K : List Int) : K ∈ unitShifts D ↔ K.length = D ∧ ∀ x ∈ K, -1 ≤ x ∧ x ≤ 1 := by
  unfold unitShifts imageShifts
  simp only [if_true, mem_odometer]
  constructor
  · rintro ⟨hl, h⟩
    have hl' : K.length = D := by simpa using hl
    refine ⟨hl', ?_⟩
    intro x hx
    obtain ⟨i, hi, rfl⟩ := List.mem_iff_getElem.1 hx
    have := h i (by simp; omega) hi
    simpa using this
  · rintro ⟨hl, h⟩
    refine ⟨by simp [hl], ?_⟩
    intro i h1 h2
    have := h K[i] (List.getElem_mem h2)
    simpa using this

theorem nodup_unitShifts (D : Nat) : (unitShifts D).Nodup := by
  unfold unitShifts imageShifts
  simpa using nodup_odometer _

theorem shiftsAt_eq (D ℓ : Nat) : shiftsAt D ℓ = (unitShifts D).map fun K => K.map (· * (2:Int)^ℓ) := rfl

theorem odometer_length (D : Nat) : (odometer (List.replicate D ((-1:Int), (1:Int)))).length = 3^D := by
  induction D with
  | zero => simp [odometer]
  | succ D ih =>
    simp only [List.replicate_succ, odometer, List.length_flatMap, List.length_map, ih]
    have : ((1:Int) - -1 + 1).toNat = 3 := by decide
    rw [this]
    have r3 : List.range 3 = [0, 1, 2] := by decide
    rw [r3]
    simp only [List.map_cons, List.map_nil, List.sum_cons, List.sum_nil, Nat.pow_succ]
    omega

theorem unitShifts_length (D : Nat) : (unitShifts D).length = 3^D := by
  unfold unitShifts imageShifts
  simpa using odometer_length D

end Tbfmm
