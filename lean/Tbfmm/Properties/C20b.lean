import Tbfmm.Properties.C20
/-!
# C20, continued — closed forms of the mutual routine's source side and of the in-leaf routine
-/
namespace Tbfmm.C20

open Tbfmm

variable {K : Type} [Field K] (rs : K → K)

theorem r2_symm (s t : Part K) : r2 s t = r2 t s := by simp only [r2]; ring
theorem inv_symm (s t : Part K) : inv rs s t = inv rs t s := by simp only [inv, r2_symm]
theorem kfac_symm (s t : Part K) : kfac rs s t = kfac rs t s := by
  simp only [kfac, inv_symm rs s t, r2_symm s t]; ring

/-- what target `t` gains from the single source `s` -/
def term (t s : Part K) : Acc K := ⟨(s.x - t.x) * kfac rs s t, (s.y - t.y) * kfac rs s t, (s.z - t.z) * kfac rs s t, inv rs s t * s.q⟩

theorem Acc.plus_assoc (a b c : Acc K) : Acc.plus (Acc.plus a b) c = Acc.plus a (Acc.plus b c) := by
  simp only [Acc.plus, add_assoc]

theorem Acc.plus_zero (a : Acc K) : Acc.plus a ⟨0, 0, 0, 0⟩ = a := by
  cases a; simp [Acc.plus]

theorem gain_nil (t : Part K) : gain rs t [] = ⟨0, 0, 0, 0⟩ := by simp [gain]

theorem gain_cons (t s : Part K) (srcs : List (Part K)) : gain rs t (s :: srcs) = Acc.plus (term rs t s) (gain rs t srcs) := by
  simp [gain, term, Acc.plus]

theorem gain_append (t : Part K) (l1 l2 : List (Part K)) : gain rs t (l1 ++ l2) = Acc.plus (gain rs t l1) (gain rs t l2) := by
  simp [gain, Acc.plus]

/-- what the *source* of a mutual pair receives is what it would gain as the target of the exchanged pair
    (Newton's third law in closed form) -/
theorem recv_eq (s t : Part K) (r : Acc K) :
    (⟨r.fx - (s.x - t.x) * kfac rs s t, r.fy - (s.y - t.y) * kfac rs s t, r.fz - (s.z - t.z) * kfac rs s t, r.pot + inv rs s t * t.q⟩ : Acc K)
      = Acc.plus r (term rs s t) := by
  simp only [Acc.plus, term, kfac_symm rs t s, inv_symm rs t s]
  congr 1 <;> ring

/-- the source side of the mutual inner loop -/
theorem mutualInner_sources (t : Part K) (srcs : List (Part K × Acc K)) (acc : Acc K) (done : List (Part K × Acc K)) :
    (@mutualInner K (fieldScalar rs) t srcs acc done).2 = done.reverse ++ srcs.map (fun sr => (sr.1, Acc.plus sr.2 (term rs sr.1 t))) := by
  induction srcs generalizing acc done with
  | nil => simp [mutualInner]
  | cons sr rest ih =>
    obtain ⟨s, r⟩ := sr
    rw [C20_mutual_step, ih, recv_eq]
    simp

/-- **mutual routine, source side**: every source ends with its accumulators grown by what it gains, as a
    target, from all the targets — the mutual call equals the two one-sided calls -/
theorem C20_mutual_sources (srcs : List (Part K × Acc K)) (tgts : List (Part K × Acc K)) (doneT : List (Part K × Acc K)) :
    (@fullMutual K (fieldScalar rs) srcs tgts doneT).1 = srcs.map (fun sr => (sr.1, Acc.plus sr.2 (gain rs sr.1 (tgts.map (·.1))))) := by
  induction tgts generalizing srcs doneT with
  | nil =>
    simp only [fullMutual, List.map_nil, gain_nil, Acc.plus_zero]
    simp
  | cons ttr rest ih =>
    obtain ⟨t, tr⟩ := ttr
    simp only [fullMutual]
    rw [ih, mutualInner_sources]
    simp only [List.reverse_nil, List.nil_append, List.map_map, List.map_cons, gain_cons]
    apply List.map_congr_left
    intro sr _
    simp only [Function.comp, Acc.plus_assoc]

/-- one row of the in-leaf routine: the target gains from every later particle, every later particle gains
    from the target -/
theorem innerRow_eq (t : Part K) (tr : Acc K) (rest done : List (Part K × Acc K)) :
    @innerRow K (fieldScalar rs) t tr rest done =
      (Acc.plus tr (gain rs t (rest.map (·.1))), done.reverse ++ rest.map (fun sr => (sr.1, Acc.plus sr.2 (term rs sr.1 t)))) := by
  induction rest generalizing tr done with
  | nil => simp [innerRow, gain_nil, Acc.plus_zero]
  | cons sr rest ih =>
    obtain ⟨s, r⟩ := sr
    simp only [innerRow, pairTerms_eq, s_add, s_sub, s_mul]
    rw [ih, recv_eq]
    simp only [List.map_cons, gain_cons, List.reverse_cons, List.append_assoc, List.singleton_append]
    congr 1
    rw [← Acc.plus_assoc]
    rfl

theorem genericInnerF_length (f : Nat) (l : List (Part K × Acc K)) : (@genericInnerF K (fieldScalar rs) f l).length = l.length := by
  induction f generalizing l with
  | zero => simp [genericInnerF]
  | succ f ih =>
    cases l with
    | nil => simp [genericInnerF]
    | cons ttr rest =>
      obtain ⟨t, tr⟩ := ttr
      simp only [genericInnerF, innerRow_eq, List.reverse_nil, List.nil_append, List.length_cons, ih, List.length_map]

/-- **in-leaf routine, closed form**: with enough fuel, particle `i` ends with its accumulators grown by what it
    gains from every *other* particle of the leaf — each unordered pair once, in both directions, no self term -/
theorem genericInnerF_get (f : Nat) (l : List (Part K × Acc K)) (hf : l.length ≤ f) (i : Nat) (hi : i < l.length) :
    (@genericInnerF K (fieldScalar rs) f l)[i]? =
      some (l[i].1, Acc.plus l[i].2 (gain rs l[i].1 ((l.eraseIdx i).map (·.1)))) := by
  induction f generalizing l i with
  | zero => simp at hf; subst hf; simp at hi
  | succ f ih =>
    cases l with
    | nil => simp at hi
    | cons ttr rest =>
      obtain ⟨t, tr⟩ := ttr
      simp only [genericInnerF, innerRow_eq, List.reverse_nil, List.nil_append]
      cases i with
      | zero => simp
      | succ i =>
        have hi' : i < rest.length := by simpa using hi
        have hl : (rest.map (fun sr => (sr.1, Acc.plus sr.2 (term rs sr.1 t)))).length ≤ f := by
          simp only [List.length_map]; simp at hf; omega
        have := ih (rest.map (fun sr => (sr.1, Acc.plus sr.2 (term rs sr.1 t)))) hl i (by simpa using hi')
        simp only [List.getElem?_cons_succ, List.getElem_cons_succ, List.eraseIdx_cons_succ, List.map_cons]
        rw [this]
        simp only [List.getElem_map, List.eraseIdx_map, List.map_map, gain_cons, Option.some.injEq, Prod.mk.injEq, true_and]
        rw [Acc.plus_assoc]
        congr 2

/-- **C20, in-leaf routine** -/
theorem C20_inner (l : List (Part K × Acc K)) (i : Nat) (hi : i < l.length) :
    (@genericInner K (fieldScalar rs) l)[i]? = some (l[i].1, Acc.plus l[i].2 (gain rs l[i].1 ((l.eraseIdx i).map (·.1)))) :=
  genericInnerF_get rs l.length l (Nat.le_refl _) i hi

theorem C20_inner_length (l : List (Part K × Acc K)) : (@genericInner K (fieldScalar rs) l).length = l.length :=
  genericInnerF_length rs l.length l

/-! A concrete instance (the statements have no hypotheses besides `i < l.length`): the second of three
particles gains from the first and the third. -/
example (a b c : Part K) (z : Acc K) :
    (@genericInner K (fieldScalar rs) [(a, z), (b, z), (c, z)])[1]? = some (b, Acc.plus z (gain rs b [a, c])) :=
  C20_inner rs [(a, z), (b, z), (c, z)] 1 (by simp)

end Tbfmm.C20
