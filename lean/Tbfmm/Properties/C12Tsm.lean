import Tbfmm.Properties.C12
/-! C12 for the target/source executors: staged runs perform the calls of one full run -/
namespace Tbfmm

/-- sequential target/source executor: every cut of its chain `P2M, M2M, M2L, L2L, L2P, P2P` -/
theorem C12_split_tsm (tS tT : Tree) (periodic : Bool) (upper flags : Nat) (hf : flags < 64) (k : Nat) :
    executeTsm tS tT periodic flags upper false =
      executeTsm tS tT periodic (flags &&& seqPrefixMask k) upper false ++ executeTsm tS tT periodic (flags &&& (63 - seqPrefixMask k)) upper false := by
  have T := hasFlag_and_table flags hf
  have hm : seqPrefixMask k < 64 := by rcases k with _|_|_|_|_|_|k <;> simp [seqPrefixMask]
  have hm' : 63 - seqPrefixMask k < 64 := by omega
  have e1 := fun f hfm => T (seqPrefixMask k) hm f hfm
  have e2 := fun f hfm => T (63 - seqPrefixMask k) hm' f hfm
  unfold executeTsm
  simp only [flagP2M, flagM2M, flagM2L, flagL2L, flagL2P, flagP2P,
      e1 2 (by simp), e1 4 (by simp), e1 8 (by simp), e1 16 (by simp), e1 32 (by simp), e1 1 (by simp),
      e2 2 (by simp), e2 4 (by simp), e2 8 (by simp), e2 16 (by simp), e2 32 (by simp), e2 1 (by simp)]
  rcases k with _|_|_|_|_|_|k <;> simp [seqPrefixMask, hasFlag]

/-- task-based target/source executors (submission order `P2M, M2M, M2L, L2L, P2P, L2P`) -/
theorem C12_split_tsm_omp (tS tT : Tree) (periodic : Bool) (upper flags : Nat) (hf : flags < 64) (k : Nat) :
    executeTsm tS tT periodic flags upper true =
      executeTsm tS tT periodic (flags &&& ompPrefixMask k) upper true ++ executeTsm tS tT periodic (flags &&& (63 - ompPrefixMask k)) upper true := by
  have T := hasFlag_and_table flags hf
  have hm : ompPrefixMask k < 64 := by rcases k with _|_|_|_|_|_|k <;> simp [ompPrefixMask]
  have hm' : 63 - ompPrefixMask k < 64 := by omega
  have e1 := fun f hfm => T (ompPrefixMask k) hm f hfm
  have e2 := fun f hfm => T (63 - ompPrefixMask k) hm' f hfm
  unfold executeTsm
  simp only [flagP2M, flagM2M, flagM2L, flagL2L, flagL2P, flagP2P,
      e1 2 (by simp), e1 4 (by simp), e1 8 (by simp), e1 16 (by simp), e1 32 (by simp), e1 1 (by simp),
      e2 2 (by simp), e2 4 (by simp), e2 8 (by simp), e2 16 (by simp), e2 32 (by simp), e2 1 (by simp)]
  rcases k with _|_|_|_|_|_|k <;> simp [ompPrefixMask, hasFlag]

/-- each flag alone triggers only its own operator (target/source) -/
theorem C12_single_tsm (tS tT : Tree) (periodic : Bool) (upper : Nat) :
    executeTsm tS tT periodic flagP2M upper = p2mAll tS upper ∧
    executeTsm tS tT periodic flagM2M upper = m2mAll tS upper ∧
    executeTsm tS tT periodic flagL2L upper = l2lAll tT upper ∧
    executeTsm tS tT periodic flagL2P upper = l2pAll tT upper ∧
    executeTsm tS tT periodic flagP2P upper = p2pAllTsm tT.D periodic tT.H tT.leafGroups tS.leafGroups := by
  simp [executeTsm, hasFlag, flagP2M, flagM2M, flagM2L, flagL2L, flagL2P, flagP2P]

end Tbfmm
