import Tbfmm.Model.P2P
import Mathlib.Tactic.Ring
import Mathlib.Tactic.FieldSimp
import Mathlib.Algebra.BigOperators.Group.List.Basic
/-!
# C20 — the direct particle–particle routines implement the pairwise law, symmetrically

The routines of `Model/P2P.lean` (the same definitions that reproduce the C++ bit for bit at
`Float`/`Float32`) are instantiated at an arbitrary field `K` with an arbitrary function `rs` in the
place of `sqrt`.  The structural theorems hold for every `rs`; the physical law follows from the only
property of the square root that matters, `rs (1 / r²) = 1 / r`.
-/
namespace Tbfmm.C20

open Tbfmm

variable {K : Type} [Field K] (rs : K → K)

/-- the scalar interface of the model, interpreted in a field -/
@[reducible] def fieldScalar : Scalar K := ⟨(· + ·), (· - ·), (· * ·), (· / ·), rs, 1, 0⟩

theorem s_add (a b : K) : @Scalar.add K (fieldScalar rs) a b = a + b := rfl
theorem s_sub (a b : K) : @Scalar.sub K (fieldScalar rs) a b = a - b := rfl
theorem s_mul (a b : K) : @Scalar.mul K (fieldScalar rs) a b = a * b := rfl
theorem s_div (a b : K) : @Scalar.div K (fieldScalar rs) a b = a / b := rfl
theorem s_sqrt (a : K) : @Scalar.sqrt K (fieldScalar rs) a = rs a := rfl
theorem s_one : @Scalar.one K (fieldScalar rs) = 1 := rfl
theorem s_zero : @Scalar.zero K (fieldScalar rs) = 0 := rfl

def r2 (s t : Part K) : K := (s.x - t.x) * (s.x - t.x) + (s.y - t.y) * (s.y - t.y) + (s.z - t.z) * (s.z - t.z)
/-- `inv_distance` as computed by the routines -/
def inv (s t : Part K) : K := rs (1 / r2 s t)
/-- common factor of the three force components -/
def kfac (s t : Part K) : K := (1 / r2 s t) * inv rs s t * (t.q * s.q)

theorem pairTerms_eq (s t : Part K) :
    @pairTerms K (fieldScalar rs) s t =
      ((s.x - t.x) * kfac rs s t, (s.y - t.y) * kfac rs s t, (s.z - t.z) * kfac rs s t, inv rs s t) := by
  simp only [pairTerms, kfac, inv, r2, s_add, s_sub, s_mul, s_div, s_sqrt, s_one]

/-- what a target gains from a list of sources -/
def gain (t : Part K) (srcs : List (Part K)) : Acc K :=
  ⟨(srcs.map fun s => (s.x - t.x) * kfac rs s t).sum, (srcs.map fun s => (s.y - t.y) * kfac rs s t).sum,
   (srcs.map fun s => (s.z - t.z) * kfac rs s t).sum, (srcs.map fun s => inv rs s t * s.q).sum⟩

def Acc.plus (a b : Acc K) : Acc K := ⟨a.fx + b.fx, a.fy + b.fy, a.fz + b.fz, a.pot + b.pot⟩

theorem remoteInner_eq (t : Part K) (srcs : List (Part K)) (acc : Acc K) :
    @remoteInner K (fieldScalar rs) t srcs acc = Acc.plus acc (gain rs t srcs) := by
  induction srcs generalizing acc with
  | nil => simp [remoteInner, gain, Acc.plus]
  | cons s rest ih =>
    simp only [remoteInner, pairTerms_eq]
    rw [ih]
    simp only [Acc.plus, gain, List.map_cons, List.sum_cons, s_add, s_mul]
    congr 1 <;> ring

/-- **one-sided routine**: every target's accumulators grow by the sum, over the given sources, of the
    pair terms; sources are untouched (they are not even passed for writing) -/
theorem C20_remote (srcs : List (Part K)) (tgts : List (Part K × Acc K)) :
    @fullRemote K (fieldScalar rs) srcs tgts = tgts.map fun (t, tr) => (t, Acc.plus tr (Acc.plus ⟨0, 0, 0, 0⟩ (gain rs t srcs))) := by
  simp only [fullRemote]
  apply List.map_congr_left
  intro ⟨t, tr⟩ _
  simp only [remoteInner_eq]
  simp [Acc.plus, s_add, s_zero]

/-- the physical law: with `rs (1/r²) = 1/r` the potential term is `q_s / r` and the force term is
    `q_t q_s (x_s - x_t) / r³` -/
theorem C20_law (s t : Part K) (r : K) (hr : r ≠ 0) (hr2 : r2 s t = r * r) (hrs : rs (1 / (r * r)) = 1 / r) :
    inv rs s t * s.q = s.q / r ∧ (s.x - t.x) * kfac rs s t = t.q * s.q * (s.x - t.x) / (r * r * r) := by
  simp only [inv, kfac, hr2, hrs]
  constructor
  · field_simp
  · field_simp

/-- **Newton's third law, per pair**: in the mutual routine the source receives exactly the negation of
    the force term the target receives, and the potential term with the charges exchanged -/
theorem C20_mutual_step (t : Part K) (s : Part K) (r : Acc K) (rest : List (Part K × Acc K)) (acc : Acc K) (done : List (Part K × Acc K)) :
    @mutualInner K (fieldScalar rs) t ((s, r) :: rest) acc done =
      @mutualInner K (fieldScalar rs) t rest
        ⟨acc.fx + (s.x - t.x) * kfac rs s t, acc.fy + (s.y - t.y) * kfac rs s t, acc.fz + (s.z - t.z) * kfac rs s t, acc.pot + inv rs s t * s.q⟩
        ((s, ⟨r.fx - (s.x - t.x) * kfac rs s t, r.fy - (s.y - t.y) * kfac rs s t, r.fz - (s.z - t.z) * kfac rs s t, r.pot + inv rs s t * t.q⟩) :: done) := by
  simp only [mutualInner, pairTerms_eq, s_add, s_sub, s_mul]

/-- the target side of the mutual routine's inner loop is the one-sided inner loop -/
theorem mutualInner_target (t : Part K) (srcs : List (Part K × Acc K)) (acc : Acc K) (done : List (Part K × Acc K)) :
    (@mutualInner K (fieldScalar rs) t srcs acc done).1 = @remoteInner K (fieldScalar rs) t (srcs.map (·.1)) acc := by
  induction srcs generalizing acc done with
  | nil => simp [mutualInner, remoteInner]
  | cons sr rest ih =>
    obtain ⟨s, r⟩ := sr
    rw [C20_mutual_step, ih]
    simp only [List.map_cons, remoteInner, pairTerms_eq, s_add, s_mul]

/-- the source positions and charges are never modified by the mutual inner loop -/
theorem mutualInner_sources_parts (t : Part K) (srcs : List (Part K × Acc K)) (acc : Acc K) (done : List (Part K × Acc K)) :
    ((@mutualInner K (fieldScalar rs) t srcs acc done).2).map (·.1) = done.reverse.map (·.1) ++ srcs.map (·.1) := by
  induction srcs generalizing acc done with
  | nil => simp [mutualInner]
  | cons sr rest ih =>
    obtain ⟨s, r⟩ := sr
    rw [C20_mutual_step, ih]
    simp

/-- **mutual = one-sided on the target side**: the targets end with exactly the values the one-sided
    routine gives them -/
theorem C20_mutual_targets (srcs : List (Part K × Acc K)) (tgts : List (Part K × Acc K)) (doneT : List (Part K × Acc K)) :
    (@fullMutual K (fieldScalar rs) srcs tgts doneT).2 = doneT.reverse ++ @fullRemote K (fieldScalar rs) (srcs.map (·.1)) tgts := by
  induction tgts generalizing srcs doneT with
  | nil => simp [fullMutual, fullRemote]
  | cons ttr rest ih =>
    obtain ⟨t, tr⟩ := ttr
    simp only [fullMutual]
    rw [ih]
    have h1 := mutualInner_target rs t srcs ⟨@Scalar.zero K (fieldScalar rs), @Scalar.zero K (fieldScalar rs), @Scalar.zero K (fieldScalar rs), @Scalar.zero K (fieldScalar rs)⟩ []
    have h2 := mutualInner_sources_parts rs t srcs ⟨@Scalar.zero K (fieldScalar rs), @Scalar.zero K (fieldScalar rs), @Scalar.zero K (fieldScalar rs), @Scalar.zero K (fieldScalar rs)⟩ []
    simp only [List.reverse_nil, List.map_nil, List.nil_append] at h2
    simp only [fullRemote, List.map_cons, List.reverse_cons, List.append_assoc, List.singleton_append]
    rw [h2]
    congr 2
    rw [← h1]

/-- empty inputs: nothing changes -/
theorem C20_empty (tgts : List (Part K × Acc K)) :
    (@fullRemote K (fieldScalar rs) [] tgts = tgts.map (fun x => (x.1, (⟨x.2.fx + 0, x.2.fy + 0, x.2.fz + 0, x.2.pot + 0⟩ : Acc K)))) ∧
    @genericInner K (fieldScalar rs) [] = [] := by
  constructor
  · simp [fullRemote, remoteInner, s_add, s_zero]
  · simp [genericInner, genericInnerF]

/-- a single particle interacts with nobody in the in-leaf routine (no self term) -/
theorem C20_single (t : Part K) (tr : Acc K) : @genericInner K (fieldScalar rs) [(t, tr)] = [(t, tr)] := by
  simp [genericInner, genericInnerF, innerRow]

end Tbfmm.C20
