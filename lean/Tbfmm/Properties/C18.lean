import Tbfmm.Spec.Fmm
/-!
# C18 — interaction counters report the true number of elementary interactions
-/
namespace Tbfmm

/-- `TbfInteractionCounter::Counters` -/
structure Counters where
  p2m : Nat := 0
  m2m : Nat := 0
  m2l : Nat := 0
  l2l : Nat := 0
  l2p : Nat := 0
  p2p : Nat := 0
  p2pInner : Nat := 0
deriving Repr, DecidableEq

/-- `Counters::Reduce` -/
def Counters.reduce (a b : Counters) : Counters :=
  ⟨a.p2m + b.p2m, a.m2m + b.m2m, a.m2l + b.m2l, a.l2l + b.l2l, a.l2p + b.l2p, a.p2p + b.p2p, a.p2pInner + b.p2pInner⟩

/-- what one wrapped kernel call adds (`n leaf` = number of particles of a leaf) -/
def countCall (n : Nat → Nat) : Call → Counters
  | .p2m _ _ => { p2m := 1 }
  | .m2m _ _ ch => { m2m := ch.length }
  | .m2l _ _ ss => { m2l := ss.length }
  | .l2l _ _ ch => { l2l := ch.length }
  | .l2p _ _ => { l2p := 1 }
  | .p2p s t _ => { p2p := n s * n t }
  | .p2pTsm s t _ => { p2p := n s * n t }
  | .p2pInner l => { p2pInner := n l * n l - n l }

/-- what one elementary interaction counts for -/
def countElem (n : Nat → Nat) : Elem → Counters
  | .p2m _ _ => { p2m := 1 }
  | .m2m .. => { m2m := 1 }
  | .m2l .. => { m2l := 1 }
  | .l2l .. => { l2l := 1 }
  | .l2p _ _ => { l2p := 1 }
  | .p2p s t _ => { p2p := n s * n t }
  | .p2pTsm s t _ => { p2p := n s * n t }
  | .p2pInner l => { p2pInner := n l * n l - n l }

def total (cs : List Counters) : Counters := cs.foldl Counters.reduce {}

theorem reduce_comm (a b : Counters) : a.reduce b = b.reduce a := by
  simp [Counters.reduce, Nat.add_comm]

theorem reduce_assoc (a b c : Counters) : (a.reduce b).reduce c = a.reduce (b.reduce c) := by
  simp [Counters.reduce, Nat.add_assoc]

theorem reduce_zero (a : Counters) : a.reduce {} = a ∧ ({} : Counters).reduce a = a := by
  cases a; simp [Counters.reduce]

theorem foldl_reduce (cs : List Counters) (a : Counters) : cs.foldl Counters.reduce a = a.reduce (total cs) := by
  induction cs generalizing a with
  | nil => simp [total, (reduce_zero a).1]
  | cons c cs ih =>
    simp only [List.foldl_cons, total]
    rw [ih, ih ((({} : Counters)).reduce c), (reduce_zero c).2, reduce_assoc]

theorem total_append (xs ys : List Counters) : total (xs ++ ys) = (total xs).reduce (total ys) := by
  simp only [total, List.foldl_append]
  rw [foldl_reduce ys]; rfl

/-- merging per-worker counters is independent of the order of the merge -/
theorem C18_merge_perm {xs ys : List Counters} (h : xs.Perm ys) : total xs = total ys := by
  induction h with
  | nil => rfl
  | cons c _ ih =>
    have e : ∀ l, total (c :: l) = c.reduce (total l) := by
      intro l; simp only [total, List.foldl_cons]; rw [foldl_reduce, (reduce_zero c).2]; rfl
    rw [e, e, ih]
  | swap a b l =>
    have e : ∀ (c : Counters) l, total (c :: l) = c.reduce (total l) := by
      intro c l; simp only [total, List.foldl_cons]; rw [foldl_reduce, (reduce_zero c).2]; rfl
    rw [e, e, e, e, ← reduce_assoc, ← reduce_assoc, reduce_comm b a]
  | trans _ _ ih1 ih2 => exact ih1.trans ih2

/-- the counters of a call list are the counters of its elementary interactions: batching sources
    into calls does not matter -/
theorem countCall_eq_elems (n : Nat → Nat) (c : Call) : countCall n c = total ((elemsOfCall c).map (countElem n)) := by
  have ones : ∀ (l : List (Nat × Nat)) (f : Nat × Nat → Elem) (g : Nat → Counters)
      (hg0 : g 0 = {}) (hgs : ∀ k, g (k+1) = (g k).reduce (g 1)) (hf : ∀ x, countElem n (f x) = g 1),
      total ((l.map f).map (countElem n)) = g l.length := by
    intro l f g hg0 hgs hf
    have e : ∀ (x : Counters) l, total (x :: l) = x.reduce (total l) := by
      intro x l; simp only [total, List.foldl_cons]; rw [foldl_reduce, (reduce_zero x).2]; rfl
    induction l with
    | nil => simp [total, hg0]
    | cons x l ih =>
      simp only [List.map_cons, e, ih, hf, List.length_cons]
      rw [hgs (List.length l), reduce_comm]
  cases c with
  | p2m l ps => simp [countCall, elemsOfCall, countElem, total, Counters.reduce]
  | l2p l ps => simp [countCall, elemsOfCall, countElem, total, Counters.reduce]
  | p2p s t c => simp [countCall, elemsOfCall, countElem, total, Counters.reduce]
  | p2pTsm s t c => simp [countCall, elemsOfCall, countElem, total, Counters.reduce]
  | p2pInner l => simp [countCall, elemsOfCall, countElem, total, Counters.reduce]
  | m2m lvl p ch =>
    simp only [countCall, elemsOfCall]
    exact (ones ch (fun c => Elem.m2m lvl p c.1 c.2) (fun k => { m2m := k }) rfl (by intro k; simp [Counters.reduce]) (by intro x; rfl)).symm
  | m2l lvl p ch =>
    simp only [countCall, elemsOfCall]
    exact (ones ch (fun c => Elem.m2l lvl p c.1 c.2) (fun k => { m2l := k }) rfl (by intro k; simp [Counters.reduce]) (by intro x; rfl)).symm
  | l2l lvl p ch =>
    simp only [countCall, elemsOfCall]
    exact (ones ch (fun c => Elem.l2l lvl p c.1 c.2) (fun k => { l2l := k }) rfl (by intro k; simp [Counters.reduce]) (by intro x; rfl)).symm

theorem C18_counts_are_elems (n : Nat → Nat) (cs : List Call) :
    total (cs.map (countCall n)) = total ((cs.flatMap elemsOfCall).map (countElem n)) := by
  induction cs with
  | nil => rfl
  | cons c cs ih =>
    have e : ∀ (x : Counters) l, total (x :: l) = x.reduce (total l) := by
      intro x l; simp only [total, List.foldl_cons]; rw [foldl_reduce, (reduce_zero x).2]; rfl
    simp only [List.map_cons, List.flatMap_cons, List.map_append, total_append, e, ih, countCall_eq_elems]

/-- any distribution of the calls over workers (any interleaving, any assignment) merges to the
    counters of the whole call list -/
theorem C18_workers (n : Nat → Nat) (perWorker : List (List Call)) (all : List Call) (h : perWorker.flatten.Perm all) :
    total (perWorker.map fun w => total (w.map (countCall n))) = total (all.map (countCall n)) := by
  have flat : ∀ (ws : List (List Call)), total (ws.map fun w => total (w.map (countCall n))) = total (ws.flatten.map (countCall n)) := by
    intro ws
    induction ws with
    | nil => rfl
    | cons w ws ih =>
      have e : ∀ (x : Counters) l, total (x :: l) = x.reduce (total l) := by
        intro x l; simp only [total, List.foldl_cons]; rw [foldl_reduce, (reduce_zero x).2]; rfl
      simp only [List.map_cons, List.flatten_cons, List.map_append, total_append, e, ih]
  rw [flat]
  exact C18_merge_perm (h.map _)

example : total [({ p2m := 1 } : Counters), { m2l := 3 }] = { p2m := 1, m2l := 3 } := by decide

end Tbfmm
