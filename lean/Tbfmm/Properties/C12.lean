import Tbfmm.Model.Exec
/-!
# C12 — operator flags compose: staged runs equal a full run, each flag triggers only its operator,
nothing is applied above the upper working level
-/
namespace Tbfmm

/-- masks of the first `k` operators of the sequential if-chain `P2M, M2M, M2L, L2L, L2P, P2P` -/
def seqPrefixMask : Nat → Nat
  | 0 => 0
  | 1 => 2
  | 2 => 2 + 4
  | 3 => 2 + 4 + 8
  | 4 => 2 + 4 + 8 + 16
  | 5 => 2 + 4 + 8 + 16 + 32
  | _ => 63

/-- masks of the first `k` operators of the OpenMP submission chain `P2M, M2M, M2L, L2L, P2P, L2P` -/
def ompPrefixMask : Nat → Nat
  | 0 => 0
  | 1 => 2
  | 2 => 2 + 4
  | 3 => 2 + 4 + 8
  | 4 => 2 + 4 + 8 + 16
  | 5 => 2 + 4 + 8 + 16 + 1
  | _ => 63

theorem hasFlag_and_table : ∀ flags < 64, ∀ mask < 64, ∀ f ∈ [1, 2, 4, 8, 16, 32],
    hasFlag (flags &&& mask) f = (hasFlag flags f && hasFlag mask f) := by decide

/-- a run with flag set `flags` equals the run of the flags before the cut followed by the run of
    the flags after it, for every cut of the executor's chain: staged execution in dependency order
    performs exactly the kernel calls of one full run, in the same order (sequential executor) -/
theorem C12_split_seq (t : Tree) (periodic : Bool) (upper flags : Nat) (hf : flags < 64) (k : Nat) :
    executeSeq t periodic flags upper =
      executeSeq t periodic (flags &&& seqPrefixMask k) upper ++ executeSeq t periodic (flags &&& (63 - seqPrefixMask k)) upper := by
  have T := hasFlag_and_table flags hf
  have hm : seqPrefixMask k < 64 := by rcases k with _|_|_|_|_|_|k <;> simp [seqPrefixMask]
  have hm' : 63 - seqPrefixMask k < 64 := by omega
  have e1 := fun f hfm => T (seqPrefixMask k) hm f hfm
  have e2 := fun f hfm => T (63 - seqPrefixMask k) hm' f hfm
  unfold executeSeq
  simp only [flagP2M, flagM2M, flagM2L, flagL2L, flagL2P, flagP2P,
      e1 2 (by simp), e1 4 (by simp), e1 8 (by simp), e1 16 (by simp), e1 32 (by simp), e1 1 (by simp),
      e2 2 (by simp), e2 4 (by simp), e2 8 (by simp), e2 16 (by simp), e2 32 (by simp), e2 1 (by simp)]
  rcases k with _|_|_|_|_|_|k <;> simp [seqPrefixMask, hasFlag]

/-- the same for the OpenMP executor's submission chain -/
theorem C12_split_omp (t : Tree) (periodic : Bool) (upper flags : Nat) (hf : flags < 64) (k : Nat) :
    executeOmp t periodic flags upper =
      executeOmp t periodic (flags &&& ompPrefixMask k) upper ++ executeOmp t periodic (flags &&& (63 - ompPrefixMask k)) upper := by
  have T := hasFlag_and_table flags hf
  have hm : ompPrefixMask k < 64 := by rcases k with _|_|_|_|_|_|k <;> simp [ompPrefixMask]
  have hm' : 63 - ompPrefixMask k < 64 := by omega
  have e1 := fun f hfm => T (ompPrefixMask k) hm f hfm
  have e2 := fun f hfm => T (63 - ompPrefixMask k) hm' f hfm
  unfold executeOmp
  simp only [flagP2M, flagM2M, flagM2L, flagL2L, flagL2P, flagP2P,
      e1 2 (by simp), e1 4 (by simp), e1 8 (by simp), e1 16 (by simp), e1 32 (by simp), e1 1 (by simp),
      e2 2 (by simp), e2 4 (by simp), e2 8 (by simp), e2 16 (by simp), e2 32 (by simp), e2 1 (by simp)]
  rcases k with _|_|_|_|_|_|k <;> simp [ompPrefixMask, hasFlag]

/-- each flag alone triggers only its own operator -/
theorem C12_single (t : Tree) (periodic : Bool) (upper : Nat) :
    executeSeq t periodic flagP2M upper = p2mAll t upper ∧
    executeSeq t periodic flagM2M upper = m2mAll t upper ∧
    executeSeq t periodic flagM2L upper = m2lAll t periodic upper ∧
    executeSeq t periodic flagL2L upper = l2lAll t upper ∧
    executeSeq t periodic flagL2P upper = l2pAll t upper ∧
    executeSeq t periodic flagP2P upper = p2pAll t.D periodic t.H t.leafGroups := by
  simp [executeSeq, hasFlag, flagP2M, flagM2M, flagM2L, flagL2L, flagL2P, flagP2P]

/-- no upward / downward translation above the upper working level or below level `H-2`, no transfer
    above the upper working level or below the leaf level -/
theorem C12_upper_levels (H upper : Nat) :
    (∀ l ∈ midLevels H upper, upper ≤ l ∧ l + 2 ≤ H) ∧ (∀ l ∈ m2lLevels H upper, upper ≤ l ∧ l + 1 ≤ H) := by
  constructor <;> intro l hl <;> simp only [midLevels, m2lLevels, List.mem_filter, List.mem_range, decide_eq_true_eq] at hl <;> omega

theorem C12_leaf_ops_guard (t : Tree) (upper : Nat) (h : ¬ t.H > upper) : p2mAll t upper = [] ∧ l2pAll t upper = [] := by
  simp [p2mAll, l2pAll, h]

/-- every M2M / L2L call of a run carries a parent level in `[upper, H-2]` -/
theorem C12_m2m_levels (t : Tree) (upper : Nat) : ∀ c ∈ m2mAll t upper, ∃ l p ch, c = Call.m2m l p ch ∧ upper ≤ l ∧ l + 2 ≤ t.H := by
  intro c hc
  simp only [m2mAll, List.mem_flatMap, List.mem_reverse] at hc
  obtain ⟨l, hl, hc⟩ := hc
  simp only [m2mLevel, List.mem_map] at hc
  obtain ⟨r, _, rfl⟩ := hc
  have := (C12_upper_levels t.H upper).1 l hl
  exact ⟨l, r.1, _, rfl, this.1, this.2⟩

-- non-vacuity: a concrete staging
example : seqPrefixMask 2 = 6 ∧ 63 - seqPrefixMask 2 = 57 := by decide

/-- the documented splits partition the full set: bottom-to-top / transfer / top-to-bottom, and near / far, are pairwise
    disjoint and cover all six operators; the near field is P2P alone and the far field holds no P2P -/
theorem C12_alias_partition :
    flagBottomToTop ||| flagTransfer ||| flagTopToBottom = 63 ∧
    flagBottomToTop &&& flagTransfer = 0 ∧ flagBottomToTop &&& flagTopToBottom = 0 ∧ flagTransfer &&& flagTopToBottom = 0 ∧
    flagNearField ||| flagFarField = 63 ∧ flagNearField &&& flagFarField = 0 ∧ flagNearAndFar = 63 ∧
    hasFlag flagFarField flagP2P = false ∧
    (∀ f ∈ [flagP2M, flagM2M, flagM2L, flagL2L, flagL2P], hasFlag flagNearField f = false ∧ hasFlag flagFarField f = true) := by decide

/-- far field then near field is a cut of the sequential chain (P2P is its last operator): the two calls perform exactly the
    kernel calls of one full run, in the same order -/
theorem C12_far_then_near (t : Tree) (periodic : Bool) (upper : Nat) :
    executeSeq t periodic flagNearAndFar upper = executeSeq t periodic flagFarField upper ++ executeSeq t periodic flagNearField upper := by
  have h := C12_split_seq t periodic upper 63 (by decide) 5
  have e1 : (63 &&& seqPrefixMask 5) = flagFarField := by decide
  have e2 : (63 &&& (63 - seqPrefixMask 5)) = flagNearField := by decide
  have e3 : flagNearAndFar = 63 := by decide
  rw [e1, e2] at h
  rw [e3]; exact h

end Tbfmm
