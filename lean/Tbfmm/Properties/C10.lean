import Tbfmm.Model.Periodic
/-!
# C10 — periodic mode: every image box of the repetition interval is reached exactly once

Image offsets are vectors `k : List Int` (one entry per dimension, in units of the real box).
At extended level `l` (`3 ≤ l ≤ n+3`) the super-box has `w = 2^(n+3-l)` real boxes per dimension and
its low corner is the real box.  A transfer at level `l` sums the copies of the super-box at offsets
`o ∈ window \ [-1,1]^D`; the copy at offset `o` covers the images `k` with `⌊k_d / w⌋ = o_d`.
-/
namespace Tbfmm.C10

def inBox (lo hi : Int) (k : List Int) : Prop := ∀ x ∈ k, lo ≤ x ∧ x ≤ hi

/-- width (in real boxes) of the super-box of extended level `l` -/
def w (n l : Nat) : Int := 2 ^ (n + 3 - l)

/-- images inside the 3^D super-boxes around the real one at level `l`: `⌊k_d / w⌋ ∈ [-1, 1]` -/
def adjL (n l : Nat) (k : List Int) : Prop := inBox (-(w n l)) (2 * w n l - 1) k

/-- images summed by the transfer of level `l` (`n ≥ 1`): window `[-3,2]` at level 3, `[-2,3]` above,
    minus the adjacent super-boxes -/
def winL (n l : Nat) (k : List Int) : Prop :=
  (if l = 3 then inBox (-3 * w n l) (3 * w n l - 1) k else inBox (-2 * w n l) (4 * w n l - 1) k) ∧ ¬ adjL n l k

theorem w_pos (n l : Nat) : 0 < w n l := by unfold w; exact Int.pow_pos (by omega)

theorem w_succ (n l : Nat) (h : l + 1 ≤ n + 3) : w n l = 2 * w n (l + 1) := by
  unfold w
  have : n + 3 - l = (n + 3 - (l + 1)) + 1 := by omega
  rw [this, Int.pow_succ]; omega

theorem w_top (n : Nat) : w n (n + 3) = 1 := by unfold w; simp
theorem w_three (n : Nat) : w n 3 = 2 ^ n := by unfold w; simp

/-- the code-level window test is the box test: for `w > 0`, `lo ≤ ⌊x / w⌋ ≤ hi ↔ lo·w ≤ x ≤ (hi+1)·w − 1` -/
theorem floor_window (x wd lo hi : Int) (hw : 0 < wd) : (lo ≤ x / wd ∧ x / wd ≤ hi) ↔ (lo * wd ≤ x ∧ x ≤ (hi + 1) * wd - 1) := by
  constructor
  · intro ⟨h1, h2⟩
    have a := (Int.le_ediv_iff_mul_le hw).mp h1
    have b : x / wd < hi + 1 := by omega
    have c := (Int.ediv_lt_iff_lt_mul hw).mp b
    omega
  · intro ⟨h1, h2⟩
    have a := (Int.le_ediv_iff_mul_le hw).mpr h1
    have b : x / wd < hi + 1 := (Int.ediv_lt_iff_lt_mul hw).mpr (by omega)
    omega

/-- the adjacent regions are nested: going one level up doubles the super-box -/
theorem adj_mono (n l : Nat) (h : l + 1 ≤ n + 3) (k : List Int) : adjL n (l + 1) k → adjL n l k := by
  intro hk x hx
  have := hk x hx
  have hw := w_succ n l h
  have hp := w_pos n (l + 1)
  unfold adjL inBox at *
  omega

/-- above level 3 the window of a level is exactly the adjacent region of the level below it in the
    hierarchy (one level up in the tree) -/
theorem window_eq_adj (n l : Nat) (h3 : 3 < l) (h : l ≤ n + 3) (k : List Int) :
    inBox (-2 * w n l) (4 * w n l - 1) k ↔ adjL n (l - 1) k := by
  have hw := w_succ n (l - 1) (by omega)
  have e : l - 1 + 1 = l := by omega
  rw [e] at hw
  unfold adjL inBox
  constructor <;> intro hk x hx <;> have := hk x hx <;> omega

/-- the top window together with the level-3 adjacent region is the reported interval -/
theorem adj_three_sub (n : Nat) (k : List Int) : adjL n 3 k → inBox (-3 * 2 ^ n) (3 * 2 ^ n - 1) k := by
  intro hk x hx
  have := hk x hx
  have hw := w_three n
  have hp := w_pos n 3
  unfold adjL inBox at *
  omega

/-- a decreasing chain of predicates on `[lo, hi]` that holds at `lo` either holds at `hi` or switches
    off at exactly one place -/
theorem chain_switch (P : Nat → Prop) (lo hi : Nat) (hle : lo ≤ hi)
    (down : ∀ l, lo ≤ l → l < hi → P (l + 1) → P l) (h0 : P lo) :
    P hi ∨ ∃ l, (lo < l ∧ l ≤ hi ∧ P (l - 1) ∧ ¬ P l) := by
  by_cases hh : P hi
  · exact Or.inl hh
  · right
    have ex : ∀ g j, lo ≤ j → j + g = hi → P j → ∃ l, j < l ∧ l ≤ hi ∧ P (l - 1) ∧ ¬ P l := by
      intro g
      induction g with
      | zero => intro j _ he hp; exfalso; have : j = hi := by omega
                subst this; exact hh hp
      | succ g ih =>
        intro j hj he hp
        by_cases hn : P (j + 1)
        · obtain ⟨l, a, b, c, d⟩ := ih (j + 1) (by omega) (by omega) hn
          exact ⟨l, by omega, b, c, d⟩
        · exact ⟨j + 1, by omega, by omega, by simpa using hp, hn⟩
    obtain ⟨l, a, b, c, d⟩ := ex (hi - lo) lo (Nat.le_refl _) (by omega) h0
    exact ⟨l, a, b, c, d⟩

theorem chain_mono (P : Nat → Prop) (lo hi : Nat) (down : ∀ l, lo ≤ l → l < hi → P (l + 1) → P l) :
    ∀ d l, lo ≤ l → l + d ≤ hi → P (l + d) → P l := by
  intro d
  induction d with
  | zero => intro l _ _ h; simpa using h
  | succ d ih =>
    intro l hl hh h
    exact ih l hl (by omega) (down (l + d) (by omega) (by omega) (by simpa [Nat.add_assoc] using h))

/-- **coverage**: for `n ≥ 1`, an image offset lies in the reported interval `[-3·2^n, 3·2^n − 1]^D`
    iff it is reached by the regular periodic pass (the adjacent boxes `[-1,1]^D`) or by the transfer
    of some level of the top tree -/
theorem C10_cover (n : Nat) (k : List Int) :
    inBox (-3 * 2 ^ n) (3 * 2 ^ n - 1) k ↔ (adjL n (n + 3) k ∨ ∃ l, 3 ≤ l ∧ l ≤ n + 3 ∧ winL n l k) := by
  constructor
  · intro hB
    -- P 2 := interval, P l := adjL l for l ≥ 3
    let P : Nat → Prop := fun l => if l ≤ 2 then inBox (-3 * 2 ^ n) (3 * 2 ^ n - 1) k else adjL n l k
    have down : ∀ l, 2 ≤ l → l < n + 3 → P (l + 1) → P l := by
      intro l hl hlt hp
      simp only [P] at hp ⊢
      by_cases h2 : l ≤ 2
      · have : l = 2 := by omega
        subst this
        simp only [show ¬ (2 + 1 ≤ 2) by omega, if_false] at hp
        simp only [Nat.le_refl, if_true]
        exact adj_three_sub n k hp
      · simp only [h2, show ¬ (l + 1 ≤ 2) by omega, if_false] at hp ⊢
        exact adj_mono n l (by omega) k hp
    rcases chain_switch P 2 (n + 3) (by omega) down (by simp [P]; exact hB) with h | ⟨l, h1, h2, h3, h4⟩
    · left; simpa [P, show ¬ (n + 3 ≤ 2) by omega] using h
    · right
      refine ⟨l, by omega, h2, ?_⟩
      simp only [P, show ¬ (l ≤ 2) by omega, if_false] at h4
      unfold winL
      by_cases hl3 : l = 3
      · subst hl3
        simp only [P, show (3 - 1 ≤ 2) by omega, if_true] at h3
        simp only [if_true]
        rw [w_three]
        exact ⟨h3, h4⟩
      · simp only [hl3, if_false]
        simp only [P, show ¬ (l - 1 ≤ 2) by omega, if_false] at h3
        exact ⟨(window_eq_adj n l (by omega) h2 k).mpr h3, h4⟩
  · rintro (h | ⟨l, h3, hl, hw⟩)
    · -- adjL (n+3) → … → adjL 3 → interval
      have mono := chain_mono (fun l => adjL n l k) 3 (n + 3) (fun l hl hlt hp => adj_mono n l (by omega) k hp) n 3 (Nat.le_refl _) (by omega)
        (by simpa [Nat.add_comm] using h)
      exact adj_three_sub n k mono
    · unfold winL at hw
      by_cases hl3 : l = 3
      · subst hl3
        simp only [if_true] at hw
        rw [w_three] at hw
        exact hw.1
      · simp only [hl3, if_false] at hw
        have ha := (window_eq_adj n l (by omega) hl k).mp hw.1
        have mono := chain_mono (fun l => adjL n l k) 3 (n + 3) (fun l hl hlt hp => adj_mono n l (by omega) k hp) (l - 1 - 3) 3 (Nat.le_refl _) (by omega)
          (by have : 3 + (l - 1 - 3) = l - 1 := by omega
              rw [this]; exact ha)
        exact adj_three_sub n k mono

/-- **exactly once**: the regular pass and the transfers of different levels never reach the same image -/
theorem C10_disjoint (n : Nat) (k : List Int) :
    (adjL n (n + 3) k → ∀ l, 3 ≤ l → l ≤ n + 3 → ¬ winL n l k) ∧
    (∀ l l', 3 ≤ l → l < l' → l' ≤ n + 3 → winL n l k → ¬ winL n l' k) := by
  have mono : ∀ a b, 3 ≤ a → a ≤ b → b ≤ n + 3 → adjL n b k → adjL n a k := by
    intro a b ha hab hb h
    have := chain_mono (fun l => adjL n l k) 3 (n + 3) (fun l hl hlt hp => adj_mono n l (by omega) k hp) (b - a) a ha (by omega)
      (by have : a + (b - a) = b := by omega
          rw [this]; exact h)
    exact this
  constructor
  · intro h l h3 hl hw
    exact hw.2 (mono l (n + 3) h3 hl (Nat.le_refl _) h)
  · intro l l' h3 hlt hl' hw hw'
    -- winL l' gives adjL (l'-1) (as l' > 3), hence adjL l, contradicting winL l
    unfold winL at hw'
    have hne : ¬ l' = 3 := by omega
    simp only [hne, if_false] at hw'
    have ha := (window_eq_adj n l' (by omega) hl' k).mp hw'.1
    exact hw.2 (mono l (l' - 1) h3 (by omega) (by omega) ha)

/-- within one level every image is summed at most once: the copy that contains `k` is the one at
    offset `⌊k / w⌋`, and the window / adjacency tests of the code are tests on that offset -/
theorem C10_offset_unique (wd : Int) (hw : 0 < wd) (x o : Int) : (o * wd ≤ x ∧ x ≤ o * wd + wd - 1) ↔ o = x / wd := by
  constructor
  · intro ⟨h1, h2⟩
    have a := (Int.le_ediv_iff_mul_le hw).mpr h1
    have b : x / wd < o + 1 := (Int.ediv_lt_iff_lt_mul hw).mpr (by
      have : (o + 1) * wd = o * wd + wd := by rw [Int.add_mul]; omega
      omega)
    omega
  · intro h
    subst h
    have a := Int.ediv_mul_le x (Int.ne_of_gt hw)
    have b := Int.lt_ediv_add_one_mul_self x hw
    have : (x / wd + 1) * wd = x / wd * wd + wd := by rw [Int.add_mul]; omega
    omega

/-- `n = 0`: a single transfer at level 3 with window `[-3,3]^D` minus the adjacent boxes: interval `[-3,3]^D` -/
theorem C10_cover_zero (k : List Int) :
    inBox (-3) 3 k ↔ (inBox (-1) 1 k ∨ (inBox (-3) 3 k ∧ ¬ inBox (-1) 1 k)) := by
  constructor
  · intro h
    by_cases h1 : inBox (-1) 1 k
    · exact Or.inl h1
    · exact Or.inr ⟨h, h1⟩
  · rintro (h | h)
    · intro x hx; have := h x hx; omega
    · exact h.1

/-- the reported numbers: `6·2^n` repetitions per dimension for `n ≥ 1`, interval `[-3·2^n, 3·2^n − 1]` -/
theorem C10_interval_size (n : Nat) : (3 * 2 ^ n - 1 : Int) - (-3 * 2 ^ n) + 1 = 6 * 2 ^ n := by omega

-- non-vacuity: n = 1, D = 2; the image (5, -6) is reached by the level-3 window only
example : inBox (-3 * 2 ^ 1) (3 * 2 ^ 1 - 1) [5, -6] := by
  intro x hx; simp at hx; rcases hx with rfl | rfl <;> omega

end Tbfmm.C10

namespace Tbfmm.C10
open Tbfmm

/-- the transfers the model of the top tree performs (hence, by the correspondence, the library) are
    exactly one per level `3 … n+3`, with the windows `[-3,2]` at level 3 and `[-2,3]` above -/
theorem topTree_transfers (D n : Nat) (hn : 1 ≤ n) (level1 : List Nat) (l : Nat) (codes : List Nat) :
    TopCall.m2l l codes ∈ topTreeCalls D (n : Int) level1 ↔
      (3 ≤ l ∧ l ≤ n + 3 ∧ codes = (if l = 3 then windowCodes D (-3) 2 else windowCodes D (-2) 3)) := by
  have hn0 : ¬ ((n : Int) < 0) := by omega
  have hne : ¬ n = 0 := by omega
  simp only [topTreeCalls, hn0, if_false, Int.toNat_natCast, hne, List.mem_append, List.mem_cons, List.mem_map,
    List.not_mem_nil, or_false, levelsUp, levelsDown, List.mem_filter, List.mem_range, decide_eq_true_eq, List.mem_reverse]
  constructor
  · intro h
    rcases h with ((h | ⟨a, ha, h⟩) | ⟨a, _, h⟩) | h
    · rcases h with h | ⟨a, _, h⟩
      · cases h
      · cases h
    · injection h with h1 h2
      subst h1
      exact ⟨ha.2, by omega, h2.symm⟩
    · cases h
    · cases h
  · intro ⟨h1, h2, h3⟩
    left; left; right
    exact ⟨l, ⟨by omega, h1⟩, by rw [h3]⟩

/-- the window test of the code (`lo ≤ o_d ≤ hi` on the offset of the copy that contains the image) is the
    box test used in `winL` -/
theorem window_as_box (wd lo hi : Int) (hw : 0 < wd) (k : List Int) :
    (∀ x ∈ k, lo ≤ x / wd ∧ x / wd ≤ hi) ↔ inBox (lo * wd) ((hi + 1) * wd - 1) k := by
  constructor <;> intro h x hx
  · exact (floor_window x wd lo hi hw).mp (h x hx)
  · exact (floor_window x wd lo hi hw).mpr (h x hx)

end Tbfmm.C10
