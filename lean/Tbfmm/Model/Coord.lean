import Tbfmm.Model.Morton
/-!
# Model of `TbfSpacialConfiguration` and `getIndexFromPosition` / `getTreeCoordinate`

Written once over a small scalar interface and instantiated at Lean's `Float` (IEEE binary64) and
`Float32` (binary32): the driver runs the *same operations in the same order* as the C++ so that
the grid coordinate of every particle is reproduced bit for bit.
-/
namespace Tbfmm

class Real (α : Type) where
  add : α → α → α
  sub : α → α → α
  mul : α → α → α
  div : α → α → α
  neg : α → α
  ofNat : Nat → α
  beq : α → α → Bool
  trunc : α → Nat            -- static_cast<long int>(x) for 0 ≤ x < 2^63

instance : Real Float := ⟨(· + ·), (· - ·), (· * ·), (· / ·), (- ·), Float.ofNat, (· == ·), fun x => x.toUInt64.toNat⟩
instance : Real Float32 := ⟨(· + ·), (· - ·), (· * ·), (· / ·), (- ·), Float32.ofNat, (· == ·), fun x => x.toUInt64.toNat⟩

open Real

/-- `boxCorner = center + widths * (-1/2)` -/
def boxCorner [Real α] (center width : α) : α := add center (mul width (div (neg (ofNat 1)) (ofNat 2)))
/-- `boxWidthsAtLeafLevel = widths * (1 / (1 << (H-1)))` -/
def leafWidth [Real α] (width : α) (H : Nat) : α := mul width (div (ofNat 1) (ofNat (2^(H-1))))

/-- `getTreeCoordinate(rel, dim)` -/
def treeCoordinate [Real α] (rel width lw : α) (H : Nat) : Nat :=
  if beq rel width then 2^(H-1) - 1 else trunc (div rel lw)

end Tbfmm
