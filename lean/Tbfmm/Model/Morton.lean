/-!
# Model of `src/spacial/tbfmortonspaceindex.hpp` — index algebra (any dimension `D`)

Executable, core-only.  Coordinates are lists of length `D`; dimension 0 is the most significant bit
of every `D`-bit group, exactly as `getIndexFromBoxPos` / `getBoxPosFromIndex` interleave.
`b` is the number of `D`-bit groups = the level of the index.
-/
namespace Tbfmm

/-- low `D` bits of `c`, most significant first: entry `d` is bit `D-1-d` -/
def bitsOf : (D : Nat) → Nat → List Nat
  | 0, _ => []
  | D+1, c => (c / 2^D) % 2 :: bitsOf D c

def packBits : List Nat → Nat
  | [] => 0
  | b :: bs => b * 2^bs.length + packBits bs

/-- `getBoxPosFromIndex` for an index of level `b` -/
def decode (D : Nat) : (b : Nat) → Nat → List Nat
  | 0, _ => List.replicate D 0
  | b+1, i => List.zipWith (fun c bit => 2 * c + bit) (decode D b (i / 2^D)) (bitsOf D i)

/-- `getIndexFromBoxPos` for coordinates `< 2^b` -/
def encode (D : Nat) : (b : Nat) → List Nat → Nat
  | 0, _ => 0
  | b+1, cs => encode D b (cs.map (· / 2)) * 2^D + packBits (cs.map (· % 2))

/-- `getParentIndex` : `idx >> Dim` -/
def parent (D i : Nat) : Nat := i / 2^D
/-- `childPositionFromParent` : `idx & (2^Dim - 1)` -/
def childCode (D i : Nat) : Nat := i % 2^D
/-- `getChildIndexFromParent` -/
def child (D p c : Nat) : Nat := p * 2^D + c

/-- `getUpperBound(level)` -/
def upperBound (D level : Nat) : Nat := 2^(level * D)

/-- base-7 position code of a relative offset in `[-3,3]^D` (`getInteractionIndexFromRelativePos`) -/
def code7 (v : List Int) : Nat := (v.foldl (fun acc x => acc * 7 + (x + 3)) 0).toNat
/-- base-3 position code of a relative offset in `[-1,1]^D` (`getNeighborIndexFromRelativePos`) -/
def code3 (v : List Int) : Nat := (v.foldl (fun acc x => acc * 3 + (x + 1)) 0).toNat

/-- `getRelativePosFromInteractionIndex` -/
def decode7 : (D : Nat) → Nat → List Int
  | 0, _ => []
  | D+1, c => decode7 D (c / 7) ++ [((c % 7 : Nat) : Int) - 3]
/-- `getRelativePosFromNeighborIndex` -/
def decode3 : (D : Nat) → Nat → List Int
  | 0, _ => []
  | D+1, c => decode3 D (c / 3) ++ [((c % 3 : Nat) : Int) - 1]

end Tbfmm
