/-!
# Static task tables of the task-based executors (filled by the translators) and their checks
-/
namespace Tbfmm

/-- one `#pragma omp task` of the OpenMP executors, as read from the source by `tools/translate_omp.py`.
    Group names are resolved through pointer aliases to the iterator / reference they stand for. -/
structure OmpTask where
  file : String
  line : Nat
  fn : String                                   -- enclosing member function
  inLambda : Bool                               -- the directive sits inside a lambda body
  defaultShared : Bool
  reads : List (String × String)                -- depend(in: …) as (group, buffer kind)
  commutes : List (String × String)             -- depend(commute: …)
  firstprivate : List String
  refs : List String                            -- variables the task body refers to
  calls : List (String × List String)           -- wrapper calls: (wrapper, group passed at each argument position)
deriving Repr, DecidableEq

/-- class members reached through `this` (they live as long as the executor object) -/
def memberNames : List String := ["kernelWrapper", "kernels", "spaceSystem", "configuration", "priorities", "stopUpperLevel"]

/-- every buffer a wrapper call reads is declared `in` or `commute`; every buffer it writes is
    declared `commute` -/
def OmpTask.covers (fp : List (String × List (Nat × String × Bool))) (t : OmpTask) : Bool :=
  t.calls.all fun (w, args) =>
    match fp.lookup w with
    | none => false
    | some acc => acc.all fun (pi, kind, isWrite) =>
        let g := args.getD pi ""
        g != "" && (if isWrite then t.commutes.contains (g, kind) else (t.reads.contains (g, kind) || t.commutes.contains (g, kind)))

/-- no task body uses a variable whose lifetime may have ended when the task runs: every referenced
    name is `firstprivate`, or a class member reached through `this` of a member function (not through
    the closure object of a lambda, which dies when the mapping function returns) -/
def OmpTask.captureSafe (t : OmpTask) : Bool :=
  t.refs.all fun r => t.firstprivate.contains r || (memberNames.contains r && !t.inLambda)

/-- one `runtime.task(…)` of the Specx executors, as read from the source by `tools/translate_omp.py` -/
structure SpecxTask where
  file : String
  line : Nat
  fn : String
  inLambda : Bool                               -- submitted from inside a callback lambda
  reads : List (String × String)                -- SpRead(*group.getXPtr())
  commutes : List (String × String)             -- SpCommutativeWrite / SpWrite
  modes : List Bool                             -- per declared access, in order: is it a write
  paramConst : List Bool                        -- per parameter of the task lambda: is it `const unsigned char&`
  byValue : List String                         -- captured by copy (plain or init-capture)
  byRef : List String                           -- captured by reference
  capturesThis : Bool
  defaultRef : Bool                             -- `[&]`
  refDecl : List String                         -- by-reference captures that are C++ references bound to objects owned by the tree
  refs : List String
  calls : List (String × List String)
deriving Repr, DecidableEq

/-- every buffer a wrapper call reads is declared `SpRead` or a write; every buffer it writes is declared a
    (commutative) write -/
def SpecxTask.covers (fp : List (String × List (Nat × String × Bool))) (t : SpecxTask) : Bool :=
  t.calls.all fun (w, args) =>
    match fp.lookup w with
    | none => false
    | some acc => acc.all fun (pi, kind, isWrite) =>
        let g := args.getD pi ""
        g != "" && (if isWrite then t.commutes.contains (g, kind) else (t.reads.contains (g, kind) || t.commutes.contains (g, kind)))

/-- no task body uses a variable whose lifetime may have ended when the task runs: each referenced name is
    copied into the closure, or is a member reached through the copied `this`, or is captured by reference
    and is itself a reference bound to an object owned by the tree; no default by-reference capture -/
def SpecxTask.captureSafe (t : SpecxTask) : Bool :=
  !t.defaultRef && t.refs.all fun r =>
    t.byValue.contains r || (t.byRef.contains r && t.refDecl.contains r) || (memberNames.contains r && t.capturesThis)

/-- the task lambda receives a constant view exactly for the accesses declared as reads -/
def SpecxTask.modesMatch (t : SpecxTask) : Bool :=
  t.paramConst == t.modes.map (!·)

/-! ### StarPU executors -/

/-- per executor header: the index vectors handed to tasks by address live in a container with stable
    addresses that is emptied only after the final wait -/
structure StarpuFile where
  file : String
  indexBufferStable : Bool
  clearedAfterWait : Bool
deriving Repr, DecidableEq

structure StarpuCodelet where
  file : String
  name : String
  callback : String
  modes : List Bool                             -- per buffer: is it a write access
deriving Repr, DecidableEq

/-- a task callback: which StarPU buffer backs which part of each container it rebuilds, and the wrapper calls -/
structure StarpuCallback where
  name : String
  unpackTypes : List String
  containers : List (String × List (String × Nat))   -- container ↦ (buffer kind ↦ index in `buffers[]`)
  calls : List (String × List String)
deriving Repr, DecidableEq

/-- one `starpu_insert_task` -/
structure StarpuTask where
  file : String
  line : Nat
  fn : String
  codelet : String
  handles : List (Bool × String × String × Nat)  -- (write?, handle container, group index expression, slot)
  values : List (String × String × String)       -- STARPU_VALUE: (variable, what it designates, sizeof type)
deriving Repr, DecidableEq

def StarpuTask.codeletOf (cs : List StarpuCodelet) (t : StarpuTask) : Option StarpuCodelet :=
  cs.find? fun c => c.file == t.file && c.name == t.codelet

def StarpuTask.callbackOf (cs : List StarpuCodelet) (cbs : List StarpuCallback) (t : StarpuTask) : Option StarpuCallback :=
  match t.codeletOf cs with
  | none => none
  | some c => cbs.find? fun cb => cb.name == c.callback

/-- the handles submitted with a task have the access modes its codelet declares, and every buffer a wrapper
    call of the callback touches is backed by a submitted handle that was registered for that very buffer
    kind of one and the same group, with a write mode when the wrapper writes -/
def StarpuTask.covers (fp : List (String × List (Nat × String × Bool))) (layouts : List ((String × String × String) × List String))
    (cs : List StarpuCodelet) (cbs : List StarpuCallback) (t : StarpuTask) : Bool :=
  match t.codeletOf cs, t.callbackOf cs cbs with
  | some c, some cb =>
    c.modes == t.handles.map (·.1) &&
    cb.calls.all fun (w, args) =>
      match fp.lookup w with
      | none => false
      | some acc => acc.all fun (pi, kind, isWrite) =>
          match cb.containers.lookup (args.getD pi "") with
          | none => false
          | some slots =>
            match slots.lookup kind with
            | none => false
            | some j =>
              match t.handles[j]? with
              | none => false
              | some (wr, arr, idx, slot) =>
                ((layouts.lookup (t.file, t.fn, arr)).getD []).getD slot "" == kind && (!isWrite || wr) &&
                slots.all fun (_, j') =>
                  match t.handles[j']? with
                  | some (_, arr', idx', _) => arr' == arr && idx' == idx
                  | none => false
  | _, _ => false

/-- what a task receives by value designates something that outlives it: the executor, a buffer of the
    tree, a copied scalar, or an index vector kept in the stable buffer until after the final wait; and the
    callback unpacks the values with the types they were packed with -/
def StarpuTask.valuesSafe (files : List StarpuFile) (cs : List StarpuCodelet) (cbs : List StarpuCallback) (t : StarpuTask) : Bool :=
  (t.values.all fun (_, cls, _) =>
    cls == "this" || cls == "scalar" || cls == "treeptr" ||
      (cls == "indexbuf" && files.any fun f => f.file == t.file && f.indexBufferStable && f.clearedAfterWait)) &&
  match t.callbackOf cs cbs with
  | some cb => cb.unpackTypes == t.values.map (·.2.2)
  | none => false

end Tbfmm
