/-!
# Static task tables of the task-based executors (filled by the translators) and their checks
-/
namespace Tbfmm

/-- one `#pragma omp task` of the OpenMP executors, as read from the source by `tools/translate_omp.py`.
    Group names are resolved through pointer aliases to the iterator / reference they stand for. -/
structure OmpTask where
  file : String
  line : Nat
  fn : String                                   -- enclosing member function
  inLambda : Bool                               -- the directive sits inside a lambda body
  defaultShared : Bool
  reads : List (String × String)                -- depend(in: …) as (group, buffer kind)
  commutes : List (String × String)             -- depend(commute: …)
  firstprivate : List String
  refs : List String                            -- variables the task body refers to
  calls : List (String × List String)           -- wrapper calls: (wrapper, group passed at each argument position)
deriving Repr, DecidableEq

/-- class members reached through `this` (they live as long as the executor object) -/
def memberNames : List String := ["kernelWrapper", "kernels", "spaceSystem", "configuration", "priorities", "stopUpperLevel"]

/-- every buffer a wrapper call reads is declared `in` or `commute`; every buffer it writes is
    declared `commute` -/
def OmpTask.covers (fp : List (String × List (Nat × String × Bool))) (t : OmpTask) : Bool :=
  t.calls.all fun (w, args) =>
    match fp.lookup w with
    | none => false
    | some acc => acc.all fun (pi, kind, isWrite) =>
        let g := args.getD pi ""
        g != "" && (if isWrite then t.commutes.contains (g, kind) else (t.reads.contains (g, kind) || t.commutes.contains (g, kind)))

/-- no task body uses a variable whose lifetime may have ended when the task runs: every referenced
    name is `firstprivate`, or a class member reached through `this` of a member function (not through
    the closure object of a lambda, which dies when the mapping function returns) -/
def OmpTask.captureSafe (t : OmpTask) : Bool :=
  t.refs.all fun r => t.firstprivate.contains r || (memberNames.contains r && !t.inLambda)

end Tbfmm
