import Tbfmm.Model.Exec
import Std.Data.HashMap
/-!
# The exactly additive "free" kernel and the effect of a call list on the tree's values

Values live in a commutative monoid; the executable instance is `Nat` with particle `p` weighing
`2^(16·(p mod 64))` (64 independent 16-bit counters packed in one number: addition of weights is
addition of counter vectors as long as no counter reaches 65536).  The harness' recording kernel
does the same on arrays of 64 `uint16_t`.
-/
namespace Tbfmm

def weight (p : Nat) : Nat := 2 ^ (16 * (p % 64))
/-- 16 counters of 64 bits (periodic runs: image counts exceed 16 bits) -/
def weightWide (p : Nat) : Nat := 2 ^ (64 * (p % 16))

structure State where
  mult : Std.HashMap (Nat × Nat) Nat := {}     -- (level, index) ↦ multipole
  loc  : Std.HashMap (Nat × Nat) Nat := {}     -- (level, index) ↦ local
  rhs  : Std.HashMap Nat Nat := {}             -- particle ↦ result
deriving Inhabited

def State.m (s : State) (l i : Nat) : Nat := s.mult.getD (l, i) 0
def State.l (s : State) (l i : Nat) : Nat := s.loc.getD (l, i) 0
def State.r (s : State) (p : Nat) : Nat := s.rhs.getD p 0
def State.addM (s : State) (l i v : Nat) : State := { s with mult := s.mult.insert (l, i) (s.m l i + v) }
def State.addL (s : State) (l i v : Nat) : State := { s with loc := s.loc.insert (l, i) (s.l l i + v) }
def State.addR (s : State) (p v : Nat) : State := { s with rhs := s.rhs.insert p (s.r p + v) }

def sumW (w : Nat → Nat) (ps : List Nat) : Nat := (ps.map w).sum

/-- effect of one kernel call (free kernel).  `L` = leaf level, `partsOf` = particles of a leaf;
    `partsOfSrc` = particles of a source leaf (same tree unless target/source mode). -/
def applyCall (w : Nat → Nat) (L : Nat) (partsOf partsOfSrc : Nat → List Nat) (s : State) : Call → State
  | .p2m leaf parts => s.addM L leaf (sumW w parts)
  | .m2m level p children => s.addM level p ((children.map fun c => s.m (level+1) c.1).sum)
  | .m2l level t srcs => s.addL level t ((srcs.map fun c => s.m level c.1).sum)
  | .l2l level p children => children.foldl (fun s c => s.addL (level+1) c.1 (s.l level p)) s
  | .l2p leaf parts => parts.foldl (fun s p => s.addR p (s.l L leaf)) s
  | .p2p src tgt _ =>
      let ws := sumW w (partsOf src); let wt := sumW w (partsOf tgt)
      let s := (partsOf tgt).foldl (fun s p => s.addR p ws) s
      (partsOf src).foldl (fun s p => s.addR p wt) s
  | .p2pTsm src tgt _ =>
      let ws := sumW w (partsOfSrc src)
      (partsOf tgt).foldl (fun s p => s.addR p ws) s
  | .p2pInner leaf =>
      let ps := partsOf leaf
      let tot := sumW w ps
      ps.foldl (fun s p => s.addR p (tot - w p)) s

def applyCalls (w : Nat → Nat) (L : Nat) (partsOf partsOfSrc : Nat → List Nat) (s : State) (cs : List Call) : State :=
  cs.foldl (applyCall w L partsOf partsOfSrc) s

def Tree.partsOf (t : Tree) : Nat → List Nat :=
  let m : Std.HashMap Nat (List Nat) := t.pgroups.foldl (fun m g => g.foldl (fun m l => m.insert l.idx l.parts) m) {}
  fun i => m.getD i []

end Tbfmm
