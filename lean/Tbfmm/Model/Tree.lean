import Tbfmm.Model.Search
/-!
# Model of tree construction: `TbfParticleSorter`, `TbfTree::TbfTree`, `rebuild`, bulk export
-/
namespace Tbfmm

structure Leaf where
  idx : Nat
  parts : List Nat        -- original particle indices, in stored order
deriving Repr, BEq, DecidableEq, Inhabited

abbrev PGroup := List Leaf

/-- `std::sort` of `(leafIndex, originalIndex)` by leaf index (model: stable merge sort; the
    library's sort is unstable, so the order *inside* a leaf is not part of the correspondence) -/
def sortPairs (xs : List (Nat × Nat)) : List (Nat × Nat) := xs.mergeSort (fun a b => a.1 ≤ b.1)

/-- run-length pass of the sorter: consecutive equal leaf indices form one leaf -/
def leavesOf : List (Nat × Nat) → List Leaf
  | [] => []
  | (i, p) :: rest =>
    match leavesOf rest with
    | [] => [⟨i, [p]⟩]
    | l :: ls => if l.idx = i then ⟨i, p :: l.parts⟩ :: ls else ⟨i, [p]⟩ :: l :: ls

/-- `splitInGroups`: every `bs` consecutive leaves (nothing when `bs = 0`, i.e. `inGroupSize <= 0`) -/
def splitEvery {α} (bs : Nat) : (fuel : Nat) → List α → List (List α)
  | 0, _ => []
  | f+1, xs => if bs = 0 then [] else if xs.isEmpty then [] else xs.take bs :: splitEvery bs f (xs.drop bs)

/-- fixed-size level-up (ctor, `oneGroupPerParent == false`): one pass over all children, push the
    parent when it differs from the previous one, cut a group every `bs` cells -/
def upFixedAux (par : Nat → Nat) (bs : Nat) : List Nat → Option Nat → List Nat → List Group
  | [], _, cur => if cur = [] then [] else [cur]
  | c :: cs, prev, cur =>
    if prev = some (par c) then upFixedAux par bs cs prev cur
    else
      let cur' := cur ++ [par c]
      if cur'.length = bs then cur' :: upFixedAux par bs cs (some (par c)) []
      else upFixedAux par bs cs (some (par c)) cur'

def levelUpFixed (par : Nat → Nat) (bs : Nat) (lower : List Group) : List Group :=
  upFixedAux par bs lower.flatten none []

/-- parents of one lower group, consecutive duplicates removed -/
def parentsDedup (par : Nat → Nat) : List Nat → List Nat → List Nat
  | [], cur => cur
  | c :: cs, cur => if cur.getLast? = some (par c) then parentsDedup par cs cur else parentsDedup par cs (cur ++ [par c])

/-- one-group-per-parent level-up: for each lower group, skip children whose parent is `≤` the last
    cell already emitted, then take the distinct parents of the rest -/
def levelUpPerGroup (par : Nat → Nat) (lower : List Group) : List Group :=
  lower.foldl (fun (acc : List Group) (g : Group) =>
    let rest := match acc.getLast? with
      | none => g
      | some lastG => g.dropWhile (fun c => par c ≤ lastOf lastG)
    let ps := parentsDedup par rest []
    if ps = [] then acc else acc ++ [ps]) []

structure Tree where
  D : Nat
  H : Nat
  bs : Nat
  mode : Bool
  levels : List (List Group)     -- levels[l] = cell groups of level l, l = 0 .. H-1
  pgroups : List PGroup
deriving Repr, Inhabited

def Tree.level (t : Tree) (l : Nat) : List Group := t.levels.getD l []

/-- levels `H-1 … 0` built bottom-up; result indexed by level -/
def buildLevels (D : Nat) (bs : Nat) (mode : Bool) : (nUp : Nat) → List Group → List (List Group)
  | 0, cur => [cur]
  | n+1, cur =>
    let up := if mode then levelUpPerGroup (parent D) cur else levelUpFixed (parent D) bs cur
    buildLevels D bs mode n up ++ [cur]

/-- `TbfTree::TbfTree(configuration, positions, blockSize, oneGroupPerParent)`;
    `leafIdx[i]` = `getIndexFromPosition` of particle `i` -/
def Tree.build (D H bs : Nat) (mode : Bool) (leafIdx : List Nat) : Tree :=
  if leafIdx.isEmpty then { D, H, bs, mode, levels := List.replicate H [], pgroups := [] } else
  let leaves := leavesOf (sortPairs leafIdx.zipIdx)
  let pgroups := splitEvery bs leaves.length leaves
  let leafGroups : List Group := pgroups.map fun g => g.map (·.idx)
  { D, H, bs, mode, levels := buildLevels D bs mode (H - 1) leafGroups, pgroups }

/-- all (leaf, particle) pairs in storage order -/
def Tree.stored (t : Tree) : List (Nat × Nat) :=
  t.pgroups.flatMap fun g => g.flatMap fun l => l.parts.map fun p => (l.idx, p)

/-- `TbfBlockSizeFinder::Estimate` / `EstimateTsm`: the block size used when none is given — the number of distinct
    occupied leaves (of both particle sets together in target/source mode) divided by twice the number of hardware
    threads, and at least 1 -/
def autoBlockSize (leafIdx : List Nat) (threads : Nat) : Nat :=
  max 1 (leafIdx.eraseDups.length / (threads * 2))

/-- `out[index] = value` for every pair, in order, into an array of `n` default entries -/
def scatterByIndex {α : Type} (n : Nat) (dflt : α) (xs : List (Nat × α)) : List α :=
  (xs.foldl (fun (a : Array α) (x : Nat × α) => a.setIfInBounds x.1 x.2) (Array.replicate n dflt)).toList

/-- `TbfTree::getAllParticlesData / getAllParticlesRhs` (and the gather of `rebuild`): walk the particles in the
    tree's storage order; `vals p` is what is stored for the particle whose original index is `p` -/
def Tree.exportBy {α : Type} (t : Tree) (dflt : α) (vals : Nat → α) (n : Nat) : List α :=
  scatterByIndex n dflt (t.stored.map fun x => (x.2, vals x.2))

end Tbfmm
