/-!
# Model of the group memory layout: `TbfUtils::GetLeadingDim`, `TbfMemoryBlock`,
`TbfMemoryScalar/Vector/MultiRVector/MultiVVector`

All quantities are byte counts / byte offsets from the start of the buffer.
-/
namespace Tbfmm

/-- `TbfDefaultMemoryAlignement` -/
def memAlign : Nat := 64

/-- `GetLeadingDim<DataType>(nbItems, 64)`: `sizeof(DataType)*nbItems` rounded up to a multiple of 64 -/
def leadDim (s n : Nat) : Nat := ((s * n + memAlign - 1) / memAlign) * memAlign

inductive BlockKind
  | scalar
  | vector
  | multiR (rows : Nat)      -- `rows` rows of `n` items, row stride = leadDim s n
  | multiV (rows : Nat)      -- `n` columns of `rows` items, column stride = leadDim s rows
deriving Repr, DecidableEq, Inhabited

structure BlockDef where
  kind : BlockKind
  size : Nat                 -- sizeof(DataType)
deriving Repr, DecidableEq, Inhabited

/-- `BlockType::GetMemorySizeFromNbItems(n)` -/
def BlockDef.bytes (b : BlockDef) (n : Nat) : Nat :=
  match b.kind with
  | .scalar => leadDim b.size n
  | .vector => leadDim b.size n
  | .multiR rows => rows * leadDim b.size n
  | .multiV rows => n * leadDim b.size rows

/-- cumulative offsets of the blocks (`GetSizeAndOffsetOfBlocks`), starting at `acc` -/
def blockOffsets : List BlockDef → List Nat → Nat → List Nat
  | b :: bs, n :: ns, acc => acc :: blockOffsets bs ns (acc + b.bytes n)
  | _, _, _ => []

/-- end of the last block = sum of the block sizes -/
def blocksEnd : List BlockDef → List Nat → Nat → Nat
  | b :: bs, n :: ns, acc => blocksEnd bs ns (acc + b.bytes n)
  | _, _, acc => acc

/-- bytes needed: the blocks plus a trailer of `2·NbBlocks` longs (offsets, then item counts) -/
def totalBytes (defs : List BlockDef) (ns : List Nat) : Nat := blocksEnd defs ns 0 + 16 * defs.length

/-- position of the two trailer tables in an allocation of `alloc` bytes: at its *end* -/
def trailerOffsetsPos (alloc nb : Nat) : Nat := alloc - 16 * nb
def trailerCountsPos (alloc nb : Nat) : Nat := alloc - 8 * nb

/-- `resetBlocksFromSizes` on a buffer that currently has `allocated` bytes: grows only when needed -/
def newAllocated (allocated : Nat) (owns : Bool) (defs : List BlockDef) (ns : List Nat) : Nat :=
  if allocated < totalBytes defs ns || !owns then totalBytes defs ns else allocated

/-- address (offset from the buffer start) of item `i`, row `row` of a block starting at `off` with `n` items -/
def itemAddr (b : BlockDef) (off n i row : Nat) : Nat :=
  match b.kind with
  | .scalar => off
  | .vector => off + i * b.size
  | .multiR _ => off + row * leadDim b.size n + i * b.size
  | .multiV rows => off + i * leadDim b.size rows + row * b.size

end Tbfmm
