import Tbfmm.Model.Walk
/-!
# Model of the sequential executor `TbfAlgorithm::execute` and of the kernel-call wrappers of
`tbfgroupkernelinterface.hpp`, `TbfMapIndexesAndBlocks`
-/
namespace Tbfmm

/-- what a kernel sees -/
inductive Call
  | p2m (leaf : Nat) (parts : List Nat)
  | m2m (level parent : Nat) (children : List (Nat × Nat))   -- (index, child code)
  | m2l (level target : Nat) (srcs : List (Nat × Nat))       -- (index, base-7 code)
  | l2l (level parent : Nat) (children : List (Nat × Nat))
  | l2p (leaf : Nat) (parts : List Nat)
  | p2p (src tgt code : Nat)                                 -- mutual
  | p2pTsm (src tgt code : Nat)                              -- one-sided
  | p2pInner (leaf : Nat)
deriving Repr, BEq, DecidableEq, Inhabited

/-- `TbfXtoXInteraction::SrcFirst` -/
def srcFirst (a b : Inter) : Bool := a.src < b.src || (a.src == b.src && a.tgt < b.tgt)
/-- `std::sort(..., SrcFirst)` (model: stable merge sort) -/
def sortInter (xs : List Inter) : List Inter := xs.mergeSort (fun a b => !srcFirst b a)

/-- `TbfMapIndexesAndBlocks`: (source group position, slice) in call order.
    `fuel ≥ |xs| + |gs| + 1` suffices. -/
def mapIdx (gs : List Group) : (fuel : Nat) → (xs : List Inter) → (ig : Nat) → List (Nat × List Inter)
  | 0, _, _ => []
  | f+1, xs, ig =>
    if xs.isEmpty then [] else
    if ig ≥ gs.length then [] else
      let g := gs.getD ig []
      let xs1 := xs.dropWhile (fun x => x.src < firstOf g)          -- lower_bound on the group's start
      match xs1 with
      | [] => []
      | x :: _ =>
        if lastOf g < x.src then
          -- lower_bound over the remaining groups by ending index
          match (List.range gs.length).find? (fun j => ig ≤ j && !(lastOf (gs.getD j []) < x.src)) with
          | none => []
          | some j => mapIdx gs f xs1 j
        else
          let slice := xs1.takeWhile (fun y => y.src ≤ lastOf g)     -- upper_bound on the group's end
          (ig, slice) :: mapIdx gs f (xs1.dropWhile (fun y => y.src ≤ lastOf g)) ig

def mapIndexesAndBlocks (gs : List Group) (xs : List Inter) : List (Nat × List Inter) :=
  if xs.isEmpty || gs.isEmpty then [] else
  let s := sortInter xs
  mapIdx gs (s.length + gs.length + 1) s 0

/-- same-target run batching (`do … while(interaction.indexTarget == next.indexTarget)`) -/
def batchRunsF : (fuel : Nat) → List Inter → List (List Inter)
  | 0, _ => []
  | _, [] => []
  | f+1, x :: xs =>
    let run := xs.takeWhile (fun y => y.tgt == x.tgt)
    (x :: run) :: batchRunsF f (xs.dropWhile (fun y => y.tgt == x.tgt))
def batchRuns (xs : List Inter) := batchRunsF xs.length xs

/-- `M2LInGroup` -/
def m2lInGroup (level : Nat) (inn : List Inter) : List Call :=
  (batchRuns inn).map fun run => Call.m2l level (run.headD default).tgt (run.map fun x => (x.src, x.code))

/-- `M2LBetweenGroups` -/
def m2lBetween (level : Nat) (srcGroup : Group) (slice : List Inter) : List Call :=
  (batchRuns slice).filterMap fun run =>
    let present := run.filter fun x => srcGroup.contains x.src
    if present.isEmpty then none else some (Call.m2l level (run.headD default).tgt (present.map fun x => (x.src, x.code)))

/-- `TbfAlgorithm::M2L` for one level -/
def m2lLevel (D : Nat) (periodic : Bool) (level : Nat) (groups : List Group) : List Call :=
  groups.flatMap fun g =>
    let (inn, ext) := ilistBlock D periodic level g
    let between := (mapIndexesAndBlocks groups ext).flatMap fun (j, slice) => m2lBetween level (groups.getD j []) slice
    between ++ m2lInGroup level inn

/-- `TbfAlgorithm::P2P` -/
def p2pAll (D : Nat) (periodic : Bool) (H : Nat) (pgroups : List Group) : List Call :=
  pgroups.flatMap fun g =>
    let (inn, ext) := nlistBlock D periodic (H-1) g true
    let between := (mapIndexesAndBlocks pgroups ext).flatMap fun (j, slice) =>
      slice.filterMap fun x => if (pgroups.getD j []).contains x.src then some (Call.p2p x.src x.tgt x.code) else none
    let inside := inn.map fun x => Call.p2p x.src x.tgt x.code
    between ++ inside ++ g.map Call.p2pInner

def m2mLevel (D level : Nat) (up lo : List Group) : List Call :=
  (calls (parent D) up lo).map fun r => Call.m2m level r.1 (r.2.map fun c => (c, childCode D c))
def l2lLevel (D level : Nat) (up lo : List Group) : List Call :=
  (calls (parent D) up lo).map fun r => Call.l2l level r.1 (r.2.map fun c => (c, childCode D c))

/-- levels `l` with `upper ≤ l ≤ H-2`, ascending -/
def midLevels (H upper : Nat) : List Nat := (List.range (H - 1)).filter (upper ≤ ·)
/-- levels `l` with `upper ≤ l ≤ H-1`, ascending -/
def m2lLevels (H upper : Nat) : List Nat := (List.range H).filter (upper ≤ ·)

def flagP2P := 1
def flagP2M := 2
def flagM2M := 4
def flagM2L := 8
def flagL2L := 16
def flagL2P := 32
def hasFlag (flags f : Nat) : Bool := (flags / f) % 2 == 1

/-! ### the named flag sets of `TbfAlgorithmUtils::TbfOperations` -/
def flagBottomToTop : Nat := flagP2M ||| flagM2M
def flagTopToBottom : Nat := flagL2L ||| flagL2P
def flagTransfer : Nat := flagM2L ||| flagP2P
def flagNearField : Nat := flagP2P
def flagFarField : Nat := flagP2M ||| flagM2M ||| flagM2L ||| flagL2L ||| flagL2P
def flagNearAndFar : Nat := flagNearField ||| flagFarField

/-- the name a case file uses for a flag set (`alias=<name>`); the harness resolves the same names to the library's constants -/
def flagAlias : String → Option Nat
  | "p2p" => some flagP2P | "p2m" => some flagP2M | "m2m" => some flagM2M
  | "m2l" => some flagM2L | "l2l" => some flagL2L | "l2p" => some flagL2P
  | "b2t" => some flagBottomToTop | "transfer" => some flagTransfer | "t2b" => some flagTopToBottom
  | "near" => some flagNearField | "far" => some flagFarField | "all" => some flagNearAndFar
  | "default" => some flagNearAndFar      -- `execute(tree)` without a flag argument
  | _ => none


def Tree.leafGroups (t : Tree) : List Group := t.pgroups.map fun g => g.map (·.idx)

def p2mAll (t : Tree) (upper : Nat) : List Call :=
  if t.H > upper then t.pgroups.flatMap fun g => g.map fun l => Call.p2m l.idx l.parts else []
def l2pAll (t : Tree) (upper : Nat) : List Call :=
  if t.H > upper then t.pgroups.flatMap fun g => g.map fun l => Call.l2p l.idx l.parts else []
def m2mAll (t : Tree) (upper : Nat) : List Call :=
  (midLevels t.H upper).reverse.flatMap fun l => m2mLevel t.D l (t.level l) (t.level (l+1))
def m2lAll (t : Tree) (periodic : Bool) (upper : Nat) : List Call :=
  (m2lLevels t.H upper).flatMap fun l => m2lLevel t.D periodic l (t.level l)
def l2lAll (t : Tree) (upper : Nat) : List Call :=
  (midLevels t.H upper).flatMap fun l => l2lLevel t.D l (t.level l) (t.level (l+1))

/-- `TbfAlgorithm::execute(tree, flags)` with `stopUpperLevel = upper`: the kernel calls, in order -/
def executeSeq (t : Tree) (periodic : Bool) (flags upper : Nat) : List Call :=
  (if hasFlag flags flagP2M then p2mAll t upper else []) ++
  (if hasFlag flags flagM2M then m2mAll t upper else []) ++
  (if hasFlag flags flagM2L then m2lAll t periodic upper else []) ++
  (if hasFlag flags flagL2L then l2lAll t upper else []) ++
  (if hasFlag flags flagL2P then l2pAll t upper else []) ++
  (if hasFlag flags flagP2P then p2pAll t.D periodic t.H t.leafGroups else [])

/-! ## target/source executor (`TbfAlgorithmTsm`): sources carry multipoles, targets carry locals and results -/

/-- `TbfAlgorithmTsm::M2L` for one level: the target group's list is built without the existence
    test, internal entries are appended to the external ones and everything is mapped onto the
    *source* groups -/
def m2lLevelTsm (D : Nat) (periodic : Bool) (level : Nat) (tgtGroups srcGroups : List Group) : List Call :=
  tgtGroups.flatMap fun g =>
    let (inn, ext) := ilistBlock D periodic level g false
    (mapIndexesAndBlocks srcGroups (ext ++ inn)).flatMap fun (j, slice) => m2lBetween level (srcGroups.getD j []) slice

/-- `TbfAlgorithmTsm::P2P`: full neighbour list (no upper-half filter, no existence test) plus the
    self list, mapped onto the source particle groups; one-sided kernel calls -/
def p2pAllTsm (D : Nat) (periodic : Bool) (H : Nat) (tgtGroups srcGroups : List Group) : List Call :=
  tgtGroups.flatMap fun g =>
    let (inn, ext) := nlistBlock D periodic (H-1) g false false
    let all := ext ++ inn ++ selfListBlock D g
    (mapIndexesAndBlocks srcGroups all).flatMap fun (j, slice) =>
      slice.filterMap fun x => if (srcGroups.getD j []).contains x.src then some (Call.p2pTsm x.src x.tgt x.code) else none

/-- `TbfAlgorithmTsm::execute` (sequential order; the OpenMP variant submits P2P before L2P) -/
def executeTsm (tS tT : Tree) (periodic : Bool) (flags upper : Nat) (ompOrder : Bool := false) : List Call :=
  let l2p := if hasFlag flags flagL2P then l2pAll tT upper else []
  let p2p := if hasFlag flags flagP2P then p2pAllTsm tT.D periodic tT.H tT.leafGroups tS.leafGroups else []
  (if hasFlag flags flagP2M then p2mAll tS upper else []) ++
  (if hasFlag flags flagM2M then m2mAll tS upper else []) ++
  (if hasFlag flags flagM2L then (m2lLevels tT.H upper).flatMap fun l => m2lLevelTsm tT.D periodic l (tT.level l) (tS.level l) else []) ++
  (if hasFlag flags flagL2L then l2lAll tT upper else []) ++
  (if ompOrder then p2p ++ l2p else l2p ++ p2p)

/-- `TbfOpenmpAlgorithm::execute`: the same wrapper calls in *submission* order (P2P is submitted
    before L2P; P2PInGroup and P2PInner of a group share one task) -/
def executeOmp (t : Tree) (periodic : Bool) (flags upper : Nat) : List Call :=
  (if hasFlag flags flagP2M then p2mAll t upper else []) ++
  (if hasFlag flags flagM2M then m2mAll t upper else []) ++
  (if hasFlag flags flagM2L then m2lAll t periodic upper else []) ++
  (if hasFlag flags flagL2L then l2lAll t upper else []) ++
  (if hasFlag flags flagP2P then p2pAll t.D periodic t.H t.leafGroups else []) ++
  (if hasFlag flags flagL2P then l2pAll t upper else [])

end Tbfmm
