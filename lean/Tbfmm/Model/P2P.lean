/-!
# Model of the scalar direct-interaction routines of `src/kernels/P2P/FP2PR.hpp`

`FullMutualScalar`, `GenericInnerScalar`, `GenericFullRemoteScalar` as the same nested loops, same
operation order, over an abstract scalar type.  Instantiated at `Float`/`Float32` the definitions
reproduce the C++ bit for bit (the harness is compiled with `-ffp-contract=off`); instantiated at a
field with an abstract `rsqrt` they are what the theorems of C20 talk about.
-/
namespace Tbfmm

class Scalar (α : Type) where
  add : α → α → α
  sub : α → α → α
  mul : α → α → α
  div : α → α → α
  sqrt : α → α
  one : α
  zero : α

instance : Scalar Float := ⟨(· + ·), (· - ·), (· * ·), (· / ·), Float.sqrt, 1.0, 0.0⟩
instance : Scalar Float32 := ⟨(· + ·), (· - ·), (· * ·), (· / ·), Float32.sqrt, 1.0, 0.0⟩

open Scalar

structure Part (α : Type) where
  x : α
  y : α
  z : α
  q : α

structure Acc (α : Type) where
  fx : α
  fy : α
  fz : α
  pot : α

/-- the per-pair quantities: `(dx·k, dy·k, dz·k, inv_distance)` with `k = inv_r² · inv_r · (qt·qs)`,
    computed in the order of the C++ -/
def pairTerms [Scalar α] (s t : Part α) : α × α × α × α :=
  let dx := sub s.x t.x; let dy := sub s.y t.y; let dz := sub s.z t.z
  let inv2 := div one (add (add (mul dx dx) (mul dy dy)) (mul dz dz))
  let inv := sqrt inv2
  let k := mul (mul inv2 inv) (mul t.q s.q)
  (mul dx k, mul dy k, mul dz k, inv)

/-- inner loop of `FullMutualScalar` for one target: accumulates into the target's temporaries and
    updates every source in place -/
def mutualInner [Scalar α] (t : Part α) : List (Part α × Acc α) → Acc α → List (Part α × Acc α) → Acc α × List (Part α × Acc α)
  | [], acc, done => (acc, done.reverse)
  | (s, r) :: rest, acc, done =>
    let (fx, fy, fz, inv) := pairTerms s t
    let acc' : Acc α := ⟨add acc.fx fx, add acc.fy fy, add acc.fz fz, add acc.pot (mul inv s.q)⟩
    let r' : Acc α := ⟨sub r.fx fx, sub r.fy fy, sub r.fz fz, add r.pot (mul inv t.q)⟩
    mutualInner t rest acc' ((s, r') :: done)

/-- `FullMutualScalar(sources, targets)` : returns (sources, targets) with updated accumulators -/
def fullMutual [Scalar α] : List (Part α × Acc α) → List (Part α × Acc α) → List (Part α × Acc α) → List (Part α × Acc α) × List (Part α × Acc α)
  | srcs, [], doneT => (srcs, doneT.reverse)
  | srcs, (t, tr) :: rest, doneT =>
    let (acc, srcs') := mutualInner t srcs ⟨zero, zero, zero, zero⟩ []
    let tr' : Acc α := ⟨add tr.fx acc.fx, add tr.fy acc.fy, add tr.fz acc.fz, add tr.pot acc.pot⟩
    fullMutual srcs' rest ((t, tr') :: doneT)

/-- inner loop of `GenericFullRemoteScalar` for one target -/
def remoteInner [Scalar α] (t : Part α) : List (Part α) → Acc α → Acc α
  | [], acc => acc
  | s :: rest, acc =>
    let (fx, fy, fz, inv) := pairTerms s t
    remoteInner t rest ⟨add acc.fx fx, add acc.fy fy, add acc.fz fz, add acc.pot (mul inv s.q)⟩

/-- `GenericFullRemoteScalar(sources, targets)` -/
def fullRemote [Scalar α] (srcs : List (Part α)) (tgts : List (Part α × Acc α)) : List (Part α × Acc α) :=
  tgts.map fun (t, tr) =>
    let acc := remoteInner t srcs ⟨zero, zero, zero, zero⟩
    (t, ⟨add tr.fx acc.fx, add tr.fy acc.fy, add tr.fz acc.fz, add tr.pot acc.pot⟩)

/-- one row of `GenericInnerScalar`: target `t` (accumulator `tr`) against the later particles -/
def innerRow [Scalar α] (t : Part α) : Acc α → List (Part α × Acc α) → List (Part α × Acc α) → Acc α × List (Part α × Acc α)
  | tr, [], done => (tr, done.reverse)
  | tr, (s, r) :: rest, done =>
    let (fx, fy, fz, inv) := pairTerms s t
    let tr' : Acc α := ⟨add tr.fx fx, add tr.fy fy, add tr.fz fz, add tr.pot (mul inv s.q)⟩
    let r' : Acc α := ⟨sub r.fx fx, sub r.fy fy, sub r.fz fz, add r.pot (mul inv t.q)⟩
    innerRow t tr' rest ((s, r') :: done)

/-- `GenericInnerScalar(targets)` : every unordered pair once, no self term (`fuel ≥ length`) -/
def genericInnerF [Scalar α] : Nat → List (Part α × Acc α) → List (Part α × Acc α)
  | 0, l => l
  | _+1, [] => []
  | f+1, (t, tr) :: rest =>
    let (tr', rest') := innerRow t tr rest []
    (t, tr') :: genericInnerF f rest'

def genericInner [Scalar α] (l : List (Part α × Acc α)) : List (Part α × Acc α) := genericInnerF l.length l

end Tbfmm
