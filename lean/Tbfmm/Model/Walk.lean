import Tbfmm.Model.Tree
/-!
# Model of the upward / downward pass: `TbfAlgorithm::M2M/L2L` (the two-cursor level walk) and
`TbfGroupKernelInterface::M2M/L2L` (start lookup + sibling batching)
-/
namespace Tbfmm

/-- one kernel call of the upward/downward pass: (parent, children handed over) -/
abbrev Run := Nat × List Nat

/-- the C++ sibling loop in "current batch non-empty" form:
    `children.emplace_back(child); ++idxChild;
     if(idxChild != n && parent(child[idxChild]) != parent[idxParent]) { emit; ++idxParent; clear }`
    and the final `if(nbChildren) emit` -/
def sib2 (par : Nat → Nat) : List Nat → List Nat → List Nat → List Run
  | [], _, _ => []
  | p :: _, acc, [] => [(p, acc)]
  | p :: ps, acc, c2 :: cs =>
    if par c2 ≠ p then (p, acc) :: (match ps with | [] => [] | _ :: _ => sib2 par ps [c2] cs)
    else sib2 par (p :: ps) (acc ++ [c2]) cs

/-- `TbfGroupKernelInterface::M2M/L2L`: `startingIndex = max(parent(lower.first), upper.first)`,
    the two lookups (modelled as "first element not below `start`"; that they hit exactly is the
    content of the two `assert(found…)`, proved in `Proofs/R1`), then the sibling loop -/
def wrapPure (par : Nat → Nat) (Lw U : Group) : List Run :=
  match Lw, U with
  | c0 :: _, u0 :: _ =>
    let start := max (par c0) u0
    match U.dropWhile (fun u => decide (u < start)), Lw.dropWhile (fun c => decide (par c < start)) with
    | p :: ps, c :: cs => sib2 par (p :: ps) [c] cs
    | _, _ => []
  | _, _ => []

/-- the two `assert(found…)` of the wrapper -/
def wrapAsserts (par : Nat → Nat) (Lw U : Group) : Bool :=
  match Lw, U with
  | c0 :: _, u0 :: _ =>
    let start := max (par c0) u0
    (findCell U start).isSome && (findByParent par Lw start).isSome
  | _, _ => false

/-- `TbfAlgorithm::M2M/L2L`: the two-cursor walk over the groups of two consecutive levels -/
def walk (par : Nat → Nat) : List Group → List Group → List (Group × Group)
  | [], _ => []
  | _, [] => []
  | U :: us, [Lw] =>
    (U, Lw) :: (if par (lastD Lw) ≤ lastD U then [] else walk par us [Lw])
  | U :: us, Lw :: L2 :: ls =>
    (U, Lw) ::
      (if par (lastD Lw) ≤ lastD U then
        (if lastD U < par (L2.headD 0) then walk par us (L2 :: ls) else walk par (U :: us) (L2 :: ls))
       else walk par us (Lw :: L2 :: ls))
termination_by us ls => us.length + ls.length

/-- all kernel calls of one level of the upward (or downward) pass, in call order -/
def calls (par : Nat → Nat) (up lo : List Group) : List Run :=
  (walk par up lo).flatMap fun x => wrapPure par x.2 x.1

end Tbfmm
