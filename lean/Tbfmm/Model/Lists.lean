import Tbfmm.Model.Morton
/-!
# Model of the interaction / neighbour list builders of `tbfmortonspaceindex.hpp`

`ilistCell` / `nlistCell` enumerate in the C++ order (odometer over the per-dimension ranges, last
dimension fastest; then the `2^D` children in increasing child code).
-/
namespace Tbfmm

abbrev Group := List Nat

/-- `TbfXtoXInteraction` -/
structure Inter where
  tgt : Nat
  src : Nat
  tpos : Nat      -- globalTargetPos
  code : Nat      -- arrayIndexSrc
deriving Repr, BEq, DecidableEq, Inhabited

/-- odometer over `[lo_d, hi_d]`, last dimension fastest -/
def odometer : List (Int × Int) → List (List Int)
  | [] => [[]]
  | (lo, hi) :: rest =>
    (List.range (hi - lo + 1).toNat).flatMap fun (k : Nat) => (odometer rest).map fun t => (lo + Int.ofNat k) :: t

def vadd (a b : List Int) : List Int := List.zipWith (· + ·) a b
def vsub (a b : List Int) : List Int := List.zipWith (· - ·) a b
def toI (v : List Nat) : List Int := v.map Int.ofNat

/-- per-dimension search range around coordinate `p` in a grid of `lim` cells -/
def rangeOf (periodic : Bool) (lim : Int) (p : Int) : Int × Int :=
  if periodic then (-1, 1) else ((if p = 0 then 0 else -1), (if p + 1 = lim then 0 else 1))

/-- one cell's interaction list (`getInteractionListForIndex` / the body of `...ForBlock`) -/
def ilistCell (D : Nat) (periodic : Bool) (level : Nat) (idx tpos : Nat) : List Inter :=
  if (!periodic && level < 2) || (periodic && level < 1) then [] else
  let lim : Int := 2^level
  let limP : Int := 2^(level-1)
  let cpos := toI (decode D level idx)
  let ppos := toI (decode D (level-1) (parent D idx))
  let ranges := ppos.map (rangeOf periodic limP)
  (odometer ranges).flatMap fun off =>
    let other := vadd ppos off
    let shift := other.map fun o => if periodic then (if o < 0 then -lim else if limP ≤ o then lim else 0) else 0
    let wrapped := other.map fun o => if periodic then (if o < 0 then o + limP else if limP ≤ o then o - limP else o) else o
    let pidx := encode D (level-1) (wrapped.map Int.toNat)
    (List.range (2^D)).filterMap fun ch =>
      let cidx := child D pidx ch
      let chpos := toI (decode D level cidx)
      let rel := vsub (vadd chpos shift) cpos
      if rel.all (fun r => r.natAbs ≤ 1) then none
      else some { tgt := idx, src := cidx, tpos := tpos, code := code7 rel }

/-- one leaf's neighbour list (`getNeighborListForIndex` / the body of `...ForBlock`) -/
def nlistCell (D : Nat) (periodic : Bool) (level : Nat) (idx tpos : Nat) (upperExclusion : Bool) : List Inter :=
  let lim : Int := 2^level
  let cpos := toI (decode D level idx)
  let ranges := cpos.map (rangeOf periodic lim)
  (odometer ranges).filterMap fun off =>
    if off.all (· == 0) then none else
    let other := vadd cpos off
    let code := code3 off
    let wrapped := other.map fun o => if periodic then (o + lim) % lim else o
    let oidx := encode D level (wrapped.map Int.toNat)
    if !upperExclusion || (3^D)/2 < code then some { tgt := idx, src := oidx, tpos := tpos, code := code } else none

/-- last element of a list (0 for the empty list): `getEndingSpacialIndex` of a group -/
def lastD : List Nat → Nat
  | [] => 0
  | [a] => a
  | _ :: b :: l => lastD (b :: l)

/-- `getStartingSpacialIndex` -/
def firstOf (g : Group) : Nat := g.headD 0
/-- `getEndingSpacialIndex` -/
abbrev lastOf (g : Group) : Nat := lastD g

/-- split a per-cell list into (internal, external) w.r.t. the group's `[first,last]` range, with the
    optional existence test -/
def splitInOut (g : Group) (testSelf : Bool) (all : List Inter) : List Inter × List Inter :=
  let first := firstOf g; let last := lastOf g
  let internal := all.filter fun x => (first ≤ x.src && x.src ≤ last) && (!testSelf || g.contains x.src)
  let external := all.filter fun x => !(first ≤ x.src && x.src ≤ last)
  (internal, external)

/-- `getInteractionListForBlock` -/
def ilistBlock (D : Nat) (periodic : Bool) (level : Nat) (g : Group) (testSelf : Bool := true) : List Inter × List Inter :=
  splitInOut g testSelf ((g.zipIdx).flatMap fun (c, k) => ilistCell D periodic level c k)

/-- `getNeighborListForBlock` -/
def nlistBlock (D : Nat) (periodic : Bool) (level : Nat) (g : Group) (upperExclusion : Bool) (testSelf : Bool := true) : List Inter × List Inter :=
  splitInOut g testSelf ((g.zipIdx).flatMap fun (c, k) => nlistCell D periodic level c k upperExclusion)

/-- `getSelfListForBlock` -/
def selfListBlock (D : Nat) (g : Group) : List Inter :=
  (g.zipIdx).map fun (c, k) => { tgt := c, src := c, tpos := k, code := code3 (List.replicate D 0) }

end Tbfmm
