import Tbfmm.Model.Kernel
/-!
# Model of the periodic top tree (`TbfAlgorithmPeriodicTopTree`): virtual levels above the root

Extended configuration of height `H' = n + 5`; the real root sits at extended level `H' - 2 = n + 3`;
`multipoles[l]` / `locals[l]` (`3 ≤ l ≤ n + 3`) belong to the super-box of `2^(n+3-l)` real boxes per
dimension whose low corner is the real box.
-/
namespace Tbfmm

inductive TopCall
  | m2mReal (level : Nat) (children : List (Nat × Nat))    -- real level-1 cells with their child codes → multipoles[level]
  | m2mVirt (level : Nat) (codes : List Nat)               -- 2^D copies of multipoles[level+1] → multipoles[level]
  | m2l (level : Nat) (codes : List Nat)                   -- window of copies of multipoles[level] → locals[level]
  | l2lVirt (level : Nat)                                  -- locals[level] → locals[level+1] (child code 0)
  | l2lReal (level : Nat) (children : List (Nat × Nat))    -- locals[level] → real level-1 cells
deriving Repr, BEq, DecidableEq, Inhabited

/-- position codes of the window `[lo,hi]^D` minus the adjacent cube `[-1,1]^D`, in odometer order -/
def windowCodes (D : Nat) (lo hi : Int) : List Nat :=
  ((odometer (List.replicate D (lo, hi))).filter fun v => !(v.all fun x => x.natAbs ≤ 1)).map code7

/-- levels `hi, hi-1, …, lo` -/
def levelsDown (lo hi : Nat) : List Nat := ((List.range (hi + 1)).filter (lo ≤ ·)).reverse
def levelsUp (lo hi : Nat) : List Nat := (List.range (hi + 1)).filter (lo ≤ ·)

/-- `GenerateAboveTreeConfiguration`: the configuration the top tree (and the kernel it builds itself) works with:
    (tree height, box width in units of the real box, twice the offset of its centre from the real corner) -/
def topTreeConfig (n : Int) : Nat × Nat × Nat :=
  ((n + 5).toNat, if n < 0 then 4 else 8 * 2 ^ n.toNat, 2)

/-- `TbfAlgorithmPeriodicTopTree::execute` for `n = nbLevelsAbove0 ≥ 0` (nothing happens for `n = -1`) -/
def topTreeCalls (D : Nat) (n : Int) (level1 : List Nat) : List TopCall :=
  if n < 0 then [] else
  let n := n.toNat
  let Hx := n + 5
  let real := level1.map fun c => (c, childCode D c)
  [TopCall.m2mReal (Hx - 2) real] ++
  ((levelsDown 3 (Hx - 3)).map fun l => TopCall.m2mVirt l (List.range (2^D))) ++
  (if n = 0 then [TopCall.m2l 3 (windowCodes D (-3) 3)]
   else (levelsUp 3 (Hx - 2)).map fun l => TopCall.m2l l (if l = 3 then windowCodes D (-3) 2 else windowCodes D (-2) 3)) ++
  ((levelsUp 3 (Hx - 3)).map TopCall.l2lVirt) ++
  [TopCall.l2lReal (Hx - 2) real]

/-- storage of the virtual cells inside `State`: level key `1000 + l`, index 0 -/
def vkey (l : Nat) : Nat := 1000 + l

def applyTopCall (s : State) : TopCall → State
  | .m2mReal l ch => s.addM (vkey l) 0 ((ch.map fun c => s.m 1 c.1).sum)
  | .m2mVirt l codes => s.addM (vkey l) 0 (codes.length * s.m (vkey (l+1)) 0)
  | .m2l l codes => s.addL (vkey l) 0 (codes.length * s.m (vkey l) 0)
  | .l2lVirt l => s.addL (vkey (l+1)) 0 (s.l (vkey l) 0)
  | .l2lReal l ch => ch.foldl (fun s c => s.addL 1 c.1 (s.l (vkey l) 0)) s

/-- image offsets (in units of the real box) of the copies summed by one transfer call at extended
    level `l`: source super-box at offset `o` covers `[o·w, o·w + w - 1]^D`, `w = 2^(n+3-l)` -/
def imagesOfWindow (D n l : Nat) (lo hi : Int) : List (List Int) :=
  let w : Int := 2^(n + 3 - l)
  ((odometer (List.replicate D (lo, hi))).filter fun v => !(v.all fun x => x.natAbs ≤ 1)).flatMap fun o =>
    (odometer (List.replicate D (0, w - 1))).map fun r => vadd (o.map (· * w)) r

end Tbfmm
