import Tbfmm.Model.Lists
/-!
# Model of the binary searches: `TbfUtils::lower_bound_indexes`, `getElementFromSpacialIndex`,
`getElementFromParentIndex`, `findGroupWithCell` / `findGroupWithLeaf`
-/
namespace Tbfmm

/-- the loop of `TbfUtils::lower_bound_indexes`, with fuel (`fuel ≥ count` suffices) -/
def lowerBoundIdx (lt : Nat → Bool) : (fuel first count : Nat) → Nat
  | 0, first, _ => first
  | f+1, first, count =>
    if count = 0 then first else
      let step := count / 2
      let it := first + step
      if lt it then lowerBoundIdx lt f (it + 1) (count - (step + 1))
      else lowerBoundIdx lt f first step

/-- `getElementFromSpacialIndex` on a group's cell list -/
def findCell (cells : List Nat) (idx : Nat) : Option Nat :=
  let k := lowerBoundIdx (fun i => decide (cells.getD i 0 < idx)) cells.length 0 cells.length
  if k = cells.length then none else if cells.getD k 0 ≠ idx then none else some k

/-- `getElementFromParentIndex`: position of the first cell whose parent is `pidx` -/
def findByParent (par : Nat → Nat) (cells : List Nat) (pidx : Nat) : Option Nat :=
  let k := lowerBoundIdx (fun i => decide (par (cells.getD i 0) < pidx)) cells.length 0 cells.length
  if k = cells.length then none else if par (cells.getD k 0) ≠ pidx then none else some k

/-- `std::lower_bound` over groups by ending index, then range test, then in-group search:
    `findGroupWithCell` / `findGroupWithLeaf` -/
def findGroup (groups : List Group) (idx : Nat) : Option (Nat × Nat) :=
  let g := lowerBoundIdx (fun i => decide (lastOf (groups.getD i []) < idx)) groups.length 0 groups.length
  if g = groups.length then none else
    let grp := groups.getD g []
    if firstOf grp ≤ idx ∧ idx ≤ lastOf grp then
      match findCell grp idx with
      | some k => some (g, k)
      | none => none
    else none

end Tbfmm
