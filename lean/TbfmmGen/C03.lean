import Tbfmm.Generated.OmpTasks
/-!
Theorems over the tables regenerated from /repo/src on every run (OpenMP, Specx and StarPU executors).
-/
namespace Tbfmm.Generated

/-- declared dependences cover the actual accesses of every task of both OpenMP executors -/
theorem omp_declared_covers_actual : ∀ t ∈ ompTasks, t.covers wrapperFootprints = true := by decide

/-- no task of either OpenMP executor reads a variable whose lifetime may have ended when it runs -/
theorem omp_capture_safe : ∀ t ∈ ompTasks, t.captureSafe = true := by decide

/-- every task is created with an explicit data-sharing default and at least one written buffer -/
theorem omp_tasks_wellformed : ∀ t ∈ ompTasks, (t.defaultShared = true ∧ t.commutes ≠ [] ∧ t.calls ≠ []) := by decide

/-- declared accesses cover the actual accesses of every task of both Specx executors -/
theorem specx_declared_covers_actual : ∀ t ∈ specxTasks, t.covers wrapperFootprints = true := by decide

/-- no task of either Specx executor uses a variable whose lifetime may have ended when it runs -/
theorem specx_capture_safe : ∀ t ∈ specxTasks, t.captureSafe = true := by decide

/-- the task bodies receive constant views exactly for the declared reads, and every task declares a written buffer -/
theorem specx_tasks_wellformed : ∀ t ∈ specxTasks, (t.modesMatch = true ∧ t.commutes ≠ [] ∧ t.calls ≠ []) := by decide

/-- StarPU: submitted handles match the codelets' modes and cover, buffer by buffer, what the callbacks' wrapper calls touch -/
theorem starpu_declared_covers_actual :
    ∀ t ∈ starpuTasks, t.covers wrapperFootprints starpuLayouts starpuCodelets starpuCallbacks = true := by decide

/-- StarPU: everything a task is handed outlives it, and is unpacked with the types it was packed with -/
theorem starpu_values_safe : ∀ t ∈ starpuTasks, t.valuesSafe starpuFiles starpuCodelets starpuCallbacks = true := by decide

/-- StarPU: every codelet is used by a submission, and every submission writes some buffer -/
theorem starpu_tasks_wellformed :
    (∀ c ∈ starpuCodelets, starpuTasks.any (fun t => t.file == c.file && t.codelet == c.name) = true) ∧
    (∀ t ∈ starpuTasks, t.handles.any (·.1) = true) := by decide

end Tbfmm.Generated
