import Tbfmm.Generated.OmpTasks
/-!
Theorems over the tables regenerated from /repo/src on every run (OpenMP executors).
-/
namespace Tbfmm.Generated

/-- declared dependences cover the actual accesses of every task of both OpenMP executors -/
theorem omp_declared_covers_actual : ∀ t ∈ ompTasks, t.covers wrapperFootprints = true := by decide

/-- no task of either OpenMP executor reads a variable whose lifetime may have ended when it runs -/
theorem omp_capture_safe : ∀ t ∈ ompTasks, t.captureSafe = true := by decide

/-- every task is created with an explicit data-sharing default and at least one written buffer -/
theorem omp_tasks_wellformed : ∀ t ∈ ompTasks, (t.defaultShared = true ∧ t.commutes ≠ [] ∧ t.calls ≠ []) := by decide

end Tbfmm.Generated
