import Tbfmm.Spec.Fmm
import Tbfmm.Model.Coord
import Tbfmm.Model.Layout
import Tbfmm.Model.P2P
import Tbfmm.Model.Periodic
/-!
Line-protocol driver for the executable model (see DESIGN.md §4.1).  Reads commands on stdin, writes
canonical text on stdout; the C++ harness reads the same commands and writes the same format.
-/
open Tbfmm

/-- state of the float-stream cases (h_tree harness): arbitrary box, float/double coordinates and data -/
structure FState where
  active : Bool := false
  real64 : Bool := true
  data64 : Bool := true
  nData : Nat := 3
  nRhs : Nat := 1
  center : List Nat := []        -- RealType bit patterns
  width : List Nat := []
  input : List (List Nat) := []  -- per particle: RealType bit patterns of the NbData input values
  stored : Array (List Nat) := #[]   -- per original index: DataType bit patterns as stored in the tree
  rhs : Array (List Int) := #[]
  bs : Nat := 1
  mode : Bool := false
  -- a target/source tree over the same particles: what each side stores, and the targets' results
  storedS : Array (List Nat) := #[]
  storedT : Array (List Nat) := #[]
  rhsT : Array (List Int) := #[]
deriving Inhabited

structure DState where
  D : Nat := 3
  H : Nat := 3
  periodic : Bool := false
  leafIdx : List Nat := []
  tree : Tree := default
  st : State := {}
  skip : Bool := false     -- after `build auto=1` (block size chosen by the library): nothing to model
  wide : Bool := false          -- 16 x 64-bit counters instead of 64 x 16-bit
  leafIdxS : List Nat := []      -- target/source mode: source and target particle sets
  leafIdxT : List Nat := []
  treeS : Tree := default
  treeT : Tree := default
  ldefs : List BlockDef := []
  lns : List Nat := []
  lalloc : Nat := 0
  f : FState := {}

def natsOf (ts : List String) : List Nat := ts.map String.toNat!

def hexOf (n : Nat) : String := String.ofList (Nat.toDigits 16 n)

def joinNat (xs : List Nat) : String := " ".intercalate (xs.map toString)

def sortNat (xs : List Nat) : List Nat := xs.mergeSort (· ≤ ·)

def printCall : Call → String
  | .p2m leaf parts => s!"C P2M {leaf} {parts.length} {joinNat (sortNat parts)}"
  | .m2m level p ch => s!"C M2M {level} {p} {ch.length} " ++ " ".intercalate (ch.map fun c => s!"{c.1}:{c.2}")
  | .m2l level t ss => s!"C M2L {level} {t} {ss.length} " ++ " ".intercalate (ss.map fun c => s!"{c.1}:{c.2}")
  | .l2l level p ch => s!"C L2L {level} {p} {ch.length} " ++ " ".intercalate (ch.map fun c => s!"{c.1}:{c.2}")
  | .l2p leaf parts => s!"C L2P {leaf} {parts.length} {joinNat (sortNat parts)}"
  | .p2p s t c => s!"C P2P {s} {t} {c}"
  | .p2pTsm s t c => s!"C P2PT {s} {t} {c}"
  | .p2pInner l => s!"C P2PI {l}"

def dumpStructure (t : Tree) : List String :=
  let lv := (List.range t.H).flatMap fun l =>
    (s!"S L {l} {(t.level l).length}") ::
    ((t.level l).zipIdx.map fun (g, gi) => s!"S G {l} {gi} {firstOf g} {lastOf g} {g.length} : {joinNat g}")
  let pg := t.pgroups.zipIdx.map fun (g, gi) =>
    let idxs := g.map (·.idx)
    s!"S P {gi} {firstOf idxs} {lastOf idxs} {g.length} {(g.map (·.parts.length)).sum} : " ++
      " ".intercalate (g.map fun l => s!"{l.idx}=" ++ ",".intercalate ((sortNat l.parts).map toString))
  [s!"S T {t.H} {t.pgroups.length}"] ++ lv ++ pg

def dumpValues (t : Tree) (s : State) : List String :=
  let cells := (List.range t.H).flatMap fun l => (t.level l).flatMap fun g => g.map fun c => (l, c)
  (cells.map fun (l, c) => s!"V M {l} {c} {hexOf (s.m l c)}") ++
  (cells.map fun (l, c) => s!"V L {l} {c} {hexOf (s.l l c)}") ++
  ((sortNat (t.stored.map (·.2))).map fun p => s!"V R {p} {hexOf (s.r p)}")

def printElem : Elem → String
  | .p2m leaf n => s!"SE P2M {leaf} {n}"
  | .m2m l p c k => s!"SE M2M {l} {p} {c} {k}"
  | .m2l l t s k => s!"SE M2L {l} {t} {s} {k}"
  | .l2l l p c k => s!"SE L2L {l} {p} {c} {k}"
  | .l2p leaf n => s!"SE L2P {leaf} {n}"
  | .p2p s t c => s!"SE P2P {s} {t} {c}"
  | .p2pTsm s t c => s!"SE P2PT {s} {t} {c}"
  | .p2pInner l => s!"SE P2PI {l}"

def shapeOf (leafIdx : List Nat) : Shape :=
  (sortDedup leafIdx).map fun i => (i, (leafIdx.zipIdx.filter (·.1 == i)).map (·.2))

def printInter (tag : String) (v : List Inter) : String :=
  s!"{tag} {v.length}" ++ String.join (v.map fun x => s!" {x.tgt}:{x.src}:{x.tpos}:{x.code}")

def intsOf (ts : List String) : List Int := ts.map String.toInt!
def joinInt (xs : List Int) : String := " ".intercalate (xs.map toString)

def idxCommand (D : Nat) (periodic : Bool) : List String → List String
  | "enc" :: cs => [s!"I enc {encode D 64 (natsOf cs)}"]
  | ["dec", i] => [s!"I dec {joinNat (decode D 64 i.toNat!)}"]
  | ["parent", i] => [s!"I parent {parent D i.toNat!}"]
  | ["childcode", i] => [s!"I childcode {childCode D i.toNat!}"]
  | ["child", p, c] => [s!"I child {child D p.toNat! c.toNat!}"]
  | ["upper", l] => [s!"I upper {upperBound D l.toNat!}"]
  | ["ilist", l, i] =>
      let v := ilistCell D periodic l.toNat! i.toNat! 0
      [s!"I ilist {v.length}" ++ String.join (v.map fun x => s!" {x.src}")]
  | ["nlist", l, i, u] =>
      let v := nlistCell D periodic l.toNat! i.toNat! 0 (u != "0")
      [s!"I nlist {v.length}" ++ String.join (v.map fun x => s!" {x.src}")]
  | "code7" :: cs => [s!"I code7 {code7 (intsOf cs)}"]
  | ["dec7", c] => [s!"I dec7 {joinInt (decode7 D c.toNat!)}"]
  | "code3" :: cs => [s!"I code3 {code3 (intsOf cs)}"]
  | ["dec3", c] => [s!"I dec3 {joinInt (decode3 D c.toNat!)}"]
  | "iblock" :: l :: ts :: cells =>
      let (a, b) := ilistBlock D periodic l.toNat! (natsOf cells) (ts != "0")
      [printInter "I iblock-in" a, printInter "I iblock-ex" b]
  | "nblock" :: l :: u :: ts :: cells =>
      let (a, b) := nlistBlock D periodic l.toNat! (natsOf cells) (u != "0") (ts != "0")
      [printInter "I nblock-in" a, printInter "I nblock-ex" b]
  | "sblock" :: cells => [printInter "I sblock" (selfListBlock D (natsOf cells))]
  | ["consts"] => [s!"I consts {2^D} {6^D - 3^D} {3^D - 1}"]
  | other => ["bad-op idx " ++ " ".intercalate other]

def ofHex (s : String) : Nat := s.foldl (fun acc c =>
  acc * 16 + (if c.isDigit then c.toNat - '0'.toNat else if 'a' ≤ c ∧ c ≤ 'f' then c.toNat - 'a'.toNat + 10 else c.toNat - 'A'.toNat + 10)) 0

def f64 (b : Nat) : Float := Float.ofBits b.toUInt64
def f32 (b : Nat) : Float32 := Float32.ofBits b.toUInt32

/-- RealType bit pattern → DataType bit pattern (the conversion done when the tree copies the input) -/
def realToData (real64 data64 : Bool) (b : Nat) : Nat :=
  if real64 == data64 then b
  else if real64 then (f64 b).toFloat32.toBits.toNat      -- double → float (rounds)
  else (f32 b).toFloat.toBits.toNat                        -- float → double (exact)

/-- grid coordinate of a position given as a bit pattern of width `src64`, in a tree whose
    coordinate type is `real64`: `getTreeCoordinate(pos - corner)` with the usual arithmetic conversions -/
def coordOfBits (real64 src64 : Bool) (H : Nat) (centerB widthB posB : Nat) : Nat :=
  if real64 then
    let c := boxCorner (f64 centerB) (f64 widthB); let lw := leafWidth (f64 widthB) H
    let x : Float := if src64 then f64 posB else (f32 posB).toFloat
    treeCoordinate (x - c) (f64 widthB) lw H
  else
    let c := boxCorner (f32 centerB) (f32 widthB); let lw := leafWidth (f32 widthB) H
    let rel : Float32 := if src64 then ((f64 posB) - c.toFloat).toFloat32 else (f32 posB) - c
    treeCoordinate rel (f32 widthB) lw H

def FState.leafIdxOf (f : FState) (D H : Nat) (src64 : Bool) (bits : List Nat) : Nat :=
  encode D (H - 1) ((List.range D).map fun d => coordOfBits f.real64 src64 H (f.center.getD d 0) (f.width.getD d 0) (bits.getD d 0))

def parseBlockDef (t : String) : BlockDef :=
  match t.splitOn ":" with
  | [k, s, r] =>
    let kind := if k == "S" then BlockKind.scalar else if k == "V" then BlockKind.vector
                else if k == "R" then BlockKind.multiR r.toNat! else BlockKind.multiV r.toNat!
    { kind := kind, size := s.toNat! }
  | _ => default

def layoutSamples (b : BlockDef) (n : Nat) : List (Nat × Nat) :=
  match b.kind with
  | .scalar => [(0, 0)]
  | .vector => if n == 0 then [] else [0, n/2, n-1].map fun i => (i, 0)
  | .multiR rows | .multiV rows =>
    if n == 0 then [] else [0, n/2, n-1].flatMap fun i => [0, rows/2, rows-1].map fun r => (i, r)

def layoutLines (tag : String) (defs : List BlockDef) (ns : List Nat) (alloc : Nat) : List String :=
  let offs := blockOffsets defs ns 0
  let hdr := s!"{tag} alloc={alloc} toff=" ++ ",".intercalate (offs.map toString) ++ " tcnt=" ++ ",".intercalate (ns.map toString)
  hdr :: ((defs.zip (ns.zip offs)).zipIdx.flatMap fun ((b, n, off), k) =>
    (layoutSamples b n).map fun (i, r) => s!"A {k} {i} {r} {itemAddr b off n i r}")

/-- `p2p <mutual|inner|remote> <32|64> ns nt` followed by 8 values per particle (x y z q fx fy fz pot; sources first) -/
def p2pRun (α : Type) [Scalar α] (conv : Nat → α) (back : α → Nat) (routine : String) (ns nt : Nat) (vals : List Nat) : List Nat :=
  let mk := fun (k : Nat) =>
    let v := (vals.drop (8 * k)).take 8
    ((⟨conv (v.getD 0 0), conv (v.getD 1 0), conv (v.getD 2 0), conv (v.getD 3 0)⟩ : Part α),
     (⟨conv (v.getD 4 0), conv (v.getD 5 0), conv (v.getD 6 0), conv (v.getD 7 0)⟩ : Acc α))
  let srcs := (List.range ns).map mk
  let tgts := (List.range nt).map fun k => mk (ns + k)
  let (s', t') :=
    if routine == "mutual" then fullMutual srcs tgts []
    else if routine == "remote" then (srcs, fullRemote (srcs.map (·.1)) tgts)
    else (srcs, genericInner tgts)
  (s' ++ t').flatMap fun (_, a) => [back a.fx, back a.fy, back a.fz, back a.pot]

def printTopCall : TopCall → String
  | .m2mReal l ch => s!"CT M2M {l} 0 {ch.length} " ++ " ".intercalate (ch.map fun c => s!"{c.1}:{c.2}")
  | .m2mVirt l codes => s!"CT M2M {l} 0 {codes.length} " ++ " ".intercalate (codes.map fun c => s!"0:{c}")
  | .m2l l codes => s!"CT M2L {l} 0 {codes.length} " ++ " ".intercalate (codes.map fun c => s!"0:{c}")
  | .l2lVirt l => s!"CT L2L {l} 0 1 0:0"
  | .l2lReal l ch => s!"CT L2L {l} 0 {ch.length} " ++ " ".intercalate (ch.map fun c => s!"{c.1}:{c.2}")

def kvInt (ts : List String) (key : String) (dflt : Int) : Int :=
  match ts.find? (fun t => t.startsWith (key ++ "=")) with
  | some t => ((t.drop (key.length + 1)).toString).toInt!
  | none => dflt

def kv (ts : List String) (key : String) (dflt : Nat) : Nat :=
  match ts.find? (fun t => t.startsWith (key ++ "=")) with
  | some t => ((t.drop (key.length + 1)).toString).toNat!
  | none => dflt

/-- the flag set of an `exec` line: `alias=<name>` (one of the library's named constants, `Tbfmm.flagAlias`) or `flags=<n>` -/
def flagsOf (ts : List String) : Nat :=
  match ts.find? (fun t => t.startsWith "alias=") with
  | some t => (Tbfmm.flagAlias ((t.drop 6).toString)).getD (kv ts "flags" 63)
  | none => kv ts "flags" 63

def step (d : DState) (line : String) : DState × List String :=
  let toks := line.trimAscii.toString.splitOn " "
  if d.skip && !(["case", "build", "mark", "end", "tree", "parts"].contains (toks.headD "")) then (d, []) else
  match toks with
  | "case" :: name => ({}, ["== " ++ " ".intercalate name])
  | "tree" :: ts =>
    ({ d with D := kv ts "D" 3, H := kv ts "H" 3, periodic := kv ts "periodic" 0 == 1, wide := kv ts "slotbits" 16 == 64 }, [])
  | "parts" :: n :: cs =>
    let n := n.toNat!
    let cs := natsOf cs
    let idx := (List.range n).map fun i => encode d.D (d.H - 1) ((cs.drop (i * d.D)).take d.D)
    ({ d with leafIdx := idx }, [])
  | "mark" :: x => (d, ["M " ++ " ".intercalate x])
  | "partsS" :: n :: cs =>
    let cs := natsOf cs
    ({ d with leafIdxS := (List.range n.toNat!).map fun i => encode d.D (d.H - 1) ((cs.drop (i * d.D)).take d.D) }, [])
  | "partsT" :: n :: cs =>
    let cs := natsOf cs
    ({ d with leafIdxT := (List.range n.toNat!).map fun i => encode d.D (d.H - 1) ((cs.drop (i * d.D)).take d.D) }, [])
  | "buildtsm" :: ts =>
    let auto := kv ts "auto" 0 == 1
    -- no block size given: TbfBlockSizeFinder::EstimateTsm on both particle sets together
    let bs := if auto then autoBlockSize (d.leafIdxS ++ d.leafIdxT) (kv ts "threads" 1) else kv ts "bs" 1
    let mode := kv ts "mode" 0 == 1
    ({ d with treeS := Tree.build d.D d.H bs mode d.leafIdxS, treeT := Tree.build d.D d.H bs mode d.leafIdxT, st := {} },
      if auto then [s!"B {bs} {bs}"] else [])
  | ["dump", "tsmstructure"] =>
    (d, (dumpStructure d.treeS).map ("s" ++ ·) ++ (dumpStructure d.treeT).map ("t" ++ ·))
  | ["dump", "tsmvalues"] =>
    let cellsOf := fun (t : Tree) => (List.range t.H).flatMap fun l => (t.level l).flatMap fun g => g.map fun c => (l, c)
    (d, ((cellsOf d.treeS).map fun (l, c) => s!"V M {l} {c} {hexOf (d.st.m l c)}") ++
        ((cellsOf d.treeT).map fun (l, c) => s!"V L {l} {c} {hexOf (d.st.l l c)}") ++
        ((sortNat (d.treeT.stored.map (·.2))).map fun p => s!"V R {p} {hexOf (d.st.r p)}"))
  | "exec" :: "tsm" :: ts =>
    let cs := executeTsm d.treeS d.treeT d.periodic (flagsOf ts) (kv ts "upper" 2)
    ({ d with st := applyCalls (if d.wide then weightWide else weight) (d.H - 1) d.treeT.partsOf d.treeS.partsOf d.st cs }, cs.map printCall)
  | "exec" :: "periodictsm" :: ts =>
    let n := kvInt ts "n" 0
    let w := if d.wide then weightWide else weight
    let run := fun fl => executeTsm d.treeS d.treeT true fl 1
    let poT := d.treeT.partsOf; let poS := d.treeS.partsOf
    let c1 := run 6
    let st1 := applyCalls w (d.H - 1) poT poS d.st c1
    -- upward part reads the source tree's level-1 cells, downward part writes the target tree's
    let top := topTreeCalls d.D n ((d.treeS.level 1).flatten)
    let topT := topTreeCalls d.D n ((d.treeT.level 1).flatten)
    let top' := top.dropLast ++ (topT.getLast?.map (fun x => [x])).getD []
    let st2 := top'.foldl applyTopCall st1
    let c2 := run 9
    let st3 := applyCalls w (d.H - 1) poT poS st2 c2
    let c3 := run 48
    let st4 := applyCalls w (d.H - 1) poT poS st3 c3
    let tk := topTreeConfig n
    ({ d with st := st4 }, [s!"TK {tk.1} {tk.2.1} {tk.2.2}"] ++ (c1.map printCall) ++ (top'.map printTopCall) ++ (c2.map printCall) ++ (c3.map printCall))
  | "exec" :: "omptsm" :: ts =>
    let cs := executeTsm d.treeS d.treeT d.periodic (flagsOf ts) (kv ts "upper" 2) true
    ({ d with st := applyCalls (if d.wide then weightWide else weight) (d.H - 1) d.treeT.partsOf d.treeS.partsOf d.st cs }, cs.map printCall)
  | "exec" :: "specxtsm" :: ts =>
    let cs := executeTsm d.treeS d.treeT d.periodic (flagsOf ts) (kv ts "upper" 2) true
    ({ d with st := applyCalls (if d.wide then weightWide else weight) (d.H - 1) d.treeT.partsOf d.treeS.partsOf d.st cs }, cs.map printCall)
  | "exec" :: "starputsm" :: ts =>
    let cs := executeTsm d.treeS d.treeT d.periodic (flagsOf ts) (kv ts "upper" 2) true
    ({ d with st := applyCalls (if d.wide then weightWide else weight) (d.H - 1) d.treeT.partsOf d.treeS.partsOf d.st cs }, cs.map printCall)
  | "spec" :: "tsmelems" :: ts =>
    (d, (specElemsTsm d.D d.H d.periodic (shapeOf d.leafIdxS) (shapeOf d.leafIdxT) (flagsOf ts) (kv ts "upper" 2)).map printElem)
  | "find" :: "tsmcell" :: which :: l :: is =>
    let l := l.toNat!
    let t := if which == "S" then d.treeS else d.treeT
    (d, (natsOf is).map fun i => match findGroup (t.level l) i with
      | some (g, k) => s!"F C{which} {l} {i} {g} {k}"
      | none => s!"F C{which} {l} {i} none")
  | "find" :: "tsmleaf" :: which :: is =>
    let t := if which == "S" then d.treeS else d.treeT
    (d, (natsOf is).map fun i => match findGroup t.leafGroups i with
      | some (g, k) => s!"F P{which} {i} {g} {k}"
      | none => s!"F P{which} {i} none")
  | "p2p" :: routine :: w :: ns :: nt :: vs =>
    let vals := vs.map ofHex
    let out := if w == "64" then p2pRun Float f64 (fun x => x.toBits.toNat) routine ns.toNat! nt.toNat! vals
               else p2pRun Float32 f32 (fun x => x.toBits.toNat) routine ns.toNat! nt.toNat! vals
    (d, [" ".intercalate ("PP" :: out.map hexOf)])
  | "layout" :: _id :: rest =>
    let defs := (rest.takeWhile (· != "|")).map parseBlockDef
    let ns := natsOf ((rest.dropWhile (· != "|")).drop 1)
    let alloc := newAllocated 0 false defs ns
    ({ d with ldefs := defs, lns := ns, lalloc := alloc }, layoutLines "LY" defs ns alloc)
  | "reuse" :: rest =>
    let ns := natsOf rest
    let alloc := newAllocated d.lalloc true d.ldefs ns
    ({ d with lns := ns, lalloc := alloc }, layoutLines "LY" d.ldefs ns alloc)
  | ["bytecopy"] => (d, [])
  | ["copy"] => (d, layoutLines "CPV" d.ldefs d.lns d.lalloc)
  | ["move"] => (d, layoutLines "MVV" d.ldefs d.lns d.lalloc)
  | "ftree" :: ts =>
    let D := kv ts "D" 3; let H := kv ts "H" 3
    let vals := (ts.filter fun t => !t.contains '=').map ofHex
    let f : FState := { active := true, real64 := kv ts "real" 64 == 64, data64 := kv ts "data" 64 == 64,
                        nData := D + kv ts "nextra" 0, nRhs := kv ts "nrhs" 1, center := vals.take D, width := (vals.drop D).take D }
    let cf := (List.range D).map fun k =>
      let cb := f.center.getD k 0
      let wb := f.width.getD k 0
      let (a, b) : Nat × Nat :=
        if f.real64 then ((boxCorner (f64 cb) (f64 wb)).toBits.toNat, (leafWidth (f64 wb) H).toBits.toNat)
        else ((boxCorner (f32 cb) (f32 wb)).toBits.toNat, (leafWidth (f32 wb) H).toBits.toNat)
      hexOf a ++ " " ++ hexOf b
    ({ d with D := D, H := H, periodic := kv ts "periodic" 0 == 1, f := f }, ["CF " ++ " ".intercalate cf])
  | "fparts" :: n :: vs =>
    let n := n.toNat!
    let vals := vs.map ofHex
    let input := (List.range n).map fun i => (vals.drop (i * d.f.nData)).take d.f.nData
    ({ d with f := { d.f with input := input } }, [])
  | "idx" :: rest => (d, idxCommand d.D d.periodic rest)
  | "build" :: ts =>
    if d.f.active then
      let f := d.f
      let leafIdx := f.input.map fun bits => f.leafIdxOf d.D d.H f.real64 bits
      let stored := (f.input.map fun bits => bits.map (realToData f.real64 f.data64)).toArray
      let t := Tree.build d.D d.H (kv ts "bs" 1) (kv ts "mode" 0 == 1) leafIdx
      let zeros : Array (List Int) := Array.replicate f.input.length (List.replicate f.nRhs (0 : Int))
      let f' : FState := { f with stored := stored, rhs := zeros, bs := kv ts "bs" 1, mode := kv ts "mode" 0 == 1 }
      ({ d with tree := t, st := {}, f := f' }, []) else
    if kv ts "auto" 0 == 1 then
      -- no block size given: TbfBlockSizeFinder::Estimate (TBFMM_BLOCK_SIZE, else distinct leaves / (2 x threads), at least 1)
      let bs := if ts.any (·.startsWith "env=") then kv ts "env" 1 else autoBlockSize d.leafIdx (kv ts "threads" 1)
      let t := Tree.build d.D d.H bs (kv ts "mode" 0 == 1) d.leafIdx
      ({ d with tree := t, st := {}, skip := false }, [s!"B {bs}"]) else
    let t := Tree.build d.D d.H (kv ts "bs" 1) (kv ts "mode" 0 == 1) d.leafIdx
    ({ d with tree := t, st := {}, skip := false }, [])
  | ["dump", "leaves"] =>
    let lf := d.tree.pgroups.zipIdx.flatMap fun (g, gi) => g.map fun l =>
      s!"LF {gi} {l.idx} {joinNat (decode d.D (d.H - 1) l.idx)} : {joinNat (sortNat l.parts)}"
    let leafOf := fun p => ((d.tree.stored.find? (·.2 == p)).getD (0, 0)).1
    let ps := (List.range d.f.stored.size).map fun p =>
      s!"P {p} {leafOf p} " ++ " ".intercalate ((d.f.stored.getD p []).map hexOf)
    (d, lf ++ ps)
  | "dump" :: "tsmleaves" :: ts =>
    -- the same particles as both sets of a target/source tree: each side stores what a tree of its own would
    if !d.f.active || d.f.nRhs == 0 then (d, []) else
    let f := d.f
    let leafIdx := f.input.map fun bits => f.leafIdxOf d.D d.H f.real64 bits
    let t := Tree.build d.D d.H (kv ts "bs" 1) (kv ts "mode" 0 == 1) leafIdx
    let lf := t.pgroups.zipIdx.flatMap fun (g, gi) => g.map fun l =>
      s!"LF {gi} {l.idx} {joinNat (decode d.D (d.H - 1) l.idx)} : {joinNat (sortNat l.parts)}"
    let leafOf := fun p => ((t.stored.find? (·.2 == p)).getD (0, 0)).1
    let stored := f.input.map fun bits => bits.map (realToData f.real64 f.data64)
    let ps := (List.range stored.length).map fun p =>
      s!"P {p} {leafOf p} " ++ " ".intercalate ((stored.getD p []).map hexOf)
    (d, (lf ++ ps).map ("s" ++ ·) ++ (lf ++ ps).map ("t" ++ ·))
  | "tsm" :: sub :: ts =>
    -- target/source tree over the same particle set on both sides (construction harness): independent histories of the two sides
    if !d.f.active || d.f.nRhs == 0 then (d, []) else
    let f := d.f
    let sideLines := fun (pre : String) (t : Tree) (stored : Array (List Nat)) =>
      let lf := t.pgroups.zipIdx.flatMap fun (g, gi) => g.map fun l =>
        s!"{pre}LF {gi} {l.idx} {joinNat (decode d.D (d.H - 1) l.idx)} : {joinNat (sortNat l.parts)}"
      let leafOf := fun p => ((t.stored.find? (·.2 == p)).getD (0, 0)).1
      let ps := (List.range stored.size).map fun p =>
        s!"{pre}P {p} {leafOf p} " ++ " ".intercalate ((stored.getD p []).map hexOf)
      lf ++ ps
    match sub with
    | "build" =>
      let leafIdx := f.input.map fun bits => f.leafIdxOf d.D d.H f.real64 bits
      let stored := (f.input.map fun bits => bits.map (realToData f.real64 f.data64)).toArray
      let bs := kv ts "bs" 1; let mode := kv ts "mode" 0 == 1
      let t := Tree.build d.D d.H bs mode leafIdx
      let zeros : Array (List Int) := Array.replicate f.input.length (List.replicate f.nRhs (0 : Int))
      ({ d with treeS := t, treeT := t, f := { f with storedS := stored, storedT := stored, rhsT := zeros, bs := bs, mode := mode } }, [])
    | "move" =>
      match ts with
      | side :: p :: cs =>
        let p := p.toNat!
        let nb := cs.map ofHex
        if side == "s" then
          let old := f.storedS.getD p []
          ({ d with f := { f with storedS := f.storedS.setIfInBounds p (nb ++ old.drop nb.length) } }, [])
        else
          let old := f.storedT.getD p []
          ({ d with f := { f with storedT := f.storedT.setIfInBounds p (nb ++ old.drop nb.length) } }, [])
      | _ => (d, ["bad-op tsm move"])
    | "rebuild" =>
      -- TbfTreeTsm::rebuild: each side is rebuilt from the positions it stores
      let li := fun (stored : Array (List Nat)) => stored.toList.map fun bits => f.leafIdxOf d.D d.H f.data64 bits
      ({ d with treeS := Tree.build d.D d.H f.bs f.mode (li f.storedS), treeT := Tree.build d.D d.H f.bs f.mode (li f.storedT) }, [])
    | "exec" =>
      let cs := executeTsm d.treeS d.treeT d.periodic 63 (if d.periodic then 1 else 2)
      let st := applyCalls (fun _ => 1) (d.H - 1) d.treeT.partsOf d.treeS.partsOf {} cs
      let rhs := f.rhsT.mapIdx fun p r => match r with
        | [] => []
        | r0 :: rest => (r0 + (st.r p : Int)) :: rest
      ({ d with f := { f with rhsT := rhs } }, ["EX"])
    | "dump" =>
      (d, sideLines "s" d.treeS f.storedS ++ sideLines "t" d.treeT f.storedT ++
        ((List.range f.rhsT.size).map fun p => " ".intercalate (["tR", toString p] ++ (f.rhsT.getD p []).map toString)))
    | "export" =>
      let w := if f.data64 then "64" else "32"
      let ds := d.treeS.exportBy [] (fun p => f.storedS.getD p []) f.storedS.size
      let dt := d.treeT.exportBy [] (fun p => f.storedT.getD p []) f.storedT.size
      let rt := d.treeT.exportBy [] (fun p => f.rhsT.getD p []) f.rhsT.size
      (d, (ds.zipIdx.map fun (v, p) => " ".intercalate (["XDs", toString p, w] ++ v.map hexOf)) ++
          (dt.zipIdx.map fun (v, p) => " ".intercalate (["XDt", toString p, w] ++ v.map hexOf)) ++
          (rt.zipIdx.map fun (v, p) => " ".intercalate (["XRt", toString p] ++ v.map toString)))
    | _ => (d, ["bad-op tsm " ++ sub])
  | ["dump", "groups"] =>
    (d, (List.range d.tree.H).flatMap fun l =>
      (d.tree.level l).zipIdx.map fun (g, gi) => s!"S G {l} {gi} {firstOf g} {lastOf g} {g.length} : {joinNat g}")
  | ["dump", "zero"] =>
    let nzc := ((List.range d.tree.H).flatMap fun l => (d.tree.level l).flatMap fun g => g.filter fun c => d.st.m l c != 0 || d.st.l l c != 0).length
    (d, [s!"Z {nzc} {((d.f.rhs.toList.flatMap id).filter (· != 0)).length}"])
  | ["dump", "rhs"] =>
    (d, (List.range d.f.rhs.size).map fun p => " ".intercalate (["R", toString p] ++ (d.f.rhs.getD p []).map toString))
  | ["digest"] => (d, [])
  | "fexec" :: ts =>
    if !d.f.active then (d, ["bad-op fexec"]) else
    if d.f.nRhs == 0 then (d, ["EX"]) else
    let cs := executeSeq d.tree d.periodic (flagsOf ts) (kv ts "upper" (if d.periodic then 1 else 2))
    let po := d.tree.partsOf
    let st0 : State := { d.st with rhs := {} }
    let st := applyCalls (fun _ => 1) (d.H - 1) po po st0 cs
    let rhs := d.f.rhs.mapIdx fun p r => match r with
      | [] => []
      | r0 :: rest => (r0 + (st.r p : Int)) :: rest
    ({ d with st := st, f := { d.f with rhs := rhs } }, ["EX"])
  | "move" :: p :: cs =>
    let p := p.toNat!
    let nb := cs.map ofHex          -- DataType bit patterns
    let old := d.f.stored.getD p []
    ({ d with f := { d.f with stored := d.f.stored.setIfInBounds p (nb ++ old.drop nb.length) } }, [])
  | ["rebuild"] =>
    -- TbfTree::rebuild: gather data and results by original index, rebuild from the stored positions, scatter the results back
    if !d.f.active then
      -- cell-centre families: nothing moved, so the rebuilt tree is the tree; expansions are reset, results kept
      ({ d with st := { rhs := d.st.rhs } }, []) else
    let f := d.f
    let leafIdx := f.stored.toList.map fun bits => f.leafIdxOf d.D d.H f.data64 bits
    let t := Tree.build d.D d.H f.bs f.mode leafIdx
    ({ d with tree := t, st := {} }, [])
  | ["export", "data"] =>
    -- getAllParticlesData: walk the particles in storage order, write each one's values at its original index
    let out := d.tree.exportBy [] (fun p => d.f.stored.getD p []) d.f.stored.size
    (d, out.zipIdx.map fun (v, p) =>
      " ".intercalate (["XD", toString p, if d.f.data64 then "64" else "32"] ++ v.map hexOf))
  | ["export", "rhs"] =>
    let out := d.tree.exportBy [] (fun p => d.f.rhs.getD p []) d.f.rhs.size
    (d, out.zipIdx.map fun (v, p) => " ".intercalate (["XR", toString p] ++ v.map toString))
  | ["dump", "structure"] => (d, dumpStructure d.tree)
  | ["dump", "values"] => (d, dumpValues d.tree d.st)
  | "exec" :: "seq" :: ts =>
    let cs := executeSeq d.tree d.periodic (flagsOf ts) (kv ts "upper" 2)
    let po := d.tree.partsOf
    ({ d with st := applyCalls (if d.wide then weightWide else weight) (d.H - 1) po po d.st cs }, cs.map printCall)
  | "spec" :: "elems" :: ts =>
    (d, (specElems d.D d.H d.periodic (shapeOf d.leafIdx) (flagsOf ts) (kv ts "upper" 2)).map printElem)
  | "exec" :: "seqc" :: ts =>
    let cs := executeSeq d.tree d.periodic (flagsOf ts) (kv ts "upper" 2)
    let po := d.tree.partsOf
    ({ d with st := applyCalls (if d.wide then weightWide else weight) (d.H - 1) po po d.st cs }, cs.map printCall)
  | "exec" :: "ompc" :: ts =>
    let cs := executeOmp d.tree d.periodic (flagsOf ts) (kv ts "upper" 2)
    let po := d.tree.partsOf
    ({ d with st := applyCalls (if d.wide then weightWide else weight) (d.H - 1) po po d.st cs }, cs.map printCall)
  | "exec" :: "periodic" :: ts =>
    let n := kvInt ts "n" 0
    let omp := kv ts "omp" 0 == 1
    let run := fun (t : Tree) fl => if omp then executeOmp t true fl 1 else executeSeq t true fl 1
    let po := d.tree.partsOf
    let c1 := run d.tree 6
    let st1 := applyCalls (if d.wide then weightWide else weight) (d.H - 1) po po d.st c1
    let top := topTreeCalls d.D n ((d.tree.level 1).flatten)
    let st2 := top.foldl applyTopCall st1
    let c2 := run d.tree 9
    let st3 := applyCalls (if d.wide then weightWide else weight) (d.H - 1) po po st2 c2
    let c3 := run d.tree 48
    let st4 := applyCalls (if d.wide then weightWide else weight) (d.H - 1) po po st3 c3
    let tk := topTreeConfig n
    ({ d with st := st4 }, [s!"TK {tk.1} {tk.2.1} {tk.2.2}"] ++ (c1.map printCall) ++ (top.map printTopCall) ++ (c2.map printCall) ++ (c3.map printCall))
  | "exec" :: "omp" :: ts =>
    let cs := executeOmp d.tree d.periodic (flagsOf ts) (kv ts "upper" 2)
    let po := d.tree.partsOf
    ({ d with st := applyCalls (if d.wide then weightWide else weight) (d.H - 1) po po d.st cs }, cs.map printCall)
  | "exec" :: "specx" :: ts =>       -- the Specx executor submits in the same order as the OpenMP one
    let cs := executeOmp d.tree d.periodic (flagsOf ts) (kv ts "upper" 2)
    let po := d.tree.partsOf
    ({ d with st := applyCalls (if d.wide then weightWide else weight) (d.H - 1) po po d.st cs }, cs.map printCall)
  | "exec" :: "starpu" :: ts =>      -- the StarPU executor submits in the same order as the OpenMP one
    let cs := executeOmp d.tree d.periodic (flagsOf ts) (kv ts "upper" 2)
    let po := d.tree.partsOf
    ({ d with st := applyCalls (if d.wide then weightWide else weight) (d.H - 1) po po d.st cs }, cs.map printCall)
  | "find" :: "cell" :: l :: is =>
    let l := l.toNat!
    (d, (natsOf is).map fun i => match findGroup (d.tree.level l) i with
      | some (g, k) => s!"F C {l} {i} {g} {k}"
      | none => s!"F C {l} {i} none")
  | "find" :: "leaf" :: is =>
    (d, (natsOf is).map fun i => match findGroup d.tree.leafGroups i with
      | some (g, k) => s!"F P {i} {g} {k}"
      | none => s!"F P {i} none")
  | "find" :: "parent" :: l :: is =>
    let l := l.toNat!
    (d, (d.tree.level l).zipIdx.flatMap fun (grp, g) => (natsOf is).map fun i =>
      match findByParent (· >>> d.D) grp i with
      | some k => s!"F Q {l} {g} {i} {k}"
      | none => s!"F Q {l} {g} {i} none")
  | "find" :: "ingroup" :: l :: is =>
    let l := l.toNat!
    let cells := (d.tree.level l).zipIdx.flatMap fun (grp, g) => (natsOf is).map fun i =>
      match findCell grp i with
      | some k => s!"F G {l} {g} {i} {k}"
      | none => s!"F G {l} {g} {i} none"
    let leaves := if l + 1 == d.tree.H then d.tree.leafGroups.zipIdx.flatMap fun (grp, g) => (natsOf is).map fun i =>
      match findCell grp i with
      | some k => s!"F H {g} {i} {k}"
      | none => s!"F H {g} {i} none" else []
    (d, cells ++ leaves)
  | "offs" :: _ => (d, [])       -- particles moved inside / onto a face of their own cell: the cell, hence the model, is unchanged
  | ["end"] => (d, ["end"])
  | [""] => (d, [])
  | _ => (d, ["bad-op " ++ line.trimAscii.toString])

partial def loop (h : IO.FS.Stream) (out : IO.FS.Stream) (d : DState) : IO Unit := do
  let line ← h.getLine
  if line.isEmpty then return ()
  let (d', outs) := step d line
  for o in outs do out.putStrLn o
  loop h out d'

def main : IO Unit := do
  let stdin ← IO.getStdin
  let stdout ← IO.getStdout
  loop stdin stdout {}
