import Tbfmm.Spec.Fmm
/-!
Line-protocol driver for the executable model (see DESIGN.md §4.1).  Reads commands on stdin, writes
canonical text on stdout; the C++ harness reads the same commands and writes the same format.
-/
open Tbfmm

structure DState where
  D : Nat := 3
  H : Nat := 3
  periodic : Bool := false
  leafIdx : List Nat := []
  tree : Tree := default
  st : State := {}
  skip : Bool := false     -- after `build auto=1` (block size chosen by the library): nothing to model

def natsOf (ts : List String) : List Nat := ts.map String.toNat!

def hexOf (n : Nat) : String := String.ofList (Nat.toDigits 16 n)

def joinNat (xs : List Nat) : String := " ".intercalate (xs.map toString)

def sortNat (xs : List Nat) : List Nat := xs.mergeSort (· ≤ ·)

def printCall : Call → String
  | .p2m leaf parts => s!"C P2M {leaf} {parts.length} {joinNat (sortNat parts)}"
  | .m2m level p ch => s!"C M2M {level} {p} {ch.length} " ++ " ".intercalate (ch.map fun c => s!"{c.1}:{c.2}")
  | .m2l level t ss => s!"C M2L {level} {t} {ss.length} " ++ " ".intercalate (ss.map fun c => s!"{c.1}:{c.2}")
  | .l2l level p ch => s!"C L2L {level} {p} {ch.length} " ++ " ".intercalate (ch.map fun c => s!"{c.1}:{c.2}")
  | .l2p leaf parts => s!"C L2P {leaf} {parts.length} {joinNat (sortNat parts)}"
  | .p2p s t c => s!"C P2P {s} {t} {c}"
  | .p2pTsm s t c => s!"C P2PT {s} {t} {c}"
  | .p2pInner l => s!"C P2PI {l}"

def dumpStructure (t : Tree) : List String :=
  let lv := (List.range t.H).flatMap fun l =>
    (s!"S L {l} {(t.level l).length}") ::
    ((t.level l).zipIdx.map fun (g, gi) => s!"S G {l} {gi} {firstOf g} {lastOf g} {g.length} : {joinNat g}")
  let pg := t.pgroups.zipIdx.map fun (g, gi) =>
    let idxs := g.map (·.idx)
    s!"S P {gi} {firstOf idxs} {lastOf idxs} {g.length} {(g.map (·.parts.length)).sum} : " ++
      " ".intercalate (g.map fun l => s!"{l.idx}=" ++ ",".intercalate ((sortNat l.parts).map toString))
  [s!"S T {t.H} {t.pgroups.length}"] ++ lv ++ pg

def dumpValues (t : Tree) (s : State) : List String :=
  let cells := (List.range t.H).flatMap fun l => (t.level l).flatMap fun g => g.map fun c => (l, c)
  (cells.map fun (l, c) => s!"V M {l} {c} {hexOf (s.m l c)}") ++
  (cells.map fun (l, c) => s!"V L {l} {c} {hexOf (s.l l c)}") ++
  ((sortNat (t.stored.map (·.2))).map fun p => s!"V R {p} {hexOf (s.r p)}")

def printElem : Elem → String
  | .p2m leaf n => s!"SE P2M {leaf} {n}"
  | .m2m l p c k => s!"SE M2M {l} {p} {c} {k}"
  | .m2l l t s k => s!"SE M2L {l} {t} {s} {k}"
  | .l2l l p c k => s!"SE L2L {l} {p} {c} {k}"
  | .l2p leaf n => s!"SE L2P {leaf} {n}"
  | .p2p s t c => s!"SE P2P {s} {t} {c}"
  | .p2pTsm s t c => s!"SE P2PT {s} {t} {c}"
  | .p2pInner l => s!"SE P2PI {l}"

def shapeOf (leafIdx : List Nat) : Shape :=
  (sortDedup leafIdx).map fun i => (i, (leafIdx.zipIdx.filter (·.1 == i)).map (·.2))

def printInter (tag : String) (v : List Inter) : String :=
  s!"{tag} {v.length}" ++ String.join (v.map fun x => s!" {x.tgt}:{x.src}:{x.tpos}:{x.code}")

def intsOf (ts : List String) : List Int := ts.map String.toInt!
def joinInt (xs : List Int) : String := " ".intercalate (xs.map toString)

def idxCommand (D : Nat) (periodic : Bool) : List String → List String
  | "enc" :: cs => [s!"I enc {encode D 64 (natsOf cs)}"]
  | ["dec", i] => [s!"I dec {joinNat (decode D 64 i.toNat!)}"]
  | ["parent", i] => [s!"I parent {parent D i.toNat!}"]
  | ["childcode", i] => [s!"I childcode {childCode D i.toNat!}"]
  | ["child", p, c] => [s!"I child {child D p.toNat! c.toNat!}"]
  | ["upper", l] => [s!"I upper {upperBound D l.toNat!}"]
  | ["ilist", l, i] =>
      let v := ilistCell D periodic l.toNat! i.toNat! 0
      [s!"I ilist {v.length}" ++ String.join (v.map fun x => s!" {x.src}")]
  | ["nlist", l, i, u] =>
      let v := nlistCell D periodic l.toNat! i.toNat! 0 (u != "0")
      [s!"I nlist {v.length}" ++ String.join (v.map fun x => s!" {x.src}")]
  | "code7" :: cs => [s!"I code7 {code7 (intsOf cs)}"]
  | ["dec7", c] => [s!"I dec7 {joinInt (decode7 D c.toNat!)}"]
  | "code3" :: cs => [s!"I code3 {code3 (intsOf cs)}"]
  | ["dec3", c] => [s!"I dec3 {joinInt (decode3 D c.toNat!)}"]
  | "iblock" :: l :: ts :: cells =>
      let (a, b) := ilistBlock D periodic l.toNat! (natsOf cells) (ts != "0")
      [printInter "I iblock-in" a, printInter "I iblock-ex" b]
  | "nblock" :: l :: u :: ts :: cells =>
      let (a, b) := nlistBlock D periodic l.toNat! (natsOf cells) (u != "0") (ts != "0")
      [printInter "I nblock-in" a, printInter "I nblock-ex" b]
  | "sblock" :: cells => [printInter "I sblock" (selfListBlock D (natsOf cells))]
  | ["consts"] => [s!"I consts {2^D} {6^D - 3^D} {3^D - 1}"]
  | other => ["bad-op idx " ++ " ".intercalate other]

def kv (ts : List String) (key : String) (dflt : Nat) : Nat :=
  match ts.find? (fun t => t.startsWith (key ++ "=")) with
  | some t => ((t.drop (key.length + 1)).toString).toNat!
  | none => dflt

def step (d : DState) (line : String) : DState × List String :=
  let toks := line.trimAscii.toString.splitOn " "
  if d.skip && !(["case", "build", "mark", "end", "tree", "parts"].contains (toks.headD "")) then (d, []) else
  match toks with
  | "case" :: name => ({}, ["== " ++ " ".intercalate name])
  | "tree" :: ts =>
    ({ d with D := kv ts "D" 3, H := kv ts "H" 3, periodic := kv ts "periodic" 0 == 1 }, [])
  | "parts" :: n :: cs =>
    let n := n.toNat!
    let cs := natsOf cs
    let idx := (List.range n).map fun i => encode d.D (d.H - 1) ((cs.drop (i * d.D)).take d.D)
    ({ d with leafIdx := idx }, [])
  | "mark" :: x => (d, ["M " ++ " ".intercalate x])
  | "idx" :: rest => (d, idxCommand d.D d.periodic rest)
  | "build" :: ts =>
    if kv ts "auto" 0 == 1 then ({ d with skip := true }, []) else
    let t := Tree.build d.D d.H (kv ts "bs" 1) (kv ts "mode" 0 == 1) d.leafIdx
    ({ d with tree := t, st := {}, skip := false }, [])
  | ["dump", "structure"] => (d, dumpStructure d.tree)
  | ["dump", "values"] => (d, dumpValues d.tree d.st)
  | "exec" :: "seq" :: ts =>
    let cs := executeSeq d.tree d.periodic (kv ts "flags" 63) (kv ts "upper" 2)
    let po := d.tree.partsOf
    ({ d with st := applyCalls (d.H - 1) po po d.st cs }, cs.map printCall)
  | "spec" :: "elems" :: ts =>
    (d, (specElems d.D d.H d.periodic (shapeOf d.leafIdx) (kv ts "flags" 63) (kv ts "upper" 2)).map printElem)
  | "exec" :: "omp" :: ts =>
    let cs := executeOmp d.tree d.periodic (kv ts "flags" 63) (kv ts "upper" 2)
    let po := d.tree.partsOf
    ({ d with st := applyCalls (d.H - 1) po po d.st cs }, cs.map printCall)
  | "find" :: "cell" :: l :: is =>
    let l := l.toNat!
    (d, (natsOf is).map fun i => match findGroup (d.tree.level l) i with
      | some (g, k) => s!"F C {l} {i} {g} {k}"
      | none => s!"F C {l} {i} none")
  | "find" :: "leaf" :: is =>
    (d, (natsOf is).map fun i => match findGroup d.tree.leafGroups i with
      | some (g, k) => s!"F P {i} {g} {k}"
      | none => s!"F P {i} none")
  | ["end"] => (d, ["end"])
  | [""] => (d, [])
  | _ => (d, ["bad-op " ++ line.trimAscii.toString])

partial def loop (h : IO.FS.Stream) (out : IO.FS.Stream) (d : DState) : IO Unit := do
  let line ← h.getLine
  if line.isEmpty then return ()
  let (d', outs) := step d line
  for o in outs do out.putStrLn o
  loop h out d'

def main : IO Unit := do
  let stdin ← IO.getStdin
  let stdout ← IO.getStdout
  loop stdin stdout {}
