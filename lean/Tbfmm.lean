import Tbfmm.Model.Morton
import Tbfmm.Model.Lists
import Tbfmm.Model.Search
import Tbfmm.Model.Tree
import Tbfmm.Model.Walk
import Tbfmm.Model.Exec
import Tbfmm.Model.Kernel
import Tbfmm.Spec.Fmm
