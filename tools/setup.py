#!/usr/bin/env python3
"""MANIFEST.setup_cmd: build the Lean project (library + driver) from the files on disk; nothing is fetched."""
import os
import sys
sys.path.insert(0, os.path.dirname(os.path.abspath(__file__)))
import common

ok, log = common.lake_build()
print(log[-2000:])
if not ok:
    sys.exit(1)
print("setup ok")
