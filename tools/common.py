"""Shared machinery of the checks: building (Lean project, C++ harnesses), axiom audit, running the
two sides of the correspondence, evidence, known findings.  See DESIGN.md §1.2."""
import fcntl
import hashlib
import json
import os
import re
import shutil
import subprocess
import sys
import tempfile
import time

VERIF = os.path.dirname(os.path.dirname(os.path.abspath(__file__)))
REPO = os.environ.get("VERIF_REPO", "/repo")
LEAN = os.path.join(VERIF, "lean")
HARNESS = os.path.join(VERIF, "harness")
CACHE = os.path.join(VERIF, ".cache")
EVIDENCE = os.path.join(VERIF, "evidence")
REPLAY = os.path.join(EVIDENCE, "replay")
DRIVER = os.path.join(LEAN, ".lake", "build", "bin", "tbfmm_driver")
NCPU = os.cpu_count() or 4

ALLOWED_AXIOMS = {"propext", "Classical.choice", "Quot.sound"}
FORBIDDEN = re.compile(r"\b(sorry|admit|native_decide|bv_decide|implemented_by|unsafe)\b|^\s*axiom\s|maxHeartbeats\s+0")

CXX = ["g++", "-std=c++17", "-O1", "-g", "-fsanitize=address,undefined", "-fno-sanitize-recover=all",
       "-ffp-contract=off", "-fno-omit-frame-pointer", "-ftrivial-auto-var-init=pattern", "-DTBFMM_VERIF", "-I" + os.path.join(REPO, "src"), "-I" + HARNESS]


class Lock:
    def __init__(self, name):
        os.makedirs(CACHE, exist_ok=True)
        self.path = os.path.join(CACHE, name + ".lock")

    def __enter__(self):
        self.f = open(self.path, "w")
        fcntl.flock(self.f, fcntl.LOCK_EX)
        return self

    def __exit__(self, *a):
        fcntl.flock(self.f, fcntl.LOCK_UN)
        self.f.close()


def sh(cmd, cwd=None, inp=None, timeout=None, env=None):
    e = dict(os.environ)
    if env:
        e.update(env)
    p = subprocess.run(cmd, cwd=cwd, input=inp, stdout=subprocess.PIPE, stderr=subprocess.PIPE, timeout=timeout, env=e)
    return p.returncode, p.stdout.decode("utf-8", "replace"), p.stderr.decode("utf-8", "replace")


# ------------------------------------------------------------------------------------------------
# Lean side

def lake_build(extra_targets=()):
    """(ok, log).  Re-checks every proof that changed (or whose Generated/* input changed)."""
    with Lock("lake"):
        rc, out, err = sh(["lake", "build", "Tbfmm", "tbfmm_driver"] + list(extra_targets), cwd=LEAN, timeout=3600)
    return rc == 0, out + err


def lean_sources():
    res = []
    for root, _, files in os.walk(LEAN):
        if ".lake" in root:
            continue
        for f in files:
            if f.endswith(".lean"):
                res.append(os.path.join(root, f))
    return sorted(res)


def strip_comments(text):
    # remove /- ... -/ (nested) and -- ... comments
    out = []
    i, depth, n = 0, 0, len(text)
    while i < n:
        if text.startswith("/-", i):
            depth += 1
            i += 2
        elif depth and text.startswith("-/", i):
            depth -= 1
            i += 2
        elif depth:
            if text[i] == "\n":
                out.append("\n")
            i += 1
        elif text.startswith("--", i):
            while i < n and text[i] != "\n":
                i += 1
        else:
            out.append(text[i])
            i += 1
    return "".join(out)


def grep_forbidden():
    """list of (file, line, text) with a forbidden token outside comments (audit files excluded)"""
    hits = []
    for f in lean_sources():
        txt = strip_comments(open(f).read())
        for k, line in enumerate(txt.split("\n"), 1):
            if FORBIDDEN.search(line):
                hits.append((os.path.relpath(f, VERIF), k, line.strip()))
    return hits


def registry():
    return json.load(open(os.path.join(LEAN, "registry.json")))


def audit(theorems, extra_imports=()):
    """`#print axioms` for every theorem; returns {name: {"ok": bool, "axioms": [...], "msg": str}}"""
    res = {}
    if not theorems:
        return res
    src = "import Tbfmm\n" + "".join("import %s\n" % m for m in extra_imports) + "".join("#print axioms %s\n" % t for t in theorems)
    fd, path = tempfile.mkstemp(suffix=".lean", prefix="audit_", dir=CACHE)
    os.write(fd, src.encode())
    os.close(fd)
    try:
        with Lock("lake"):
            rc, out, err = sh(["lake", "env", "lean", path], cwd=LEAN, timeout=1800)
    finally:
        os.unlink(path)
    text = out + err
    for t in theorems:
        m = re.search(r"'%s' depends on axioms: \[([^\]]*)\]" % re.escape(t), text, re.S)
        if m:
            ax = [a.strip() for a in m.group(1).replace("\n", " ").split(",") if a.strip()]
            bad = [a for a in ax if a not in ALLOWED_AXIOMS]
            res[t] = {"ok": not bad, "axioms": ax, "msg": "" if not bad else "non-standard axioms: " + ",".join(bad)}
        elif re.search(r"'%s' does not depend on any axioms" % re.escape(t), text):
            res[t] = {"ok": True, "axioms": [], "msg": ""}
        else:
            res[t] = {"ok": False, "axioms": [], "msg": "theorem not found in the built environment"}
    return res


# ------------------------------------------------------------------------------------------------
# C++ side

def tree_hash(paths):
    h = hashlib.sha256()
    for base in paths:
        if os.path.isfile(base):
            h.update(base.encode())
            h.update(open(base, "rb").read())
            continue
        for root, dirs, files in os.walk(base):
            dirs.sort()
            for f in sorted(files):
                p = os.path.join(root, f)
                h.update(p.encode())
                try:
                    h.update(open(p, "rb").read())
                except OSError:
                    pass
    return h.hexdigest()


_repo_hash = None


def repo_hash():
    global _repo_hash
    if _repo_hash is None:
        _repo_hash = tree_hash([os.path.join(REPO, "src")])
    return _repo_hash


def build_harness(name, sources, flags=(), libs=(), cxx=None):
    """Compile a harness from /repo's *current* working tree.  Binaries are cached under .cache keyed
    by the content of /repo/src, the harness sources and the flags: any edit of the library rebuilds.
    Returns (path or None, compiler output)."""
    os.makedirs(CACHE, exist_ok=True)
    srcs = [s if os.path.isabs(s) else os.path.join(HARNESS, s) for s in sources]
    key = hashlib.sha256((repo_hash() + tree_hash([HARNESS]) + " ".join(flags) + " ".join(libs) + name + " ".join(cxx or CXX)).encode()).hexdigest()[:24]
    out = os.path.join(CACHE, "%s-%s" % (name, key))
    errf = out + ".err"
    if os.path.exists(out):
        return out, ""
    if os.path.exists(errf):
        return None, open(errf).read()
    cmd = list(cxx or CXX) + list(flags) + srcs + ["-o", out + ".tmp%d" % os.getpid()] + list(libs)
    rc, so, se = sh(cmd, timeout=1800)
    if rc != 0:
        with open(errf, "w") as f:
            f.write(" ".join(cmd) + "\n" + so + se)
        return None, so + se
    os.replace(out + ".tmp%d" % os.getpid(), out)
    return out, so + se


def build_many(specs):
    """specs: list of dict(name, sources, flags, libs).  Builds in parallel; returns {name: (path, log)}"""
    from concurrent.futures import ThreadPoolExecutor
    with Lock("harness"):
        with ThreadPoolExecutor(max_workers=min(NCPU, max(1, len(specs)))) as ex:
            futs = {s["name"]: ex.submit(build_harness, s["name"], s["sources"], s.get("flags", ()), s.get("libs", ()), s.get("cxx")) for s in specs}
            return {k: f.result() for k, f in futs.items()}


def clean_cache(keep_hash=True):
    """drop harness binaries that do not belong to the current /repo content"""
    if not os.path.isdir(CACHE):
        return
    for f in os.listdir(CACHE):
        p = os.path.join(CACHE, f)
        if f.endswith(".lock"):
            continue
        if os.path.isfile(p) and time.time() - os.path.getmtime(p) > 6 * 3600:
            try:
                os.unlink(p)
            except OSError:
                pass


SAN_ENV = {"ASAN_OPTIONS": "detect_stack_use_after_return=1:detect_leaks=1:abort_on_error=0:allocator_may_return_null=1",
           "UBSAN_OPTIONS": "print_stacktrace=1:halt_on_error=1"}


_HW = []
_HW_LOCK = __import__("threading").Lock()


def hw_threads():
    """std::thread::hardware_concurrency() as the library sees it (default thread count of TbfBlockSizeFinder)"""
    with _HW_LOCK:
        if not _HW:
            with Lock("harness-hc"):
                path, log = build_harness("h_hc", ["h_hc.cpp"], ("-pthread",))
            if path is None:
                raise RuntimeError("cannot build harness/h_hc.cpp: " + log[-500:])
            rc, out, err = sh([path], timeout=60)
            _HW.append(max(1, int(out.strip() or 1)))
    return _HW[0]


def run_harness(binary, text, timeout=600, env=None):
    e = dict(SAN_ENV)
    if env:
        e.update(env)
    try:
        rc, out, err = sh([binary], inp=text.encode(), timeout=timeout, env=e)
    except subprocess.TimeoutExpired:
        return -999, "", "timeout"
    return rc, out, err


def run_driver(text, timeout=1200):
    try:
        rc, out, err = sh([DRIVER], inp=text.encode(), timeout=timeout)
    except subprocess.TimeoutExpired:
        return -999, "", "timeout"
    return rc, out, err


def split_cases(out):
    """{case name: [lines]} from a driver/harness output"""
    cases, cur, name = {}, None, None
    for line in out.split("\n"):
        if line.startswith("== "):
            name = line[3:].strip()
            cur = []
            cases[name] = cur
        elif cur is not None and line != "":
            cur.append(line)
    return cases


def run_parallel(fn, chunks):
    from concurrent.futures import ThreadPoolExecutor
    with ThreadPoolExecutor(max_workers=NCPU) as ex:
        return list(ex.map(fn, chunks))


# ------------------------------------------------------------------------------------------------
# evidence, findings, verdicts

def known_findings():
    p = os.path.join(VERIF, "known_findings.json")
    if not os.path.exists(p):
        return {"known": [], "fixed": []}
    return json.load(open(p))


class Report:
    """collects what a check did; prints the verdict lines; writes the evidence file"""

    def __init__(self, pid, tier, seed, level):
        self.pid, self.tier, self.seed, self.level = pid, tier, seed, level
        self.t0 = time.time()
        self.cov = {}
        self.assumptions = []
        self.violations = []      # (signature, replay path, found_input: bool, text)
        self.known_hits = []
        self.notes = []
        os.makedirs(REPLAY, exist_ok=True)

    def replay_file(self, tag, content):
        h = hashlib.sha256(content.encode()).hexdigest()[:10]
        path = os.path.join(REPLAY, "%s-%s-%s.txt" % (self.pid, tag, h))
        with open(path, "w") as f:
            f.write(content)
        return path

    def violation(self, signature, content, found_input, text):
        """signature: stable identifier of *what* fails (matched against known_findings.json)"""
        for k in known_findings().get("known", []):
            if k.get("property") == self.pid and re.search(k["signature"], signature):
                if signature not in [h[0] for h in self.known_hits]:
                    self.known_hits.append((signature, k.get("what", signature)))
                return
        if any(v[0] == signature for v in self.violations):
            return
        path = self.replay_file(re.sub(r"[^A-Za-z0-9]+", "_", signature)[:40], content)
        self.violations.append((signature, path, found_input, text))

    def finish(self):
        wall = time.time() - self.t0
        ev = {"property_id": self.pid, "tier": self.tier, "seed": self.seed, "level": self.level,
              "coverage": self.cov, "assumptions": self.assumptions, "wall_s": round(wall, 2),
              "violations": len(self.violations)}
        if self.notes:
            ev["coverage"]["notes"] = self.notes
        if self.known_hits:
            ev["coverage"]["known_findings_hit"] = [h[1] for h in self.known_hits]
        os.makedirs(EVIDENCE, exist_ok=True)
        with open(os.path.join(EVIDENCE, self.pid + ".json"), "w") as f:
            json.dump(ev, f, indent=1, sort_keys=True)
        for sig, what in self.known_hits:
            print("KNOWN-FINDING: property=%s %s" % (self.pid, what))
        for sig, path, found, text in self.violations:
            print("  " + text.replace("\n", "\n  "))
            print("VIOLATION property=%s replay=%s%s" % (self.pid, os.path.relpath(path, VERIF), "" if found else " no-failing-input-found"))
        if not self.violations:
            print("OK property=%s tier=%s seed=%d wall=%.1fs" % (self.pid, self.tier, self.seed, wall))
        sys.stdout.flush()
        return 1 if self.violations else 0
