"""C12 — operator flags compose: staged runs equal a full run, write only their outputs."""
import core
import gen
from props import corefam
from props.C08 import segments

LEVEL = "proof"

P2P, P2M, M2M, M2L, L2L, L2P = 1, 2, 4, 8, 16, 32
CHAIN = [P2M, M2M, M2L, L2L, L2P]
# the library's named flag sets (TbfAlgorithmUtils::TbfOperations): the case line says alias=<name>; the harness takes the
# library's constant, the model its own definition (Tbfmm.flagAlias), and flags=<n> records the documented value
ALIAS = {P2M | M2M: "b2t", M2L | P2P: "transfer", L2L | L2P: "t2b", P2P: "near", P2M | M2M | M2L | L2L | L2P: "far", 63: "all"}
DEFAULT = {63: "default"}      # execute(tree) without a flag argument
SINGLE = {P2P: "p2p", P2M: "p2m", M2M: "m2m", M2L: "m2l", L2L: "l2l", L2P: "l2p"}


def exec_line(ex, f, upper, extra, named=None):
    return "exec %s flags=%d%s upper=%d%s" % (ex, f, " alias=%s" % named[f] if named and f in named else "", upper, extra)


OPNAME = {P2P: {"P2P", "P2PI", "P2PT"}, P2M: {"P2M"}, M2M: {"M2M"}, M2L: {"M2L"}, L2L: {"L2L"}, L2P: {"L2P"}}


def random_partition(r):
    k = r.randint(1, 5)
    cuts = sorted(r.sample(range(1, 5), k - 1)) if k > 1 else []
    sets, prev = [], 0
    for c in cuts + [5]:
        sets.append(sum(CHAIN[prev:c]))
        prev = c
    where = r.randrange(len(sets) + 1)
    if where == len(sets):
        sets.insert(r.randrange(len(sets) + 1), P2P)
    else:
        sets[where] |= P2P
    return sets


def gen_cases(tier, seed, configs):
    n = 220 if tier == "quick" else 3000
    cases = []
    for k in range(n):
        r = gen.rng(seed, "C12", k)
        D, H, periodic, kind, parts, bs, mode = corefam.random_tree_params(r, configs, max_n=48, big=(tier != "quick"))
        upper = r.randint(0, H) if r.random() < 0.5 else (1 if periodic else 2)
        ex = r.choice(["seq", "seq", "omp", "omp", "starpu", "specx"])      # "all executors": StarPU and Specx under their mock runtimes
        extra = " sched=2 seed=%d workers=%d" % (r.randrange(10 ** 6), r.choice([1, 3, 8])) if ex != "seq" else ""
        if ex in ("seq", "omp") and r.random() < 0.4:
            # the executor's other constructors: (configuration, kernel), (configuration) — both with the documented default level 2 — and (configuration, kernel, level)
            ct = r.choice([1, 2, 3])
            if ct in (1, 2):
                upper = 2
            extra += " ctor=%d" % ct
        b = "build bs=%d mode=%d" % (bs, mode)
        stagings = [[63], [P2M | M2M, M2L | P2P, L2L | L2P], [P2M | M2M | M2L | L2L | L2P, P2P]] + [random_partition(r) for _ in range(3)]
        named = lambda si: ALIAS if si in (1, 2) else (r.choice([None, ALIAS, DEFAULT]) if si == 0 else None)
        body = []
        for si, st in enumerate(stagings):
            body += ["mark st%d" % si, b] + [exec_line(ex, f, upper, extra, named(si)) for f in st] + ["dump values"]
        singles = [P2P, P2M, M2M, M2L, L2L, L2P]
        for f in singles:
            # each flag alone, after the flags before it in the chain so that there is something to move
            pre = [g for g in CHAIN if g < f and f != P2P]
            body += ["mark pre%d" % f, b] + ["exec %s flags=%d upper=%d%s" % (ex, sum(pre), upper, extra)] * (1 if pre else 0) + ["dump values"]
            body += ["mark one%d" % f, b] + ["exec %s flags=%d upper=%d%s" % (ex, sum(pre), upper, extra)] * (1 if pre else 0) + \
                    ["mark only%d" % f, exec_line(ex, f, upper, extra, SINGLE if r.random() < 0.5 else (ALIAS if f == P2P else None)), "dump values"]
        cases.append(corefam.make_case("c12-%d" % k, D, H, periodic, parts, bs, mode, body,
                                       {"kind": kind, "upper": upper, "stagings": stagings, "ex": ex}))
    return cases


def kinds(vlines):
    return {k: sorted(ln for ln in vlines if ln.startswith("V %s " % k)) for k in "MLR"}


def evaluate(res):
    c = res.case
    H, upper = c["H"], c["meta"]["upper"]
    corr, orc = [], []
    cs, ls = segments(res.cpp), segments(res.lean)
    full = sorted(core.section(cs.get("st0", []), "V "))
    for si, st in enumerate(c["meta"]["stagings"]):
        seg = cs.get("st%d" % si, [])
        v = sorted(core.section(seg, "V "))
        if v != full:
            d = [(a, b) for a, b in zip(v, full) if a != b][:2]
            orc.append(("C12:staged", "staged run with flag sets %r (upper=%d, %s) leaves values different from one full run: %r" % (st, upper, c["meta"]["ex"], d)))
        if v != sorted(core.section(ls.get("st%d" % si, []), "V ")):
            corr.append(("staged", "staging %r: library and model disagree on the values" % (st,)))
        for ln in core.section(seg, "C "):
            t = ln.split()
            if t[1] in ("M2M", "L2L") and not (upper <= int(t[2]) <= H - 2):
                orc.append(("C12:upper", "%s applied at level %s outside [upper=%d, H-2=%d]" % (t[1], t[2], upper, H - 2)))
            if t[1] == "M2L" and not (upper <= int(t[2]) <= H - 1):
                orc.append(("C12:upper", "M2L applied at level %s outside [upper=%d, H-1=%d]" % (t[2], upper, H - 1)))
            if t[1] in ("P2M", "L2P") and not H > upper:
                orc.append(("C12:upper", "%s applied although the tree height %d does not exceed the upper level %d" % (t[1], H, upper)))
        orc += [("C12:X", x) for x in core.section(seg, "X ")]
    for f in (P2P, P2M, M2M, M2L, L2L, L2P):
        only = cs.get("only%d" % f, [])
        ops = {ln.split()[1] for ln in core.section(only, "C ")}
        if not ops <= OPNAME[f]:
            orc.append(("C12:single", "flag %d alone triggered operators %r" % (f, sorted(ops - OPNAME[f]))))
        before, after = kinds(core.section(cs.get("pre%d" % f, []), "V ")), kinds(core.section(only, "V "))
        frame = {P2P: "R", P2M: "M", M2M: "M", M2L: "L", L2L: "L", L2P: "R"}[f]
        for k in "MLR":
            if k != frame and before[k] != after[k]:
                orc.append(("C12:frame", "flag %d alone changed %s values (it may only write %s)" % (f, {"M": "multipole", "L": "local", "R": "particle result"}[k], frame)))
        if sorted(core.section(only, "V ")) != sorted(core.section(ls.get("only%d" % f, []), "V ")):
            corr.append(("single", "flag %d alone: library and model disagree on the values" % f))
    return corr, orc[:6]


def tsm_family(rep, tier, seed, replay=None):
    """staged execute() calls on the target/source executors (sequential, OpenMP, StarPU and Specx under the mocks)"""
    import tsm
    binaries, bad = tsm.build(corefam.ALL_CONFIGS, starpu=True)
    if not binaries:
        if bad:
            first = sorted(bad.items())[0]
            rep.violation("harness-does-not-compile:tsm", first[1][-4000:], False, "no configuration of harness/h_tsm.cpp compiles against /repo/src")
        return
    usable = [c for c in corefam.ALL_CONFIGS if c in binaries]
    cases = []
    if replay:
        c = tsm.parse_replay(replay)
        stagings, cur, ex = [], None, "tsm"
        for ln in c["lines"]:
            t = ln.split()
            if t[0] == "mark":
                cur = [] if t[1].startswith("st") else None
                if cur is not None:
                    stagings.append(cur)
            elif t[0] == "exec" and cur is not None:
                ex = t[1]
                cur.append(int([x for x in t if x.startswith("flags=")][0][6:]))
        c["meta"].update({"stagings": stagings, "ex": ex})
        cases = [c]
    else:
        for k in range(40 if tier == "quick" else 600):
            r = gen.rng(seed, "C12t", k)
            D, periodic = r.choice(usable)
            H = gen.pick_height(r, D)
            if periodic and H < 2:
                H = 2
            kind, src, tgt = tsm.gen_sets(r, D, H, max_n=24)
            bs = gen.pick_bs(r, max(len(set(src)), len(set(tgt))))
            mode = r.randrange(2)
            upper = r.randint(0, H) if r.random() < 0.5 else (1 if periodic else 2)
            ex = r.choice(["tsm", "tsm", "omptsm", "omptsm", "starputsm", "specxtsm"])
            extra = " sched=2 seed=%d workers=%d" % (r.randrange(10 ** 6), r.choice([1, 3, 8])) if ex != "tsm" else ""
            if ex == "tsm" and r.random() < 0.4:
                ct = r.choice([1, 2, 3])
                if ct in (1, 2):
                    upper = 2
                extra += " ctor=%d" % ct
            stagings = [[63], [P2M | M2M, M2L | P2P, L2L | L2P], [P2M | M2M | M2L | L2L | L2P, P2P]] + [random_partition(r) for _ in range(3)]
            named = lambda si: ALIAS if si in (1, 2) else (r.choice([None, ALIAS, DEFAULT]) if si == 0 else None)
            body = []
            for si, st in enumerate(stagings):
                body += ["mark st%d" % si, "buildtsm bs=%d mode=%d" % (bs, mode)] + [exec_line(ex, f, upper, extra, named(si)) for f in st] + ["dump tsmvalues"]
            for f in (P2P, P2M, M2M, M2L, L2L, L2P):
                pre = [g for g in CHAIN if g < f and f != P2P]
                body += ["mark pre%d" % f, "buildtsm bs=%d mode=%d" % (bs, mode)] + ["exec %s flags=%d upper=%d%s" % (ex, sum(pre), upper, extra)] * (1 if pre else 0) + ["dump tsmvalues"]
                body += ["mark one%d" % f, "buildtsm bs=%d mode=%d" % (bs, mode)] + ["exec %s flags=%d upper=%d%s" % (ex, sum(pre), upper, extra)] * (1 if pre else 0) + \
                        ["mark only%d" % f, exec_line(ex, f, upper, extra, SINGLE if r.random() < 0.5 else (ALIAS if f == P2P else None)), "dump tsmvalues"]
            cases.append(tsm.make_case("c12t-%d" % k, D, H, periodic, src, tgt, bs, mode, body, {"kind": kind, "upper": upper, "stagings": stagings, "ex": ex}))
    n = 0
    for res in core.run_cases(cases, binaries):
        n += 1
        c = res.case
        text = "\n".join(c["lines"]) + "\n"
        if res.crash is not None:
            sig = corefam.crash_signature(res.crash)
            if "Assertion" in sig:
                continue          # assertion failures belong to C15
            rep.violation("crash:" + sig, "# harness aborted inside this target/source case\n# " + res.crash.replace("\n", "\n# ") + "\n" + text, True,
                          "the real library aborted on target/source case %s: %s" % (c["name"], sig))
            continue
        if res.cpp is None or res.lean is None or "stagings" not in c["meta"]:
            continue
        corr, orc = evaluate(res)
        for sig, msg in orc:
            rep.violation(sig.replace("C12:", "C12:tsm-"), "# %s\n%s" % (msg, text), True, "target/source case %s: %s" % (c["name"], msg))
        if corr and not orc:
            rep.violation("corr:tsm-" + corr[0][0], "# correspondence broke: %s\n%s" % (corr[0][1], text), False, "target/source case %s: %s" % (c["name"], corr[0][1]))
    rep.cov["target_source_staged_cases"] = n


def run(rep, tier, seed, replay, proof_ok, proof_msg):
    if replay and any(ln.startswith("partsS ") for ln in open(replay)):
        tsm_family(rep, tier, seed, replay)
        return
    if not replay:
        tsm_family(rep, tier, seed)
    corefam.standard_run(rep, tier, seed, replay, proof_ok, proof_msg, gen_cases, evaluate, omp=True, starpu=True,
                         corr_name="staged execute() calls: library (sequential, OpenMP/mock, StarPU/mock, Specx/mock) vs Lean model")
    rep.assumptions += ["OpenMP executor driven by the mock runtime with a random legal schedule"]
