"""C12 — operator flags compose: staged runs equal a full run, write only their outputs."""
import core
import gen
from props import corefam
from props.C08 import segments

LEVEL = "proof"

P2P, P2M, M2M, M2L, L2L, L2P = 1, 2, 4, 8, 16, 32
CHAIN = [P2M, M2M, M2L, L2L, L2P]
OPNAME = {P2P: {"P2P", "P2PI"}, P2M: {"P2M"}, M2M: {"M2M"}, M2L: {"M2L"}, L2L: {"L2L"}, L2P: {"L2P"}}


def random_partition(r):
    k = r.randint(1, 5)
    cuts = sorted(r.sample(range(1, 5), k - 1)) if k > 1 else []
    sets, prev = [], 0
    for c in cuts + [5]:
        sets.append(sum(CHAIN[prev:c]))
        prev = c
    where = r.randrange(len(sets) + 1)
    if where == len(sets):
        sets.insert(r.randrange(len(sets) + 1), P2P)
    else:
        sets[where] |= P2P
    return sets


def gen_cases(tier, seed, configs):
    n = 220 if tier == "quick" else 3000
    cases = []
    for k in range(n):
        r = gen.rng(seed, "C12", k)
        D, H, periodic, kind, parts, bs, mode = corefam.random_tree_params(r, configs, max_n=48, big=(tier != "quick"))
        upper = r.randint(0, H) if r.random() < 0.5 else (1 if periodic else 2)
        ex = r.choice(["seq", "seq", "omp"])
        extra = " sched=2 seed=%d workers=%d" % (r.randrange(10 ** 6), r.choice([1, 3, 8])) if ex == "omp" else ""
        b = "build bs=%d mode=%d" % (bs, mode)
        stagings = [[63], [P2M | M2M, M2L | P2P, L2L | L2P]] + [random_partition(r) for _ in range(3)]
        body = []
        for si, st in enumerate(stagings):
            body += ["mark st%d" % si, b] + ["exec %s flags=%d upper=%d%s" % (ex, f, upper, extra) for f in st] + ["dump values"]
        singles = [P2P, P2M, M2M, M2L, L2L, L2P]
        for f in singles:
            # each flag alone, after the flags before it in the chain so that there is something to move
            pre = [g for g in CHAIN if g < f and f != P2P]
            body += ["mark pre%d" % f, b] + ["exec %s flags=%d upper=%d%s" % (ex, sum(pre), upper, extra)] * (1 if pre else 0) + ["dump values"]
            body += ["mark one%d" % f, b] + ["exec %s flags=%d upper=%d%s" % (ex, sum(pre), upper, extra)] * (1 if pre else 0) + \
                    ["mark only%d" % f, "exec %s flags=%d upper=%d%s" % (ex, f, upper, extra), "dump values"]
        cases.append(corefam.make_case("c12-%d" % k, D, H, periodic, parts, bs, mode, body,
                                       {"kind": kind, "upper": upper, "stagings": stagings, "ex": ex}))
    return cases


def kinds(vlines):
    return {k: sorted(ln for ln in vlines if ln.startswith("V %s " % k)) for k in "MLR"}


def evaluate(res):
    c = res.case
    H, upper = c["H"], c["meta"]["upper"]
    corr, orc = [], []
    cs, ls = segments(res.cpp), segments(res.lean)
    full = sorted(core.section(cs.get("st0", []), "V "))
    for si, st in enumerate(c["meta"]["stagings"]):
        seg = cs.get("st%d" % si, [])
        v = sorted(core.section(seg, "V "))
        if v != full:
            d = [(a, b) for a, b in zip(v, full) if a != b][:2]
            orc.append(("C12:staged", "staged run with flag sets %r (upper=%d, %s) leaves values different from one full run: %r" % (st, upper, c["meta"]["ex"], d)))
        if v != sorted(core.section(ls.get("st%d" % si, []), "V ")):
            corr.append(("staged", "staging %r: library and model disagree on the values" % (st,)))
        for ln in core.section(seg, "C "):
            t = ln.split()
            if t[1] in ("M2M", "L2L") and not (upper <= int(t[2]) <= H - 2):
                orc.append(("C12:upper", "%s applied at level %s outside [upper=%d, H-2=%d]" % (t[1], t[2], upper, H - 2)))
            if t[1] == "M2L" and not (upper <= int(t[2]) <= H - 1):
                orc.append(("C12:upper", "M2L applied at level %s outside [upper=%d, H-1=%d]" % (t[2], upper, H - 1)))
            if t[1] in ("P2M", "L2P") and not H > upper:
                orc.append(("C12:upper", "%s applied although the tree height %d does not exceed the upper level %d" % (t[1], H, upper)))
        orc += [("C12:X", x) for x in core.section(seg, "X ")]
    for f in (P2P, P2M, M2M, M2L, L2L, L2P):
        only = cs.get("only%d" % f, [])
        ops = {ln.split()[1] for ln in core.section(only, "C ")}
        if not ops <= OPNAME[f]:
            orc.append(("C12:single", "flag %d alone triggered operators %r" % (f, sorted(ops - OPNAME[f]))))
        before, after = kinds(core.section(cs.get("pre%d" % f, []), "V ")), kinds(core.section(only, "V "))
        frame = {P2P: "R", P2M: "M", M2M: "M", M2L: "L", L2L: "L", L2P: "R"}[f]
        for k in "MLR":
            if k != frame and before[k] != after[k]:
                orc.append(("C12:frame", "flag %d alone changed %s values (it may only write %s)" % (f, {"M": "multipole", "L": "local", "R": "particle result"}[k], frame)))
        if sorted(core.section(only, "V ")) != sorted(core.section(ls.get("only%d" % f, []), "V ")):
            corr.append(("single", "flag %d alone: library and model disagree on the values" % f))
    return corr, orc[:6]


def run(rep, tier, seed, replay, proof_ok, proof_msg):
    corefam.standard_run(rep, tier, seed, replay, proof_ok, proof_msg, gen_cases, evaluate, omp=True,
                         corr_name="staged execute() calls: library (sequential and OpenMP/mock) vs Lean model")
    rep.assumptions += ["OpenMP executor driven by the mock runtime with a random legal schedule"]
