"""C19 — every documented template configuration builds and satisfies the core guarantees.

'Instantiates without compile error' cannot be a Lean theorem: it is decided by compiling the
correspondence harness itself for the configuration matrix (each TU that compiles then runs the
C01/C06/C13 correspondence).  Level: other (partial)."""
import re

import common
import core
import gen
from props import corefam, C01

LEVEL = "other"


def first_error(log):
    for ln in log.split("\n"):
        if "error:" in ln:
            return ln.strip()[:300]
    return log.strip().split("\n")[0][:300] if log.strip() else "unknown compiler failure"


def matrix(tier):
    import ftree
    import tsm
    tus = []
    for D in (1, 2, 3, 4):
        for periodic in (0, 1):
            tus.append(("core D=%d periodic=%d double" % (D, periodic), core.harness_spec(D, periodic), (D, periodic)))
    for D in (1, 2, 3, 4):
        for periodic in (0, 1):
            tus.append(("OpenMP executor D=%d periodic=%d" % (D, periodic), core.harness_spec(D, periodic, omp=True), None))
    for D in (1, 2, 3, 4):
        for periodic in (0, 1):
            tus.append(("target/source tree + executors D=%d periodic=%d" % (D, periodic), tsm.harness_spec(D, periodic), None))
    for cfg in ftree.CONFIGS:
        tus.append(("tree with rebuild/export D=%d coord=%s data=%s extra=%d rhs=%d periodic=%d" % cfg, ftree.spec_of(cfg), None))
    # the StarPU executors against the API-compatible mock header, and the selector header with several runtimes enabled at once
    for D in (1, 2, 3, 4):
        for periodic in (0, 1):
            tus.append(("StarPU and Specx executors (mock runtimes) D=%d periodic=%d" % (D, periodic), core.harness_spec(D, periodic, omp=True, starpu=True), None))
    for D in (2, 3):
        tus.append(("StarPU and Specx target/source executors (mock runtimes) D=%d" % D, tsm.harness_spec(D, 0, starpu=True), None))
    import os
    inc = "-I" + os.path.join(common.VERIF, "harness", "mock_starpu")
    inc2 = "-I" + os.path.join(common.VERIF, "harness", "mock_specx")
    for label, defs in (("OpenMP + Specx + StarPU", ["-DTBF_USE_OPENMP", "-DTBF_USE_SPECX", "-DTBF_USE_STARPU"]), ("OpenMP + StarPU", ["-DTBF_USE_OPENMP", "-DTBF_USE_STARPU"]),
                        ("OpenMP + Specx", ["-DTBF_USE_OPENMP", "-DTBF_USE_SPECX"]), ("OpenMP only", ["-DTBF_USE_OPENMP"]), ("StarPU only", ["-DTBF_USE_STARPU"]), ("no runtime", [])):
        tus.append(("algorithm selector header, %s" % label,
                    {"name": "h_selecter_" + "_".join(d[10:].lower() for d in defs) if defs else "h_selecter_none",
                     "sources": ["h_selecter.cpp", "mock_starpu.cpp", "mock_gomp.cpp"], "flags": ["-fopenmp", inc, inc2] + defs}, "selecter"))
    # float coordinates with every executor (sequential, OpenMP, StarPU and Specx under the mocks)
    for D in (1, 2, 3, 4):
        sp = core.harness_spec(D, D % 2, omp=True, starpu=True)
        sp = {"name": sp["name"] + "_f32", "sources": sp["sources"], "flags": sp["flags"] + ["-DCOREREAL=float"]}
        tus.append(("executors with float coordinates D=%d periodic=%d" % (D, D % 2), sp, ("f32", D, D % 2)))
    # the Hilbert ordering as a configuration: trees of heights 2..6, counting kernel (header consistency, every particle N-1)
    tus.append(("Hilbert ordering (3-D), tree construction and sequential executor", {"name": "h_hilbert_fmm", "sources": ["h_hilbert_fmm.cpp"], "flags": []}, "selecter"))
    return tus


def run(rep, tier, seed, replay, proof_ok, proof_msg):
    if replay and any(ln.startswith("ftree ") for ln in open(replay)):
        import ftree
        from props import C13, C17
        ftree.standard(rep, tier, seed, replay, proof_ok, proof_msg, "C19", 1, 1, True, lambda r: ([], C13.evaluate(r)[1] + C17.evaluate(r)[1]), export=True)
        return
    tus = matrix(tier)
    res = common.build_many([t[1] for t in tus])
    compiled, failed = [], []
    for label, spec, cfg in tus:
        path, log = res[spec["name"]]
        if path:
            compiled.append((label, spec, cfg, path))
        else:
            failed.append((label, spec, log))
            err = first_error(log)
            rep.violation("compile:" + label, "# translation unit: harness/%s with flags %s\n# first compiler error:\n# %s\n#\n%s" %
                          (spec["sources"][0], " ".join(spec["flags"]), err, log[-6000:]), True,
                          "configuration '%s' does not instantiate: %s" % (label, err))
    # each TU that compiles runs the exactly-once / construction correspondence
    for label, spec, cfg, path in compiled:
        if cfg == "selecter":
            rc, so, se = common.run_harness(path, "")
            if (rc != 0 or "bad=0" not in so) and spec["name"] == "h_hilbert_fmm":
                rep.violation("C19:hilbert-fmm", "# %s (harness/h_hilbert_fmm.cpp, no input)\n# stdout: %s\n# stderr: %s\n" % (label, so.strip()[:300], se.strip()[:2000].replace("\n", "\n# ")), True,
                              "configuration '%s': trees built with it are inconsistent or the counting kernel does not give N-1 (exit %d, %s)" % (label, rc, (so.strip() or se.strip().split("\n")[0])[:160]))
            elif rc != 0 or "bad=0" not in so:
                rep.violation("C19:selector:" + label, "# %s\n# stdout: %s\n# stderr: %s\n" % (label, so.strip()[:300], se.strip()[:2000].replace("\n", "\n# ")), True,
                              "configuration '%s': the selected executors do not deliver the exactly-once result (exit %d, %s)" % (label, rc, so.strip()[:120]))
    binaries = {cfg: path for _, _, cfg, path in compiled if cfg is not None and cfg != "selecter" and cfg[0] != "f32"}
    fbin32 = {(cfg[1], cfg[2]): path for _, _, cfg, path in compiled if cfg is not None and cfg != "selecter" and cfg[0] == "f32"}
    if fbin32:
        # the same exactly-once correspondence with float coordinates (heights whose cell centres are exact in float), all executors
        fc = [c for c in C01.gen_cases("quick", seed + 11, sorted(fbin32), n=(12 if tier == "quick" else 200) * len(fbin32), tag="C19f32") if c["H"] <= 8]
        for c in fc:
            ex = ["exec seq", "exec omp sched=2 seed=5 workers=4", "exec starpu sched=1 seed=7 workers=3", "exec specx sched=3 seed=9 workers=2"][int(c["name"].split("-")[-1]) % 4]
            c["lines"] = [ln.replace("exec seq", ex, 1) if ln.startswith("exec seq") else ln for ln in c["lines"]]
        for r in core.run_cases(fc, fbin32):
            if r.crash is not None:
                rep.violation("crash:" + corefam.crash_signature(r.crash), "# float coordinates\n# " + r.crash.replace("\n", "\n# ") + "\n" + "\n".join(r.case["lines"]) + "\n", True,
                              "library aborted on case %s (float coordinates)" % r.case["name"])
                continue
            if r.cpp is None or r.lean is None:
                continue
            corr, orc = C01.evaluate(r)
            for sig, msg in orc:
                rep.violation("C19:f32:" + sig, "# float coordinates: %s\n%s\n" % (msg, "\n".join(r.case["lines"])), True, "case %s (float coordinates): %s" % (r.case["name"], msg))
        rep.cov["float_coordinate_executor_cases"] = len(fc)
    n_eval = 0
    if binaries:
        cases = C01.gen_cases("quick", seed, sorted(binaries), n=(30 if tier == "quick" else 400) * len(binaries), tag="C19")
        results = core.run_cases(cases, binaries)
        for r in results:
            n_eval += 1
            if r.crash is not None:
                rep.violation("crash:" + corefam.crash_signature(r.crash), "# " + r.crash.replace("\n", "\n# ") + "\n" + "\n".join(r.case["lines"]) + "\n", True,
                              "library aborted on case %s" % r.case["name"])
                continue
            if r.cpp is None or r.lean is None:
                continue
            corr, orc = C01.evaluate(r)
            for sig, msg in orc:
                rep.violation(sig, "# %s\n%s\n" % (msg, "\n".join(r.case["lines"])), True, "case %s: %s" % (r.case["name"], msg))
            for sig, msg in corr[:1]:
                if not orc:
                    rep.violation("corr:" + sig, "# correspondence broke: %s\n%s\n" % (msg, "\n".join(r.case["lines"])), False, "case %s: %s" % (r.case["name"], msg))
    # every compiled scalar-type / value-count configuration of the tree runs move / rebuild / export histories
    import ftree
    from props import C13, C17
    fbin = {cfg: res[ftree.spec_of(cfg)["name"]][0] for cfg in ftree.CONFIGS if res[ftree.spec_of(cfg)["name"]][0]}
    n_hist = 0
    if fbin:
        fcases = []
        for k in range((8 if tier == "quick" else 150) * len(fbin)):
            r_ = gen.rng(seed, "C19f", k)
            fcases.append(ftree.make_case("c19f-%d" % k, sorted(fbin)[k % len(fbin)], r_, "quick", True, True))
        for r in ftree.run_cases(fcases, fbin):
            n_hist += 1
            text = "# cfg=%r\n" % (r.case["cfg"],) + "\n".join(r.case["lines"]) + "\n"
            if r.crash is not None:
                rep.violation("crash:" + corefam.crash_signature(r.crash), "# " + r.crash.replace("\n", "\n# ") + "\n" + text, True,
                              "library aborted on configuration %r, case %s" % (r.case["cfg"], r.case["name"]))
                continue
            if r.cpp is None or r.lean is None:
                continue
            from props import C06
            orc = C13.evaluate(r)[1] + C17.evaluate(r)[1] + C06.tsm_clauses(r)[1] + C13.tsm_history(r, "C13")[1]
            for sig, msg in orc[:3]:
                rep.violation("C19:config:" + sig, "# configuration %r misbehaves: %s\n%s" % (r.case["cfg"], msg, text), True,
                              "configuration %r, case %s: %s" % (r.case["cfg"], r.case["name"], msg))
    n_eval += n_hist
    rep.cov["history_cases_per_scalar_configuration"] = n_hist
    rep.cov["explanation"] = ("compile matrix: %d translation units attempted, %d compiled; every compiled configuration then ran %d exactly-once / "
                              "construction correspondence cases.  The guarantees themselves are theorems generic in D, ordering and grouping (C01, C06, C13)."
                              % (len(tus), len(compiled), n_eval))
    rep.cov["programs"] = len(tus)
    rep.cov["evaluations"] = max(1, n_eval + len(tus))
    rep.cov["distinct_nontrivial"] = max(2, len(tus))
    rep.cov["rule"] = "one translation unit per configuration of the documented matrix; each is distinct and non-trivial (a separate template instantiation)"
    rep.cov["samples"] = [{"tu": t[0], "flags": t[1]["flags"], "compiled": t[0] in [c[0] for c in compiled]} for t in tus[:6]]
    rep.assumptions += ["g++ 12 -std=c++17 is the compiler; Specx/StarPU runtimes are absent from the sandbox",
                        "Hilbert ordering: one TU builds trees and runs the counting kernel (self-consistency); its geometric defect is the known finding of C11"]
