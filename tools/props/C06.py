"""C06 — tree construction stores every particle once, in the right leaf, bit-exactly."""
import core
import ftree
import gen

LEVEL = "proof"


def tsm_clauses(res):
    """a target/source tree over the same particles (dump tsmleaves): each side stores every particle once, in its leaf, bit-identically"""
    c = res.case
    D, real, data, nextra, nrhs, periodic = c["cfg"]
    m = c["meta"]
    n = len(m["particles"])
    corr, orc = [], []
    built = ftree.segments(res.cpp).get("built", [])
    ls = ftree.segments(res.lean)
    for side, what in (("s", "source"), ("t", "target")):
        sl = [ln[1:] for ln in built if ln.startswith(side + "LF ") or ln.startswith(side + "P ")]
        ll = [ln[1:] for ln in ls.get("built", []) if ln.startswith(side + "LF ") or ln.startswith(side + "P ")]
        if not sl and not ll:
            continue
        if sl != ll:
            d = [(x, y) for x, y in zip(sl, ll) if x != y][:2]
            corr.append(("tsm-build", "construction dumps of the %s side of a target/source tree differ (library, model): %r" % (what, d or (len(sl), len(ll)))))
        tl, tp = ftree.parse_leaves(sl, D)
        seen_t = [p for _, _, _, ps in tl for p in ps]
        if sorted(seen_t) != list(range(n)):
            orc.append(("C06:tsm-once", "%s side of a target/source tree: stored particle indices %r are not exactly 0..%d once each" % (what, sorted(seen_t)[:10], n - 1)))
        for gi, idx, coord, ps in tl:
            for p in ps:
                if p not in tp:
                    continue
                leaf_of_p, dbits = tp[p]
                want = [ftree.to_data_bits(ftree.bits(v, real), real, data) for v in m["particles"][p]]
                if leaf_of_p != idx:
                    orc.append(("C06:tsm-leaf", "%s side: particle %d listed in leaf %d but stored under %d" % (what, p, idx, leaf_of_p)))
                elif dbits != want:
                    orc.append(("C06:tsm-data", "%s side of a target/source tree: particle %d: stored data %r are not bit-identical copies of the input %r" % (what, p, ["%x" % b for b in dbits], ["%x" % b for b in want])))
                elif not ftree.contains(c, coord, m["particles"][p][:D]):
                    orc.append(("C06:tsm-contains", "%s side: particle %d at %r is stored in leaf %d (box coordinate %r) whose box does not contain it" % (what, p, m["particles"][p][:D], idx, coord)))
    return corr, orc


def evaluate(res):
    c = res.case
    D, real, data, nextra, nrhs, periodic = c["cfg"]
    m = c["meta"]
    n = len(m["particles"])
    corr, orc = [], []
    cs, ls = ftree.segments(res.cpp), ftree.segments(res.lean)
    for key in ("", "built"):
        a = [ln for ln in cs.get(key, []) if ln[:2] in ("CF", "LF", "P ", "S ", "Z ")]
        b = [ln for ln in ls.get(key, []) if ln[:2] in ("CF", "LF", "P ", "S ", "Z ")]
        if a != b:
            d = [(x, y) for x, y in zip(a, b) if x != y][:2]
            corr.append(("build", "construction dumps differ (library, model): %r" % (d or (len(a), len(b)),)))
    built = cs.get("built", [])
    leaves, parts = ftree.parse_leaves(built, D)
    seen = [p for _, _, _, ps in leaves for p in ps]
    if sorted(seen) != list(range(n)):
        orc.append(("C06:once", "stored particle indices %r are not exactly 0..%d once each" % (sorted(seen)[:10], n - 1)))
    for gi, idx, coord, ps in leaves:
        if gen.encode(D, c["H"] - 1, coord) != idx:
            orc.append(("C06:leafcoord", "leaf %d carries box coordinate %r" % (idx, coord)))
        for p in ps:
            if p not in parts:
                continue
            leaf_of_p, dbits = parts[p]
            if leaf_of_p != idx:
                orc.append(("C06:leaf", "particle %d listed in leaf %d but stored under %d" % (p, idx, leaf_of_p)))
            want = [ftree.to_data_bits(ftree.bits(v, real), real, data) for v in m["particles"][p]]
            if dbits != want:
                orc.append(("C06:data", "particle %d: stored data %r are not bit-identical copies of the input %r" % (p, ["%x" % b for b in dbits], ["%x" % b for b in want])))
            elif not ftree.contains(c, coord, m["particles"][p][:D]):
                orc.append(("C06:contains", "particle %d at %r is stored in leaf %d (box coordinate %r) whose box does not contain it" % (p, m["particles"][p][:D], idx, coord)))
    tc, to = tsm_clauses(res)
    corr += tc
    orc += to
    z = [ln for ln in built if ln.startswith("Z ")]
    if z and z[0] != "Z 0 0":
        orc.append(("C06:zero", "a fresh tree has non-zero results or expansions: %s" % z[0]))
    # execution never alters symbolic data
    d0 = [ln for ln in built if ln.startswith("DG ")]
    d1 = [ln for ln in cs.get("exec1", []) if ln.startswith("DG ")]
    if d0 and d1 and d0[0] != d1[0]:
        orc.append(("C06:frame", "execute() changed particle positions / indices / cell headers (digest %s -> %s)" % (d0[0], d1[0])))
    orc += [("C06:X", x) for x in core.section(res.cpp, "X ")]
    return corr, orc


def run(rep, tier, seed, replay, proof_ok, proof_msg):
    ftree.standard(rep, tier, seed, replay, proof_ok, proof_msg, "C06", 360, 40000, False, evaluate, export=False)
    rep.assumptions += ["containment is decided in exact rational arithmetic on the library's own corner / leaf width, with a tolerance of 4 ulp of the coordinate type "
                        "(IEEE rounding of (x - corner) / leafWidth can move a point that lies within one rounding of a face to the neighbouring cell; the bit-exact Lean Float/Float32 run reproduces the library's choice)",
                        "target/source trees: each side is dumped for the same particle set (dump tsmleaves); separate source / target sets are C09's"]
