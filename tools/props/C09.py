"""C09 — target/source mode: each target gets each source exactly once, nothing else."""
import collections

import core
import gen
import tsm
from props import corefam, C01, C02, C07, C16
from props.C08 import segments

LEVEL = "proof"


def gen_cases(tier, seed, configs):
    n = 260 if tier == "quick" else 4000
    cases = []
    for k in range(n):
        r = gen.rng(seed, "C09", k)
        D, periodic = r.choice(configs)
        H = gen.pick_height(r, D, big=(tier != "quick"))
        if periodic and H < 2:
            H = 2
        deep = r.random() < 0.06
        if deep:
            H = gen.pick_height_deep(r, D)       # leaf indices beyond 31 bits, few particles
        kind, src, tgt = tsm.gen_sets(r, D, H, max_n=6 if deep else 48)
        if deep:
            src, tgt = src[:8], tgt[:8]
        nleaves = max(len(set(src)), len(set(tgt)))
        bs = gen.pick_bs(r, nleaves)
        mode = r.randrange(2)
        upper = r.choice([2, 2, 2, 1, 0, 3]) if not periodic else r.choice([1, 1, 0, 2])
        body = ["dump tsmstructure", "mark seq", "exec tsm flags=63 upper=%d" % upper, "dump tsmvalues", "spec tsmelems flags=63 upper=%d" % upper]
        scheds = []
        for si in range(2):
            sc = (r.choice([0, 1, 2, 2, 3]), r.randrange(1, 10 ** 6), r.choice([1, 2, 4, 16]))
            scheds.append(sc)
            body += ["mark s%d" % si, "buildtsm bs=%d mode=%d" % (bs, mode), "exec omptsm flags=63 upper=%d sched=%d seed=%d workers=%d" % ((upper,) + sc) + (" cworkers=1" if (sc[2] > 2 and si == 1) else ""), "dump tsmvalues"]
        # no block size given: the library's estimate from both particle sets (few occupied leaves give the smallest value)
        body += ["mark auto", "buildtsm auto=1 threads=HW mode=%d" % mode, "exec tsm flags=63 upper=%d" % upper, "dump tsmvalues"]
        # the StarPU target/source executor under the mock StarPU runtime
        sc = (r.choice([0, 1, 2, 2, 3]), r.randrange(1, 10 ** 6), r.choice([1, 2, 4, 16]))
        scheds.append(sc)
        body += ["mark s%d" % (len(scheds) - 1), "buildtsm bs=%d mode=%d" % (bs, mode), "exec starputsm flags=63 upper=%d sched=%d seed=%d workers=%d" % ((upper,) + sc), "dump tsmvalues"]
        sc = (r.choice([0, 1, 2, 2, 3]), r.randrange(1, 10 ** 6), r.choice([1, 2, 4, 16]))
        scheds.append(sc)
        body += ["mark s%d" % (len(scheds) - 1), "buildtsm bs=%d mode=%d" % (bs, mode), "exec specxtsm flags=63 upper=%d sched=%d seed=%d workers=%d" % ((upper,) + sc), "dump tsmvalues"]
        L = H - 1
        for which, pts in (("S", src), ("T", tgt)):
            leaves = sorted(set(gen.encode(D, L, c) for c in pts))
            for l in range(H):
                present = sorted(set(i >> (D * (L - l)) for i in leaves))
                body.append("find tsmcell %s %d %s" % (which, l, " ".join(str(i) for i in C16.probe_indices(r, D, l, present, 120))))
            body.append("find tsmleaf %s %s" % (which, " ".join(str(i) for i in C16.probe_indices(r, D, L, leaves, 120))))
        cases.append(tsm.make_case("c09-%d" % k, D, H, periodic, src, tgt, bs, mode, body, {"kind": kind, "upper": upper, "scheds": scheds}))
    return cases


def closed_forms(case, se, upper):
    D, H = case["D"], case["H"]
    L = H - 1
    shS, shT = tsm.shape(D, H, case["src"]), tsm.shape(D, H, case["tgt"])
    wS = {i: sum(C01.weight(p) for p in ps) for i, ps in shS.items()}
    mult, cellsS, cellsT = {}, {}, {}
    for l in range(H):
        cellsS[l] = sorted(set(i >> (D * (L - l)) for i in shS))
        cellsT[l] = sorted(set(i >> (D * (L - l)) for i in shT))
        for c in cellsS[l]:
            mult[(l, c)] = sum(w for i, w in wS.items() if (i >> (D * (L - l))) == c) if (H > upper and l >= upper) else 0
    into, near = {}, collections.defaultdict(int)
    for e in se:
        t = e.split()
        if t[0] == "M2L":
            l, tg, sr = int(t[1]), int(t[2]), int(t[3])
            into[(l, tg)] = into.get((l, tg), 0) + mult[(l, sr)]
        elif t[0] == "P2PT":
            near[int(t[2])] += wS[int(t[1])]
    loc = {}
    out = []
    for l in range(H):
        for c in cellsT[l]:
            v = into.get((l, c), 0) if l >= upper else 0
            if l - 1 >= upper and l >= 1:
                v += loc[(l - 1, c >> D)]
            loc[(l, c)] = v
    for l in range(H):
        for c in cellsS[l]:
            out.append("V M %d %d %x" % (l, c, mult[(l, c)]))
        for c in cellsT[l]:
            out.append("V L %d %d %x" % (l, c, loc[(l, c)]))
    for i, ps in shT.items():
        for p in ps:
            out.append("V R %d %x" % (p, (loc[(L, i)] if H > upper else 0) + near[i]))
    return out


def structure_checks(case, lines):
    bad = []
    for pre, pts in (("s", case["src"]), ("t", case["tgt"])):
        sub = dict(case)
        sub["parts"] = pts
        sl = [ln[1:] for ln in lines if ln.startswith(pre + "S ")]
        bad += [("C09:" + sig.split(":")[1] + "-" + pre, ("source" if pre == "s" else "target") + " tree: " + msg) for sig, msg in C07.invariants(sub, sl)]
        # lookups
        groups, pgroups = C07.parse_structure(sl)
        tag = pre.upper()
        for ln in lines:
            t = ln.split()
            if ln.startswith("F C%s " % tag):
                lvl, idx, rest = int(t[2]), int(t[3]), t[4:]
                gs = [g["cells"] for g in groups.get(lvl, [])]
            elif ln.startswith("F P%s " % tag):
                lvl, idx, rest = None, int(t[2]), t[3:]
                gs = [[l[0] for l in p["leaves"]] for p in pgroups]
            else:
                continue
            exists = any(idx in g for g in gs)
            if rest == ["none"]:
                if exists:
                    bad.append(("C09:lookup-missed", "%s tree: lookup of existing index %d (level %s) returned nothing" % (tag, idx, lvl)))
            else:
                g, k = int(rest[0]), int(rest[1])
                if not exists or not (0 <= g < len(gs) and 0 <= k < len(gs[g]) and gs[g][k] == idx):
                    bad.append(("C09:lookup-wrong", "%s tree: lookup of index %d (level %s) returned a wrong handle" % (tag, idx, lvl)))
    return bad


def evaluate(res):
    c = res.case
    upper = c["meta"].get("upper", 2)
    corr, orc = [], []
    cs, ls = segments(res.cpp), segments(res.lean)
    seq = cs.get("seq", [])
    se = core.spec_elems(res.lean)
    ce, le = core.elems_of_calls(seq), core.elems_of_calls(ls.get("seq", []))
    if ce != le:
        a, b, na, nb = core.multiset_diff(ce, le)
        corr.append(("elems", "elementary interactions differ: only in library %r (%d), only in model %r (%d)" % (a, na, b, nb)))
    if ce != se:
        a, b, na, nb = core.multiset_diff(ce, se)
        orc.append(("C09:elems-vs-spec", "library performs %r (%d extra) / misses %r (%d) w.r.t. the target/source specification" % (a, na, b, nb)))
    want = sorted(closed_forms(c, se, upper)) if (c["src"] and c["tgt"]) else None
    cv = sorted(core.section(seq, "V "))
    if want is not None and cv != want:
        d = [(x, y) for x, y in zip(cv, want) if x != y][:2]
        orc.append(("C09:values-vs-spec", "values differ from the closed forms (library, spec): %r" % (d or (len(cv), len(want)),)))
    if cv != sorted(core.section(ls.get("seq", []), "V ")):
        corr.append(("values", "values differ between library and model"))
    if not c["periodic"] and upper <= 2 and c["src"]:
        total = [0] * 64
        for p in range(len(c["src"])):
            total[p % 64] += 1
        for ln in core.section(seq, "V R "):
            t = ln.split()
            v = int(t[3], 16)
            got = [(v >> (16 * s)) & 0xffff for s in range(64)]
            if got != total:
                orc.append(("C09:exactly-once", "target particle %s accumulated %r..., every source exactly once would be %r..." % (t[2], got[:6], total[:6])))
                break
    for si, sc in enumerate(c["meta"].get("scheds", [])):
        seg = cs.get("s%d" % si)
        if seg is None:
            continue
        if sorted(core.section(seg, "V ")) != cv:
            orc.append(("C09:omp-values", "task-based target/source executor (%s, schedule %r) leaves values different from the sequential one" % ("OpenMP" if si < 2 else ("StarPU/mock" if si == 2 else "Specx/mock"), sc)))
        elif core.elems_of_calls(seg) != ce:
            orc.append(("C09:omp-elems", "task-based target/source executor (%s, schedule %r) performs different elementary interactions" % ("OpenMP" if si < 2 else ("StarPU/mock" if si == 2 else "Specx/mock"), sc)))
        orc += [("C09:X", x) for x in core.section(seg, "X ")]
    aseg = cs.get("auto")
    if aseg is not None:
        bl = [ln for ln in aseg if ln.startswith("B ")]
        if bl and min(int(x) for x in bl[0].split()[1:]) < 1:
            orc.append(("C09:auto-bs", "default block size of the target/source tree is %s (< 1)" % bl[0][2:]))
        if sorted(core.section(aseg, "V ")) != cv:
            orc.append(("C09:auto-values", "with the default block size (%s) the target/source run leaves values different from the run with block size %d" % (bl[0][2:] if bl else "?", c["meta"].get("bs", 0))))
        elif core.elems_of_calls(aseg) != ce:
            orc.append(("C09:auto-elems", "with the default block size the target/source run performs different elementary interactions"))
        if bl != [ln for ln in ls.get("auto", []) if ln.startswith("B ")]:
            corr.append(("auto-bs", "the library chose block sizes %r, the model of TbfBlockSizeFinder gives %r" % (bl, [ln for ln in ls.get("auto", []) if ln.startswith("B ")])))
        orc += [("C09:X", x) for x in core.section(aseg, "X ")]
    orc += [("C09:X", x) for x in core.section(seq, "X ") + core.section(cs.get("", []) if "" in cs else [], "X ")]
    head = [ln for ln in res.cpp if ln[:2] in ("sS", "tS") or ln.startswith("F ")]
    orc += structure_checks(c, head)
    lhead = [ln for ln in res.lean if ln[:2] in ("sS", "tS") or ln.startswith("F ")]
    if head != lhead:
        corr.append(("structure", "structure / lookup dumps of the two trees differ: %r" % ([(a, b) for a, b in zip(head, lhead) if a != b][:2],)))
    return corr, orc[:6]


def run(rep, tier, seed, replay, proof_ok, proof_msg):
    configs = corefam.ALL_CONFIGS
    binaries, bad = tsm.build(configs, starpu=True)
    if bad:
        rep.notes.append("target/source configurations whose harness does not compile (reported by C19): " + ", ".join("D=%d periodic=%d" % c for c in sorted(bad)))
    if not binaries:
        first = sorted(bad.items())[0]
        rep.violation("harness-does-not-compile", first[1][-4000:], False, "no configuration of harness/h_tsm.cpp compiles against /repo/src")
        return
    usable = [c for c in configs if c in binaries]
    cases = [tsm.parse_replay(replay)] if replay else gen_cases(tier, seed, usable)
    results = core.run_cases(cases, binaries)
    n_eval, distinct, hist, samples, corr_broken, oracle_found = 0, set(), collections.Counter(), [], [], False
    for res in results:
        c = res.case
        n_eval += 1
        text = "\n".join(c["lines"]) + "\n"
        if res.crash is not None:
            sig = "crash:" + corefam.crash_signature(res.crash)
            rep.violation(sig, "# harness aborted inside this case\n# " + res.crash.replace("\n", "\n# ") + "\n" + text, True, "the real library aborted on case %s: %s" % (c["name"], corefam.crash_signature(res.crash)))
            oracle_found = True
            continue
        if res.cpp is None:
            continue
        if res.lean is None or not res.lean or res.lean[-1] != "end":
            rep.violation("lean-driver-error", "# Lean driver produced no complete output\n" + text, False, "Lean driver failed on case %s" % c["name"])
            continue
        corr, orc = evaluate(res)
        for sig, msg in orc:
            oracle_found = True
            rep.violation(sig, "# property oracle failed on the implementation's output: %s\n%s" % (msg.replace("\n", "\n# "), text), True, "case %s: %s" % (c["name"], msg))
        if corr and not orc:
            corr_broken.append((res, corr))
        if len(set(c["src"])) > 1 and len(set(c["tgt"])) > 1:
            distinct.add(repr((c["D"], c["H"], c["periodic"], sorted(c["src"]), sorted(c["tgt"]), c["bs"], c["mode"])))
        hist["D=%d" % c["D"]] += 1
        hist["H=%d" % c["H"]] += 1
        hist[c["meta"].get("kind", "replay")] += 1
        hist["periodic" if c["periodic"] else "nonperiodic"] += 1
        if len(samples) < 3 and len(c["src"]) > 2:
            samples.append({"D": c["D"], "H": c["H"], "periodic": c["periodic"], "bs": c["bs"], "mode": c["mode"], "kind": c["meta"].get("kind"), "sources": c["src"][:6], "targets": c["tgt"][:6]})
    for res, corr in corr_broken[:3]:
        sig, msg = corr[0]
        rep.violation("corr:" + sig, "# correspondence (target/source harness vs Lean model) no longer holds: %s\n# the property's oracle accepts the implementation's output on this input\n%s\n" % (msg, "\n".join(res.case["lines"])),
                      False, "case %s: model and implementation disagree (%s) but no property failure was found" % (res.case["name"], msg))
    if not proof_ok and not oracle_found:
        rep.violation("proof-broken", "# " + proof_msg.replace("\n", "\n# ") + "\n", False, "proof stage failed: " + proof_msg.split("\n")[0])
    rep.cov["evaluations"] = n_eval
    rep.cov["distinct_nontrivial"] = len(distinct)
    rep.cov["rule"] = "seeded source/target sets (independent, disjoint regions, identical, one side in a single leaf, single particle on either side, overlapping, adjacent); distinct by full input; non-trivial = both sides occupy more than one leaf"
    rep.cov["shape_histogram"] = dict(hist)
    rep.cov["samples"] = samples or [{"note": "none"}]
    rep.cov["configs_built"] = ["D=%d periodic=%d" % c for c in usable]
    rep.assumptions += ["positions are exact cell centres", "OpenMP target/source executor under the mock runtime (all tasks deferred), random / fifo / lifo / priority-inverted schedules"]
