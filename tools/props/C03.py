"""C03 — task-parallel executors equal the sequential one under every legal schedule."""
import core
import gen
import translate_omp
from props import corefam, C02

LEVEL = "proof"

SCHEDS = [("fifo", 0), ("lifo", 1), ("random", 2), ("priority-inverted", 3), ("priority", 4)]


def pre_build(rep):
    tasks, fps = translate_omp.main()
    rep.cov["translated_tasks"] = len(tasks)
    rep.cov["translated_wrappers"] = len(fps)


def gen_cases(tier, seed, configs):
    n = 160 if tier == "quick" else 2500
    cases = []
    for k in range(n):
        r = gen.rng(seed, "C03", k)
        D, H, periodic, kind, parts, bs, mode = corefam.random_tree_params(r, configs, max_n=64, big=(tier != "quick"))
        upper = r.choice([2, 2, 1, 0]) if not periodic else r.choice([1, 1, 0, 2])
        flags = 63
        scheds = []
        pool = list(SCHEDS)
        r.shuffle(pool)
        for name, code in pool[:3] + [("random", 2), ("random", 2)]:
            scheds.append((name, code, r.randrange(1, 10 ** 6), r.choice([1, 2, 3, 4, 8, 16])))
        body = ["mark seq", "build bs=%d mode=%d" % (bs, mode), "exec seq flags=%d upper=%d" % (flags, upper), "dump values"]
        # some executors are constructed while fewer threads are allowed than when they execute (object reused after omp_set_num_threads)
        cw = [(" cworkers=%d" % r.choice([1, 1, 2])) if (nw > 2 and r.random() < 0.4) else "" for (_, _, _, nw) in scheds]
        # the executor's constructors: (configuration, kernel, level) at any level; (configuration, kernel) / (configuration) when the level is the default
        cw = [x + (" ctor=%d" % (r.choice([1, 2, 3]) if upper == 2 else 3) if r.random() < 0.35 else "") for x in cw]
        for si, (name, code, sd, nw) in enumerate(scheds):
            body += ["mark s%d" % si, "build bs=%d mode=%d" % (bs, mode),
                     "exec omp flags=%d upper=%d sched=%d seed=%d workers=%d%s" % (flags, upper, code, sd, nw, cw[si]), "dump values"]
        # the StarPU executor under the API-compatible mock runtime (harness/mock_starpu*): same legality rule on data handles
        sp = []
        for name, code in [pool[3], ("random", 2)]:
            sp.append((name, code, r.randrange(1, 10 ** 6), r.choice([1, 2, 4, 8, 16])))
        for si, (name, code, sd, nw) in enumerate(sp):
            body += ["mark p%d" % si, "build bs=%d mode=%d" % (bs, mode),
                     "exec %s flags=%d upper=%d sched=%d seed=%d workers=%d" % ("starpu" if si == 0 else "specx", flags, upper, code, sd, nw), "dump values"]
        cases.append(corefam.make_case("c03-%d" % k, D, H, periodic, parts, bs, mode, body, {"kind": kind, "upper": upper, "scheds": scheds, "starpu": sp}))
    return cases


def evaluate(res):
    from props.C08 import segments
    c = res.case
    corr, orc = [], []
    cs, ls = segments(res.cpp), segments(res.lean)
    ref = cs.get("seq", [])
    ref_e, ref_v = core.elems_of_calls(ref), sorted(core.section(ref, "V "))
    if core.elems_of_calls(ls.get("seq", [])) != ref_e or sorted(core.section(ls.get("seq", []), "V ")) != ref_v:
        corr.append(("seq", "sequential run: library and model disagree"))
    for si, (name, code, sd, nw) in enumerate(c["meta"]["scheds"]):
        seg = cs.get("s%d" % si)
        if seg is None:
            continue
        label = "schedule %s seed=%d workers=%d" % (name, sd, nw)
        e, v = core.elems_of_calls(seg), sorted(core.section(seg, "V "))
        if v != ref_v:
            d = [(x, y) for x, y in zip(v, ref_v) if x != y][:2]
            orc.append(("C03:values", "%s: OpenMP executor leaves values different from the sequential executor: %r" % (label, d)))
        elif e != ref_e:
            a, b, na, nb = core.multiset_diff(e, ref_e)
            orc.append(("C03:elems", "%s: OpenMP executor performs %r (%d) / misses %r (%d) w.r.t. the sequential executor" % (label, a, na, b, nb)))
        orc += [("C03:X", label + ": " + x) for x in core.section(seg, "X ")]
        orc += [(s_, label + ": " + m) for s_, m in C02.call_predicates(c, seg)]
        lseg = ls.get("s%d" % si, [])
        if core.elems_of_calls(lseg) != e and e == ref_e:
            corr.append(("omp-elems", label + ": library and model disagree on the OpenMP executor's calls"))
    for si, (name, code, sd, nw) in enumerate(c["meta"].get("starpu", [])):
        seg = cs.get("p%d" % si)
        if seg is None:
            continue
        rt = "StarPU" if si == 0 else "Specx"
        label = "%s executor (mock runtime), schedule %s seed=%d workers=%d" % (rt, name, sd, nw)
        e, v = core.elems_of_calls(seg), sorted(core.section(seg, "V "))
        if v != ref_v:
            d = [(x, y) for x, y in zip(v, ref_v) if x != y][:2]
            orc.append(("C03:%s-values" % rt.lower(), "%s leaves values different from the sequential executor: %r" % (label, d)))
        elif e != ref_e:
            a, b, na, nb = core.multiset_diff(e, ref_e)
            orc.append(("C03:%s-elems" % rt.lower(), "%s performs %r (%d) / misses %r (%d) w.r.t. the sequential executor" % (label, a, na, b, nb)))
        orc += [("C03:X", label + ": " + x) for x in core.section(seg, "X ")]
        orc += [(s_, label + ": " + m) for s_, m in C02.call_predicates(c, seg)]
    return corr, orc


def tsm_family(rep, tier, seed, replay=None):
    """the target/source task-based executors (OpenMP under the mock libgomp, StarPU and Specx under their mocks) against the
    sequential target/source executor: values and elementary interactions under every generated schedule"""
    import tsm
    from props import C09
    binaries, bad = tsm.build(corefam.ALL_CONFIGS, starpu=True)
    if not binaries:
        if bad:
            first = sorted(bad.items())[0]
            rep.violation("harness-does-not-compile:tsm", first[1][-4000:], False, "no configuration of harness/h_tsm.cpp compiles against /repo/src (the target/source interface changed)")
        return
    usable = [c for c in corefam.ALL_CONFIGS if c in binaries]
    cases = [tsm.parse_replay(replay)] if replay else C09.gen_cases("quick", seed + 31, usable)[:(40 if tier == "quick" else 500)]
    n = 0
    for res in core.run_cases(cases, binaries):
        n += 1
        c = res.case
        text = "\n".join(c["lines"]) + "\n"
        if res.crash is not None:
            rep.violation("crash:" + corefam.crash_signature(res.crash), "# harness aborted inside this target/source case\n# " + res.crash.replace("\n", "\n# ") + "\n" + text, True,
                          "the real library aborted on target/source case %s: %s" % (c["name"], corefam.crash_signature(res.crash)))
            continue
        if res.cpp is None or res.lean is None:
            continue
        for sig, msg in C09.evaluate(res)[1]:
            if sig in ("C09:omp-values", "C09:omp-elems", "C09:X"):
                rep.violation("C03:tsm-" + sig.split(":")[1], "# %s\n%s" % (msg, text), True, "target/source case %s: %s" % (c["name"], msg))
    rep.cov["target_source_schedule_cases"] = n


def run(rep, tier, seed, replay, proof_ok, proof_msg):
    if replay and any(ln.startswith("partsS ") for ln in open(replay)):
        tsm_family(rep, tier, seed, replay)
        return
    if not replay:
        tsm_family(rep, tier, seed)
    corefam.standard_run(rep, tier, seed, replay, proof_ok, proof_msg, gen_cases, evaluate, omp=True, starpu=True,
                         corr_name="OpenMP executor (mock runtime, all tasks deferred) vs sequential executor vs Lean model")
    rep.assumptions += ["a conforming runtime = one that starts a task only after every earlier task with a conflicting declared dependence finished (harness/mock_gomp.cpp)",
                        "gcc 12 (_OPENMP=201511): `commute` is `inout`, so commuting writers are ordered by submission",
                        "libgomp itself is not exercised; the StarPU and Specx executors run under API-compatible mocks of the subsets they use (harness/mock_starpu*, harness/mock_specx/: deferral to the final wait, sequential consistency per handle / address, commuting accesses unordered); the CUDA variants are not run"]
