"""C11 — space-filling-curve index algebra is a consistent model of the grid hierarchy (Morton)."""
import itertools

import core
import gen
from props import corefam

LEVEL = "proof"


def neighbours_expected(D, periodic, level, idx, upper_excl):
    """adjacent cells (wrapped when periodic, clipped otherwise) as a sorted list of (src, code)"""
    lim = 1 << level
    c = gen.decode(D, level, idx)
    out = []
    for off in itertools.product((-1, 0, 1), repeat=D):
        if all(o == 0 for o in off):
            continue
        o = [c[d] + off[d] for d in range(D)]
        if periodic:
            o = [x % lim for x in o]
        elif any(x < 0 or x >= lim for x in o):
            continue
        code = 0
        for x in off:
            code = code * 3 + (x + 1)
        if upper_excl and not (3 ** D) // 2 < code:
            continue
        out.append((gen.encode(D, level, o), code))
    return sorted(out)


def interactions_expected(D, periodic, level, idx):
    """children of the parent's neighbours that are not adjacent to the cell, as sorted (src, code)"""
    if (not periodic and level < 2) or (periodic and level < 1):
        return []
    lim, limp = 1 << level, 1 << (level - 1)
    c = gen.decode(D, level, idx)
    p = [x // 2 for x in c]
    out = []
    for poff in itertools.product((-1, 0, 1), repeat=D):
        q = [p[d] + poff[d] for d in range(D)]
        if not periodic and any(x < 0 or x >= limp for x in q):
            continue
        for bits in itertools.product((0, 1), repeat=D):
            ch = [2 * q[d] + bits[d] for d in range(D)]        # unwrapped child position
            rel = [ch[d] - c[d] for d in range(D)]
            if all(abs(r) <= 1 for r in rel):
                continue
            w = [x % lim for x in ch] if periodic else ch
            code = 0
            for r in rel:
                code = code * 7 + (r + 3)
            out.append((gen.encode(D, level, w), code))
    return sorted(out)


def gen_cases(tier, seed, configs):
    cases = []
    n = 0
    for (D, periodic) in configs:
        # exhaustive small levels
        maxcells = 300 if tier == "quick" else 5000
        for level in range(0, 9):
            ncell = 1 << (D * level)
            if ncell > maxcells:
                break
            H = max(level + 1, 2)
            cmds = ["idx consts", "idx upper %d" % level]
            for i in range(ncell):
                co = gen.decode(D, level, i)
                cmds.append("idx dec %d" % i)
                cmds.append("idx enc %s" % " ".join(str(x) for x in co))
                cmds.append("idx parent %d" % i)
                cmds.append("idx childcode %d" % i)
                cmds.append("idx ilist %d %d" % (level, i))
                cmds.append("idx nlist %d %d 0" % (level, i))
                cmds.append("idx nlist %d %d 1" % (level, i))
            for off in itertools.product(range(-3, 4), repeat=D):
                if len(cmds) > 6000:
                    break
                cmds.append("idx code7 %s" % " ".join(str(x) for x in off))
            for code in range(min(7 ** D, 400)):
                cmds.append("idx dec7 %d" % code)
            for off in itertools.product(range(-1, 2), repeat=D):
                cmds.append("idx code3 %s" % " ".join(str(x) for x in off))
            for code in range(3 ** D):
                cmds.append("idx dec3 %d" % code)
            name = "c11-ex-%d-%d-%d" % (D, periodic, level)
            lines = ["case " + name, "tree D=%d H=%d periodic=%d" % (D, H, periodic)] + cmds + ["end"]
            cases.append({"name": name, "D": D, "H": H, "periodic": periodic, "parts": [], "bs": 1, "mode": 0, "lines": lines,
                          "meta": {"cmds": cmds, "level": level, "exhaustive": True}})
        # random groups for the block builders, random deep indices for the bit algebra
        nr = 12 if tier == "quick" else 150
        for k in range(nr):
            r = gen.rng(seed, "C11", D, periodic, k)
            level = r.randint(1 if periodic else 2, {1: 7, 2: 5, 3: 4, 4: 3}[D])
            H = level + 1
            ncell = 1 << (D * level)
            cells = sorted(r.sample(range(ncell), min(ncell, r.choice([1, 2, 3, 5, 9, 20]))))
            cmds = []
            for ts in (0, 1):
                cmds.append("idx iblock %d %d %s" % (level, ts, " ".join(map(str, cells))))
                for ue in (0, 1):
                    cmds.append("idx nblock %d %d %d %s" % (level, ue, ts, " ".join(map(str, cells))))
            cmds.append("idx sblock %s" % " ".join(map(str, cells)))
            for _ in range(40):
                b = r.randint(1, 62 // D)
                co = [r.randrange(1 << b) for _ in range(D)]
                if r.random() < 0.3:
                    co = [r.choice([0, (1 << b) - 1, 1 << (b - 1)]) for _ in range(D)]
                i = gen.encode(D, b, co)
                cmds += ["idx enc %s" % " ".join(map(str, co)), "idx dec %d" % i, "idx parent %d" % i, "idx childcode %d" % i]
            name = "c11-rnd-%d-%d-%d" % (D, periodic, k)
            lines = ["case " + name, "tree D=%d H=%d periodic=%d" % (D, H, periodic)] + cmds + ["end"]
            cases.append({"name": name, "D": D, "H": H, "periodic": periodic, "parts": [], "bs": 1, "mode": 0, "lines": lines,
                          "meta": {"cmds": cmds, "level": level}})
    return cases


def parse_inter(tok):
    return [tuple(int(x) for x in t.split(":")) for t in tok]


def oracle(case, lines):
    D, periodic = case["D"], case["periodic"]
    bad = []
    out = [ln for ln in lines if ln.startswith("I ")]
    k = 0

    def err(sig, msg):
        if len(bad) < 5:
            bad.append(("C11:" + sig, msg))
    for cmd in case["meta"]["cmds"]:
        t = cmd.split()
        sub = t[1]
        if k >= len(out):
            err("output", "missing output for %r" % cmd)
            break
        o = out[k].split()
        k += 1
        if sub == "dec":
            i = int(t[2])
            if [int(x) for x in o[2:]] != gen.decode(D, 64 // D, i):
                err("decode", "getBoxPosFromIndex(%d) = %s" % (i, o[2:]))
        elif sub == "enc":
            co = [int(x) for x in t[2:]]
            b = max(1, max(co).bit_length())
            if int(o[2]) != gen.encode(D, b, co):
                err("encode", "getIndexFromBoxPos(%r) = %s" % (co, o[2]))
        elif sub == "parent":
            i = int(t[2])
            if gen.decode(D, 64 // D, int(o[2])) != [x // 2 for x in gen.decode(D, 64 // D, i)]:
                err("parent", "parent of %d is %s: not the containing cell" % (i, o[2]))
        elif sub == "childcode":
            i = int(t[2])
            co = gen.decode(D, 64 // D, i)
            bits = 0
            for x in co:
                bits = bits * 2 + (x & 1)
            if int(o[2]) != bits:
                err("childcode", "child position of %d is %s, octant is %d" % (i, o[2], bits))
        elif sub == "upper":
            if int(o[2]) != 1 << (D * int(t[2])):
                err("upper", "upper bound of level %s is %s" % (t[2], o[2]))
        elif sub == "consts":
            if [int(x) for x in o[2:]] != [2 ** D, 6 ** D - 3 ** D, 3 ** D - 1]:
                err("consts", "constants %s" % o[2:])
        elif sub == "ilist":
            level, i = int(t[2]), int(t[3])
            got = sorted(int(x) for x in o[3:])
            exp = sorted(s for s, _ in interactions_expected(D, periodic, level, i))
            if got != exp or int(o[2]) != len(got):
                err("ilist", "interaction list of cell %d at level %d is not {children of the parent's neighbours not adjacent to it}" % (i, level))
        elif sub == "nlist":
            level, i, ue = int(t[2]), int(t[3]), int(t[4])
            got = sorted(int(x) for x in o[3:])
            exp = sorted(s for s, _ in neighbours_expected(D, periodic, level, i, ue))
            if got != exp:
                err("nlist", "neighbour list of cell %d at level %d (upper-half filter %d) is not the set of adjacent cells" % (i, level, ue))
        elif sub == "code7":
            off = [int(x) for x in t[2:]]
            v = 0
            for x in off:
                v = v * 7 + x + 3
            if int(o[2]) != v:
                err("code7", "position code of offset %r is %s" % (off, o[2]))
        elif sub == "dec7":
            c = int(t[2])
            v = [int(x) for x in o[2:]]
            w = 0
            for x in v:
                w = w * 7 + x + 3
            if w != c or any(abs(x) > 3 for x in v):
                err("dec7", "position code %d decodes to %r which does not encode back" % (c, v))
        elif sub == "code3":
            off = [int(x) for x in t[2:]]
            v = 0
            for x in off:
                v = v * 3 + x + 1
            if int(o[2]) != v:
                err("code3", "neighbour code of offset %r is %s" % (off, o[2]))
        elif sub == "dec3":
            c = int(t[2])
            v = [int(x) for x in o[2:]]
            w = 0
            for x in v:
                w = w * 3 + x + 1
            if w != c or any(abs(x) > 1 for x in v):
                err("dec3", "neighbour code %d decodes to %r which does not encode back" % (c, v))
        elif sub in ("iblock", "nblock"):
            o2 = out[k].split() if k < len(out) else []
            k += 1
            if sub == "iblock":
                level, ts, cells = int(t[2]), int(t[3]), [int(x) for x in t[4:]]
                per_cell = lambda c: interactions_expected(D, periodic, level, c)
            else:
                level, ue, ts, cells = int(t[2]), int(t[3]), int(t[4]), [int(x) for x in t[5:]]
                per_cell = lambda c: neighbours_expected(D, periodic, level, c, ue)
            inn, ext = parse_inter(o[3:]), parse_inter(o2[3:])
            exp_in, exp_ex = [], []
            for pos, c in enumerate(cells):
                for s, code in per_cell(c):
                    if cells[0] <= s <= cells[-1]:
                        if not ts or s in cells:
                            exp_in.append((c, s, pos, code))
                    else:
                        exp_ex.append((c, s, pos, code))
            if sorted(inn) != sorted(exp_in) or sorted(ext) != sorted(exp_ex):
                err(sub, "%s of group %r at level %d (self test %d): internal/external lists are not the per-cell lists split by the group's range" % (sub, cells[:6], level, ts))
        elif sub == "sblock":
            cells = [int(x) for x in t[2:]]
            if sorted(parse_inter(o[3:])) != sorted((c, c, p, (3 ** D) // 2) for p, c in enumerate(cells)):
                err("sblock", "self list of group %r" % cells[:6])
    return bad


def evaluate(res):
    corr = []
    ci, li = core.section(res.cpp, "I "), core.section(res.lean, "I ")
    if ci != li:
        d = [(a, b) for a, b in zip(ci, li) if a != b][:2]
        corr.append(("idx", "index API outputs differ (library, model): %r" % (d or (len(ci), len(li)),)))
    return corr, oracle(res.case, res.cpp)


def hilbert_stage(rep):
    """Hilbert ordering (D=3): parents must contain their children; bijection index <-> position"""
    import common
    res = common.build_many([{"name": "h_hilbert", "sources": ["h_hilbert.cpp"], "flags": []}])
    path, log = res["h_hilbert"]
    if not path:
        rep.violation("harness-does-not-compile:hilbert", log[-3000:], False, "harness/h_hilbert.cpp does not compile")
        return
    rc, out, err = common.run_harness(path, "")
    if rc != 0:
        from props import corefam
        rep.violation("crash:" + corefam.crash_signature(err), "# harness/h_hilbert.cpp\n# " + err[:3000].replace("\n", "\n# "), True, "Hilbert ordering: the library aborted: " + corefam.crash_signature(err))
        return
    rows = [ln.split() for ln in out.split("\n") if ln.startswith("HB ")]
    rep.cov["hilbert_rows"] = len(rows)
    for t in rows:
        H, level, n, bij, par, first = (int(x) for x in t[1:7])
        if bij:
            rep.violation("C11:hilbert-bijection", "# harness/h_hilbert.cpp (no input): height %d level %d: %d of %d indices do not round-trip\n" % (H, level, bij, n), True,
                          "Hilbert ordering, height %d level %d: %d of %d indices do not round-trip through their box position" % (H, level, bij, n))
        if par:
            rep.violation("C11:hilbert-parent-containment:H=%d:l=%d:%d/%d:first=%d" % (H, level, par, n, first), "# harness/h_hilbert.cpp (no input): height %d level %d: for %d of %d indices (first: %d) the parent index is not the cell that contains the index\n" % (H, level, par, n, first), True,
                          "Hilbert ordering, height %d level %d: the parent of %d of %d indices (e.g. %d) is not the cell that geometrically contains them" % (H, level, par, n, first))


def run(rep, tier, seed, replay, proof_ok, proof_msg):
    if not replay:
        hilbert_stage(rep)

    def nontrivial(res, nl, split):
        return True
    corefam.standard_run(rep, tier, seed, replay, proof_ok, proof_msg, gen_cases, evaluate, nontrivial=nontrivial,
                         corr_name="Morton index API of the library vs Lean model (same command stream)")
    rep.cov["rule"] = ("exhaustive: every cell of every level with at most 300 (quick) / 5000 (thorough) cells, D=1..4, periodic and not: decode, encode, parent, child code, "
                       "interaction list, neighbour lists, all position codes; random: per-group builders on random groups, bit algebra on random indices up to 62 bits. "
                       "Each case is one (D, periodic, level) or one random group; all are distinct.")
    rep.assumptions += ["Hilbert ordering: parent containment and bijection are checked on the real class for heights 2..5 (known finding); it has no Lean model"]
