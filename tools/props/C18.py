"""C18 — interaction counters report the true number of elementary interactions."""
import core
import gen
from props import corefam
from props.C08 import segments

LEVEL = "proof"


def counts_from_elems(case, elems):
    shape = core.shape_of_case(case)
    n = {i: len(ps) for i, ps in shape.items()}
    c = {"P2M": 0, "M2M": 0, "M2L": 0, "L2L": 0, "L2P": 0, "P2P": 0, "P2PI": 0}
    for e in elems:
        t = e.split()
        if t[0] in ("P2M", "L2P", "M2M", "L2L", "M2L"):
            c[t[0]] += 1
        elif t[0] == "P2P":
            c["P2P"] += n[int(t[1])] * n[int(t[2])]
        elif t[0] == "P2PI":
            c["P2PI"] += n[int(t[1])] * (n[int(t[1])] - 1)
    return [c["P2M"], c["M2M"], c["M2L"], c["L2L"], c["L2P"], c["P2P"], c["P2PI"]]


def gen_cases(tier, seed, configs):
    n = 200 if tier == "quick" else 3000
    cases = []
    for k in range(n):
        r = gen.rng(seed, "C18", k)
        D, H, periodic, kind, parts, bs, mode = corefam.random_tree_params(r, configs, max_n=64, big=(tier != "quick"))
        upper = r.choice([2, 2, 1, 0, 3]) if not periodic else r.choice([1, 1, 0, 2])
        b = "build bs=%d mode=%d" % (bs, mode)
        runs = [("plain", "exec seq flags=63 upper=%d" % upper), ("seqc", "exec seqc flags=63 upper=%d seed=%d" % (upper, r.randrange(10 ** 6)))]
        big = (k == 1)
        if big:
            # one crowded leaf: its in-leaf count n^2 - n does not fit 32 bits
            H = min(H, 3)
            lim = 1 << (H - 1)
            crowd = tuple(r.randrange(lim) for _ in range(D))
            parts = [crowd] * 46400 + [tuple(r.randrange(lim) for _ in range(D)) for _ in range(20)]
            kind, bs, mode = "crowded_leaf", 1, 0
            b = "build bs=1 mode=0"
        for j in range(0 if big else 3):
            runs.append(("ompc%d" % j, "exec ompc flags=63 upper=%d sched=%d seed=%d workers=%d" % (upper, r.choice([0, 1, 2, 2, 3]), r.randrange(1, 10 ** 6), r.choice([1, 2, 3, 5, 8, 16]))))
        body = ["spec elems flags=63 upper=%d" % upper]
        for name, cmd in runs:
            body += ["mark " + name, b, cmd, "dump values"]
        cases.append(corefam.make_case("c18-%d" % k, D, H, periodic, parts, bs, mode, body, {"kind": kind, "upper": upper, "runs": [x[0] for x in runs]}))
    return cases


def evaluate(res):
    c = res.case
    corr, orc = [], []
    cs, ls = segments(res.cpp), segments(res.lean)
    want = counts_from_elems(c, core.spec_elems(res.lean))
    plain_v = sorted(core.section(cs.get("plain", []), "V "))
    for name in c["meta"]["runs"][1:]:
        seg = cs.get(name, [])
        k = [ln for ln in seg if ln.startswith("K ")]
        if not k:
            continue
        got = [int(x) for x in k[0].split()[1:8]]
        if got != want:
            orc.append(("C18:counts", "%s: merged counters (P2M M2M M2L L2L L2P P2P P2PInner) = %r, the tree implies %r" % (name, got, want)))
        if sorted(core.section(seg, "V ")) != plain_v:
            orc.append(("C18:transparent", "%s: wrapping the kernel in the counter changed the computed results" % name))
        model = counts_from_elems(c, core.elems_of_calls(ls.get(name, [])))
        if model != got and got == want:
            corr.append(("counts", "%s: counters differ from those implied by the model's call list" % name))
        orc += [("C18:X", x) for x in core.section(seg, "X ")]
    return corr, orc[:4]


def run(rep, tier, seed, replay, proof_ok, proof_msg):
    corefam.standard_run(rep, tier, seed, replay, proof_ok, proof_msg, gen_cases, evaluate, omp=True,
                         corr_name="counter-wrapped recording kernel (sequential, OpenMP/mock with 1..16 workers, random merge order) vs Lean model")
    rep.assumptions += ["counters are merged with Counters::Reduce in a seeded random pairwise order", "timer wrapper (tbfinteractiontimer.hpp) is not exercised: wall-clock values are not a function of the input"]
