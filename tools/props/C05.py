"""C05 — uniform (Lagrange/FFT) kernel matches the direct sum to its interpolation order (partial; numeric probe)."""
import num
from props import numfam

LEVEL = "other"
# 2x the supremum over single well-separated pairs found by tools/calibrate_num.py (0.027/0.247, 1.3e-3/2.6e-2, 5.7e-5/2.64e-3)
THRESHOLDS = {("unif", 3, "double"): (6e-2, 5e-1), ("unif", 5, "double"): (2.6e-3, 5.2e-2), ("unif", 7, "double"): (1.2e-4, 5.3e-3), ("unif", 5, "float"): (2.6e-3, 5.2e-2)}


XCFGS = [("unif", 5, "double", 0), ("unif", 5, "double", 1)]


def run(rep, tier, seed, replay, proof_ok, proof_msg):
    from props import numvar
    if replay and any(ln.startswith("# xcfg=") for ln in open(replay)):
        numvar.run_variants(rep, tier, seed, XCFGS, THRESHOLDS, "C05", "uniform kernel", replay=replay)
        return
    if not replay:
        # the periodic (four-step sequence with the top tree) and the target/source variants against explicit image sums
        numvar.run_variants(rep, tier, seed, XCFGS, THRESHOLDS, "C05", "uniform kernel")
    numfam.run_family(rep, tier, seed, replay, proof_ok, proof_msg, num.UNIF, THRESHOLDS, "C05", "uniform kernel")
