"""C05 — uniform (Lagrange/FFT) kernel matches the direct sum to its interpolation order (partial; numeric probe)."""
import num
from props import numfam

LEVEL = "other"
# 2x the supremum over single well-separated pairs found by tools/calibrate_num.py (0.027/0.247, 1.3e-3/2.6e-2, 5.7e-5/2.64e-3)
THRESHOLDS = {("unif", 3, "double"): (6e-2, 5e-1), ("unif", 5, "double"): (2.6e-3, 5.2e-2), ("unif", 7, "double"): (1.2e-4, 5.3e-3), ("unif", 5, "float"): (2.6e-3, 5.2e-2)}


def run(rep, tier, seed, replay, proof_ok, proof_msg):
    numfam.run_family(rep, tier, seed, replay, proof_ok, proof_msg, num.UNIF, THRESHOLDS, "C05", "uniform kernel")
