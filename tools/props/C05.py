"""C05 — uniform (Lagrange/FFT) kernel matches the direct sum to its interpolation order (partial; numeric probe)."""
import num
from props import numfam

LEVEL = "other"
THRESHOLDS = {("unif", 3, "double"): (2.5e-2, 3e-1), ("unif", 5, "double"): (1e-3, 1.2e-2), ("unif", 7, "double"): (2.5e-5, 5e-4), ("unif", 5, "float"): (1e-3, 1.2e-2)}


def run(rep, tier, seed, replay, proof_ok, proof_msg):
    numfam.run_family(rep, tier, seed, replay, proof_ok, proof_msg, num.UNIF, THRESHOLDS, "C05", "uniform kernel")
