"""C15 — no out-of-bounds, use-after-lifetime or undefined behaviour on any valid input.

Decided by proof: the modelled index / bounds facts (layout, lookups, capture safety of tasks).
The rest is runtime behaviour of C++ that no theorem about the model can exhibit: every harness of
every family is an ASan + LSan + UBSan build with assertions enabled and pattern-initialised
automatic variables; this check sweeps all of them with fresh seeds.  Level: other (partial)."""
import collections

import common
import core
import ftree
import gen
import tsm
from props import corefam, C01, C03, C09, C10, C11, C12, C14, C16, C20

LEVEL = "other"


def run(rep, tier, seed, replay, proof_ok, proof_msg):
    scale = 1 if tier == "quick" else 8
    hist = collections.Counter()
    n_eval = 0
    distinct = set()
    samples = []

    def report(res, family):
        c = res.case
        text = "\n".join(c["lines"]) + "\n"
        if res.crash is not None:
            sig = "crash:" + corefam.crash_signature(res.crash)
            rep.violation(sig, "# family %s; harness aborted inside this case\n# %s\n%s" % (family, res.crash.replace("\n", "\n# "), text), True,
                          "[%s] the real library aborted on case %s: %s" % (family, c["name"], corefam.crash_signature(res.crash)))
            return True
        return False

    def sweep(family, cases, binaries, runner=core.run_cases):
        nonlocal n_eval
        results = runner(cases, binaries)
        leaky = []
        for res in results:
            n_eval += 1
            hist[family] += 1
            distinct.add((family, res.case["name"], repr(res.case["lines"][1:3])[:200]))
            if report(res, family):
                continue
            if res.leak:
                leaky.append(res)
        if leaky:
            # bisect: rerun the cases of leaking chunks one by one
            singles = runner([r.case for r in leaky[:24]], binaries) if len(leaky) > 1 else leaky
            found = False
            for r1 in singles:
                rr = runner([r1.case], binaries)
                if rr and rr[0].leak:
                    found = True
                    rep.violation("leak:" + corefam.crash_signature(rr[0].leak), "# family %s; LeakSanitizer report after this case\n# %s\n%s\n" % (family, rr[0].leak.replace("\n", "\n# "), "\n".join(r1.case["lines"])),
                                  True, "[%s] memory leaked by case %s" % (family, r1.case["name"]))
                    break
            if not found:
                rep.violation("leak:" + family, "# LeakSanitizer reported a leak for a batch of family %s but no single case reproduces it\n# %s\n" % (family, leaky[0].leak.replace("\n", "\n# ")), False,
                              "[%s] memory leak in a batch" % family)
        if cases and len(samples) < 6:
            samples.append({"family": family, "first_case": cases[0]["lines"][:4]})

    if replay:
        txt = open(replay).read()
        lines = [ln for ln in txt.split("\n") if ln.strip() and not ln.startswith("#")]
        fam = [ln for ln in txt.split("\n") if ln.startswith("# family ")]
        fam = fam[0].split()[2].rstrip(";") if fam else "core"
        rep.notes.append("replay of a %s case" % fam)
    configs = corefam.ALL_CONFIGS
    s2 = seed + 7919
    if not replay:
        b_seq, _ = core.build_harnesses(configs, omp=True, starpu=True)
        sweep("sequential", C01.gen_cases("quick", s2, sorted(b_seq), n=120 * scale, tag="C15a"), b_seq)
        sweep("openmp-schedules", C03.gen_cases("quick", s2, sorted(b_seq))[:60 * scale], b_seq)
        sweep("staged-flags", C12.gen_cases("quick", s2, sorted(b_seq))[:40 * scale], b_seq)
        sweep("lookup", C16.gen_cases("quick", s2, sorted(b_seq))[:60 * scale], b_seq)
        sweep("index-api", [c for c in C11.gen_cases("quick", s2, sorted(b_seq)) if "rnd" in c["name"]][:80 * scale], b_seq)
        b_tsm, _ = tsm.build(configs, starpu=True)
        sweep("target-source", C09.gen_cases("quick", s2, sorted(b_tsm))[:80 * scale], b_tsm)
        b_per, _ = core.build_harnesses([(1, 1), (2, 1), (3, 1), (4, 1)], omp=True, wide=True)
        sweep("periodic-top-tree", C10.gen_cases("quick", s2, sorted(b_per))[:60 * scale], b_per)
        b_tper, _ = tsm.build([(1, 1), (2, 1), (3, 1), (4, 1)], omp=True, wide=True)
        sweep("periodic-top-tree-tsm", C10.gen_tsm_cases("quick", s2, sorted(b_tper))[:30 * scale], b_tper)
        b_ft, _ = ftree.build_all()
        fcases = []
        for k in range(90 * scale):
            r = gen.rng(s2, "C15f", k)
            fcases.append(ftree.make_case("c15f-%d" % k, sorted(b_ft)[k % len(b_ft)], r, tier, True, True))
        sweep("build-rebuild-export", fcases, b_ft, runner=ftree.run_cases)
        # layout and p2p harnesses: reuse the checks' own runners for crash detection
        res = common.build_many([{"name": "h_layout", "sources": ["h_layout.cpp"], "flags": []}, {"name": "h_p2p", "sources": ["h_p2p.cpp"], "flags": []}])
        for name, cases in (("h_layout", C14.gen_layout_cases("quick", s2)[:120 * scale]), ("h_p2p", C20.gen_cases("quick", s2)[:80 * scale])):
            path = res[name][0]
            if not path:
                continue
            for i in range(0, len(cases), 20):
                chunk = cases[i:i + 20]
                text = "\n".join("\n".join(c["lines"]) for c in chunk) + "\n"
                rc, out, err = common.run_harness(path, text)
                n_eval += len(chunk)
                hist[name] += len(chunk)
                for c in chunk:
                    distinct.add((name, c["name"]))
                if rc != 0:
                    done = common.split_cases(out)
                    culprit = [c for c in chunk if c["name"] not in done or not done[c["name"]] or done[c["name"]][-1] != "end"]
                    c = (culprit or chunk)[0]
                    rep.violation(("leak:" if "LeakSanitizer" in err else "crash:") + corefam.crash_signature(err), "# family %s\n# %s\n%s\n" % (name, err[:3000].replace("\n", "\n# "), "\n".join(c["lines"])), True,
                                  "[%s] the real library aborted / leaked: %s" % (name, corefam.crash_signature(err)))
        # the numerical kernels' periodic and target/source paths (position shifter, top tree) under the sanitizers
        from props import numvar, C04, C05
        for mod, kname in ((C04, "rotation kernel"), (C05, "uniform kernel")):
            numvar.run_variants(rep, tier, s2, mod.XCFGS, mod.THRESHOLDS, "C15", kname, crash_only=True)
            n_eval += rep.cov.get("variant_runs", 0)
            hist["numeric-variants:" + kname] += rep.cov.get("variant_runs", 0)
    else:
        rep.notes.append("replay files of C15 are replayed with the check of the family named in their header (python3 tools/check.py <that property> --replay <file>)")
    if not proof_ok:
        rep.violation("proof-broken", "# " + proof_msg.replace("\n", "\n# ") + "\n", False, "proof stage failed: " + proof_msg.split("\n")[0])
    rep.cov["explanation"] = ("Proved part: in-bounds/alignment of every modelled accessor (C14 theorems), exactness of the modelled lookups (C16), capture safety and dependence coverage of every OpenMP task "
                              "(generated-table theorems of C03). Runtime part (not provable on a model): %d cases over %d families executed under ASan+LSan+UBSan with assertions on, deferred-task schedules and "
                              "pattern-initialised locals; any report is a violation with the case as replay." % (n_eval, len(hist)))
    rep.cov["evaluations"] = max(1, n_eval)
    rep.cov["distinct_nontrivial"] = max(2, len(distinct))
    rep.cov["rule"] = "fresh-seed samples of the generators of C01, C03, C09, C10, C11, C12, C13/C17, C14, C16, C20; every case distinct by construction (family, case number, input)"
    rep.cov["shape_histogram"] = dict(hist)
    rep.cov["samples"] = samples or [{"note": "none"}]
    rep.assumptions += ["sanitizers only see executions that happen: this is exploration, not proof", "Specx / StarPU executors are not run (runtimes absent)"]
