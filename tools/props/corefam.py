"""Common skeleton of the checks that run the 'core' harness against the Lean model."""
import collections
import hashlib
import os

import common
import core
import gen

ALL_CONFIGS = [(1, 0), (2, 0), (3, 0), (4, 0), (1, 1), (2, 1), (3, 1), (4, 1)]


def make_case(name, D, H, periodic, parts, bs, mode, body, meta=None):
    lines = gen.case_header(name, D, H, periodic, parts) + ["build bs=%d mode=%d" % (bs, mode)] + body + ["end"]
    m = {"bs": bs, "mode": mode}
    m.update(meta or {})
    return {"name": name, "D": D, "H": H, "periodic": periodic, "parts": parts, "bs": bs, "mode": mode,
            "lines": lines, "meta": m}


def random_tree_params(r, configs, max_n=64, big=False):
    D, periodic = r.choice(configs)
    H = gen.pick_height(r, D, big)
    if periodic and H < 2:
        H = 2
    kind = r.choice(gen.KINDS)
    n = r.choice([1, 2, 3, 5, 8, 13, 21, 34, 55, max_n])
    n = min(n, max_n)
    if r.random() < 0.05:
        # a deep, sparse tree: leaf indices beyond 31 bits
        H = gen.pick_height_deep(r, D)
        n = min(n, 8)
    parts = gen.gen_particles(r, D, H, kind, n)
    nleaves = len(set(parts))
    bs = gen.pick_bs(r, nleaves)
    mode = r.randrange(2)
    return D, H, periodic, kind, parts, bs, mode


def parse_replay(path):
    lines = [ln.rstrip("\n") for ln in open(path) if not ln.startswith("#")]
    lines = [ln for ln in lines if ln.strip()]
    hdr = {}
    for ln in lines:
        t = ln.split()
        if t[0] == "tree":
            for kvp in t[1:]:
                k, v = kvp.split("=")
                hdr[k] = int(v)
        if t[0] == "parts":
            n = int(t[1])
            D = hdr["D"]
            vals = [int(x) for x in t[2:]]
            hdr["parts"] = [tuple(vals[i * D:(i + 1) * D]) for i in range(n)]
        if t[0] == "build":
            for kvp in t[1:]:
                k, v = kvp.split("=")
                hdr[k] = int(v)
    name = [ln for ln in lines if ln.startswith("case ")][0][5:].strip()
    return {"name": name, "D": hdr["D"], "H": hdr["H"], "periodic": hdr.get("periodic", 0), "parts": hdr.get("parts", []),
            "bs": hdr.get("bs", 1), "mode": hdr.get("mode", 0), "lines": lines, "meta": {"replay": True}}


def structure_stats(res):
    """(n M2M levels with >1 group or any, split sibling set?, groups per level) from the cpp dump"""
    groups = collections.defaultdict(list)
    for ln in core.section(res.cpp or [], "S G "):
        t = ln.split()
        lvl = int(t[2])
        cells = [int(x) for x in t[8:]]
        groups[lvl].append(cells)
    D = res.case["D"]
    split = False
    for lvl, gs in groups.items():
        for a, b in zip(gs, gs[1:]):
            if a and b and (a[-1] >> D) == (b[0] >> D) and lvl > 0:
                split = True
    return len(groups), split, {l: len(g) for l, g in groups.items()}


def standard_run(rep, tier, seed, replay, proof_ok, proof_msg, gen_cases, evaluate, configs=None, corr_name="core harness vs Lean Impl model",
                 nontrivial=None, omp=False, starpu=False):
    """gen_cases(tier, seed, configs) -> cases ; evaluate(result) -> (corr_diffs, oracle_fails), each a list of (signature, message)"""
    configs = configs or ALL_CONFIGS
    binaries, bad = core.build_harnesses(configs, omp=omp, starpu=starpu)
    if bad:
        rep.notes.append("configurations whose harness does not compile (reported by C19): " + ", ".join("D=%d periodic=%d" % c for c in sorted(bad)))
    if not binaries:
        first = sorted(bad.items())[0]
        rep.violation("harness-does-not-compile", first[1][-4000:], False,
                      "no configuration of the harness compiles against /repo/src: the correspondence '%s' cannot be checked" % corr_name)
        return
    usable = [c for c in configs if c in binaries]
    if replay:
        cases = [parse_replay(replay)]
    else:
        cases = corpus_cases(rep.pid) + gen_cases(tier, seed, usable)
    results = core.run_cases(cases, binaries)
    n_eval = 0
    distinct = set()
    hist = collections.Counter()
    samples = []
    corr_broken = []
    oracle_found = False
    for res in results:
        n_eval += 1
        c = res.case
        text = "\n".join(c["lines"]) + "\n"
        if res.crash is not None:
            sig = "crash:" + crash_signature(res.crash)
            if "Assertion" in sig and rep.pid != "C15":
                # an internal assertion tripped: that is C15's business; decide *this* property on the same input with assertions compiled out
                res2 = rerun_ndebug(c, omp, starpu)
                if res2 is not None and res2.crash is None and res2.cpp is not None and res2.lean is not None:
                    corr2, orc2 = evaluate(res2)
                    if not orc2:
                        rep.notes.append("case %s trips %s but the property's oracle accepts the run with assertions compiled out (reported by C15)" % (c["name"], sig))
                        if corr2:
                            corr_broken.append((res2, corr2))
                        continue
                    for sig2, msg in orc2:
                        oracle_found = True
                        rep.violation(sig2, "# property oracle failed on the implementation's output: %s\n# (the asserting build aborts on this input with %s)\n%s" % (msg.replace("\n", "\n# "), sig, text), True,
                                      "case %s: %s" % (c["name"], msg))
                    continue
            rep.violation(sig, "# harness aborted (sanitizer / assertion / signal) inside this case\n# " + res.crash.replace("\n", "\n# ") + "\n" + text, True,
                          "the real library aborted on case %s: %s" % (c["name"], crash_signature(res.crash)))
            oracle_found = True
            continue
        if res.cpp is None:
            continue
        if res.lean is None or not res.lean or res.lean[-1] != "end":
            rep.violation("lean-driver-error", "# the Lean driver produced no complete output for this case\n" + text, False,
                          "Lean driver failed on case %s" % c["name"])
            continue
        corr, orc = evaluate(res)
        for sig, msg in orc:
            oracle_found = True
            rep.violation(sig, "# property oracle failed on the implementation's output: %s\n%s" % (msg.replace("\n", "\n# "), text), True,
                          "case %s: %s" % (c["name"], msg))
        if corr and not orc:
            corr_broken.append((res, corr))
        nl, split, gpl = structure_stats(res)
        key = hashlib.sha256((repr(sorted(c["parts"])) + repr((c["D"], c["H"], c["periodic"], c["bs"], c["mode"]))).encode()).hexdigest()
        is_nt = nontrivial(res, nl, split) if nontrivial else (split or (c["H"] >= 4 and len(set(c["parts"])) > 1))
        if is_nt:
            distinct.add(key)
        hist["D=%d" % c["D"]] += 1
        hist["H=%d" % c["H"]] += 1
        hist["periodic" if c["periodic"] else "nonperiodic"] += 1
        hist["mode=%d" % c["mode"]] += 1
        if split:
            hist["split_sibling_set"] += 1
        if max(gpl.values() or [0]) > 1:
            hist["multi_group_level"] += 1
        if len(samples) < 3 and is_nt:
            samples.append({"D": c["D"], "H": c["H"], "periodic": c["periodic"], "bs": c["bs"], "mode": c["mode"],
                            "cells": sorted(set(c["parts"]))[:12], "n_particles": len(c["parts"])})
    for res, corr in corr_broken[:3]:
        c = res.case
        sig, msg = corr[0]
        rep.violation("corr:" + sig, "# correspondence '%s' no longer holds: %s\n# the property's spec oracle accepts the implementation's output on this input\n%s"
                      % (corr_name, msg.replace("\n", "\n# "), "\n".join(c["lines"]) + "\n"), False,
                      "case %s: model and implementation disagree (%s) but no property failure was found" % (c["name"], msg))
    if not proof_ok and not oracle_found:
        rep.violation("proof-broken", "# proof obligations that no longer check:\n# " + proof_msg.replace("\n", "\n# ") + "\n", False,
                      "proof stage failed: " + proof_msg.split("\n")[0])
    rep.cov["evaluations"] = n_eval
    rep.cov["distinct_nontrivial"] = len(distinct)
    rep.cov["rule"] = ("cases = corpus + seeded structured generator (see tools/gen.py); distinct by (particle cells, D, H, periodic, bs, mode); "
                      "non-trivial = a sibling set split across two groups, or height >= 4 with more than one occupied leaf")
    rep.cov["shape_histogram"] = dict(hist)
    rep.cov["samples"] = samples or [{"note": "no non-trivial sample in this run"}]
    rep.cov["correspondence"] = corr_name
    rep.cov["configs_built"] = ["D=%d periodic=%d" % c for c in usable]


def rerun_ndebug(case, omp=False, starpu=False):
    spec = core.harness_spec(case["D"], case["periodic"], omp, False, starpu)
    spec = dict(spec, name=spec["name"] + "_ndebug", flags=list(spec["flags"]) + ["-DNDEBUG"])
    res = common.build_many([spec])
    path, log = res[spec["name"]]
    if not path:
        return None
    out = core.run_cases([case], {(case["D"], case["periodic"]): path})
    return out[0] if out else None


def crash_signature(err):
    import re
    m = re.search(r"Assertion `(.*?)' failed", err)
    if m:
        return "Assertion `%s' failed" % m.group(1)[:100]
    m = re.search(r"ERROR: AddressSanitizer: ([a-z\-]+)", err)
    if m:
        kind = m.group(1)
        var = re.search(r"'([^']+)' \(line (\d+)\) <== Memory access", err)
        frame = re.search(r"#0 0x[0-9a-f]+ in .*? (/[^ ]+\.[hc]pp):(\d+)", err)
        where = ""
        if frame:
            where = "%s:%s" % (os.path.relpath(frame.group(1), common.REPO) if frame.group(1).startswith(common.REPO) else os.path.basename(frame.group(1)), frame.group(2))
        return "AddressSanitizer %s%s%s" % (kind, " of '%s' (declared line %s)" % (var.group(1), var.group(2)) if var else "", " at " + where if where else "")
    for ln in err.split("\n"):
        if "runtime error:" in ln:
            where = re.search(r"(/[^ :]+\.[hc]pp):(\d+)", ln)
            loc = ""
            if where:
                loc = " at %s:%s" % (os.path.relpath(where.group(1), common.REPO) if where.group(1).startswith(common.REPO) else os.path.basename(where.group(1)), where.group(2))
            return "UBSan " + re.sub(r"-?\d+", "N", ln.split("runtime error:")[1].strip())[:100] + loc
        if "ERROR: AddressSanitizer" in ln or "ERROR: LeakSanitizer" in ln:
            return ln.split("ERROR:")[1].strip()[:120]
        if "Assertion" in ln and "failed" in ln:
            return ln.strip()[-160:]
    return (err.strip().split("\n") or ["unknown"])[-1][:120]


def corpus_cases(pid):
    d = os.path.join(common.VERIF, "corpus", pid)
    out = []
    if os.path.isdir(d):
        for f in sorted(os.listdir(d)):
            if f.endswith(".in"):
                c = parse_replay(os.path.join(d, f))
                c["name"] = "corpus-" + f[:-3]
                c["lines"] = ["case " + c["name"] if ln.startswith("case ") else ln for ln in c["lines"]]
                out.append(c)
    return out
