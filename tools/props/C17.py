"""C17 — bulk export returns every particle's data and results under its original index."""
import core
import ftree

LEVEL = "proof"


def stage_checks(c, seg, label, expect_data):
    """XD i = data values of the particle inserted at i (as stored, i.e. converted to the data type);
       XR i = its result values (as shown by the per-leaf dump of the same moment)"""
    D, real, data, nextra, nrhs, periodic = c["cfg"]
    bad = []
    xd, xw = {}, {}
    for ln in seg:
        if ln.startswith("XD "):
            t = ln.split()
            xw[int(t[1])] = "double" if t[2] == "64" else "float"
            xd[int(t[1])] = [int(x, 16) for x in t[3:]]
    xr = {int(ln.split()[1]): ln.split()[2:] for ln in seg if ln.startswith("XR ")}
    rr = {int(ln.split()[1]): ln.split()[2:] for ln in seg if ln.startswith("R ")}
    for i, want in enumerate(expect_data):
        if i in xd and [ftree.unbits(b, xw[i]) for b in xd[i]] != [ftree.unbits(b, data) for b in want]:
            bad.append(("C17:data", "%s: exported data of particle %d is %r, the particle inserted at %d holds %r" % (label, i, ["%x" % b for b in xd[i]], i, ["%x" % b for b in want])))
            break
    if xd and sorted(xd) != list(range(len(expect_data))):
        bad.append(("C17:data", "%s: export has entries %r" % (label, sorted(xd)[:5])))
    if rr:
        for i in sorted(xr):
            if xr[i] != rr.get(i):
                bad.append(("C17:rhs", "%s: exported results of particle %d are %r, the tree holds %r" % (label, i, xr[i], rr.get(i))))
                break
    return bad


def evaluate(res):
    c = res.case
    D, real, data, nextra, nrhs, periodic = c["cfg"]
    m = c["meta"]
    corr, orc = [], []
    cs, ls = ftree.segments(res.cpp), ftree.segments(res.lean)
    cur = [[ftree.to_data_bits(ftree.bits(v, real), real, data) for v in p] for p in m["particles"]]
    for key in ["built", "exec1"] + [k for k in cs if k.startswith("rebuilt") or k.startswith("reexec")]:
        if key.startswith("rebuilt"):
            cyc = int(key[7:])
            for i, np_ in m["moves"][cyc]:
                cur[i][:D] = [ftree.bits(v, data) for v in np_]
        seg = cs.get(key, [])
        orc += stage_checks(c, seg, key, cur)
        a = [ln for ln in seg if ln[:2] in ("XD", "XR")]
        b = [ln for ln in ls.get(key, []) if ln[:2] in ("XD", "XR")]
        if a != b:
            corr.append(("export", "%s: exports differ (library, model): %r" % (key, [(x, y) for x, y in zip(a, b) if x != y][:2])))
    return corr, orc


def evaluate_all(res):
    """+ the bulk exports of a target/source tree (source data, target data, target results) before and after rebuild"""
    from props import C13
    corr, orc = evaluate(res)
    c2, o2 = C13.tsm_history(res, "C17")
    return corr + [x for x in c2], orc + [x for x in o2 if "export" in x[0] or "identity" in x[0]]


def run(rep, tier, seed, replay, proof_ok, proof_msg):
    ftree.standard(rep, tier, seed, replay, proof_ok, proof_msg, "C17", 300, 30000, True, evaluate_all, export=True)
    rep.assumptions += ["source/target trees: getAllParticlesDataSource / DataTarget / RhsTarget of a TbfTreeTsm over the same particle set on both sides, before and after moves + rebuild"]
