"""Periodic and target/source variants of the numeric probes (C04 / C05; reused by C15 for the sanitizers)."""
import collections
import math

import common
import gen
import num
import numx
from props import corefam


def variant_runs(r, kind, periodic):
    """run specifications for one case: (spec string, target/source?, levels above the root)"""
    runs = []
    lv = [-1, -1, 0, 0, 1] if periodic else [-1]
    bs = lambda: r.choice([1, 3, 7, 100000])
    if periodic:
        l1 = r.choice(lv)
        b1, g1 = bs(), r.randrange(2)
        runs.append(("tsm=0 levels=%d bs=%d gmode=%d omp=0" % (l1, b1, g1) + (" libkernel=1" if kind == "rot" else ""), False, l1))
        if kind == "rot":
            # the same run with a top-tree kernel built by the caller from GenerateAboveTreeConfiguration: must agree to rounding
            runs.append(("tsm=0 levels=%d bs=%d gmode=%d omp=0 libkernel=0" % (l1, b1, g1), False, l1))
        l2 = r.choice(lv)
        runs.append(("tsm=1 levels=%d bs=%d gmode=%d omp=%d sched=2 seed=%d workers=4" % (l2, bs(), r.randrange(2), r.randrange(2), r.randrange(1, 10 ** 6))
                     + (" libkernel=1" if kind == "rot" and r.random() < 0.6 else ""), True, l2))
    else:
        runs.append(("tsm=1 levels=-1 bs=%d gmode=%d omp=0" % (bs(), r.randrange(2)), True, -1))
        runs.append(("tsm=1 levels=-1 bs=%d gmode=%d omp=1 sched=%d seed=%d workers=%d" % (bs(), r.randrange(2), r.choice([0, 1, 2, 3]), r.randrange(1, 10 ** 6), r.choice([1, 4, 9])), True, -1))
    return runs


def evaluate_case(xcfg, inp, runs_spec, so, se, rc, name, thresholds, tag, kernel_name, rep, crash_only=False):
    kind, order, real, periodic = xcfg
    text = "# xcfg=%r\n" % (xcfg,) + "\n".join(numx.case_lines(name, inp, real, [s for s, _, _ in runs_spec])) + "\n"
    cases = common.split_cases(so)
    if rc != 0 or name not in cases or cases[name][-1:] != ["end"]:
        from props import numfam
        sig = "crash:" + numfam.crash_sig(se, inp, real)
        rep.violation(sig, "# " + se[:3000].replace("\n", "\n# ") + "\n" + text, True,
                      "[%s %r] the real library aborted on variant case %s: %s" % (kernel_name, xcfg, name, sig[6:]))
        return None
    if crash_only:
        return None
    runs = numx.parse(cases[name], real)
    want_runs = [s for s in runs_spec if (inp["tgts"] if s[1] else inp["pts"])]
    if len(runs) != len(want_runs):
        rep.violation("machinery:variant-runs", text, False, "unexpected number of runs in the variant harness output (%d, expected %d)" % (len(runs), len(want_runs)))
        return None
    worst = [0.0, 0.0]
    prev = None
    thr = thresholds[(kind, order, real)]
    for (spec, tsm, levels), (ri, run) in zip(want_runs, runs):
        lo, hi = ([0, 0, 0], [0, 0, 0]) if ri is None else ri
        if periodic and ri is None:
            rep.violation("machinery:variant-interval", text, False, "the periodic harness did not report the repetition interval")
            return None
        targets = inp["tgts"] if tsm else inp["pts"]
        if not inp["pts"] or (not tsm and len(targets) < 2 and not periodic):
            continue
        ref = numx.image_sum(targets, inp["pts"], inp["width"], lo, hi, not tsm)
        ep, ef, fin = num.errors(run, ref)
        if len(targets) == 1:
            # num.errors skips single-particle inputs; evaluate directly
            pot, frc, mag, fmag = ref
            v = run[0]
            fin = all(math.isfinite(x) for x in v)
            ep = abs(v[0] - pot[0]) / mag[0] if mag[0] else 0.0
            ef = math.sqrt(sum((v[1 + d] - frc[0][d]) ** 2 for d in range(3))) / fmag[0] if fmag[0] else 0.0
        what = ("periodic " if periodic else "") + ("target/source" if tsm else "single-tree") + (", %d level(s) above the root, images %r..%r" % (levels, lo, hi) if periodic else "")
        if not fin:
            from props import numfam
            where = "particle-on-leaf-vertical-axis" if numfam.on_leaf_axis(dict(inp, pts=inp["pts"] + inp["tgts"])) else "variant"
            rep.violation("%s:finite:%s" % (tag, where), text, True, "[%s %r] variant case %s run '%s' (%s): non-finite potential or force (%s)" % (kernel_name, xcfg, name, spec, what, where))
            return None
        worst[0], worst[1] = max(worst[0], ep), max(worst[1], ef)
        if spec.endswith("libkernel=0") and prev is not None and prev[0].endswith("libkernel=1") and len(targets) > 0:
            eps = 2.0 ** (-52 if real == "double" else -23)
            d = num.maxdiff(prev[1], run, ref)
            if d > 2e4 * eps:
                rep.violation("%s:top-kernel" % tag, "# relative difference %.3e\n%s" % (d, text), True,
                              "[%s %r] variant case %s: the top tree with the kernel the library builds itself and with a kernel built from GenerateAboveTreeConfiguration differ by %.3e of the accumulated magnitude" % (kernel_name, xcfg, name, d))
                return None
        prev = (spec, run)
        if ep > thr[0] or ef > thr[1]:
            rep.violation("%s:accuracy-variant" % tag, "# normalised error: potential %.3e (bound %.1e), force %.3e (bound %.1e)\n%s" % (ep, thr[0], ef, thr[1], text), True,
                          "[%s %r] variant case %s run '%s' (%s; H=%d, %d sources, %d targets): error vs the explicit image sum potential %.3e / force %.3e exceeds the bound for this order (%.1e / %.1e)" %
                          (kernel_name, xcfg, name, spec, what, inp["H"], len(inp["pts"]), len(targets), ep, ef, thr[0], thr[1]))
            return None
    return worst


def run_variants(rep, tier, seed, xcfgs, thresholds, tag, kernel_name, replay=None, crash_only=False):
    """periodic (four-step sequence with the top tree) and target/source runs of the real kernels against explicit image sums"""
    binaries, bad = numx.build(xcfgs)
    for c, log in bad.items():
        rep.violation("harness-does-not-compile:%s" % (c,), log[-3000:], False, "numeric variant harness for %r does not compile against /repo/src" % (c,))
    n_cases = 10 if tier == "quick" else 120
    jobs = []
    if replay:
        lines = [ln.rstrip("\n") for ln in open(replay)]
        hdr = [ln for ln in lines if ln.startswith("# xcfg=")]
        if not hdr:
            return False
        xcfg = eval(hdr[0][len("# xcfg="):])
        body = [ln for ln in lines if ln and not ln.startswith("#")]
        if xcfg not in binaries:
            return True
        rc, so, se = common.run_harness(binaries[xcfg], "\n".join(body) + "\n", timeout=1800)
        # rebuild the input from the replayed lines
        real = xcfg[2]
        inp = _parse_input(body, real)
        runs_spec = []
        for ln in body:
            if ln.startswith("nrunx "):
                spec = ln[len("nrunx "):]
                kvs = dict(t.split("=") for t in spec.split())
                runs_spec.append((spec, kvs.get("tsm", "0") == "1", int(kvs.get("levels", "-1"))))
        name = [ln for ln in body if ln.startswith("case ")][0].split()[1]
        evaluate_case(xcfg, inp, runs_spec, so, se, rc, name, thresholds, tag, kernel_name, rep)
        return True

    def one(k):
        out = []
        for xcfg, path in binaries.items():
            r = gen.rng(seed, tag + "x%s%d%s%d" % xcfg, k)
            inp = numx.gen_case(r, tier, xcfg[3])
            runs_spec = variant_runs(r, xcfg[0], xcfg[3])
            name = "%sx-%d" % (tag.lower(), k)
            text = "\n".join(numx.case_lines(name, inp, xcfg[2], [s for s, _, _ in runs_spec])) + "\n"
            rc, so, se = common.run_harness(path, text, timeout=1800)
            out.append((xcfg, inp, runs_spec, rc, so, se, name))
        return out
    results = common.run_parallel(one, list(range(n_cases)))
    n_eval = 0
    worst = collections.defaultdict(lambda: [0.0, 0.0])
    hist = collections.Counter()
    for outs in results:
        for xcfg, inp, runs_spec, rc, so, se, name in outs:
            n_eval += len(runs_spec)
            w = evaluate_case(xcfg, inp, runs_spec, so, se, rc, name, thresholds, tag, kernel_name, rep, crash_only)
            if w:
                worst[xcfg][0] = max(worst[xcfg][0], w[0])
                worst[xcfg][1] = max(worst[xcfg][1], w[1])
            for spec, tsm, levels in runs_spec:
                hist[("periodic " if xcfg[3] else "") + ("target/source" if tsm else "single") + (" levels=%d" % levels if xcfg[3] else "")] += 1
    rep.cov["variant_runs"] = n_eval
    rep.cov["variant_histogram"] = dict(hist)
    rep.cov["variant_worst_errors"] = {"%s%d/%s/periodic=%d" % c: ["%.2e" % x for x in v] for c, v in sorted(worst.items())}
    rep.cov["evaluations"] = rep.cov.get("evaluations", 0) + n_eval
    return True


def _parse_input(body, real):
    import ftree
    inp = {"pts": [], "tgts": []}
    for ln in body:
        t = ln.split()
        if t[0] == "nbox":
            vals = [x for x in t[1:] if "=" not in x]
            inp["H"] = int([x for x in t[1:] if x.startswith("H=")][0][2:])
            inp["center"] = [ftree.unbits(int(v, 16), real) for v in vals[:3]]
            inp["width"] = ftree.unbits(int(vals[3], 16), real)
        elif t[0] in ("nparts", "ntgts"):
            n = int(t[1])
            vs = [ftree.unbits(int(v, 16), real) for v in t[2:]]
            inp["pts" if t[0] == "nparts" else "tgts"] = [vs[4 * i:4 * i + 4] for i in range(n)]
    return inp
