"""Shared body of the C04 / C05 numeric probes (tests, labelled as such)."""
import collections
import math

import common
import gen
import num
from props import corefam


def on_leaf_axis(inp):
    """some particle lies exactly on the vertical axis through the centre of its leaf cell (x and y equal the centre's)"""
    ncell = 1 << (inp["H"] - 1)
    lw = inp["width"] / ncell
    for p in inp["pts"]:
        hit = True
        for d in (0, 1):
            corner = inp["center"][d] - inp["width"] / 2
            c = min(ncell - 1, max(0, int(math.floor((p[d] - corner) / lw))))
            if p[d] != corner + (c + 0.5) * lw:
                hit = False
        if hit:
            return True
    return False


ROUNDING_ASSERT = "Assertion `std::fabs(x)-1.<10.*std::numeric_limits<FReal>::epsilon()' failed"


def near_face_rounding(inp, real):
    """known finding F-16 is a rounding-level excess: single precision, and some particle within a few tens of ulps (of the
    coordinates' magnitude) of a face of its leaf.  Only then can the reference coordinate exceed 1 + 10 eps on a valid input."""
    if real != "float":
        return False
    ncell = 1 << (inp["H"] - 1)
    lw = inp["width"] / ncell
    for p in list(inp["pts"]) + list(inp.get("tgts", [])):
        for d in range(3):
            corner = inp["center"][d] - inp["width"] / 2
            tol = 64 * 2.0 ** -23 * max(abs(corner), abs(corner + inp["width"]), inp["width"])
            u = (p[d] - corner) / lw
            off = abs(u - round(u)) * lw
            if off <= tol:
                return True
    return False


def crash_sig(se, inp, real):
    """crash signature; the reference-coordinate assertion outside the rounding regime of F-16 is a different failure"""
    sig = corefam.crash_signature(se)
    if ROUNDING_ASSERT in sig and not near_face_rounding(inp, real):
        sig += ":no-particle-within-rounding-of-a-leaf-face"
    return sig


def run_family(rep, tier, seed, replay, proof_ok, proof_msg, cfgs, thresholds, tag, kernel_name):
    binaries, bad = num.build(cfgs)
    if bad:
        for c, log in bad.items():
            rep.violation("harness-does-not-compile:%s" % (c,), log[-3000:], False, "numeric harness for %r does not compile against /repo/src" % (c,))
    n_eval, distinct, hist, samples = 0, set(), collections.Counter(), []
    worst = collections.defaultdict(lambda: [0.0, 0.0])
    n_cases = 36 if tier == "quick" else 400
    variants = ["bs=7 mode=0", "bs=1 mode=0", "bs=3 mode=1", "bs=100000 mode=0", "bs=5 mode=0 omp=1 sched=2 seed=%d workers=4", "bs=2 mode=1 omp=1 sched=1 seed=%d workers=9"]

    def one_case(k):
        r = gen.rng(seed, tag, k)
        inp = num.gen_input(r, tier)
        ref = num.direct(inp["pts"])
        runs_spec = [v % r.randrange(1, 10 ** 6) if "%d" in v else v for v in ([variants[0]] + r.sample(variants[1:], 2))]
        out = []
        for cfg, path in binaries.items():
            lines = num.case_lines("%s-%d" % (tag.lower(), k), inp, cfg[2], runs_spec)
            # linear splitting of the charges: q = a + b
            pa = [p[:3] + [num.ftree.f32(p[3] * 0.375)] for p in inp["pts"]]
            pb = [p[:3] + [p[3] - a[3]] for p, a in zip(inp["pts"], pa)]
            exact_split = all(num.ftree.f32(b[3]) == b[3] for b in pb)
            la = num.case_lines("a", dict(inp, pts=pa), cfg[2], [runs_spec[0]])
            lb = num.case_lines("b", dict(inp, pts=pb), cfg[2], [runs_spec[0]])
            # homogeneity of 1/r: the same input in a box twice as large (dyadic scaling is exact in IEEE arithmetic)
            ls_ = num.case_lines("s", dict(inp, center=[2 * c for c in inp["center"]], width=2 * inp["width"], pts=[[2 * v for v in p[:3]] + [p[3]] for p in inp["pts"]]), cfg[2], [runs_spec[0]])
            text = "\n".join(lines + (la + lb if exact_split else []) + ls_) + "\n"
            rc, so, se = common.run_harness(path, text, timeout=1800)
            out.append((cfg, lines, rc, so, se, exact_split))
        return k, inp, ref, runs_spec, out
    results = common.run_parallel(one_case, list(range(n_cases)))
    for k, inp, ref, runs_spec, outs in results:
        for cfg, lines, rc, so, se, exact_split in outs:
            n_eval += 1
            text = "# cfg=%r\n" % (cfg,) + "\n".join(lines) + "\n"
            cases = common.split_cases(so)
            name = "%s-%d" % (tag.lower(), k)
            if rc != 0 or name not in cases or cases[name][-1:] != ["end"]:
                sig = "crash:" + crash_sig(se, inp, cfg[2])
                rep.violation(sig, "# " + se[:3000].replace("\n", "\n# ") + "\n" + text, True, "[%s %r] the real library aborted on case %s: %s" % (kernel_name, cfg, name, sig[6:]))
                continue
            runs = num.parse_runs(cases[name], cfg[2])
            if len(runs) != len(runs_spec) and len(inp["pts"]) > 0:
                rep.violation("machinery:runs", text, False, "unexpected number of runs in the harness output")
                continue
            eps = 2.0 ** (-52 if cfg[2] == "double" else -23)
            thr = thresholds[cfg]
            for ri, run in enumerate(runs):
                ep, ef, fin = num.errors(run, ref)
                if not fin:
                    where = "particle-on-leaf-vertical-axis" if on_leaf_axis(inp) else "generic"
                    rep.violation("%s:finite:%s" % (tag, where), text, True, "[%s %r] case %s run '%s': non-finite potential or force (%s)" % (kernel_name, cfg, name, runs_spec[ri], where))
                    break
                worst[cfg][0] = max(worst[cfg][0], ep)
                worst[cfg][1] = max(worst[cfg][1], ef)
                if ep > thr[0] or ef > thr[1]:
                    rep.violation("%s:accuracy" % tag, "# normalised error: potential %.3e (bound %.1e), force %.3e (bound %.1e)\n%s" % (ep, thr[0], ef, thr[1], text), True,
                                  "[%s %r] case %s run '%s' (H=%d, %d particles): error vs direct sum potential %.3e / force %.3e exceeds the bound for this order (%.1e / %.1e)" %
                                  (kernel_name, cfg, name, runs_spec[ri], inp["H"], len(inp["pts"]), ep, ef, thr[0], thr[1]))
                    break
                if ri > 0:
                    d = num.maxdiff(runs[0], run, ref)
                    if d > 2e4 * eps:
                        rep.violation("%s:grouping" % tag, "# relative difference %.3e\n%s" % (d, text), True,
                                      "[%s %r] case %s: results with '%s' differ from '%s' by %.3e of the accumulated magnitude (rounding would be < %.1e)" %
                                      (kernel_name, cfg, name, runs_spec[ri], runs_spec[0], d, 2e4 * eps))
                        break
            if exact_split and "a" in cases and "b" in cases and runs and len(inp["pts"]) > 1:
                ra, rb = num.parse_runs(cases["a"], cfg[2]), num.parse_runs(cases["b"], cfg[2])
                if ra and rb:
                    w = 0.0
                    for i in runs[0]:
                        if ref[2][i] > 0:
                            w = max(w, abs(runs[0][i][0] - (ra[0][i][0] + rb[0][i][0])) / ref[2][i])
                    if w > 2e4 * eps:
                        rep.violation("%s:linearity" % tag, "# potential(q) - potential(a) - potential(b) = %.3e of the accumulated magnitude, q = a + b exactly\n%s" % (w, text), True,
                                      "[%s %r] case %s: the potential is not linear in the charges (defect %.3e)" % (kernel_name, cfg, name, w))
            if "s" in cases and runs and len(inp["pts"]) > 1:
                rs = num.parse_runs(cases["s"], cfg[2])
                if rs:
                    w = 0.0
                    for i in runs[0]:
                        if ref[2][i] > 0:
                            w = max(w, abs(runs[0][i][0] - 2 * rs[0][i][0]) / ref[2][i])
                        if ref[3][i] > 0:
                            w = max(w, max(abs(runs[0][i][1 + d] - 4 * rs[0][i][1 + d]) for d in range(3)) / ref[3][i])
                    if not (w <= 2e4 * eps):
                        rep.violation("%s:scaling" % tag, "# defect %.3e of the accumulated magnitude between the input and the same input scaled by 2\n%s" % (w, text), True,
                                      "[%s %r] case %s: doubling the box (and all coordinates) does not halve the potentials / quarter the forces (defect %.3e, rounding would be < %.1e)" %
                                      (kernel_name, cfg, name, w, 2e4 * eps))
            distinct.add((cfg, k))
            hist["%s%d/%s" % cfg] += 1
            hist["H=%d" % inp["H"]] += 1
        if len(samples) < 3 and len(inp["pts"]) > 2:
            samples.append({"H": inp["H"], "box": inp["box"], "positions": inp["pkind"], "n": len(inp["pts"]), "runs": runs_spec, "first": inp["pts"][:2]})
    # the error shrinks as the order grows (aggregated over this run's cases)
    by_order = sorted((c for c in worst if c[2] == "double"), key=lambda c: c[1])
    for a, b in zip(by_order, by_order[1:]):
        if worst[a][0] > 1e3 * 2.0 ** -52 and not (worst[b][0] < worst[a][0]):
            rep.violation("%s:decay" % tag, "# worst potential error per order: %r\n" % ({str(c): worst[c] for c in by_order},), False,
                          "[%s] the worst error does not shrink from order %d (%.3e) to order %d (%.3e)" % (kernel_name, a[1], worst[a][0], b[1], worst[b][0]))
    if not proof_ok:
        rep.violation("proof-broken", "# " + proof_msg.replace("\n", "\n# ") + "\n", False, "proof stage failed: " + proof_msg.split("\n")[0])
    rep.cov["explanation"] = ("PARTIAL. Proved: the executor's argument conventions (C02), invariance of any additive kernel's result under grouping/executor/batching "
                              "(C08, C03 theorems), the pairwise law of the reference (C20). NOT provable here (truncation error of %s and IEEE rounding): tested — "
                              "%d kernel executions on %d inputs compared with an independent direct sum; bounds per order = 2x the supremum found by an adversarial search over single far-field pairs (tools/calibrate_num.py; the normalised error of any input is at most that supremum); "
                              "worst errors this run: %s" % (kernel_name, n_eval, n_cases, {"%s%d/%s" % c: ["%.2e" % x for x in v] for c, v in sorted(worst.items())}))
    rep.cov["evaluations"] = max(1, n_eval + rep.cov.get("variant_runs", 0))
    rep.cov["distinct_nontrivial"] = max(2, len(distinct))
    rep.cov["rule"] = "seeded inputs: cubic boxes (unit / shifted / scaled), heights 1..6, 1..150 charged particles of either sign (uniform, clustered, on cell faces / centres / axes) x orders x {float,double} x groupings x {sequential, OpenMP/mock}; distinct by (configuration, input)"
    rep.cov["shape_histogram"] = dict(hist)
    rep.cov["samples"] = samples or [{"note": "none"}]
    rep.cov["error_bounds"] = {"%s%d/%s" % c: list(v) for c, v in thresholds.items()}
    rep.assumptions += ["this is a numerical test, not a proof; thresholds are empirical", "periodic and target/source variants: one order in double per kernel, small inputs (the reference is an explicit image sum)"]
