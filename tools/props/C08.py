"""C08 — results and the set of elementary interactions do not depend on the grouping."""
import core
import gen
from props import corefam, C01

LEVEL = "proof"


def gen_cases(tier, seed, configs):
    n = 150 if tier == "quick" else 2500
    cases = []
    for k in range(n):
        r = gen.rng(seed, "C08", k)
        D, H, periodic, kind, parts, _, _ = corefam.random_tree_params(r, configs, max_n=64, big=(tier != "quick"))
        nleaves = len(set(parts))
        upper = (1 if periodic else 2) if r.random() < 0.7 else r.choice([0, 1, 2, 3])
        groupings = []
        seen = set()
        for _ in range(r.choice([5, 6, 8])):
            g = (gen.pick_bs(r, nleaves), r.randrange(2), 0, None)
            if g[:2] not in seen:
                seen.add(g[:2])
                groupings.append(g)
        groupings.append((1, 0, 0, None))
        groupings.append((0, r.randrange(2), 1, None))                       # automatic block size
        groupings.append((0, r.randrange(2), 1, r.choice([1, 2, 3, 5, 100])))   # automatic through TBFMM_BLOCK_SIZE
        body = []
        for gi, (bs, mode, auto, env) in enumerate(groupings):
            body.append("mark %d" % gi)
            body.append("build bs=%d mode=%d" % (bs, mode) + (" auto=1 threads=HW" if auto else "") + (" env=%d" % env if env is not None else ""))
            if r.random() < 0.3:
                body.append("rebuild")       # the grouping as TbfTree::rebuild() reproduces it (nothing moved)
            # "all executors": a third of the groupings are run by a task-based executor under its mock runtime
            ex = r.choice(["seq", "seq", "seq", "seq", "omp", "starpu", "specx"]) if gi > 0 else "seq"
            body.append("exec %s flags=63 upper=%d" % (ex, upper) + (" sched=%d seed=%d workers=%d" % (r.choice([0, 1, 2, 3]), r.randrange(1, 10 ** 6), r.choice([1, 2, 4, 8])) if ex != "seq" else ""))
            body.append("dump values")
        c = corefam.make_case("c08-%d" % k, D, H, periodic, parts, 1, 0, ["spec elems flags=63 upper=%d" % upper] + body,
                              {"kind": kind, "upper": upper, "groupings": groupings})
        cases.append(c)
    return cases


def segments(lines):
    segs, cur = {}, None
    for ln in lines:
        if ln.startswith("M "):
            cur = ln[2:].strip()
            segs[cur] = []
        elif cur is not None:
            segs[cur].append(ln)
    return segs


def evaluate(res):
    c = res.case
    corr, orc = [], []
    cs, ls = segments(res.cpp), segments(res.lean)
    se = core.spec_elems(res.lean)
    want_vals = sorted(C01.closed_form_values(c, se, c["meta"]["upper"])) if c["parts"] else []
    ref = None
    for gi, (bs, mode, auto, env) in enumerate(c["meta"]["groupings"]):
        seg = cs.get(str(gi))
        if seg is None:
            continue
        ce = core.elems_of_calls(seg)
        cv = sorted(core.section(seg, "V "))
        label = "bs=%s mode=%d%s" % ("auto" if auto else bs, mode, " TBFMM_BLOCK_SIZE=%d" % env if env is not None else "")
        if ref is None:
            ref = (label, ce, cv)
        elif ce != ref[1]:
            a, b, na, nb = core.multiset_diff(ce, ref[1])
            orc.append(("C08:elems", "grouping %s performs %r (%d) not performed with %s, and misses %r (%d)" % (label, a, na, ref[0], b, nb)))
        elif cv != ref[2]:
            orc.append(("C08:values", "grouping %s leaves different values than %s" % (label, ref[0])))
        if ce != se:
            a, b, na, nb = core.multiset_diff(ce, se)
            orc.append(("C08:elems-vs-spec", "grouping %s: %r (%d extra), %r (%d missing) w.r.t. the grouping-free specification" % (label, a, na, b, nb)))
        if cv != want_vals:
            orc.append(("C08:values-vs-spec", "grouping %s: values differ from the grouping-free closed forms" % label))
        lseg = ls.get(str(gi), [])
        if core.elems_of_calls(lseg) != ce:
            corr.append(("elems", "grouping %s: library and model disagree on the elementary interactions" % label))
        if sorted(core.section(lseg, "V ")) != cv:
            corr.append(("values", "grouping %s: library and model disagree on the values" % label))
        if auto:
            bl = [ln for ln in seg if ln.startswith("B ")]
            if bl != [ln for ln in lseg if ln.startswith("B ")]:
                corr.append(("auto-bs", "grouping %s: the library chose block size %r, the model of TbfBlockSizeFinder gives %r" % (label, bl, [ln for ln in lseg if ln.startswith("B ")])))
            if env is not None and bl and int(bl[0].split()[1]) != env:
                orc.append(("C08:env", "TBFMM_BLOCK_SIZE=%d ignored: block size %s" % (env, bl[0].split()[1])))
            if bl and int(bl[0].split()[1]) < 1:
                orc.append(("C08:auto", "automatic block size %s < 1" % bl[0].split()[1]))
        orc += [("C08:X", x) for x in core.section(seg, "X ")]
    return corr, orc


def run(rep, tier, seed, replay, proof_ok, proof_msg):
    corefam.standard_run(rep, tier, seed, replay, proof_ok, proof_msg, gen_cases, evaluate, omp=True, starpu=True)
    rep.assumptions += ["bs <= 0 (reachable through TBFMM_BLOCK_SIZE=0) is outside the property's quantifier and not exercised",
                        "automatic block size: modelled (autoBlockSize: distinct occupied leaves / (2 x hardware threads), at least 1; TBFMM_BLOCK_SIZE overrides); the number of hardware threads is read from the machine"]
