"""C01 — every ordered pair of distinct particles interacts exactly once (near or far field)."""
import core
import gen
from props import corefam

LEVEL = "proof"


def gen_cases(tier, seed, configs, n=None, tag="C01"):
    n = n or (600 if tier == "quick" else 8000)
    cases = []
    for k in range(n):
        r = gen.rng(seed, tag, k)
        D, H, periodic, kind, parts, bs, mode = corefam.random_tree_params(r, configs, max_n=64, big=(tier != "quick"))
        upper = r.choice([2, 2, 2, 1, 0, 3, H]) if not periodic else r.choice([1, 1, 1, 2, 3, 0])
        body = ["dump structure", "exec seq flags=63 upper=%d" % upper, "dump values",
                "spec elems flags=63 upper=%d" % upper]
        if k % 4 == 1:
            body = ["rebuild"] + body        # the same tree through TbfTree::rebuild() (its own copy of the grouping code), nothing moved
        cases.append(corefam.make_case("%s-%d" % (tag.lower(), k), D, H, periodic, parts, bs, mode, body, {"kind": kind, "upper": upper}))
    return cases


def exactly_once(case, lines):
    """rhs[q] counts every other particle exactly once and itself never (non-periodic, upper <= 2)"""
    n = len(case["parts"])
    want = [0] * 64
    for p in range(n):
        want[p % 64] += 1
    bad = []
    for ln in core.section(lines, "V R "):
        t = ln.split()
        q = int(t[2])
        v = int(t[3], 16)
        got = [(v >> (16 * s)) & 0xffff for s in range(64)]
        exp = list(want)
        exp[q % 64] -= 1
        if got != exp:
            slot = [s for s in range(64) if got[s] != exp[s]][0]
            bad.append(("C01:exactly-once", "particle %d accumulated %d contributions from slot %d instead of %d" % (q, got[slot], slot, exp[slot])))
            break
    return bad


def weight(p):
    return 1 << (16 * (p % 64))


def closed_form_values(case, se, upper):
    """C01's closed forms for a complete run, from the shape and the spec's elementary interactions:
    multipole = particles below; local = transfers into the cell and its ancestors down to `upper`;
    result = local of the leaf + every adjacent leaf (image) + the rest of the own leaf."""
    D, H = case["D"], case["H"]
    L = H - 1
    shape = core.shape_of_case(case)
    wleaf = {i: sum(weight(p) for p in ps) for i, ps in shape.items()}
    mult, cells = {}, {}
    for l in range(H):
        cs = sorted(set(i >> (D * (L - l)) for i in shape))
        cells[l] = cs
        for c in cs:
            mult[(l, c)] = sum(w for i, w in wleaf.items() if (i >> (D * (L - l))) == c) if (H > upper and l >= upper) else 0
    into = {}
    near = {i: 0 for i in shape}
    for e in se:
        t = e.split()
        if t[0] == "M2L":
            l, tg, sr = int(t[1]), int(t[2]), int(t[3])
            into[(l, tg)] = into.get((l, tg), 0) + mult[(l, sr)]
        elif t[0] == "P2P":
            sr, tg = int(t[1]), int(t[2])
            near[tg] += wleaf[sr]
            near[sr] += wleaf[tg]
    loc = {}
    for l in range(H):
        for c in cells[l]:
            v = into.get((l, c), 0) if l >= upper else 0
            if l - 1 >= upper and l >= 1:
                v += loc[(l - 1, c >> D)]
            loc[(l, c)] = v
    out = []
    for l in range(H):
        for c in cells[l]:
            out.append("V M %d %d %x" % (l, c, mult[(l, c)]))
            out.append("V L %d %d %x" % (l, c, loc[(l, c)]))
    for i, ps in shape.items():
        for p in ps:
            out.append("V R %d %x" % (p, (loc[(L, i)] if H > upper else 0) + near[i] + wleaf[i] - weight(p)))
    return out


def evaluate(res):
    c = res.case
    corr, orc = [], []
    ce, le, se = core.elems_of_calls(res.cpp), core.elems_of_calls(res.lean), core.spec_elems(res.lean)
    if ce != le:
        a, b, na, nb = core.multiset_diff(ce, le)
        corr.append(("elems", "elementary interactions differ: only in library %r (%d), only in model %r (%d)" % (a, na, b, nb)))
    if ce != se:
        a, b, na, nb = core.multiset_diff(ce, se)
        orc.append(("C01:elems-vs-spec", "library performs %r (%d extra) / misses %r (%d) w.r.t. the cell-level specification" % (a, na, b, nb)))
    cv, lv = core.section(res.cpp, "V "), core.section(res.lean, "V ")
    sv = closed_form_values(c, se, c["meta"].get("upper", 2)) if c["parts"] else []
    if sorted(cv) != sorted(lv):
        corr.append(("values", "values differ: %r" % ([(x, y) for x, y in zip(sorted(cv), sorted(lv)) if x != y][:2],)))
    if sorted(cv) != sorted(sv):
        d = [(x, y) for x, y in zip(sorted(cv), sorted(sv)) if x != y][:2]
        orc.append(("C01:values-vs-spec", "values differ from the closed forms (library, spec): %r" % (d,)))
    if not c["periodic"] and c["meta"].get("upper", 2) <= 2:
        orc += exactly_once(c, res.cpp)
    orc += [("C01:X", x) for x in core.section(res.cpp, "X ")]
    if core.section(res.cpp, "S ") != core.section(res.lean, "S "):
        corr.append(("structure", "structure dumps differ"))
    return corr, orc


def float_family(rep, tier, seed, replay=None):
    """arbitrary boxes and positions (incl. faces and corners of the box, 1-ulp neighbours of cell faces, coincident
    particles) through the float path, counting kernel: every particle must end with N-1 (3^D N - 1 when periodic)"""
    import ftree
    binaries, bad = ftree.build_all()
    cfgs = [c for c in sorted(binaries) if c[4] > 0]
    if not cfgs:
        return
    cases = []
    if replay:
        cases = [ftree.parse_replay(replay)]
    else:
        for k in range(120 if tier == "quick" else 12000):
            r = gen.rng(seed, "C01f", k)
            cases.append(ftree.make_case("c01f-%d" % k, cfgs[k % len(cfgs)], r, tier, False, False))
    for res in ftree.run_cases(cases, binaries):
        c = res.case
        text = "# cfg=%r\n" % (c["cfg"],) + "\n".join(c["lines"]) + "\n"
        if res.crash is not None:
            rep.violation("crash:" + corefam.crash_signature(res.crash), "# " + res.crash.replace("\n", "\n# ") + "\n" + text, True,
                          "the real library aborted on float-stream case %s: %s" % (c["name"], corefam.crash_signature(res.crash)))
            continue
        if res.cpp is None or res.lean is None:
            continue
        D, periodic = c["cfg"][0], c["cfg"][5]
        n = len(c["meta"]["particles"])
        want = (3 ** D if periodic else 1) * n - 1
        seg = ftree.segments(res.cpp).get("exec1", [])
        lseg = ftree.segments(res.lean).get("exec1", [])
        bad_p = [ln for ln in seg if ln.startswith("R ") and int(ln.split()[2]) != want]
        if bad_p:
            rep.violation("C01:exactly-once-float", "# counting kernel: particle line '%s', expected %d\n%s" % (bad_p[0], want, text), True,
                          "float-stream case %s (cfg %r): particle %s accumulated %s contributions instead of %d" % (c["name"], c["cfg"], bad_p[0].split()[1], bad_p[0].split()[2], want))
        elif [ln for ln in seg if ln.startswith("R ")] != [ln for ln in lseg if ln.startswith("R ")]:
            rep.violation("corr:float-rhs", "# library and model disagree on the counting-kernel results\n" + text, False, "float-stream case %s: library and model disagree" % c["name"])
        rep.cov["evaluations"] = rep.cov.get("evaluations", 0) + 1
    rep.cov["float_stream_cases"] = len(cases)


def run(rep, tier, seed, replay, proof_ok, proof_msg):
    if replay and any(ln.startswith("ftree ") for ln in open(replay)):
        float_family(rep, tier, seed, replay)
        return
    corefam.standard_run(rep, tier, seed, replay, proof_ok, proof_msg, gen_cases, evaluate)
    if not replay:
        float_family(rep, tier, seed)
    rep.assumptions += ["positions are exact cell centres (float path tied in C06)", "sequential executor (others: C03, C09, C10)",
                        "Hilbert ordering excluded (known finding F-H)"]
