"""C13 — rebuild re-bins moved particles and preserves identity, data and results."""
import core
import ftree

LEVEL = "proof"

KEEP = ("LF", "P ", "S ", "R ", "Z ")


def rhs_of(seg):
    return {int(ln.split()[1]): [int(x) for x in ln.split()[2:]] for ln in seg if ln.startswith("R ")}


def evaluate(res):
    c = res.case
    D, real, data, nextra, nrhs, periodic = c["cfg"]
    m = c["meta"]
    n = len(m["particles"])
    corr, orc = [], []
    cs, ls = ftree.segments(res.cpp), ftree.segments(res.lean)
    cur = [[ftree.to_data_bits(ftree.bits(v, real), real, data) for v in p] for p in m["particles"]]
    prev_rhs = rhs_of(cs.get("exec1", [])) if nrhs > 0 else {}
    for cyc in range(len(m["moves"])):
        key = "rebuilt%d" % cyc
        if key not in cs:
            break
        for i, np_ in m["moves"][cyc]:
            cur[i][:D] = [ftree.bits(v, data) for v in np_]
        seg = cs[key]
        a = [ln for ln in seg if ln[:2] in KEEP]
        b = [ln for ln in ls.get(key, []) if ln[:2] in KEEP]
        if a != b:
            corr.append(("rebuild", "%s: dumps differ (library, model): %r" % (key, [(x, y) for x, y in zip(a, b) if x != y][:2] or (len(a), len(b)))))
        leaves, parts = ftree.parse_leaves(seg, D)
        seen = sorted(p for _, _, _, ps in leaves for p in ps)
        if seen != list(range(n)):
            orc.append(("C13:identity", "%s: stored particle indices are not 0..%d once each: %r" % (key, n - 1, seen[:10])))
        for gi, idx, coord, ps in leaves:
            for p in ps:
                if p not in parts:
                    continue
                if parts[p][1] != cur[p]:
                    orc.append(("C13:data", "%s: particle %d holds data %r after rebuild, expected %r" % (key, p, ["%x" % x for x in parts[p][1]], ["%x" % x for x in cur[p]])))
                elif not ftree.contains(c, coord, [ftree.unbits(x, data) for x in cur[p][:D]]):
                    orc.append(("C13:leaf", "%s: particle %d sits in leaf %d (box %r) which does not contain its position" % (key, p, idx, coord)))
        z = [ln for ln in seg if ln.startswith("Z ")]
        if z and int(z[0].split()[1]) != 0:
            orc.append(("C13:expansions", "%s: %s cell expansions are non-zero after rebuild" % (key, z[0].split()[1])))
        if nrhs > 0:
            now = rhs_of(seg)
            if prev_rhs and now != prev_rhs:
                bad = [p for p in now if now[p] != prev_rhs.get(p)][:3]
                orc.append(("C13:results", "%s: accumulated results changed across rebuild for particles %r (%r -> %r)" % (key, bad, [prev_rhs.get(p) for p in bad], [now[p] for p in bad])))
            after = rhs_of(cs.get("reexec%d" % cyc, []))
            fresh = cs.get("fresh%d" % cyc)
            if fresh is not None and after:
                fr = rhs_of(fresh)
                delta = {p: [x - y for x, y in zip(after[p], now.get(p, after[p]))] for p in after}
                if fr and delta != fr:
                    bad = [p for p in delta if delta[p] != fr.get(p)][:3]
                    orc.append(("C13:one-more", "%s: the execution after rebuild added %r to particles %r; one full interaction on a fresh tree of the edited particles adds %r" %
                                (key, [delta[p] for p in bad], bad, [fr.get(p) for p in bad])))
            prev_rhs = after or now
        fresh = cs.get("fresh%d" % cyc)
        if fresh is not None:
            fl, fp = ftree.parse_leaves(fresh, D)
            if [(x[1], x[2], x[3]) for x in fl] != [(x[1], x[2], x[3]) for x in leaves] or core.section(fresh, "S G ") != core.section(seg, "S G "):
                orc.append(("C13:fresh", "%s: the rebuilt tree differs in structure from a tree freshly built from the edited particles" % key))
    orc += [("C13:X", x) for x in core.section(res.cpp, "X ")]
    return corr, orc


def run(rep, tier, seed, replay, proof_ok, proof_msg):
    ftree.standard(rep, tier, seed, replay, proof_ok, proof_msg, "C13", 300, 30000, True, evaluate, export=False)
    rep.assumptions += ["in-place edits keep the particle inside the box as the library's own assertion requires",
                        "equivalence with a freshly built tree is compared for the first cycle of configurations whose data type equals the coordinate type",
                        "target/source trees: see C09"]
