"""C13 — rebuild re-bins moved particles and preserves identity, data and results."""
import core
import ftree

LEVEL = "proof"

KEEP = ("LF", "P ", "S ", "R ", "Z ")


def rhs_of(seg):
    return {int(ln.split()[1]): [int(x) for x in ln.split()[2:]] for ln in seg if ln.startswith("R ")}


def evaluate(res):
    c = res.case
    D, real, data, nextra, nrhs, periodic = c["cfg"]
    m = c["meta"]
    n = len(m["particles"])
    corr, orc = [], []
    cs, ls = ftree.segments(res.cpp), ftree.segments(res.lean)
    cur = [[ftree.to_data_bits(ftree.bits(v, real), real, data) for v in p] for p in m["particles"]]
    prev_rhs = rhs_of(cs.get("exec1", [])) if nrhs > 0 else {}
    for cyc in range(len(m["moves"])):
        key = "rebuilt%d" % cyc
        if key not in cs:
            break
        for i, np_ in m["moves"][cyc]:
            cur[i][:D] = [ftree.bits(v, data) for v in np_]
        seg = cs[key]
        a = [ln for ln in seg if ln[:2] in KEEP]
        b = [ln for ln in ls.get(key, []) if ln[:2] in KEEP]
        if a != b:
            corr.append(("rebuild", "%s: dumps differ (library, model): %r" % (key, [(x, y) for x, y in zip(a, b) if x != y][:2] or (len(a), len(b)))))
        leaves, parts = ftree.parse_leaves(seg, D)
        seen = sorted(p for _, _, _, ps in leaves for p in ps)
        if seen != list(range(n)):
            orc.append(("C13:identity", "%s: stored particle indices are not 0..%d once each: %r" % (key, n - 1, seen[:10])))
        for gi, idx, coord, ps in leaves:
            for p in ps:
                if p not in parts:
                    continue
                if parts[p][1] != cur[p]:
                    orc.append(("C13:data", "%s: particle %d holds data %r after rebuild, expected %r" % (key, p, ["%x" % x for x in parts[p][1]], ["%x" % x for x in cur[p]])))
                elif not ftree.contains(c, coord, [ftree.unbits(x, data) for x in cur[p][:D]]):
                    orc.append(("C13:leaf", "%s: particle %d sits in leaf %d (box %r) which does not contain its position" % (key, p, idx, coord)))
        z = [ln for ln in seg if ln.startswith("Z ")]
        if z and int(z[0].split()[1]) != 0:
            orc.append(("C13:expansions", "%s: %s cell expansions are non-zero after rebuild" % (key, z[0].split()[1])))
        if nrhs > 0:
            now = rhs_of(seg)
            if prev_rhs and now != prev_rhs:
                bad = [p for p in now if now[p] != prev_rhs.get(p)][:3]
                orc.append(("C13:results", "%s: accumulated results changed across rebuild for particles %r (%r -> %r)" % (key, bad, [prev_rhs.get(p) for p in bad], [now[p] for p in bad])))
            after = rhs_of(cs.get("reexec%d" % cyc, []))
            fresh = cs.get("fresh%d" % cyc)
            if fresh is not None and after:
                fr = rhs_of(fresh)
                delta = {p: [x - y for x, y in zip(after[p], now.get(p, after[p]))] for p in after}
                if fr and delta != fr:
                    bad = [p for p in delta if delta[p] != fr.get(p)][:3]
                    orc.append(("C13:one-more", "%s: the execution after rebuild added %r to particles %r; one full interaction on a fresh tree of the edited particles adds %r" %
                                (key, [delta[p] for p in bad], bad, [fr.get(p) for p in bad])))
            prev_rhs = after or now
        fresh = cs.get("fresh%d" % cyc)
        if fresh is not None:
            fl, fp = ftree.parse_leaves(fresh, D)
            if [(x[1], x[2], x[3]) for x in fl] != [(x[1], x[2], x[3]) for x in leaves] or core.section(fresh, "S G ") != core.section(seg, "S G "):
                orc.append(("C13:fresh", "%s: the rebuilt tree differs in structure from a tree freshly built from the edited particles" % key))
    orc += [("C13:X", x) for x in core.section(res.cpp, "X ")]
    return corr, orc


def tsm_history(res, tag="C13"):
    """the move / rebuild / execute / export history of a target/source tree over the same particles (segments tsm0, tsm1)"""
    c = res.case
    D, real, data, nextra, nrhs, periodic = c["cfg"]
    m = c["meta"]
    n = len(m["particles"])
    corr, orc = [], []
    if nrhs == 0 or "tsm_moves" not in m:
        return corr, orc
    cs, ls = ftree.segments(res.cpp), ftree.segments(res.lean)
    if "tsm0" not in cs:
        return corr, orc
    cur = {side: [[ftree.to_data_bits(ftree.bits(v, real), real, data) for v in p] for p in m.get("tsm_input", m["particles"])] for side in "st"}
    prev_rhs = None
    for key in ("tsm0", "tsm1"):
        seg = cs.get(key)
        if seg is None:
            break
        if key == "tsm1":
            for side in "st":
                for i, np_ in m["tsm_moves"][side]:
                    cur[side][i][:D] = [ftree.bits(v, data) for v in np_]
        pre = ("sL", "sP", "tL", "tP", "tR", "XD", "XR", "EX")
        a = [ln for ln in seg if ln[:2] in pre]
        b = [ln for ln in ls.get(key, []) if ln[:2] in pre]
        if a != b:
            corr.append(("tsm-history", "%s: target/source dumps differ (library, model): %r" % (key, [(x, y) for x, y in zip(a, b) if x != y][:2] or (len(a), len(b)))))
        # dump (first block of the segment, before EX): what each side stores
        before_ex = seg[:seg.index("EX")] if "EX" in seg else seg
        for side, what in (("s", "source"), ("t", "target")):
            sl = [ln[1:] for ln in before_ex if ln.startswith(side + "LF ") or ln.startswith(side + "P ")]
            leaves, parts = ftree.parse_leaves(sl, D)
            seen = sorted(p for _, _, _, ps in leaves for p in ps)
            if seen != list(range(n)):
                orc.append(("%s:tsm-identity" % tag, "%s, %s side: stored particle indices are not 0..%d once each: %r" % (key, what, n - 1, seen[:10])))
            for gi, idx, coord, ps in leaves:
                for p in ps:
                    if p not in parts:
                        continue
                    if parts[p][1] != cur[side][p]:
                        orc.append(("%s:tsm-data" % tag, "%s, %s side: particle %d holds data %r, expected %r" % (key, what, p, ["%x" % x for x in parts[p][1]], ["%x" % x for x in cur[side][p]])))
                    elif parts[p][0] != idx:
                        orc.append(("%s:tsm-leaf" % tag, "%s, %s side: particle %d listed in leaf %d but stored under %d" % (key, what, p, idx, parts[p][0])))
                    elif not ftree.contains(c, coord, [ftree.unbits(x, data) for x in cur[side][p][:D]]):
                        orc.append(("%s:tsm-leaf" % tag, "%s, %s side: particle %d sits in leaf %d (box %r) which does not contain its position" % (key, what, p, idx, coord)))
        rhs_before = {int(ln.split()[1]): [int(x) for x in ln.split()[2:]] for ln in before_ex if ln.startswith("tR ")}
        if prev_rhs is not None and rhs_before != prev_rhs:
            bad = [p for p in rhs_before if rhs_before[p] != prev_rhs.get(p)][:3]
            orc.append(("%s:tsm-results" % tag, "%s: the targets' accumulated results changed across rebuild for particles %r" % (key, bad)))
        # exports after the execution
        xds = {int(ln.split()[1]): [int(x, 16) for x in ln.split()[3:]] for ln in seg if ln.startswith("XDs ")}
        xdt = {int(ln.split()[1]): [int(x, 16) for x in ln.split()[3:]] for ln in seg if ln.startswith("XDt ")}
        xrt = {int(ln.split()[1]): [int(x) for x in ln.split()[2:]] for ln in seg if ln.startswith("XRt ")}
        for side, xd, what in (("s", xds, "source"), ("t", xdt, "target")):
            if xd and (sorted(xd) != list(range(n)) or any(xd[i] != cur[side][i] for i in range(n))):
                bad = [i for i in range(n) if xd.get(i) != cur[side][i]][:3]
                orc.append(("%s:tsm-export-data" % tag, "%s: bulk export of the %s particles: entries %r do not hold the data of the particles inserted at those positions" % (key, what, bad)))
        if xrt:
            want = {p: list(rhs_before.get(p, [])) for p in range(n)}
            if True:
                for p in want:
                    if want[p]:
                        want[p][0] += (3 ** D if periodic else 1) * n        # one execution: every target receives every source (image in [-1,1]^D) once
                if xrt != want:
                    bad = [p for p in range(n) if xrt.get(p) != want.get(p)][:3]
                    orc.append(("%s:tsm-export-results" % tag, "%s: bulk export of the targets' results: entries %r are %r, expected %r (previous results + %d source contributions)" %
                                (key, bad, [xrt.get(p) for p in bad], [want.get(p) for p in bad], (3 ** D if periodic else 1) * n)))
            prev_rhs = xrt
    return corr, orc


def evaluate_all(res):
    corr, orc = evaluate(res)
    c2, o2 = tsm_history(res, "C13")
    return corr + c2, orc + o2


def run(rep, tier, seed, replay, proof_ok, proof_msg):
    ftree.standard(rep, tier, seed, replay, proof_ok, proof_msg, "C13", 300, 30000, True, evaluate_all, export=False)
    rep.assumptions += ["in-place edits keep the particle inside the box as the library's own assertion requires",
                        "equivalence with a freshly built tree is compared for the first cycle of configurations whose data type equals the coordinate type",
                        "target/source trees: the same history (moves on each side, rebuild, execution, bulk export) on a TbfTreeTsm over the same particle set on both sides"]
