"""C02 — every operator call receives geometrically consistent arguments."""
import collections

import core
import gen
from props import corefam

LEVEL = "proof"


def dec7(D, code):
    v = []
    for _ in range(D):
        v.append(code % 7 - 3)
        code //= 7
    return v[::-1]


def dec3(D, code):
    v = []
    for _ in range(D):
        v.append(code % 3 - 1)
        code //= 3
    return v[::-1]


def call_predicates(case, lines, tsm_src_shape=None):
    """the per-call clauses of C02 evaluated on the calls the real library made"""
    D, H, periodic = case["D"], case["H"], case["periodic"]
    L = H - 1
    shape = core.shape_of_case(case)
    bad = []

    def err(sig, msg):
        bad.append(("C02:" + sig, msg))
    for ln in lines:
        if not ln.startswith("C "):
            continue
        t = ln.split()
        op = t[1]
        if op in ("P2M", "L2P"):
            leaf, n = int(t[2]), int(t[3])
            ps = [int(x) for x in t[4:]]
            if n != len(ps) or sorted(shape.get(leaf, [])) != ps:
                err("leaf-particles", "%s on leaf %d received particles %r, stored there: %r" % (op, leaf, ps[:8], sorted(shape.get(leaf, []))[:8]))
        elif op in ("M2M", "L2L"):
            lvl, par, n = int(t[2]), int(t[3]), int(t[4])
            ch = [tuple(int(x) for x in sc.split(":")) for sc in t[5:]]
            if n == 0 or n != len(ch):
                err("empty", "%s called with an empty / inconsistent child list at level %d" % (op, lvl))
            if len(set(c for c, _ in ch)) != len(ch):
                err("children-distinct", "%s at level %d parent %d received a child twice" % (op, lvl, par))
            if not (0 <= lvl <= H - 2) or par >= (1 << (D * lvl)):
                err("level", "%s parent %d is not a cell of the stated level %d" % (op, par, lvl))
            pc = gen.decode(D, lvl, par)
            for c, code in ch:
                cc = gen.decode(D, lvl + 1, c)
                bits = [(code >> (D - 1 - d)) & 1 for d in range(D)]
                if (c >> D) != par or code != (c & ((1 << D) - 1)) or any(cc[d] != 2 * pc[d] + bits[d] for d in range(D)):
                    err("child-code", "%s level %d parent %d: child %d with position code %d is not that child of the parent" % (op, lvl, par, c, code))
        elif op == "M2L":
            lvl, tg, n = int(t[2]), int(t[3]), int(t[4])
            ss = [tuple(int(x) for x in sc.split(":")) for sc in t[5:]]
            if n == 0 or n != len(ss):
                err("empty", "M2L called with an empty / inconsistent source list at level %d" % lvl)
            lim = 1 << lvl
            tp = gen.decode(D, lvl, tg)
            if tg >= (1 << (D * lvl)):
                err("level", "M2L target %d is not a cell of level %d" % (tg, lvl))
            for s, code in ss:
                off = dec7(D, code)
                sp = gen.decode(D, lvl, s)
                want = [tp[d] + off[d] for d in range(D)]
                wrapped = [w % lim for w in want] if periodic else want
                sep = max(abs(o) for o in off) >= 2 and all(abs(o) <= 3 for o in off)
                parents_adj = all(abs((want[d] // 2) - (tp[d] // 2)) <= 1 for d in range(D))
                if wrapped != sp or s >= (1 << (D * lvl)):
                    err("m2l-offset", "M2L level %d target %d: source %d is not at the offset %r its position code %d encodes" % (lvl, tg, s, off, code))
                elif not sep or not parents_adj:
                    err("m2l-separation", "M2L level %d target %d source %d offset %r: not a well-separated child of a neighbour of the parent" % (lvl, tg, s, off))
        elif op in ("P2P", "P2PT"):
            s, tg, code = int(t[2]), int(t[3]), int(t[4])
            off = dec3(D, code)
            lim = 1 << L
            tp, sp = gen.decode(D, L, tg), gen.decode(D, L, s)
            want = [tp[d] + off[d] for d in range(D)]
            wrapped = [w % lim for w in want] if periodic else want
            if wrapped != sp:
                err("p2p-offset", "%s target %d: source %d is not at the offset %r its position code %d encodes" % (op, tg, s, off, code))
            if op == "P2P" and all(o == 0 for o in off):
                err("p2p-self", "P2P between a leaf and itself (offset 0)")
    return bad


def gen_cases(tier, seed, configs):
    n = 500 if tier == "quick" else 6000
    cases = []
    for k in range(n):
        r = gen.rng(seed, "C02", k)
        D, H, periodic, kind, parts, bs, mode = corefam.random_tree_params(r, configs, max_n=64, big=(tier != "quick"))
        upper = r.choice([2, 1, 0]) if not periodic else r.choice([1, 0, 2])
        body = ["exec seq flags=63 upper=%d" % upper]
        if k % 3 != 0:
            # leaf clause: particles on the faces of their cell, one ulp inside them, on the upper faces of the box
            offs = [r.choice([0, 1, 1, 2, 3, 4, 4]) for _ in range(len(parts) * D)]
            body = ["offs %d %s" % (len(parts), " ".join(str(o) for o in offs)), "build bs=%d mode=%d" % (bs, mode)] + body
        cases.append(corefam.make_case("c02-%d" % k, D, H, periodic, parts, bs, mode, body, {"kind": kind, "upper": upper}))
    return cases


def evaluate(res):
    corr = []
    ce, le = core.elems_of_calls(res.cpp), core.elems_of_calls(res.lean)
    if ce != le:
        a, b, na, nb = core.multiset_diff(ce, le)
        corr.append(("elems", "elementary interactions (with codes) differ: only in library %r (%d), only in model %r (%d)" % (a, na, b, nb)))
    orc = call_predicates(res.case, res.cpp) + [("C02:X", x) for x in core.section(res.cpp, "X ")]
    return corr, orc


def _tsm_predicates(c, lines):
    """per-call clauses for the target/source executors: P2M sees the source particles, L2P the target particles"""
    cS, cT = dict(c, parts=c["src"]), dict(c, parts=c["tgt"])
    p2m = [ln for ln in lines if ln.startswith("C P2M ")]
    rest = [ln for ln in lines if ln.startswith("C ") and not ln.startswith("C P2M ")]
    return call_predicates(cS, p2m) + call_predicates(cT, rest)


def _family_cases(tier, seed):
    import tsm
    n = 70 if tier == "quick" else 900
    omp_cases, tsm_cases = [], []
    for k in range(n):
        r = gen.rng(seed, "C02omp", k)
        D, H, periodic, kind, parts, bs, mode = corefam.random_tree_params(r, corefam.ALL_CONFIGS, max_n=48, big=(tier != "quick"))
        upper = r.choice([2, 1, 0]) if not periodic else r.choice([1, 0, 2])
        body = ["exec omp flags=63 upper=%d sched=%d seed=%d workers=%d" % (upper, r.choice([0, 1, 2, 2, 3]), r.randrange(1, 10 ** 6), r.choice([1, 2, 4, 16]))]
        omp_cases.append(corefam.make_case("c02o-%d" % k, D, H, periodic, parts, bs, mode, body, {"kind": kind, "upper": upper, "family": "omp"}))
    for k in range(n):
        r = gen.rng(seed, "C02tsm", k)
        D, periodic = r.choice(corefam.ALL_CONFIGS)
        H = gen.pick_height(r, D, big=(tier != "quick"))
        if periodic and H < 2:
            H = 2
        kind, src, tgt = tsm.gen_sets(r, D, H)
        bs = gen.pick_bs(r, max(len(set(src)), len(set(tgt))))
        mode = r.randrange(2)
        upper = r.choice([2, 2, 1, 0, 3]) if not periodic else r.choice([1, 1, 0, 2])
        body = ["mark seq", "exec tsm flags=63 upper=%d" % upper, "mark s0", "buildtsm bs=%d mode=%d" % (bs, mode),
                "exec omptsm flags=63 upper=%d sched=%d seed=%d workers=%d" % (upper, r.choice([0, 1, 2, 2, 3]), r.randrange(1, 10 ** 6), r.choice([1, 2, 4, 16]))]
        tsm_cases.append(tsm.make_case("c02t-%d" % k, D, H, periodic, src, tgt, bs, mode, body, {"kind": kind, "upper": upper, "family": "tsm"}))
    return omp_cases, tsm_cases


def other_executors(rep, tier, seed, replay=None):
    """C02 quantifies over all shipped executors: the same per-call clauses (and the recording kernel's own consistency
    lines) on the OpenMP executor, on the sequential and OpenMP target/source executors, and on the periodic top tree"""
    import tsm
    from props import C10
    fam = collections.Counter()
    if replay:
        text = open(replay).read()
        omp_cases, tsm_cases, top = [], [], False
        if "partsS" in text and "exec periodic" not in text:
            c = tsm.parse_replay(replay)
            c["meta"]["family"] = "tsm"
            tsm_cases = [c]
        elif "exec periodic" in text:
            top = True
        else:
            c = corefam.parse_replay(replay)
            c["meta"] = dict(c.get("meta") or {}, family="omp")
            omp_cases = [c]
    else:
        omp_cases, tsm_cases = _family_cases(tier, seed)
        top = True
    jobs = []
    if omp_cases:
        b, _ = core.build_harnesses(corefam.ALL_CONFIGS, omp=True)
        jobs.append((omp_cases, b, lambda c, lines: call_predicates(c, lines)))
    if tsm_cases:
        b, _ = tsm.build(corefam.ALL_CONFIGS)
        jobs.append((tsm_cases, b, _tsm_predicates))
    for cases, binaries, pred in jobs:
        for res in core.run_cases(cases, binaries):
            c = res.case
            text = "\n".join(c["lines"]) + "\n"
            fam[c["meta"].get("family", "?")] += 1
            if res.crash is not None:
                rep.violation("crash:" + corefam.crash_signature(res.crash), "# " + res.crash.replace("\n", "\n# ") + "\n" + text, True,
                              "the real library aborted on case %s: %s" % (c["name"], corefam.crash_signature(res.crash)))
                continue
            if res.cpp is None:
                continue
            orc = pred(c, res.cpp) + [("C02:X", x) for x in core.section(res.cpp, "X ")]
            for sig, msg in orc[:4]:
                rep.violation(sig, "# property oracle failed on the implementation's output (%s executor): %s\n%s" % (c["meta"].get("family"), msg, text), True,
                              "case %s (%s executor): %s" % (c["name"], c["meta"].get("family"), msg))
    if top:
        configs = [(1, 1), (2, 1), (3, 1), (4, 1)]
        binaries, _ = core.build_harnesses(configs, omp=True, wide=True)
        if binaries:
            if replay:
                c = corefam.parse_replay(replay)
                ex = [ln for ln in c["lines"] if ln.startswith("exec periodic")][0].split()
                c["meta"] = {"n": int([t for t in ex if t.startswith("n=")][0][2:]), "omp": "omp=1" in ex, "kind": "replay"}
                cases = [c]
            else:
                cases = C10.gen_cases(tier, seed, sorted(binaries))[: (40 if tier == "quick" else 400)]
            for res in core.run_cases(cases, binaries, chunk=8):
                c = res.case
                text = "\n".join(c["lines"]) + "\n"
                fam["toptree"] += 1
                if res.crash is not None:
                    rep.violation("crash:" + corefam.crash_signature(res.crash), "# " + res.crash.replace("\n", "\n# ") + "\n" + text, True,
                                  "the real library aborted on case %s: %s" % (c["name"], corefam.crash_signature(res.crash)))
                    continue
                if res.cpp is None or res.lean is None:
                    continue
                _, orc = C10.evaluate(res)
                for sig, msg in orc[:4]:
                    rep.violation("C02:toptree:" + sig, "# per-call clause failed on the periodic top tree's calls: %s\n%s" % (msg, text), True,
                                  "case %s (periodic top tree): %s" % (c["name"], msg))
    rep.cov["other_executor_cases"] = dict(fam)
    rep.cov["evaluations"] = rep.cov.get("evaluations", 0) + sum(fam.values())


def run(rep, tier, seed, replay, proof_ok, proof_msg):
    if replay:
        text = open(replay).read()
        if "partsS" in text or "exec omp" in text or "exec periodic" in text:
            other_executors(rep, tier, seed, replay)
            return
    corefam.standard_run(rep, tier, seed, replay, proof_ok, proof_msg, gen_cases, evaluate)
    if not replay:
        other_executors(rep, tier, seed)
    rep.assumptions += ["sequential, OpenMP (mock runtime), target/source (sequential and OpenMP) and periodic-top-tree executors; Specx / StarPU executors are not run",
                        "Hilbert ordering excluded (known finding F-H)"]
