"""C20 — direct particle-particle routines implement the pairwise law, symmetrically."""
import collections
import math
from decimal import Decimal, getcontext
from fractions import Fraction

import common
import ftree
import gen
from props import corefam

LEVEL = "proof"
getcontext().prec = 60


def gen_points(r, n, real, kind):
    pts = []
    scale = r.choice([1.0, 1e-6, 1e6, 1e-3, 1e3])
    base = [r.uniform(-1, 1) * scale * r.choice([0, 1, 10]) for _ in range(3)]
    for i in range(n):
        if kind == "cluster":
            p = [base[d] + r.uniform(-1, 1) * scale for d in range(3)]
        elif kind == "wide":
            p = [r.uniform(-1, 1) * 10 ** r.uniform(-6, 6) for d in range(3)]
        else:
            p = [base[d] + (i + 1) * scale * (1 if d == i % 3 else 0.25) for d in range(3)]
        q = r.choice([-1, 1]) * r.uniform(0.1, 3)
        if r.random() < 0.2:
            q = r.choice([0.0, 0.0, -0.0, 1.0, -1.0, 0.5, 2.0 ** -20])      # neutral particles, unit charges, tiny charges
        pts.append([ftree.rnd(v, real) for v in p] + [ftree.rnd(q, real)])
    return pts


def separate(src, tgt):
    """the routines divide by r^2: coincident source/target points are outside the property (no self term is ever passed)"""
    seen = set()
    out_s, out_t = [], []
    for p in src:
        if tuple(p[:3]) not in seen:
            seen.add(tuple(p[:3]))
            out_s.append(p)
    for p in tgt:
        if tuple(p[:3]) not in seen:
            seen.add(tuple(p[:3]))
            out_t.append(p)
    return out_s, out_t


def gen_cases(tier, seed):
    n = 260 if tier == "quick" else 4000
    cases = []
    counts = [0, 1, 2, 3, 4, 5, 7, 8, 9, 15, 16, 17, 31, 32, 33, 63, 64, 65, 100, 250, 500]
    for k in range(n):
        r = gen.rng(seed, "C20", k)
        real = r.choice(["double", "float"])
        routine = r.choice(["mutual", "remote", "inner"])
        big = r.random() < 0.06
        ns = r.choice(counts if big else counts[:18])
        nt = r.choice(counts if big else counts[:18])
        if routine == "inner":
            ns = 0
        kind = r.choice(["cluster", "wide", "line"])
        src, tgt = separate(gen_points(r, ns, real, kind), gen_points(r, nt, real, kind))
        ns, nt = len(src), len(tgt)
        init_zero = r.random() < 0.6
        init = lambda: [0.0] * 4 if init_zero else [ftree.rnd(r.uniform(-5, 5), real) for _ in range(4)]
        parts = [p + init() for p in src + tgt]
        hx = lambda v: "%x" % ftree.bits(v, real)
        line = "p2p %s %d %d %d %s" % (routine, 64 if real == "double" else 32, ns, nt, " ".join(hx(v) for p in parts for v in p))
        lines = ["case c20-%d" % k, line]
        # the two one-sided calls that the mutual routine must be equivalent to
        if routine == "mutual":
            lines.append("p2p remote %d %d %d %s" % (64 if real == "double" else 32, ns, nt, " ".join(hx(v) for p in parts for v in p)))
            swapped = parts[ns:] + parts[:ns]
            lines.append("p2p remote %d %d %d %s" % (64 if real == "double" else 32, nt, ns, " ".join(hx(v) for p in swapped for v in p)))
        lines.append("end")
        cases.append({"name": "c20-%d" % k, "lines": lines, "real": real, "routine": routine, "ns": ns, "nt": nt, "parts": parts, "kind": kind})
    return cases


def reference(case):
    """cached per case (computed once, inside the parallel worker)"""
    if "_ref" not in case:
        case["_ref"] = _reference(case)
    return case["_ref"]


def _reference(case):
    """independent evaluation in 60-digit decimal arithmetic of what each particle must have gained:
    potential  sum_j q_j / r_ij,  force  sum_j q_i q_j (x_j - x_i) / r_ij^3   (returns values and the sum of |terms|)"""
    ns, nt, parts, routine = case["ns"], case["nt"], case["parts"], case["routine"]
    D = [[Decimal(v) for v in p[:4]] for p in parts]
    n = ns + nt
    gain = [[Decimal(0)] * 4 for _ in range(n)]
    mag = [[Decimal(0)] * 4 for _ in range(n)]

    def add(i, j):   # particle i receives from particle j
        dx = [D[j][d] - D[i][d] for d in range(3)]
        r2 = dx[0] * dx[0] + dx[1] * dx[1] + dx[2] * dx[2]
        inv = 1 / r2.sqrt()
        inv3 = inv / r2
        for d in range(3):
            t = D[i][3] * D[j][3] * dx[d] * inv3
            gain[i][d] += t
            mag[i][d] += abs(t)
        gain[i][3] += D[j][3] * inv
        mag[i][3] += abs(D[j][3] * inv)
    if routine == "inner":
        for i in range(n):
            for j in range(n):
                if i != j:
                    add(i, j)
    else:
        for t in range(ns, n):
            for s in range(ns):
                add(t, s)
                if routine == "mutual":
                    add(s, t)
    return gain, mag


def check_against_reference(case, out_line, nterms_hint):
    real = case["real"]
    eps = Decimal(2) ** (-52 if real == "double" else -23)
    vals = [ftree.unbits(int(x, 16), real) for x in out_line.split()[1:]]
    n = case["ns"] + case["nt"]
    gain, mag = reference(case)
    bad = []
    for i in range(n):
        for k in range(4):
            got = vals[4 * i + k]
            if math.isnan(got) or math.isinf(got):
                bad.append(("C20:finite", "particle %d value %d is %r" % (i, k, got)))
                continue
            init = Decimal(case["parts"][i][4 + k])
            want = init + gain[i][k]
            tol = (nterms_hint + 24) * eps * (mag[i][k] + abs(init)) + Decimal(10) ** -300
            if abs(Decimal(got) - want) > tol:
                bad.append(("C20:law", "%s %s: particle %d component %d is %r, the pairwise law gives %s (tolerance %.3g)" % (case["routine"], real, i, k, got, str(want)[:24], tol)))
    return bad[:3]


def run(rep, tier, seed, replay, proof_ok, proof_msg):
    res = common.build_many([{"name": "h_p2p", "sources": ["h_p2p.cpp"], "flags": []}])
    path, log = res["h_p2p"]
    n_eval, distinct, hist, samples, corr_broken, oracle_found = 0, set(), collections.Counter(), [], [], False
    if not path:
        rep.violation("harness-does-not-compile", log[-4000:], False, "harness/h_p2p.cpp does not compile against /repo/src")
    else:
        if replay:
            lines = [ln.rstrip("\n") for ln in open(replay) if ln.strip() and not ln.startswith("#")]
            t = lines[1].split()
            real = "double" if t[2] == "64" else "float"
            ns, nt = int(t[3]), int(t[4])
            vals = [ftree.unbits(int(x, 16), real) for x in t[5:]]
            cases = [{"name": lines[0][5:].strip(), "lines": lines, "real": real, "routine": t[1], "ns": ns, "nt": nt,
                      "parts": [vals[8 * i:8 * i + 8] for i in range(ns + nt)], "kind": "replay"}]
        else:
            cases = gen_cases(tier, seed)

        def chunk_run(cs):
            text = "\n".join("\n".join(c["lines"]) for c in cs) + "\n"
            rc, out, err = common.run_harness(path, text)
            rcl, outl, errl = common.run_driver(text)
            return cs, common.split_cases(out), common.split_cases(outl), err
        # the 60-digit references are pure functions of the inputs: computed once per case, in worker processes
        from concurrent.futures import ProcessPoolExecutor
        with ProcessPoolExecutor(max_workers=common.NCPU) as ex:
            for c, ref in zip(cases, ex.map(_reference, cases, chunksize=4)):
                c["_ref"] = ref
        chunks = [cases[i:i + 12] for i in range(0, len(cases), 12)]
        for cs, cpp, lean, err in common.run_parallel(chunk_run, chunks):
            for c in cs:
                n_eval += 1
                text = "\n".join(c["lines"]) + "\n"
                out = cpp.get(c["name"])
                if out is None or not out or out[-1] != "end":
                    sig = "crash:" + corefam.crash_signature(err)
                    rep.violation(sig, "# " + err[:3000].replace("\n", "\n# ") + "\n" + text, True, "the real library aborted on %s: %s" % (c["name"], corefam.crash_signature(err)))
                    oracle_found = True
                    break
                pp = [ln for ln in out if ln.startswith("PP")]
                orc = check_against_reference(c, pp[0], c["ns"] + c["nt"])
                if c["routine"] == "mutual" and len(pp) == 3:
                    ns, nt = c["ns"], c["nt"]
                    m = pp[0].split()[1:]
                    one = pp[1].split()[1:]       # remote(S -> T): targets updated
                    two = pp[2].split()[1:]       # remote(T -> S): (the former sources are the targets, listed last)
                    if m[4 * ns:] != one[4 * ns:]:
                        orc.append(("C20:mutual-targets", "mutual routine and the one-sided routine leave different target values"))
                    # sources: equal to rounding (different summation order)
                    eps = 2.0 ** (-52 if c["real"] == "double" else -23)
                    for i in range(ns):
                        for k in range(4):
                            a = ftree.unbits(int(m[4 * i + k], 16), c["real"])
                            b = ftree.unbits(int(two[4 * (nt + i) + k], 16), c["real"])
                            gain, mag = None, None
                            scale = sum(abs(ftree.unbits(int(x, 16), c["real"])) for x in (m[4 * i + k], two[4 * (nt + i) + k])) + 1e-300
                            if abs(a - b) > (nt + 24) * eps * max(scale, float(reference(c)[1][i][k])):
                                orc.append(("C20:mutual-sources", "mutual routine is not equivalent to two one-sided calls for source %d component %d: %r vs %r" % (i, k, a, b)))
                                break
                for sig, msg in orc[:3]:
                    oracle_found = True
                    rep.violation(sig, "# %s\n%s" % (msg, text), True, "case %s: %s" % (c["name"], msg))
                lo = [ln for ln in lean.get(c["name"], []) if ln.startswith("PP")]
                if lo != pp and not orc:
                    corr_broken.append((c, "bit patterns differ between the library and the Lean Float/Float32 run of the same definitions"))
                distinct.add((c["routine"], c["real"], c["ns"], c["nt"], repr(c["parts"][:2])))
                hist[c["routine"] + "/" + c["real"]] += 1
                hist["n<=8" if c["ns"] + c["nt"] <= 8 else "n>8"] += 1
                if len(samples) < 3 and c["ns"] + c["nt"] > 2:
                    samples.append({"routine": c["routine"], "real": c["real"], "ns": c["ns"], "nt": c["nt"], "first": c["parts"][:2], "kind": c["kind"]})
    for c, msg in corr_broken[:3]:
        rep.violation("corr:p2p", "# correspondence (FP2PR scalar path vs Lean model at Float/Float32) no longer holds: %s\n# the pairwise-law oracle accepts the library's output on this input\n%s\n" % (msg, "\n".join(c["lines"])),
                      False, "case %s: %s" % (c["name"], msg))
    if not proof_ok and not oracle_found:
        rep.violation("proof-broken", "# " + proof_msg.replace("\n", "\n# ") + "\n", False, "proof stage failed: " + proof_msg.split("\n")[0])
    rep.cov["evaluations"] = max(1, n_eval)
    rep.cov["distinct_nontrivial"] = len(distinct)
    rep.cov["rule"] = "seeded: routine x {float,double} x counts 0..500 (around multiples of 4/8/16) x clustered / wide (12 orders of magnitude) / lattice positions, charges of both signs, zero and non-zero initial accumulators; distinct by (routine, type, counts, first particles)"
    rep.cov["shape_histogram"] = dict(hist)
    rep.cov["samples"] = samples or [{"note": "none"}]
    rep.assumptions += ["scalar path only (Inastemp is not present in the sandbox)", "coincident source/target points are not generated (the routines divide by r^2; the library never passes a self pair)",
                        "harness compiled with -ffp-contract=off: the bit-exact tie is to the IEEE operations in source order"]
