"""C16 — cell and leaf lookup finds exactly what exists."""
import core
import gen
from props import corefam, C07

LEVEL = "proof"


def probe_indices(r, D, level, present, exhaustive_limit=300):
    ub = 1 << (D * level)
    if ub + 3 <= exhaustive_limit:
        return list(range(ub + 3))
    s = set(present[:40])
    for c in present[:40]:
        s.update([max(0, c - 1), c + 1])
    s.update([0, ub - 1, ub, ub + 1])
    for _ in range(20):
        s.add(r.randrange(ub + 2))
    return sorted(s)


def gen_cases(tier, seed, configs):
    n = 400 if tier == "quick" else 30000
    cases = []
    for k in range(n):
        r = gen.rng(seed, "C16", k)
        D, H, periodic, kind, parts, bs, mode = corefam.random_tree_params(r, configs, max_n=120, big=(tier != "quick"))
        body = ["dump structure"]
        leaves = sorted(set(gen.encode(D, H - 1, c) for c in parts))
        for l in range(H):
            present = sorted(set(i >> (D * (H - 1 - l)) for i in leaves))
            body.append("find cell %d %s" % (l, " ".join(str(i) for i in probe_indices(r, D, l, present))))
        body.append("find leaf %s" % " ".join(str(i) for i in probe_indices(r, D, H - 1, leaves)))
        # the in-group lookups the operators use: by index and by parent index, on every group of a level
        for l in sorted(set([H - 1, r.randrange(H), r.randrange(H)])):
            present = sorted(set(i >> (D * (H - 1 - l)) for i in leaves))
            body.append("find ingroup %d %s" % (l, " ".join(str(i) for i in probe_indices(r, D, l, present, 60))))
            if l >= 1:
                parents = sorted(set(i >> D for i in present))
                body.append("find parent %d %s" % (l, " ".join(str(i) for i in probe_indices(r, D, l - 1, parents, 60))))
        cases.append(corefam.make_case("c16-%d" % k, D, H, periodic, parts, bs, mode, body, {"kind": kind}))
    return cases


def oracle(case, lines):
    groups, pgroups = C07.parse_structure(core.section(lines, "S "))
    bad = []
    D = case["D"]
    for ln in core.section(lines, "F "):
        t = ln.split()
        if t[1] in ("Q", "G", "H"):
            if t[1] == "H":
                lvl, g, idx, rest = None, int(t[2]), int(t[3]), t[4]
                gs = [[l[0] for l in p["leaves"]] for p in pgroups]
            else:
                lvl, g, idx, rest = int(t[2]), int(t[3]), int(t[4]), t[5]
                gs = [gg["cells"] for gg in groups.get(lvl, [])]
            if not 0 <= g < len(gs):
                bad.append(("C16:ingroup", "in-group lookup reported for a group that does not exist: %s" % ln))
                continue
            keys = [c >> D for c in gs[g]] if t[1] == "Q" else gs[g]
            want = keys.index(idx) if idx in keys else None            # first position
            got = None if rest == "none" else int(rest)
            if got != want:
                what = "parent index" if t[1] == "Q" else "index"
                bad.append(("C16:ingroup-" + ("parent" if t[1] == "Q" else "index"),
                            "in-group lookup by %s %d in group %d of level %s returned %r, the group's %s give %r" % (what, idx, g, lvl, got, "parents" if t[1] == "Q" else "cells", want)))
            continue
        if t[1] == "C":
            lvl, idx, rest = int(t[2]), int(t[3]), t[4:]
            gs = [g["cells"] for g in groups.get(lvl, [])]
        else:
            lvl, idx, rest = None, int(t[2]), t[3:]
            gs = [[l[0] for l in p["leaves"]] for p in pgroups]
        exists = any(idx in g for g in gs)
        if rest == ["none"]:
            if exists:
                bad.append(("C16:missed", "lookup of existing index %d (level %s) returned nothing" % (idx, lvl)))
        else:
            g, k = int(rest[0]), int(rest[1])
            if not exists:
                bad.append(("C16:phantom", "lookup of absent index %d (level %s) returned a handle" % (idx, lvl)))
            elif not (0 <= g < len(gs) and 0 <= k < len(gs[g]) and gs[g][k] == idx):
                bad.append(("C16:position", "lookup of index %d (level %s) returned the wrong group/position" % (idx, lvl)))
    return bad


def evaluate(res):
    corr = []
    cf, lf = core.section(res.cpp, "F "), core.section(res.lean, "F ")
    if cf != lf:
        corr.append(("find", "lookup results differ: %r" % ([(a, b) for a, b in zip(cf, lf) if a != b][:3],)))
    if core.section(res.cpp, "S ") != core.section(res.lean, "S "):
        corr.append(("structure", "structure dumps differ"))
    orc = oracle(res.case, res.cpp) + [("C16:X", x) for x in core.section(res.cpp, "X ")]
    return corr, orc


def tsm_family(rep, tier, seed, replay=None):
    """the four lookups of a target/source tree (cells and leaves, source and target side) against the structure of that side"""
    import tsm
    from props import C09
    binaries, bad = tsm.build(corefam.ALL_CONFIGS, starpu=True)
    if not binaries:
        if bad:
            first = sorted(bad.items())[0]
            rep.violation("harness-does-not-compile:tsm", first[1][-4000:], False, "no configuration of harness/h_tsm.cpp compiles against /repo/src (the target/source interface changed)")
        return
    usable = [c for c in corefam.ALL_CONFIGS if c in binaries]
    cases = [tsm.parse_replay(replay)] if replay else C09.gen_cases("quick", seed + 53, usable)[:(60 if tier == "quick" else 1500)]
    n = 0
    for res in core.run_cases(cases, binaries):
        n += 1
        c = res.case
        text = "\n".join(c["lines"]) + "\n"
        if res.crash is not None:
            rep.violation("crash:" + corefam.crash_signature(res.crash), "# harness aborted inside this target/source case\n# " + res.crash.replace("\n", "\n# ") + "\n" + text, True,
                          "the real library aborted on target/source case %s: %s" % (c["name"], corefam.crash_signature(res.crash)))
            continue
        if res.cpp is None or res.lean is None:
            continue
        head = [ln for ln in res.cpp if ln[:2] in ("sS", "tS") or ln.startswith("F ")]
        for sig, msg in C09.structure_checks(c, head):
            if sig.startswith("C09:lookup"):
                rep.violation("C16:tsm-" + sig.split(":")[1], "# %s\n%s" % (msg, text), True, "target/source case %s: %s" % (c["name"], msg))
        lhead = [ln for ln in res.lean if ln.startswith("F ")]
        if [ln for ln in head if ln.startswith("F ")] != lhead and not any(s_.startswith("C09:lookup") for s_, _ in C09.structure_checks(c, head)):
            rep.violation("corr:tsm-find", "# target/source lookups differ between library and model\n" + text, False, "target/source case %s: lookups differ between library and model" % c["name"])
    rep.cov["target_source_lookup_cases"] = n


def run(rep, tier, seed, replay, proof_ok, proof_msg):
    if replay and any(ln.startswith("partsS ") for ln in open(replay)):
        tsm_family(rep, tier, seed, replay)
        return
    corefam.standard_run(rep, tier, seed, replay, proof_ok, proof_msg, gen_cases, evaluate)
    if not replay:
        tsm_family(rep, tier, seed)
    rep.assumptions += ["source/target trees: the four lookups are probed on C09's input families (present, absent, gap and out-of-range indices on both sides)"]
