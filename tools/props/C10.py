"""C10 — periodic mode: one contribution from every image in the repetition cube."""
import collections
import itertools

import core
import gen
from props import corefam, C02

LEVEL = "proof"

NSLOT, BITS = 16, 64


def weight(p):
    return 1 << (BITS * (p % NSLOT))


def dec7(D, code):
    v = []
    for _ in range(D):
        v.append(code % 7 - 3)
        code //= 7
    return v[::-1]


def gen_cases(tier, seed, configs):
    n_cases = 200 if tier == "quick" else 3000
    cases = []
    pconfigs = [c for c in configs if c[1] == 1]
    for k in range(n_cases):
        r = gen.rng(seed, "C10", k)
        D, periodic = r.choice(pconfigs)
        H = max(2, gen.pick_height(r, D))
        kind = r.choice(gen.KINDS + ["corner"])
        npart = r.choice([1, 2, 3, 5, 8, 13, 16])
        parts = [tuple(0 for _ in range(D))] * npart if kind == "corner" else gen.gen_particles(r, D, H, kind, npart)
        parts = parts[:16]
        bs = gen.pick_bs(r, len(set(parts)))
        mode = r.randrange(2)
        nmax = {1: 5, 2: 5, 3: 4 if tier == "quick" else 5, 4: 2 if tier == "quick" else 3}[D]
        n = r.randint(-1, nmax)
        omp = r.random() < 0.35
        extra = " omp=1 sched=%d seed=%d workers=%d" % (r.choice([0, 1, 2, 3]), r.randrange(1, 10 ** 6), r.choice([1, 2, 8])) if omp else ""
        offs = []
        if k % 3 == 1:
            # particles on the faces of their cells — for boundary cells, on the periodic boundary faces of the box — or one ulp inside them
            offs = ["offs %d %s" % (len(parts), " ".join(str(r.choice([0, 1, 1, 2, 3])) for _ in range(len(parts) * D)))]
        lines = ["case c10-%d" % k, "tree D=%d H=%d periodic=1 slotbits=64" % (D, H), "parts %d %s" % (len(parts), " ".join(str(x) for c in parts for x in c))] + offs + \
                ["build bs=%d mode=%d" % (bs, mode), "exec periodic n=%d%s" % (n, extra), "dump values", "end"]
        cases.append({"name": "c10-%d" % k, "D": D, "H": H, "periodic": 1, "parts": parts, "bs": bs, "mode": mode, "lines": lines,
                      "meta": {"n": n, "omp": omp, "kind": kind}})
    return cases


def top_kernel_clause(c, res, corr, orc):
    """the kernel the top tree builds for itself works on the virtual box above the real one"""
    tk_c, tk_l = [ln for ln in res.cpp if ln.startswith("TK ")], [ln for ln in res.lean if ln.startswith("TK ")]
    nn = c["meta"]["n"]
    want_tk = "TK %d %d 2" % (nn + 5, 4 if nn < 0 else 8 << nn)
    if tk_c and tk_c[0] != want_tk:
        orc.append(("C10:top-kernel-config", "the top tree's own kernel was built from (height, width, 2*centre offset) = %s; the virtual tree above %d extra level(s) is %s" % (tk_c[0][3:], nn, want_tk[3:])))
    if tk_c != tk_l:
        corr.append(("top-kernel-config", "top-tree kernel configuration differs (library %r, model %r)" % (tk_c, tk_l)))


def covered_images(case, lines):
    """multiset of image offsets (in units of the real box) whose contribution reaches the real box, reconstructed from the
    calls the library actually made: the regular periodic pass accounts for [-1,1]^D (checked separately through C01's closed forms
    with upper level 1); every top-tree transfer at extended level l sums copies of the super-box of 2^(n+3-l) boxes per dimension
    at the offsets its position codes decode to; the downward chain hands the result to child 0 (the real box)."""
    D, n = case["D"], case["meta"]["n"]
    imgs = collections.Counter()
    for k in itertools.product((-1, 0, 1), repeat=D):
        imgs[k] += 1
    if n < 0:
        return imgs, []
    bad = []
    top = n + 3
    m2m_levels, l2l_levels = [], []
    # beyond 3*10^5 image boxes the boxes are not enumerated one by one: the transfer windows are compared with the
    # windows of the statement (level 3: [-3,2]^D, or [-3,3]^D when n = 0; above: [-2,3]^D; minus [-1,1]^D) and only
    # the number of boxes is accumulated — by C10_cover / C10_disjoint these windows tile the interval exactly
    big = (6 * (1 << n)) ** D > 300000
    nbig = 3 ** D
    for ln in lines:
        if not ln.startswith("CT "):
            continue
        t = ln.split()
        op, l = t[1], int(t[2])
        items = [tuple(int(x) for x in sc.split(":")) for sc in t[5:]]
        if int(t[4]) != len(items) or len(items) == 0:
            bad.append(("C10:top-empty", "top tree %s at level %d called with an empty / inconsistent list" % (op, l)))
        if op == "M2M":
            m2m_levels.append(l)
            if l == top:
                for c, code in items:
                    if code != (c & ((1 << D) - 1)):
                        bad.append(("C10:top-childcode", "top tree M2M hands level-1 cell %d over with position code %d" % (c, code)))
            elif sorted(code for _, code in items) != list(range(1 << D)):
                bad.append(("C10:top-m2m", "top tree M2M at level %d does not assemble the 2^D copies (codes %r)" % (l, sorted(code for _, code in items))))
        elif op == "L2L":
            l2l_levels.append(l)
            if l == top:
                for c, code in items:
                    if code != (c & ((1 << D) - 1)):
                        bad.append(("C10:top-childcode", "top tree L2L hands the result to level-1 cell %d with position code %d" % (c, code)))
            elif [code for _, code in items] != [0]:
                bad.append(("C10:top-l2l", "top tree L2L at level %d passes the result to child code(s) %r instead of the real box's corner (0)" % (l, [code for _, code in items])))
        elif op == "M2L":
            w = 1 << (top - l)
            for _, code in items:
                o = dec7(D, code)
                if all(abs(x) <= 1 for x in o):
                    bad.append(("C10:top-adjacent", "top tree transfer at level %d includes an adjacent super-box (offset %r)" % (l, o)))
                if not big:
                    for rr in itertools.product(range(w), repeat=D):
                        imgs[tuple(o[d] * w + rr[d] for d in range(D))] += 1
            if big:
                lo, hi = ((-3, 3) if n == 0 else (-3, 2)) if l == 3 else (-2, 3)
                expect = sorted(o for o in itertools.product(range(lo, hi + 1), repeat=D) if not all(abs(x) <= 1 for x in o))
                got = sorted(tuple(dec7(D, code)) for _, code in items)
                if got != expect:
                    bad.append(("C10:top-window", "top tree transfer at level %d covers the offsets %r..., the statement's window is %r..." % (l, got[:3], expect[:3])))
                nbig += len(items) * w ** D
    if sorted(m2m_levels, reverse=True) != list(range(top, 2, -1)) or sorted(l2l_levels) != list(range(3, top + 1)):
        bad.append(("C10:top-levels", "top tree visits levels M2M %r / L2L %r, expected %d..3 and 3..%d" % (m2m_levels, l2l_levels, top, top)))
    if big:
        return collections.Counter({"boxes": nbig}), bad
    return imgs, bad


def evaluate(res):
    c = res.case
    D, n = c["D"], c["meta"]["n"]
    corr, orc = [], []
    ce, le = core.elems_of_calls(res.cpp), core.elems_of_calls(res.lean)
    ct_c, ct_l = sorted(core.section(res.cpp, "CT ")), sorted(core.section(res.lean, "CT "))
    if ce != le:
        a, b, na, nb = core.multiset_diff(ce, le)
        corr.append(("elems", "regular-pass interactions differ: only in library %r (%d), only in model %r (%d)" % (a, na, b, nb)))
    if [sorted(x.split()) for x in ct_c] != [sorted(x.split()) for x in ct_l]:
        d = [(a[:80], b[:80]) for a, b in zip(ct_c, ct_l) if sorted(a.split()) != sorted(b.split())][:2]
        corr.append(("top-calls", "top-tree calls differ (library, model): %r" % (d or (len(ct_c), len(ct_l)),)))
    cv, lv = sorted(core.section(res.cpp, "V ")), sorted(core.section(res.lean, "V "))
    if cv != lv:
        corr.append(("values", "values differ between library and model"))
    top_kernel_clause(c, res, corr, orc)
    # the reported interval
    pi = [ln for ln in res.cpp if ln.startswith("PI ")]
    if not pi:
        return corr, orc + [("C10:no-interval", "no repetition interval reported")]
    t = pi[0].split()
    R, total = int(t[1]), int(t[2])
    iv = [tuple(int(x) for x in s.split(":")) for s in t[3:]]
    if any(hi - lo + 1 != R for lo, hi in iv) or total != R ** D:
        orc.append(("C10:interval", "reported interval %r inconsistent with %d repetitions per dimension / %d in total" % (iv, R, total)))
    imgs, bad = covered_images(c, res.cpp)
    orc += bad
    want = collections.Counter({k: 1 for k in itertools.product(*[range(lo, hi + 1) for lo, hi in iv])}) if R ** D <= 300000 else None
    if want is not None and imgs != want:
        extra = list((imgs - want).elements())[:3]
        miss = list((want - imgs).elements())[:3]
        orc.append(("C10:images", "image boxes reached: %r counted in excess, %r missing w.r.t. the reported interval %r" % (extra, miss, iv[0])))
    elif want is None and sum(imgs.values()) != R ** D:
        orc.append(("C10:images", "number of image boxes reached %d != %d" % (sum(imgs.values()), R ** D)))
    # every particle: one contribution from every image of every particle, none from itself in the central box
    npart = len(c["parts"])
    per_slot = [0] * NSLOT
    for q in range(npart):
        per_slot[q % NSLOT] += total
    for ln in core.section(res.cpp, "V R "):
        tt = ln.split()
        p, v = int(tt[2]), int(tt[3], 16)
        got = [(v >> (BITS * s)) & ((1 << BITS) - 1) for s in range(NSLOT)]
        exp = list(per_slot)
        exp[p % NSLOT] -= 1
        if got != exp:
            s_ = [s for s in range(NSLOT) if got[s] != exp[s]][0]
            orc.append(("C10:count", "n=%d: particle %d accumulated %d contributions from particle slot %d, the reported interval implies %d" % (n, p, got[s_], s_, exp[s_])))
            break
    orc += [("C10:X", x) for x in core.section(res.cpp, "X ")]
    orc += [(s_, m) for s_, m in C02.call_predicates(c, [ln for ln in res.cpp if ln.startswith("C ")])]
    return corr, orc[:6]


def gen_tsm_cases(tier, seed, configs):
    import tsm
    cases = []
    for k in range(60 if tier == "quick" else 800):
        r = gen.rng(seed, "C10tsm", k)
        D, periodic = r.choice(configs)
        H = max(2, gen.pick_height(r, D))
        kind, src, tgt = tsm.gen_sets(r, D, H, max_n=12)
        src, tgt = src[:16], tgt[:16]
        bs = gen.pick_bs(r, max(len(set(src)), len(set(tgt))))
        mode = r.randrange(2)
        n = r.randint(-1, {1: 5, 2: 4, 3: 3, 4: 2}[D])
        c = tsm.make_case("c10t-%d" % k, D, H, 1, src, tgt, bs, mode, ["exec periodictsm n=%d" % n, "dump tsmvalues"], {"n": n, "omp": False, "kind": "tsm-" + kind})
        c["lines"][1] += " slotbits=64"
        cases.append(c)
    return cases


def evaluate_tsm(res):
    c = res.case
    D, n = c["D"], c["meta"]["n"]
    corr, orc = [], []
    if core.elems_of_calls(res.cpp) != core.elems_of_calls(res.lean):
        corr.append(("tsm-elems", "target/source periodic run: regular-pass interactions differ between library and model"))
    ct_c, ct_l = sorted(core.section(res.cpp, "CT ")), sorted(core.section(res.lean, "CT "))
    if [sorted(x.split()) for x in ct_c] != [sorted(x.split()) for x in ct_l]:
        d = [(a[:80], b[:80]) for a, b in zip(ct_c, ct_l) if sorted(a.split()) != sorted(b.split())][:2]
        corr.append(("tsm-top-calls", "target/source top-tree calls differ (library, model): %r" % (d or (len(ct_c), len(ct_l)),)))
    if sorted(core.section(res.cpp, "V ")) != sorted(core.section(res.lean, "V ")):
        corr.append(("tsm-values", "target/source periodic run: values differ between library and model"))
    top_kernel_clause(c, res, corr, orc)
    pi = [ln for ln in res.cpp if ln.startswith("PI ")]
    if not pi:
        return corr, orc + [("C10:no-interval", "no repetition interval reported")]
    t = pi[0].split()
    R, total = int(t[1]), int(t[2])
    iv = [tuple(int(x) for x in s_.split(":")) for s_ in t[3:]]
    imgs, bad = covered_images(c, res.cpp)
    orc += bad
    if R ** D <= 300000:
        want = collections.Counter({k: 1 for k in itertools.product(*[range(lo, hi + 1) for lo, hi in iv])})
        if imgs != want and c["src"] and c["tgt"]:
            orc.append(("C10:tsm-images", "target/source top tree: image boxes reached differ from the reported interval %r" % (iv[0],)))
    per_slot = [0] * NSLOT
    for q in range(len(c["src"])):
        per_slot[q % NSLOT] += total
    if c["src"]:
        for ln in core.section(res.cpp, "V R "):
            tt = ln.split()
            v = int(tt[3], 16)
            got = [(v >> (BITS * s_)) & ((1 << BITS) - 1) for s_ in range(NSLOT)]
            if got != per_slot:
                orc.append(("C10:tsm-count", "n=%d: target particle %s accumulated %r..., one contribution from every source image would be %r..." % (n, tt[2], got[:4], per_slot[:4])))
                break
    orc += [("C10:X", x) for x in core.section(res.cpp, "X ")]
    return corr, orc[:5]


def run(rep, tier, seed, replay, proof_ok, proof_msg):
    configs = [(1, 1), (2, 1), (3, 1), (4, 1)]
    binaries, bad = core.build_harnesses(configs, omp=True, wide=True)
    if not binaries:
        rep.violation("harness-does-not-compile", sorted(bad.items())[0][1][-4000:], False, "the periodic harness does not compile against /repo/src")
        return
    usable = [c for c in configs if c in binaries]
    tsm_replay = bool(replay) and "partsS" in open(replay).read()
    if tsm_replay:
        import tsm
        c = tsm.parse_replay(replay)
        ex = [ln for ln in c["lines"] if ln.startswith("exec periodic")][0].split()
        c["meta"] = {"n": int([t for t in ex if t.startswith("n=")][0][2:]), "omp": False, "kind": "replay"}
        c["tsm"] = True
        tbin, tbad = tsm.build(configs, omp=True, wide=True)
        cases = []
        binaries = dict(binaries)
        tsm_results = core.run_cases([c], tbin, chunk=8)
    elif replay:
        c = corefam.parse_replay(replay)
        ex = [ln for ln in c["lines"] if ln.startswith("exec periodic")][0].split()
        c["meta"] = {"n": int([t for t in ex if t.startswith("n=")][0][2:]), "omp": "omp=1" in ex, "kind": "replay"}
        cases = [c]
    else:
        cases = gen_cases(tier, seed, usable)
    results = core.run_cases(cases, binaries, chunk=8)
    if tsm_replay:
        results += tsm_results
    if not replay:
        import tsm
        tbin, tbad = tsm.build(configs, omp=True, wide=True)
        if tbin:
            tres = core.run_cases(gen_tsm_cases(tier, seed, sorted(tbin)), tbin, chunk=8)
            for r_ in tres:
                r_.case["tsm"] = True
            results += tres
        else:
            rep.notes.append("target/source periodic harness does not compile (reported by C19)")
    n_eval, distinct, hist, samples, corr_broken, oracle_found = 0, set(), collections.Counter(), [], [], False
    for res in results:
        c = res.case
        n_eval += 1
        text = "\n".join(c["lines"]) + "\n"
        if res.crash is not None:
            sig = "crash:" + corefam.crash_signature(res.crash)
            rep.violation(sig, "# " + res.crash.replace("\n", "\n# ") + "\n" + text, True, "the real library aborted on case %s: %s" % (c["name"], corefam.crash_signature(res.crash)))
            oracle_found = True
            continue
        if res.cpp is None:
            continue
        if res.lean is None or not res.lean or res.lean[-1] != "end":
            rep.violation("lean-driver-error", "# Lean driver produced no complete output\n" + text, False, "Lean driver failed on case %s" % c["name"])
            continue
        corr, orc = evaluate_tsm(res) if c.get("tsm") else evaluate(res)
        for sig, msg in orc:
            oracle_found = True
            rep.violation(sig, "# property oracle failed on the implementation's output: %s\n%s" % (msg, text), True, "case %s: %s" % (c["name"], msg))
        if corr and not orc:
            corr_broken.append((res, corr))
        distinct.add(repr((c["D"], c["H"], sorted(c["parts"]), c["bs"], c["mode"], c["meta"]["n"])))
        hist["D=%d" % c["D"]] += 1
        hist["n=%d" % c["meta"]["n"]] += 1
        hist["omp" if c["meta"]["omp"] else "seq"] += 1
        if len(samples) < 3:
            samples.append({"D": c["D"], "H": c["H"], "n": c["meta"]["n"], "cells": sorted(set(c["parts"]))[:6], "bs": c["bs"], "mode": c["mode"]})
    for res, corr in corr_broken[:3]:
        sig, msg = corr[0]
        rep.violation("corr:" + sig, "# correspondence (periodic run incl. top tree vs Lean model) no longer holds: %s\n# the property's oracle accepts the implementation's output on this input\n%s\n" % (msg, "\n".join(res.case["lines"])),
                      False, "case %s: model and implementation disagree (%s) but no property failure was found" % (res.case["name"], msg))
    if not proof_ok and not oracle_found:
        rep.violation("proof-broken", "# " + proof_msg.replace("\n", "\n# ") + "\n", False, "proof stage failed: " + proof_msg.split("\n")[0])
    rep.cov["evaluations"] = n_eval
    rep.cov["programs"] = max(1, n_eval)
    rep.cov["disagreements_checked"] = len(corr_broken)
    rep.cov["distinct_nontrivial"] = len(distinct)
    rep.cov["rule"] = "seeded periodic trees (D=1..4, heights >= 2, up to 16 particles incl. all in one corner leaf) x extra levels n=-1..5 (bounded per dimension so that 64-bit counters suffice) x sequential / OpenMP(mock); distinct by (input, n)"
    rep.cov["shape_histogram"] = dict(hist)
    rep.cov["samples"] = samples or [{"note": "none"}]
    rep.assumptions += ["unit cubic box, positions at cell centres (the displacement of images handed to kernels is checked on every direct call by the recording kernel through TbfPeriodicShifter)",
                        "target/source top tree: exercised by the C09/C10 Tsm harness when built"]
