"""C14 — group buffers are self-describing flat memory: byte copies are equivalent views."""
import collections
import json
import os

import common
import core
import gen
from props import corefam

LEVEL = "proof"

TYPES = json.load(open(os.path.join(common.HARNESS, "h_layout_types.json")))


def descr(blocks):
    return " ".join("%s:%d:%d" % tuple(b) for b in blocks)


def interesting_counts(r, size):
    per = max(1, 64 // size) if size <= 64 else 1
    return r.choice([0, 1, 2, per - 1 if per > 1 else 1, per, per + 1, 2 * per, 2 * per + 1, 7, 100, r.randint(0, 300), r.choice([1000, 4096, 10000])])


def gen_layout_cases(tier, seed):
    n = 240 if tier == "quick" else 30000
    cases = []
    for k in range(n):
        r = gen.rng(seed, "C14", k)
        tid = k % len(TYPES)
        blocks = TYPES[tid]

        def counts():
            ns = []
            for kind, size, rows in blocks:
                c = 1 if kind == "S" else interesting_counts(r, size)
                if size >= 4096 and c > 300:
                    c = r.randint(0, 50)
                ns.append(c)
            return ns
        ns = counts()
        lines = ["case c14-%d" % k, "layout %d %s | %s" % (tid, descr(blocks), " ".join(map(str, ns))), "copy", "move"]
        hist = [ns]
        for _ in range(r.choice([0, 1, 2])):
            ns2 = counts()
            if r.random() < 0.6:
                ns2 = [min(a, b) if blocks[i][0] != "S" else 1 for i, (a, b) in enumerate(zip(ns2, ns))]   # shrink: buffer is reused
            lines += ["reuse %s" % " ".join(map(str, ns2)), "copy"]
            hist.append(ns2)
        lines.append("end")
        cases.append({"name": "c14-%d" % k, "lines": lines, "blocks": blocks, "hist": hist, "tid": tid})
    return cases


def check_layout_output(case, lines):
    """C14's clauses evaluated on the real library's addresses"""
    blocks = case["blocks"]
    nb = len(blocks)
    bad = []
    stage = -1
    cur = None
    ly_lines, view_lines = None, None
    groups = []
    for ln in lines:
        if ln[:3] in ("LY ", "CPV", "MVV"):
            cur = {"tag": ln.split()[0], "hdr": ln, "addrs": []}
            groups.append(cur)
        elif ln.startswith("A ") and cur is not None:
            cur["addrs"].append(tuple(int(x) for x in ln.split()[1:]))
        elif ln.startswith("CP "):
            if "bad=0" not in ln:
                bad.append(("C14:copy", "a byte copy viewed through the raw-memory constructor returns different values: %s" % ln))
        elif ln.startswith("MV ") or ln.startswith("MA "):
            if "same=1" not in ln or "srcnull=1" not in ln:
                bad.append(("C14:move", "move construction/assignment did not transfer the buffer: %s" % ln))
        elif ln.startswith("X "):
            bad.append(("C14:X", ln))
    last_ly = None
    for g in groups:
        kv = dict(t.split("=") for t in g["hdr"].split()[1:])
        alloc = int(kv["alloc"])
        toff = [int(x) for x in kv["toff"].split(",")]
        tcnt = [int(x) for x in kv["tcnt"].split(",")]
        if g["tag"] == "LY":
            stage += 1
            last_ly = g
            if tcnt != case["hist"][stage]:
                bad.append(("C14:trailer", "trailer item counts %r != requested %r" % (tcnt, case["hist"][stage])))
        else:
            if last_ly is not None and (g["addrs"] != last_ly["addrs"] or g["hdr"].split()[1:] != last_ly["hdr"].split()[1:]):
                bad.append(("C14:view", "%s: accessor addresses / trailer of the copy differ from the original" % g["tag"]))
        ends = toff[1:] + [alloc - 16 * nb]
        if any(a > b for a, b in zip(toff, toff[1:])) or toff[0] != 0 or (toff and toff[-1] > alloc - 16 * nb):
            bad.append(("C14:offsets", "block offsets %r are not increasing inside the buffer of %d bytes" % (toff, alloc)))
        for (b, i, row, addr) in g["addrs"]:
            kind, size, rows = blocks[b]
            if not (toff[b] <= addr and addr + size <= ends[b]):
                bad.append(("C14:bounds", "block %d item %d row %d: bytes [%d,%d) leave the block [%d,%d)" % (b, i, row, addr, addr + size, toff[b], ends[b])))
            if (64 % size == 0 or size % 64 == 0) and addr % min(size, 64) != 0:
                bad.append(("C14:align", "block %d item %d row %d at offset %d is not aligned to %d" % (b, i, row, addr, min(size, 64))))
        # distinct sampled elements of one block do not overlap
        by_block = collections.defaultdict(set)
        for (b, i, row, addr) in g["addrs"]:
            by_block[b].add((i, row, addr))
        for b, items in by_block.items():
            size = blocks[b][1]
            srt = sorted(set(a for _, _, a in items))
            if len(srt) != len(set((i, r) for i, r, _ in items)) and blocks[b][0] != "S":
                bad.append(("C14:overlap", "two different elements of block %d share an address" % b))
            if any(y - x < size for x, y in zip(srt, srt[1:])):
                bad.append(("C14:overlap", "two elements of block %d overlap" % b))
    return bad[:5]


def run(rep, tier, seed, replay, proof_ok, proof_msg):
    res = common.build_many([{"name": "h_layout", "sources": ["h_layout.cpp"], "flags": []}])
    path, log = res["h_layout"]
    n_eval, distinct, hist, samples = 0, set(), collections.Counter(), []
    oracle_found = False
    corr_broken = []
    ftree_replay = bool(replay) and any(ln.startswith("ftree ") for ln in open(replay))
    if not path:
        rep.violation("harness-does-not-compile", log[-4000:], False, "harness/h_layout.cpp does not compile against /repo/src: the layout correspondence cannot be checked")
    elif not ftree_replay:
        if replay:
            lines = [ln.rstrip("\n") for ln in open(replay) if ln.strip() and not ln.startswith("#")]
            tid = int([ln for ln in lines if ln.startswith("layout ")][0].split()[1])
            hist_ns = [[int(x) for x in ln.split("|")[1].split()] for ln in lines if ln.startswith("layout ")] + [[int(x) for x in ln.split()[1:]] for ln in lines if ln.startswith("reuse ")]
            cases = [{"name": lines[0][5:].strip(), "lines": lines, "blocks": TYPES[tid], "hist": hist_ns, "tid": tid}]
        else:
            cases = gen_layout_cases(tier, seed)

        def chunk_run(cs):
            text = "\n".join("\n".join(c["lines"]) for c in cs) + "\n"
            rc, out, err = common.run_harness(path, text)
            rcl, outl, errl = common.run_driver(text)
            return cs, common.split_cases(out), common.split_cases(outl), rc, err
        chunks = [cases[i:i + 20] for i in range(0, len(cases), 20)]
        for cs, cpp, lean, rc, err in common.run_parallel(chunk_run, chunks):
            for c in cs:
                n_eval += 1
                text = "\n".join(c["lines"]) + "\n"
                out = cpp.get(c["name"])
                if out is None or not out or out[-1] != "end":
                    sig = "crash:" + corefam.crash_signature(err)
                    rep.violation(sig, "# " + err[:3000].replace("\n", "\n# ") + "\n" + text, True, "the real library aborted on layout case %s: %s" % (c["name"], corefam.crash_signature(err)))
                    oracle_found = True
                    break
                orc = check_layout_output(c, out)
                for sig, msg in orc:
                    oracle_found = True
                    rep.violation(sig, "# %s\n%s" % (msg, text), True, "case %s (layout %s): %s" % (c["name"], descr(c["blocks"]), msg))
                lo = lean.get(c["name"], [])
                a = [ln for ln in out if ln[:2] in ("LY", "A ", "CP", "MV") and not ln.startswith("CP ") and not ln.startswith("MV ") and not ln.startswith("MA ")]
                b = [ln for ln in lo if ln[:2] in ("LY", "A ", "CP", "MV")]
                if a != b and not orc:
                    d = [(x, y) for x, y in zip(a, b) if x != y][:2]
                    corr_broken.append((c, "sizes / offsets / accessor addresses differ (library, model): %r" % (d or (len(a), len(b)),)))
                distinct.add((c["tid"], repr(c["hist"])))
                hist["blocks=%d" % len(c["blocks"])] += 1
                hist["stages=%d" % len(c["hist"])] += 1
                if len(samples) < 3:
                    samples.append({"layout": descr(c["blocks"]), "item_counts": c["hist"]})
        # byte copies of the groups of real trees
        binaries, bad = core.build_harnesses([(3, 0), (2, 1), (4, 0)])
        tcases = []
        for k in range(60 if tier == "quick" else 600):
            r = gen.rng(seed, "C14t", k)
            D, H, periodic, kind, parts, bs, mode = corefam.random_tree_params(r, sorted(binaries), max_n=64)
            tcases.append(corefam.make_case("c14t-%d" % k, D, H, periodic, parts, bs, mode, ["bytecopy", "exec seq flags=63 upper=%d" % (1 if periodic else 2), "bytecopy"]))
        for r_ in core.run_cases(tcases, binaries):
            n_eval += 1
            if r_.crash is not None:
                rep.violation("crash:" + corefam.crash_signature(r_.crash), "# " + r_.crash.replace("\n", "\n# ") + "\n" + "\n".join(r_.case["lines"]) + "\n", True, "library aborted on %s" % r_.case["name"])
                oracle_found = True
                continue
            for ln in core.section(r_.cpp or [], "BC "):
                if "bad=0" not in ln:
                    oracle_found = True
                    rep.violation("C14:treecopy", "# %s\n%s\n" % (ln, "\n".join(r_.case["lines"])), True, "byte copy of a tree group is not an equivalent view: %s" % ln)
            distinct.add(("tree", repr(sorted(r_.case["parts"])), r_.case["bs"], r_.case["mode"]))
    if (path and not replay) or ftree_replay:
        # the same on trees of every scalar configuration whose multipole and local types have different sizes (construction harness),
        # through both raw-memory constructors
        import ftree
        fbin, fbad = ftree.build_all()
        fcases = []
        if replay:
            fcases = [ftree.parse_replay(replay)]
        else:
            cfgs = [c for c in sorted(fbin) if c[4] > 0]
            for k in range((40 if tier == "quick" else 600) if cfgs else 0):
                r = gen.rng(seed, "C14f", k)
                fcases.append(ftree.make_case("c14f-%d" % k, cfgs[k % len(cfgs)], r, tier, False, False))
        for r_ in ftree.run_cases(fcases, fbin):
            n_eval += 1
            text = "# cfg=%r\n" % (r_.case["cfg"],) + "\n".join(r_.case["lines"]) + "\n"
            if r_.crash is not None:
                rep.violation("crash:" + corefam.crash_signature(r_.crash), "# " + r_.crash.replace("\n", "\n# ") + "\n" + text, True, "library aborted on %s" % r_.case["name"])
                oracle_found = True
                continue
            for ln in core.section(r_.cpp or [], "BC "):
                if "bad=0" not in ln:
                    oracle_found = True
                    rep.violation("C14:treecopy-types", "# %s\n%s" % (ln, text), True,
                                  "byte copy of a group of a tree (configuration %r, multipole and local of different sizes) is not an equivalent view: %s" % (r_.case["cfg"], ln))
            distinct.add(("ftree", r_.case["name"]))
    for c, msg in corr_broken[:3]:
        rep.violation("corr:layout", "# correspondence (TbfMemoryBlock vs Lean layout model) no longer holds: %s\n# the property's oracle accepts the library's addresses on this input\n%s\n" % (msg, "\n".join(c["lines"])),
                      False, "case %s: %s" % (c["name"], msg))
    if not proof_ok and not oracle_found:
        rep.violation("proof-broken", "# " + proof_msg.replace("\n", "\n# ") + "\n", False, "proof stage failed: " + proof_msg.split("\n")[0])
    rep.cov["evaluations"] = max(1, n_eval)
    rep.cov["distinct_nontrivial"] = len(distinct)
    rep.cov["rule"] = "40 fixed block layouts (1-4 blocks of scalar / vector / multi-row kinds, element sizes 1..4096) x seeded item counts around alignment boundaries, with buffer reuse, byte copy and move; plus byte copies of every group of random trees before and after execution; distinct by (layout, counts history) / tree input"
    rep.cov["shape_histogram"] = dict(hist)
    rep.cov["samples"] = samples or [{"note": "none"}]
    rep.assumptions += ["element types are byte arrays (alignment 1): alignment is checked relative to the buffer start", "operators on copied groups: only accessors are compared (the operators read through exactly these accessors)"]
